"""F-C07b: SqliteDB.get of a missing task must not make in_ true."""
from _util import *
from doit.dependency import SqliteDB, JSONCodec
with scratch():
    d = SqliteDB('db', JSONCodec())
    d.get('nope', 'k')
    done(d.in_('nope') is False, 'in_ after get of missing task = %s' % d.in_('nope'))
