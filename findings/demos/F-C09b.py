"""F-C09b: task c that is both calc_dep and task_dep of a: thread runner must not crash/hang."""
from _util import *
import threading, time
res = {}
def go():
    with scratch():
        log = []
        ns = {
          'task_c': lambda: {'actions': [lambda: time.sleep(0.2) or {'file_dep': []}]},
          'task_a': lambda: {'actions': [lambda: log.append('a') or True], 'calc_dep': ['c'], 'task_dep': ['c']},
        }
        try:
            res['r'] = run_doit(ns, ['run', '-n', '2', '-P', 'thread']) + (log,)
        except BaseException as ex:
            res['r'] = ('exc', repr(ex), '', log)
t = threading.Thread(target=go, daemon=True); t.start(); t.join(15)
if t.is_alive():
    print('DEFECT: hang', flush=True, file=sys.__stdout__); os._exit(1)
ok = res['r'][0] == 0 and res['r'][3] == ['a']
print(('OK ' if ok else 'DEFECT: ') + repr(res['r'])[:400], flush=True, file=sys.__stdout__); os._exit(0 if ok else 1)
