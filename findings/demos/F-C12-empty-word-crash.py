"""F-C12-empty-word-crash: an empty word on the command line (`doit run t1 ""`, e.g. an unset shell variable) must be
rejected like any unknown name (ERROR, exit 3, nothing executed), not escape DoitMain.run as an IndexError."""
from _util import *
bad = []
for argv in (['run', 't1', ''], ['run', ''], ['t1', '']):
    with scratch():
        log = []
        ns = {'task_t1': lambda: {'actions': [lambda: log.append('t1') or True]}}
        try:
            code, out, err = run_doit(ns, argv)
        except Exception as ex:  # noqa
            bad.append('%s: %s escaped DoitMain.run' % (argv, type(ex).__name__))
            continue
        if code != 3 or log or 'ERROR' not in err:
            bad.append('%s: exit %s executed %s stderr %r' % (argv, code, log, err[:60]))
done(not bad, '; '.join(bad) or 'an empty word is rejected with exit 3')
