"""F-C13a: `doit forget` with no args and no default_tasks forgets all tasks (no traceback)."""
from _util import *
with scratch():
    open('f', 'w').write('x')
    log = []
    ns = {'task_t1': lambda: {'actions': [lambda: log.append('t1') or True], 'file_dep': ['f']}}
    run_doit(ns, ['run'])
    run_doit(ns, ['run'])
    code, o, e = run_doit(ns, ['forget'])
    run_doit(ns, ['run'])
    done(code in (0, None) and log == ['t1', 't1'], 'forget exit=%s log=%s err=%r' % (code, log, e[-200:]))
