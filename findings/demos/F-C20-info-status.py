"""F-C20 (a), (b) (repaired by commit e6acbba): the status `doit info` shows is the decision `doit run` takes (as `list -s` already does).
Two scenarios; in each, `list -s` agrees with `run` and `info` does not ((c), the ignored task, is repaired:
F-C20-info-ignore.py):
 (a) a file_dep missing + another one modified      run: dependency error   list: E   info: run
 (b) false uptodate item + the only file_dep missing run: executes the task  list: R   info: error"""
import os, re
from _util import *


def world(log, uptodate=None):
    def act():
        log.append('t')
        return True
    def task_t():
        d = {'actions': [act], 'file_dep': ['a', 'b'], 'verbosity': 0}
        if uptodate is not None:
            d['uptodate'] = list(uptodate)
            d['file_dep'] = ['a']
        return d
    return {'task_t': task_t}


def shown(ns):
    code, out, err = run_doit(ns, ['info', 't'])
    m = re.search(r'^status\s*:\s*(\S+)', out, re.M)
    code, lout, err = run_doit(ns, ['list', '-s'])
    m2 = re.search(r'^([A-Z]) t\b', lout, re.M)
    return (m.group(1) if m else None), (m2.group(1) if m2 else None)


bad = []
with scratch():
    for n in 'ab':
        open(n, 'w').write(n)
    log = []
    ns = world(log)
    run_doit(ns, ['run'])
    open('a', 'w').write('changed content')
    os.utime('a', (2000000000, 2000000000))
    os.remove('b')
    info, lst = shown(ns)
    n0 = len(log)
    code, out, err = run_doit(ns, ['run'])
    ran = 'run' if len(log) > n0 else ('error' if code not in (0, None) else 'skipped')
    if not (lst == 'E' and ran == 'error' and info == 'error'):
        bad.append('(a) run: %s, list -s: %s, info: %s' % (ran, lst, info))
with scratch():
    open('a', 'w').write('a')
    log = []
    ns = world(log, uptodate=[False])
    run_doit(ns, ['run'])
    os.remove('a')
    info, lst = shown(ns)
    n0 = len(log)
    run_doit(ns, ['run'])
    ran = 'run' if len(log) > n0 else 'not-executed'
    if not (lst == 'R' and ran == 'run' and info == 'run'):
        bad.append('(b) run: %s, list -s: %s, info: %s' % (ran, lst, info))
done(not bad, '; '.join(bad) if bad else 'info shows the decision of run in both scenarios')
