"""F-C19 (open): `doit -r json -n 2 -P thread` with two overlapping python-actions must still print one JSON document
and exit 0/1/2.  (JsonReporter.complete_run reads `sys.stdout.getvalue()`; after the overlapping stdout swaps of the two
actions -- F-C17a -- sys.stdout is a task Writer, so complete_run raises AttributeError: exit 3, no document.)"""
from _util import *
import json, threading, time
with scratch():
    a_started, b_started = threading.Event(), threading.Event()
    def act_a():
        a_started.set(); b_started.wait(5); return True          # ends while b is still running
    def act_b():
        a_started.wait(5); b_started.set(); time.sleep(0.4); return True   # starts inside a, ends after a
    ns = {'task_a': lambda: {'actions': [act_a]}, 'task_b': lambda: {'actions': [act_b]}}
    out = open('out.json', 'w')
    code, o, e = run_doit(ns, ['run', '-n', '2', '-P', 'thread', '-r', 'json', '-o', 'out.json'])
    text = open('out.json').read()
    try:
        doc = json.loads(text)
        names = sorted((t['name'], t['result']) for t in doc['tasks'])
    except Exception as ex:
        doc, names = None, 'no JSON document (%s)' % type(ex).__name__
    import sys
    sys.stdout, sys.stderr = sys.__stdout__, sys.__stderr__
    done(code == 0 and names == [('a', 'success'), ('b', 'success')], 'exit=%s tasks=%s' % (code, names))
