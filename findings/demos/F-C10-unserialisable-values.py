"""F-C10-unserialisable-values (open): a task whose values can not be stored (a set, bytes, a pathlib.Path inside a calc_dep
result ...) is reported as successful, its consumers receive the value through getargs, and at the end of the run
`dep_manager.close()` dies with a TypeError traceback (exit 3).  With the json backend the DB file was already truncated:
the state of EVERY task is lost and the next `doit run` dies while loading the DB."""
from _util import *
with scratch():
    open('f', 'w').write('x')
    val = {'v': {'k0': 1}}
    ran = []
    def mk():
        def prod(): return val['v']
        def cons(a0): return True
        return {'task_t0': lambda: {'actions': [prod]},
                'task_other': lambda: {'actions': [lambda: ran.append(1) or True], 'file_dep': ['f']},
                'task_t1': lambda: {'actions': [cons], 'file_dep': ['f'], 'getargs': {'a0': ('t0', 'k0')}}}
    code1, _, _ = run_doit(mk(), ['run'])
    val['v'] = {'k0': {1, 2}}                      # not JSON-serialisable
    code2, _, err2 = run_doit(mk(), ['run'])
    val['v'] = {'k0': 2}
    code3, out3, err3 = run_doit(mk(), ['run'])
    ok = code2 in (1, 2) and 'Traceback' not in err2 and code3 == 0 and len(ran) == 1
    done(ok, 'run with an unserialisable value: exit %s%s; next run: exit %s%s; the unchanged task `other` was executed %d time(s) in 3 runs'
         % (code2, ' (traceback)' if 'Traceback' in err2 else '', code3, ' (traceback)' if 'Traceback' in err3 else '', len(ran)))
