"""F-C19 / C05 (fixed by /repo 8fa62ea): a task whose action returns values the DB codec cannot encode (a set, bytes) is reported with
add_success; the TypeError only surfaces in dep_manager.close() inside Runner.finish(): traceback, exit 3, teardowns
and reporter.complete_run never run (with -r json: no document, streams left redirected, nothing on stderr), and with
the json backend nothing of the whole run is saved.  Expected: the task is reported as failed (it can not be saved),
exit code 2, the run finishes normally and the other tasks' state is saved."""
from _util import *
import json, os
with scratch():
    ns = {'task_a': lambda: {'actions': [lambda: True]},
          'task_v': lambda: {'actions': [lambda: {'k': {1, 2}}]},
          'task_z': lambda: {'actions': [lambda: True]}}
    code, o, e = run_doit(ns, ['run', '--continue', '-r', 'json', '-o', 'out.json'])
    text = open('out.json').read() if os.path.exists('out.json') else ''
    try:
        res = {t['name']: t['result'] for t in json.loads(text)['tasks']}
    except Exception as ex:
        res = 'no JSON document (%s)' % type(ex).__name__
    saved = sorted(json.load(open('db.json')).keys()) if os.path.exists('db.json') and os.path.getsize('db.json') else []
    import sys
    sys.stdout, sys.stderr = sys.__stdout__, sys.__stderr__
    done(code == 2 and isinstance(res, dict) and res == {'a': 'success', 'v': 'fail', 'z': 'success'} and 'a' in saved
         and 'v' not in saved, 'exit=%s tasks=%s saved=%s' % (code, res, saved))
