"""F-C13c: `doit reset-dep` issued after --check_file_uptodate changed drops the ignore mark of the task
(`get_status` removes the whole record, `ignore:` included; reset-dep restores values and result only), so an ignored
task runs again although it was never forgotten."""
from _util import *
with scratch():
    open('f', 'w').write('x')
    log = []
    ns = {'task_a': lambda: {'actions': [lambda: log.append('a') or True], 'file_dep': ['f']},
          'task_b': lambda: {'actions': [lambda: log.append('b') or True], 'task_dep': ['a']}}
    run_doit(ns, ['run'])
    run_doit(ns, ['ignore', 'a'])
    run_doit(ns, ['run'])                      # a, b ignored
    before = list(log)
    code, o, e = run_doit(ns, ['reset-dep', 'a'], {'check_file_uptodate': 'timestamp'})
    run_doit(ns, ['run'], {'check_file_uptodate': 'timestamp'})
    done(log == before == ['a', 'b'], 'after ignore a: %s; after reset-dep under another checker + run: %s (b executed: '
         'the mark on a is gone without a forget)' % (before, log))
