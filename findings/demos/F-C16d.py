"""F-C16d: an empty word on the command line (`doit t --val ''`) is an ordinary (empty) value / positional, not an
IndexError traceback from DoitMain.process_args."""
from _util import *
got = {}
def act(val):
    got['val'] = val
def task_t():
    return {'actions': [act], 'params': [{'name': 'val', 'long': 'val', 'default': 'dflt'}], 'verbosity': 0}
with scratch():
    try:
        code, out, err = run_doit({'task_t': task_t}, ['t', '--val', ''])
        what = 'exit %s val=%r' % (code, got.get('val'))
    except IndexError as ex:
        code, what = 'IndexError', 'uncaught IndexError: %s' % ex
done(code == 0 and got.get('val') == '', "doit t --val '' -> " + what)
