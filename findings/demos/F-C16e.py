"""F-C16e: an unknown `backend` name given in a config section / DOIT_CONFIG is rejected as an invalid choice
(`ERROR: ...`, exit 3) like `--backend nosuch` on the command line, not a TypeError traceback."""
from _util import *
from doit.doit_cmd import DoitMain
from doit.cmd_base import ModuleTaskLoader
def task_x():
    return {'actions': None}
res = []
with scratch():
    for label, kw, ns in (('[GLOBAL] backend = nosuch', {'extra_config': {'GLOBAL': {'backend': 'nosuch'}}}, {}),
                          ("DOIT_CONFIG = {'backend': 'nosuch'}", {}, {'DOIT_CONFIG': {'backend': 'nosuch'}})):
        err = io.StringIO()
        with contextlib.redirect_stderr(err), contextlib.redirect_stdout(io.StringIO()):
            code = DoitMain(ModuleTaskLoader(dict(ns, task_x=task_x)), config_filenames=(), **kw).run(['list'])
        res.append((label, code, 'Traceback' in err.getvalue(), err.getvalue().strip().split('\n')[-1][:70]))
done(all(code == 3 and not tb for _, code, tb, _ in res), '; '.join('%s -> exit %s %s' % (l, c, ('traceback: ' + last) if tb else last) for l, c, tb, last in res))
