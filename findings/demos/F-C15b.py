"""F-C15b: `create_after(creates=['a', 'b'])` whose creator does not yield a task named `b`.
Every name in `creates` gets its own copy of the DelayedLoader, hence its own `created` flag; what keeps the creator
from being evaluated again is only that `self.tasks['b']` was replaced by the task the creator yielded.  When it was
not, the creator is evaluated once per declared name: tasks that already ran are re-defined, and if they declare
targets the run aborts with "Two different tasks can't have a common target"."""
from _util import *
from doit.loader import create_after
bad = []
for with_targets in (False, True):
    with scratch():
        log = []
        def act(task):
            log.append(task.name)
        @create_after(creates=['a', 'b'])
        def task_gen():
            log.append('creator')
            d = {'basename': 'a', 'actions': [act]}
            if with_targets:
                d['targets'] = ['a.out']
            yield d
        code, out, err = run_doit({'task_gen': task_gen}, ['run'])
        n = log.count('creator')
        if n != 1 or code != 0:
            bad.append('creates=[a,b], only `a` yielded%s: creator evaluated %d times, exit %s' % (
                ' (with a target)' if with_targets else '', n, code))
done(not bad, '; '.join(bad) or 'creator evaluated once')
