"""F-C16: list option: parsing twice gives the same result, default not mutated."""
from _util import *
from doit.cmdparse import CmdOption, CmdParse
opt = CmdOption({'name': 'l', 'short': 'l', 'long': 'lst', 'type': list, 'default': ['d']})
p = CmdParse([opt])
r1 = p.parse(['-l', 'x'])[0]['l']
r1 = list(r1)
r2 = p.parse(['-l', 'x'])[0]['l']
done(r1 == ['d', 'x'] and list(r2) == ['d', 'x'] and opt.default == ['d'], 'first=%s second=%s default=%s' % (r1, list(r2), opt.default))
