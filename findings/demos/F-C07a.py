"""F-C07a: set() on a persisted but not yet read task must keep its other keys (DbmDB, SqliteDB)."""
from _util import *
from doit.dependency import DbmDB, SqliteDB, JsonDB, JSONCodec
bad = []
with scratch():
    for cls in (JsonDB, DbmDB, SqliteDB):
        name = 'db_' + cls.__name__
        d = cls(name, JSONCodec()); d.set('u', 'a', 1); d.dump()
        d = cls(name, JSONCodec()); d.set('u', 'b', 2); d.dump()
        d = cls(name, JSONCodec())
        if d.get('u', 'a') != 1:
            bad.append(cls.__name__)
done(not bad, 'key lost by set-without-get in %s' % bad)
