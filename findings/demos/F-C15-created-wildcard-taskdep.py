"""F-C15-created-wildcard-taskdep: a task made by a delayed task-creator with a wildcard task_dep ('lib*') does not wait for
(nor pull in) the tasks the pattern names: wild_dep is expanded only in TaskControl.__init__ and for calc_dep results.
exit 1 when the defect shows on $VERIF_REPO (default /repo), 0 when repaired."""
import os, sys
sys.path.insert(0, os.environ.get('VERIF_REPO', os.environ.get('DEMO_REPO', '/repo')))
import tempfile
from doit.doit_cmd import DoitMain
from doit.cmd_base import ModuleTaskLoader
from doit.loader import create_after

def scenario(delayed):
    log = []
    def task_pre():
        return {'actions': [lambda: log.append('pre') or True]}
    def task_lib1():
        return {'actions': [lambda: log.append('lib1') or True]}
    def task_lib2():
        return {'actions': [lambda: log.append('lib2') or True]}
    def mk():
        return {'actions': [lambda: log.append('late') or True], 'task_dep': ['lib*']}
    if delayed:
        @create_after(executed='pre')
        def task_late():
            return mk()
    else:
        def task_late():
            return mk()
    ns = {'task_pre': task_pre, 'task_lib1': task_lib1, 'task_lib2': task_lib2, 'task_late': task_late,
          'DOIT_CONFIG': {'dep_file': os.path.join(tempfile.mkdtemp(), 'db.json'), 'backend': 'json', 'verbosity': 0,
                          'reporter': 'zero'}}
    rc = DoitMain(ModuleTaskLoader(ns)).run(['run', 'late'])
    return rc, log

rc0, static = scenario(False)
rc1, delayed = scenario(True)
print('static :', rc0, static)
print('delayed:', rc1, delayed)
ok = all(x in delayed and delayed.index(x) < delayed.index('late') for x in ('lib1', 'lib2'))
print('OK' if ok else 'DEFECT: created task ran without its wildcard task_dep')
sys.exit(0 if ok else 1)
