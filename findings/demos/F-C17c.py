"""F-C17c (open): CmdAction(buffering=N) must capture multi-byte output intact."""
from _util import *
from doit.action import CmdAction
# 'a' + U+00E9 (2 bytes) + 'b': with buffering=2 the two bytes of the e-acute fall into different reads
a = CmdAction("printf 'a\\303\\251b'", buffering=2)
ret = a.execute()
ok = ret is None and a.out == 'aéb'
done(ok, 'captured %r (expected %r)' % (a.out, 'aéb'))
