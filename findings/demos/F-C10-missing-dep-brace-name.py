"""F-C10-missing-dep-brace-name (open): a missing file_dep whose name contains braces must be reported as a dependency
error of the task (exit 2 / ERROR), not kill doit with an IndexError/KeyError traceback."""
from _util import *
with scratch():
    ns = {'task_t': lambda: {'actions': [lambda: True], 'file_dep': ['f{1}']},
          'task_u': lambda: {'actions': [lambda: True], 'file_dep': ['{name}.txt']}}
    res = [run_doit(ns, ['run', '-c', t]) for t in ('t', 'u')]
    ok = all(code in (1, 2) and 'Traceback' not in err for code, _, err in res)
    done(ok, 'missing file_dep f{1} / {name}.txt: ' + '; '.join('exit %s%s' % (c, ' (%s)' % e.strip().split('\n')[-1] if 'Traceback' in e else '') for c, _, e in res))
