"""F-C18 crash-unhashable-basename: a yielded dict whose `basename` is a non-empty
list/dict must be rejected as an invalid task (InvalidTask from the loader; CLI
exit 3 with "ERROR:", no traceback)."""
from _util import *
from doit import loader
from doit.control import TaskControl
from doit.exceptions import InvalidTask, InvalidDodoFile

def A():
    return True

CASES = [
    ('basename only', {'basename': ['x'], 'actions': [A]}),
    ('basename + name', {'basename': ['x'], 'name': 's', 'actions': [A]}),
    ('basename (dict) + name', {'basename': {'k': 1}, 'name': 's', 'actions': [A]}),
]
bad = []
for label, task_dict in CASES:
    def task_f(task_dict=task_dict):
        yield dict(task_dict)
    ns = {'task_f': task_f}
    try:
        TaskControl(loader.load_tasks(dict(ns), ('list', 'run')))
        bad.append('%s: accepted by load_tasks' % label)
    except (InvalidTask, InvalidDodoFile):
        pass
    except Exception as ex:
        bad.append('%s: load_tasks raised %s: %s' % (label, type(ex).__name__, ex))
    with scratch():
        try:
            code, o, e = run_doit(ns, ['list'])
        except Exception as ex:
            bad.append('%s: doit list raised %r' % (label, ex))
            continue
    if code != 3 or 'Traceback' in e or 'ERROR' not in e:
        bad.append('%s: doit list exit=%s, %s, last stderr line: %s' % (
            label, code, 'Traceback' if 'Traceback' in e else 'no traceback',
            (e.strip().splitlines() or [''])[-1]))
# a legal basename is still accepted
def task_ok():
    yield {'basename': 'x', 'actions': [A]}
    yield {'basename': 'y', 'name': 's', 'actions': [A]}
try:
    names = [t.name for t in loader.load_tasks({'task_ok': task_ok}, ('list', 'run'))]
    if names != ['x', 'y', 'y:s']:
        bad.append('legal basenames gave %r' % names)
except Exception as ex:
    bad.append('legal basename rejected: %r' % ex)
done(not bad, '; '.join(bad) if bad else 'unhashable basename rejected with an invalid-task diagnostic')
