"""F-C18 yield-replaces-task: inside one generator a yielded `name: None` dict
(attributes of the group task) or a yielded Task object must not silently
replace a task of the same name that was already produced.
 (a) sub-task, then group attributes, then sub-task: every sub-task must stay
     attached to its group (or the definition must be rejected);
 (b) task `x`, then a `name: None` dict with basename `x`: duplicate -> rejected;
 (c) task `x`, then a Task object named `x`: duplicate -> rejected."""
from _util import *
from doit import loader
from doit.task import Task
from doit.control import TaskControl
from doit.exceptions import InvalidTask, InvalidDodoFile

def A():
    return True

def load(creator):
    """-> ('ok', tasks) | ('invalid', msg) | ('crash', msg)"""
    try:
        tasks = loader.load_tasks({'task_f': creator}, ('list', 'run'))
        TaskControl(tasks)
        return 'ok', tasks
    except (InvalidTask, InvalidDodoFile) as ex:
        return 'invalid', str(ex)
    except Exception as ex:
        return 'crash', '%s: %s' % (type(ex).__name__, ex)

bad = []

# (a)
def gen_a():
    yield {'name': 'a', 'actions': [A]}
    yield {'name': None, 'doc': 'group doc'}
    yield {'name': 'b', 'actions': [A]}
kind, res = load(gen_a)
if kind == 'ok':
    by_name = dict((t.name, t) for t in res)
    subs = sorted(t.name for t in res if t.subtask_of == 'f')
    attached = sorted(d for d in by_name['f'].task_dep if d.startswith('f:'))
    if subs != attached:
        bad.append('(a) accepted, but group f has task_dep=%r while its sub-tasks are %r '
                   '(`doit f` does not run %s)' % (
                       by_name['f'].task_dep, subs,
                       ', '.join(s for s in subs if s not in attached)))
elif kind == 'crash':
    bad.append('(a) ' + res)

# (b)
def gen_b():
    yield {'basename': 'x', 'actions': [A], 'doc': 'first'}
    yield {'basename': 'x', 'name': None, 'doc': 'second'}
kind, res = load(gen_b)
if kind == 'ok':
    bad.append('(b) duplicate name accepted: tasks=%r, the first `x` (with an action) was '
               'replaced by the group dict (doc=%r, actions=%r)' % (
                   [t.name for t in res], res[0].doc, res[0].actions))
elif kind == 'crash':
    bad.append('(b) ' + res)

# (c)
def gen_c():
    yield {'basename': 'x', 'actions': [A], 'doc': 'first'}
    yield Task('x', None, doc='second')
kind, res = load(gen_c)
if kind == 'ok':
    bad.append('(c) duplicate name accepted: tasks=%r, the first `x` was replaced by the '
               'Task object (doc=%r)' % ([t.name for t in res], res[0].doc))
elif kind == 'crash':
    bad.append('(c) ' + res)

# CLI: a duplicate must be exit 3 + ERROR, no traceback
with scratch():
    code, o, e = run_doit({'task_f': gen_b}, ['list'])
if code != 3 or 'Traceback' in e or 'ERROR' not in e:
    bad.append('(b) doit list exit=%s stdout=%r' % (code, o))

# the documented order (group attributes first) is still accepted
def gen_ok():
    yield {'name': None, 'doc': 'group doc'}
    yield {'name': 'a', 'actions': [A]}
    yield {'name': 'b', 'actions': [A]}
    yield Task('other', None)
kind, res = load(gen_ok)
if kind != 'ok' or [t.name for t in res] != ['f', 'f:a', 'f:b', 'other'] \
        or res[0].task_dep != ['f:a', 'f:b'] or res[0].doc != 'group doc':
    bad.append('documented order broken: %s %r' % (kind, res))

done(not bad, ' | '.join(bad) if bad else
     'no yielded item replaces an already defined task')
