"""F-C06a / C09: an exception raised while the process runner starts its workers (here: an `uptodate` callable that
raises when the second task is selected; same path as a corrupted DB record read after a kill) must end the run with an
error exit, not hang."""
from _util import *
import subprocess, textwrap
with scratch() as d:
    open('dodo.py', 'w').write(textwrap.dedent('''
        DOIT_CONFIG = {'verbosity': 0, 'dep_file': 'db.json', 'backend': 'json'}
        def boom(): raise RuntimeError('uptodate check blew up')
        def task_a(): return {'actions': ['sleep 0.1']}
        def task_b(): return {'actions': ['true'], 'uptodate': [boom]}
    '''))
    env = dict(os.environ, PYTHONPATH=REPO)
    try:
        p = subprocess.run([sys.executable, '-m', 'doit', 'run', '-n', '2'], env=env, stdout=subprocess.PIPE,
                           stderr=subprocess.PIPE, timeout=20)
        done(p.returncode == 3, 'exit code %s' % p.returncode)
    except subprocess.TimeoutExpired:
        done(False, 'doit run -n 2 hangs')
