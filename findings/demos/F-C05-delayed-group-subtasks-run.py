"""F-C05-delayed-group-subtasks-run: the SUB-TASKS made by a delayed task-creator (`@create_after(executed='pre')` that yields
`{'name': ...}` dicts) are executed in the run in which `pre` FAILED (--continue, or any `-n k` runner): the dependency on the
`executed` task lives only on the placeholder task, so only the group task itself is reported UnmetDependency -- after its
sub-tasks ran.  A creator that returns ONE plain task is handled correctly (UnmetDependency, not executed).
exit 1 when the defect shows on $VERIF_REPO (default /repo), 0 when repaired."""
import os, sys
sys.path.insert(0, os.environ.get('VERIF_REPO', os.environ.get('DEMO_REPO', '/repo')))
import tempfile
from doit.doit_cmd import DoitMain
from doit.cmd_base import ModuleTaskLoader
from doit.loader import create_after


def scenario(group, argv):
    log = []

    def task_pre():
        return {'actions': [lambda: log.append('pre') or False]}     # fails

    @create_after(executed='pre')
    def task_late():
        if not group:
            return {'actions': [lambda: log.append('late') or True]}
        return ({'name': n, 'actions': [(lambda n=n: log.append('late:' + n) or True)]} for n in ('a', 'b'))

    def task_other():
        return {'actions': [lambda: log.append('other') or True]}
    ns = {'task_pre': task_pre, 'task_late': task_late, 'task_other': task_other,
          'DOIT_CONFIG': {'dep_file': os.path.join(tempfile.mkdtemp(), 'db.json'), 'backend': 'json', 'verbosity': 0,
                          'reporter': 'zero'}}
    rc = DoitMain(ModuleTaskLoader(ns)).run(['run', '--continue'] + argv)
    return rc, log


bad = False
for argv in ([], ['-n', '2', '-P', 'thread']):
    rc0, plain = scenario(False, argv)
    rc1, group = scenario(True, argv)
    print('%-18s plain delayed task : exit=%s executed=%s' % (' '.join(argv) or 'serial', rc0, plain))
    print('%-18s delayed group      : exit=%s executed=%s' % (' '.join(argv) or 'serial', rc1, group))
    if any(x.startswith('late') for x in plain + group):
        bad = True
print('DEFECT: tasks made by a creator delayed until `pre` was executed ran although `pre` failed' if bad else 'OK')
sys.exit(1 if bad else 0)
