"""Informational (C04-adjacent robustness): a DIRECTORY as file_dep under the default md5 checker.  get_status treats it
like a file (os.stat works), the task executes, then save_success -> MD5Checker.get_state -> get_file_md5 opens the
directory: IsADirectoryError is not handled (only FileNotFoundError is), doit prints a traceback and exits 3, nothing is
recorded -- on every run, and the tasks after it are never reached.  With --check_file_uptodate=timestamp the same dodo
works (the directory's mtime is recorded).  Exit 1 when the defect shows."""
from _util import *
with scratch():
    os.mkdir('d')
    log = []
    def mk():
        return {'task_t': lambda: {'actions': [lambda: log.append(1) or True], 'file_dep': ['d']},
                'task_z': lambda: {'actions': [lambda: log.append(2) or True]}}
    c1, _, e1 = run_doit(mk(), ['run'])
    c2, _, e2 = run_doit(mk(), ['run'])
    done(not (c1 == 3 and 'IsADirectoryError' in e1), 'exit codes %s %s; executions %s; %s'
         % (c1, c2, log, e1.strip().split('\n')[-1]))
