"""F-C11b: under the process runner a failing teardown must not prevent the other teardowns (nor kill the run)."""
from _util import *
with scratch():
    def log(msg):
        with open('log.txt', 'a') as f:
            f.write(msg + '\n')
    def mk(n, fail):
        def act():
            log('act ' + n)
        def td():
            log('td ' + n)
            return not fail
        return lambda: {'actions': [act], 'teardown': [td]}
    ns = {'task_a': mk('a', False), 'task_b': mk('b', True), 'task_c': mk('c', False)}
    code, o, e = run_doit(ns, ['run', '-n', '1', '-P', 'process'])
    lines = open('log.txt').read().split()
    tds = [lines[i + 1] for i in range(0, len(lines), 2) if lines[i] == 'td']
    done(tds == ['c', 'b', 'a'] and code == 0,
         'exit code %s, teardowns executed: %s (a, b, c were executed by one worker; b\'s teardown fails)%s'
         % (code, tds, '; ' + e.strip().split('\n')[-1] if e.strip() else ''))
