"""F-C09a: cycle b<->c first reached from common parent a must be diagnosed (exit 3), serial and parallel."""
from _util import *
import threading
res = {}
def go(par):
    with scratch():
        ns = {
          'task_a': lambda: {'actions': None, 'task_dep': ['b', 'c']},
          'task_b': lambda: {'actions': [lambda: True], 'task_dep': ['c']},
          'task_c': lambda: {'actions': [lambda: True], 'task_dep': ['b']},
        }
        try:
            res[par] = run_doit(ns, ['run'] + par.split())
        except BaseException as ex:
            res[par] = ('exc', repr(ex), '')
bad = []
for par in ['', '-n 2 -P thread']:
    t = threading.Thread(target=go, args=(par,), daemon=True)
    t.start(); t.join(10)
    if t.is_alive():
        bad.append((par, 'HANG'))
    elif res[par][0] != 3 or 'yclic' not in res[par][2]:
        bad.append((par, res[par][0], res[par][2][-200:]))
print('OK' if not bad else 'DEFECT: %s' % bad, flush=True, file=sys.__stdout__)
os._exit(0 if not bad else 1)
