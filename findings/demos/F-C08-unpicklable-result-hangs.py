"""F-C08 unpicklable-result-hangs: an action returns a value that can not be pickled (here a dict holding a lambda; the same
for a generator, an open file, a lock ...).  Serial and `-n 2 -P thread`: `save_success` can not write it, the run ends with
a TypeError traceback, exit 3.  `-n 2` (process runner): the worker's `result_q.put(result)` fails INSIDE the queue's feeder
thread (multiprocessing pickles there), the message is dropped, the main process waits in `result_q.get()` for ever: the run
hangs.  Outcome / exit code differ from the serial run, and the failure never reaches the main process.
Each run is a child process in its own session with a hard time limit (the hung run is killed with its workers)."""
import os, signal, subprocess, sys, tempfile, shutil
REPO = os.environ.get('VERIF_REPO', '/repo')
CHILD = r'''
import sys
sys.path.insert(0, %r)
from doit.doit_cmd import DoitMain
from doit.cmd_base import ModuleTaskLoader
def act():
    return {'k': (lambda: 1)}
ns = {'task_a': lambda: {'actions': [act]}, 'task_b': lambda: {'actions': [lambda: None], 'task_dep': ['a']},
      'DOIT_CONFIG': {'dep_file': 'db.json', 'backend': 'json', 'verbosity': 0}}
sys.exit(DoitMain(ModuleTaskLoader(ns)).run(['run'] + sys.argv[1:]))
''' % REPO


def run(argv, limit=8):
    d = tempfile.mkdtemp(prefix='doitdemo')
    try:
        with open(os.path.join(d, 'child.py'), 'w') as fh:        # a real file: doit reads the source of task-creators
            fh.write(CHILD)
        p = subprocess.Popen([sys.executable, 'child.py'] + argv, cwd=d, stdout=subprocess.DEVNULL, stderr=subprocess.DEVNULL,
                             start_new_session=True)
        try:
            return p.wait(timeout=limit)
        except subprocess.TimeoutExpired:
            os.killpg(p.pid, signal.SIGKILL)
            p.wait()
            return 'HANG (killed after %ds)' % limit
    finally:
        shutil.rmtree(d, ignore_errors=True)


res = {'serial': run([]), 'thread': run(['-n', '2', '-P', 'thread']), 'process': run(['-n', '2'])}
print(res)
ok = res['process'] == res['serial'] == res['thread']
print(('OK: ' if ok else 'DEFECT: ') + 'exit of a run whose action returns an unpicklable value: %s' % res)
sys.exit(0 if ok else 1)
