"""F-C18 crash-clean-eq-true: `clean: 1` / `clean: 1.0` must be rejected as an
invalid task (InvalidTask from the loader; CLI exit 3 with "ERROR:", no traceback)."""
from _util import *
from doit import loader
from doit.control import TaskControl
from doit.exceptions import InvalidTask, InvalidDodoFile

bad = []
for value in (1, 1.0):
    ns = {'task_a': lambda value=value: {'actions': [lambda: True], 'clean': value}}
    # API level: loader + TaskControl
    try:
        TaskControl(loader.load_tasks(dict(ns), ('list', 'run')))
        bad.append('clean=%r accepted by load_tasks' % (value,))
    except (InvalidTask, InvalidDodoFile):
        pass
    except Exception as ex:
        bad.append('clean=%r: load_tasks raised %s: %s' % (value, type(ex).__name__, ex))
    # CLI level
    with scratch():
        try:
            code, o, e = run_doit(ns, ['list'])
        except Exception as ex:
            bad.append('clean=%r: doit list raised %r' % (value, ex))
            continue
    if code != 3 or 'Traceback' in e or 'ERROR' not in e:
        bad.append('clean=%r: doit list exit=%s, %s, last stderr line: %s' % (
            value, code, 'Traceback' if 'Traceback' in e else 'no traceback',
            (e.strip().splitlines() or [''])[-1]))
# the legal literal is still accepted
ns = {'task_a': lambda: {'actions': [lambda: True], 'clean': True}}
try:
    TaskControl(loader.load_tasks(dict(ns), ('list', 'run')))
except Exception as ex:
    bad.append('clean=True rejected: %r' % ex)
done(not bad, '; '.join(bad) if bad else 'clean: 1 / 1.0 rejected with an invalid-task diagnostic')
