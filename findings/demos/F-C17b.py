"""F-C17b: _prepare_kwargs raising must leave sys.stdout restored."""
from _util import *
import sys
from doit.task import Task, Stream
orig = sys.stdout
def act(targets=None): return True   # default on a reserved argument -> InvalidTask from _prepare_kwargs
t = Task('t', [act])
raised = None
try:
    t.execute(Stream(0))
except Exception as ex:
    raised = ex
ok = sys.stdout is orig
sys.stdout = orig
done(ok and raised is not None, 'sys.stdout restored=%s raised=%r' % (ok, raised))
