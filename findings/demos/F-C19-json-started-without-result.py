"""F-C19 (open): `doit -r json` must still print its JSON document when the run is aborted by a reported runtime error
while a task has been announced (execute_task) but has no result: a task whose `actions` hold an element that is
rejected only when the action objects are created (`actions: [3]`) -> InvalidTask inside the runner -> run_all reports
runtime_error and sets exit code 2.  TaskResult.to_dict computes `_finished_on - _started_on` with `_finished_on` None:
TypeError in complete_run, no document, exit 3 (console/zero reporters: exit 2 and the message)."""
from _util import *
import json
with scratch():
    ns = {'task_a': lambda: {'actions': [lambda: True]}, 'task_bad': lambda: {'actions': [3]}}
    code, o, e = run_doit(ns, ['run', '-r', 'json', '-o', 'out.json'])
    text = open('out.json').read()
    try:
        doc = json.loads(text)
        res = {t['name']: t['result'] for t in doc['tasks']}
        msg = doc['err']
    except Exception as ex:
        res, msg = 'no JSON document (%s)' % type(ex).__name__, ''
    done(code == 2 and isinstance(res, dict) and res.get('a') == 'success' and "invalid 'actions'" in msg,
         'exit=%s tasks=%s err=%r' % (code, res, msg[:60]))
