"""F-C18 crash-uptodate-tuple-getargs: `uptodate` given as a tuple (an accepted
type per Task.valid_attr) together with a non-empty `getargs` (a dict, accepted)
must load: either a well-formed task or an invalid-task diagnostic, never an
internal AttributeError traceback."""
from _util import *
from doit import loader
from doit.control import TaskControl
from doit.exceptions import InvalidTask, InvalidDodoFile

got = []
def use(x):
    got.append(x)

ns = {
    'task_g': lambda: {'actions': [lambda: {'k': 7}]},
    'task_a': lambda: {'actions': [use], 'uptodate': (True,),
                       'getargs': {'x': ('g', 'k')}},
}
bad = []
try:
    tasks = loader.load_tasks(dict(ns), ('list', 'run'))
    TaskControl(tasks)
    a = [t for t in tasks if t.name == 'a'][0]
    # both the user's item and the implicit result-dep on `g` must be there
    if len(a.uptodate) != 2 or a.uptodate[0][0] is not True:
        bad.append('task a loaded with uptodate=%r' % (a.uptodate,))
except (InvalidTask, InvalidDodoFile) as ex:
    pass  # a diagnostic would also satisfy C18 (not what the proposed fix does)
except Exception as ex:
    bad.append('load_tasks raised %s: %s' % (type(ex).__name__, ex))

with scratch():
    try:
        code, o, e = run_doit(ns, ['run'])
    except Exception as ex:
        code, o, e = None, '', 'run_doit raised %r' % ex
if 'Traceback' in e or code not in (0, 3) or (code == 3 and 'ERROR' not in e) \
        or (code == 0 and got != [7]):
    bad.append('doit run exit=%s, %s, getargs delivered=%r, last stderr line: %s' % (
        code, 'Traceback' if 'Traceback' in e else 'no traceback', got,
        (e.strip().splitlines() or [''])[-1]))
done(not bad, '; '.join(bad) if bad else
     'uptodate tuple + getargs loads (exit=%s, getargs delivered=%r)' % (code, got))
