"""F-C03: dep set changes [f] -> [] -> [f]; third run must not skip (dep set differs from last successful execution)."""
from _util import *
with scratch():
    open('f', 'w').write('x')
    log = []
    def mk(deps, utd):
        def task_t():
            return {'actions': [lambda: log.append(1) or True], 'file_dep': deps, 'uptodate': utd}
        return {'task_t': task_t}
    run_doit(mk(['f'], []), ['run'])
    run_doit(mk([], [True]), ['run'])
    n = len(log)
    run_doit(mk(['f'], [True]), ['run'])
    done(len(log) == n + 1, 'third run executed=%s (log %s)' % (len(log) == n + 1, log))
