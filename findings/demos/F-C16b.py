"""F-C16b: an ill-typed value in a config section (doit.cfg / pyproject.toml / DoitMain(extra_config=...)) of a
command built on DoitCmdBase is a parse error: `ERROR: ...` on stderr and exit code 3, not an uncaught exception."""
from _util import *
from doit.doit_cmd import DoitMain
from doit.cmd_base import ModuleTaskLoader
from doit.cmdparse import CmdParseError

def task_x():
    return {'actions': None}

with scratch():
    with open('doit.cfg', 'w') as f:
        f.write('[list]\nstatus = maybe\n')          # `status` is a boolean option of `doit list`
    err = io.StringIO()
    with contextlib.redirect_stderr(err), contextlib.redirect_stdout(io.StringIO()):
        try:
            code = DoitMain(ModuleTaskLoader({'task_x': task_x})).run(['list'])
        except CmdParseError as ex:
            code = 'uncaught CmdParseError: %s' % str(ex).split('\n')[0]
done(code == 3 and err.getvalue().startswith('ERROR:'), 'doit.cfg [list] status = maybe ; `doit list` -> %s' % (code,))
