"""F-C15a: a sub-task of a delayed creator named on the command line BEFORE a regex target of the same creator.
`doit gen:x out_y` must execute gen:x and gen:y (the producer of out_y) -- it executes re-named copies of ALL of
gen's sub-tasks (gen:x:x, gen:x:y, gen:x:z); `doit gen:x out_nobody` must be rejected with a not-found error -- it
runs everything and ends in a KeyError traceback."""
from _util import *
from doit.loader import create_after
bad = []
for argv, want_code, want_log in ((['run', 'gen:x', 'out_y'], 0, ['pre', 'creator', 'gen:x', 'gen:y']),
                                  (['run', 'out_y', 'gen:x'], 0, ['pre', 'creator', 'gen:y', 'gen:x']),
                                  (['run', 'gen:x', 'out_nobody'], 3, None)):
    with scratch():
        log = []
        def act(task):
            log.append(task.name)
        def task_pre():
            return {'actions': [act]}
        @create_after(executed='pre', target_regex=r'out_.*')
        def task_gen():
            log.append('creator')
            for s in 'xyz':
                yield {'name': s, 'actions': [act], 'targets': ['out_' + s]}
        code, out, err = run_doit({'task_pre': task_pre, 'task_gen': task_gen}, argv)
        if code != want_code or (want_log is not None and log != want_log) or 'Traceback' in err:
            bad.append('%s: exit %s executed %s%s (expected exit %s executed %s)' % (
                argv[1:], code, log, ' + traceback ' + err.strip().split('\n')[-1] if 'Traceback' in err else '',
                want_code, want_log))
done(not bad, '; '.join(bad) or 'sub-task selection followed by a regex target runs exactly the two tasks')
