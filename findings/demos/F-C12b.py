"""F-C12b: a task named again after its options were initialised truncates the selection.
`doit t1 t1 t2` must consider t2 as well; `doit t1 t1 nosuch` must be rejected with exit code 3;
`doit 'a*' a1 b` (a1 already matched by the pattern) must consider b."""
from _util import *
bad = []
for argv, want_code, want_log in ((['run', 't1', 't1', 't2'], 0, ['t1', 't2']),
                                  (['run', 't1', 't1', 'nosuch'], 3, []),
                                  (['run', 'a*', 'a1', 'b'], 0, ['a1', 'b'])):
    with scratch():
        log = []
        def mk(name):
            return lambda: {'actions': [lambda: log.append(name) or True]}
        ns = {'task_t1': mk('t1'), 'task_t2': mk('t2'), 'task_a1': mk('a1'), 'task_b': mk('b')}
        code, out, err = run_doit(ns, argv)
        if code != want_code or log != want_log:
            bad.append('%s: exit %s executed %s (expected exit %s executed %s)' % (argv[1:], code, log, want_code, want_log))
done(not bad, '; '.join(bad) or 'repeated task names keep the whole selection')
