"""F-C16f: an unknown REPORTER name given in a config section / DOIT_CONFIG and an unknown LOADER name
(`[GLOBAL] loader = nosuch`) are rejected like `-r nosuch` on the command line (`ERROR: ...`, exit 3), not with a
KeyError traceback (reporter) / a KeyError that leaves DoitMain.run (loader)."""
from _util import *
from doit.doit_cmd import DoitMain
from doit.cmd_base import ModuleTaskLoader
def task_x():
    return {'actions': None}
res = []
with scratch():
    for label, loader, kw, ns in (
            ('[GLOBAL] reporter = nosuch', True, {'extra_config': {'GLOBAL': {'reporter': 'nosuch'}}}, {}),
            ("DOIT_CONFIG = {'reporter': 'nosuch'}", True, {}, {'DOIT_CONFIG': {'reporter': 'nosuch'}}),
            ('[GLOBAL] loader = nosuch', False, {'extra_config': {'GLOBAL': {'loader': 'nosuch'}}}, {})):
        err = io.StringIO()
        with contextlib.redirect_stderr(err), contextlib.redirect_stdout(io.StringIO()):
            try:
                code = DoitMain(ModuleTaskLoader(dict(ns, task_x=task_x)) if loader else None,
                                config_filenames=(), **kw).run(['run'])
            except Exception as ex:
                code = 'uncaught %s' % type(ex).__name__
        res.append((label, code, 'Traceback' in err.getvalue(), err.getvalue().strip().split('\n')[-1][:70]))
done(all(code == 3 and not tb for _, code, tb, _ in res), '; '.join('%s -> exit %s %s' % (l, c, ('traceback: ' + last) if tb else last) for l, c, tb, last in res))
