"""F-C18 silent coercions: task attributes of a wrong type that are accepted
because they compare equal to / are as falsy as a legal value.  Five keys:
  coerced-verbosity            verbosity: True / False / 0.0 / 1.0 / 2.0
  coerced-getargs-falsy        getargs: False / 0 / 0.0 / '' / [] / ()
  coerced-basename-falsy       yielded {'basename': None/False/0/0.0/[]/(), 'name': 's', ...}
  coerced-subtask-name         yielded {'name': 5 / True / ['q'] / 1.5 / b's', ...}
  group-attrs-actions-ignored  yielded {'name': None, 'actions': 5 / 'echo' / {...}}
Each must raise InvalidTask/InvalidDodoFile.  Exit 1 if ANY is accepted."""
import sys
from _util import *
from doit import loader
from doit.control import TaskControl
from doit.exceptions import InvalidTask, InvalidDodoFile

def A():
    return True

def outcome(ns):
    """-> None when rejected with a diagnostic, else a description"""
    try:
        tasks = loader.load_tasks(dict(ns), ('list', 'run'))
        TaskControl(tasks)
        return 'accepted as %r' % ([t.name for t in tasks],)
    except (InvalidTask, InvalidDodoFile):
        return None
    except Exception as ex:
        return 'crash %s: %s' % (type(ex).__name__, ex)

def returned(attr, value):
    return {'task_a': lambda: {'actions': [A], attr: value}}

def yielded(*dicts):
    def task_f():
        for d in dicts:
            yield dict(d)
    return {'task_f': task_f}

CASES = []   # (key, label, namespace)
for v in (True, False, 0.0, 1.0, 2.0):
    CASES.append(('coerced-verbosity', 'verbosity=%r' % (v,), returned('verbosity', v)))
for v in (False, 0, 0.0, '', [], ()):
    CASES.append(('coerced-getargs-falsy', 'getargs=%r' % (v,), returned('getargs', v)))
for v in (None, False, 0, 0.0, [], ()):
    CASES.append(('coerced-basename-falsy', 'basename=%r' % (v,),
                  yielded({'basename': v, 'name': 's', 'actions': [A]})))
for v in (5, True, ['q'], 1.5, b's'):
    CASES.append(('coerced-subtask-name', 'name=%r' % (v,),
                  yielded({'name': v, 'actions': [A]})))
for v in (5, 'echo', {'a': 1}):
    CASES.append(('group-attrs-actions-ignored', 'actions=%r' % (v,),
                  yielded({'name': None, 'actions': v}, {'name': 's', 'actions': [A]})))

# optional arguments: only these finding keys (e.g. `F-C18-silent-coercions.py coerced-verbosity`)
ONLY = [a for a in sys.argv[1:] if not a.startswith('-')]
if ONLY:
    CASES = [c for c in CASES if c[0] in ONLY]

accepted = {}
for key, label, ns in CASES:
    res = outcome(ns)
    if res is not None:
        accepted.setdefault(key, []).append('%s %s' % (label, res))

# CLI: one combined dodo; must be exit 3 + ERROR, no traceback
with scratch():
    code, o, e = run_doit(yielded({'name': 5, 'actions': [A], 'verbosity': True,
                                   'getargs': 0, 'basename': []}), ['list', '--all'])
if not ONLY and (code != 3 or 'Traceback' in e or 'ERROR' not in e):
    accepted.setdefault('cli', []).append('doit list --all exit=%s stdout=%r' % (code, o))

# legal values are still accepted
legal = [returned('verbosity', 0), returned('verbosity', 2), returned('verbosity', None),
         returned('getargs', {}), returned('getargs', None), returned('clean', True),
         yielded({'basename': 'b', 'name': 's', 'actions': [A]}),
         yielded({'basename': 'b', 'name': None, 'actions': None}),
         yielded({'basename': 'b', 'name': None, 'doc': 'd'}),
         yielded({'name': 's', 'actions': [A]})]
for i, ns in enumerate(legal):
    res = outcome(ns)
    if res is None or not res.startswith('accepted'):
        accepted.setdefault('legal-rejected', []).append('legal case #%d: %r' % (i, res))

lines = ['%s: %s' % (k, '; '.join(v)) for k, v in sorted(accepted.items())]
done(not accepted, ('wrong-typed values accepted\n  ' + '\n  '.join(lines))
     if accepted else 'all %d wrong-typed values rejected with a diagnostic' % len(CASES))
