"""F-C18 coerced-verbosity (fixed): the part of F-C18-silent-coercions.py that concerns this key."""
import os, runpy, sys
sys.argv = [sys.argv[0], 'coerced-verbosity']
sys.path.insert(0, os.path.dirname(os.path.abspath(__file__)))
runpy.run_path(os.path.join(os.path.dirname(os.path.abspath(__file__)), 'F-C18-silent-coercions.py'), run_name='__main__')
