"""Informational (no property of properties.jsonl is violated): after a switch from `--check_file_uptodate=timestamp`
to md5, a run whose get_status leaves through an early exit (missing target, false uptodate item, nothing to check)
keeps the record written by TimestampChecker; save_success then hands the float state to MD5Checker.get_state:
TypeError traceback, exit 3, and every later run of that task crashes the same way until `doit forget`.
Exit 1 when the defect shows."""
from _util import *
with scratch():
    open('f', 'w').write('x')
    log = []
    def mk():
        def task_t():
            return {'actions': [lambda: (open('g', 'w').write('y'), log.append(1)) and True], 'file_dep': ['f'],
                    'targets': ['g']}
        return {'task_t': task_t}
    c1, _, _ = run_doit(mk(), ['run', '--check_file_uptodate', 'timestamp'])
    os.remove('g')
    c2, _, e2 = run_doit(mk(), ['run', '--check_file_uptodate', 'md5'])
    c3, _, e3 = run_doit(mk(), ['run', '--check_file_uptodate', 'md5'])
    done(not (c2 == 3 and 'TypeError' in e2), 'exit codes %s %s %s; second run: %s; third run: %s'
         % (c1, c2, c3, e2.strip().split('\n')[-1], e3.strip().split('\n')[-1]))
