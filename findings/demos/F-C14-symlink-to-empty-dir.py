"""F-C14-symlink-to-empty-dir: a `clean: True` target that is a symbolic link to an EMPTY directory kills `doit clean`.

clean_targets() tests the target with os.path.isdir / os.listdir (both follow the link), prints "removing dir", then
calls os.rmdir on the link itself -> NotADirectoryError, uncaught: the command dies with a traceback.
  scenario 1: the tasks after it in the clean order are not cleaned (their targets stay);
  scenario 2: with --forget on the json backend the tasks cleaned BEFORE it are not forgotten either (their targets are
              gone, their saved state stays), because dep_manager.close() is never reached.
exit 0: both scenarios behave (the link is removed or reported, the other task is cleaned / forgotten); exit 1: defect."""
import json
import os
from _util import scratch, run_doit, done


def ns(order):
    spec = {'keep': {'actions': None, 'targets': ['out.txt'], 'clean': True},
            'link': {'actions': None, 'targets': ['latest'], 'clean': True}}

    def make(name):          # one `def` for all creators: the loader sorts by line number, ties keep insertion order
        def creator():
            return dict(spec[name])
        return creator
    return {'task_' + name: make(name) for name in order}      # `clean` without arguments walks the reversed list


problems = []
with scratch():
    # scenario 1: `link` is cleaned first (reverse definition order), `keep` after it
    os.mkdir('empty')
    os.symlink('empty', 'latest')
    open('out.txt', 'w').close()
    code, out, err = run_doit(ns(['keep', 'link']), ['clean'])
    if 'NotADirectoryError' in err or 'NotADirectoryError' in out:
        problems.append('clean died with NotADirectoryError (exit %r) after printing %r' % (code, out.strip().split('\n')[-1]))
    if os.path.exists('out.txt'):
        problems.append("scenario 1: task `keep` (selected, later in the clean order) was not cleaned: out.txt is still there")

with scratch():
    # scenario 2: `keep` is cleaned (and "forgotten") first, then `link` kills the command
    os.mkdir('empty')
    os.symlink('empty', 'latest')
    run_doit(ns(['link', 'keep']), ['run'])
    open('out.txt', 'w').close()
    before = sorted(k for k in json.load(open('db.json')) if not k.startswith('_'))
    code, out, err = run_doit(ns(['link', 'keep']), ['clean', '--forget'])
    after = sorted(k for k in json.load(open('db.json')) if not k.startswith('_'))
    if not os.path.exists('out.txt') and 'keep' in after:
        problems.append("scenario 2: `keep` was cleaned (out.txt removed) but `clean --forget` did not forget it: DB %s -> %s"
                        % (before, after))

done(not problems, '; '.join(problems) or 'a target that is a symlink to an empty directory does not stop `clean`')
