"""F-C10b (open): a file_dep dropped and taken up again must be in `changed` (the last successful execution did not see it)."""
from _util import *
with scratch():
    for n in ('f', 'g'):
        open(n, 'w').write('x'); os.utime(n, (5, 5))
    seen = []
    def mk(deps):
        def act(changed): seen.append(sorted(changed)); return True
        return {'task_t': lambda: {'actions': [act], 'file_dep': deps}}
    run_doit(mk(['f', 'g']), ['run'])
    run_doit(mk(['g']), ['run'])
    run_doit(mk(['f', 'g']), ['run'])
    done('f' in seen[-1], 'file_dep f,g -> g -> f,g: changed seen on the third execution = %s' % seen[-1])
