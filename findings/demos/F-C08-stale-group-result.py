"""F-C08 stale-delayed-group-result: a task that takes getargs (or result_dep) from a GROUP created by a delayed
task-creator saves `_result:<group>` = None when its get_status ran before the group was created -- which the parallel
runners do (they look ahead while `prep` executes) and the serial runner does not (definition order prep, parts, total).
Consequences: the saved values differ between serial and `-n 2`; after a serial run, a `-n 2` run re-executes the
consumer although nothing changed (and after a `-n 2` run every later run re-executes it)."""
from _util import *
from doit.loader import create_after
import json


def task_prep():
    return {'actions': [lambda: None]}


@create_after(executed='prep')
def task_parts():
    for n in (1, 2):
        yield {'name': 'p%d' % n, 'actions': [(lambda n=n: {'size': n * 10})]}


def total(sizes):
    return {'total': sum(sizes.values())}


def task_total():
    return {'actions': [total], 'getargs': {'sizes': ('parts', 'size')}}


NS = {'task_prep': task_prep, 'task_parts': task_parts, 'task_total': task_total}


def saved(argv):
    with scratch():
        code, o, e = run_doit(NS, ['run'] + argv)
        with open('db.json') as f:
            db = json.load(f)
        return code, db['total']['_values_:']


c1, serial = saved([])
c2, thread = saved(['-n', '2', '-P', 'thread'])
print('serial :', c1, serial)
print('thread :', c2, thread)
done(c1 == c2 and serial == thread, 'saved values of `total` serial vs -n 2 -P thread: %s' % (
    'equal' if serial == thread else 'differ (_result:parts = %r vs %r)' % (serial.get('_result:parts'), thread.get('_result:parts'))))
