"""F-C02-dupsel: `doit a a b c` must process a, b and c (a repeated name must not truncate the selection)."""
from _util import *
with scratch():
    log = []
    ns = {
        'task_a': lambda: {'actions': [lambda: log.append('a') or True]},
        'task_b': lambda: {'actions': [lambda: log.append('b') or True]},
        'task_c': lambda: {'actions': [lambda: log.append('c') or True]},
    }
    code, out, err = run_doit(ns, ['run', 'a', 'a', 'b', 'c'])
done(code == 0 and log == ['a', 'b', 'c'], 'doit a a b c -> exit %r executed %r' % (code, log))
