"""F-C11c: a run stopped by an action that raises SystemExit / KeyboardInterrupt (sys.exit() in a python-action, Ctrl-C)
runs the teardowns of the started tasks under the serial and the thread runner (run_all: finally finish()), but under
the process runner (-n 2) the main process terminates the workers, whose teardown lists are lost: no teardown runs."""
from _util import *
with scratch():
    def log(msg):
        fd = os.open('log.txt', os.O_WRONLY | os.O_APPEND | os.O_CREAT, 0o644)
        os.write(fd, (msg + '\n').encode())
        os.close(fd)
    def mk(n, deps=(), fatal=False):
        def act():
            log('act ' + n)
            if fatal:
                sys.exit('fatal error in ' + n)
        def td():
            log('td ' + n)
        return lambda: {'actions': [act], 'teardown': [td], 'task_dep': list(deps)}
    ns = {'task_db': mk('db'), 'task_server': mk('server', ['db']), 'task_check': mk('check', ['server'], fatal=True)}
    res = {}
    for label, args in (('serial', []), ('thread', ['-n', '2', '-P', 'thread']), ('process', ['-n', '2', '-P', 'process'])):
        for f in ('log.txt', 'db.json'):
            if os.path.exists(f):
                os.remove(f)
        code, o, e = run_doit(ns, ['run'] + args)
        lines = open('log.txt').read().split('\n')
        res[label] = (sorted(l[3:] for l in lines if l.startswith('td ')), [l[4:] for l in lines if l.startswith('act ')])
    bad = [k for k, (tds, acts) in sorted(res.items()) if acts == ['db', 'server', 'check'] and tds != ['check', 'db', 'server']]
    done(not bad, 'db, server, check started, check calls sys.exit(); teardowns executed: ' +
         '; '.join('%s: %s' % (k, res[k][0]) for k in ('serial', 'thread', 'process')))
