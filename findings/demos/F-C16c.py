"""F-C16c: a detached option value that contains `=` reaches its option (`doit t --val a=b` == `doit t --val=a=b`);
it is not taken for a command-line variable, and the following word is not taken as the value instead."""
from _util import *
got = {}
def act(val):
    got['val'] = val
def task_t():
    return {'actions': [act], 'params': [{'name': 'val', 'long': 'val', 'short': 'v', 'default': 'dflt'}], 'verbosity': 0}
def task_u():
    return {'actions': None}
res = []
with scratch():
    for argv in (['t', '--val=a=b'], ['t', '--val', 'a=b'], ['t', '-v', 'a=b', 'u']):
        got.clear()
        code, out, err = run_doit({'task_t': task_t, 'task_u': task_u}, argv)
        res.append((argv, code, got.get('val')))
done(all(code == 0 and val == 'a=b' for _, code, val in res), '; '.join('doit %s -> exit %s val=%r' % (' '.join(a), c, v) for a, c, v in res))
