"""F-C05/F-C13b: a task whose setup-task failed must not execute (-c)."""
from _util import *
with scratch():
    log = []
    ns = {
      'task_s': lambda: {'actions': [lambda: False]},
      'task_a': lambda: {'actions': [lambda: log.append('a') or True], 'setup': ['s']},
    }
    code, o, e = run_doit(ns, ['run', '-c', 'a'])
    done(log == [], 'a executed after failed setup-task: %s exit=%s' % (log, code))
