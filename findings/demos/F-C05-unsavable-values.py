"""F-C05 unsavable-values: a python-action returns a dict with a value the DB codec cannot encode (a `set`, `bytes`).
`Dependency.save_success` only puts the values into the backend's in-memory record, so the task is reported successful
and the tasks that depend on it execute; the encoding happens in `dep_manager.close()` (Runner.finish), which then raises
TypeError (traceback, exit code 3): nothing of the run reaches the disk -- the removal of the record of a task that FAILED
in the same run is lost (it is reported up-to-date on the next run) -- and the json backend leaves a truncated DB file
that every later command rejects ("Invalid JSON data").  C05: a task that cannot be saved counts as failed: dependents do
not run, nothing is recorded, it executes again next time."""
from _util import *

LOG = []
STATE = {'phase': 'A'}


def ns():
    def task_a():
        def act():
            LOG.append('a')
            return {'v': 1, 'x': {1, 2}} if STATE['phase'] == 'B' else {'v': 1}
        return {'actions': [act], 'file_dep': ['in_a'], 'uptodate': [lambda: STATE['phase'] != 'B']}

    def task_d():
        return {'actions': [lambda: LOG.append('d')], 'task_dep': ['a'], 'uptodate': [lambda: STATE['phase'] != 'B']}

    def task_f():
        def act():
            LOG.append('f')
            return STATE['phase'] != 'B'
        return {'actions': [act], 'file_dep': ['in_f'], 'uptodate': [lambda: STATE['phase'] != 'B']}
    return {'task_a': task_a, 'task_d': task_d, 'task_f': task_f}


problems = []
for backend in ('json', 'dbm', 'sqlite3'):
    with scratch():
        for f in ('in_a', 'in_f'):
            with open(f, 'w') as fh:
                fh.write('x')
        cfg = {'dep_file': 'depdb', 'backend': backend}
        hist = []
        for phase, argv in (('A', ['run']), ('B', ['run', '--continue', 'f', 'a', 'd']), ('C', ['run'])):
            STATE['phase'] = phase
            del LOG[:]
            code, out, err = run_doit(ns(), argv, cfg)
            hist.append((phase, code, list(LOG), 'Traceback' in err, 'Invalid JSON data' in err))
        print(backend, hist)
        (_, codeB, logB, tbB, _), (_, codeC, logC, tbC, badC) = hist[1], hist[2]
        if 'd' in logB:
            problems.append('%s: d executed although the task it depends on could not be saved' % backend)
        if tbB or codeB == 3:
            problems.append('%s: the run that could not save a task ended with a traceback / exit %s' % (backend, codeB))
        if badC:
            problems.append('%s: the DB file is unreadable afterwards' % backend)
        elif 'f' not in logC:
            problems.append('%s: f FAILED in that run and is up-to-date on the next one (its record was not removed)' % backend)
        elif 'a' not in logC:
            problems.append('%s: a could not be saved and is up-to-date on the next run' % backend)
done(not problems, '; '.join(problems) if problems else
     'a task whose values cannot be stored is reported as failed, its dependents do not run, nothing is recorded')
