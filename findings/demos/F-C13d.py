"""F-C13d: forget / ignore / reset-dep over a creator delayed with @create_after(executed=..., creates=[...]) work on
a bare placeholder task (no file_dep, no sub-tasks, task_dep = [executed]) instead of the real tasks:
  * `forget g` / `ignore g` do not reach the sub-tasks of g, `ignore g:a` says "not a task";
  * `forget -s x` also forgets the `executed` task, which x does not declare as a dependency;
  * `reset-dep` records an empty dependency set for x: an up-to-date task is executed again on the next run."""
from _util import *
from doit import create_after
with scratch():
    open('f', 'w').write('1')
    log = []

    def task_e():
        return {'actions': [lambda: log.append('e') or True], 'file_dep': ['f']}

    @create_after(executed='e', creates=['g', 'x'])
    def task_g():
        yield {'basename': 'x', 'actions': [lambda: log.append('x') or True], 'file_dep': ['f']}
        for n in ('a', 'b'):
            yield {'basename': 'g', 'name': n, 'actions': [lambda n=n: log.append('g:' + n) or True], 'file_dep': ['f']}
    ns = {'task_e': task_e, 'task_g': task_g}
    problems = []
    run_doit(ns, ['run'])
    del log[:]
    run_doit(ns, ['reset-dep'])
    run_doit(ns, ['run'])
    if log:
        problems.append('reset-dep made up-to-date tasks stale: next run executed %s' % log)
    del log[:]
    run_doit(ns, ['run'])
    del log[:]
    run_doit(ns, ['forget', 'g'])
    run_doit(ns, ['run'])
    if sorted(log) != ['g:a', 'g:b']:
        problems.append('forget g: next run executed %s, expected the sub-tasks g:a g:b' % log)
    del log[:]
    code, o, e = run_doit(ns, ['forget', '-s', 'x'])
    run_doit(ns, ['run'])
    if sorted(log) != ['x']:
        problems.append('forget -s x: next run executed %s, expected only x (x declares no task_dep)' % log)
    code, o, e = run_doit(ns, ['ignore', 'g:a'])
    if code not in (0, None):
        problems.append('ignore g:a: exit %s %s' % (code, e.strip()[-60:]))
    del log[:]
    run_doit(ns, ['forget', '--all'])
    run_doit(ns, ['ignore', 'g'])
    run_doit(ns, ['run'])
    if [x for x in log if x.startswith('g:')]:
        problems.append('ignore g: sub-tasks still executed: %s' % log)
    done(not problems, '; '.join(problems) or 'forget / ignore / reset-dep see the real tasks of a `creates` creator')
