"""F-C17a (open): two overlapping python-actions in threads must leave sys.stdout restored."""
from _util import *
import sys, threading
from doit.task import Task, Stream
orig = sys.stdout
e1, e2 = threading.Event(), threading.Event()
def a1(): e1.set(); e2.wait(5); return True
t1 = Task('t1', [a1])
th1 = threading.Thread(target=lambda: t1.execute(Stream(0))); th1.start()
e1.wait(5)
# second action starts while the first is inside its callable and ends after the first ended
def a2(): e2.set(); th1.join(5); return True
t2 = Task('t2', [a2]); t2.execute(Stream(0))
ok = sys.stdout is orig
sys.stdout = orig
done(ok, 'sys.stdout restored=%s' % ok)
