"""F-C10 (open): edited file_dep + a false uptodate item -> action must see the file in `changed`."""
from _util import *
with scratch():
    open('f', 'w').write('x')
    seen = []
    def mk(utd):
        def act(changed): seen.append(list(changed)); return True
        return {'task_t': lambda: {'actions': [act], 'file_dep': ['f'], 'uptodate': [utd]}}
    run_doit(mk(True), ['run'])
    open('f', 'w').write('yy'); os.utime('f', (5, 5))
    run_doit(mk(False), ['run'])
    done(seen[-1] == ['f'], 'changed seen on second execution = %s' % seen[-1])
