"""F-C04 tuple-result: a consumer (`getargs` / `uptodate=[result_dep(...)]`) of a task that is executed in every run and
whose python-action returns a dict containing a TUPLE is re-executed on every run although the producer's result never
changes: `result_dep.__call__` compares the value saved at the last success -- read back from the DB, where the JSON
encoding turned the tuple into a list -- with the producer's result of *this* run, still a tuple in memory.  With a list
instead of the tuple the consumer is up-to-date (control)."""
from _util import *
from doit.task import result_dep

RUNS = []


def ns(value):
    def task_src():
        return {'actions': [lambda: {'v': value}]}

    def task_use():
        return {'actions': [lambda v: RUNS.append(('use', v))], 'getargs': {'v': ('src', 'v')}}

    def task_chk():
        return {'actions': [lambda: RUNS.append(('chk',))], 'uptodate': [result_dep('src')]}
    return {'task_src': task_src, 'task_use': task_use, 'task_chk': task_chk}


def history(value, argv):
    out = []
    with scratch():
        for i in range(3):
            del RUNS[:]
            code, o, e = run_doit(ns(value), ['run'] + argv)
            out.append((code, sorted(r[0] for r in RUNS)))
    return out


bad = []
for argv in ([], ['-n', '2', '-P', 'thread']):
    ctl = history([1, 2], argv)
    tup = history((1, 2), argv)
    print(argv, 'list :', ctl)
    print(argv, 'tuple:', tup)
    if ctl[1:] != [(0, []), (0, [])]:
        bad.append('control (list) not up-to-date in runs 2,3: %r' % (ctl,))
    if tup[1:] != [(0, []), (0, [])]:
        bad.append('%s: consumers of an unchanged tuple-valued result re-executed in runs 2,3: %r' % (argv or 'serial', tup[1:]))
done(not bad, '; '.join(bad) if bad else 'consumers of an unchanged result are up-to-date (tuple and list alike)')
