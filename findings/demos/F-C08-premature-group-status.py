"""F-C08 premature-status-delayed-group (second manifestation of the stale-delayed-group-result finding, NOT covered by
083cb7a): `total` takes getargs from a GROUP created by a delayed task-creator.  After a complete serial run nothing has
changed; `doit` (serial) reports every task up-to-date, `doit -n 2 -P thread` re-executes `total`: the parallel runners
call get_status(total) while `prep` is still being processed, i.e. before the group exists, and result_dep compares the
saved dict of sub-task results with the (non-existent) result of the placeholder task."""
from _util import *
from doit.loader import create_after
from doit.tools import run_once
import json

ran = []


def task_prep():
    return {'actions': [lambda: None]}          # always executed: the creator of `parts` has to wait for it


@create_after(executed='prep')
def task_parts():
    for n in (1, 2):
        yield {'name': 'p%d' % n, 'actions': [(lambda n=n: {'size': n * 10})], 'uptodate': [run_once]}


def total(sizes):
    ran.append(dict(sizes))
    return {'total': sum(sizes.values())}


def task_total():
    return {'actions': [total], 'getargs': {'sizes': ('parts', 'size')}, 'uptodate': [run_once]}


NS = {'task_prep': task_prep, 'task_parts': task_parts, 'task_total': task_total}


def second_run(argv):
    del ran[:]
    with scratch():
        run_doit(NS, ['run'])                 # DB pre-state: one complete serial run
        del ran[:]
        code, o, e = run_doit(NS, ['run'] + argv)
        return code, len(ran)


c1, n1 = second_run([])
c2, n2 = second_run(['-n', '2', '-P', 'thread'])
print('second run serial : exit %s, total executed %d time(s)' % (c1, n1))
print('second run thread : exit %s, total executed %d time(s)' % (c2, n2))
done((c1, n1) == (c2, n2), 'unchanged project, second run: serial executes `total` %d time(s), -n 2 -P thread %d time(s)' % (n1, n2))
