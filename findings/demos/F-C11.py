"""F-C11: thread runner must run each teardown exactly once."""
from _util import *
with scratch():
    td = []
    def mk(n):
        return lambda: {'actions': [lambda: True], 'teardown': [lambda: td.append(n) or True]}
    ns = {'task_%s' % n: mk(n) for n in 'abc'}
    code, o, e = run_doit(ns, ['run', '-n', '2', '-P', 'thread'])
    done(sorted(td) == ['a', 'b', 'c'], 'teardowns run: %s' % td)
