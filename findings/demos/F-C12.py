"""F-C12: `doit --single t1 t2` must run both named tasks."""
from _util import *
with scratch():
    log = []
    ns = {'task_t1': lambda: {'actions': [lambda: log.append('t1') or True]},
          'task_t2': lambda: {'actions': [lambda: log.append('t2') or True]}}
    run_doit(ns, ['run', '--single', 't1', 't2'])
    done(log == ['t1', 't2'], 'executed %s' % log)
