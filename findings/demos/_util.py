"""Shared helpers for the finding demos.  Each demo exits 0 when the property
holds on the tree under test and 1 (printing what failed) when the defect shows.
Tree under test: $VERIF_REPO (default /repo)."""
import os, sys, tempfile, shutil, io, contextlib
REPO = os.environ.get('VERIF_REPO', '/repo')
sys.path.insert(0, REPO)

@contextlib.contextmanager
def scratch():
    d = tempfile.mkdtemp(prefix='doitdemo')
    old = os.getcwd()
    os.chdir(d)
    try:
        yield d
    finally:
        os.chdir(old)
        shutil.rmtree(d, ignore_errors=True)

def run_doit(namespace, argv, extra_config=None):
    """run doit in-process on a dict of task creators; returns (exit code, stdout, stderr)"""
    from doit.doit_cmd import DoitMain
    from doit.cmd_base import ModuleTaskLoader
    ns = dict(namespace)
    cfg = {'dep_file': 'db.json', 'backend': 'json', 'verbosity': 0}
    cfg.update(ns.get('DOIT_CONFIG', {}))
    cfg.update(extra_config or {})
    ns['DOIT_CONFIG'] = cfg
    out, err = io.StringIO(), io.StringIO()
    with contextlib.redirect_stdout(out), contextlib.redirect_stderr(err):
        try:
            code = DoitMain(ModuleTaskLoader(ns)).run(list(argv))
        except SystemExit as e:
            code = e.code
    return code, out.getvalue(), err.getvalue()

def done(ok, msg):
    print(('OK: ' if ok else 'DEFECT: ') + msg)
    sys.exit(0 if ok else 1)
