"""F-C20 (c): `doit info t` on an ignored task shows "ignore", as `run` (skips it) and `list -s` (I) do."""
import re
from _util import *

with scratch():
    for n in 'ab':
        open(n, 'w').write(n)
    log = []

    def task_t():
        return {'actions': [lambda: log.append('t') or True], 'file_dep': ['a', 'b'], 'verbosity': 0}
    ns = {'task_t': task_t}
    run_doit(ns, ['ignore', 't'])
    code, out, err = run_doit(ns, ['info', 't'])
    m = re.search(r'^status\s*:\s*(\S+)', out, re.M)
    info = m.group(1) if m else None
    code2, lout, err = run_doit(ns, ['list', '-s'])
    m2 = re.search(r'^([A-Z]) t\b', lout, re.M)
    lst = m2.group(1) if m2 else None
    run_doit(ns, ['run'])
    ran = 'ignore' if not log else 'run'
    done(lst == 'I' and ran == 'ignore' and info == 'ignore' and code in (0, None),
         'run: %s, list -s: %s, info: %s (exit %s)' % (ran, lst, info, code))
