"""F-C01-calc-wild-dep-dropped: a wildcard task_dep DELIVERED by a calc_dep task (`{'task_dep': ['b*']}`) must make the
receiver wait for -- and the run process -- the matching tasks, as the same pattern written in the task's own task_dep
does.  doit puts the pattern into Task.wild_dep (Task.update_deps -> _expand_task_dep), which is expanded only once, in
TaskControl.__init__: the dependency is silently dropped and the receiver starts without b1 / b2 ever running."""
from _util import *
with scratch():
    log = []
    ns = {
        'task_c': lambda: {'actions': [lambda: {'task_dep': ['b*']}]},
        'task_b1': lambda: {'actions': [lambda: log.append('b1') or True]},
        'task_b2': lambda: {'actions': [lambda: log.append('b2') or True]},
        'task_w': lambda: {'actions': [lambda: log.append('w') or True], 'calc_dep': ['c']},
        # control: the same pattern written statically
        'task_w2': lambda: {'actions': [lambda: log.append('w2') or True], 'task_dep': ['b*']},
    }
    code, out, err = run_doit(ns, ['run', 'w'])
    dyn = list(log)
    del log[:]
    os.remove('db.json') if os.path.exists('db.json') else None
    code2, out2, err2 = run_doit(ns, ['run', 'w2'])
    static = list(log)
done(code == 0 and dyn == ['b1', 'b2', 'w'] and static == ['b1', 'b2', 'w2'],
     "calc_dep c delivers task_dep ['b*'] to w: executed %r (expected ['b1', 'b2', 'w']); static task_dep ['b*']: %r"
     % (dyn, static))
