"""F-C18a: dangling calc_dep must be rejected as invalid task (exit 3, no traceback)."""
from _util import *
with scratch():
    ns = {'task_a': lambda: {'actions': [lambda: True], 'calc_dep': ['nope']}}
    try:
        code, o, e = run_doit(ns, ['run'])
    except Exception as ex:
        done(False, 'raised %r' % ex)
    done(code == 3 and 'Traceback' not in e, 'exit=%s err=%s' % (code, e[-300:]))
