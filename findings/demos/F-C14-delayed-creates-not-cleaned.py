"""F-C14-delayed-creates-not-cleaned: tasks of a `create_after(..., creates=[...])` creator are invisible to `doit clean`.

For commands that do not execute tasks the loader runs delayed creators at once ("other commands should always load all
tasks", loader.load_tasks) -- except when `creates` is given: then only a placeholder task per declared name is made (no
clean, no targets, no sub-tasks).  `doit clean [late]` therefore runs no clean behaviour of `late` (its target stays), while
`doit clean --forget` does erase its saved state; `clean --clean-dep late` cleans only the `executed` task.
exit 0: after `doit run; doit clean` the target of the delayed task is gone; exit 1: defect."""
import os
from _util import scratch, run_doit, done      # first: puts $VERIF_REPO on sys.path
from doit import create_after                  # noqa: E402


def namespace():
    def task_first():
        return {'actions': ['touch a.txt'], 'targets': ['a.txt'], 'clean': True}

    @create_after(executed='first', creates=['late'])
    def task_late_creator():
        yield {'basename': 'late', 'actions': ['touch late.txt'], 'targets': ['late.txt'], 'clean': True}

    @create_after(executed='first')
    def task_same_without_creates():
        return {'actions': ['touch other.txt'], 'targets': ['other.txt'], 'clean': True}
    return {'task_first': task_first, 'task_late_creator': task_late_creator,
            'task_same_without_creates': task_same_without_creates}


problems = []
with scratch():
    run_doit(namespace(), ['run'])
    made = sorted(f for f in os.listdir('.') if f.endswith('.txt'))
    code, out, err = run_doit(namespace(), ['clean'])
    left = sorted(f for f in os.listdir('.') if f.endswith('.txt'))
    if made != ['a.txt', 'late.txt', 'other.txt']:
        problems.append('unexpected run result %s' % made)
    if 'late.txt' in left:
        problems.append("`doit clean` (all tasks) left late.txt, the target of the delayed task `late` (clean: True); "
                        "the same creator without `creates` is cleaned (other.txt gone: %s); clean printed %r"
                        % ('other.txt' not in left, out))
    open('late.txt', 'a').close()
    code, out, err = run_doit(namespace(), ['clean', 'late'])
    if os.path.exists('late.txt'):
        problems.append("`doit clean late` ran no clean behaviour of the selected task `late`")
done(not problems, '; '.join(problems) or 'delayed tasks declared with `creates` are cleaned like any other task')
