"""F-C18 command-name-as-basename: a task must not get the name of a command,
whether the name comes from the creator function (`task_list`, checked) or from
a `basename` in the returned / yielded dict (not checked)."""
from _util import *
from doit import loader
from doit.control import TaskControl
from doit.exceptions import InvalidTask, InvalidDodoFile

def A():
    return True

def task_ret():
    return {'basename': 'list', 'actions': [A]}
def task_gen():
    yield {'basename': 'run', 'actions': [A]}
def task_grp():
    yield {'basename': 'clean', 'name': 'sub', 'actions': [A]}

CMDS = ('list', 'run', 'clean', 'help')
bad = []
# reference: the creator's own name is checked
try:
    loader.load_tasks({'task_list': lambda: {'actions': [A]}}, CMDS)
    bad.append('reference case task_list() accepted')
except InvalidDodoFile:
    pass
for label, creator, tname in (('returned basename', task_ret, 'list'),
                              ('yielded basename', task_gen, 'run'),
                              ('yielded basename+name (group task)', task_grp, 'clean')):
    ns = {'task_f': creator}
    try:
        tasks = loader.load_tasks(dict(ns), CMDS)
        TaskControl(tasks)
        bad.append('%s: task %r accepted by load_tasks (tasks=%r)' % (
            label, tname, [t.name for t in tasks]))
    except (InvalidTask, InvalidDodoFile):
        pass
    except Exception as ex:
        bad.append('%s: load_tasks raised %s: %s' % (label, type(ex).__name__, ex))
    with scratch():
        code, o, e = run_doit(ns, ['list'])
    if code != 3 or 'Traceback' in e or 'ERROR' not in e:
        bad.append('%s: doit list exit=%s stdout=%r' % (label, code, o))
# sub-task names are not top-level names: `f:list` stays legal
def task_sub():
    yield {'name': 'list', 'actions': [A]}
try:
    names = [t.name for t in loader.load_tasks({'task_f': task_sub}, CMDS)]
    if names != ['f', 'f:list']:
        bad.append('sub-task f:list gave %r' % names)
except Exception as ex:
    bad.append('sub-task f:list rejected: %r' % ex)
done(not bad, ' | '.join(bad) if bad else 'a basename equal to a command name is rejected')
