"""Recompute harness/anchors.lock.json (AST fingerprints of every anchored function) for the current /repo HEAD.
Run after a deliberate change of /repo (fix: commit) or when a property module adds anchors."""
import glob, importlib, json, os, sys
# ast.dump differs between interpreter versions: always fingerprint with the interpreter the checks use
if os.path.realpath(sys.executable) != os.path.realpath('/venv/bin/python') and os.path.exists('/venv/bin/python'):
    os.execv('/venv/bin/python', ['/venv/bin/python'] + sys.argv)
HERE = os.path.dirname(os.path.abspath(__file__))
sys.path.insert(0, os.path.join(os.path.dirname(HERE), 'harness'))
import common
anchors = set()
for f in glob.glob(os.path.join(os.path.dirname(HERE), 'harness', 'props', 'c*.py')):
    m = importlib.import_module('props.' + os.path.basename(f)[:-3])
    anchors.update(m.META.get('anchors', []))
h = common.anchor_hashes(sorted(anchors))
missing = [a for a, v in h.items() if v.startswith('missing')]
if missing:
    print('WARNING anchors not found:', missing)
json.dump(h, open(os.path.join(os.path.dirname(HERE), 'harness', 'anchors.lock.json'), 'w'), indent=1, sort_keys=True)
print('%d anchors locked' % len(h))
