#!/usr/bin/env python3
"""How much of the anchored doit code does the correspondence (K) of each check really execute?

usage: tools/anchor_coverage.py [--only C07,C12] [--jobs 4] [--tier quick]

Runs every registered check with VERIF_ANCHORCOV=1 (harness/main.py then measures, with coverage.py, the statements of
the functions named in the property module's META['anchors'] that run in the harness process, its threads and its forked
pmap workers; doit runs started as separate programs -- CLI subprocesses, multiprocessing children of the process runner
-- are not measured, so the numbers are lower bounds).  Writes notes/anchor-coverage.md and notes/anchor-coverage.json.
The committed evidence files are put back afterwards: this is a measurement of the tie between model and code, it decides
nothing."""
import argparse, concurrent.futures, json, os, shutil, subprocess, sys, tempfile
VERIF = os.path.dirname(os.path.dirname(os.path.abspath(__file__)))


def run(c, tier):
    pid = c['property_id']
    ev = os.path.join(VERIF, c['evidence_file'])
    keep = tempfile.mktemp(prefix='ev-%s-' % pid)
    had = os.path.exists(ev)
    if had:
        shutil.copy(ev, keep)
    env = dict(os.environ, VERIF_ANCHORCOV='1', VERIF_SEED=os.environ.get('VERIF_SEED', '0'))
    p = subprocess.run(c['quick_cmd'] if tier == 'quick' else c['thorough_cmd'], shell=True, cwd=VERIF, env=env,
                       stdout=subprocess.PIPE, stderr=subprocess.STDOUT, text=True)
    try:
        with open(ev) as f:
            cov = json.load(f)['coverage'].get('anchor_line_coverage', {})
    except Exception:  # noqa
        cov = {}
    if had:
        shutil.move(keep, ev)
    return pid, p.returncode, cov


def main():
    ap = argparse.ArgumentParser()
    ap.add_argument('--only', default='')
    ap.add_argument('--jobs', type=int, default=4)
    ap.add_argument('--tier', default='quick')
    a = ap.parse_args()
    checks = json.load(open(os.path.join(VERIF, 'MANIFEST.json')))['checks']
    if a.only:
        checks = [c for c in checks if c['property_id'] in a.only.split(',')]
    res = {}
    with concurrent.futures.ThreadPoolExecutor(a.jobs) as ex:
        for pid, code, cov in ex.map(lambda c: run(c, a.tier), checks):
            res[pid] = {'exit': code, 'anchors': cov}
            print(pid, 'exit', code, 'anchors', len(cov), file=sys.stderr)
    with open(os.path.join(VERIF, 'notes', 'anchor-coverage.json'), 'w') as f:
        json.dump(res, f, indent=1, sort_keys=True)
    # union over properties: an anchored statement counts as exercised when the K of ANY check runs it
    union = {}
    for pid, r in res.items():
        for anc, v in r['anchors'].items():
            if 'statements' not in v:
                continue
            u = union.setdefault(anc, {'statements': v['statements'], 'missing': None, 'by': []})
            ms = set(v['missing_lines'])
            u['missing'] = ms if u['missing'] is None else (u['missing'] & ms)
            u['by'].append(pid)
    lines = ['# Anchored code executed by the correspondence runs (`tools/anchor_coverage.py`, tier %s)' % a.tier, '',
             'In-process lower bound (harness process, its threads, forked workers); doit started as a separate program is not',
             'measured.  A statement listed as missing is one no generated case of that check reached in this run: a place',
             'where a change to doit could go unseen by the correspondence of that property.', '',
             '| property | anchors | statements | executed | % | anchors below 80 % |', '|---|---|---|---|---|---|']
    for pid in sorted(res):
        anc = {k: v for k, v in res[pid]['anchors'].items() if 'statements' in v}
        st = sum(v['statements'] for v in anc.values())
        exd = sum(v['executed'] for v in anc.values())
        low = ['%s %d/%d' % (k.split('::')[1], v['executed'], v['statements']) for k, v in sorted(anc.items())
               if v['statements'] and v['executed'] < 0.8 * v['statements']]
        lines.append('| %s | %d | %d | %d | %s | %s |' % (pid, len(anc), st, exd, ('%.0f' % (100.0 * exd / st)) if st else '-',
                                                         '; '.join(low) or '-'))
    st = sum(u['statements'] for u in union.values())
    mi = sum(len(u['missing']) for u in union.values())
    lines += ['', 'Union over all checks: %d anchored functions/classes, %d statements, %d executed by at least one check (%.1f %%).'
              % (len(union), st, st - mi, 100.0 * (st - mi) / max(1, st)), '',
              '## Statements no check executed in-process', '']
    for anc, u in sorted(union.items()):
        if u['missing']:
            lines.append('* `%s` (%s): lines %s' % (anc, ','.join(sorted(u['by'])), ', '.join(map(str, sorted(u['missing'])))))
    with open(os.path.join(VERIF, 'notes', 'anchor-coverage.md'), 'w') as f:
        f.write('\n'.join(lines) + '\n')
    print('\n'.join(lines[:40]))


if __name__ == '__main__':
    main()
