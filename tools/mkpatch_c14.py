"""build seeded/own-C14-<slug>/patch.diff from in-memory edits of /repo files (no worktree needed)"""
import difflib, json, os, sys
V = os.path.dirname(os.path.dirname(os.path.abspath(__file__)))
MUTS = {
 'stop-after-failing-action': ('doit/task.py', [("""                    if isinstance(result, BaseFail):
                        sys.stderr.write(str(result))
""", """                    if isinstance(result, BaseFail):
                        sys.stderr.write(str(result))
                        break
""")], 'a failing clean action ends the task\'s clean: the following clean actions of the list are announced? no - skipped',
   'clean lists with a failing / raising / exit-1 action followed by another action'),
 'dryrun-kwargs-replaced': ('doit/task.py', [("                        action.kwargs['dryrun'] = dryrun\n",
                                               "                        action.kwargs = {'dryrun': dryrun}\n")],
   'the dryrun flag replaces the keyword arguments of a (fn, args, kwargs) clean action instead of being added to them',
   '(fn, args, kwargs) clean actions whose callable takes `dryrun`'),
 'clean-without-init-options': ('doit/task.py', [('''        """
        self.init_options()
        # if clean is True remove all targets
''', '''        """
        # if clean is True remove all targets
''')], 'Task.clean no longer initialises the task options: a clean action that takes a task parameter gets nothing',
   'clean actions whose callable takes a task `params` option'),
 'path-target-basename': ('doit/task.py', [("                targets.append(str(target))\n", "                targets.append(target.name if target.is_absolute() or len(target.parts) > 2 else str(target))\n")],
   'a pathlib target deeper than one directory is reduced to its last component', 'pathlib.Path / PurePosixPath targets, nested'),
}
for slug in (sys.argv[1:] or list(MUTS)):
    path, reps, what, needs = MUTS[slug]
    src = open(os.path.join('/repo', path)).read()
    new = src
    for a, b in reps:
        assert a in new, (slug, a)
        new = new.replace(a, b, 1)
    diff = ''.join(difflib.unified_diff(src.splitlines(True), new.splitlines(True), 'a/' + path, 'b/' + path))
    d = os.path.join(V, 'seeded', 'own-C14-' + slug)
    os.makedirs(d, exist_ok=True)
    open(os.path.join(d, 'patch.diff'), 'w').write('diff --git a/%s b/%s\n' % (path, path) + diff)
    json.dump({'property': 'C14', 'needs': needs, 'what': what, 'ran': None, 'caught_by': None},
              open(os.path.join(d, 'meta.json'), 'w'), indent=1)
    print('wrote', d)
