"""Replace the table of DESIGN.md §11.5 by the output of tools/design_table.py (run after the final evidence refresh)."""
import os, re, subprocess, sys
V = os.path.dirname(os.path.dirname(os.path.abspath(__file__)))
tab = subprocess.run([sys.executable, os.path.join(V, 'tools', 'design_table.py')], stdout=subprocess.PIPE, text=True, check=True).stdout
rows = [l for l in tab.split('\n') if l.startswith('|')]
p = os.path.join(V, 'DESIGN.md')
s = open(p).read()
start = s.index('| property | theorems (obligations discharged) |')
end = start
lines = s[start:].split('\n')
n = 0
for l in lines:
    if not l.startswith('|'):
        break
    n += 1
old = '\n'.join(lines[:n])
s = s[:start] + '\n'.join(rows) + s[start + len(old):]
open(p, 'w').write(s)
print('table rows:', len(rows) - 2)
