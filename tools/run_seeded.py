"""Run registered checks against every seeded change (seeded/<id>/patch.diff) and record which check catches which.

usage: tools/run_seeded.py [--only <id-substring>] [--props C07,C05] [--all-props] [--tier quick] [--jobs 4]

For each seeded change a scratch git worktree of /repo HEAD gets the patch (tools/with_patch.sh); by default the check of
the property the change breaks (meta.json "breaks_property") is run, with --all-props every claimed check.  A check
"catches" the change when it exits 1 and prints a VIOLATION line; the replay kind (concrete input vs
no-failing-input-found) is recorded.  Results are written into seeded/<id>/meta.json ("caught_by") and summarised in
seeded/MATRIX.md.  /repo itself is never modified.
"""
import argparse
import concurrent.futures
import json
import os
import re
import subprocess
import sys
import time

VERIF = os.path.dirname(os.path.dirname(os.path.abspath(__file__)))


def claimed():
    with open(os.path.join(VERIF, 'MANIFEST.json')) as f:
        return [c['property_id'] for c in json.load(f)['checks']]


def run_one(sid, prop, tier):
    patch = os.path.join(VERIF, 'seeded', sid, 'patch.diff')
    t0 = time.time()
    env = dict(os.environ)
    env.setdefault('VERIF_SEED', '0')
    try:
        p = subprocess.run([os.path.join(VERIF, 'tools', 'with_patch.sh'), patch, './check', tier, prop], cwd=VERIF,
                           stdout=subprocess.PIPE, stderr=subprocess.STDOUT, text=True, timeout=3600, env=env)
        out, code = p.stdout, p.returncode
    except subprocess.TimeoutExpired:
        out, code = 'timeout', 2
    vio = [l for l in out.split('\n') if l.startswith('VIOLATION')]
    known = [l for l in out.split('\n') if l.startswith('KNOWN-FINDING')]
    if code == 1 and vio:
        kind = 'no-failing-input-found' if all(l.rstrip().endswith('no-failing-input-found') for l in vio) else 'failing-input'
        res = 'caught:' + kind
    elif code == 0:
        res = 'missed'
    else:
        res = 'error(exit %s): %s' % (code, out.strip().split('\n')[-1][:200])
    return sid, prop, res, round(time.time() - t0, 1), len(known)


def main():
    ap = argparse.ArgumentParser()
    ap.add_argument('--only', default='')
    ap.add_argument('--props', default='')
    ap.add_argument('--all-props', action='store_true')
    ap.add_argument('--tier', default='quick')
    ap.add_argument('--jobs', type=int, default=3)
    ap.add_argument('--exclude', default='', help='skip ids containing this substring')
    ap.add_argument('--new', action='store_true', help='only (change, property) pairs without a recorded result')
    a = ap.parse_args()
    have = claimed()
    jobs = []
    sdir = os.path.join(VERIF, 'seeded')
    for sid in sorted(os.listdir(sdir)):
        d = os.path.join(sdir, sid)
        if not os.path.exists(os.path.join(d, 'patch.diff')) or a.only not in sid:
            continue
        if a.exclude and a.exclude in sid:
            continue
        meta = {}
        if os.path.exists(os.path.join(d, 'meta.json')):
            with open(os.path.join(d, 'meta.json')) as f:
                meta = json.load(f)
        if a.props:
            props = a.props.split(',')
        elif a.all_props:
            props = have
        else:
            bp = meta.get('breaks_property')
            if not bp:
                mm = re.search(r'F-(C\d\d)', sid) or re.match(r'own-(C\d\d)', sid)
                bp = mm.group(1) if mm else None
            props = [bp] if bp else []
            props += [p for p in meta.get('also_breaks', [])]
        for p in props:
            if a.new and isinstance(meta.get('caught_by'), dict) and p in meta['caught_by']:
                continue
            if p in have:
                jobs.append((sid, p))
            else:
                print('%-34s %s: no check registered' % (sid, p))
    results = []
    with concurrent.futures.ThreadPoolExecutor(a.jobs) as ex:
        for r in ex.map(lambda j: run_one(j[0], j[1], a.tier), jobs):
            print('%-34s %s %-28s %6.1fs' % (r[0], r[1], r[2], r[3]))
            sys.stdout.flush()
            results.append(r)
    for sid, prop, res, secs, known in results:
        mp = os.path.join(sdir, sid, 'meta.json')
        meta = {}
        if os.path.exists(mp):
            with open(mp) as f:
                meta = json.load(f)
        meta.setdefault('id', sid)
        meta.setdefault('caught_by', {})
        if not isinstance(meta['caught_by'], dict):
            meta['caught_by'] = {}
        meta['caught_by'][prop] = {'result': res, 'tier': a.tier, 'wall_s': secs}
        with open(mp, 'w') as f:
            json.dump(meta, f, indent=1)
    write_matrix()


def write_matrix():
    sdir = os.path.join(VERIF, 'seeded')
    rows = []
    for sid in sorted(os.listdir(sdir)):
        mp = os.path.join(sdir, sid, 'meta.json')
        if not os.path.exists(mp):
            continue
        with open(mp) as f:
            meta = json.load(f)
        cb = meta.get('caught_by') or {}
        if not isinstance(cb, dict):
            cb = {'(builder)': str(cb)}
        cells = ['%s: %s' % (p, (v.get('result') if isinstance(v, dict) else v)) for p, v in sorted(cb.items())]
        rows.append('| %s | %s | %s | %s |' % (sid, meta.get('breaks_property', ''),
                                             (meta.get('needs_to_manifest') or '')[:110].replace('|', '/'), '; '.join(cells)))
    with open(os.path.join(sdir, 'MATRIX.md'), 'w') as f:
        f.write('# Seeded changes x checks (generated by tools/run_seeded.py)\n\n'
                '| seeded change | breaks | needs | result per check |\n|---|---|---|---|\n' + '\n'.join(rows) + '\n')


if __name__ == '__main__':
    main()
