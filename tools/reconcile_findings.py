"""After merging clones: de-duplicate findings/known-findings.txt; keep an `open:` line only while some property module still
has a SIGNATURES entry for its key (an owner that turned a finding into `fixed:` removed the signature)."""
import glob, importlib, os, re, sys
HERE = os.path.dirname(os.path.abspath(__file__)); V = os.path.dirname(HERE)
sys.path.insert(0, os.path.join(V, 'harness'))
keys = set()
for f in glob.glob(os.path.join(V, 'harness', 'props', 'c*.py')):
    m = importlib.import_module('props.' + os.path.basename(f)[:-3])
    keys |= set(getattr(m, 'SIGNATURES', {}))
p = os.path.join(V, 'findings', 'known-findings.txt')
out, seen = [], set()
for l in open(p):
    l = l.rstrip('\n')
    if l in seen and l.strip() and not l.startswith('#'):
        continue
    seen.add(l)
    mm = re.match(r'open:\s+property=\S+\s+key=(\S+)', l)
    if mm and mm.group(1) not in keys:
        print('dropping stale open line:', l[:90]); continue
    if l.startswith(('<<<<<<<', '=======', '>>>>>>>')):
        continue
    out.append(l)
open(p, 'w').write('\n'.join(out) + '\n')
print(sum(l.startswith('open:') for l in out), 'open,', sum(l.startswith('fixed:') for l in out), 'fixed')
