#!/bin/bash
# usage: tools/keep_mutant.sh <out-dir with patch.diff demo.py notes.md> <seeded id> <property> "<needs>"
# verifies the mutant (tools/verify_mutant.sh) and stores it as seeded/<id>/ {patch.diff, demo.py, notes.md, meta.json}
set -u
src="$(readlink -f "$1")"; id="$2"; prop="$3"; needs="$4"
cd "$(dirname "$0")/.."
res="$(tools/verify_mutant.sh "$src" | tr '\n' ' ')"
echo "$id: $res"
case "$res" in *" VERIFIED"*) ;; *) echo "not kept"; exit 1;; esac
mkdir -p seeded/$id
cp "$src/patch.diff" "$src/demo.py" seeded/$id/
[ -f "$src/notes.md" ] && cp "$src/notes.md" seeded/$id/
python3 - "$id" "$prop" "$needs" "$res" <<'P'
import json,sys
id_,prop,needs,res=sys.argv[1:5]
json.dump({"id":id_,"breaks_property":prop,"needs_to_manifest":needs,
 "origin":"independent sub-agent given only the property text and a scratch worktree of /repo",
 "confirmed":"tools/verify_mutant.sh in a scratch worktree: demo exits 0 on the clean tree, patch applies, pinned suite = baseline (only tests/test___main__.py::test_execute fails), demo exits 1 with the patch",
 "verify_output":res.strip(), "caught_by":{}}, open("seeded/%s/meta.json"%id_,"w"), indent=1)
P
