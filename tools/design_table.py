"""Print the per-property state table for DESIGN.md §11.5 from MANIFEST.json, evidence/*.json and known-findings.txt."""
import json, os, re, sys
V = os.path.dirname(os.path.dirname(os.path.abspath(__file__)))
man = json.load(open(os.path.join(V, 'MANIFEST.json')))
opens = {}
for l in open(os.path.join(V, 'findings', 'known-findings.txt')):
    m = re.match(r'open:\s+property=(\S+)\s+key=(\S+)', l)
    if m:
        opens.setdefault(m.group(1), []).append(m.group(2))
print('| property | theorems (obligations discharged) | partial / unproved-full statements | quick cases (distinct non-trivial) | open findings |')
print('|---|---|---|---|---|')
for c in man['checks']:
    pid = c['property_id']
    ev = json.load(open(os.path.join(V, c['evidence_file'])))
    cov = ev['coverage']
    th = cov.get('theorems', {})
    names = sorted(n.split('.')[-1] for n in th)
    partial = [n for n in names if n.endswith('_partial')]
    src = open(os.path.join(V, 'lean', 'DoitModel', 'Props', pid + '.lean')).read()
    fulls = re.findall(r'^def\s+(\w*_full)\b', src, re.M)
    print('| %s | %d/%d: %s | %s | %d (%d) | %s |' % (
        pid, cov['discharged'], cov['obligations'], ', '.join(names[:40]), ', '.join(partial + ['def ' + f for f in fulls]) or '–',
        cov['evaluations'], cov['distinct_nontrivial'], ', '.join(opens.get(pid, [])) or '–'))
print()
for n in man.get('not_applicable', []):
    print('not claimed:', n['property_id'], '-', n['reason'][:100])
