"""Run every registered check (MANIFEST.json) on the unchanged tree and validate its evidence file.
usage: tools/selfcheck.py [--seeds 0,1] [--tier quick] [--only C07,C12] [--jobs 2]
Prints one line per (check, seed): exit code, wall time, evidence validity.  Exit 1 if any check raised an alarm,
exited non-zero, or wrote evidence that does not validate against /root/.vp/EVIDENCE.schema.json."""
import argparse, concurrent.futures, json, os, subprocess, sys, time
VERIF = os.path.dirname(os.path.dirname(os.path.abspath(__file__)))

def validate(path):
    code = ("import json,jsonschema,sys; jsonschema.validate(json.load(open(sys.argv[1])), "
            "json.load(open('/root/.vp/EVIDENCE.schema.json')))")
    p = subprocess.run(['python3-vt', '-c', code, path], stdout=subprocess.PIPE, stderr=subprocess.PIPE, text=True)
    return p.returncode == 0, p.stderr.strip().split('\n')[-1][:200]

def run(job):
    c, seed, tier = job
    env = dict(os.environ, VERIF_SEED=str(seed), VERIF_TIER=tier)
    ev = os.path.join(VERIF, c['evidence_file'])
    cmd = c['quick_cmd'] if tier == 'quick' else c.get('thorough_cmd', c['quick_cmd'])
    t = time.time()
    p = subprocess.run(cmd, shell=True, cwd=VERIF, env=env, stdout=subprocess.PIPE, stderr=subprocess.STDOUT, text=True)
    dt = time.time() - t
    ok, why = validate(ev) if os.path.exists(ev) else (False, 'no evidence file')
    lines = [l for l in p.stdout.split('\n') if l.startswith(('VIOLATION', 'KNOWN-FINDING'))]
    return c['property_id'], seed, p.returncode, dt, ok, why, lines, p.stdout.strip().split('\n')[-1][:160]

def main():
    ap = argparse.ArgumentParser()
    ap.add_argument('--seeds', default='0')
    ap.add_argument('--tier', default='quick')
    ap.add_argument('--only', default='')
    ap.add_argument('--jobs', type=int, default=1)
    a = ap.parse_args()
    checks = json.load(open(os.path.join(VERIF, 'MANIFEST.json')))['checks']
    if a.only:
        checks = [c for c in checks if c['property_id'] in a.only.split(',')]
    jobs = [(c, int(s), a.tier) for s in a.seeds.split(',') for c in checks]
    bad = 0
    # evidence files are per property: never run two seeds of one property at the same time
    with concurrent.futures.ThreadPoolExecutor(a.jobs if len(a.seeds.split(',')) == 1 else 1) as ex:
        for pid, seed, code, dt, ok, why, lines, last in ex.map(run, jobs):
            flag = 'ok ' if code == 0 and ok and not any(l.startswith('VIOLATION') for l in lines) else 'BAD'
            bad += flag == 'BAD'
            print('%s %s seed=%d exit=%d %6.1fs evidence=%s %s | %s' % (flag, pid, seed, code, dt, 'valid' if ok else 'INVALID(' + why + ')',
                  '%d known' % sum(l.startswith('KNOWN') for l in lines) if lines else '', last))
            sys.stdout.flush()
    return 1 if bad else 0

if __name__ == '__main__':
    sys.exit(main())
