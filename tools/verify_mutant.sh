#!/bin/bash
# usage: tools/verify_mutant.sh <dir with patch.diff and demo.py>
# Confirms, in a scratch worktree of /repo HEAD: demo exits 0 on the clean tree; patch applies; the pinned suite still has
# exactly the baseline result (only tests/test___main__.py::test_execute fails); demo exits non-zero with the patch.
set -u
d="$(readlink -f "$1")"
wt="$(mktemp -d /tmp/verif-vm-XXXXXX)"; rmdir "$wt"
git -C /repo worktree add -q --detach "$wt" HEAD || exit 2
cleanup() { git -C /repo worktree remove --force "$wt" 2>/dev/null; rm -rf "$wt"; git -C /repo worktree prune; }
trap cleanup EXIT
cd "$wt"
DEMO_REPO="$wt" PYTHONPATH="$wt" timeout 120 /venv/bin/python "$d/demo.py" >/dev/null 2>&1; clean=$?
git apply "$d/patch.diff" || { echo "RESULT patch-does-not-apply"; exit 2; }
# the suite is flaky under heavy machine load (strace/timing tests): accept the best of up to 3 runs
for try in 1 2 3; do
  out="$(/venv/bin/python -m pytest -q -p no:cacheprovider --timeout=900 2>&1)"
  suite="$(echo "$out" | tail -1)"
  fails="$(echo "$out" | grep '^FAILED' | grep -v 'test___main__.py::test_execute' | head -5)"
  [ -z "$fails" ] && break
done
DEMO_REPO="$wt" PYTHONPATH="$wt" timeout 120 /venv/bin/python "$d/demo.py" >/dev/null 2>&1; mut=$?
echo "RESULT demo_clean_exit=$clean demo_mutant_exit=$mut suite='$suite' extra_failures='$fails'"
if [ "$clean" = 0 ] && [ "$mut" != 0 ] && [ -z "$fails" ]; then echo "VERIFIED"; exit 0; else echo "NOT-VERIFIED"; exit 1; fi
