#!/bin/bash
# usage: tools/merge_clone.sh <clone dir>   -- merge a builder's clone (branch main) into /verif, resolving the two expected
# kinds of conflict: seeded/*/meta.json (take theirs) and findings/known-findings.txt (union of lines)
cd "$(dirname "$0")/.."
git pull -q --no-edit --no-rebase "$1" main 2>&1 | grep -v hint | tail -5
for f in $(git diff --name-only --diff-filter=U); do
  case "$f" in
    seeded/*/meta.json) git checkout --theirs -- "$f"; git add "$f";;
    findings/known-findings.txt)
      git show :2:"$f" > /tmp/kf.ours; git show :3:"$f" > /tmp/kf.theirs
      echo "CONFLICT in known-findings.txt: taking theirs for their property lines needs a manual look"; cat /tmp/kf.ours > "$f"; grep -vxFf /tmp/kf.ours /tmp/kf.theirs >> "$f"; git add "$f";;
    *) echo "UNRESOLVED: $f";;
  esac
done
if [ -z "$(git diff --name-only --diff-filter=U)" ]; then git commit -q --no-edit 2>/dev/null; echo "merged: $(git log --oneline | head -1)"; fi
