#!/bin/bash
# usage: tools/with_patch.sh <patch.diff> <command...>
# Runs <command> with VERIF_REPO pointing at a scratch git worktree of /repo (HEAD + working tree state is NOT copied:
# committed HEAD only) to which the patch has been applied; removes the worktree afterwards.  /repo is never touched.
set -u
patch="$(readlink -f "$1")"; shift
wt="$(mktemp -d /tmp/verif-wt-XXXXXX)"
rmdir "$wt"
git -C /repo worktree add -q --detach "$wt" HEAD || exit 2
cleanup() { git -C /repo worktree remove --force "$wt" 2>/dev/null; rm -rf "$wt"; git -C /repo worktree prune; }
trap cleanup EXIT
# /repo moves on (fix: commits): try the patch as written, then a 3-way merge, then a rebased copy kept next to it
applied=0
if git -C "$wt" apply "$patch" 2>/dev/null; then applied=1
elif git -C "$wt" apply --3way "$patch" 2>/dev/null; then applied=1
else
  git -C "$wt" reset -q --hard 2>/dev/null; git -C "$wt" clean -fdq 2>/dev/null
  for alt in "$(dirname "$patch")"/patch-head.diff "$(dirname "$patch")"/patch.rebased*.diff; do
    [ -f "$alt" ] && git -C "$wt" apply "$alt" 2>/dev/null && { applied=1; break; }
  done
fi
if [ "$applied" != 1 ]; then echo "patch does not apply: $patch" >&2; exit 2; fi
VERIF_REPO="$wt" "$@"
