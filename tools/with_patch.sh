#!/bin/bash
# usage: tools/with_patch.sh <patch.diff> <command...>
# Runs <command> with VERIF_REPO pointing at a scratch git worktree of /repo (HEAD + working tree state is NOT copied:
# committed HEAD only) to which the patch has been applied; removes the worktree afterwards.  /repo is never touched.
set -u
patch="$(readlink -f "$1")"; shift
wt="$(mktemp -d /tmp/verif-wt-XXXXXX)"
rmdir "$wt"
git -C /repo worktree add -q --detach "$wt" HEAD || exit 2
cleanup() { git -C /repo worktree remove --force "$wt" 2>/dev/null; rm -rf "$wt"; git -C /repo worktree prune; }
trap cleanup EXIT
if ! git -C "$wt" apply "$patch"; then echo "patch does not apply: $patch" >&2; exit 2; fi
VERIF_REPO="$wt" "$@"
