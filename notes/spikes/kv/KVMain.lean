import KV
import Lean.Data.Json
open Lean KV

def parseOp (j : Json) : Option Op := do
  let o ← (j.getObjValAs? String "op").toOption
  let t := (j.getObjValAs? Nat "t").toOption.getD 0
  let k := (j.getObjValAs? Nat "k").toOption.getD 0
  let v := (j.getObjValAs? Nat "v").toOption.getD 0
  match o with
  | "set" => some (.set t k v) | "get" => some (.get t k) | "has" => some (.has t)
  | "remove" => some (.remove t) | "remove_all" => some .removeAll | "reopen" => some .reopen
  | _ => none

def outJson : Out → Json
  | .unit => Json.null
  | .val none => Json.null
  | .val (some v) => toJson v
  | .bool b => toJson b

def runCase (ops : List Op) : Json :=
  let s0 : Dbm := ⟨fun _ => none, fun _ => none, fun _ => false⟩
  let head := (ops.foldl (fun (st : Dbm × List Out) op => let r := dbmStep false st.1 op; (r.1, st.2 ++ [r.2])) (s0, [])).2
  let fixed := (ops.foldl (fun (st : Dbm × List Out) op => let r := dbmStep true st.1 op; (r.1, st.2 ++ [r.2])) (s0, [])).2
  let spec := (ops.foldl (fun (st : Map × List Out) op => let r := specStep st.1 op; (r.1, st.2 ++ [r.2])) (fun _ => none, [])).2
  Json.mkObj [("head", Json.arr (head.map outJson).toArray), ("fixed", Json.arr (fixed.map outJson).toArray),
              ("spec", Json.arr (spec.map outJson).toArray)]

partial def loop (h : IO.FS.Stream) : IO Unit := do
  let line ← h.getLine
  if line.isEmpty then return ()
  match Json.parse line with
  | .ok (Json.arr a) =>
    match a.toList.mapM parseOp with
    | some ops => IO.println (runCase ops).compress
    | none => IO.println "{\"error\":\"bad-op\"}"
  | _ => IO.println "{\"error\":\"bad-json\"}"
  loop h
def main : IO Unit := do loop (← IO.getStdin)
