/-! spike: M3 for DbmDB — concrete model (cache + dirty + write-through remove), spec map, refinement under discipline -/
namespace KV
abbrev T := Nat   -- task id
abbrev Ky := Nat  -- key
abbrev V := Nat   -- value

abbrev Rcd := List (Ky × V)
def Rcd.get (r : Rcd) (k : Ky) : Option V := (r.find? (·.1 = k)).map (·.2)
def Rcd.set (r : Rcd) (k : Ky) (v : V) : Rcd := (k, v) :: r.filter (·.1 ≠ k)

abbrev Map := T → Option Rcd
def Map.upd (m : Map) (t : T) (r : Option Rcd) : Map := fun x => if x = t then r else m x

inductive Op | set (t : T) (k : Ky) (v : V) | get (t : T) (k : Ky) | has (t : T) | remove (t : T) | removeAll | reopen
inductive Out | unit | val (v : Option V) | bool (b : Bool)
deriving DecidableEq

/-- the specification: one map; `reopen` (dump + new object) is the identity -/
def specStep (m : Map) : Op → Map × Out
  | .set t k v => (m.upd t (some (((m t).getD []).set k v)), .unit)
  | .get t k => (m, .val ((m t).bind (·.get k)))
  | .has t => (m, .bool (m t).isSome)
  | .remove t => (m.upd t none, .unit)
  | .removeAll => (fun _ => none, .unit)
  | .reopen => (m, .unit)

/-- DbmDB as written (`fixed = false`) or with `set` loading the stored record first (`fixed = true`) -/
structure Dbm where
  dbm : Map            -- persistent
  cache : Map          -- self._db
  dirty : T → Bool

def dbmStep (fixed : Bool) (s : Dbm) : Op → Dbm × Out
  | .set t k v =>
    let base : Rcd := match s.cache t with
      | some r => r
      | none => if fixed then (s.dbm t).getD [] else []
    ({ s with cache := s.cache.upd t (some (base.set k v)), dirty := fun x => if x = t then true else s.dirty x }, .unit)
  | .get t k =>
    match s.cache t with
    | some r => (s, .val (r.get k))
    | none =>
      match s.dbm t with
      | none => (s, .val none)
      | some r => ({ s with cache := s.cache.upd t (some r) }, .val (r.get k))
  | .has t => (s, .bool ((s.dbm t).isSome || s.dirty t))
  | .remove t => ({ dbm := s.dbm.upd t none, cache := s.cache.upd t none, dirty := fun x => if x = t then false else s.dirty x }, .unit)
  | .removeAll => ({ dbm := fun _ => none, cache := fun _ => none, dirty := fun _ => false }, .unit)
  | .reopen =>   -- dump: write dirty records, then a fresh object on the file
    ({ dbm := fun t => if s.dirty t then s.cache t else s.dbm t, cache := fun _ => none, dirty := fun _ => false }, .unit)

/-- abstraction -/
def abs (s : Dbm) : Map := fun t => match s.cache t with | some r => some r | none => s.dbm t

/-- consistency of cache / dirty / dbm -/
structure Wf (s : Dbm) : Prop where
  dirtyCached : ∀ t, s.dirty t = true → (s.cache t).isSome
  cleanAgree : ∀ t r, s.cache t = some r → s.dirty t = false → s.dbm t = some r

theorem step_refines (s : Dbm) (op : Op) (h : Wf s) :
    Wf (dbmStep true s op).1 ∧ abs (dbmStep true s op).1 = (specStep (abs s) op).1 ∧
    (dbmStep true s op).2 = (specStep (abs s) op).2 := by
  obtain ⟨h1, h2⟩ := h
  cases op with
  | set t k v =>
    refine ⟨⟨?_, ?_⟩, ?_, rfl⟩
    · intro x; simp only [dbmStep, Map.upd]; grind
    · intro x r; simp only [dbmStep, Map.upd]; grind
    · funext x; simp only [dbmStep, specStep, abs, Map.upd]; grind
  | get t k =>
    simp only [dbmStep, specStep]
    cases hc : s.cache t with
    | some r => exact ⟨⟨h1, h2⟩, rfl, by simp [abs, hc]⟩
    | none =>
      cases hd : s.dbm t with
      | none => exact ⟨⟨h1, h2⟩, rfl, by simp [abs, hc, hd]⟩
      | some r =>
        refine ⟨⟨?_, ?_⟩, ?_, by simp [abs, hc, hd]⟩
        · intro x; simp only [Map.upd]; grind
        · intro x r'; simp only [Map.upd]; grind
        · funext x; simp only [abs, Map.upd]; grind
  | has t =>
    refine ⟨⟨h1, h2⟩, rfl, ?_⟩
    simp only [dbmStep, specStep, abs]
    cases hc : s.cache t with
    | some r =>
      cases hdt : s.dirty t with
      | true => simp
      | false => simp [h2 t r hc hdt]
    | none =>
      have : s.dirty t = false := by
        cases hdt : s.dirty t with
        | false => rfl
        | true => have := h1 t hdt; simp [hc] at this
      simp [this]
  | remove t =>
    refine ⟨⟨?_, ?_⟩, ?_, rfl⟩
    · intro x; simp only [dbmStep, Map.upd]; grind
    · intro x r; simp only [dbmStep, Map.upd]; grind
    · funext x; simp only [dbmStep, specStep, abs, Map.upd]; grind
  | removeAll =>
    refine ⟨⟨?_, ?_⟩, ?_, rfl⟩
    · intro x hx; simp [dbmStep] at hx
    · intro x r hx; simp [dbmStep] at hx
    · funext x; simp [dbmStep, specStep, abs]
  | reopen =>
    refine ⟨⟨?_, ?_⟩, ?_, rfl⟩
    · intro x hx; simp [dbmStep] at hx
    · intro x r hx; simp [dbmStep] at hx
    · funext x; simp only [dbmStep, specStep, abs]; grind

/-- C07 for the repaired DbmDB: every op sequence (with reopen) answers like the map -/
theorem refines (ops : List Op) (s : Dbm) (m : Map) (h : Wf s) (ha : abs s = m) :
    (ops.foldl (fun (st : Dbm × List Out) op => let r := dbmStep true st.1 op; (r.1, st.2 ++ [r.2])) (s, [])).2 =
    (ops.foldl (fun (st : Map × List Out) op => let r := specStep st.1 op; (r.1, st.2 ++ [r.2])) (m, [])).2 := by
  suffices ∀ (acc : List Out),
      (ops.foldl (fun (st : Dbm × List Out) op => let r := dbmStep true st.1 op; (r.1, st.2 ++ [r.2])) (s, acc)).2 =
      (ops.foldl (fun (st : Map × List Out) op => let r := specStep st.1 op; (r.1, st.2 ++ [r.2])) (m, acc)).2 from this []
  induction ops generalizing s m with
  | nil => intro acc; rfl
  | cons op ops ih =>
    intro acc
    obtain ⟨w, a, o⟩ := step_refines s op h
    simp only [List.foldl_cons]
    rw [o, ← ha]
    exact ih _ _ w a _

/-- pinned DbmDB: `set` on a stored-but-unread task hides the other keys (F-C07a) -/
theorem head_diverges :
    let s0 : Dbm := ⟨fun t => if t = 0 then some [(1, 10)] else none, fun _ => none, fun _ => false⟩
    let r := dbmStep false (dbmStep false s0 (.set 0 2 20)).1 (.get 0 1)
    let q := specStep (specStep (abs s0) (.set 0 2 20)).1 (.get 0 1)
    r.2 = .val none ∧ q.2 = .val (some 10) := by decide

#print axioms refines
end KV
