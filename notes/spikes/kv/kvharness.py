import sys, json, random, subprocess, tempfile, os, shutil
sys.path.insert(0, os.environ.get('REPO','/repo'))
from doit.dependency import DbmDB, JSONCodec
def gen(rng):
    n=rng.randint(3,25); ops=[]
    for _ in range(n):
        o=rng.choices(['set','get','has','remove','remove_all','reopen'],[6,6,3,2,1,3])[0]
        ops.append({'op':o,'t':rng.randint(0,2),'k':rng.randint(0,2),'v':rng.randint(1,99)})
    return ops
def impl(ops):
    d=tempfile.mkdtemp(); p=os.path.join(d,'db'); db=DbmDB(p, JSONCodec()); out=[]
    for o in ops:
        t='t%d'%o['t']; k='k%d'%o['k']
        if o['op']=='set': db.set(t,k,o['v']); out.append(None)
        elif o['op']=='get': out.append(db.get(t,k))
        elif o['op']=='has': out.append(bool(db.in_(t)))
        elif o['op']=='remove': db.remove(t); out.append(None)
        elif o['op']=='remove_all': db.remove_all(); out.append(None)
        else: db.dump(); db=DbmDB(p, JSONCodec()); out.append(None)
    db.dump(); shutil.rmtree(d); return out
def shrink(ops, bad):
    i=0
    while i<len(ops):
        c=ops[:i]+ops[i+1:]
        if c and bad(c): ops=c
        else: i+=1
    return ops
def model(cases):
    p=subprocess.run(['<path-to-built-kvdrv>'], input='\n'.join(json.dumps(c) for c in cases)+'\n', capture_output=True, text=True, cwd='.')
    return [json.loads(l) for l in p.stdout.splitlines()]
N=int(sys.argv[1]); rng=random.Random(int(os.environ.get('VERIF_SEED','0')))
cases=[gen(rng) for _ in range(N)]
mo=model(cases); agree={'head':0,'fixed':0,'spec':0}; first={}
for c,m in zip(cases,mo):
    io=impl(c)
    for which in agree:
        if m[which]==io: agree[which]+=1
        else: first.setdefault(which,c)
print('cases',N,'impl agrees with', agree)
for which,c in first.items():
    def bad(cc): return model([cc])[0][which]!=impl(cc)
    s=shrink(c,bad); print('first divergence vs',which,'shrunk to',[(o['op'],o['t'],o['k']) if o['op'] in('set','get') else (o['op'],o['t']) for o in s], 'impl',impl(s),'model',model([s])[0][which])
