/-! spike: reduced M2 — md5 checker, file_dep only; C03/C04 as one invariant -/
namespace SSpike
abbrev Path := Nat
structure FMeta where
  mtime : Nat
  size : Nat
  cid : Nat
deriving DecidableEq, Repr

def checkModified (st cur : FMeta) : Bool :=
  if cur.mtime = st.mtime then false
  else if cur.size ≠ st.size then true
  else decide (st.cid ≠ cur.cid)

def sameSet (a b : List Path) : Bool := a.all (· ∈ b) && b.all (· ∈ a)

structure Rec where
  deps : Option (List Path)
  st : Path → Option FMeta

def Rec.empty : Rec := ⟨none, fun _ => none⟩

structure Exec where
  deps : List Path
  saw : Path → FMeta

/-- `fixed = false` is the pinned code (`previous_set and ...`), `true` the repaired test -/
def upToDate (fixed : Bool) (deps : List Path) (r : Rec) (fs : Path → FMeta) : Bool :=
  if deps = [] then false else
  let depsChanged := match r.deps with
    | none => false
    | some p => if fixed then !sameSet p deps else (!p.isEmpty && !sameSet p deps)
  if depsChanged then false else
  deps.all fun f => match r.st f with
    | none => false
    | some st => !checkModified st (fs f)

def saveSuccess (deps : List Path) (r : Rec) (fs : Path → FMeta) : Rec :=
  { deps := some deps
    st := fun f =>
      if f ∈ deps then
        match r.st f with
        | some st => if st.mtime = (fs f).mtime then some st else some (fs f)
        | none => some (fs f)
      else r.st f }

structure St where
  deps : List Path
  rcd : Rec
  fs : Path → FMeta
  shadow : Option Exec
  clock : Nat

inductive Op
  | edit (f : Path) (size cid : Nat)
  | touch (f : Path)
  | redefine (deps : List Path)
  | run (ok : Bool)
  | forget

def step (fixed : Bool) (s : St) : Op → St
  | .edit f size cid => { s with fs := fun g => if g = f then ⟨s.clock + 1, size, cid⟩ else s.fs g, clock := s.clock + 1 }
  | .touch f => { s with fs := fun g => if g = f then { s.fs f with mtime := s.clock + 1 } else s.fs g, clock := s.clock + 1 }
  | .redefine d => { s with deps := d }
  | .run ok =>
      if upToDate fixed s.deps s.rcd s.fs then s
      else if ok then { s with rcd := saveSuccess s.deps s.rcd s.fs, shadow := some ⟨s.deps, s.fs⟩ }
      else { s with rcd := Rec.empty, shadow := none }
  | .forget => { s with rcd := Rec.empty, shadow := none }

/-- the specification: never looks at the record -/
def specUpToDate (deps : List Path) (shadow : Option Exec) (fs : Path → FMeta) : Bool :=
  if deps = [] then false else
  match shadow with
  | none => false
  | some e => sameSet e.deps deps && deps.all fun f => !checkModified (e.saw f) (fs f)

def init (deps : List Path) (fs : Path → FMeta) (clock : Nat) : St := ⟨deps, Rec.empty, fs, none, clock⟩

/-- pinned code: counterexample (F-C03) -/
theorem head_unsound :
    let s := [Op.run true, .redefine [], .run true, .redefine [0], .run true].foldl (step false)
               (init [0] (fun _ => ⟨1, 1, 1⟩) 1)
    upToDate false s.deps s.rcd s.fs = true ∧ specUpToDate s.deps s.shadow s.fs = false := by
  decide

structure Inv (s : St) : Prop where
  clk : ∀ f, (s.fs f).mtime ≤ s.clock
  none_ : s.shadow = none → s.rcd.deps = none ∧ ∀ f, s.rcd.st f = none
  some_ : ∀ e, s.shadow = some e → s.rcd.deps = some e.deps ∧
            (∀ f ∈ e.deps, s.rcd.st f = some (e.saw f))
  sawLe : ∀ e, s.shadow = some e → ∀ f, (e.saw f).mtime ≤ (s.fs f).mtime ∧
            ((e.saw f).mtime = (s.fs f).mtime → e.saw f = s.fs f)
  stLe : ∀ f st, s.rcd.st f = some st → st.mtime ≤ (s.fs f).mtime ∧ (st.mtime = (s.fs f).mtime → st = s.fs f)

theorem all_congr {l : List Path} {p q : Path → Bool} (h : ∀ x ∈ l, p x = q x) : l.all p = l.all q := by
  induction l with
  | nil => rfl
  | cons a t ih => simp [List.all_cons, h a (by simp), ih (fun x hx => h x (by simp [hx]))]

/-- C03 ∧ C04 for the repaired test: the decision equals the specification in every state satisfying Inv -/
theorem decision_eq_spec (s : St) (h : Inv s) :
    upToDate true s.deps s.rcd s.fs = specUpToDate s.deps s.shadow s.fs := by
  unfold upToDate specUpToDate
  by_cases hd : s.deps = []
  · simp [hd]
  · simp only [hd, if_false]
    cases hs : s.shadow with
    | none =>
      obtain ⟨h1, h2⟩ := h.none_ hs
      simp only [h1, h2]
      cases hdeps : s.deps with
      | nil => exact absurd hdeps hd
      | cons a t => simp
    | some e =>
      obtain ⟨h1, h2⟩ := h.some_ e hs
      simp only [h1, if_true]
      by_cases hss : sameSet e.deps s.deps = true
      · simp only [hss, Bool.not_true, Bool.true_and]
        simp only [Bool.false_eq_true, if_false]
        apply all_congr
        intro f hf
        have : f ∈ e.deps := by
          unfold sameSet at hss
          simp only [Bool.and_eq_true, List.all_eq_true, decide_eq_true_eq] at hss
          exact hss.2 f hf
        simp [h2 f this]
      · have : sameSet e.deps s.deps = false := by simpa using hss
        simp [this]


theorem init_inv (deps fs clock) (h : ∀ f, (fs f).mtime ≤ clock) : Inv (init deps fs clock) := by
  constructor <;> simp [init, Rec.empty] <;> first | exact h | skip

theorem step_inv (s : St) (op : Op) (h : Inv s) : Inv (step true s op) := by
  obtain ⟨clk, hn, hs, hsaw, hst⟩ := h
  cases op with
  | edit f size cid => constructor <;> simp only [step] <;> grind
  | touch f => constructor <;> simp only [step] <;> grind
  | redefine d => exact ⟨clk, hn, hs, hsaw, hst⟩
  | forget => constructor <;> simp only [step, Rec.empty] <;> grind
  | run ok =>
    simp only [step]
    split
    · exact ⟨clk, hn, hs, hsaw, hst⟩
    · cases ok with
      | false => constructor <;> simp only [Rec.empty] <;> grind
      | true =>
        simp only [if_true]
        refine ⟨clk, by simp, ?_, ?_, ?_⟩
        · intro e he
          simp only [Option.some.injEq] at he
          subst he
          refine ⟨rfl, fun f hf => ?_⟩
          simp only [saveSuccess, hf, if_true]
          split
          · rename_i st hsome
            have := hst f st hsome
            split
            · rename_i heq; rw [this.2 heq]
            · rfl
          · rfl
        · intro e he f
          simp only [Option.some.injEq] at he
          subst he
          exact ⟨Nat.le_refl _, fun _ => rfl⟩
        · simp only [saveSuccess]; grind

/-- C03 ∧ C04 for all histories (repaired test): at every point the decision equals the spec -/
theorem sound_and_minimal (ops : List Op) (deps fs clock) (h : ∀ f, (fs f).mtime ≤ clock) :
    let s := ops.foldl (step true) (init deps fs clock)
    upToDate true s.deps s.rcd s.fs = specUpToDate s.deps s.shadow s.fs := by
  have : ∀ (ops : List Op) (s : St), Inv s → Inv (ops.foldl (step true) s) := by
    intro ops; induction ops with
    | nil => intro s h; exact h
    | cons o os ih => intro s h; exact ih _ (step_inv s o h)
  exact decision_eq_spec _ (this ops _ (init_inv deps fs clock h))

#print axioms sound_and_minimal
end SSpike
