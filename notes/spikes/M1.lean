/-! spike: M1-lite — TaskDispatcher (task_dep only) + serial Runner as a small-step system; C01 over Reach -/
namespace M1
abbrev Name := Nat

inductive RS | none | run | utd | ign | ok | fail
deriving DecidableEq, Repr

def RS.finished : RS → Bool
  | .none => false | .run => false | _ => true
def RS.good : RS → Bool
  | .utd => true | .ok => true | _ => false

inductive PC
  | start | iter (todo : List Name) | afterDeps | self1 | atRunner | done
deriving DecidableEq, Repr

structure Node where
  pc : PC := .start
  pend : List Name            -- node.task_dep not yet consumed
  snap : List Name := []      -- task_dep_list
  waitRun : List Name := []
  waitingMe : List Name := []
  status : RS := .none
  bad : List Name := []
  ign : List Name := []
  anc : List Name
deriving Repr

structure Input where
  deps : Name → List Name
  ignored : Name → Bool
  statusRun : Name → Bool     -- get_status says 'run' (else up-to-date)
  succeeds : Name → Bool
  continue_ : Bool

inductive Ev | start (n : Name) | report (n : Name) (s : RS)
deriving DecidableEq, Repr

structure Sys where
  nodes : Name → Option Node
  ready : List Name
  waiting : List Name
  toRun : List Name
  cur : Option Name
  stop : Bool
  events : List Ev            -- newest first
  halted : Bool               -- finished / cyclic / hold-on crash

def setNode (s : Sys) (n : Name) (nd : Node) : Sys := { s with nodes := fun k => if k = n then some nd else s.nodes k }

/-- statuses of deps as seen by `_node_add_wait_run` -/
def unfinished (s : Sys) (d : Name) : Bool :=
  match s.nodes d with
  | some nd => !nd.status.finished
  | none => true

inductive Choice
  | tick                       -- one deterministic step of dispatcher/runner
  | wake (perm : List Name)    -- `_update_waiting` with this iteration order of waiting_me

def wokenNode (p : Name) (pst : RS) (nd : Node) : Node :=
  { nd with
    bad := if pst = .fail then p :: nd.bad else nd.bad,
    ign := if pst = .ign then p :: nd.ign else nd.ign,
    waitRun := nd.waitRun.filter (· ≠ p) }

def wakeOne (s : Sys) (p : Name) (pst : RS) (w : Name) (nd : Node) : Sys :=
  if (wokenNode p pst nd).waitRun = [] ∧ w ∈ s.waiting
  then { setNode s w (wokenNode p pst nd) with ready := s.ready ++ [w], waiting := s.waiting.filter (· ≠ w) }
  else setNode s w (wokenNode p pst nd)

/-- `_update_waiting(p)` for finished p, waking in order `perm` (must be a permutation of waitingMe) -/
def updateWaiting (s : Sys) (p : Name) (pst : RS) : List Name → Sys
  | [] => s
  | w :: ws =>
    match s.nodes w with
    | none => updateWaiting s p pst ws
    | some nd => updateWaiting (wakeOne s p pst w nd) p pst ws

def step (inp : Input) (s : Sys) : Choice → Option Sys
  | .wake perm =>
    -- runner sends back node `n` (cur, atRunner) whose status is finished
    match s.cur with
    | some n =>
      match s.nodes n with
      | some nd =>
        if nd.pc = .atRunner ∧ nd.status.finished ∧ perm.Perm nd.waitingMe then
          let s1 := updateWaiting s n nd.status perm
          match s1.nodes n with
          | some nd' => some { setNode s1 n { nd' with pc := .done } with cur := none }
          | none => none
        else none
      | none => none
    | none => none
  | .tick =>
    if s.halted then none else
    match s.cur with
    | none =>
      if s.stop then some { s with halted := true } else
      match s.ready with
      | r :: rs => some { s with cur := some r, ready := rs }
      | [] =>
        match s.toRun with
        | t :: ts =>
          match s.nodes t with
          | none => some { setNode s t { pend := inp.deps t, anc := [t] } with cur := some t, toRun := ts }
          | some _ => some { s with toRun := ts }
        | [] => some { s with halted := true }      -- finished, or "hold on" (serial: crash)
    | some n =>
      match s.nodes n with
      | none => none
      | some nd =>
        match nd.pc with
        | .start => some (setNode s n { nd with snap := nd.pend, pend := [], pc := .iter nd.pend })
        | .iter (d :: ds) =>
          match s.nodes d with
          | none =>   -- _gen_node creates; dispatcher appends to ready
            some { setNode (setNode s d { pend := inp.deps d, anc := nd.anc ++ [d] }) n { nd with pc := .iter ds }
                   with ready := s.ready ++ [d] }
          | some _ =>
            if d ∈ nd.anc then some { s with halted := true }   -- cyclic error
            else some (setNode s n { nd with pc := .iter ds })
        | .iter [] =>
          -- _node_add_wait_run(n, snap)
          let waitFor := nd.snap.filter (unfinished s)
          let done := nd.snap.filter (fun d => !unfinished s d)
          let stOf := fun d => match s.nodes d with | some x => x.status | none => RS.none
          let nd1 : Node := { nd with
            waitRun := waitFor ++ nd.waitRun,
            bad := (done.filter (fun d => stOf d = .fail)) ++ nd.bad,
            ign := (done.filter (fun d => stOf d = .ign)) ++ nd.ign,
            pc := .afterDeps }
          let s1 := setNode s n nd1
          -- register in waiting_me of each awaited dep
          some { s1 with nodes := fun k =>
                   match s1.nodes k with
                   | some x => if k ∈ waitFor then some { x with waitingMe := n :: x.waitingMe } else some x
                   | none => none }
        | .afterDeps =>
          if nd.pend ≠ [] then some (setNode s n { nd with pc := .start })
          else if nd.waitRun ≠ [] then
            some { setNode s n { nd with pc := .start } with waiting := n :: s.waiting, cur := none }
          else some (setNode s n { nd with pc := .self1 })
        | .self1 =>
          -- yield task: Runner.select_task (+ execute + process_task_result)
          if nd.ign ≠ [] ∨ inp.ignored n then
            some { setNode s n { nd with pc := .atRunner, status := .ign } with events := .report n .ign :: s.events }
          else if nd.bad ≠ [] then
            some { setNode s n { nd with pc := .atRunner, status := .fail } with
                   events := .report n .fail :: s.events, stop := !inp.continue_ }
          else if !inp.statusRun n then
            some { setNode s n { nd with pc := .atRunner, status := .utd } with events := .report n .utd :: s.events }
          else if inp.succeeds n then
            some { setNode s n { nd with pc := .atRunner, status := .ok } with
                   events := .report n .ok :: .start n :: s.events }
          else
            some { setNode s n { nd with pc := .atRunner, status := .fail } with
                   events := .report n .fail :: .start n :: s.events, stop := !inp.continue_ }
        | .atRunner => none       -- needs a `wake` choice
        | .done => some { s with cur := none }

def init (sel : List Name) : Sys :=
  { nodes := fun _ => none, ready := [], waiting := [], toRun := sel, cur := none, stop := false, events := [], halted := false }

inductive Reach (inp : Input) (sel : List Name) : Sys → Prop
  | init : Reach inp sel (init sel)
  | next {s s' c} : Reach inp sel s → step inp s c = some s' → Reach inp sel s'

/-- run a list of choices (driver / examples) -/
def runWith (inp : Input) (s : Sys) : List Choice → Option Sys
  | [] => some s
  | c :: cs => match step inp s c with | some s' => runWith inp s' cs | none => none

/- non-vacuity: diamond 3 -> {1,2} -> 0, select [3]; sink really starts after its deps -/
def diamond : Input :=
  { deps := fun n => if n = 3 then [1, 2] else if n = 1 ∨ n = 2 then [0] else []
    ignored := fun _ => false, statusRun := fun _ => true, succeeds := fun _ => true, continue_ := false }

/-- deterministic scheduler for examples: tick when possible, else wake in stored order (reversed if `rev`) -/
def auto (inp : Input) (rev : Bool) : Nat → Sys → Sys × List Choice
  | 0, s => (s, [])
  | k+1, s =>
    match step inp s .tick with
    | some s' => let (r, cs) := auto inp rev k s'; (r, .tick :: cs)
    | none =>
      match s.cur.bind s.nodes with
      | some nd =>
        let perm := if rev then nd.waitingMe.reverse else nd.waitingMe
        match step inp s (.wake perm) with
        | some s' => let (r, cs) := auto inp rev k s'; (r, .wake perm :: cs)
        | none => (s, [])
      | none => (s, [])

#eval let (s, cs) := auto diamond false 200 (init [3]); (s.events.reverse, s.halted, cs.length)
#eval let (s, _) := auto diamond true 200 (init [3]); (s.events.reverse, s.halted)
#eval let (s, _) := auto { diamond with succeeds := fun n => n ≠ 0, continue_ := true } true 200 (init [3]); (s.events.reverse, s.halted)

/-! ### invariants -/
def stOf (s : Sys) (d : Name) : RS := match s.nodes d with | some x => x.status | none => .none

/-- every declared dep of a created node is pending, in the current snapshot, awaited, or finished-and-classified -/
def K (inp : Input) (s : Sys) : Prop :=
  ∀ n nd, s.nodes n = some nd → ∀ d ∈ inp.deps n,
    d ∈ nd.pend ∨ ((∃ todo, nd.pc = .iter todo) ∧ d ∈ nd.snap) ∨ d ∈ nd.waitRun ∨
    ((stOf s d).finished = true ∧ (stOf s d = .fail → d ∈ nd.bad) ∧ (stOf s d = .ign → d ∈ nd.ign))

/-- a status is set only when the node reached the runner -/
def L (s : Sys) : Prop :=
  ∀ n nd, s.nodes n = some nd → nd.status ≠ .none → (nd.pc = .atRunner ∨ nd.pc = .done)

/-- C01, state form: a started task has only good deps -/
def C01 (inp : Input) (s : Sys) : Prop :=
  ∀ n, Ev.start n ∈ s.events → ∀ d ∈ inp.deps n, (stOf s d).good = true

theorem ite_app {α β} (c : Prop) [Decidable c] (f g : α → β) (a : α) :
    (if c then f else g) a = if c then f a else g a := by split <;> rfl

@[simp] theorem setNode_nodes (s : Sys) (n : Name) (nd : Node) (k : Name) :
    (setNode s n nd).nodes k = if k = n then some nd else s.nodes k := rfl
@[simp] theorem setNode_events (s : Sys) (n : Name) (nd : Node) : (setNode s n nd).events = s.events := rfl
@[simp] theorem setNode_waiting (s : Sys) (n : Name) (nd : Node) : (setNode s n nd).waiting = s.waiting := rfl
@[simp] theorem setNode_ready (s : Sys) (n : Name) (nd : Node) : (setNode s n nd).ready = s.ready := rfl

theorem good_finished {r : RS} (h : r.good = true) : r.finished = true := by cases r <;> simp_all [RS.good, RS.finished]

/-- what `_update_waiting(p)` may do to a node -/
structure Upd (p : Name) (pst : RS) (a b : Node) : Prop where
  pc : b.pc = a.pc
  status : b.status = a.status
  pend : b.pend = a.pend
  snap : b.snap = a.snap
  bad : ∀ d, d ∈ a.bad → d ∈ b.bad
  ign : ∀ d, d ∈ a.ign → d ∈ b.ign
  wr : ∀ d, d ∈ a.waitRun → d ∈ b.waitRun ∨ (d = p ∧ (pst = .fail → p ∈ b.bad) ∧ (pst = .ign → p ∈ b.ign))
  wr' : ∀ d, d ∈ b.waitRun → d ∈ a.waitRun

theorem Upd.refl (p pst) (a : Node) : Upd p pst a a :=
  ⟨rfl, rfl, rfl, rfl, fun _ h => h, fun _ h => h, fun _ h => Or.inl h, fun _ h => h⟩

theorem Upd.trans {p pst} {a b c : Node} (h1 : Upd p pst a b) (h2 : Upd p pst b c) : Upd p pst a c := by
  refine ⟨h2.pc.trans h1.pc, h2.status.trans h1.status, h2.pend.trans h1.pend, h2.snap.trans h1.snap,
    fun d h => h2.bad d (h1.bad d h), fun d h => h2.ign d (h1.ign d h), ?_, fun d h => h1.wr' d (h2.wr' d h)⟩
  intro d hd
  rcases h1.wr d hd with h | ⟨rfl, hb, hi⟩
  · exact h2.wr d h
  · exact Or.inr ⟨rfl, fun e => h2.bad _ (hb e), fun e => h2.ign _ (hi e)⟩

theorem wakeOne_frame (s : Sys) (p pst w nd) :
    (wakeOne s p pst w nd).events = s.events ∧ (wakeOne s p pst w nd).stop = s.stop ∧
    (wakeOne s p pst w nd).cur = s.cur ∧ (wakeOne s p pst w nd).halted = s.halted ∧
    ∀ k, (wakeOne s p pst w nd).nodes k = if k = w then some (wokenNode p pst nd) else s.nodes k := by
  unfold wakeOne
  split <;> exact ⟨rfl, rfl, rfl, rfl, fun _ => rfl⟩

theorem wokenNode_upd (p pst) (nd : Node) : Upd p pst nd (wokenNode p pst nd) := by
  refine ⟨rfl, rfl, rfl, rfl, ?_, ?_, ?_, ?_⟩
  · intro d hd; simp only [wokenNode]; split <;> simp [hd]
  · intro d hd; simp only [wokenNode]; split <;> simp [hd]
  · intro d hd
    by_cases hdp : d = p
    · right; subst hdp; refine ⟨rfl, ?_, ?_⟩ <;> (intro e; simp [wokenNode, e])
    · left; simp [wokenNode, List.mem_filter, hd, hdp]
  · intro d hd; simp only [wokenNode, List.mem_filter] at hd; exact hd.1

theorem updateWaiting_spec (p : Name) (pst : RS) (perm : List Name) :
    ∀ s : Sys, let s' := updateWaiting s p pst perm
      s'.events = s.events ∧ s'.stop = s.stop ∧ s'.cur = s.cur ∧ s'.halted = s.halted ∧
      ∀ k, (s.nodes k = none → s'.nodes k = none) ∧
           (∀ nd, s.nodes k = some nd → ∃ nd', s'.nodes k = some nd' ∧ Upd p pst nd nd') := by
  induction perm with
  | nil => intro s; exact ⟨rfl, rfl, rfl, rfl, fun k => ⟨fun h => h, fun nd h => ⟨nd, h, Upd.refl _ _ _⟩⟩⟩
  | cons w ws ih =>
    intro s
    simp only [updateWaiting]
    cases hw : s.nodes w with
    | none => simpa [hw] using ih s
    | some nd =>
      simp only []
      obtain ⟨f1, f2, f3, f4, fn⟩ := wakeOne_frame s p pst w nd
      obtain ⟨e1, e2, e3, e4, hk⟩ := ih (wakeOne s p pst w nd)
      refine ⟨e1.trans f1, e2.trans f2, e3.trans f3, e4.trans f4, ?_⟩
      intro k
      obtain ⟨hkn, hks⟩ := hk k
      constructor
      · intro h
        apply hkn
        rw [fn k]
        split
        · subst_vars; rw [hw] at h; cases h
        · exact h
      · intro nd0 h0
        have : ∃ nd1, (wakeOne s p pst w nd).nodes k = some nd1 ∧ Upd p pst nd0 nd1 := by
          rw [fn k]
          split
          · rename_i hkw
            rw [hkw, hw] at h0
            cases h0
            exact ⟨_, rfl, wokenNode_upd p pst _⟩
          · exact ⟨nd0, h0, Upd.refl _ _ _⟩
        obtain ⟨nd1, h1, u1⟩ := this
        obtain ⟨nd2, h2, u2⟩ := hks nd1 h1
        exact ⟨nd2, h2, u1.trans u2⟩

/-- once past the dep loop nothing is pending or awaited -/
def M (s : Sys) : Prop :=
  ∀ n nd, s.nodes n = some nd → (nd.pc = .self1 ∨ nd.pc = .atRunner ∨ nd.pc = .done) → nd.pend = [] ∧ nd.waitRun = []

structure Inv (inp : Input) (s : Sys) : Prop where
  k : K inp s
  l : L s
  c : C01 inp s
  m : M s

theorem stOf_eq_of_nodes {s s' : Sys} {d : Name} (h : s'.nodes d = s.nodes d) : stOf s' d = stOf s d := by
  simp [stOf, h]

theorem init_inv (inp sel) : Inv inp (init sel) := by
  constructor
  · intro n nd h; simp [init] at h
  · intro n nd h; simp [init] at h
  · intro n h; simp [init] at h
  · intro n nd h; simp [init] at h

/-- the `wake` transition -/
theorem wake_inv (inp : Input) (s s' : Sys) (perm) (h : Inv inp s) (hs : step inp s (.wake perm) = some s') :
    Inv inp s' := by
  cases hcur : s.cur with
  | none => simp [step, hcur] at hs
  | some n =>
  cases hnd : s.nodes n with
  | none => simp [step, hcur, hnd] at hs
  | some nd =>
  simp only [step, hcur, hnd] at hs
  by_cases hcond : nd.pc = .atRunner ∧ nd.status.finished = true ∧ perm.Perm nd.waitingMe
  case neg => simp [hcond] at hs
  simp only [hcond, and_self, if_true] at hs
  obtain ⟨hpc, hfin, _⟩ := hcond
  obtain ⟨e1, e2, e3, e4, hk⟩ := updateWaiting_spec n nd.status perm s
  cases hnd' : (updateWaiting s n nd.status perm).nodes n with
  | none => simp [hnd'] at hs
  | some nd' =>
  simp only [hnd', Option.some.injEq] at hs
  subst hs
  -- status of every node unchanged
  have hst : ∀ d, stOf { setNode (updateWaiting s n nd.status perm) n { nd' with pc := .done } with cur := none } d = stOf s d := by
    intro d
    by_cases hdn : d = n
    · subst hdn
      obtain ⟨_, hks⟩ := hk d
      obtain ⟨x, hx, ux⟩ := hks nd hnd
      rw [hnd'] at hx; cases hx
      simp [stOf, hnd, ux.status]
    · obtain ⟨hkn, hks⟩ := hk d
      cases hd : s.nodes d with
      | none => simp [stOf, hdn, hkn hd, hd]
      | some x => obtain ⟨x', hx', ux⟩ := hks x hd; simp [stOf, hdn, hx', ux.status, hd]
  have hn : stOf s n = nd.status := by simp [stOf, hnd]
  constructor
  · -- K
    intro m md hm d hd
    rw [hst d]
    simp only [setNode_nodes] at hm
    -- find the original node of m
    have : ∃ md0, s.nodes m = some md0 ∧ Upd n nd.status md0 { md with pc := md0.pc } ∧ (md.pend = md0.pend ∧ md.snap = md0.snap ∧ md.waitRun ⊆ md0.waitRun) ∧ (m ≠ n → md.pc = md0.pc) := by
      split at hm
      · rename_i hmn; subst hmn
        cases hm
        obtain ⟨_, hks⟩ := hk m
        obtain ⟨x, hx, ux⟩ := hks nd hnd
        rw [hnd'] at hx; cases hx
        exact ⟨nd, hnd, ⟨rfl, ux.status, ux.pend, ux.snap, ux.bad, ux.ign, ux.wr, ux.wr'⟩, ⟨ux.pend, ux.snap, fun d h => ux.wr' d h⟩, fun h => absurd rfl h⟩
      · rename_i hmn
        cases hm0 : s.nodes m with
        | none => rw [(hk m).1 hm0] at hm; cases hm
        | some md0 =>
          obtain ⟨x, hx, ux⟩ := (hk m).2 md0 hm0
          rw [hm] at hx; cases hx
          exact ⟨md0, rfl, ⟨rfl, ux.status, ux.pend, ux.snap, ux.bad, ux.ign, ux.wr, ux.wr'⟩, ⟨ux.pend, ux.snap, fun d h => ux.wr' d h⟩, fun _ => ux.pc⟩
    obtain ⟨md0, hm0, u, ⟨hp, hsn, _⟩, hpcm⟩ := this
    rcases h.k m md0 hm0 d hd with h1 | ⟨⟨todo, h2⟩, h2'⟩ | h3 | ⟨h4, h5, h6⟩
    · left; rw [hp]; exact h1
    · by_cases hmn : m = n
      · subst hmn; rw [hnd] at hm0; cases hm0; rw [hpc] at h2; cases h2
      · right; left; exact ⟨⟨todo, (hpcm hmn).trans h2⟩, hsn ▸ h2'⟩
    · rcases u.wr d h3 with h | ⟨rfl, hb, hi⟩
      · right; right; left; exact h
      · right; right; right
        refine ⟨by rw [hn]; exact hfin, fun e => hb (hn ▸ e), fun e => hi (hn ▸ e)⟩
    · right; right; right; exact ⟨h4, fun e => u.bad _ (h5 e), fun e => u.ign _ (h6 e)⟩
  · -- L
    intro m md hm hne
    simp only [setNode_nodes] at hm
    split at hm
    · cases hm; right; rfl
    · cases hm0 : s.nodes m with
      | none => rw [(hk m).1 hm0] at hm; cases hm
      | some md0 =>
        obtain ⟨x, hx, ux⟩ := (hk m).2 md0 hm0
        rw [hm] at hx; cases hx
        have := h.l m md0 hm0 (ux.status ▸ hne)
        rw [ux.pc]; exact this
  · -- C01
    intro m hm d hd
    rw [hst d]
    exact h.c m (by simpa [e1] using hm) d hd
  · -- M
    intro m md hm hpcm
    simp only [setNode_nodes] at hm
    by_cases hmn : m = n
    · subst hmn
      simp only [if_true, Option.some.injEq] at hm
      subst hm
      obtain ⟨x, hx, ux⟩ := (hk m).2 nd hnd
      rw [hnd'] at hx; cases hx
      have := h.m m nd hnd (Or.inr (Or.inl hpc))
      refine ⟨ux.pend.trans this.1, ?_⟩
      cases hw : nd'.waitRun with
      | nil => rfl
      | cons a t => have := ux.wr' a (by simp [hw]); simp_all
    · simp only [hmn, if_false] at hm
      cases hm0 : s.nodes m with
      | none => rw [(hk m).1 hm0] at hm; cases hm
      | some md0 =>
        obtain ⟨x, hx, ux⟩ := (hk m).2 md0 hm0
        rw [hm] at hx; cases hx
        have := h.m m md0 hm0 (ux.pc ▸ hpcm)
        refine ⟨ux.pend.trans this.1, ?_⟩
        cases hw : md.waitRun with
        | nil => rfl
        | cons a t => have := ux.wr' a (by simp [hw]); simp_all

/-- frame: same nodes and events ⇒ same invariants -/
theorem inv_frame (inp) {s s' : Sys} (h : Inv inp s) (hn : s'.nodes = s.nodes) (he : s'.events = s.events) : Inv inp s' := by
  have hst : ∀ d, stOf s' d = stOf s d := fun d => by simp [stOf, hn]
  constructor
  · intro n nd hnd d hd; rw [hst]; rw [hn] at hnd; exact h.k n nd hnd d hd
  · intro n nd hnd; rw [hn] at hnd; exact h.l n nd hnd
  · intro n hnv d hd; rw [hst]; rw [he] at hnv; exact h.c n hnv d hd
  · intro n nd hnd; rw [hn] at hnd; exact h.m n nd hnd

/-- creating a fresh node `t` (status none) leaves every `stOf` unchanged -/
theorem stOf_setNode_fresh (s : Sys) (t : Name) (x : Node) (hx : x.status = .none) (ht : s.nodes t = none) (d : Name) :
    stOf (setNode s t x) d = stOf s d := by
  by_cases hd : d = t
  · subst hd; simp [stOf, ht, hx]
  · simp [stOf, hd]

/-- replacing node `n` by one with the same status leaves every `stOf` unchanged -/
theorem stOf_setNode_same (s : Sys) (n : Name) (nd x : Node) (hn : s.nodes n = some nd) (hx : x.status = nd.status) (d : Name) :
    stOf (setNode s n x) d = stOf s d := by
  by_cases hd : d = n
  · subst hd; simp [stOf, hn, hx]
  · simp [stOf, hd]

def KNode (inp : Input) (s : Sys) (n : Name) (nd : Node) : Prop :=
  ∀ d ∈ inp.deps n,
    d ∈ nd.pend ∨ ((∃ todo, nd.pc = .iter todo) ∧ d ∈ nd.snap) ∨ d ∈ nd.waitRun ∨
    ((stOf s d).finished = true ∧ (stOf s d = .fail → d ∈ nd.bad) ∧ (stOf s d = .ign → d ∈ nd.ign))
def LNode (nd : Node) : Prop := nd.status ≠ .none → (nd.pc = .atRunner ∨ nd.pc = .done)
def MNode (nd : Node) : Prop := (nd.pc = .self1 ∨ nd.pc = .atRunner ∨ nd.pc = .done) → nd.pend = [] ∧ nd.waitRun = []

/-- replace node `n` by `x` with the same status -/
theorem setNode_inv (inp) {s : Sys} {n : Name} {nd x : Node} (h : Inv inp s) (hn : s.nodes n = some nd)
    (hx : x.status = nd.status) (hk : KNode inp s n x) (hl : LNode x) (hm : MNode x) :
    Inv inp (setNode s n x) := by
  have hst := stOf_setNode_same s n nd x hn hx
  constructor
  · intro m md hmd d hd
    rw [hst]
    simp only [setNode_nodes] at hmd
    split at hmd
    · rename_i e; subst e; cases hmd; exact hk d hd
    · exact h.k m md hmd d hd
  · intro m md hmd
    simp only [setNode_nodes] at hmd
    split at hmd
    · cases hmd; exact hl
    · exact h.l m md hmd
  · intro m hmv d hd; rw [hst]; exact h.c m hmv d hd
  · intro m md hmd
    simp only [setNode_nodes] at hmd
    split at hmd
    · cases hmd; exact hm
    · exact h.m m md hmd

/-- create a fresh node -/
theorem create_inv (inp) {s : Sys} {t : Name} (anc : List Name) (h : Inv inp s) (ht : s.nodes t = none) :
    Inv inp (setNode s t { pend := inp.deps t, anc := anc }) := by
  have hst := stOf_setNode_fresh s t { pend := inp.deps t, anc := anc } rfl ht
  constructor
  · intro m md hmd d hd
    rw [hst]
    simp only [setNode_nodes] at hmd
    split at hmd
    · rename_i e; subst e; cases hmd; left; exact hd
    · exact h.k m md hmd d hd
  · intro m md hmd
    simp only [setNode_nodes] at hmd
    split at hmd
    · cases hmd; intro hne; exact absurd rfl hne
    · exact h.l m md hmd
  · intro m hmv d hd; rw [hst]; exact h.c m hmv d hd
  · intro m md hmd
    simp only [setNode_nodes] at hmd
    split at hmd
    · cases hmd; intro hpc; rcases hpc with e | e | e <;> cases e
    · exact h.m m md hmd

/-- changing only `waitingMe` fields -/
theorem waitingMe_inv (inp) {s s' : Sys} (h : Inv inp s) (he : s'.events = s.events)
    (hn : ∀ k, (s.nodes k = none → s'.nodes k = none) ∧
               (∀ x, s.nodes k = some x → ∃ wm, s'.nodes k = some { x with waitingMe := wm })) : Inv inp s' := by
  have hst : ∀ d, stOf s' d = stOf s d := by
    intro d
    cases hd : s.nodes d with
    | none => simp [stOf, (hn d).1 hd, hd]
    | some x => obtain ⟨wm, hw⟩ := (hn d).2 x hd; simp [stOf, hw, hd]
  have back : ∀ k y, s'.nodes k = some y → ∃ x, s.nodes k = some x ∧ ∃ wm, y = { x with waitingMe := wm } := by
    intro k y hy
    cases hk : s.nodes k with
    | none => rw [(hn k).1 hk] at hy; cases hy
    | some x => obtain ⟨wm, hw⟩ := (hn k).2 x hk; rw [hw] at hy; cases hy; exact ⟨x, rfl, wm, rfl⟩
  constructor
  · intro m md hmd d hd
    rw [hst]
    obtain ⟨x, hx, wm, rfl⟩ := back m md hmd
    exact h.k m x hx d hd
  · intro m md hmd
    obtain ⟨x, hx, wm, rfl⟩ := back m md hmd
    exact h.l m x hx
  · intro m hmv d hd; rw [hst]; rw [he] at hmv; exact h.c m hmv d hd
  · intro m md hmd
    obtain ⟨x, hx, wm, rfl⟩ := back m md hmd
    exact h.m m x hx

theorem good_of_fin {r : RS} (hf : r.finished = true) (h1 : r ≠ .fail) (h2 : r ≠ .ign) : r.good = true := by
  cases r <;> simp_all [RS.good, RS.finished]

/-- the self1 branch: the runner decides; `st` is the new (finished) status, `evs` the new events -/
theorem select_inv (inp) {s : Sys} {n : Name} {nd : Node} (h : Inv inp s) (hn : s.nodes n = some nd)
    (hpc : nd.pc = .self1) (st : RS) (hst : st.finished = true) (evs : List Ev) (stop : Bool)
    (hev : ∀ m, Ev.start m ∈ evs → Ev.start m ∈ s.events ∨ (m = n ∧ nd.ign = [] ∧ nd.bad = [])) :
    Inv inp { setNode s n { nd with pc := .atRunner, status := st } with events := evs, stop := stop } := by
  have hnone : nd.status = .none := by
    cases hs : nd.status with
    | none => rfl
    | _ => rcases h.l n nd hn (by simp [hs]) with e | e <;> (rw [hpc] at e; cases e)
  have hM := h.m n nd hn (Or.inl hpc)
  -- stOf changes only at n, from none to st
  have hst' : ∀ d, d ≠ n → stOf { setNode s n { nd with pc := .atRunner, status := st } with events := evs, stop := stop } d = stOf s d := by
    intro d hd; simp [stOf, hd]
  have hstn : stOf s n = .none := by simp [stOf, hn, hnone]
  have hstn' : stOf { setNode s n { nd with pc := .atRunner, status := st } with events := evs, stop := stop } n = st := by
    simp [stOf]
  -- a dep in disjunct 4 is never n itself
  have key : ∀ d, (stOf s d).finished = true → d ≠ n := by
    intro d hf e; subst e; rw [hstn] at hf; cases hf
  constructor
  · intro m md hmd d hd
    simp only [setNode_nodes] at hmd
    have hmd0 : ∃ md0, s.nodes m = some md0 ∧ md.pend = md0.pend ∧ md.snap = md0.snap ∧ md.waitRun = md0.waitRun ∧
        md.bad = md0.bad ∧ md.ign = md0.ign ∧ ((∃ todo, md0.pc = .iter todo) → ∃ todo, md.pc = .iter todo) := by
      split at hmd
      · rename_i e; subst e; cases hmd
        exact ⟨nd, hn, rfl, rfl, rfl, rfl, rfl, fun ⟨t, ht⟩ => by rw [hpc] at ht; cases ht⟩
      · exact ⟨md, hmd, rfl, rfl, rfl, rfl, rfl, fun x => x⟩
    obtain ⟨md0, h0, e1, e2, e3, e4, e5, e6⟩ := hmd0
    rcases h.k m md0 h0 d hd with a | ⟨a, a'⟩ | a | ⟨a, b, c⟩
    · left; rw [e1]; exact a
    · right; left; exact ⟨e6 a, e2 ▸ a'⟩
    · right; right; left; rw [e3]; exact a
    · right; right; right
      have hdn := key d a
      rw [hst' d hdn, e4, e5]; exact ⟨a, b, c⟩
  · intro m md hmd
    simp only [setNode_nodes] at hmd
    split at hmd
    · cases hmd; intro _; left; rfl
    · exact h.l m md hmd
  · intro m hmv d hd
    rcases hev m hmv with hold | ⟨rfl, hi, hb⟩
    · have hg := h.c m hold d hd
      have hdn : d ≠ n := key d (good_finished hg)
      rw [hst' d hdn]; exact hg
    · -- the newly started task: all deps are finished, not failed, not ignored
      rcases h.k m nd hn d hd with a | ⟨⟨t, a⟩, _⟩ | a | ⟨a, b, c⟩
      · rw [hM.1] at a; cases a
      · rw [hpc] at a; cases a
      · rw [hM.2] at a; cases a
      · have hdn := key d a
        rw [hst' d hdn]
        apply good_of_fin a
        · intro e; have := b e; rw [hb] at this; cases this
        · intro e; have := c e; rw [hi] at this; cases this
  · intro m md hmd
    simp only [setNode_nodes] at hmd
    split at hmd
    · cases hmd; intro _; exact hM
    · exact h.m m md hmd

theorem tick_inv (inp : Input) (s s' : Sys) (h : Inv inp s) (hs : step inp s .tick = some s') : Inv inp s' := by
  simp only [step] at hs
  split at hs
  · cases hs
  cases hcur : s.cur with
  | none =>
    simp only [hcur] at hs
    split at hs
    · cases hs; exact inv_frame inp h rfl rfl
    cases hr : s.ready with
    | cons r rs => simp only [hr] at hs; cases hs; exact inv_frame inp h rfl rfl
    | nil =>
      simp only [hr] at hs
      cases ht : s.toRun with
      | nil => simp only [ht] at hs; cases hs; exact inv_frame inp h rfl rfl
      | cons t ts =>
        simp only [ht] at hs
        cases hnt : s.nodes t with
        | some x => simp only [hnt] at hs; cases hs; exact inv_frame inp h rfl rfl
        | none =>
          simp only [hnt] at hs; cases hs
          exact inv_frame inp (create_inv inp [t] h hnt) rfl rfl
  | some n =>
    simp only [hcur] at hs
    cases hn : s.nodes n with
    | none => simp only [hn] at hs; cases hs
    | some nd =>
      simp only [hn] at hs
      cases hpc : nd.pc with
      | start =>
        simp only [hpc] at hs; cases hs
        refine setNode_inv inp h hn rfl ?_ ?_ ?_
        · intro d hd
          rcases h.k n nd hn d hd with a | ⟨⟨t, a⟩, _⟩ | a | a
          · right; left; exact ⟨⟨_, rfl⟩, a⟩
          · rw [hpc] at a; cases a
          · right; right; left; exact a
          · right; right; right; exact a
        · intro hne; rcases h.l n nd hn hne with e | e <;> (rw [hpc] at e; cases e)
        · intro e; rcases e with e | e | e <;> cases e
      | iter todo =>
        simp only [hpc] at hs
        cases todo with
        | cons d ds =>
          simp only [] at hs
          cases hd : s.nodes d with
          | none =>
            simp only [hd] at hs; cases hs
            have hdn : d ≠ n := by intro e; subst e; rw [hn] at hd; cases hd
            have h1 := create_inv inp (nd.anc ++ [d]) h hd
            have hn1 : (setNode s d { pend := inp.deps d, anc := nd.anc ++ [d] }).nodes n = some nd := by
              simp [setNode_nodes, Ne.symm hdn, hn]
            refine inv_frame inp (setNode_inv inp (x := { nd with pc := .iter ds }) h1 hn1 rfl ?_ ?_ ?_) rfl rfl
            · intro x hx
              have hst := stOf_setNode_fresh s d { pend := inp.deps d, anc := nd.anc ++ [d] } rfl hd
              rw [hst]
              rcases h.k n nd hn x hx with a | ⟨_, a⟩ | a | a
              · left; exact a
              · right; left; exact ⟨⟨_, rfl⟩, a⟩
              · right; right; left; exact a
              · right; right; right; exact a
            · intro hne; rcases h.l n nd hn hne with e | e <;> (rw [hpc] at e; cases e)
            · intro e; rcases e with e | e | e <;> cases e
          | some x =>
            simp only [hd] at hs
            split at hs
            · cases hs; exact inv_frame inp h rfl rfl
            · cases hs
              refine setNode_inv inp h hn rfl ?_ ?_ ?_
              · intro x hx
                rcases h.k n nd hn x hx with a | ⟨_, a⟩ | a | a
                · left; exact a
                · right; left; exact ⟨⟨_, rfl⟩, a⟩
                · right; right; left; exact a
                · right; right; right; exact a
              · intro hne; rcases h.l n nd hn hne with e | e <;> (rw [hpc] at e; cases e)
              · intro e; rcases e with e | e | e <;> cases e
        | nil =>
          simp only [] at hs; cases hs
          -- first the node update, then the waitingMe registration
          have hA : Inv inp (setNode s n { nd with
              waitRun := nd.snap.filter (unfinished s) ++ nd.waitRun,
              bad := ((nd.snap.filter (fun d => !unfinished s d)).filter (fun d => (match s.nodes d with | some x => x.status | none => RS.none) = .fail)) ++ nd.bad,
              ign := ((nd.snap.filter (fun d => !unfinished s d)).filter (fun d => (match s.nodes d with | some x => x.status | none => RS.none) = .ign)) ++ nd.ign,
              pc := .afterDeps }) := by
            refine setNode_inv inp h hn rfl ?_ ?_ ?_
            · intro d hd
              rcases h.k n nd hn d hd with a | ⟨_, a⟩ | a | ⟨a, b, c⟩
              · left; exact a
              · by_cases hu : unfinished s d = true
                · right; right; left; simp [List.mem_filter, a, hu]
                · right; right; right
                  have hfin : (stOf s d).finished = true := by
                    simp only [unfinished, stOf] at hu ⊢
                    cases hx : s.nodes d with
                    | none => simp [hx] at hu
                    | some x => simp [hx] at hu ⊢; exact hu
                  refine ⟨hfin, ?_, ?_⟩
                  · intro e; simp only [List.mem_append, List.mem_filter]; left
                    exact ⟨⟨a, by simp [hu]⟩, by simpa [stOf] using e⟩
                  · intro e; simp only [List.mem_append, List.mem_filter]; left
                    exact ⟨⟨a, by simp [hu]⟩, by simpa [stOf] using e⟩
              · right; right; left; simp [a]
              · right; right; right; exact ⟨a, fun e => by simp [b e], fun e => by simp [c e]⟩
            · intro hne; rcases h.l n nd hn hne with e | e <;> (rw [hpc] at e; cases e)
            · intro e; rcases e with e | e | e <;> cases e
          refine waitingMe_inv inp hA rfl ?_
          intro k
          constructor
          · intro hk; simp only [hk]
          · intro x hx; simp only [hx]; split <;> exact ⟨_, rfl⟩
      | afterDeps =>
        simp only [hpc] at hs
        have hL : nd.status = .none := by
          cases hs' : nd.status with
          | none => rfl
          | _ => rcases h.l n nd hn (by simp [hs']) with e | e <;> (rw [hpc] at e; cases e)
        have kk : ∀ (pc' : PC), (¬ ∃ t, pc' = .iter t) → KNode inp s n { nd with pc := pc' } := by
          intro pc' hno d hd
          rcases h.k n nd hn d hd with a | ⟨⟨t, a⟩, _⟩ | a | a
          · left; exact a
          · rw [hpc] at a; cases a
          · right; right; left; exact a
          · right; right; right; exact a
        split at hs
        · cases hs
          refine setNode_inv inp (x := { nd with pc := .start }) h hn rfl (kk .start (by rintro ⟨t, e⟩; cases e)) ?_ ?_
          · intro hne; exact absurd hL hne
          · intro e; rcases e with e | e | e <;> cases e
        · split at hs
          · cases hs
            refine inv_frame inp (setNode_inv inp (x := { nd with pc := .start }) h hn rfl (kk .start (by rintro ⟨t, e⟩; cases e)) ?_ ?_) rfl rfl
            · intro hne; exact absurd hL hne
            · intro e; rcases e with e | e | e <;> cases e
          · rename_i hp hw
            cases hs
            refine setNode_inv inp (x := { nd with pc := .self1 }) h hn rfl (kk .self1 (by rintro ⟨t, e⟩; cases e)) ?_ ?_
            · intro hne; exact absurd hL hne
            · intro _; exact ⟨by simpa using hp, by simpa using hw⟩
      | self1 =>
        simp only [hpc] at hs
        split at hs
        · cases hs
          exact select_inv inp h hn hpc .ign rfl _ _ (fun m hm => by simp at hm; exact Or.inl hm)
        · rename_i hni
          split at hs
          · cases hs
            exact select_inv inp h hn hpc .fail rfl _ _ (fun m hm => by simp at hm; exact Or.inl hm)
          · rename_i hnb
            split at hs
            · cases hs
              exact select_inv inp h hn hpc .utd rfl _ _ (fun m hm => by simp at hm; exact Or.inl hm)
            · have hi : nd.ign = [] := by
                cases hx : nd.ign with
                | nil => rfl
                | cons a t => exact absurd (Or.inl (by simp [hx])) hni
              have hb : nd.bad = [] := by
                cases hx : nd.bad with
                | nil => rfl
                | cons a t => exact absurd (by simp [hx]) hnb
              split at hs
              · cases hs
                refine select_inv inp h hn hpc .ok rfl _ _ ?_
                intro m hm
                simp only [List.mem_cons, reduceCtorEq, Ev.start.injEq, false_or] at hm
                rcases hm with e | e
                · exact Or.inr ⟨e, hi, hb⟩
                · exact Or.inl e
              · cases hs
                refine select_inv inp h hn hpc .fail rfl _ _ ?_
                intro m hm
                simp only [List.mem_cons, reduceCtorEq, Ev.start.injEq, false_or] at hm
                rcases hm with e | e
                · exact Or.inr ⟨e, hi, hb⟩
                · exact Or.inl e
      | atRunner => simp only [hpc] at hs; cases hs
      | done => simp only [hpc] at hs; cases hs; exact inv_frame inp h rfl rfl

theorem reach_inv (inp sel) (s : Sys) (h : Reach inp sel s) : Inv inp s := by
  induction h with
  | init => exact init_inv inp sel
  | @next s0 s1 c _ hs ih =>
    cases c
    · exact tick_inv inp s0 s1 ih hs
    · exact wake_inv inp s0 s1 _ ih hs

/-- C01 (M1-lite, serial): in every reachable state, every task whose actions were started has all its
    task_deps successfully executed or up-to-date -/
theorem C01_lite (inp : Input) (sel : List Name) (s : Sys) (h : Reach inp sel s) :
    ∀ n, Ev.start n ∈ s.events → ∀ d ∈ inp.deps n, (stOf s d).good = true :=
  (reach_inv inp sel s h).c

#print axioms C01_lite
end M1
