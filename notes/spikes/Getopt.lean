/-! spike: getopt short-option core + round trip for rendered assignments -/
namespace GSpike
abbrev Str := List Char

structure SOpt where
  c : Char
  hasArg : Bool
deriving DecidableEq, Repr

def lookup (spec : List SOpt) (c : Char) : Option SOpt := spec.find? (·.c = c)

/-- do_shorts: consume the cluster `optstring`, possibly taking the next arg as value -/
def doShorts (spec : List SOpt) : Str → List Str → List (Char × Str) → Option (List (Char × Str) × List Str)
  | [], args, acc => some (acc, args)
  | c :: rest, args, acc =>
    match lookup spec c with
    | none => none
    | some o =>
      if o.hasArg then
        match rest, args with
        | [], [] => none
        | [], a :: args' => some (acc ++ [(c, a)], args')
        | r, args => some (acc ++ [(c, r)], args)
      else doShorts spec rest args (acc ++ [(c, [])])

def getopt (spec : List SOpt) : List Str → List (Char × Str) → Nat → Option (List (Char × Str) × List Str)
  | args, acc, 0 => none
  | [], acc, _ => some (acc, [])
  | a :: args, acc, fuel+1 =>
    match a with
    | '-' :: '-' :: [] => some (acc, args)
    | '-' :: c :: rest =>
      if c = '-' then none   -- long options not in the spike
      else match doShorts spec (c :: rest) args acc with
        | none => none
        | some (acc', args') => getopt spec args' acc' fuel
    | _ => some (acc, a :: args)

/-- one rendered assignment -/
inductive Asg
  | flag (c : Char)
  | attached (c : Char) (v : Str)     -- -cVALUE, v ≠ []
  | detached (c : Char) (v : Str)     -- -c VALUE

def Asg.render : Asg → List Str
  | .flag c => [['-', c]]
  | .attached c v => ['-' :: c :: v]
  | .detached c v => [['-', c], v]

def Asg.val : Asg → Char × Str
  | .flag c => (c, [])
  | .attached c v => (c, v)
  | .detached c v => (c, v)

def Asg.ok (spec : List SOpt) : Asg → Prop
  | .flag c => c ≠ '-' ∧ lookup spec c = some ⟨c, false⟩
  | .attached c v => c ≠ '-' ∧ v ≠ [] ∧ lookup spec c = some ⟨c, true⟩
  | .detached c v => c ≠ '-' ∧ lookup spec c = some ⟨c, true⟩

def PosOk : List Str → Prop
  | [] => True
  | p :: _ => match p with | '-' :: _ :: _ => False | _ => True

theorem getopt_nil_pos (spec) (pos : List Str) (h : PosOk pos) (acc) (fuel) :
    getopt spec pos acc (fuel+1) = some (acc, pos) := by
  cases pos with
  | nil => simp [getopt]
  | cons p ps =>
    unfold PosOk at h
    match p, h with
    | [], _ => simp [getopt]
    | [c], _ => simp [getopt]
    | c :: d :: r, h =>
      by_cases hc : c = '-'
      · subst hc; simp at h
      · simp [getopt]
        split <;> simp_all

theorem roundtrip (spec) (xs : List Asg) (hx : ∀ x ∈ xs, x.ok spec) (pos) (hp : PosOk pos) (acc) :
    ∀ fuel, xs.length < fuel →
    getopt spec (xs.flatMap Asg.render ++ pos) acc fuel = some (acc ++ xs.map Asg.val, pos) := by
  induction xs generalizing acc with
  | nil => intro fuel hf; cases fuel with
    | zero => omega
    | succ f => simpa using getopt_nil_pos spec pos hp acc f
  | cons x xs ih =>
    intro fuel hf
    cases fuel with
    | zero => simp at hf
    | succ f =>
      have hx0 := hx x (by simp)
      have ih' := fun acc' => ih (fun y hy => hx y (by simp [hy])) acc' f (by simp at hf; omega)
      cases x with
      | flag c =>
        obtain ⟨h1, h2⟩ := hx0
        simp [Asg.render, getopt, h1, doShorts, h2, ih', Asg.val]
      | attached c v =>
        obtain ⟨h1, h2, h3⟩ := hx0
        cases v with
        | nil => exact absurd rfl h2
        | cons v0 vs => simp [Asg.render, getopt, h1, doShorts, h3, ih', Asg.val]
      | detached c v =>
        obtain ⟨h1, h3⟩ := hx0
        simp [Asg.render, getopt, h1, doShorts, h3, ih', Asg.val]

#print axioms roundtrip
end GSpike
