/-! spike: wait-set bookkeeping invariant (B-lite): a node leaves the dep loop only when every
    processed dep is finished; statuses are monotone. -/
namespace Spike

inductive St | none | run | utd | ign | ok | fail
deriving DecidableEq, Repr

def St.finished : St → Bool
  | .none => false | .run => false | _ => true

structure Node where
  deps     : List Nat      -- all deps already processed by _node_add_wait_run
  waitRun  : List Nat
  status   : St
  passed   : Bool          -- left the dep loop (about to yield itself)
deriving Repr

abbrev Sys := Nat → Node   -- total map for the spike

inductive Ev
  | addWait (n : Nat) (ds : List Nat)     -- _node_add_wait_run(n, ds)
  | select (n : Nat) (s : St)             -- runner sets status from none
  | result (n : Nat) (ok : Bool)          -- runner sets status from run
  | update (p : Nat)                      -- _update_waiting(p)
  | pass (n : Nat)                        -- loop exit test

def upd (s : Sys) (n : Nat) (f : Node → Node) : Sys := fun m => if m = n then f (s m) else s m

def step (s : Sys) : Ev → Sys
  | .addWait n ds =>
      if (s n).passed then s else
      upd s n fun nd => { nd with deps := ds ++ nd.deps,
                                  waitRun := (ds.filter fun d => !(s d).status.finished) ++ nd.waitRun }
  | .select n st => if (s n).status = .none ∧ st ≠ .none then upd s n fun nd => { nd with status := st } else s
  | .result n ok => if (s n).status = .run then upd s n fun nd => { nd with status := if ok then .ok else .fail } else s
  | .update p =>
      if (s p).status.finished then fun m => { s m with waitRun := (s m).waitRun.filter (· ≠ p) } else s
  | .pass n => if (s n).waitRun = [] then upd s n fun nd => { nd with passed := true } else s

theorem ite_app {α β} (c : Prop) [Decidable c] (f g : α → β) (a : α) :
    (if c then f else g) a = if c then f a else g a := by split <;> rfl

def Inv (s : Sys) : Prop :=
  ∀ n d, d ∈ (s n).deps → d ∈ (s n).waitRun ∨ (s d).status.finished = true

def Mono (s s' : Sys) : Prop := ∀ n, (s n).status.finished = true → (s' n).status = (s n).status

theorem step_mono (s : Sys) (e : Ev) : Mono s (step s e) := by
  intro n h
  cases e <;> simp only [step, upd, ite_app] <;> grind [St.finished]

theorem step_inv (s : Sys) (e : Ev) (h : Inv s) : Inv (step s e) := by
  intro n d hd
  unfold Inv at h
  cases e <;> simp only [step, upd, ite_app] at hd ⊢ <;> grind [St.finished]

def Inv2 (s : Sys) : Prop := ∀ n d, (s n).passed = true → d ∈ (s n).deps → (s d).status.finished = true

theorem step_inv2 (s : Sys) (e : Ev) (h : Inv s) (h2 : Inv2 s) : Inv2 (step s e) := by
  intro n d hp hd
  unfold Inv at h; unfold Inv2 at h2
  cases e <;> simp only [step, upd, ite_app] at hp hd ⊢ <;> grind [St.finished]

theorem reach_inv (es : List Ev) (s : Sys) (h : Inv s) (h2 : Inv2 s) :
    Inv (es.foldl step s) ∧ Inv2 (es.foldl step s) := by
  induction es generalizing s with
  | nil => exact ⟨h, h2⟩
  | cons e es ih => exact ih _ (step_inv s e h) (step_inv2 s e h h2)

#print axioms reach_inv
end Spike
