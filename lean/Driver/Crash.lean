import Driver.Util
import DoitModel.Model.Crash
open Lean DoitModel.Crash
namespace Driver.Crash
/-! requests (`"model":"crash"`):
  * `{"op":"allowed","backend":"json|dbm|sqlite","existed":bool,"tasks":[t..],"old":[[t,r]..],
     "effs":[["save",t,r]|["remove",t]..],"observed":{"unreadable":bool,"slots":[[t,"absent"|"corrupt"|r]..]}}`
    → `{"allowed":bool,"points":n}`: is the observed recovered state one the model allows for *some* kill point
    and *some* resolution of the choices A1–A3 leave open (iteration order of the dirty set included)?
  * `{"op":"afterRun","continue":bool,"tasks":[..],"old":[[t,r]..],"plan":[[t,"ok",r]|[t,"fail"]|[t,"interrupt"]..]}`
    → `{"final":[[t,r|null]..],"reportedOk":[[t,r]..]}` -/

def storeOf (pairs : List Json) : Store := fun t =>
  (pairs.find? (fun p => match asArr p with | [a, _] => asNat a = t | _ => false)).bind
    (fun p => match asArr p with | [_, b] => some (asNat b) | _ => none)

def parseEff (j : Json) : Option Eff :=
  match asArr j with
  | [tag, t, r] => if asStr tag = "save" then some (.save (asNat t) (asNat r)) else none
  | [tag, t] => if asStr tag = "remove" then some (.remove (asNat t)) else none
  | _ => none

def parseSlot (j : Json) : Slot :=
  match j with
  | .str "absent" => .absent
  | .str "corrupt" => .corrupt
  | other => .rcd (asNat other)

def slotsEq (tasks : List T) (obs : T → Slot) (f : T → Slot) : Bool := tasks.all fun t => obs t == f t
instance : BEq Slot := ⟨fun a b => decide (a = b)⟩

def matchRec (tasks : List T) (obsUnreadable : Bool) (obs : T → Slot) : Recovered → Bool
  | .unreadable => obsUnreadable
  | .store f => !obsUnreadable && tasks.all (fun t => decide (obs t = f t))

/-- all sublists-as-predicates over the task list -/
def subsets : List T → List (T → Bool)
  | [] => [fun _ => false]
  | t :: ts => (subsets ts).flatMap fun k => [k, fun x => if x = t then true else k x]

def allSeens : Nat → List (Nat → SetSeen)
  | 0 => [fun _ => .old]
  | n + 1 => (allSeens n).flatMap fun f =>
      [SetSeen.old, SetSeen.new, SetSeen.garbage].map fun s => fun i => if i = n then s else f i

def perms {α : Type} : List α → List (List α)
  | [] => [[]]
  | x :: xs => (perms xs).flatMap fun p => (List.range (p.length + 1)).map fun i => p.take i ++ [x] ++ p.drop i

def allowed (backend : String) (existed : Bool) (tasks : List T) (old : Store) (effs : List Eff)
    (obsU : Bool) (obs : T → Slot) : Bool × Nat :=
  match backend with
  | "json" =>
    let n := (jsonProtocol old effs 1).length
    ((List.range (n + 1)).any (fun k => matchRec tasks obsU obs (jsonCrash old existed effs 1 k)), n + 1)
  | "sqlite" =>
    let dirty := dirtyOf effs
    let n := (sqliteProtocol effs dirty).length
    ((List.range (n + 1)).any (fun k => matchRec tasks obsU obs (sqliteCrash old effs dirty k)), n + 1)
  | "dbm" =>
    let orders := perms (dirtyOf effs)
    let res := orders.any fun dirty =>
      let n := (dbmProtocol effs dirty).length
      (List.range (n + 1)).any fun k =>
        (allSeens n).any fun seens =>
          matchRec tasks obsU obs (dbmCrash old effs dirty seens k none) ||
          ([SetSeen.old, SetSeen.new, SetSeen.garbage].any fun s =>
            [true, false].any fun torn =>
              (subsets tasks).any fun keep =>
                matchRec tasks obsU obs (dbmCrash old effs dirty seens k (some (s, torn, keep))))
    (res, (dbmProtocol effs (dirtyOf effs)).length + 1)
  | _ => (false, 0)

def parseOutcome (j : Json) : Option (T × Outcome) :=
  match asArr j with
  | [t, tag, r] => if asStr tag = "ok" then some (asNat t, .ok (asNat r)) else none
  | [t, tag] =>
    if asStr tag = "fail" then some (asNat t, .fail)
    else if asStr tag = "interrupt" then some (asNat t, .interrupt) else none
  | _ => none

def handle (j : Json) : Json :=
  let tasks := jnats j "tasks"
  let old := storeOf (jarr j "old")
  match jstr j "op" with
  | "allowed" =>
    match (jarr j "effs").mapM parseEff with
    | none => Driver.err "bad effect"
    | some effs =>
      let o := jobj j "observed"
      let obsPairs := jarr o "slots"
      let obs : T → Slot := fun t =>
        match obsPairs.find? (fun p => match asArr p with | [a, _] => asNat a = t | _ => false) with
        | some p => (match asArr p with | [_, b] => parseSlot b | _ => .absent)
        | none => .absent
      let (ok, n) := allowed (jstr j "backend") (jbool j "existed") tasks old effs (jbool o "unreadable") obs
      Json.mkObj [("allowed", Json.bool ok), ("points", toJson n)]
  | "afterRun" =>
    match (jarr j "plan").mapM parseOutcome with
    | none => Driver.err "bad plan"
    | some plan =>
      let c := jbool j "continue"
      let fin := afterRun old c plan
      Json.mkObj [
        ("final", mkArr (tasks.map fun t => mkArr [toJson t, match fin t with | some r => toJson r | none => Json.null])),
        ("reportedOk", mkArr ((reportedOk c plan).map fun p => mkArr [toJson p.1, toJson p.2]))]
  | _ => Driver.err "bad op"

end Driver.Crash
