import Driver.Util
open Lean
namespace Driver.Crash
/-- handler for requests with `"model": "crash"` (stub: filled in when the model exists) -/
def handle (_ : Json) : Json := Driver.err "model not implemented"
end Driver.Crash
