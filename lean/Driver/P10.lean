import Driver.Util
import Driver.Status
import DoitModel.Model.Inputs
open Lean DoitModel.Status DoitModel.Inputs
namespace Driver.P10
/-! requests `{"model":"c10","mode":"model"|"monitor"|"getargs", …}`

`mode = "model"` (K) and `"monitor"` (P): `{"ntasks":n,"npaths":n,"ops":[op…]}` (model mode: optional
`"repaired":true` = `depChangedRepaired`, the loop with the repair of findings/pending/C10-readded-dep-stale-state.md); ops are those of the status driver
for the file system / definitions / commands (`edit touch delete editKeep redefine checker forget ignore unmet`) plus
  `["addcalc", t, [p…](, [utd item…])]`  `update_deps`: file_dep (and `uptodate` items) delivered by a calc_dep task (both modes)
  `["select", t, always]`                model mode: `get_status` of `t` is reached; answer: status, executes, the kwargs
  `["complete", t, ok, writes, res]`     model mode: actions ran, `process_task_result`
  `["sel", t, always, {"changed":[p…],"dependencies":[p…],"targets":[p…]}]`
                                         monitor mode: the implementation executed `t` and its action received these
                                         kwargs; evaluated on the ghost state at the time of the status check
  `["exec", t, ok, always, writes, res]` monitor mode (as in the status driver)
answer `{"steps":[…]}`, one object per op.

`mode = "getargs"`: `{"ops":[["save",t,[[k,v]…]] | ["remove",t] | ["get", subs|null, src, key|null(, [group, [full names…]])]]}`
(`keys` in the answer = `subKey group full` for every sub-task: the dict keys of a group source); answer per `get`:
`model` = `getArg` on the DB state machine, `spec` = `getArg` on `latest` of the reversed history. -/

def sortNats (l : List Nat) : List Nat := (l.toArray.qsort (· < ·)).toList

def kwJ (kw : Kw) : Json :=
  Json.mkObj [("changed", ofNats (sortNats kw.changed.eraseDups)), ("dependencies", ofNats (sortNats kw.dependencies.eraseDups)),
              ("targets", ofNats kw.targets)]

def parseKw (j : Json) : Kw := ⟨jnats j "changed", jnats j "dependencies", jnats j "targets"⟩

/-- monitor-only ghost: what the most recent recorded successful execution *having `p` as a dependency* saw of `p`
    (reset whenever the record of the task is dropped); used only to classify a violation as the stale-state finding -/
abbrev Seen := List ((Nat × Nat) × FMeta)

def seenGet (sn : Seen) (t p : Nat) : Option FMeta := DoitModel.alookup (t, p) sn
def seenDrop (sn : Seen) (t : Nat) : Seen := sn.filter fun e => e.1.1 != t
def seenPut (sn : Seen) (t : Nat) (deps : List Nat) (fs : FS) : Seen :=
  deps.foldl (fun acc p => match fs p with
    | none => acc
    | some m => ((t, p), m) :: (acc.filter fun e => e.1 != (t, p))) sn

def classOf (s : St) (sn : Seen) (t p : Nat) : String :=
  match s.shadow t with
  | none => "no-recorded-execution"
  | some e =>
    if p ∈ e.deps then (if depUnmod s.checker e s.fs p then "unmodified" else "modified")
    else match seenGet sn t p, s.fs p with
      | some sm, some now => if unmodBy s.checker sm now then "readded-unmodified-since-older-execution" else "readded-modified"
      | some _, none => "readded-missing"
      | none, _ => "new-dependency"

inductive Ev
  | st (e : Driver.Status.Ev)
  | addcalc (t : Nat) (ps : List Nat) (utd : List Utd)
  | select (t : Nat) (always : Bool)
  | complete (t : Nat) (ok : Bool) (writes : List (Nat × Nat × Nat)) (res : Option Nat)
  | sel (t : Nat) (always : Bool) (kw : Kw)

def parseEv (j : Json) : Option Ev :=
  match asArr j with
  | [tag, a, b] =>
    match asStr tag with
    | "addcalc" => some (.addcalc (asNat a) ((asArr b).map asNat) [])
    | "select" => some (.select (asNat a) (Driver.Status.asBool b))
    | _ => (Driver.Status.parseEv j).map .st
  | [tag, a, b, c] =>
    match asStr tag with
    | "addcalc" => some (.addcalc (asNat a) ((asArr b).map asNat) ((asArr c).map Driver.Status.parseUtd))
    | "sel" => some (.sel (asNat a) (Driver.Status.asBool b) (parseKw c))
    | _ => (Driver.Status.parseEv j).map .st
  | [tag, t, ok, writes, res] =>
    match asStr tag with
    | "complete" => some (.complete (asNat t) (Driver.Status.asBool ok) (Driver.Status.parseWrites writes) (Driver.Status.optNat res))
    | _ => (Driver.Status.parseEv j).map .st
  | [tag, t, ok, writes, res, saveable] =>
    match asStr tag with
    -- `["complete", t, actionsOk, writes, res, saveable]`: values / result that the DB can not store
    | "complete" => some (.complete (asNat t) (completeOk (Driver.Status.asBool ok) (Driver.Status.asBool saveable))
                            (Driver.Status.parseWrites writes) (Driver.Status.optNat res))
    | _ => (Driver.Status.parseEv j).map .st
  | _ => (Driver.Status.parseEv j).map .st

def nullJ : Json := Json.mkObj [("kind", Json.str "-")]

def selectJ (repaired : Bool) (s : St) (t : Nat) (always : Bool) : Json :=
  Json.mkObj [("kind", Json.str "select"),
    ("status", Json.str (Driver.Status.statusStr (s.status true t))),
    ("executes", Json.bool (executes s t always)),
    ("kw", kwJ (if repaired then kwargsRepaired s t else kwargsOf s t)),
    ("falseItem", Json.bool (utdFalse (s.rcd t).getValues s.resOf (s.defs t).uptodate)),
    ("ambiguous", Json.bool (Driver.Status.ambiguousAt s t))]

def modelStep (repaired : Bool) (s : St) : Ev → St × Json
  | .st (.op o) => (istep s (.base o), Json.mkObj [("kind", Json.str "op"), ("crashed", Json.bool (istep s (.base o)).crashed)])
  | .st _ => (s, nullJ)
  | .addcalc t ps utd => (istep s (.base (.redefine t (withCalcU (s.defs t) ps utd))),
      Json.mkObj [("kind", Json.str "addcalc"), ("deps", ofNats (sortNats (withCalc (s.defs t) ps).deps))])
  | .select t always => (istep s (.select t), selectJ repaired s t always)
  | .complete t ok ws res =>
    let s' := istep s (.complete t ok ws res)
    (s', Json.mkObj [("kind", Json.str "complete"), ("crashed", Json.bool s'.crashed),
                     ("saved", Json.bool (s'.shadow t).isSome), ("clock", toJson s'.clock)])
  | .sel _ _ _ => (s, Driver.err "monitor event in model mode")

def monStep (acc : St × Seen) : Ev → (St × Seen) × Json
  | .st (.op o) =>
    let s := acc.1
    let sn := match o with
      | .forget t => seenDrop acc.2 t
      | .unmet t => seenDrop acc.2 t
      | _ => acc.2
    ((step true s o, sn), nullJ)
  | .st (.exec t ok _ ws res) =>
    let s := acc.1
    let s' := monExec s t ok ws res
    let sn0 := if ghostRemoves s t || !ok then seenDrop acc.2 t else acc.2
    let sn := if ok then seenPut sn0 t (s.defs t).deps s'.fs else sn0
    ((s', sn), nullJ)
  | .st _ => (acc, nullJ)
  | .addcalc t ps utd => ((step true acc.1 (.redefine t (withCalcU (acc.1.defs t) ps utd)), acc.2), nullJ)
  | .sel t _ kw =>
    let s := acc.1
    let deps := (s.defs t).deps
    -- `get_status` drops the record at the time of the status check when the checker changed (other tasks checked
    -- before this one completes -- parallel runners -- already see it gone)
    let acc' : St × Seen := if ghostRemoves s t then (ghostPeek s t, seenDrop acc.2 t) else acc
    (acc', Json.mkObj [("kind", Json.str "sel"),
      ("ok", Json.bool (changedOk s t kw)),
      ("falseItem", Json.bool (falseItemAt s t)),
      ("needs", ofNats (sortNats (deps.filter (needsAt s t)).eraseDups)),
      ("missing", ofNats (sortNats (deps.filter fun p => needsAt s t p && !decide (p ∈ kw.changed)).eraseDups)),
      ("classes", mkArr (deps.eraseDups.map fun p => mkArr [toJson p, Json.str (classOf s acc.2 t p)])),
      ("deps", ofNats (sortNats deps.eraseDups)), ("targets", ofNats (s.defs t).targets)])
  | .select _ _ => (acc, Driver.err "model event in monitor mode")
  | .complete _ _ _ _ => (acc, Driver.err "model event in monitor mode")

/-! ### getargs -/

def parseUV (j : Json) : UV := (asArr j).map fun kv => match asArr kv with
  | [k, v] => (asNat k, asNat v)
  | _ => (0, 0)

def sortUV (v : UV) : UV := (v.toArray.qsort (fun a b => a.1 < b.1)).toList

def leafJ : Leaf → Json
  | .whole v => Json.mkObj [("whole", mkArr ((sortUV v).map fun (k, x) => mkArr [toJson k, toJson x]))]
  | .one x => Json.mkObj [("one", toJson x)]

def argJ : Except GErr ArgVal → Json
  | .error .noRecord => Json.mkObj [("error", Json.str "no-record")]
  | .error .noKey => Json.mkObj [("error", Json.str "no-key")]
  | .ok (.single l) => Json.mkObj [("single", leafJ l)]
  | .ok (.group m) => Json.mkObj [("group", mkArr (((m.toArray.qsort (fun a b => a.1 < b.1)).toList).map fun (s, l) => mkArr [toJson s, leafJ l]))]

inductive GEv
  | op (o : VOp)
  | get (subs : Option (List Nat)) (src : Nat) (key : Option Nat) (group : String) (full : List String)

def parseGEv (j : Json) : Option GEv :=
  match asArr j with
  | [tag, a] => if asStr tag = "remove" then some (.op (.remove (asNat a))) else none
  | [tag, a, b] => if asStr tag = "save" then some (.op (.save (asNat a) (parseUV b))) else none
  | [tag, subs, src, key] =>
    if asStr tag = "get" then
      some (.get (match subs with | .arr a => some (a.toList.map asNat) | _ => none) (asNat src) (key.getNat?).toOption "" [])
    else none
  | [tag, subs, src, key, names] =>
    -- group source with the real task names: `[group name, [full sub-task names…]]`
    if asStr tag = "get" then
      match asArr names with
      | [g, fs] =>
        some (.get (match subs with | .arr a => some (a.toList.map asNat) | _ => none) (asNat src) (key.getNat?).toOption
                   (asStr g) ((asArr fs).map asStr))
      | _ => none
    else none
  | _ => none

def handleGetargs (j : Json) : Json :=
  match (jarr j "ops").mapM parseGEv with
  | none => Driver.err "bad getargs op"
  | some evs =>
    -- state: the DB state machine and, separately, the reversed history for the specification
    let (_, _, outs) := evs.foldl (fun (acc : VDB × List VOp × List Json) e =>
      match e with
      | .op o => (vstep acc.1 o, o :: acc.2.1, Json.null :: acc.2.2)
      | .get subs src key group full =>
        (acc.1, acc.2.1, Json.mkObj [("model", argJ (getArg acc.1 subs src key)),
                                     ("spec", argJ (getArg (latest acc.2.1) subs src key)),
                                     ("keys", ofStrs (full.map fun f => String.ofList (subKey group.toList f.toList)))] :: acc.2.2))
      ((fun _ => none), [], [])
    Json.mkObj [("steps", mkArr outs.reverse)]

/-- handler for requests with `"model": "c10"` -/
def handle (j : Json) : Json :=
  if jstr j "mode" = "getargs" then handleGetargs j else
  match (jarr j "ops").mapM parseEv with
  | none => Driver.err "bad op"
  | some evs =>
    if jstr j "mode" = "monitor" then
      let (_, outs) := evs.foldl (fun (acc : (St × Seen) × List Json) e =>
        let (a', o) := monStep acc.1 e
        (a', o :: acc.2)) ((St.init, []), [])
      Json.mkObj [("steps", mkArr outs.reverse)]
    else
      let (_, outs) := evs.foldl (fun (acc : St × List Json) e =>
        let (s', o) := modelStep (jbool j "repaired") acc.1 e
        (s', o :: acc.2)) (St.init, [])
      Json.mkObj [("steps", mkArr outs.reverse)]

end Driver.P10
