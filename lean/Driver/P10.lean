import Driver.Util
open Lean
namespace Driver.P10
/-- handler for requests with `"model": "c10"` (property-specific monitors / model queries of C10; stub until built) -/
def handle (_ : Json) : Json := Driver.err "model not implemented"
end Driver.P10
