import Driver.Util
open Lean
namespace Driver.P13
/-- handler for requests with `"model": "c13"` (property-specific monitors / model queries of C13; stub until built) -/
def handle (_ : Json) : Json := Driver.err "model not implemented"
end Driver.P13
