import Driver.Util
import Driver.Status
import DoitModel.Model.Cmds
open Lean DoitModel.Status DoitModel.Cmds
namespace Driver.P13
/-! requests `{"model":"c13","mode":"model"|"monitor","fixed":bool,"npaths":n,"checker":"md5"|"ts",
   "tasks":[{"deps":[p…],"targets":[p…],"uptodate":[item…],"task_dep":[t…],"setup":[t…],"calc_dep":[t…],"sub_of":t|null}…],
   "default":null|[t…],"ops":[op…]}`   (task i of the list is name `i`; any other number is an unknown name)

ops: `["edit",p,size,cid] ["touch",p] ["delete",p] ["checker","md5"|"ts"]
      ["forget",{"names":[t…],"sub":b,"all":b,"dd":b}] ["ignore",[t…]] ["reset",[t…]]
      ["run",{"order":[t…],"unfinished":[t…],"always":b,"plan":{"<t>":{"ok":b,"writes":[[p,size,cid]…],"res":k|null}}}]`

model mode, per op: `target` (what the command resolved its arguments to), `out` (run: `[t, outcome]` in order),
`reset` (`[t, "processed"|"skip"|"failed"|"crash"]`), `bad` (run: a task was handed over before a needed dependency),
`crashed`, `clock`, `db` (logical dump after the op).

monitor mode: the ops carry what the implementation was *seen* to do (`["reset",[t…],{"fs":[null|[mtime,size,cid]…],
"pre":[rec…],"post":[rec…]}]`); the answer holds what the *property* demands, computed from the documented
semantics only (never from a DB): `spec` sets of forget / ignore / reset-dep, the tasks that must be reported
ignored / must not execute in a run given the ignore marks placed and not yet forgotten, and for reset-dep the
verdict of the record predicate on the implementation's own records. -/

def parsePlan (j : Json) (t : Nat) : Plan :=
  let p := jobj j (toString t)
  ⟨if jhas p "ok" then jbool p "ok" else true, Driver.Status.parseWrites (jobj p "writes"), Driver.Status.optNat (jobj p "res")⟩

def optList (j : Json) : Option (List Nat) :=
  match j with
  | .arr a => some (a.toList.map asNat)
  | _ => none

structure TaskJ where
  sdef : TaskDef
  taskDep : List Nat
  setup : List Nat
  subOf : Option Nat
  calcDep : List Nat

def parseTask (j : Json) : TaskJ :=
  ⟨Driver.Status.parseDef j, jnats j "task_dep", jnats j "setup", Driver.Status.optNat (jobj j "sub_of"),
   jnats j "calc_dep"⟩

def mkGraph (ts : List TaskJ) : Graph :=
  let arr := ts.toArray
  { names := List.range ts.length
    taskDep := fun t => match arr[t]? with | some x => x.taskDep | none => []
    setup := fun t => match arr[t]? with | some x => x.setup | none => []
    subOf := fun t => match arr[t]? with | some x => x.subOf | none => none
    calcDep := fun t => match arr[t]? with | some x => x.calcDep | none => [] }

def mkDefs (ts : List TaskJ) : Nat → TaskDef :=
  let arr := ts.toArray
  fun t => match arr[t]? with | some x => x.sdef | none => TaskDef.empty

def parseArgs (j : Json) : ForgetArgs := ⟨jnats j "names", jbool j "sub", jbool j "all", jbool j "dd"⟩

def parseCk (s : String) : Checker := if s = "ts" then .ts else .md5

def parseOp (dflt : Option (List Nat)) (j : Json) : Option COp :=
  match asArr j with
  | [tag, a] =>
    match asStr tag with
    | "touch" => some (.touch (asNat a))
    | "delete" => some (.delete (asNat a))
    | "checker" => some (.checker (parseCk (asStr a)))
    | "forget" => some (.forget (parseArgs a) dflt)
    | "ignore" => some (.ignore ((asArr a).map asNat))
    | "reset" => some (.reset ((asArr a).map asNat))
    | "run" => some (.run (jnats a "order") (jbool a "always") (parsePlan (jobj a "plan")))
    | _ => none
  | [tag, a, _] =>
    match asStr tag with
    | "forget" => some (.forget (parseArgs a) dflt)
    | "ignore" => some (.ignore ((asArr a).map asNat))
    | "reset" => some (.reset ((asArr a).map asNat))
    | "run" => some (.run (jnats a "order") (jbool a "always") (parsePlan (jobj a "plan")))
    | _ => none
  | [tag, p, s, c] => if asStr tag = "edit" then some (.edit (asNat p) (asNat s) (asNat c)) else none
  | _ => none

/-- `"unfinished":[t…]` of a run op: tasks that had their first `select_task` pass but no final report -/
def unfinishedOf (j : Json) : List Nat :=
  match asArr j with
  | [tag, a] => if asStr tag = "run" then jnats a "unfinished" else []
  | _ => []

def targetJ : Target → Json
  | .tasks l => mkArr [Json.str "tasks", ofNats l]
  | .everything => mkArr [Json.str "everything"]
  | .nothing => mkArr [Json.str "nothing"]
  | .notATask n => mkArr [Json.str "notATask", toJson n]
  | .crash => mkArr [Json.str "crash"]
  | .fuel => mkArr [Json.str "fuel"]

def outcomeStr : Outcome → String
  | .ignored => "ignored"
  | .upToDate => "up-to-date"
  | .ok => "ok"
  | .failed => "fail"
  | .saveMissing => "save-missing"
  | .unmet => "unmet"
  | .error => "error"
  | .crash => "crash"

def dbJ (ntasks npaths : Nat) (s : St) : Json := mkArr ((List.range ntasks).map fun t => Driver.Status.rcdJ npaths (s.rcd t))

def resetTrace (fixed : Bool) (s : St) : List Nat → St × List Json
  | [] => (s, [])
  | t :: rest =>
    let s' := if fixed then resetOne s t else resetDep true s t
    let (s'', js) := resetTrace fixed s' rest
    (s'', mkArr [toJson t, Json.str (Driver.Status.resetObs true s t s')] :: js)

def modelStep (fixed : Bool) (g : Graph) (ntasks npaths : Nat) (s : St) (o : COp) (unfinished : List Nat) : St × Json :=
  let s' := stepC fixed g (stepC fixed g s o) (.firstPass unfinished)
  let extra : List (String × Json) :=
    match o with
    | .forget a dflt => [("target", targetJ (forgetTarget fixed g a dflt))]
    | .ignore names => [("target", targetJ (ignoreTarget g names))]
    | .reset names =>
      [("target", targetJ (resetTarget g names)),
       ("reset", match resetTarget g names with
                 | .tasks l => mkArr (resetTrace fixed s l).2
                 | _ => mkArr [])]
    | .run order always plan =>
      let rs := runAll fixed always g plan s order
      [("out", mkArr (rs.out.reverse.map fun (t, oc) => mkArr [toJson t, Json.str (outcomeStr oc)])),
       ("bad", Json.bool rs.bad)]
    | _ => []
  (s', Json.mkObj (extra ++ [("crashed", Json.bool s'.crashed), ("clock", toJson s'.clock), ("db", dbJ ntasks npaths s')]))

/-! ### monitor side -/

def parseFState (j : Json) : Option FState :=
  match asArr j with
  | [tag, m, s, c] => if asStr tag = "md5" then some (.md5 (asNat m) (asNat s) (asNat c)) else none
  | [tag, m] => if asStr tag = "ts" then some (.ts (asNat m)) else none
  | _ => none

def parseValues (j : Json) : Option Values :=
  match j with
  | .null => none
  | _ => some ⟨jbool j "runOnce", Driver.Status.optNat (jobj j "cfg"),
               (jarr j "res").map fun x => match asArr x with
                 | [t, r] => (asNat t, Driver.Status.optNat r)
                 | _ => (0, none)⟩

/-- a record of the implementation's logical dump (canonical form of `statuslib.canon_impl_db`) -/
def parseRcd (j : Json) : Rcd :=
  let fst : List (Nat × FState) := (jarr j "fstate").filterMap fun x => match asArr x with
    | [p, st] => (parseFState st).map fun v => (asNat p, v)
    | _ => none
  { values := parseValues (jobj j "values")
    result := Driver.Status.optNat (jobj j "result")
    checker := match jobj j "checker" with
      | .str s => some (parseCk s)
      | _ => none
    deps := optList (jobj j "deps")
    fstate := fun p => DoitModel.alookup p fst
    ign := jbool j "ign" }

def parseFS (j : Json) : FS :=
  let l : List (Option FMeta) := (asArr j).map fun x => match asArr x with
    | [m, s, c] => some ⟨asNat m, asNat s, asNat c⟩
    | _ => none
  let arr := l.toArray
  fun p => match arr[p]? with | some x => x | none => none

/-- monitor ghost: the ignore marks the documented semantics says are in force -/
structure Ghost where
  marks : List Nat

def specJ : Option (List Nat) → Json
  | none => Json.str "everything"
  | some l => ofNats (Driver.Status.sortNats l.eraseDups)

def monStep (g : Graph) (defs : Nat → TaskDef) (ck : Checker) (dflt : Option (List Nat)) (gh : Ghost × Checker)
    (j : Json) : (Ghost × Checker) × Json :=
  match parseOp dflt j with
  | some (.forget a d) =>
    match (if a.all then none else firstUnknown g ((selTasks a.names d).getD [])) with
    | some n => (gh, Json.mkObj [("unknown", toJson n)])
    | none =>
      let sp := forgetSpec g a d
      let marks := match sp with | none => [] | some l => gh.1.marks.filter fun t => !l.contains t
      ((⟨marks⟩, gh.2), Json.mkObj [("spec", specJ sp), ("closed", Json.bool (forgetSpecClosed g a d))])
  | some (.ignore names) =>
    match firstUnknown g names with
    | some n => (gh, Json.mkObj [("unknown", toJson n)])
    | none =>
      let sp := withSubs g names
      ((⟨gh.1.marks ++ sp⟩, gh.2), Json.mkObj [("spec", specJ (some sp))])
  | some (.checker c) => ((gh.1, c), Json.mkObj [])
  | some (.run _ _ _) =>
    let hard := ignClosure g defs gh.1.marks
    let soft := g.names.filter fun t => (g.setup t).any fun d => hard.contains d
    (gh, Json.mkObj [("ign_hard", ofNats (Driver.Status.sortNats hard.eraseDups)), ("ign_setup", ofNats soft),
                     ("marks", ofNats (Driver.Status.sortNats gh.1.marks.eraseDups)),
                     ("closed", Json.bool (ignClosedB g defs hard)),
                     ("hard_deps", mkArr (g.names.map fun t => ofNats (hardDeps g defs t)))])
  | some (.reset names) =>
    match firstUnknown g names with
    | some n => (gh, Json.mkObj [("unknown", toJson n)])
    | none =>
      let sp := if names.isEmpty then g.names else withSubs g names
      let info := match asArr j with | [_, _, i] => i | _ => Json.null
      let fs := parseFS (jobj info "fs")
      let pre := (jarr info "pre").toArray
      let post := (jarr info "post").toArray
      let postR : Nat → Rcd := fun t => match post[t]? with | some r => parseRcd r | none => Rcd.empty
      let preR : Nat → Rcd := fun t => match pre[t]? with | some r => parseRcd r | none => Rcd.empty
      let resOf : Nat → Option Nat := fun t => (postR t).result
      let per := sp.eraseDups.map fun t =>
        Json.mkObj [("t", toJson t), ("missing", Json.bool ((defs t).deps.any (depMissing fs))),
                    ("rec_ok", Json.bool (resetRecOk gh.2 (defs t) (preR t) (postR t) fs)),
                    ("status_ok", Json.bool (resetStatusOk gh.2 (defs t) (postR t) fs resOf)),
                    ("early", Json.bool (earlyRun (defs t) (postR t).getValues resOf fs))]
      let _ := ck
      (gh, Json.mkObj [("spec", specJ (some sp)), ("per", mkArr per)])
  | some _ => (gh, Json.mkObj [])
  | none => (gh, Driver.err "bad op")

def handle (j : Json) : Json :=
  let ts := (jarr j "tasks").map parseTask
  let g := mkGraph ts
  let defs := mkDefs ts
  let ntasks := ts.length
  let npaths := jnat j "npaths"
  let fixed := if jhas j "fixed" then jbool j "fixed" else true
  let dflt := optList (jobj j "default")
  let ck := parseCk (jstr j "checker")
  if jstr j "mode" = "monitor" then
    let (_, outs) := (jarr j "ops").foldl (fun (acc : (Ghost × Checker) × List Json) o =>
      let (gh', out) := monStep g defs ck dflt acc.1 o
      (gh', out :: acc.2)) ((⟨[]⟩, ck), [])
    Json.mkObj [("steps", mkArr outs.reverse), ("wf", Json.bool g.WF)]
  else
    match (jarr j "ops").mapM (fun x => (parseOp dflt x).map fun o => (o, unfinishedOf x)) with
    | none => Driver.err "bad op"
    | some ops =>
      let (_, outs) := ops.foldl (fun (acc : St × List Json) o =>
        let (s', out) := modelStep fixed g ntasks npaths acc.1 o.1 o.2
        (s', out :: acc.2)) (initC defs ck, [])
      Json.mkObj [("steps", mkArr outs.reverse), ("wf", Json.bool g.WF)]

end Driver.P13
