import Driver.Util
import Driver.Run
import DoitModel.Model.RunTeardown
open Lean DoitModel.Run
namespace Driver.P11
/-! Handler for `{"model":"c11", ...}`: the C11 monitors on an observed run and the teardown log the extended model
(`Model/RunTeardown.lean`) produces for it.

Request = the `run` request of harness/runlib.py (task table, oracle, flags, `trace`, `exit`, `err`) plus
  "tdFail": [bool per task]          teardown actions that fail
  "mixed":  [item...]                merged chronological observation: ["start",n,w] ["end",n,w] ["td",n,who] ["tderr",n,who]
                                     (who = worker index, or -1 for the main thread / main process)
  "nworkers": k                      number of worker entities (process runner)
  "pinnedProcess": bool              model variant before "fix: teardown failure on a sub-process is reported ..." (default: HEAD)
Answer: {"monitor": {"C11_lazy", "C11_setup_before", "C11_td_exact", "C11_td_after"},
         "model_td": the teardown log of the model for the observed start order (same item format; process runner:
                     worker by worker), "model_crash": the model's main process dies (failing teardown in a worker
                     process, pinned variant only), "justified": the tasks the laziness monitor accepts as needed,
         "hyp": {"bounded": the hypothesis `Bounded inp n` of `C11_lazy_monitor`}}

`model_td` is `teardownRun` / `workerTeardown` over the start order — by `C11_teardown_shared` /
`C11_teardown_process_exact` (Props/C11.lean) this IS the log of every complete run of the extended model that has these start events; that such a run of the model
exists is what the `run`/`accept` request (sent alongside by the harness) establishes. -/

def whoOf (j : Json) : Option Nat :=
  match j.getInt? with
  | .ok i => if i < 0 then none else some i.toNat
  | _ => none

def parseMixed (j : Json) : Option MEv :=
  match asArr j with
  | [t, n, x] =>
    match asStr t with
    | "start" => some (.ev (.start (asNat n) (asNat x)))
    | "end" => some (.ev (.fin (asNat n) (asNat x)))
    | "td" => some (.td (.run (asNat n) (whoOf x)))
    | "tderr" => some (.td (.err (asNat n) (whoOf x)))
    | _ => none
  | _ => none

def whoJson : Option Nat → Json
  | some w => toJson w
  | none => toJson (-1 : Int)

def tdJson : TdEv → Json
  | .run n w => mkArr [Json.str "td", toJson n, whoJson w]
  | .err n w => mkArr [Json.str "tderr", toJson n, whoJson w]

def handle (j : Json) : Json :=
  let inp := Driver.Run.parseInput j
  let n := jnat j "n"
  let tdFail := Driver.Run.boolsOf j "tdFail" false
  let nW := jnat j "nworkers"
  match (jarr j "trace").mapM Driver.Run.parseEv, (jarr j "mixed").mapM parseMixed with
  | some tr, some mixed =>
    let starts := mixed.filterMap fun x => match x with | .ev e => some e | _ => none
    let tdlog := mixed.filterMap fun x => match x with | .td t => some t | _ => none
    let v : Variant := { pinnedProcess := jbool j "pinnedProcess" }
    let modelTd : List TdEv :=
      if inp.runner = .process then
        (List.range nW).flatMap fun w => workerTeardown v tdFail w (startOrderOf inp w starts.reverse)
      else teardownRun tdFail none (startOrder inp starts.reverse)
    let modelCrash : Bool := inp.runner = .process && v.pinnedProcess &&
      (List.range nW).any fun w => (startOrderOf inp w starts.reverse).any tdFail
    let exact := monTdExact inp tdFail nW starts tdlog
    Json.mkObj [
      ("monitor", Json.mkObj [
        ("C11_lazy", Json.bool (monLazy inp n tr)),
        ("C11_setup_before", Json.bool (monSetupBefore inp tr)),
        ("C11_td_exact", Json.bool exact),
        ("C11_td_after", Json.bool (monTdAfter inp nW mixed))]),
      ("hyp", Json.mkObj [("bounded", Json.bool (boundedB inp n))]),
      ("model_td", mkArr (modelTd.map tdJson)),
      ("model_crash", Json.bool modelCrash),
      ("justified", ofNats (lazyIter inp n tr (n + 1) (addNew [] inp.sel)))]
  | _, _ => Driver.err "bad event in trace / mixed"

end Driver.P11
