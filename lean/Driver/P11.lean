import Driver.Util
open Lean
namespace Driver.P11
/-- handler for requests with `"model": "c11"` (property-specific monitors / model queries of C11; stub until built) -/
def handle (_ : Json) : Json := Driver.err "model not implemented"
end Driver.P11
