import Driver.Util
import Driver.Run
import DoitModel.Model.RunData
open Lean DoitModel.Run
namespace Driver.P08
/-! Handler for `{"model":"c08", "op": "den" | "data", …}` (protocol: harness/props/c08.py docstring).

`den`:  the run input of `Driver/Run.lean` (`parseInput`) + `"n"` + `"runs": [{"trace","exit","complete"}…]`.
        Answers the denotation (`denF`, `denClosure`, `denExit`), the hypotheses (`nocalc`, `determined`), and for every
        run `monC08Den`; for every run after the first `monC08Pair` against the first (the serial reference).
        `den_c`, `closure_c`, `exit_c`, `determined_c`, `mon_den_c`: the same for the denotation with dynamic calc_dep
        edges (`denTabC`, `closureTab`, `determinedOf`, `monDenOf` = `monC08DenC`), meaningful on any graph.
`job`:  `{"main": {"task": {attr: id}}, "worker": {"task": {attr: id}}}` → the worker's task after `JobTaskPickle` (`workerReceivesPickle`).
`data`: `{"main": {"task": {attr: id}, "acts": [[out, err]…]}, "worker": {"task": {…}, "acts": [[out, err]…],
        "failure": id|null}}` → what `processResultData` leaves on the main side, and the pickled key set. -/

def denStr : Den → String
  | .ign => "ignore" | .utd => "up-to-date" | .ok => "success" | .bot => "bot"
  | .fail k => "fail:" ++ Driver.Run.failKindStr k

def optDenJson : Option Den → Json
  | some d => Json.str (denStr d)
  | none => Json.null

/-! ### attribute names -/

def fixedAttrs : List (String × Attr) :=
  [("name", .name), ("values", .values), ("result", .result), ("executed", .executed), ("options", .options),
   ("task_dep", .taskDep), ("_actions", .actions), ("_action_instances", .actionInstances),
   ("clean_actions", .cleanActions), ("teardown", .teardown), ("custom_title", .customTitle),
   ("value_savers", .valueSavers), ("uptodate", .uptodate)]

/-- keys of the request's task object, in the order given; unknown names are `otherData k` by position -/
def attrOfKey (others : List String) (k : String) : Attr :=
  match fixedAttrs.lookup k with
  | some a => a
  | none => .otherData (others.idxOf k)

def objKeys (j : Json) : List String :=
  match j with
  | .obj kvs => kvs.toList.map (·.1)
  | _ => []

def recOf (j : Json) (others : List String) : TaskRec := fun a =>
  match (objKeys j).find? (fun k => attrOfKey others k == a) with
  | some k => jnat j k
  | none => 0

def actsOf (j : Json) : List ActOut :=
  (jarr j "acts").map fun x => match asArr x with
    | [o, e] => { out := asNat o, err := asNat e }
    | _ => { out := 0, err := 0 }

def actsJson (as : List ActOut) : Json := mkArr (as.map fun a => mkArr [toJson a.out, toJson a.err])

def handleData (j : Json) : Json :=
  let jm := jobj j "main"
  let jw := jobj j "worker"
  let keys := objKeys (jobj jm "task")
  let others := keys.filter fun k => (fixedAttrs.lookup k).isNone
  let mainT := recOf (jobj jm "task") others
  let workT := recOf (jobj jw "task") others
  let fail : Option Nat := (jw.getObjValAs? Nat "failure").toOption
  let w : WorkerSide := { task := workT, acts := actsOf jw, failure := fail }
  let r := workerResult w
  -- the harness may override the lists of the result dict (to probe misaligned lengths)
  let r := if jhas j "outs" then { r with outs := jnats j "outs" } else r
  let r := if jhas j "errs" then { r with errs := jnats j "errs" } else r
  let m := processResultData { task := mainT, acts := actsOf jm, baseFail := none } r
  Json.mkObj [
    ("shipped", ofStrs (keys.filter fun k => (r.task (attrOfKey others k)).isSome)),
    ("task", Json.mkObj (keys.map fun k => (k, toJson (m.task (attrOfKey others k))))),
    ("acts", actsJson m.acts),
    ("base_fail", match m.baseFail with | some f => toJson f | none => Json.null),
    ("name", toJson r.name)]

/-- `{"op":"job","main":{"task":{attr:id}},"worker":{"task":{attr:id}}}`: what a worker PROCESS has after receiving
    `JobTaskPickle(main task)`: its fork-time copy updated from the safe dict (`workerReceivesPickle`) -/
def handleJob (j : Json) : Json :=
  let jm := jobj (jobj j "main") "task"
  let jw := jobj (jobj j "worker") "task"
  let keys := objKeys jm
  let others := keys.filter fun k => (fixedAttrs.lookup k).isNone
  let mainT := recOf jm others
  let workT := recOf jw others
  let r := workerReceivesPickle workT mainT
  Json.mkObj [
    ("shipped", ofStrs (keys.filter fun k => (pickleSafe mainT (attrOfKey others k)).isSome)),
    ("task", Json.mkObj (keys.map fun k => (k, toJson (r (attrOfKey others k)))))]

def handleDen (j : Json) : Json :=
  let inp := Driver.Run.parseInput j
  let n := jnat j "n"
  let runs := (jarr j "runs").map fun r =>
    (((jarr r "trace").filterMap Driver.Run.parseEv), jnat r "exit", jbool r "complete")
  let nocalc := (List.range n).all fun t => (inp.calcDep t).isEmpty
  let dens := (List.range n).map (denF inp (n + 1))
  let cl := denClosure inp n
  let determined := cl.all fun t => !(denF inp (n + 1) t).isBot
  let mons := runs.map fun (tr, ex, c) => Json.bool (monC08Den inp n tr ex c)
  let pairs := match runs with
    | [] => []
    | (tr0, ex0, _) :: rest => rest.map fun (tr, ex, _) => Json.bool (monC08Pair n tr0 tr ex0 ex)
  let reports := runs.map fun (tr, _, _) => mkArr ((List.range n).map fun t => optDenJson (reportOf tr t))
  -- the denotation with dynamic calc_dep edges (any graph): table, closure, side condition, monitor
  let tabC := denTabC inp n
  let clC := closureTab inp tabC (n + 1)
  let detC := determinedOf inp tabC (n + 1) clC
  let monsC := runs.map fun (tr, ex, c) => Json.bool (monDenOf tabC clC n tr ex c)
  Json.mkObj [
    ("den_c", ofStrs ((List.range n).map fun t => denStr (ddTab tabC t))),
    ("closure_c", ofNats clC),
    ("exit_c", toJson (exitOfDens (clC.map (ddTab tabC)))),
    ("determined_c", Json.bool detC),
    ("mon_den_c", mkArr monsC),
    ("den", ofStrs (dens.map denStr)),
    ("closure", ofNats cl),
    ("exit", toJson (denExit inp n)),
    ("nocalc", Json.bool nocalc),
    ("determined", Json.bool determined),
    ("mon_den", mkArr mons),
    ("mon_pair", mkArr pairs),
    ("reports", mkArr reports)]

def handle (j : Json) : Json :=
  match jstr j "op" with
  | "den" => handleDen j
  | "data" => handleData j
  | "job" => handleJob j
  | _ => Driver.err "c08: unknown op"

end Driver.P08
