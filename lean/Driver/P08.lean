import Driver.Util
open Lean
namespace Driver.P08
/-- handler for requests with `"model": "c08"` (property-specific monitors / model queries of C08; stub until built) -/
def handle (_ : Json) : Json := Driver.err "model not implemented"
end Driver.P08
