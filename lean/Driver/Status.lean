import Driver.Util
import DoitModel.Model.Status
import Driver.UtdTools
open Lean DoitModel.Status
namespace Driver.Status
/-! requests `{"model":"status","mode":"model"|"monitor","fixed":bool,"ntasks":n,"npaths":n,"ops":[op…]}`

ops (both modes): `["edit",p,size,cid] ["touch",p] ["delete",p] ["editKeep",p,size,cid]
  ["redefine",t,{"deps":[p…],"targets":[p…],"uptodate":[item…]}]   item: ["const",b] ["none"] ["runOnce"] ["cfg",d]
  ["res",t] ["shell",b] ["custom",b|null]      ["checker","md5"|"ts"] ["forget",t] ["ignore",t] ["unmet",t]`
model mode only: `["run",t,ok,always,[[p,size,cid]…],res|null] ["resetDep",t] ["peek",t] ["info",t]`
  (`peek` = a `get_status(get_log=False)` only command such as `list -s`, `info` = `get_status(get_log=True)`; both
  model the DB effect of a backend whose `remove` is write-through, i.e. dbm)
monitor mode only (what the implementation was seen to do): `["skip",t] ["exec",t,ok,always,writes,res|null]
  ["reset",t,"processed"|"skip"|"failed"] ["ignskip",t]`

answer: `{"steps":[{…}]}`; model mode per op: `pre` (status and spec of every task before the op), `obs`, `ambiguous`,
`db` (logical dump after the op), `crashed`; monitor mode per op: `c03` / `c04` (`null` when the event carries no
obligation) and `spec` (of every task, before the event). -/

def parseUtd (j : Json) : Utd :=
  match asArr j with
  | [tag] => if asStr tag = "runOnce" then .runOnce else .noneItem
  | [tag, v] =>
    match asStr tag with
    | "const" => .const ((v.getBool?).toOption.getD false)
    | "cfg" => .configChanged (asNat v)
    | "res" => .resultDep (asNat v)
    | "shell" => .shell ((v.getBool?).toOption.getD false)
    | "custom" => .custom ((v.getBool?).toOption)
    | _ => .noneItem
  | _ => .noneItem

def parseDef (j : Json) : TaskDef := ⟨jnats j "deps", jnats j "targets", (jarr j "uptodate").map parseUtd⟩

def parseWrites (j : Json) : List (Path × Nat × Nat) :=
  (asArr j).map fun w => match asArr w with
    | [p, s, c] => (asNat p, asNat s, asNat c)
    | _ => (0, 0, 0)

def optNat (j : Json) : Option Nat := (j.getNat?).toOption
def asBool (j : Json) : Bool := (j.getBool?).toOption.getD false

inductive Ev
  | op (o : Op)
  | skip (t : Nat)
  | exec (t : Nat) (ok always : Bool) (writes : List (Nat × Nat × Nat)) (res : Option Nat)
  | reset (t : Nat) (outcome : String)
  | ignskip (t : Nat)

def parseEv (j : Json) : Option Ev :=
  match asArr j with
  | [tag] => if asStr tag = "nop" then some (.ignskip 0) else none
  | [tag, a] =>
    match asStr tag with
    | "touch" => some (.op (.touch (asNat a)))
    | "delete" => some (.op (.delete (asNat a)))
    | "checker" => some (.op (.switchChecker (if asStr a = "ts" then .ts else .md5)))
    | "forget" => some (.op (.forget (asNat a)))
    | "ignore" => some (.op (.ignore (asNat a)))
    | "unmet" => some (.op (.unmet (asNat a)))
    | "resetDep" => some (.op (.resetDep (asNat a)))
    | "peek" => some (.op (.peek (asNat a)))
    | "info" => some (.op (.info (asNat a)))
    | "skip" => some (.skip (asNat a))
    | "ignskip" => some (.ignskip (asNat a))
    | _ => none
  | [tag, a, b] =>
    match asStr tag with
    | "redefine" => some (.op (.redefine (asNat a) (parseDef b)))
    | "reset" => some (.reset (asNat a) (asStr b))
    | _ => none
  | [tag, p, s, c] =>
    match asStr tag with
    | "edit" => some (.op (.edit (asNat p) (asNat s) (asNat c)))
    | "editKeep" => some (.op (.editKeep (asNat p) (asNat s) (asNat c)))
    | _ => none
  | [tag, t, ok, always, writes, res] =>
    match asStr tag with
    | "run" => some (.op (.run (asNat t) (asBool ok) (asBool always) (parseWrites writes) (optNat res)))
    | "exec" => some (.exec (asNat t) (asBool ok) (asBool always) (parseWrites writes) (optNat res))
    | _ => none
  | _ => none

def statusStr : Status → String
  | .upToDate => "up-to-date"
  | .run => "run"
  | .error => "error"
  | .crash => "crash"

def ckStr : Checker → String
  | .md5 => "md5"
  | .ts => "ts"

def optJ (o : Option Nat) : Json := match o with | none => Json.null | some n => toJson n

def fstateJ : FState → Json
  | .md5 m s c => mkArr [Json.str "md5", toJson m, toJson s, toJson c]
  | .ts m => mkArr [Json.str "ts", toJson m]

def sortNats (l : List Nat) : List Nat := (l.toArray.qsort (· < ·)).toList

def valuesJ (v : Values) : Json :=
  Json.mkObj [("runOnce", Json.bool v.runOnce), ("cfg", optJ v.cfg),
    ("res", mkArr (v.res.map fun (t, r) => mkArr [toJson t, optJ r]))]

def rcdJ (npaths : Nat) (r : Rcd) : Json :=
  Json.mkObj [
    ("values", match r.values with | none => Json.null | some v => valuesJ v),
    ("result", optJ r.result),
    ("checker", match r.checker with | none => Json.null | some c => Json.str (ckStr c)),
    ("deps", match r.deps with | none => Json.null | some d => ofNats (sortNats d.eraseDups)),
    ("fstate", mkArr ((List.range npaths).filterMap fun p =>
        (r.fstate p).map fun st => mkArr [toJson p, fstateJ st])),
    ("ign", Json.bool r.ign)]

/-- a missing dependency and a wrong-shape state are both present: the code's set order decides -/
def ambiguousAt (s : St) (t : Nat) : Bool :=
  let d := (s.defs t).deps
  d.any (depMissing s.fs) &&
    (d.any (depIs .crash s.checker (s.rcd t) s.fs) || d.any (saveCrashAt s.checker (s.rcd t) s.fs))

def runObs (fixed : Bool) (s : St) (t : Nat) (ok always : Bool) (writes : List (Nat × Nat × Nat))
    (s' : St) : String :=
  if (s.rcd t).ign then "ignored"
  else match s.status fixed t with
    | .crash => "crash"
    | .error => "error"
    | .upToDate =>
      if always then
        (if s'.crashed then "crash" else if !ok then "fail" else if (s'.shadow t).isSome then "ok" else "save-missing")
      else "up-to-date"
    | .run =>
      if s'.crashed then "crash" else if !ok then "fail"
      else if (saveSuccess s.checker (s.defs t).deps ((applyWrites (peek s t) writes).rcd t)
                (applyWrites (peek s t) writes).fs Values.empty none matches .ok _) then "ok" else "save-missing"

def resetObs (fixed : Bool) (s : St) (t : Nat) (s' : St) : String :=
  if (s.defs t).deps.any (depMissing s.fs) then "failed"
  else match s.status fixed t with
    | .crash => "crash"
    | .error => "failed"
    | .upToDate => "skip"
    | .run => if s'.crashed then "crash" else "processed"

def preJ (fixed : Bool) (ntasks : Nat) (s : St) : Json :=
  mkArr ((List.range ntasks).map fun t =>
    Json.mkObj [("status", Json.str (statusStr (s.status fixed t))), ("statusLog", Json.str (statusStr (s.statusLog t))),
                ("spec", Json.bool (s.spec t)),
                ("ign", Json.bool (s.rcd t).ign)])

def modelStep (fixed : Bool) (ntasks npaths : Nat) (s : St) (o : Op) : St × Json :=
  let s' := step fixed s o
  let obs : String :=
    if s.crashed then "dead" else
    match o with
    | .run t ok always writes _ => runObs fixed s t ok always writes s'
    | .resetDep t => resetObs fixed s t s'
    | .peek t => statusStr (s.status fixed t)
    | .info t => statusStr (s.statusLog t)
    | _ => "-"
  let amb : Bool := match o with
    | .run t _ _ _ _ => ambiguousAt s t
    | .resetDep t => ambiguousAt s t
    | .peek t => ambiguousAt s t
    | .info t => ambiguousAt s t
    | _ => false
  (s', Json.mkObj [("pre", preJ fixed ntasks s), ("obs", Json.str obs), ("ambiguous", Json.bool amb),
    ("crashed", Json.bool s'.crashed), ("clock", toJson s'.clock),
    ("db", mkArr ((List.range ntasks).map fun t => rcdJ npaths (s'.rcd t)))])

def specsJ (ntasks : Nat) (s : St) : Json := mkArr ((List.range ntasks).map fun t => Json.bool (s.spec t))

def monStep (ntasks : Nat) (s : St) (e : Ev) : St × Json :=
  let mk (c03 c04 : Json) := Json.mkObj [("c03", c03), ("c04", c04), ("spec", specsJ ntasks s)]
  match e with
  | .op o => (step true s o, mk Json.null Json.null)
  | .skip t => (s, mk (Json.bool (s.spec t)) Json.null)
  | .exec t ok always writes res => (monExec s t ok writes res, mk Json.null (Json.bool (always || !s.spec t)))
  | .reset t outcome =>
    if outcome = "processed" then (monReset s t, mk Json.null (Json.bool (!s.spec t)))
    else if outcome = "skip" then (s, mk (Json.bool (s.spec t)) Json.null)
    else (s, mk Json.null Json.null)
  | .ignskip _ => (s, mk Json.null Json.null)

def handle (j : Json) : Json :=
  if jstr j "mode" = "utdtools" then Driver.UtdTools.handle j else
  match (jarr j "ops").mapM parseEv with
  | none => Driver.err "bad op"
  | some evs =>
    let ntasks := jnat j "ntasks"
    let npaths := jnat j "npaths"
    let fixed := if jhas j "fixed" then jbool j "fixed" else true
    if jstr j "mode" = "monitor" then
      let (_, outs) := evs.foldl (fun (acc : St × List Json) e =>
        let (s', o) := monStep ntasks acc.1 e
        (s', o :: acc.2)) (St.init, [])
      Json.mkObj [("steps", mkArr outs.reverse)]
    else
      let (_, outs) := evs.foldl (fun (acc : St × List Json) e =>
        match e with
        | .op o =>
          let (s', out) := modelStep fixed ntasks npaths acc.1 o
          (s', out :: acc.2)
        | .ignskip _ =>
          let (s', out) := modelStep fixed ntasks npaths acc.1 (.switchChecker acc.1.checker)
          (s', out :: acc.2)
        | _ => (acc.1, Driver.err "monitor event in model mode" :: acc.2)) (St.init, [])
      Json.mkObj [("steps", mkArr outs.reverse)]

end Driver.Status
