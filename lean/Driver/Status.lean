import Driver.Util
open Lean
namespace Driver.Status
/-- handler for requests with `"model": "status"` (stub: filled in when the model exists) -/
def handle (_ : Json) : Json := Driver.err "model not implemented"
end Driver.Status
