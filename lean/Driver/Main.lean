import Driver.Util
import Driver.KV
import Driver.Opt
import Driver.Act
import Driver.Clean
import Driver.Sel
import Driver.Load
import Driver.Status
import Driver.Run
import Driver.Crash
import Driver.Delayed
import Driver.P05
import Driver.P08
import Driver.P09
import Driver.P10
import Driver.P11
import Driver.P13
import Driver.P15
import Driver.P19
import Driver.P20
/-! `doitdrv`: one JSON request per stdin line, one JSON answer per stdout line.
    Request: `{"model": "<family>", ...}`; the family's handler defines the rest. -/
open Lean

def dispatch (j : Json) : Json :=
  match Driver.jstr j "model" with
  | "kv" => Driver.KV.handle j
  | "opt" => Driver.Opt.handle j
  | "act" => Driver.Act.handle j
  | "clean" => Driver.Clean.handle j
  | "sel" => Driver.Sel.handle j
  | "load" => Driver.Load.handle j
  | "status" => Driver.Status.handle j
  | "run" => Driver.Run.handle j
  | "crash" => Driver.Crash.handle j
  | "delayed" => Driver.Delayed.handle j
  | "c05" => Driver.P05.handle j
  | "c08" => Driver.P08.handle j
  | "c09" => Driver.P09.handle j
  | "c10" => Driver.P10.handle j
  | "c11" => Driver.P11.handle j
  | "c13" => Driver.P13.handle j
  | "c15" => Driver.P15.handle j
  | "c19" => Driver.P19.handle j
  | "c20" => Driver.P20.handle j
  | "ping" => Json.mkObj [("pong", Json.bool true)]
  | m => Driver.err s!"unknown model {m}"

partial def loop (hin : IO.FS.Stream) (hout : IO.FS.Stream) : IO Unit := do
  let line ← hin.getLine
  if line.isEmpty then return ()
  let t := line.trimAscii.toString
  if t.isEmpty then
    loop hin hout
  else
    let out := match Json.parse t with
      | .ok j => dispatch j
      | .error e => Driver.err s!"json: {e}"
    hout.putStrLn out.compress
    hout.flush
    loop hin hout

def main : IO Unit := do loop (← IO.getStdin) (← IO.getStdout)
