import Driver.Util
open Lean
namespace Driver.Sel
/-- handler for requests with `"model": "sel"` (stub: filled in when the model exists) -/
def handle (_ : Json) : Json := Driver.err "model not implemented"
end Driver.Sel
