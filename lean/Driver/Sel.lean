import Driver.Util
import DoitModel.Model.Sel
open Lean DoitModel.Sel
namespace Driver.Sel
/-! requests `{"model":"sel", "tasks":[{"name","task_dep","setup","calc_dep","file_dep","targets","has_subtask",
      "params":[{"short":"f"|"","long":"flag"|"","val":bool}],"pos_arg","delayed","utd"}],
      "args":[..], "default":null|[..], "single":bool, "obs":{"exit","processed","started","ran"}?}`
    or `{"model":"sel","op":"glob","pattern":..,"names":[..]}`.
    answer: `deps` (task_dep after `TaskControl.__init__`: `[name, expanded, final]`), `head` (= `spec` since dcfe778) and
    `pinned` (before dcfe778) plans
    (`sel`: `["ok",[..]] | ["notFound",a] | ["optErr"] | ["fuel"]`, `closure`, `closed`, `task_dep`), `reinit`, `pos`,
    `pinned_single`, and `monitor` (failed clauses of the property on `obs`) when `obs` is given.
    Sets are returned as lists in model order; the harness sorts. -/

def toks (j : Json) (k : String) : List Tok := (jstrs j k).map String.toList
def ofTok (t : Tok) : Json := Json.str (String.ofList t)
def ofToks (ts : List Tok) : Json := mkArr (ts.map ofTok)

def parseParam (j : Json) : Param :=
  { short := (jstr j "short").toList.head?, long := (jstr j "long").toList, takesVal := jbool j "val" }

def parseTask (j : Json) : Task :=
  { name := (jstr j "name").toList, taskDep := toks j "task_dep", setup := toks j "setup", calcDep := toks j "calc_dep",
    fileDep := toks j "file_dep", targets := toks j "targets", hasSubtask := jbool j "has_subtask",
    params := (jarr j "params").map parseParam, posArg := jbool j "pos_arg", delayed := jbool j "delayed",
    utd := jbool j "utd" }

def selJson : Except Err (List Tok) → Json
  | .ok l => mkArr [Json.str "ok", ofToks l]
  | .error (.notFound a) => mkArr [Json.str "notFound", ofTok a]
  | .error .optErr => mkArr [Json.str "optErr"]
  | .error .fuel => mkArr [Json.str "fuel"]

def planJson : Except Err Plan → Json
  | .error e => Json.mkObj [("sel", selJson (.error e))]
  | .ok p => Json.mkObj [
      ("sel", selJson (.ok p.sel)),
      ("closure", ofToks p.closure),
      ("closed", Json.bool (closedB p.tasks p.closure)),
      ("task_dep", mkArr (p.tasks.map fun t => mkArr [ofTok t.name, ofToks t.taskDep]))]

def handle (j : Json) : Json :=
  if jstr j "op" = "glob" then
    let pat := (jstr j "pattern").toList
    Json.mkObj [("match", mkArr ((toks j "names").map fun n => Json.bool (glob pat n)))]
  else
    let ts := (jarr j "tasks").map parseTask
    let args := toks j "args"
    let dflt : Option (List Tok) := match j.getObjVal? "default" with
      | .ok (.arr a) => some (a.toList.map fun x => (asStr x).toList)
      | _ => none
    let single := jbool j "single"
    -- what reaches the `run` command: through `DoitMain.run` the command line without its name=value words
    -- (`planCli`); through `doit.api.run_tasks` the given names as they are
    let cargs := if jstr j "entry" = "run_tasks" then args else stripVars args
    let pts := prepare ts
    let sa := selArgs args dflt
    let reinit := match sa with
      | none => false
      | some a => reinitB pts (a.length + 1) [] a
    let pos := match sa with
      | none => []
      | some a => pfPos pts (a.length + 1) [] a
    let base : List (String × Json) := [
      ("deps", mkArr (ts.map fun t => mkArr [ofTok t.name, ofToks (expandWild ts t), ofToks (finalDeps ts t)])),
      ("head", planJson (planGen ts false args dflt single)),
      ("pinned", planJson (planGen ts true args dflt single)),
      ("cli", planJson (planGen ts false cargs dflt single)),
      ("cli_args", ofToks cargs),
      ("pinned_cli_crash", Json.bool (jstr j "entry" != "run_tasks" && (pinnedCliArgs args).isNone)),
      ("cli_pos", mkArr ((match selArgs cargs dflt with
          | none => []
          | some a => pfPos pts (a.length + 1) [] a).map fun (n, vs) => mkArr [ofTok n, ofToks vs])),
      ("spec", planJson (planGen ts false args dflt single)),
      ("reinit", Json.bool reinit),
      ("pos", mkArr (pos.map fun (n, vs) => mkArr [ofTok n, ofToks vs])),
      ("pinned_single", selJson (pinnedSingleSelect pts sa))]
    let mon : List (String × Json) :=
      if jhas j "obs" then
        let o := jobj j "obs"
        let obs : Obs := { exit := jnat o "exit", processed := toks o "processed", started := toks o "started",
                           ran := toks o "ran", actionsOnly := jbool o "actions_only" }
        let chunked := match planGen ts false cargs dflt single with
          | .ok p => chunkedB p.tasks p.sel obs.started
          | .error _ => true
        [("monitor", ofStrs (monitor ts cargs dflt single obs)), ("chunked", Json.bool chunked)]
      else []
    Json.mkObj (base ++ mon)

end Driver.Sel
