import Driver.Util
open Lean
namespace Driver.P15
/-- handler for requests with `"model": "c15"` (property-specific monitors / model queries of C15; stub until built) -/
def handle (_ : Json) : Json := Driver.err "model not implemented"
end Driver.P15
