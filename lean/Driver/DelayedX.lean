import Driver.Util
import DoitModel.Model.DelayedX
open Lean
open DoitModel.Delayed (Input Ev Susp Choice Err)
open DoitModel.DelayedX
namespace Driver.DelayedX
/-! The acceptor of `Driver/Delayed.lean` over the extended transition system `Model/DelayedX.lean` (created tasks with
`setup` / `calc_dep` / `getargs`): same search (DFS over which running task finishes next, whether the main thread
resumes the dispatcher before that, iteration order of `waiting_me`), same acceptance condition. -/

partial def perms : List Nat → List (List Nat)
  | [] => [[]]
  | l => if l.length > 5 then l.flatMap fun x => [x :: l.erase x, x :: (l.erase x).reverse]
         else l.flatMap fun x => (perms (l.erase x)).map (x :: ·)

structure Ctx where
  inp : Input
  par : Bool
  obs : List Ev            -- oldest first; without the `start` events when `par`
  obsErr : String
  obsExit : Nat
  obsStarted : List Nat    -- tasks whose action started (any position)

/-- the task registered under `n` has an action -/
def actOf (s : Sys) (n : Nat) : Bool :=
  match s.tasks n with
  | some td => td.act
  | none => false

def hiddenEv (ctx : Ctx) (s : Sys) : Ev → Bool
  | .start n => ctx.par || !actOf s n
  | _ => false

def visOf (ctx : Ctx) (s : Sys) : List Ev := (s.events.filter (fun e => !hiddenEv ctx s e)).reverse

def errStr : Susp → String
  | .err .cyclic => "cyclic"
  | .err (.notFound _) => "notfound"
  | .err .dupTarget => "duptarget"
  | .err .crash => "crash"
  | _ => "none"

def waitingOf (s : Sys) (n : Nat) : List Nat :=
  match s.nodes n with
  | some nd => nd.waitingMe
  | none => []

/-- the choices tried in a state (the iteration order of `waiting_me` is handled lazily, see `dfs`) -/
def moves (ctx : Ctx) (s : Sys) : List Choice :=
  match s.susp with
  | .running => [.tick []]
  | .yielded n => [.tick (waitingOf s n)]
  | .err _ => []
  | _ =>
    (s.running.map fun m => Choice.finish m (waitingOf s m)) ++
      (if ctx.par && s.susp == .idle && !s.stop then [.resume] else [])

/-- the run is over: nothing in flight and the main thread has nothing left to do -/
def isTerminal (s : Sys) : Bool :=
  match s.susp with
  | .err _ => true
  | .stopIter => s.running.isEmpty
  | .idle => s.running.isEmpty && s.stop
  | .holdOn => s.running.isEmpty && s.stop
  | _ => false

/-- the tasks with an action the model has started -/
def startedOf (s : Sys) : List Nat :=
  s.events.filterMap fun e => match e with | .start n => if actOf s n then some n else none | _ => none

def acceptEnd (ctx : Ctx) (s : Sys) (v : List Ev) : Bool :=
  isTerminal s && ctx.obsStarted.all ((startedOf s).contains ·) &&
    (errStr s.susp == ctx.obsErr || (ctx.obsErr == "exit3" && errStr s.susp != "none")) && exitCode s == ctx.obsExit &&
    (match s.susp with
     | .err _ => (ctx.obs.drop v.length).all fun e => s.running.any fun m => e.reports m
     | _ => v.length == ctx.obs.length)

/-- Depth-first search for a schedule of the model that produces the observed trace.
    The iteration order of `waiting_me` (the `perm` of a feeding step) only decides in which order the woken nodes are
    appended to `ready`; they are appended contiguously.  Instead of enumerating permutations up front the search
    feeds in the stored order, remembers the woken nodes as a *group*, and when the dispatcher is about to pop a member
    of a group from `ready` it may pop any remaining member of that group instead — which is the state some other
    permutation would have produced. -/
partial def dfs (ctx : Ctx) (s : Sys) (groups : List (List Nat)) : StateM (Nat × Nat × String) (Option Sys) := do
  let (n, best, bs) ← get
  if n = 0 then return none
  let v := visOf ctx s
  -- a task handed to a worker that is still in flight need not have started its action (the run may be aborted first)
  if !(v.isPrefixOf ctx.obs) || !((startedOf s).all (fun n => ctx.obsStarted.contains n || s.running.contains n)) then
    set (n - 1, best, bs)
    return none
  if v.length ≥ best then set (n - 1, v.length, reprStr s.susp ++ " running=" ++ toString s.running ++ " stop=" ++ toString s.stop)
  else set (n - 1, best, bs)
  if acceptEnd ctx s v then return some s
  match s.susp, s.cur, s.ready with
  | .running, none, r :: _ =>
    let g := (groups.find? (·.contains r)).getD [r]
    let alts := r :: (g.filter fun x => x != r && s.ready.contains x)
    for x in alts do
      match step ctx.inp { s with ready := x :: s.ready.erase x } (.tick []) with
      | some s' =>
        match (← dfs ctx s' (groups.map (·.erase x))) with
        | some r => return some r
        | none => pure ()
      | none => pure ()
    return none
  | _, _, _ =>
    for c in moves ctx s do
      match step ctx.inp s c with
      | some s' =>
        let fresh := s'.ready.filter fun x => !s.ready.contains x
        let groups' := if fresh.length > 1 then groups ++ [fresh] else groups
        match (← dfs ctx s' groups') with
        | some r => return some r
        | none => pure ()
      | none => pure ()
    return none

/-- the eager serial-like schedule (used by `simulate` and for diagnostics) -/
partial def simulate (ctx : Ctx) (s : Sys) (fuel : Nat) : Sys :=
  if fuel = 0 then s else
  match (moves ctx s).findSome? (fun c => step ctx.inp s c) with
  | some s' => simulate ctx s' (fuel - 1)
  | none => s


/-- which of the new transitions the accepted run took, read off its final state: (tasks with setup-tasks that went
    through both `select_task` calls and started, tasks with setup-tasks that were up-to-date / unmet so that their
    setup-tasks were never scheduled, nodes that processed a calc_dep list, nodes whose `Task` object received
    task_deps delivered by a calc_dep) -/
def featureCounts (inp : Input) (s : Sys) (names : List Nat) : Nat × Nat × Nat × Nat :=
  let nds := names.filterMap fun n => (s.nodes n).map fun nd => (n, nd)
  ((nds.filter fun (n, nd) => nd.task.setup ≠ [] && s.events.contains (.start n)).length,
   (nds.filter fun (n, nd) => nd.task.setup ≠ [] && !s.events.contains (.start n) && nd.status.finished).length,
   (nds.filter fun (_, nd) => nd.task.calcDep ≠ [] && nd.calcPend == [] && nd.pc != .start && nd.pc != .loopTop).length,
   (nds.filter fun (_, nd) => nd.task.calcDep ≠ [] && (nd.task.calcDep.flatMap inp.delivers) ≠ [] &&
      (nd.task.calcDep.flatMap inp.delivers).all (nd.task.deps.contains ·)).length)

end Driver.DelayedX
