import Lean.Data.Json
/-! JSON helpers shared by the driver handlers (driver only; nothing here is part of a model). -/
open Lean

namespace Driver

def jstr (j : Json) (k : String) : String := (j.getObjValAs? String k).toOption.getD ""
def jnat (j : Json) (k : String) : Nat := (j.getObjValAs? Nat k).toOption.getD 0
def jint (j : Json) (k : String) : Int := (j.getObjValAs? Int k).toOption.getD 0
def jbool (j : Json) (k : String) : Bool := (j.getObjValAs? Bool k).toOption.getD false
def jarr (j : Json) (k : String) : List Json :=
  match j.getObjVal? k with
  | .ok (.arr a) => a.toList
  | _ => []
def jobj (j : Json) (k : String) : Json := (j.getObjVal? k).toOption.getD Json.null
def jhas (j : Json) (k : String) : Bool := (j.getObjVal? k).toOption.isSome
def jstrs (j : Json) (k : String) : List String := (jarr j k).map fun x => (x.getStr?).toOption.getD ""
def jnats (j : Json) (k : String) : List Nat := (jarr j k).map fun x => (x.getNat?).toOption.getD 0
def asStr (j : Json) : String := (j.getStr?).toOption.getD ""
def asNat (j : Json) : Nat := (j.getNat?).toOption.getD 0
def asArr (j : Json) : List Json := match j with | .arr a => a.toList | _ => []
def mkArr (xs : List Json) : Json := Json.arr xs.toArray
def ofStrs (xs : List String) : Json := mkArr (xs.map Json.str)
def ofNats (xs : List Nat) : Json := mkArr (xs.map fun (n : Nat) => (toJson n))
def err (msg : String) : Json := Json.mkObj [("error", Json.str msg)]

end Driver
