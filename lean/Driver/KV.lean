import Driver.Util
import DoitModel.Model.KV
open Lean DoitModel.KV
namespace Driver.KV
/-! requests: `{"model":"kv","backend":"json|dbm|sqlite|spec|dbm-pinned|sqlite-pinned","ops":[["set",t,k,v],["get",t,k],["has",t],["remove",t],["removeAll"],["reopen"]]}`
    answer: `{"out":[ "u" | ["v", n|null] | ["b", bool] ]}` -/

def parseOp (j : Json) : Option Op :=
  match asArr j with
  | [tag, t, k, v] => if asStr tag = "set" then some (.set (asNat t) (asNat k) (asNat v)) else none
  | [tag, t, k] => if asStr tag = "get" then some (.get (asNat t) (asNat k)) else none
  | [tag, t] =>
    if asStr tag = "has" then some (.has (asNat t))
    else if asStr tag = "remove" then some (.remove (asNat t)) else none
  | [tag] =>
    if asStr tag = "removeAll" then some .removeAll
    else if asStr tag = "reopen" then some .reopen else none
  | _ => none

def outJson : Out → Json
  | .unit => Json.str "u"
  | .val none => mkArr [Json.str "v", Json.null]
  | .val (some n) => mkArr [Json.str "v", toJson n]
  | .bool b => mkArr [Json.str "b", Json.bool b]

def handle (j : Json) : Json :=
  match (jarr j "ops").mapM parseOp with
  | none => Driver.err "bad op"
  | some ops =>
    let outs : Option (List Out) :=
      match jstr j "backend" with
      | "json" => some (outputs .json ops)
      | "dbm" => some (outputs .dbm ops)
      | "sqlite" => some (outputs .sqlite ops)
      | "spec" => some (specOutputs ops)
      | "dbm-pinned" => some (runWith dbmStepPinned (dbmOpen Map.empty) ops).2
      | "sqlite-pinned" => some (runWith sqlStepPinned (sqlOpen Map.empty) ops).2
      | _ => none
    match outs with
    | none => Driver.err "bad backend"
    | some os => Json.mkObj [("out", mkArr (os.map outJson))]

end Driver.KV
