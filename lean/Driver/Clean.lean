import Driver.Util
import DoitModel.Model.Clean
open Lean DoitModel.Clean
namespace Driver.Clean
/-! requests `{"model":"clean", "tasks":[{"label":s,"task_dep":[n],"setup":[n],"subtask_of":n|null,"targets":[s],
      "kind":"none"|"targets"|"actions",
      "actions":[{"type":"aware"|"plain"|"cmd","eff":null|["rm",s]|["mk",s]}]}], "pos":[s], "defaults":null|[s], "cleandep":b, "cleanall":b,
      "dryrun":b, "forget":b, "files":[s], "dirs":[s], "db":[n], "links":[[s,s]],
      "obs": {"order":[n], "files":[s], "dirs":[s], "db":[n]} (optional: what the implementation did)}`
    answer: `{"outcome":"ok"|"not-a-task"|"key-error", "order":[n], "events":[[tag,t,...]], "files","dirs","db",
      "oof":b, "wf":b, "acyclic":b, "with_deps":b, "base":[n], "monitor":{"order":b,"effects":b}}`
    `files`/`dirs`/`db` are answered sorted. -/

def chars (s : String) : List Char := s.toList
def str (p : List Char) : String := String.ofList p

def parseAct (j : Json) : Act :=
  { kind := match jstr j "type" with
      | "aware" => .aware
      | "cmd" => .cmd
      | _ => .plain,
    eff := match jarr j "eff" with
      | [tag, p] => if asStr tag = "rm" then some (.rm (chars (asStr p)))
                    else if asStr tag = "mk" then some (.mk (chars (asStr p))) else none
      | _ => none }

def parseKind (j : Json) : CleanKind :=
  match jstr j "kind" with
  | "targets" => .targets
  | "actions" => .actions ((jarr j "actions").map parseAct)
  | "act" => .actions [⟨.plain, none⟩]
  | "actdry" => .actions [⟨.aware, none⟩]
  | _ => .nothing

def parseTask (j : Json) : Task :=
  { label := chars (jstr j "label"),
    taskDep := jnats j "task_dep",
    setup := jnats j "setup",
    subtaskOf := (j.getObjValAs? Nat "subtask_of").toOption,
    targets := (jstrs j "targets").map chars,
    kind := parseKind j }

def parseReq (j : Json) : Req :=
  { pos := (jstrs j "pos").map chars,
    defaults := match j.getObjVal? "defaults" with
      | .ok (.arr a) => some (a.toList.map fun x => chars (asStr x))
      | _ => none,
    cleandep := jbool j "cleandep", cleanall := jbool j "cleanall",
    dryrun := jbool j "dryrun", forget := jbool j "forget" }

def parseWorld (j : Json) : World :=
  { files := (jstrs j "files").map chars, dirs := (jstrs j "dirs").map chars, db := jnats j "db",
    links := (jarr j "links").map fun l => match asArr l with
      | [a, b] => (chars (asStr a), chars (asStr b))
      | _ => ([], []) }

def sortStrs (xs : List String) : List String := (xs.toArray.qsort (· < ·)).toList
def sortNats (xs : List Nat) : List Nat := (xs.toArray.qsort (· < ·)).toList

def evJson : Ev → Json
  | .executing t k => mkArr [Json.str "executing", toJson t, toJson k]
  | .ran t k d => mkArr [Json.str "ran", toJson t, toJson k, Json.bool d]
  | .cmd t k => mkArr [Json.str "cmd", toJson t, toJson k]
  | .rmFile t p => mkArr [Json.str "rm-file", toJson t, Json.str (str p)]
  | .rmDir t p => mkArr [Json.str "rm-dir", toJson t, Json.str (str p)]
  | .notEmpty t p => mkArr [Json.str "not-empty", toJson t, Json.str (str p)]
  | .crash t p => mkArr [Json.str "crash", toJson t, Json.str (str p)]

def handle (j : Json) : Json :=
  let tbl : Table := (jarr j "tasks").map parseTask
  let r := parseReq j
  let w := parseWorld j
  let common : List (String × Json) :=
    [("wf", Json.bool (wfB tbl)), ("acyclic", Json.bool (acyclicB tbl)), ("with_deps", Json.bool (withDeps r))]
  match cleanList tbl r, run tbl r w with
  | .ok base, .ok res =>
    let mon : List (String × Json) :=
      if jhas j "obs" then
        let o := jobj j "obs"
        let w' := parseWorld o
        -- the declarative clean set for the effect monitor: computed by `closeN`, not by the traversal
        let full := declSet tbl r base
        [("monitor", Json.mkObj [("order", Json.bool (monitorOrder tbl r base w (jnats o "order"))),
                                 ("effects", Json.bool (monitorEffects tbl r full w w'))])]
      else []
    Json.mkObj ([("outcome", Json.str "ok"), ("order", ofNats res.order),
      ("events", mkArr (res.events.map evJson)),
      ("files", ofStrs (sortStrs (res.world.files.map str))),
      ("dirs", ofStrs (sortStrs (res.world.dirs.map str))),
      ("db", ofNats (sortNats res.world.db)),
      ("links", ofStrs (sortStrs (res.world.links.map fun l => str l.1))),
      ("crashed", Json.bool res.crashed),
      ("oof", Json.bool res.oof), ("base", ofNats base)] ++ common ++ mon)
  | .error .notATask, _ => Json.mkObj ([("outcome", Json.str "not-a-task")] ++ common)
  | .error .keyError, _ => Json.mkObj ([("outcome", Json.str "key-error")] ++ common)
  | _, .error .notATask => Json.mkObj ([("outcome", Json.str "not-a-task")] ++ common)
  | _, .error .keyError => Json.mkObj ([("outcome", Json.str "key-error")] ++ common)

end Driver.Clean
