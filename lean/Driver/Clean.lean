import Driver.Util
open Lean
namespace Driver.Clean
/-- handler for requests with `"model": "clean"` (stub: filled in when the model exists) -/
def handle (_ : Json) : Json := Driver.err "model not implemented"
end Driver.Clean
