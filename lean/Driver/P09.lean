import Driver.Util
open Lean
namespace Driver.P09
/-- handler for requests with `"model": "c09"` (property-specific monitors / model queries of C09; stub until built) -/
def handle (_ : Json) : Json := Driver.err "model not implemented"
end Driver.P09
