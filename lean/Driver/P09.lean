import Driver.Util
import Driver.Run
import DoitModel.Model.RunC09
open Lean DoitModel.Run
namespace Driver.P09
/-! Handler for `{"model":"c09", …}`: the C09 monitor (`Model/RunC09.lean`) evaluated on what the harness observed of
one run of the implementation.  Request = the fields of a `{"model":"run"}` request (task table, oracle, flags, trace,
exit) plus `errCyclic`, `errWait`, `hung`.  Answer: the four clauses, the tasks found on a cycle of the closure graph,
the closure, and what the model itself does on this input under its default schedule (halt class, exit code). -/

def haltStr : Halt → String
  | .none => "none" | .cyclic => "cyclic" | .crash => "crash"

def handle (j : Json) : Json :=
  let inp := Driver.Run.parseInput j
  let n := jnat j "n"
  let tr := (jarr j "trace").filterMap Driver.Run.parseEv
  let o : C09Obs := { exit := jnat j "exit", errCyclic := jbool j "errCyclic", errWait := jbool j "errWait",
                      hung := jbool j "hung" }
  -- `cycleTasksFast = cycleTasks`, `monC09On (cycleTasksFast …) = monC09 …`: Proofs/C09Cycle.lean
  let cyc := cycleTasksFast inp n tr
  let hasFail := (List.range n).any fun c =>
    !((inp.calcResFail c).tasks.isEmpty && (inp.calcResFail c).files.isEmpty && (inp.calcResFail c).calcs.isEmpty)
  let big := jbool j "noSimulate"
  let s := if big then init inp else Driver.Run.simulate inp (init inp) 100000
  Json.mkObj ([
    ("monitor", Json.mkObj [
      ("C09_terminates", Json.bool (monC09Terminates o)),
      ("C09_cycle_diagnosed", Json.bool (monC09DiagnosedOn cyc inp tr o)),
      ("C09_no_cycle_task_run", Json.bool (monC09NoCycleTaskRunOn cyc tr)),
      ("C09_no_false_cycle", Json.bool (monC09NoFalseCycleOn cyc o))]),
    ("all", Json.bool (monC09On cyc inp tr o)),
    ("cycle", ofNats cyc),
    ("cutShort", Json.bool (cutShort inp tr))] ++
    (if hasFail then [("cycleGood", ofNats (cycleTasksGood inp n tr))] else []) ++
    (if big then [] else [
    ("closure", ofNats (closureC09 inp n tr)),
    ("model", Json.mkObj [("halted", Json.bool (s.rpc = .halted)), ("halt", Json.str (haltStr s.halt)),
                          ("exit", toJson (exitCode s))])]))

end Driver.P09
