import Driver.Util
import DoitModel.Model.Run
import DoitModel.Model.RunMon
open Lean DoitModel.Run
namespace Driver.Run
/-! Handler for `{"model":"run", "op":"accept"|"simulate", …}` (protocol: harness/runlib.py docstring).

`accept`: is the observed trace (+ exit code) a trace of the model under SOME choice sequence?  The search is a
deterministic simulation guided by the observed events (a step that emits events must emit exactly the next
observed ones; silent steps of the main thread and `JobHold`/`None` pick-ups commute with everything else and are
taken eagerly) with backtracking over the two unordered points only: iteration order of `waiting_me` and of
`calc_dep`.  For the process runner main-thread events and worker events are matched as two streams (their relative
order in the file is a race between processes).  Also evaluates the C01/C02 monitors on the observed trace.

`simulate`: run the model under a default schedule and return its trace (used by examples and debugging). -/

def listFn {α} [Inhabited α] (xs : List α) : Nat → α := fun n => xs.getD n default
def arrOfArr (j : Json) (k : String) : List (List Nat) := (jarr j k).map fun x => (asArr x).map asNat

def parseSt3 (s : String) : St3 := match s with | "utd" => .utd | "error" => .error | _ => .run
def parseOutcome (s : String) : Outcome :=
  match s with | "failed" => .failed | "error" => .error | "saveerr" => .saveErr | _ => .ok
def parseCalcRes (j : Json) : CalcRes :=
  match j with
  | .null => {}
  | _ => { tasks := jnats j "task", files := jnats j "file", calcs := jnats j "calc" }


def boolsOf (j : Json) (k : String) (dflt : Bool) : Nat → Bool :=
  let xs := (jarr j k).map fun x => (x.getBool?).toOption.getD dflt
  fun n => xs.getD n dflt

def parseInput (j : Json) : RunInput :=
  let runner := match jstr j "runner" with | "thread" => RunnerKind.thread | "process" => .process | _ => .serial
  { taskDep := fun n => (arrOfArr j "taskDep").getD n []
    calcDep := fun n => (arrOfArr j "calcDep").getD n []
    setup := fun n => (arrOfArr j "setup").getD n []
    sel := jnats j "sel"
    continue_ := jbool j "cont"
    always := jbool j "always"
    runner := runner
    numProc := jnat j "nproc"
    ignored := boolsOf j "ignored" false
    statusOf := listFn ((jstrs j "status").map parseSt3)
    outcome := listFn ((jstrs j "outcome").map parseOutcome)
    argsOk := boolsOf j "argsOk" true
    calcRes := listFn ((jarr j "calcRes").map parseCalcRes)
    hasTeardown := boolsOf j "teardown" false
    noAct := boolsOf j "noAct" false
    calcResFail := listFn ((jarr j "calcResFail").map parseCalcRes) }

def failKindStr : FailKind → String
  | .unmet => "unmet" | .depErr => "deperr" | .failed => "failed" | .error => "error"
def parseFailKind (s : String) : FailKind :=
  match s with | "unmet" => .unmet | "deperr" => .depErr | "failed" => .failed | _ => .error

def evJson : Ev → Json
  | .getStatus n => mkArr [Json.str "get_status", toJson n]
  | .skipIgn n => mkArr [Json.str "skip_ignore", toJson n]
  | .skipUtd n => mkArr [Json.str "skip_uptodate", toJson n]
  | .execute n => mkArr [Json.str "execute", toJson n]
  | .success n => mkArr [Json.str "success", toJson n]
  | .failure n k => mkArr [Json.str "failure", toJson n, Json.str (failKindStr k)]
  | .teardown n => mkArr [Json.str "teardown", toJson n]
  | .complete => mkArr [Json.str "complete"]
  | .start n w => mkArr [Json.str "start", toJson n, toJson w]
  | .fin n w => mkArr [Json.str "end", toJson n, toJson w]
  | .go n ds => mkArr [Json.str "go", toJson n, ofNats ds]

def parseEv (j : Json) : Option Ev :=
  match asArr j with
  | [t] => if asStr t = "complete" then some .complete else none
  | [t, n] =>
    match asStr t with
    | "get_status" => some (.getStatus (asNat n))
    | "skip_ignore" => some (.skipIgn (asNat n))
    | "skip_uptodate" => some (.skipUtd (asNat n))
    | "execute" => some (.execute (asNat n))
    | "success" => some (.success (asNat n))
    | "teardown" => some (.teardown (asNat n))
    | _ => none
  | [t, n, x] =>
    match asStr t with
    | "failure" => some (.failure (asNat n) (parseFailKind (asStr x)))
    | "start" => some (.start (asNat n) (asNat x))
    | "end" => some (.fin (asNat n) (asNat x))
    | _ => none
  | _ => none

/-! ### the acceptor -/

def isWorkerEv : Ev → Bool
  | .start _ _ => true | .fin _ _ => true | _ => false

/-- remaining observed events: single stream (`.1`, `.2 = []`) or main / worker streams -/
abbrev Rem := List Ev × List (List Ev)

def workerOf : Ev → Nat
  | .start _ w => w | .fin _ w => w | _ => 0

def popAt : List (List Ev) → Nat → Ev → Option (List (List Ev))
  | [], _, _ => none
  | l :: ls, 0, e => match l with
    | o :: l' => if o = e then some (l' :: ls) else none
    | [] => none
  | l :: ls, k + 1, e => (popAt ls k e).map (l :: ·)

/-- consume the events a step emitted (oldest first); `dual`: the events of worker `w` come from stream `w` -/
def consume (inp : RunInput) (dual : Bool) : Rem → List Ev → Option Rem
  | r, [] => some r
  | (m, w), e :: es =>
    if hidden inp e then consume inp dual (m, w) es
    else if dual && isWorkerEv e then
      match popAt w (workerOf e) e with
      | some w' => consume inp dual (m, w') es
      | none => none
    else
      match m with
      | o :: m' => if o = e then consume inp dual (m', w) es else none
      | [] => none

partial def permsOf : List Nat → List (List Nat)
  | [] => [[]]
  | xs => xs.flatMap fun x => (permsOf (xs.erase x)).map (x :: ·)

/-- position of the first remaining observed event that names task `x` (large when none does) -/
def firstMention (obs : List Ev) (x : Nat) : Nat :=
  match obs.findIdx? (Ev.mentions x) with
  | some i => i
  | none => 1000000 + x

/-- insertion sort by first mention in the observed events still to be matched -/
def sortByMention (obs : List Ev) (xs : List Nat) : List Nat :=
  xs.foldl (fun acc x =>
    let k := firstMention obs x
    (acc.takeWhile fun y => firstMention obs y ≤ k) ++ x :: (acc.dropWhile fun y => firstMention obs y ≤ k)) []

/-- orders to try for a set that the main thread's next step iterates: first the order suggested by the observed
    trace, then (small sets) every order.  Second component: the enumeration was cut short. -/
def ordersOf (obs : List Ev) (xs : List Nat) : List (List Nat) × Bool :=
  let h := sortByMention obs xs
  if xs.length ≤ 1 then ([xs], false)
  else if xs.length > 6 then ([h, xs, xs.reverse], true)
  else (h :: (permsOf xs).filter (· ≠ h), false)

def permCandidates (s : Sys) (obs : List Ev) : List (List Nat) × Bool :=
  let wake (p : Option Nat) : List (List Nat) × Bool :=
    match p with
    | none => ([[]], false)
    | some p =>
      match s.nodes p with
      | some nd => if nd.status = .run then ([[]], false) else ordersOf obs nd.waitingMe
      | none => ([[]], false)
  match s.rpc with
  | .sTop p => wake p
  | .gLoop p _ => wake p
  | .sWait | .gWait _ =>
    match s.susp, s.cur with
    | none, some n =>
      match s.nodes n with
      | some nd => if nd.pc = .loopTop then ordersOf obs nd.pendCalc else ([[]], false)
      | none => ([[]], false)
    | _, _ => ([[]], false)
  | _ => ([[]], false)

/-- events emitted by a step, oldest first -/
def emitted (s s' : Sys) : List Ev := (s'.events.take (s'.events.length - s.events.length)).reverse

structure Best where
  matched : Nat := 0
  expected : List (List Ev) := []
  steps : Nat := 0
  perms : Nat := 0
  capped : Bool := false
deriving Inhabited

def remLen (r : Rem) : Nat := r.1.length + (r.2.map List.length).sum

def lowestIdle (s : Sys) : Nat → Option Nat
  | 0 => none
  | k + 1 => match lowestIdle s k with
    | some w => some w
    | none => if s.workers k = .idle then some k else none

def runningNoAct (inp : RunInput) (s : Sys) : Nat → Option Nat
  | 0 => none
  | k + 1 => match runningNoAct inp s k with
    | some w => some w
    | none => match s.workers k with
      | .running n => if inp.noAct n then some k else none
      | _ => none

/-- the worker moves that would emit a next observed worker event (single stream: at most one) -/
def nextWorkerMoves (dual : Bool) (r : Rem) : List Choice :=
  let look (es : List Ev) : List Choice :=
    match es with
    | .start _ w :: _ => [.take w]
    | .execute _ :: .start _ w :: _ => [.take w]
    | .fin _ w :: _ => [.done w]
    | _ => []
  if dual then r.2.flatMap look else look r.1

inductive Verdict | accepted | rejected | budget
deriving DecidableEq, Inhabited

/-- depth-first search; `total` = number of observed events (for the `matched` diagnostic) -/
partial def search (inp : RunInput) (dual : Bool) (total : Nat) (wantExit : Nat) (wantDeadlock : Bool)
    (s : Sys) (r : Rem) (b : Best) : Verdict × Best := Id.run do
  let mut b := { b with steps := b.steps + 1 }
  if b.steps > 400000 then return (.budget, b)
  let stepF := stepOf inp
  -- 1. the main thread
  let (cands, cap) := permCandidates s (r.1 ++ r.2.flatten)
  if cands.length > 1 then b := { b with perms := b.perms + 1 }
  if cap then b := { b with capped := true }
  let mut mainBlocked := true
  let mut mainExpected : List (List Ev) := []
  for perm in cands do
    match stepF s (.main perm) with
    | none => pure ()
    | some s' =>
      let em := emitted s s'
      match consume inp dual r em with
      | some r' =>
        mainBlocked := false
        let (v, b') := search inp dual total wantExit wantDeadlock s' r' b
        b := b'
        if v ≠ .rejected then return (v, b)
      | none =>
        mainExpected := (em.filter fun e => !hidden inp e) :: mainExpected
  if !mainBlocked then return (.rejected, b)     -- main could move (all orders tried) and none led to acceptance
  -- 2. silent worker moves
  if inp.runner ≠ .serial then
    -- JobHold / None pick-ups commute with everything: taken eagerly by the lowest idle worker
    let eager : Bool := match s.jobQ with
      | .hold :: _ | .stop :: _ => true
      | _ => false
    if eager then
      match lowestIdle s s.nStarted with
      | some w =>
        match stepF s (.take w) with
        | some s' =>
          match consume inp dual r (emitted s s') with
          | some r' => return search inp dual total wantExit wantDeadlock s' r' b
          | none => pure ()
        | none => pure ()
      | none => pure ()
    -- a task without actions occupies a worker, and its result races with the other workers' results: every idle
    -- worker may pick it up, and it may finish at any later point (both are backtracking choices)
    let mut movedSilent := false
    match s.jobQ with
    | .task n :: _ =>
      if inp.noAct n then
        for w in List.range s.nStarted do
          match stepF s (.take w) with
          | some s' =>
            match consume inp dual r (emitted s s') with
            | some r' =>
              movedSilent := true
              let (v, b') := search inp dual total wantExit wantDeadlock s' r' b
              b := b'
              if v ≠ .rejected then return (v, b)
            | none => pure ()
          | none => pure ()
    | _ => pure ()
    for w in List.range s.nStarted do
      match s.workers w with
      | .running n =>
        if inp.noAct n then
          match stepF s (.done w) with
          | some s' =>
            match consume inp dual r (emitted s s') with
            | some r' =>
              movedSilent := true
              let (v, b') := search inp dual total wantExit wantDeadlock s' r' b
              b := b'
              if v ≠ .rejected then return (v, b)
            | none => pure ()
          | none => pure ()
      | _ => pure ()
    let _ := movedSilent
    -- 3. a worker move demanded by a next observed worker event (process runner: one candidate per worker)
    let mut moved := false
    for c in nextWorkerMoves dual r do
      match stepF s c with
      | some s' =>
        match consume inp dual r (emitted s s') with
        | some r' =>
          moved := true
          let (v, b') := search inp dual total wantExit wantDeadlock s' r' b
          b := b'
          if v ≠ .rejected then return (v, b)
        | none => pure ()
      | none => pure ()
    if moved then return (.rejected, b)
  -- 4. stuck: final verdict
  let m := total - remLen r
  if m ≥ b.matched then b := { b with matched := m, expected := mainExpected }
  if remLen r = 0 then
    if s.rpc = .halted then
      return (if exitCode s = wantExit && !wantDeadlock then .accepted else .rejected, b)
    else
      return (if wantDeadlock then .accepted else .rejected, b)
  return (.rejected, b)

/-- default schedule for `simulate`: main first, then lowest worker; stored set orders -/
partial def simulate (inp : RunInput) (s : Sys) (fuel : Nat) : Sys :=
  if fuel = 0 then s else
  let stepF := stepOf inp
  match (permCandidates s []).1.head? with
  | some perm =>
    match stepF s (.main perm) with
    | some s' => simulate inp s' (fuel - 1)
    | none =>
      let rec tryW (k : Nat) : Option Sys :=
        match k with
        | 0 => none
        | k + 1 => match stepF s (.take k) with
          | some s' => some s'
          | none => match stepF s (.done k) with
            | some s' => some s'
            | none => tryW k
      match tryW s.nStarted with
      | some s' => simulate inp s' (fuel - 1)
      | none => s
  | none => s

/-! ### hypotheses of the theorems, evaluated on the case -/

/-- every dependency of every kind (static and deliverable) points to a task with a smaller rank given by `rank` -/
def allStaticDeps (inp : RunInput) (t : Nat) : List Nat :=
  inp.taskDep t ++ inp.calcDep t ++ inp.setup t ++ (inp.calcRes t).calcs ++ (inp.calcResFail t).calcs

partial def reachesSelf (inp : RunInput) (n : Nat) (t : Nat) : Bool := Id.run do
  -- DFS over static + deliverable edges
  let succ (x : Nat) : List Nat :=
    inp.taskDep x ++ inp.calcDep x ++ inp.setup x ++
      ((inp.calcDep x).flatMap fun c => (inp.calcRes c).tasks ++ (inp.calcRes c).files ++ (inp.calcRes c).calcs ++
        (inp.calcResFail c).tasks ++ (inp.calcResFail c).files ++ (inp.calcResFail c).calcs)
  let mut seen : List Nat := []
  let mut todo := succ t
  let mut fuel := n * n + 10
  while fuel > 0 && !todo.isEmpty do
    fuel := fuel - 1
    match todo with
    | [] => pure ()
    | x :: rest =>
      todo := rest
      if x = t then return true
      if x ∉ seen then
        seen := x :: seen
        todo := succ x ++ todo
  return false

def handle (j : Json) : Json :=
  let inp := parseInput j
  let n := jnat j "n"
  match jstr j "op" with
  | "simulate" =>
    let s := simulate inp (init inp) 100000
    Json.mkObj [("trace", mkArr ((trace inp s).map evJson)), ("exit", toJson (exitCode s)),
                ("halted", Json.bool (s.rpc = .halted))]
  | _ =>
    match (jarr j "trace").mapM parseEv with
    | none => Driver.err "bad event in trace"
    | some tr =>
      let exit := jnat j "exit"
      let errS := (j.getObjValAs? String "err").toOption.getD ""
      let dual := inp.runner = .process
      let r : Rem := if dual then
          (tr.filter (fun e => !isWorkerEv e),
           (List.range (inp.numProc + 1)).map fun w => tr.filter fun e => isWorkerEv e && workerOf e == w)
        else (tr, [])
      let (v, b) := search inp dual tr.length exit (errS = "deadlock") (init inp) r {}
      let acyclic := (List.range n).all fun t => !reachesSelf inp n t
      let m1 := monC01Order inp n tr
      let m2 := monC01NoOverlap inp n tr
      let m3 := monC02AtMostOnce n tr
      let clo := closureOfF inp n tr       -- computed once: m4 = monC02InsideClosure, m5 = monC02AllProcessed (by `rfl`)
      let m4 := insideClosureOn clo n tr
      let m5 := allProcessedOn clo inp tr exit
      Json.mkObj [
        ("accepted", Json.bool (v = .accepted)),
        ("skipped", Json.bool (v = .budget || (v = .rejected && b.capped))),
        ("matched", toJson b.matched),
        ("expected", mkArr (b.expected.map fun es => mkArr (es.map evJson))),
        ("steps", toJson b.steps),
        ("permPoints", toJson b.perms),
        ("monitor", Json.mkObj [("C01_order", Json.bool m1), ("C01_no_overlap", Json.bool m2),
          ("C02_at_most_once", Json.bool m3), ("C02_inside_closure", Json.bool m4),
          ("C02_all_processed", Json.bool m5)]),
        ("hyp", Json.mkObj [("acyclic", Json.bool acyclic)]),
        ("closure", ofNats clo),
        ("complete", Json.bool (runComplete inp tr exit))]

end Driver.Run
