import Driver.Util
open Lean
namespace Driver.Run
/-- handler for requests with `"model": "run"` (stub: filled in when the model exists) -/
def handle (_ : Json) : Json := Driver.err "model not implemented"
end Driver.Run
