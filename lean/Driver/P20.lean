import Driver.Util
open Lean
namespace Driver.P20
/-- handler for requests with `"model": "c20"` (property-specific monitors / model queries of C20; stub until built) -/
def handle (_ : Json) : Json := Driver.err "model not implemented"
end Driver.P20
