import Driver.Util
import Driver.Status
import DoitModel.Model.Intro
open Lean DoitModel.Status DoitModel.Intro
namespace Driver.P20
/-! requests with `"model": "c20"`.

`{"model":"c20","mode":"model","ntasks":n,"npaths":n,"ops":[op…]}`: the ops of the status driver (model mode, see
`Driver/Status.lean`) plus `["probe", {"lists":[[t…]…], "infos":[t…]}]`.  A probe does not advance the state: it
answers what each read-only command would show and do *if issued at that point* --
`decision` (per task, `Intro.decision`), per list (print order) `shown` (`Intro.listRun`), `removes`
(`Intro.listRemoves`), `db` (after `Cmd.exec`); per info task `shown` (`Intro.infoShown`), `reasons`
(`Intro.infoPrinted`), `removes`, `db`, `ambiguous`.

`{"model":"c20","mode":"monitor","checks":[check…]}` evaluates the clauses of the property statement on what the
implementation was seen to do: `{"kind":"frame","ntasks":n,"before":[fp|null…],"after":[fp|null…],"ck":[bool…]}`
(`Intro.frameHolds`), `{"kind":"agree","shown":w,"ran":w}` (`Intro.agreeHolds`). -/

def shownStr : Shown → String
  | .ignore => "ignore"
  | .upToDate => "up-to-date"
  | .run => "run"
  | .error => "error"
  | .crash => "crash"

def parseShown (w : String) : Shown :=
  match w with
  | "ignore" => .ignore
  | "up-to-date" => .upToDate
  | "run" => .run
  | "error" => .error
  | _ => .crash

def utdKind : Utd → String
  | .const _ => "const"
  | .noneItem => "none"
  | .runOnce => "runOnce"
  | .configChanged _ => "cfg"
  | .resultDep _ => "res"
  | .shell _ => "shell"
  | .custom _ => "custom"

def sortedNats (l : List Nat) : Json := ofNats (Driver.Status.sortNats l.eraseDups)

def reasonsJ (x : Reasons) : Json :=
  Json.mkObj [
    ("noDeps", Json.bool x.noDeps),
    ("utdFalse", ofStrs ((x.utdFalse.map utdKind).toArray.qsort (· < ·)).toList),
    ("checkerChanged", match x.checkerChanged with
      | none => Json.null
      | some (a, b) => mkArr [Json.str (Driver.Status.ckStr a), Json.str (Driver.Status.ckStr b)]),
    ("missingTarget", sortedNats x.missingTarget),
    ("changed", sortedNats x.changed),
    ("missingDep", sortedNats x.missingDep),
    ("removed", sortedNats x.removed),
    ("added", sortedNats x.added)]

def dbJ (ntasks npaths : Nat) (s : St) : Json :=
  mkArr ((List.range ntasks).map fun t => Driver.Status.rcdJ npaths (s.rcd t))

def probeJ (ntasks npaths : Nat) (s : St) (spec : Json) : Json :=
  let lists := (jarr spec "lists").map fun l => (asArr l).map asNat
  let infos := jnats spec "infos"
  Json.mkObj [
    ("probe", Json.bool true),
    ("crashed", Json.bool s.crashed),
    ("decision", ofStrs ((List.range ntasks).map fun t => shownStr (decision s t))),
    ("lists", mkArr (lists.map fun ts =>
      let cmd := Cmd.list true ts
      Json.mkObj [("shown", ofStrs ((listRun s ts).map shownStr)),
                  ("removes", ofNats (cmd.removes s)),
                  ("ambiguous", Json.bool (ts.any fun t => Driver.Status.ambiguousAt s t)),
                  ("db", dbJ ntasks npaths (cmd.exec s))])),
    ("infos", mkArr (infos.map fun t =>
      let cmd := Cmd.info t false
      Json.mkObj [("t", toJson t), ("shown", Json.str (shownStr (infoShown s t))),
                  ("reasons", reasonsJ (infoPrinted s t)),
                  ("removes", ofNats (cmd.removes s)),
                  ("ambiguous", Json.bool (Driver.Status.ambiguousAt s t)),
                  ("db", dbJ ntasks npaths (cmd.exec s))])),
    ("opensDb", Json.mkObj [
      ("list -s", Json.bool (Cmd.list true []).opensDb), ("list", Json.bool (Cmd.list false []).opensDb),
      ("info", Json.bool (Cmd.info 0 false).opensDb), ("info --no-status", Json.bool (Cmd.info 0 true).opensDb),
      ("clean", Json.bool (Cmd.clean true false []).opensDb), ("help", Json.bool Cmd.help.opensDb),
      ("dumpdb", Json.bool Cmd.dumpdb.opensDb), ("tabcompletion", Json.bool Cmd.tabcompletion.opensDb)]),
    ("cleanDry", Json.mkObj [
      ("removes", ofNats ((Cmd.clean true true (List.range ntasks)).removes s)),
      ("db", dbJ ntasks npaths ((Cmd.clean true true (List.range ntasks)).exec s))])]

def optFp (j : Json) : Option Nat := (j.getNat?).toOption

def checkJ (j : Json) : Json :=
  match jstr j "kind" with
  | "frame" =>
    let before := (jarr j "before").map optFp
    let after := (jarr j "after").map optFp
    let ck := (jarr j "ck").map Driver.Status.asBool
    Json.mkObj [("holds", Json.bool (frameHolds (jnat j "ntasks")
      (fun t => (before[t]?).getD none) (fun t => (after[t]?).getD none) (fun t => (ck[t]?).getD false)))]
  | "agree" =>
    Json.mkObj [("holds", Json.bool (agreeHolds (parseShown (jstr j "shown")) (parseShown (jstr j "ran"))))]
  | k => Driver.err s!"unknown check {k}"

def isProbe (j : Json) : Bool :=
  match asArr j with
  | [tag, _] => asStr tag = "probe"
  | _ => false

def handle (j : Json) : Json :=
  if jstr j "mode" = "monitor" then
    Json.mkObj [("checks", mkArr ((jarr j "checks").map checkJ))]
  else
    let ntasks := jnat j "ntasks"
    let npaths := jnat j "npaths"
    let (_, outs) := (jarr j "ops").foldl (fun (acc : St × List Json) op =>
      if isProbe op then
        (acc.1, probeJ ntasks npaths acc.1 ((asArr op).getD 1 Json.null) :: acc.2)
      else
        match Driver.Status.parseEv op with
        | some (.op o) =>
          let (s', out) := Driver.Status.modelStep true ntasks npaths acc.1 o
          (s', out :: acc.2)
        | some (.ignskip _) =>
          let (s', out) := Driver.Status.modelStep true ntasks npaths acc.1 (.switchChecker acc.1.checker)
          (s', out :: acc.2)
        | _ => (acc.1, Driver.err "bad op" :: acc.2)) (St.init, [])
    Json.mkObj [("steps", mkArr outs.reverse)]

end Driver.P20
