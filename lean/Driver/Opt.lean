import Driver.Util
open Lean
namespace Driver.Opt
/-- handler for requests with `"model": "opt"` (stub: filled in when the model exists) -/
def handle (_ : Json) : Json := Driver.err "model not implemented"
end Driver.Opt
