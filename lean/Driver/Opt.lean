import Driver.Util
import DoitModel.Model.Opt
import DoitModel.Model.OptCfg
open Lean DoitModel.Opt
namespace Driver.Opt
/-! requests with `"model":"opt"`:

  `ini_layers` / `glob_layers`: [[[key,CFG]..]..] the section in extra_config, pyproject.toml, doit.cfg (merged per key)
  common fields  `spec`: [{"name","type":"bool|int|str|list","default":VAL,"short":"x"|"","long","inverse","choices":[VAL],"env_var":str|null}]
                 `env`: [[name,value]]   `ini`, `glob`: [[key, {"raw":str} | {"val":VAL}]] (command/task section, GLOBAL section)   `dodo`: [[key, VAL]]   `argv`: [str]
                 VAL = null | bool | int | str | [str]
  `op`:
   * "parse"    -> parse twice with the same parser object (state threaded): {"wf","res","res2","defaults","defaults2"}
                   ("pinned": true uses the pre-fix list `append`)
   * "pipeline" -> overwrite_defaults(ini) ; parse ; update_defaults(dodo): {"wf","res","exit"}
                   ("exit": what DoitMain.run returns / does: 0, 3, or 1 = uncaught exception with "pinned": true)
   * "prepipeline" -> loader options before the command name ("lspec", "pre") applied as `opt_vals`:
                   {"wf","pre_ok","setup" (params at loader.setup),"res" (after DOIT_CONFIG),"optvals","exit"}
   * "spec"     -> `asgs` (structured assignments), `sep` (bool), `pos`: the argv `render` builds, whether the
                   hypotheses of the round-trip theorem hold, and the value the *specification* gives every option:
                   {"argv","hyp_ok","wf","expect": {"err":true} | {"vals":[[name,VAL]],"pos":[...]}}
   * "wf"       -> {"wf","prefix_free","short":[..],"long":[..]}
  result: {"ok":{"vals":[[name,VAL|"<missing>"]],"nd":[name],"pos":[str]}} | {"err":kind} -/

def s2l (s : String) : Str := s.toList
def l2s (l : Str) : String := String.ofList l

def valOf : Json → Option Val
  | .null => some .none
  | .bool b => some (.b b)
  | .str s => some (.s (s2l s))
  | .arr a => some (.l (a.toList.map fun x => s2l (asStr x)))
  | j => (j.getInt?).toOption.map Val.i

def valJson : Val → Json
  | .none => Json.null
  | .b x => Json.bool x
  | .i x => toJson x
  | .s x => Json.str (l2s x)
  | .l xs => mkArr (xs.map fun x => Json.str (l2s x))

def tyOf : String → Option Ty
  | "bool" => some .bool | "int" => some .int | "str" => some .str | "list" => some .list | _ => none

def optOf (j : Json) : Option Opt := do
  let ty ← tyOf (jstr j "type")
  let d ← valOf (jobj j "default")
  let sh := s2l (jstr j "short")
  let short ← match sh with
    | [] => some none
    | [c] => some (some c)
    | _ => none
  let choices ← (jarr j "choices").mapM valOf
  let ev := match jobj j "env_var" with
    | .str s => if s = "" then none else some (s2l s)
    | _ => none
  pure { name := s2l (jstr j "name"), ty := ty, default := d, short := short, long := s2l (jstr j "long"),
         inverse := s2l (jstr j "inverse"), choices := choices, envVar := ev }

def envOfJson (j : Json) : Str → Option Str :=
  let tbl : List (Str × Str) := (jarr j "env").map fun kv =>
    match asArr kv with
    | [k, v] => (s2l (asStr k), s2l (asStr v))
    | _ => ([], [])
  fun k => DoitModel.alookup k tbl

def cfgOf (j : Json) : Option CfgVal :=
  if jhas j "raw" then some (.raw (s2l (jstr j "raw")))
  else (valOf (jobj j "val")).map CfgVal.typed

def iniOf (j : Json) (field : String) : Option (List (Str × CfgVal)) :=
  (jarr j field).mapM fun kv =>
    match asArr kv with
    | [k, v] => (cfgOf v).map fun c => (s2l (asStr k), c)
    | _ => none

/-- `field` (one section) or, when present, `field ++ "_layers"`: the same section in extra_config / pyproject.toml /
    doit.cfg, merged per key -/
def layeredOf (j : Json) (field : String) : Option (List (Str × CfgVal)) :=
  if jhas j (field ++ "_layers") then
    ((jarr j (field ++ "_layers")).mapM fun layer =>
      (asArr layer).mapM fun kv =>
        match asArr kv with
        | [k, v] => (cfgOf v).map fun c => (s2l (asStr k), c)
        | _ => none).map mergeLayers
  else iniOf j field

def dodoOf (j : Json) : Option (List (Str × Val)) :=
  (jarr j "dodo").mapM fun kv =>
    match asArr kv with
    | [k, v] => (valOf v).map fun c => (s2l (asStr k), c)
    | _ => none

def errName : Err → String
  | .unknownShort => "unknown" | .unknownLong => "unknown" | .ambiguous => "ambiguous"
  | .needsArg => "needs-arg" | .noArg => "no-arg" | .badInt => "bad-value" | .badBool => "bad-value"
  | .badChoice => "bad-choice" | .crash => "crash"

def dedup (xs : List Str) : List Str := xs.foldl (fun acc x => if x ∈ acc then acc else acc ++ [x]) []

def resJson (names : List Str) : Except Err (Params × List Str) → Json
  | .error e => Json.mkObj [("err", Json.str (errName e))]
  | .ok (p, pos) =>
    Json.mkObj [("ok", Json.mkObj [
      ("vals", mkArr (names.map fun n => mkArr [Json.str (l2s n),
          match p.vals n with | some v => valJson v | none => Json.str "<missing>"])),
      ("nd", mkArr ((names.filter p.nd).map fun n => Json.str (l2s n))),
      ("pos", mkArr (pos.map fun x => Json.str (l2s x)))])]

def asgOf (j : Json) : Option Asg :=
  match asArr j with
  | [t, a] =>
    match asStr t with
    | "flags" => some (.flags (s2l (asStr a)))
    | "lFlag" => some (.lFlag (s2l (asStr a)))
    | _ => none
  | [t, a, b] =>
    match asStr t with
    | "lEq" => some (.lEq (s2l (asStr a)) (s2l (asStr b)))
    | "lDet" => some (.lDet (s2l (asStr a)) (s2l (asStr b)))
    | _ => none
  | [t, a, b, c] =>
    match s2l (asStr b) with
    | [ch] =>
      match asStr t with
      | "sAtt" => some (.sAtt (s2l (asStr a)) ch (s2l (asStr c)))
      | "sDet" => some (.sDet (s2l (asStr a)) ch (s2l (asStr c)))
      | _ => none
    | _ => none
  | _ => none

def defaultsJson (st : PState) : Json := mkArr (st.map fun o => valJson o.default)

def exceptAll (spec : List Opt) (f : Opt → Except Err Val) : Option (List (Str × Val)) :=
  spec.mapM fun o => match f o with | .ok v => some (o.name, v) | .error _ => none

/-! wave 5 ops (no `spec` field):
   * "winner"   -> `opt`: OPT, `occ`: [[inverse?,text]], `envv`: str|null, `dodo`: [[k,VAL]],
                   `gApi`,`gToml`,`gCfg`,`sApi`,`sToml`,`sCfg`: [[k,CFG]]:
                   {"winner": layer name, "value": {"ok":VAL}|{"err":kind}, "merged": {"ok":VAL}|{"err":kind}|null}
                   ("merged": str2typeCfg of the key looked up in `sixLayers`, what overwrite_defaults converts)
   * "plugpick" -> `cat`: reporter|backend|loader, `where`: cmdline|config|dodo, `core`: [name],
                   `layers`: [[[name,location]]] (extra_config, pyproject.toml, doit.cfg), `name`, optional `mods`:
                   {"pick": cls|error|traceback3|escapes, "cls": ["core",n]|["plugin",loc]|null, "accepts": bool,
                    "section": [[name,loc]]}
   * "cfgtext"  -> `opt`, `text`: {"cfg": RES, "cmd": RES, "env": RES}   RES = {"ok":VAL}|{"err":kind} -/

def layerName : Layer → String
  | .cmdline => "cmdline" | .environ => "environ" | .dodoCfg => "dodoCfg"
  | .secCfg => "secCfg" | .secToml => "secToml" | .secApi => "secApi"
  | .globCfg => "globCfg" | .globToml => "globToml" | .globApi => "globApi" | .declared => "declared"

def valRes : Except Err Val → Json
  | .ok v => Json.mkObj [("ok", valJson v)]
  | .error e => Json.mkObj [("err", Json.str (errName e))]

def pairsOf (j : Json) (field : String) : List (Str × Str) :=
  (jarr j field).map fun kv => match asArr kv with
    | [k, v] => (s2l (asStr k), s2l (asStr v))
    | _ => ([], [])

def handleCfg (j : Json) : Option Json :=
  match jstr j "op" with
  | "winner" =>
    some <| match optOf (jobj j "opt"), iniOf j "gApi", iniOf j "gToml", iniOf j "gCfg", iniOf j "sApi",
          iniOf j "sToml", iniOf j "sCfg", dodoOf j with
    | some o, some gA, some gT, some gC, some sA, some sT, some sC, some dodo =>
      let occ : List (Bool × Str) := (jarr j "occ").map fun x => match asArr x with
        | [i, t] => ((i.getBool?).toOption.getD false, s2l (asStr t))
        | _ => (false, [])
      let envv : Option Str := match jobj j "envv" with | .str s => some (s2l s) | _ => none
      let k := keyIn o.name occ envv dodo gA gT gC sA sT sC
      Json.mkObj [("winner", Json.str (layerName (winner k))), ("value", valRes (layerValue o k (winner k))),
                  ("merged", match DoitModel.alookup o.name (sixLayers gA gT gC sA sT sC) with
                             | some c => valRes (str2typeCfg o c) | none => Json.null)]
    | _, _, _, _, _, _, _, _ => Driver.err "bad winner request"
  | "plugpick" =>
    let cat := match jstr j "cat" with | "reporter" => Category.reporter | "backend" => .backend | _ => .loader
    let w := match jstr j "where" with | "cmdline" => Where.cmdline | "config" => .config | _ => .dodo
    let core := (jstrs j "core").map s2l
    let layers : List (List (Str × Str)) := (jarr j "layers").map fun l =>
      (asArr l).map fun kv => match asArr kv with
        | [k, v] => (s2l (asStr k), s2l (asStr v))
        | _ => ([], [])
    let sect := addPlugins (pluginSection layers) []
    let name := s2l (jstr j "name")
    -- "mods": [[module,[attr]]] the importable modules: loading is part of the answer (`pickLoaded`)
    let mods : List (Str × List Str) := (jarr j "mods").map fun m => match asArr m with
      | [k, v] => (s2l (asStr k), (asArr v).map fun a => s2l (asStr a))
      | _ => ([], [])
    let pk := if jhas j "mods" then pickLoaded cat w core sect mods name else pick cat w (nameTable core sect) name
    some <| Json.mkObj [
      ("pick", Json.str (match pk with | .cls _ => "cls" | .errorMsg => "error" | .traceback3 => "traceback3" | .escapes => "escapes")),
      ("cls", match pk with
              | .cls (.core n) => mkArr [Json.str "core", Json.str (l2s n)]
              | .cls (.plugin l) => mkArr [Json.str "plugin", Json.str (l2s l)]
              | _ => Json.null),
      ("accepts", Json.bool (acceptsName core sect name)),
      ("all_load", Json.bool (allLoad mods sect)),
      ("section", mkArr (sect.map fun kv => mkArr [Json.str (l2s kv.1), Json.str (l2s kv.2)]))]
  | "plugcmd" =>
    -- `core`: [name], `layers`, `mods` as for plugpick, `args`: the words -> {"cmd","rest","pick","cls"}
    let core := (jstrs j "core").map s2l
    let layers : List (List (Str × Str)) := (jarr j "layers").map fun l =>
      (asArr l).map fun kv => match asArr kv with
        | [k, v] => (s2l (asStr k), s2l (asStr v))
        | _ => ([], [])
    let sect := addPlugins (pluginSection layers) []
    let mods : List (Str × List Str) := (jarr j "mods").map fun m => match asArr m with
      | [k, v] => (s2l (asStr k), (asArr v).map fun a => s2l (asStr a))
      | _ => ([], [])
    let args := (jstrs j "args").map s2l
    let sc := subCommand (nameTable core sect) args
    let pk := commandPick core sect mods args
    some <| Json.mkObj [
      ("cmd", Json.str (l2s sc.1)), ("rest", mkArr (sc.2.map fun x => Json.str (l2s x))),
      ("pick", Json.str (match pk with | .cls _ => "cls" | .errorMsg => "error" | .traceback3 => "traceback3" | .escapes => "escapes")),
      ("cls", match pk with
              | .cls (.core n) => mkArr [Json.str "core", Json.str (l2s n)]
              | .cls (.plugin l) => mkArr [Json.str "plugin", Json.str (l2s l)]
              | _ => Json.null)]
  | "cfgtext" =>
    some <| match optOf (jobj j "opt") with
    | some o =>
      let t := s2l (jstr j "text")
      Json.mkObj [("cfg", valRes (cfgText o t)), ("cmd", valRes (cmdText o t)), ("env", valRes (str2type o t))]
    | none => Driver.err "bad opt"
  | _ => none

def handle (j : Json) : Json :=
  match handleCfg j with
  | some r => r
  | none =>
  match (jarr j "spec").mapM optOf, layeredOf j "ini", layeredOf j "glob", dodoOf j with
  | some spec, some sec, some glob, some dodo =>
    let ini := mergeCfg glob sec
    let env := envOfJson j
    let argvRaw := (jstrs j "argv").map s2l
    -- "strip": the words pass DoitMain.process_args first (name=value words removed; '' crashes)
    let stripped := if jbool j "strip" then stripVars argvRaw else .ok argvRaw
    let argv := match stripped with | .ok a => a | .error _ => argvRaw
    if !stripped.toBool then
      Json.mkObj [("wf", Json.bool (WF spec)), ("pre_ok", Json.bool true),
                  ("res", Json.mkObj [("err", Json.str "crash")]), ("setup", Json.mkObj [("err", Json.str "crash")]),
                  ("exit", toJson (1 : Nat))]
    else
    let names := dedup (spec.map (·.name) ++ dodo.map (·.1))
    let wf := Json.bool (WF spec)
    match jstr j "op" with
    | "parse" =>
      let pinned := jbool j "pinned"
      let r1 := parse pinned spec env argv
      let r2 := parse pinned r1.1 env argv
      Json.mkObj [("wf", wf), ("res", resJson names r1.2), ("res2", resJson names r2.2),
                  ("defaults", defaultsJson r1.1), ("defaults2", defaultsJson r2.1)]
    | "pipeline" =>
      if jhas j "late" then
        -- "late": options whose choices are attached after overwrite_defaults (`backend`), validated afterwards
        let r := pipelineLate (jbool j "pinned") spec ((jstrs j "late").map s2l) ini dodo env argv
        Json.mkObj [("wf", wf), ("res", resJson names r),
                    ("exit", toJson (match r with | .ok _ => (0 : Nat) | .error _ => 3))]
      else
      Json.mkObj [("wf", wf), ("res", resJson names (pipeline spec ini dodo env argv)),
                  ("exit", toJson (runMain (jbool j "pinned") spec ini dodo env argv).kind)]
    | "prepipeline" =>
      -- "lspec": the loader's own option table, "pre": the tokens in front of the command name
      match (jarr j "lspec").mapM optOf with
      | none => Driver.err "bad lspec"
      | some lspec =>
        match optVals lspec ((jstrs j "pre").map s2l) with
        | none => Json.mkObj [("wf", wf), ("pre_ok", Json.bool false)]
        | some ov =>
          let r := pipelinePre spec ov ini dodo env argv
          let setup : Except Err (Params × List Str) := r.map fun x => (x.1, x.2.2)
          let final : Except Err (Params × List Str) := r.map fun x => (x.2.1, x.2.2)
          Json.mkObj [("wf", wf), ("pre_ok", Json.bool true), ("setup", resJson names setup),
                      ("res", resJson names final),
                      ("optvals", mkArr (ov.map fun kv => mkArr [Json.str (l2s kv.1), valJson kv.2])),
                      ("exit", toJson (match r with | .ok _ => (0 : Nat) | .error _ => 3))]
    | "spec" =>
      match (jarr j "asgs").mapM asgOf with
      | none => Driver.err "bad asg"
      | some xs =>
        let pos := (jstrs j "pos").map s2l
        let sep := jbool j "sep"
        let argv := renderAll xs ++ (if sep then ['-', '-'] :: pos else pos)
        let sT := shortTable spec
        let lT := longTable spec
        let hyp := xs.all (Asg.ok sT lT) && (sep || PosOk pos)
        let ps := pairsAll xs
        let expect :=
          if allConvert spec ini env ps then
            match exceptAll spec (specOf spec ini dodo env ps) with
            | some vals => Json.mkObj [("vals", mkArr (vals.map fun nv => mkArr [Json.str (l2s nv.1), valJson nv.2])),
                                       ("pos", mkArr (pos.map fun x => Json.str (l2s x)))]
            | none => Json.mkObj [("err", Json.bool true)]
          else Json.mkObj [("err", Json.bool true)]
        Json.mkObj [("wf", wf), ("hyp_ok", Json.bool hyp), ("argv", mkArr (argv.map fun x => Json.str (l2s x))),
                    ("expect", expect)]
    | "wf" =>
      Json.mkObj [("wf", wf), ("prefix_free", Json.bool (PrefixFree spec)),
                  ("short", mkArr ((shortNames spec).map fun c => Json.str (String.singleton c))),
                  ("long", mkArr ((longNames spec).map fun n => Json.str (l2s n)))]
    | _ => Driver.err "bad op"
  | _, _, _, _ => Driver.err "bad spec/ini/dodo"

end Driver.Opt
