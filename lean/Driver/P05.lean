import Driver.Util
open Lean
namespace Driver.P05
/-- handler for requests with `"model": "c05"` (property-specific monitors / model queries of C05; stub until built) -/
def handle (_ : Json) : Json := Driver.err "model not implemented"
end Driver.P05
