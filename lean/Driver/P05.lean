import Driver.Util
import Driver.Run
import DoitModel.Model.RunFail
open Lean DoitModel.Run
namespace Driver.P05
/-! Handler for `{"model":"c05", …}`: same request as `{"model":"run","op":"accept"}` (task table, oracle, observed trace,
exit code) plus `"recorded"`: for each task whether the dependency DB holds a success record for it after the run.
Answers whether the model can produce the trace (the acceptor of `Driver/Run.lean`) and evaluates the C05 monitors of
`Model/RunFail.lean` on the IMPLEMENTATION's trace; with `"truthTrace"` (sent only when it differs from the trace: some
task whose action the harness KNOWS to have failed was reported successful) the same monitors on that trace too. -/

def handle (j : Json) : Json :=
  let inp := Driver.Run.parseInput j
  let n := jnat j "n"
  match (jarr j "trace").mapM Driver.Run.parseEv with
  | none => Driver.err "bad event in trace"
  | some tr =>
    let exit := jnat j "exit"
    let errS := (j.getObjValAs? String "err").toOption.getD ""
    let dual := inp.runner = .process
    let r : Driver.Run.Rem := if dual then
        (tr.filter (fun e => !Driver.Run.isWorkerEv e),
         (List.range (inp.numProc + 1)).map fun w => tr.filter fun e => Driver.Run.isWorkerEv e && Driver.Run.workerOf e == w)
      else (tr, [])
    let (v, b) := Driver.Run.search inp dual tr.length exit (errS = "deadlock") (init inp) r {}
    let recorded := Driver.Run.boolsOf j "recorded" false
    let hasRec := jhas j "recorded"
    let failed := (List.range n).filter (failedIn tr)
    -- optional: the same statements on the "ground truth" trace (a `success` report of a task whose action is known
    -- to have failed replaced by the failure report it should have been): what happened, not what was reported
    let truth : Option (List Ev) := if jhas j "truthTrace" then (jarr j "truthTrace").mapM Driver.Run.parseEv else none
    let truthMon : List (String × Json) := match truth with
      | some tt => [("monitor_truth", Json.mkObj [
          ("C05_truth_no_dependent_runs", Json.bool (monC05NoDependentRuns inp n tt)),
          ("C05_truth_serial_stops", Json.bool (monC05SerialStops inp tt)),
          ("C05_truth_not_recorded", Json.bool (!hasRec || monC05NotRecorded n tt recorded))])]
      | none => []
    Json.mkObj (truthMon ++ [
      ("accepted", Json.bool (v = .accepted)),
      ("skipped", Json.bool (v = .budget || (v = .rejected && b.capped))),
      ("matched", toJson b.matched),
      ("expected", mkArr (b.expected.map fun es => mkArr (es.map Driver.Run.evJson))),
      ("monitor", Json.mkObj [
        ("C05_no_dependent_runs", Json.bool (monC05NoDependentRuns inp n tr)),
        ("C05_serial_stops", Json.bool (monC05SerialStops inp tr)),
        ("C05_continue_complete", Json.bool (monC05ContinueComplete inp n tr exit)),
        ("C05_not_recorded", Json.bool (!hasRec || monC05NotRecorded n tr recorded))]),
      ("failed", ofNats failed),
      ("dependents", mkArr (failed.map fun d =>
          ofNats ((List.range n).filter fun t => d ∈ depClosure inp n tr t))),
      ("closure", ofNats (closureOf inp n tr))])

end Driver.P05
