import Driver.Util
import DoitModel.Model.Act
open Lean DoitModel.Act
namespace Driver.Act
/-! requests with `"model":"act"`:

* `{"op":"py","kwargsRaise":b,"ret":RET}`                       -> ARES
* `{"op":"cmd","expandRaises":b,"cap":"yes|no|devnull","saveOut":k|null,"rc":int,"out":s,"err":s}` -> ARES
* `{"op":"task","actions":[{"op":"py",...}|{"op":"cmd",...}|{"op":"ares","outcome":..,"result":RES,"values":VALS}]}`
      -> `{"outcome","result","values","ran","ares":[ARES per action]}`
* `{"op":"route","v":0|1|2|null,"kind":"py|cmd","cap":"yes|no|devnull"}`
      -> `{"live":[out?,err?],"out":ROUTE,"err":ROUTE}`
* `{"op":"stream","forest":[ITEM…]}` or `{"op":"stream","evs":[["save",a],["set",a],["write",a,n],["restore",a],["read",a]],"pinned":b}`
      with ITEM = `["w",n]` | `["x",b,[ITEM…]]` | `["k",b]` (an execution whose `_prepare_kwargs` raises)
      -> `{"evs":[…],"nodup":b,"progOrder":b,"cell":"orig"|["writer",a],"unbound":b,"origLog":[TOK…],
          "out":{"a":[TOK…]|null},"spec":{"a":[TOK…]}}`     (TOK = `[author,n]`)

RET = `{"kind":"true|false|none|str|dict|taskfailed|taskerror|other|raises|raisesbase","s":str,"d":VALS}`;
VALS = `[[key, VAL]…]`, VAL = `null | n | "text"`; values are printed as sorted `[[key, VAL]]` of the dict view;
RES = `null | "str" | {"dict":VALS}`. -/

def strOf (cs : List Char) : String := String.ofList cs

def parseVal (j : Json) : Val :=
  match j with
  | .null => .none
  | .str s => .text s.toList
  | j => .nat (asNat j)

def parseVals (j : Json) : Vals :=
  (asArr j).map fun p => match asArr p with
    | [k, v] => (asNat k, parseVal v)
    | _ => (0, .none)

def valJson : Val → Json
  | .none => Json.null
  | .nat n => toJson n
  | .text s => Json.str (strOf s)

/-- the dict view: distinct keys in increasing order, each with its looked-up value -/
def valsJson (vs : Vals) : Json :=
  let keys := (vs.map (·.1)).eraseDups.toArray.qsort (· < ·) |>.toList
  mkArr (keys.map fun k => mkArr [toJson k, valJson ((Vals.get vs k).getD .none)])

def resJson : Res → Json
  | .none => Json.null
  | .str s => Json.str (strOf s)
  | .dict d => Json.mkObj [("dict", valsJson d)]

def parseRes (j : Json) : Res :=
  match j with
  | .null => .none
  | .str s => .str s.toList
  | j => .dict (parseVals (jobj j "dict"))

def outcomeStr : Outcome → String
  | .ok => "ok" | .failed => "failed" | .error => "error" | .raised => "raised"

def parseOutcome : String → Outcome
  | "ok" => .ok | "failed" => .failed | "error" => .error | _ => .raised

def aresJson (a : ARes) : Json :=
  Json.mkObj [("outcome", Json.str (outcomeStr a.outcome)), ("result", resJson a.result),
              ("values", valsJson a.values)]

def parseRet (j : Json) : Option PyRet :=
  match jstr j "kind" with
  | "true" => some .rTrue | "false" => some .rFalse | "none" => some .rNone
  | "str" => some (.rStr (jstr j "s").toList)
  | "dict" => some (.rDict (parseVals (jobj j "d")))
  | "taskfailed" => some .rTaskFailed | "taskerror" => some .rTaskError | "other" => some .rOther
  | "raises" => some .raisesExc | "raisesbase" => some .raisesBase
  | _ => none

def parseCap : String → Option Cap
  | "yes" => some .yes | "no" => some .no | "devnull" => some .devnull | _ => none

def parseStreamOp : String → Option StreamOp
  | "write" => some .write | "print" => some .print | "flush" => some .flush | "isatty" => some .isatty
  | "fileno" => some .fileno | "writelines" => some .writelines | "buffer" => some .bufferWrite
  | "encoding" | "errors" | "reconfigure" | "attr" => some .attr
  | _ => none

/-- `"ops"` (optional, with `"capture"` and `"liveFd"`): the stream operations of the callable's body -/
def bodyOps (j : Json) : Option (List StreamOp) := (jstrs j "ops").mapM parseStreamOp

def actionRes (j : Json) : Option ARes :=
  match jstr j "op" with
  | "py" =>
    match parseRet (jobj j "ret"), bodyOps j with
    | some r, some ops =>
      if jbool j "interactive" then
        -- tools.PythonInteractiveAction: no Writer, the callable sees the caller's stream (capture = false)
        some (pyInteractiveExec (jbool j "kwargsRaise") (pyBody false (jbool j "liveFd") ops r))
      else some (pyExec (jbool j "kwargsRaise") (pyBody (jbool j "capture") (jbool j "liveFd") ops r))
    | _, _ => none
  | "tool" =>
    match jstr j "cls" with
    | "LongRunning" => some (longRunningExec (jbool j "expandRaises") (jbool j "interrupt") (jint j "rc"))
    | "Interactive" => some (interactiveExec (jbool j "expandRaises") (jbool j "interrupt") (jint j "rc"))
    | _ => none
  | "cmd" =>
    (parseCap (jstr j "cap")).map fun cap =>
      let so : Option Nat := match jobj j "saveOut" with | .null => none | x => some (asNat x)
      cmdExec (jbool j "expandRaises") cap so (jint j "rc") (jstr j "out").toList (jstr j "err").toList
  | "ares" => some ⟨parseOutcome (jstr j "outcome"), parseRes (jobj j "result"), parseVals (jobj j "values")⟩
  | _ => none

def routeJson (r : Route) : Json :=
  Json.mkObj [("captured", Json.bool r.captured), ("shown", Json.bool r.shown), ("inherited", Json.bool r.inherited)]

/-! ### stream machine -/

instance : Inhabited Forest := ⟨.nil⟩
instance : Inhabited Fwd.Forest := ⟨.nil⟩

partial def parseForest (items : List Json) : Forest :=
  match items with
  | [] => .nil
  | it :: rest =>
    match asArr it with
    | [tag, n] =>
      if asStr tag = "w" then .write (asNat n) (parseForest rest)
      else if asStr tag = "k" then .kw (asNat n) (parseForest rest)
      else parseForest rest
    | [tag, b, body] =>
      if asStr tag = "x" then .exec (asNat b) (parseForest (asArr body)) (parseForest rest)
      else parseForest rest
    | _ => parseForest rest

def parseEv (j : Json) : Option Ev :=
  match asArr j with
  | [tag, a] =>
    match asStr tag with
    | "save" => some (.save (asNat a)) | "set" => some (.set (asNat a))
    | "restore" => some (.restore (asNat a)) | "read" => some (.read (asNat a))
    | _ => none
  | [tag, a, n] => if asStr tag = "write" then some (.write (asNat a) (asNat n)) else none
  | _ => none

def evJson : Ev → Json
  | .save a => mkArr [Json.str "save", toJson a]
  | .set a => mkArr [Json.str "set", toJson a]
  | .write a n => mkArr [Json.str "write", toJson a, toJson n]
  | .restore a => mkArr [Json.str "restore", toJson a]
  | .read a => mkArr [Json.str "read", toJson a]

def tokJson (t : Tok) : Json := mkArr [toJson t.1, toJson t.2]
def toksJson (ts : List Tok) : Json := mkArr (ts.map tokJson)

def streamJson : Stream → Json
  | .orig => Json.str "orig"
  | .writer a => mkArr [Json.str "writer", toJson a]

def authors (evs : List Ev) : List Act :=
  (evs.map fun | .save a => a | .set a => a | .write a _ => a | .restore a => a | .read a => a).eraseDups

def streamAnswer (evs : List Ev) : Json :=
  let s := run St.init evs
  let as := authors evs
  Json.mkObj [
    ("evs", mkArr (evs.map evJson)),
    ("nodup", Json.bool (decide (started evs).Nodup)),
    ("progOrder", Json.bool (progOrder (fun _ => 0) evs)),
    ("cell", streamJson s.cell),
    ("unbound", Json.bool s.unbound),
    ("origLog", toksJson s.origLog),
    ("out", Json.mkObj (as.map fun a => (toString a, match s.out a with | none => Json.null | some l => toksJson l))),
    ("spec", Json.mkObj (as.map fun a => (toString a, toksJson (writesOf a evs))))]

/-! ### stream machine with the live copy (`Fwd`): `{"op":"streamfwd","forest":[ITEM…]}` with
    ITEM = `["w",n]` | `["x",b,on,[ITEM…]]` | `["k",b]` -> `{"cell":"orig"|"other","unbound":b,"nodup":b,
    "allOff":b,"origLog":[TOK…],"out":{"a":[TOK…]|null},"spec":{"a":[TOK…]}}` -/

partial def parseFwdForest (items : List Json) : Fwd.Forest :=
  match items with
  | [] => .nil
  | it :: rest =>
    match asArr it with
    | [tag, n] =>
      if asStr tag = "w" then .write (asNat n) (parseFwdForest rest)
      else if asStr tag = "k" then .kw (asNat n) (parseFwdForest rest)
      else parseFwdForest rest
    | [tag, b, on, body] =>
      if asStr tag = "x" then
        .exec (asNat b) ((on.getBool?).toOption.getD false) (parseFwdForest (asArr body)) (parseFwdForest rest)
      else parseFwdForest rest
    | _ => parseFwdForest rest

def fwdAuthors (evs : List Fwd.Ev) : List Act :=
  (evs.filterMap fun | .save a => some a | _ => none).eraseDups

def fwdAnswer (evs : List Fwd.Ev) : Json :=
  let s := Fwd.run Fwd.St.init evs
  let as := fwdAuthors evs
  Json.mkObj [
    ("cell", Json.str (if s.cell == .orig then "orig" else "other")),
    ("unbound", Json.bool s.unbound),
    ("nodup", Json.bool (decide (Fwd.started evs).Nodup)),
    ("allOff", Json.bool (Fwd.allOff evs)),
    ("nsteps", toJson evs.length),
    ("origLog", toksJson s.origLog),
    ("out", Json.mkObj (as.map fun a => (toString a, match s.out a with | none => Json.null | some l => toksJson l))),
    ("spec", Json.mkObj (as.map fun a => (toString a, toksJson (Fwd.writesOf a evs))))]


/-! ### stream machine with `io.capture` per execution (`Mode`): `{"op":"streammode","forest":[ITEM…]}` with
    ITEM = `["w",n]` | `["x",b,on,cap,[ITEM…]]` | `["k",b]` -> `{"cell":"orig"|"other","unbound":b,"nodup":b,
    "nsteps":n,"origLog":[TOK…],"out":{"a":[TOK…]|null},"spec":{"a":[TOK…]}}` -/

instance : Inhabited Mode.Forest := ⟨.nil⟩

partial def parseModeForest (items : List Json) : Mode.Forest :=
  match items with
  | [] => .nil
  | it :: rest =>
    match asArr it with
    | [tag, n] =>
      if asStr tag = "w" then .write (asNat n) (parseModeForest rest)
      else if asStr tag = "k" then .kw (asNat n) (parseModeForest rest)
      else parseModeForest rest
    | [tag, b, on, cap, body] =>
      if asStr tag = "x" then
        .exec (asNat b) ((on.getBool?).toOption.getD false) ((cap.getBool?).toOption.getD true)
          (parseModeForest (asArr body)) (parseModeForest rest)
      else parseModeForest rest
    | _ => parseModeForest rest

def modeAnswer (evs : List Mode.Ev) : Json :=
  let s := Mode.run Fwd.St.init evs
  let as := Mode.started evs
  Json.mkObj [
    ("cell", Json.str (if s.cell == .orig then "orig" else "other")),
    ("unbound", Json.bool s.unbound),
    ("nodup", Json.bool (decide (Mode.started evs).Nodup)),
    ("nsteps", toJson evs.length),
    ("origLog", toksJson s.origLog),
    ("out", Json.mkObj (as.map fun a => (toString a, match s.out a with | none => Json.null | some l => toksJson l))),
    ("spec", Json.mkObj (as.map fun a => (toString a, toksJson (Mode.writesOf a evs))))]

def parseModeEv (j : Json) : Option Mode.Ev :=
  match asArr j with
  | [tag, a] =>
    match asStr tag with
    | "save" => some (.save (asNat a)) | "set" => some (.set (asNat a))
    | "restore" => some (.restore (asNat a)) | "read" => some (.read (asNat a))
    | "swapNC" => some (.swapNC (asNat a)) | "restoreNC" => some (.restoreNC (asNat a))
    | _ => none
  | [tag, a, n] =>
    if asStr tag = "write" then some (.write (asNat a) (asNat n))
    else if asStr tag = "getlive" then some (.getlive (asNat a) ((n.getBool?).toOption.getD false))
    else none
  | _ => none

def handle (j : Json) : Json :=
  match jstr j "op" with
  | "streammode" =>
    if jhas j "forest" then modeAnswer (Mode.flatten none (parseModeForest (jarr j "forest")))
    else
      match (jarr j "evs").mapM parseModeEv with
      | none => Driver.err "bad ev"
      | some evs => (modeAnswer evs).setObjVal! "ncOnly" (Json.bool (Mode.ncOnly evs))
  | "streamfwd" => fwdAnswer (Fwd.flatten none (parseFwdForest (jarr j "forest")))
  | "py" =>
    match actionRes j, bodyOps j with
    | some a, some ops =>
      let b := bodyRun (jbool j "capture" && !(jbool j "interactive")) (jbool j "liveFd") ops
      (aresJson a).setObjVal! "body" (Json.mkObj [("text", mkArr (b.1.map Json.bool)), ("raised", Json.bool b.2)])
    | _, _ => Driver.err "bad action"
  | "cmd" | "tool" =>
    match actionRes j with
    | some a => aresJson a
    | none => Driver.err "bad action"
  | "task" =>
    match (jarr j "actions").mapM actionRes with
    | none => Driver.err "bad action in task"
    | some as =>
      let r := taskExecute as
      Json.mkObj [("outcome", Json.str (outcomeStr r.outcome)), ("result", resJson r.result),
                  ("values", valsJson r.values), ("ran", toJson r.ran), ("ares", mkArr (as.map aresJson)),
                  ("teardown", Json.mkObj [("outcome", Json.str (outcomeStr (teardownRun 0 as).1)),
                                           ("ran", toJson (teardownRun 0 as).2)])]
  | "route" =>
    let v : Option Nat := match jobj j "v" with | .null => none | x => some (asNat x)
    let live := getOutErr v
    match jstr j "kind", parseCap (jstr j "cap") with
    | "py", some cap =>
      Json.mkObj [("live", mkArr [Json.bool live.1, Json.bool live.2]),
                  ("out", routeJson (pyRoute (cap == .yes) live.1)), ("err", routeJson (pyRoute (cap == .yes) live.2))]
    | "cmd", some cap =>
      Json.mkObj [("live", mkArr [Json.bool live.1, Json.bool live.2]),
                  ("out", routeJson (cmdRoute cap live.1)), ("err", routeJson (cmdRoute cap live.2))]
    | _, _ => Driver.err "bad route request"
  | "stream" =>
    if jhas j "forest" then
      let f := parseForest (jarr j "forest")
      streamAnswer (if jbool j "pinned" then flattenPinned none f else flatten none f)
    else
      match (jarr j "evs").mapM parseEv with
      | none => Driver.err "bad ev"
      | some evs => streamAnswer evs
  | op => Driver.err s!"act: unknown op {op}"

end Driver.Act
