import Driver.Util
open Lean
namespace Driver.Act
/-- handler for requests with `"model": "act"` (stub: filled in when the model exists) -/
def handle (_ : Json) : Json := Driver.err "model not implemented"
end Driver.Act
