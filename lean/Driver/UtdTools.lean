import Driver.Util
import DoitModel.Model.UtdTools
open Lean DoitModel.UtdTools
namespace Driver.UtdTools
/-! request `{"model":"status","mode":"utdtools","tps":n,"item":item,"ops":[op…]}` (dispatched by `Driver/Status.lean`)

item: `["once"] ["config"] ["tmo",["int",n]|["delta",days,secs,micros]] ["stamp",file,"atime"|"ctime"|"mtime",cmp]
  ["res",dep]`; cmp: `"eq" "ne" "lt" "le" "gt" "ge" ["const",b]`
change: `["tick",dt] ["cfg",["str",s]|["dict",canon]|["bad"]] ["file",f,null|[atime,mtime,ctime]] ["result",t,val]
  ["group",t,null|[name…]]`; val: `null true ["str",s] ["num",n] ["dict",[[k,s|null]…]]`
op: `["change",c] ["query"] ["run",ok,[change…]]`
answer: `{"obs":[…],"saved":[[key,val]…]}`; the md5 of a dict's canonical text `c` is rendered `"md5:"+c` (the harness
applies the real md5 to it). -/

def str (j : Json) : Str := (asStr j).toList
def int (j : Json) : Int := (j.getInt?).toOption.getD 0

def parseVal (j : Json) : Val :=
  match j with
  | .null => .null
  | .bool _ => .tt
  | _ =>
    match asArr j with
    | [t, v] =>
      match asStr t with
      | "str" => .str (str v)
      | "num" => .num (int v)
      | "dict" => .dict ((asArr v).map fun kv => match asArr kv with
          | [k, x] => (str k, match x with | .null => none | y => some (str y))
          | _ => ([], none))
      | _ => .null
    | _ => .null

def parseCmp (j : Json) : Cmp :=
  match j with
  | .str "eq" => .eq | .str "ne" => .ne | .str "lt" => .lt | .str "le" => .le | .str "gt" => .gt | .str "ge" => .ge
  | _ => match asArr j with
    | [_, b] => .const ((b.getBool?).toOption.getD false)
    | _ => .eq

def parseAttr (j : Json) : Attr :=
  match asStr j with | "atime" => .atime | "ctime" => .ctime | _ => .mtime

def parseLimit (j : Json) : Limit :=
  match asArr j with
  | [t, n] => if asStr t = "int" then .int (int n) else .int 0
  | [_, d, s, u] => .delta (int d) (asNat s) (asNat u)
  | _ => .int 0

def parseItem (j : Json) : Option Item :=
  match asArr j with
  | [t] => if asStr t = "once" then some .once else if asStr t = "config" then some .config else none
  | [t, a] => if asStr t = "tmo" then some (.tmo (parseLimit a)) else if asStr t = "res" then some (.resDep (str a)) else none
  | [t, f, a, c] => if asStr t = "stamp" then some (.stampOf (str f) (parseAttr a) (parseCmp c)) else none
  | _ => none

def parseCfg (j : Json) : Cfg :=
  match asArr j with
  | [t, s] => if asStr t = "str" then .str (str s) else if asStr t = "dict" then .dict (str s) else .bad
  | _ => .bad

def parseChange (j : Json) : Option Change :=
  match asArr j with
  | [t, a] =>
    match asStr t with
    | "tick" => some (.tick (asNat a))
    | "cfg" => some (.setCfg (parseCfg a))
    | _ => none
  | [t, a, b] =>
    match asStr t with
    | "file" => some (.setFile (str a) (match asArr b with
        | [x, y, z] => some ⟨int x, int y, int z⟩
        | _ => none))
    | "result" => some (.setResult (str a) (parseVal b))
    | "group" => some (.setGroup (str a) (match b with | .arr xs => some (xs.toList.map str) | _ => none))
    | _ => none
  | _ => none

def parseOp (j : Json) : Option Op :=
  match asArr j with
  | [t] => if asStr t = "query" then some .query else none
  | [t, c] => if asStr t = "change" then (parseChange c).map .change else none
  | [t, ok, cs] => if asStr t = "run" then
      ((asArr cs).mapM parseChange).map fun l => .run ((ok.getBool?).toOption.getD false) l else none
  | _ => none

def ofStr (s : Str) : Json := Json.str (String.ofList s)

def valJson : Val → Json
  | .null => Json.null
  | .tt => Json.bool true
  | .str s => mkArr [Json.str "str", ofStr s]
  | .num n => mkArr [Json.str "num", toJson n]
  | .dict kv => mkArr [Json.str "dict", mkArr (kv.map fun (k, v) =>
      mkArr [ofStr k, match v with | none => Json.null | some s => ofStr s])]

def savedJson (s : Saved) : Json := mkArr (s.map fun (k, v) => mkArr [ofStr k, valJson v])

def errJson : Err → Json
  | .osError => Json.str "OSError"
  | .badConfig => Json.str "badConfig"

def ansJson : Ans → Json
  | .yes => Json.str "yes"
  | .no => Json.str "no"
  | .ignored => Json.str "ignored"
  | .raised e => mkArr [Json.str "raised", errJson e]

def obsJson : Obs → Json
  | .changed => mkArr [Json.str "changed"]
  | .answered a => mkArr [Json.str "answered", ansJson a]
  | .skipped => mkArr [Json.str "skipped"]
  | .executedSaved a s => mkArr [Json.str "saved", ansJson a, savedJson s]
  | .executedSaveError a e => mkArr [Json.str "saveError", ansJson a, errJson e]
  | .executedFailed a => mkArr [Json.str "failed", ansJson a]
  | .statusError e => mkArr [Json.str "statusError", errJson e]

def tagMd5 (c : Str) : Str := "md5:".toList ++ c

def handle (j : Json) : Json :=
  match parseItem (jobj j "item"), (jarr j "ops").mapM parseOp with
  | some it, some ops =>
    let (s, obs) := runOps tagMd5 (jnat j "tps") it St.init ops
    Json.mkObj [("obs", mkArr (obs.map obsJson)), ("saved", savedJson s.saved)]
  | _, _ => Driver.err "bad utdtools request"

end Driver.UtdTools
