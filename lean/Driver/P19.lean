import Driver.Util
open Lean
namespace Driver.P19
/-- handler for requests with `"model": "c19"` (property-specific monitors / model queries of C19; stub until built) -/
def handle (_ : Json) : Json := Driver.err "model not implemented"
end Driver.P19
