import Driver.Util
import Driver.Run
import DoitModel.Model.Report
import DoitModel.Model.ReportText
open Lean DoitModel.Run DoitModel.Report
namespace Driver.P19
/-! Handler for `{"model":"c19", …}` (protocol: harness/props/c19.py docstring).

Input: the run-model input of the case (same fields as `{"model":"run"}`), `n` tasks, `reporter` kind, the FULL
callback/action trace of the implementation oldest first (`execute` kept also for the process runner), `exit`, `err`,
optionally `doc` = the parsed `tasks` list of the JSON reporter.  Output: the C19 monitors on that trace, the
model's rendering of the reporter output for that trace (console tokens / JSON task list), the exit-code
specification. -/

def kindOf (s : String) : Kind :=
  match s with
  | "executed-only" => .executedOnly | "zero" => .zero | "error-only" => .errorOnly | "json" => .json | _ => .console

def tokJson : Tok → Json
  | .exec n => mkArr [Json.str "exec", toJson n]
  | .utd n => mkArr [Json.str "utd", toJson n]
  | .ign n => mkArr [Json.str "ign", toJson n]
  | .fail n k => mkArr [Json.str "fail", toJson n, Json.str (Driver.Run.failKindStr k)]
  | .sep => mkArr [Json.str "sep"]
  | .failAgain n k => mkArr [Json.str "failAgain", toJson n, Json.str (Driver.Run.failKindStr k)]
  | .errSec n => mkArr [Json.str "errSec", toJson n]
  | .outSec n => mkArr [Json.str "outSec", toJson n]
  | .aborted => mkArr [Json.str "aborted"]

def resStr : Option JRes → Json
  | none => Json.null
  | some .fail => Json.str "fail"
  | some .success => Json.str "success"
  | some .utd => Json.str "up-to-date"
  | some .ign => Json.str "ignore"

def parseRes (j : Json) : Option JRes :=
  match j.getStr? with
  | .ok "fail" => some .fail
  | .ok "success" => some .success
  | .ok "up-to-date" => some .utd
  | .ok "ignore" => some .ign
  | _ => none

def joutJson (o : JOut) : Json := mkArr [toJson o.name, resStr o.result, Json.bool o.timed]

def parseDoc (j : Json) : List JOut :=
  (jarr j "doc").map fun x =>
    match asArr x with
    | [n, r, t] => { name := asNat n, result := parseRes r, timed := (t.getBool?).toOption.getD false }
    | _ => { name := 1000000, result := none, timed := false }

/-- index (chronological) of the first event that violates `p e olderEvents`, scanning newest-first list `evs` -/
def firstBad (p : Ev → List Ev → Bool) : List Ev → Option Nat
  | [] => none
  | e :: post =>
    match firstBad p post with
    | some i => some i
    | none => if p e post then none else some post.length

def optNat : Option Nat → Json
  | none => Json.null
  | some n => toJson n

/-! #### text reporters: `{"model":"c19","text":true,"cls":..,"fv":N,"tasks":[{name,title,acts,executed,verb,out,err}],
"calls":[["get_status",t] | ["execute",t] | ["failure",t,cls,msg,report] | ["success",t] | ["skip_uptodate",t] |
["skip_ignore",t] | ["cleanup_error",m] | ["runtime_error",m] | ["teardown",t] | ["complete"]]}` ->
exact text on outstream / stderr for `Model/ReportText.lean`, plus the decoders of the C19 text theorems -/
section Text
open DoitModel.ReportText

def clsOf (s : String) : Cls :=
  match s with
  | "executed-only" => .executedOnly | "zero" => .zero | "error-only" => .errorOnly | _ => .console

def parseTask (j : Json) : TaskI :=
  { name := jstr j "name", title := jstr j "title", hasActions := jbool j "acts", executed := jbool j "executed",
    verb := jnat j "verb", out := jstr j "out", err := jstr j "err" }

def parseCall (j : Json) : Option RCall :=
  match asArr j with
  | [k, a] =>
    match asStr k with
    | "get_status" => some (.getStatus (asNat a)) | "execute" => some (.execute (asNat a))
    | "success" => some (.addSuccess (asNat a)) | "skip_uptodate" => some (.skipUtd (asNat a))
    | "skip_ignore" => some (.skipIgn (asNat a)) | "teardown" => some (.teardown (asNat a))
    | "cleanup_error" => some (.cleanupError (asStr a)) | "runtime_error" => some (.runtimeError (asStr a))
    | _ => none
  | [k, t, c, m, r] =>
    if asStr k = "failure" then some (.addFailure (asNat t) ⟨asStr c, asStr m, (r.getBool?).toOption.getD true⟩) else none
  | [k] => if asStr k = "complete" then some .complete else none
  | _ => none

def pkStr : PKind → String
  | .executed => "executed" | .upToDate => "up-to-date" | .ignored => "ignored"

def handleText (j : Json) : Json :=
  let tasks := (jarr j "tasks").map parseTask
  let tk : Nat → TaskI := fun t => tasks.getD t {}
  let fv := jnat j "fv"
  let cls := clsOf (jstr j "cls")
  match (jarr j "calls").mapM parseCall with
  | none => Driver.err "bad call"
  | some cs =>
    let s := DoitModel.ReportText.run cls fv tk cs
    let pairs (l : List (Nat × PKind)) : Json := mkArr (l.map fun p => mkArr [toJson p.1, Json.str (pkStr p.2)])
    Json.mkObj [
      ("out", Json.str (outText tk s)), ("err", Json.str (errText s)), ("nlines", toJson s.out.length),
      ("progress", pairs (decodeProgress s.out)),
      ("happened", pairs (cs.filterMap (RCall.happened tk))),
      ("failures", ofNats (s.failures.map (·.1))),
      ("blocks", ofNats (decodeBlocks (summary fv tk s))),
      ("skiplines", toJson (s.out.countP Line.isSkip))]
end Text

def handle (j : Json) : Json :=
  if jbool j "text" then handleText j else
  let inp := Driver.Run.parseInput j
  let n := jnat j "n"
  match (jarr j "trace").mapM Driver.Run.parseEv with
  | none => Driver.err "bad event in trace"
  | some tr =>
    let exit := jnat j "exit"
    let errS := (j.getObjValAs? String "err").toOption.getD ""
    let kind := kindOf (jstr j "reporter")
    -- reporter options: --failure-verbosity, global verbosity (+ forced by -v on the command line), per-task verbosity
    let taskV : List (Option Nat) := (jarr j "taskVerb").map fun x => (x.getNat?).toOption
    let opts : RepOpts :=
      { failVerb := jnat j "failVerb"
        verb := fun t => effVerb (jbool j "forceVerb") (jnat j "globalVerb") ((taskV.getD t none))
        runtimeErr := jbool j "runtimeErr" }
    let fwd := inp.runner = .process
    let nf := tr.reverse
    let complete := tr.getLast? == some Ev.complete
    let mOrd := repOrd true fwd inp.noAct nf
    -- a run aborted by a reported runtime error (InvalidTask raised while the action objects of a task are created) may
    -- leave that task announced although its actions never started, or (process runner) a task in flight whose
    -- forwarded report was still on the queue: only tasks WITH a final report are bound by the iff then
    let mExec := !complete || execIffStart inp.noAct n tr ||
      (opts.runtimeErr && (List.range n).all fun t =>
        inp.noAct t || tr.countP (Ev.isExecOf t) == tr.countP (Ev.isStartOf t) ||
        (!tr.any (Ev.isTerminalOf t) && tr.countP (Ev.isExecOf t) ≤ 1 && tr.countP (Ev.isStartOf t) ≤ 1))
    let mTruth := truthOrd inp n nf
    let mFin := !(complete && exit ≤ 2) || opts.runtimeErr || finReported n tr
    let halt : Halt := if errS = "" then .none else if errS = "cyclic" then .cyclic else .crash
    -- `run_all`: `except InvalidTask: reporter.runtime_error(..); final_result = ERROR`
    let expExit := if opts.runtimeErr && errS = "" then 2 else exitOf halt (failKinds tr)
    let mExit := exit == expExit
    let doc := parseDoc j
    let mJson := !jhas j "doc" || jsonOK n tr doc
    -- exit code 0/1/2 of a run that was not stopped by a reported failure: every member of the closure of the selection
    -- has its final report (`monC02AllProcessed`; an error that cut the run short must show in the exit code)
    let mAll := opts.runtimeErr || monC02AllProcessed inp n tr exit
    Json.mkObj [
      ("monitor", Json.mkObj [("C19_report_order", Json.bool mOrd), ("C19_exec_iff_start", Json.bool mExec),
        ("C19_truth", Json.bool mTruth), ("C19_end_reported", Json.bool mFin), ("C19_exit", Json.bool mExit),
        ("C19_json", Json.bool mJson),
        ("C19_success_means_all_processed", Json.bool mAll)]),
      ("hyp", Json.mkObj [
        -- hypothesis of `json_ok` / `C19_json`: every announced task has its final report
        ("all_reported", Json.bool ((List.range n).all fun t => !tr.any (Ev.isExecOf t) || tr.any (Ev.isTerminalOf t))),
        ("process_runner", Json.bool fwd)]),
      ("firstBadOrder", optNat (firstBad (repOK true fwd inp.noAct) nf)),
      ("firstBadTruth", optNat (firstBad (truthOK inp n) nf)),
      ("expectedExit", toJson expExit),
      ("finalFold", toJson (finalEv nf)),
      -- a task whose action objects cannot be created ("lazyBad"): `ConsoleReporter.execute_task` evaluates
      -- `task.actions` before it writes, so nothing is printed for it (like for a task without actions)
      ("render", mkArr ((render kind opts (fun t => inp.noAct t || (jnats j "lazyBad").contains t) tr).map tokJson)),
      ("json", match jsonOf tr with
               | some l => mkArr (l.map joutJson)
               | none => Json.str "raises")]

end Driver.P19
