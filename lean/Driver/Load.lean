import Driver.Util
import DoitModel.Model.Load
open Lean DoitModel.Load
namespace Driver.Load
/-! requests `{"model":"load","cmds":[str],"creators":[{"name":str,"line":n,"result":R}]}`
    R = {"k":"dict","d":D} | {"k":"gen","items":[G]} | {"k":"task","t":T} | {"k":"none"} | {"k":"other"}
    G = {"k":"dict","d":D,"nf":str,"bf":str} | {"k":"task","t":T} | {"k":"other"} | {"k":"nested","items":[G]}
    D = [[attr, V]];  V = ["none"] | ["bool",b] | ["int",n] | ["float",halves] | ["str",s] | ["list",[s]] | ["tuple",[s]]
        | ["dict",[[key, task|null]]] | ["callable"] | ["object"]
    T = {"name","task_dep","wild_dep","setup","calc_dep","targets","file_dep","subtask_of":s|null,"has_subtask":b}
    answer `{"load":O,"control":O}` with O = {"out":"tasks","tasks":[T]} | {"out":"invalidTask"|"invalidDodo"} |
    {"out":"crash","exn":"TypeError"|"AttributeError"}, plus "plain_objs": the decidable hypothesis `PlainObjs cs` of the group clause; at control level every T also has "pre" (task_dep before the
    implicit ones) and "implicit". -/

abbrev NM := DoitModel.Load.Name
instance : Inhabited Gen := ⟨.leaf .other⟩

def toName (s : String) : NM := s.toList.map Char.toNat
def ofName (n : NM) : String := String.ofList (n.map Char.ofNat)
def jname (j : Json) (k : String) : NM := toName (jstr j k)
def jnames (j : Json) (k : String) : List NM := (jstrs j k).map toName
def namesJ (xs : List NM) : Json := ofStrs (xs.map ofName)

def parseAttr : String → Attr
  | "basename" => .basename | "name" => .name | "actions" => .actions | "file_dep" => .file_dep
  | "task_dep" => .task_dep | "uptodate" => .uptodate | "calc_dep" => .calc_dep | "targets" => .targets
  | "setup" => .setup | "clean" => .clean | "teardown" => .teardown | "doc" => .doc | "params" => .params
  | "pos_arg" => .pos_arg | "verbosity" => .verbosity | "io" => .io | "getargs" => .getargs | "title" => .title
  | "watch" => .watch | "meta" => .meta_ | _ => .unknown

def strsOf (j : Json) : List NM := (asArr j).map fun x => toName (asStr x)

def parseVal (j : Json) : RawVal :=
  match asArr j with
  | [tag] => match asStr tag with
    | "none" => .none | "callable" => .callable | _ => .object
  | [tag, v] => match asStr tag with
    | "bool" => .bool ((v.getBool?).toOption.getD false)
    | "int" => .int ((v.getInt?).toOption.getD 0)
    | "float" => .float ((v.getInt?).toOption.getD 0)
    | "str" => .str (toName (asStr v))
    | "list" => .list (strsOf v)
    | "tuple" => .tuple (strsOf v)
    | "dict" => .dict ((asArr v).map fun e => match asArr e with
        | [k, t] => (toName (asStr k), match t with | .str s => some (toName s) | _ => none)
        | _ => ([], none))
    | _ => .object
  | _ => .object

def parseDict (j : Json) : TDict :=
  (asArr j).map fun p => match asArr p with
    | [a, v] => (parseAttr (asStr a), parseVal v)
    | _ => (.unknown, .object)

def parseTask (j : Json) : Task :=
  { name := jname j "name", taskDep := jnames j "task_dep", wildDep := jnames j "wild_dep",
    setupTasks := jnames j "setup", calcDep := jnames j "calc_dep", targets := jnames j "targets",
    fileDep := jnames j "file_dep",
    subtaskOf := match jobj j "subtask_of" with | .str s => some (toName s) | _ => none,
    hasSubtask := jbool j "has_subtask" }

partial def parseGen (j : Json) : Gen :=
  match jstr j "k" with
  | "dict" => .leaf (.dict (parseDict (jobj j "d")) (jname j "nf") (jname j "bf"))
  | "task" => .leaf (.task (parseTask (jobj j "t")))
  | "nested" => .nested ((jarr j "items").map parseGen)
  | _ => .leaf .other

def parseResult (j : Json) : Result :=
  match jstr j "k" with
  | "dict" => .dict (parseDict (jobj j "d"))
  | "gen" => .gen ((jarr j "items").map parseGen)
  | "task" => .task (parseTask (jobj j "t"))
  | "none" => .none
  | _ => .other

def parseCreator (j : Json) : Creator :=
  { name := jname j "name", line := jnat j "line", result := parseResult (jobj j "result") }

def taskJ (t : Task) (extra : List (String × Json)) : Json :=
  Json.mkObj ([("name", Json.str (ofName t.name)), ("task_dep", namesJ t.taskDep), ("wild_dep", namesJ t.wildDep),
    ("setup", namesJ t.setupTasks), ("calc_dep", namesJ t.calcDep), ("targets", namesJ t.targets),
    ("file_dep", namesJ t.fileDep),
    ("subtask_of", match t.subtaskOf with | some b => Json.str (ofName b) | none => Json.null),
    ("has_subtask", Json.bool t.hasSubtask)] ++ extra)

def errJ : Err → Json
  | .invalidTask => Json.mkObj [("out", "invalidTask")]
  | .invalidDodo => Json.mkObj [("out", "invalidDodo")]
  | .crash .typeError => Json.mkObj [("out", "crash"), ("exn", "TypeError")]
  | .crash .attributeError => Json.mkObj [("out", "crash"), ("exn", "AttributeError")]

def handle (j : Json) : Json :=
  let cmds := jnames j "cmds"
  let cs := (jarr j "creators").map parseCreator
  let hyp : List (String × Json) := [("plain_objs", Json.bool (PlainObjs cs))]
  match loadTasks cmds cs with
  | .error e => Json.mkObj ([("load", errJ e), ("control", errJ e)] ++ hyp)
  | .ok ts =>
    let lj := Json.mkObj [("out", "tasks"), ("tasks", mkArr (ts.map fun t => taskJ t []))]
    let names := ts.map (·.name)
    let ts1 := ts.map (expandWild names)
    match control ts with
    | .error e => Json.mkObj ([("load", lj), ("control", errJ e)] ++ hyp)
    | .ok ts2 =>
      let pre := ts1.map (·.taskDep)
      let outs := (ts2.zip pre).map fun (t, p) =>
        taskJ t [("pre", namesJ p), ("implicit", namesJ (t.taskDep.drop p.length))]
      Json.mkObj ([("load", lj), ("control", Json.mkObj [("out", "tasks"), ("tasks", mkArr outs)])] ++ hyp)

end Driver.Load
