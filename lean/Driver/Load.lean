import Driver.Util
open Lean
namespace Driver.Load
/-- handler for requests with `"model": "load"` (stub: filled in when the model exists) -/
def handle (_ : Json) : Json := Driver.err "model not implemented"
end Driver.Load
