import Driver.Util
import DoitModel.Model.DelayedSel
import Driver.DelayedX
open Lean DoitModel.Delayed
namespace Driver.Delayed
/-! Handler for `{"model":"delayed", …}` (protocol: harness/props/c15.py docstring).

`op = "check"`: runs `process` (the delayed branches of `_filter_tasks`) and then decides whether the observed
trace of the implementation is a trace of the run model under SOME schedule (DFS over the only choice points:
which running task finishes next, whether the main thread resumes the dispatcher before that, iteration order of
`waiting_me`), evaluates the hypotheses of the theorems on the case and the C15 monitors on the observed trace.
`op = "simulate"`: the model's own trace under the eager serial schedule. -/

def evJson : Ev → Json
  | .creator c => mkArr [Json.str "creator", toJson c]
  | .start n => mkArr [Json.str "start", toJson n]
  | .success n => mkArr [Json.str "success", toJson n]
  | .failure n => mkArr [Json.str "failure", toJson n]
  | .unmet n => mkArr [Json.str "unmet", toJson n]
  | .skipUtd n => mkArr [Json.str "skip", toJson n]

def parseEv (j : Json) : Option Ev :=
  match asArr j with
  | [t, n] =>
    match asStr t with
    | "creator" => some (.creator (asNat n))
    | "start" => some (.start (asNat n))
    | "success" => some (.success (asNat n))
    | "failure" => some (.failure (asNat n))
    | "unmet" => some (.unmet (asNat n))
    | "skip" => some (.skipUtd (asNat n))
    | _ => none
  | _ => none

def optNat (j : Json) (k : String) : Option Nat :=
  match j.getObjVal? k with
  | .ok v => (v.getNat?).toOption
  | _ => none

def parseTDef (j : Json) (oid : Nat) : TDef :=
  { deps := jnats j "deps", loader := optNat j "loader", fileDep := jnats j "fileDep", targets := jnats j "targets",
    act := jbool j "act", oid := oid }

def parseTasks (xs : List Json) : List (Nat × TDef) :=
  (xs.zipIdx).map fun (x, i) => match asArr x with
    | [n, d] => (asNat n, parseTDef d i)
    | _ => (0, {})

def parseNew (j : Json) : NewTask :=
  { name := jnat j "name", deps := jnats j "deps", fileDep := jnats j "fileDep", targets := jnats j "targets",
    act := jbool j "act" }

/-- the same yield for the extended model (`Model/DelayedX.lean`): `tdeps` = the task_dep alone, `setup` = setup-tasks
    and sources of getargs, `calcDep`; (`deps` above also holds these edges, for the monitors' dependency table) -/
def parseNewX (j : Json) : NewTask :=
  { name := jnat j "name", deps := jnats j "tdeps", fileDep := jnats j "fileDep", targets := jnats j "targets",
    act := jbool j "act", setup := jnats j "setup", calcDep := jnats j "calcDep", wild := jnats j "wild" }

structure Case where
  pre : Pre
  makeTab : List (CId × Nat × List NewTask)
  sel : Option (List Word)
  serial : Bool
  cont : Bool
  utd : List Nat
  fails : List Nat
  noAct : List Nat
  x : Bool := false                                  -- extended model (setup / calc_dep / getargs of created tasks)
  makeTabX : List (CId × Nat × List NewTask) := []
  delivers : List (Nat × List Nat) := []
  wmatch : List (Nat × List Nat) := []               -- pattern id ↦ the names it matches

def mkMake (tab : List (CId × Nat × List NewTask)) (c : CId) (t : Nat) : List NewTask :=
  match tab.find? (fun e => e.1 == c && e.2.1 == t) with
  | some e => e.2.2
  | none => []

def pairsOf (j : Json) (k : String) : List (Nat × Nat) :=
  (jarr j k).map fun x => match asArr x with | [a, b] => (asNat a, asNat b) | _ => (0, 0)

def parseCase (j : Json) : Case :=
  let loaders := jarr j "loaders"
  let lget (l : Nat) : Json := loaders.getD l Json.null
  let matchesL := pairsOf j "matches"
  let rx := (jarr j "rxName").map fun x => match asArr x with | [a, b, c] => (asNat a, asNat b, asNat c) | _ => (0, 0, 0)
  let pre : Pre :=
    { tasks := parseTasks (jarr j "tasks")
      targets := pairsOf j "targets"
      creatorOf := fun l => jnat (lget l) "creator"
      execOf := fun l => optNat (lget l) "exec"
      hasRegex := fun l => jbool (lget l) "regex"
      rxMatch := fun l w => matchesL.contains (l, w)
      auto := jbool j "auto"
      rxName := fun w t => match rx.find? (fun e => e.1 == w && e.2.1 == t) with | some e => e.2.2 | none => 999999 }
  let makeTab := (jarr j "make").map fun x => match asArr x with
    | [c, t, l] => (asNat c, asNat t, (asArr l).map parseNew)
    | _ => (0, 0, [])
  let sel := match j.getObjVal? "sel" with
    | .ok (.arr a) => some (a.toList.map fun x => ({ w := jnat x "w", base := jnat x "base" } : Word))
    | _ => none
  { pre := pre, makeTab := makeTab, sel := sel, serial := jbool j "serial", cont := jbool j "cont",
    utd := jnats j "utd", fails := jnats j "fails", noAct := jnats j "noAct",
    x := jbool j "x",
    makeTabX := (jarr j "make").map fun x => match asArr x with
      | [c, t, l] => (asNat c, asNat t, (asArr l).map parseNewX)
      | _ => (0, 0, []),
    delivers := (jarr j "delivers").map fun x => match asArr x with
      | [a, l] => (asNat a, (asArr l).map asNat)
      | _ => (0, []),
    wmatch := (jarr j "wmatch").map fun x => match asArr x with
      | [a, l] => (asNat a, (asArr l).map asNat)
      | _ => (0, []) }

def inputOf (c : Case) (st : FState) : Input :=
  { toInput c.pre st (mkMake (if c.x then c.makeTabX else c.makeTab)) c.serial c.cont (fun n => c.utd.contains n)
      (fun n => c.fails.contains n) (fun n => c.noAct.contains n) with
    delivers := fun n => (lookup0 c.delivers n).getD [],
    wmatch := fun p n => ((lookup0 c.wmatch p).getD []).contains n }

/-! ### the acceptor -/

partial def perms : List Nat → List (List Nat)
  | [] => [[]]
  | l => if l.length > 5 then
           -- too many orders to enumerate: every element first, the rest in stored and in reverse order
           l.flatMap fun x => [x :: l.erase x, x :: (l.erase x).reverse]
         else l.flatMap fun x => (perms (l.erase x)).map (x :: ·)

structure Ctx where
  inp : Input
  par : Bool
  obs : List Ev            -- oldest first; without the `start` events when `par`
  obsErr : String
  obsExit : Nat
  obsStarted : List Nat    -- tasks whose action started (any position)

/-- the task registered under `n` has an action -/
def actOf (s : Sys) (n : Nat) : Bool :=
  match s.tasks n with
  | some td => td.act
  | none => false

def hiddenEv (ctx : Ctx) (s : Sys) : Ev → Bool
  | .start n => ctx.par || !actOf s n
  | _ => false

def visOf (ctx : Ctx) (s : Sys) : List Ev := (s.events.filter (fun e => !hiddenEv ctx s e)).reverse

def errStr : Susp → String
  | .err .cyclic => "cyclic"
  | .err (.notFound _) => "notfound"
  | .err .dupTarget => "duptarget"
  | .err .crash => "crash"
  | _ => "none"

def waitingOf (s : Sys) (n : Nat) : List Nat :=
  match s.nodes n with
  | some nd => nd.waitingMe
  | none => []

/-- the choices tried in a state (the iteration order of `waiting_me` is handled lazily, see `dfs`) -/
def moves (ctx : Ctx) (s : Sys) : List Choice :=
  match s.susp with
  | .running => [.tick []]
  | .yielded n => [.tick (waitingOf s n)]
  | .err _ => []
  | _ =>
    (s.running.map fun m => Choice.finish m (waitingOf s m)) ++
      (if ctx.par && s.susp == .idle && !s.stop then [.resume] else [])

/-- the run is over: nothing in flight and the main thread has nothing left to do -/
def isTerminal (s : Sys) : Bool :=
  match s.susp with
  | .err _ => true
  | .stopIter => s.running.isEmpty
  | .idle => s.running.isEmpty && s.stop
  | .holdOn => s.running.isEmpty && s.stop
  | _ => false

/-- the tasks with an action the model has started -/
def startedOf (s : Sys) : List Nat :=
  s.events.filterMap fun e => match e with | .start n => if actOf s n then some n else none | _ => none

def acceptEnd (ctx : Ctx) (s : Sys) (v : List Ev) : Bool :=
  isTerminal s && ctx.obsStarted.all ((startedOf s).contains ·) &&
    (errStr s.susp == ctx.obsErr || (ctx.obsErr == "exit3" && errStr s.susp != "none")) && exitCode s == ctx.obsExit &&
    (match s.susp with
     | .err _ => (ctx.obs.drop v.length).all fun e => s.running.any fun m => e.reports m
     | _ => v.length == ctx.obs.length)

/-- Depth-first search for a schedule of the model that produces the observed trace.
    The iteration order of `waiting_me` (the `perm` of a feeding step) only decides in which order the woken nodes are
    appended to `ready`; they are appended contiguously.  Instead of enumerating permutations up front the search
    feeds in the stored order, remembers the woken nodes as a *group*, and when the dispatcher is about to pop a member
    of a group from `ready` it may pop any remaining member of that group instead — which is the state some other
    permutation would have produced. -/
partial def dfs (ctx : Ctx) (s : Sys) (groups : List (List Nat)) : StateM (Nat × Nat × String) (Option Sys) := do
  let (n, best, bs) ← get
  if n = 0 then return none
  let v := visOf ctx s
  -- a task handed to a worker that is still in flight need not have started its action (the run may be aborted first)
  if !(v.isPrefixOf ctx.obs) || !((startedOf s).all (fun n => ctx.obsStarted.contains n || s.running.contains n)) then
    set (n - 1, best, bs)
    return none
  if v.length ≥ best then set (n - 1, v.length, reprStr s.susp ++ " running=" ++ toString s.running ++ " stop=" ++ toString s.stop)
  else set (n - 1, best, bs)
  if acceptEnd ctx s v then return some s
  match s.susp, s.cur, s.ready with
  | .running, none, r :: _ =>
    let g := (groups.find? (·.contains r)).getD [r]
    let alts := r :: (g.filter fun x => x != r && s.ready.contains x)
    for x in alts do
      match step ctx.inp { s with ready := x :: s.ready.erase x } (.tick []) with
      | some s' =>
        match (← dfs ctx s' (groups.map (·.erase x))) with
        | some r => return some r
        | none => pure ()
      | none => pure ()
    return none
  | _, _, _ =>
    for c in moves ctx s do
      match step ctx.inp s c with
      | some s' =>
        let fresh := s'.ready.filter fun x => !s.ready.contains x
        let groups' := if fresh.length > 1 then groups ++ [fresh] else groups
        match (← dfs ctx s' groups') with
        | some r => return some r
        | none => pure ()
      | none => pure ()
    return none

/-- the eager serial-like schedule (used by `simulate` and for diagnostics) -/
partial def simulate (ctx : Ctx) (s : Sys) (fuel : Nat) : Sys :=
  if fuel = 0 then s else
  match (moves ctx s).findSome? (fun c => step ctx.inp s c) with
  | some s' => simulate ctx s' (fuel - 1)
  | none => s

/-! ### the monitors' static inputs, derived from the case -/

/-- the creator outputs under the creators' own names (`to_load` = a task of the loaded table) -/
def normalMake (c : Case) : List (CId × Nat × List NewTask) :=
  c.makeTab.filter fun e => (lookup0 c.pre.tasks e.2.1).isSome

/-- the task an implicit task_dep for file `f` of a task yielded by creator `cB` points to, given the observed order
    of creator evaluations: `add_implicit_task_dep` consults the GLOBAL target map at the moment `cB` is evaluated —
    the targets of the statically loaded tasks, of the tasks `cB` yields itself, and of the tasks of every creator
    evaluated before (a target registered later creates no dependency: "does NOT check if a delayed-task's target is a
    file_dep from another previously created task") -/
def implicitOwner (c : Case) (obs : List Ev) (cB : Nat) (f : Nat) : Option Nat :=
  match lookup0 c.pre.targets f with
  | some o => some o
  | none =>
    (normalMake c).findSome? fun e2 =>
      let earlier : Bool :=
        e2.1 == cB ||
          (match obs.findIdx? (· == .creator e2.1), obs.findIdx? (· == .creator cB) with
           | some i, some j => i < j
           | _, _ => false)
      if earlier then (e2.2.2.find? (fun n2 => n2.targets.contains f)).map (·.name) else none

/-- the dependency table the created tasks are judged by: task_deps of the loaded / placeholder tasks, and of every
    task a creator yields (with the implicit dependency on the producer of a file_dep) -/
def depsAll (c : Case) (st : FState) (obs : List Ev) (t : Nat) : List Nat :=
  let created := (normalMake c).flatMap fun e => (e.2.2.filter (fun nt => nt.name == t)).map fun nt => (e.1, nt)
  if created.isEmpty then
    (match lookup0 st.tasks t with | some td => td.deps | none => [])
  else
    -- a created task: the `executed` trigger is a task_dep of the placeholder, not of the task that replaces it; but
    -- (repair of finding C05 delayed-group-subtasks-run, `TaskDispatcher.inherited_status`) the node of a created task
    -- inherits the placeholder's bad_deps, so a created task starts only after a GOOD report of the creator's trigger
    created.flatMap fun (cB, nt) => nt.deps ++ (nt.fileDep.filterMap fun f => implicitOwner c obs cB f) ++
      ((st.tasks.filterMap fun p => match p.2.loader with
          | some l => if c.pre.creatorOf l == cB then c.pre.execOf l else none
          | none => none).eraseDups)

/-- for the closure of the selection: a name stands for the placeholder AND for the task that replaces it -/
def depsClosure (c : Case) (st : FState) (obs : List Ev) (t : Nat) : List Nat :=
  (match lookup0 st.tasks t with | some td => td.deps | none => []) ++ depsAll c st obs t

def closure (deps : Nat → List Nat) : Nat → List Nat → List Nat → List Nat
  | 0, _, acc => acc
  | _, [], acc => acc
  | fuel + 1, t :: todo, acc =>
    if acc.contains t then closure deps fuel todo acc else closure deps fuel (deps t ++ todo) (t :: acc)

/-- the producers of command-line word `w` among the creators whose loader matches `w`: tasks created (under the
    creator's own name) that declare `w` as a target -/
def producers (c : Case) (w : Nat) : List Nat :=
  (matched c.pre (fun _ => none) w c.pre.tasks).flatMap fun (t, l) =>
    ((mkMake c.makeTab (c.pre.creatorOf l) t).filter (fun nt => nt.targets.contains w)).map (·.name)

/-- … among all creators (a target may be registered by a creator that was evaluated for another reason) -/
def producersAll (c : Case) (w : Nat) : List Nat :=
  (normalMake c).flatMap fun e => (e.2.2.filter (fun nt => nt.targets.contains w)).map (·.name)

inductive WordKind | task | target (owner : Nat) | sub (l : LId) | rx | unknown
deriving Repr

def wordKind (c : Case) (wd : Word) : WordKind :=
  match lookup0 c.pre.tasks wd.w with
  | some _ => .task
  | none =>
    match lookup0 c.pre.targets wd.w with
    | some t => .target t
    | none =>
      match lookup0 c.pre.tasks wd.base with
      | some td => (match td.loader with | some l => .sub l | none => .unknown)
      | none => if matched c.pre (fun _ => none) wd.w c.pre.tasks = [] then .unknown else .rx

def trigL (c : Case) (l : LId) : List Nat := match c.pre.execOf l with | some d => [d] | none => []

/-- the matched loaders whose placeholder has to be processed for word `w`.  The serial runner handles the
    placeholders of one word strictly one after the other, so those after the first creator that produces `w` return at
    once (`regex_group.found`) and their `executed` task is not needed; under the parallel runners a later placeholder
    may start before `found` is set. -/
def neededLoaders (c : Case) (w : Nat) : List (Nat × LId) :=
  let ms := matched c.pre (fun _ => none) w c.pre.tasks
  if !c.serial then ms else
  match ms.findIdx? (fun (t, l) => (mkMake c.makeTab (c.pre.creatorOf l) t).any (fun nt => nt.targets.contains w)) with
  | some i => ms.take (i + 1)
  | none => ms

/-- everything the selection may legitimately execute -/
def roots (c : Case) : List Nat :=
  match c.sel with
  | none => c.pre.tasks.map Prod.fst
  | some ws => ws.flatMap fun wd =>
    match wordKind c wd with
    | .task => [wd.w]
    | .target t => [t]
    | .sub l => wd.w :: trigL c l
    | .rx => producersAll c wd.w ++ ((neededLoaders c wd.w).flatMap fun (_, l) => trigL c l)
    | .unknown => []

/-- C15 `target` on an observed run (events oldest first) -/
def targetOK (c : Case) (st? : Option FState) (obs : List Ev) (err : String) (exit : Nat) : Bool × String :=
  let stTasks : FState := st?.getD (fstate0 c.pre)
  let allowed := closure (depsClosure c stTasks obs) 10000 (roots c) []
  let started := obs.filterMap fun e => match e with | .start n => some n | _ => none
  let outside := started.filter fun n => !allowed.contains n
  let ws := c.sel.getD []
  let rxWords := ws.filter fun wd => match wordKind c wd with | .rx => true | .unknown => true | _ => false
  let orphan := rxWords.filter fun wd => (producersAll c wd.w).isEmpty
  let orphanM := rxWords.filter fun wd => (producers c wd.w).isEmpty
  let failed := obs.any fun e => match e with | .failure _ => true | .unmet _ => true | _ => false
  let good (n : Nat) : Bool := obs.any fun e => e == .success n || e == .skipUtd n
  -- a task reported as failed (TaskFailed / TaskError / DependencyError) although its action does not fail: for the
  -- placeholder of a selected target this is "Dependent file '<target>' does not exist" -- the target was not built
  let spurious := obs.filterMap fun e => match e with | .failure n => if c.fails.contains n then none else some n | _ => none
  let isRxName (n : Nat) : Bool := match lookup0 stTasks.tasks n with | some td => td.isRx | none => false
  if !spurious.isEmpty then
    (false, if spurious.any isRxName then
      s!"the placeholder of a selected target was reported as failed (target not built by its producer): {spurious}"
    else s!"tasks reported as failed although nothing in them fails: {spurious}")
  else if !outside.isEmpty then (false, s!"executed outside the closure of the selection: {outside}")
  else if !orphan.isEmpty && !failed && err == "none" then
    (false, s!"a target nobody produces was not reported as an error: {orphan.map (·.w)}")
  else if orphanM.isEmpty && err == "notfound" then (false, "not-found error although every target has a producer")
  else if exit == 0 && err == "none" &&
      rxWords.any (fun wd => !(producersAll c wd.w).any good) then
    (false, s!"exit 0 but the producer of a selected target was not processed")
  else (true, "")

/-- the creators a run that ends regularly has to evaluate: those whose loader is carried by a task in the closure
    (over the table as `process` left it) of the selected tasks and sub-task placeholders, and of the FIRST regex
    placeholder of every regex word (later ones may be skipped through `regex_group.found`) -/
def neededCreators (c : Case) (st : FState) : List Nat :=
  let isRxName (n : Nat) : Bool := match lookup0 st.tasks n with | some td => td.isRx | none => false
  let plain := st.selected.filter fun n => !isRxName n
  let rxFirst := (c.sel.getD []).filterMap fun wd =>
    match wordKind c wd with
    | .rx => ((matched c.pre (fun _ => none) wd.w c.pre.tasks).head?).map fun (t, _) => c.pre.rxName wd.w t
    | _ => none
  let tableDeps (t : Nat) : List Nat := match lookup0 st.tasks t with | some td => td.deps | none => []
  let cl := closure tableDeps 10000 (plain ++ rxFirst) []
  (cl.filterMap fun t => match lookup0 st.tasks t with
    | some td => td.loader.map c.pre.creatorOf
    | none => none).eraseDups

/-- "a run that needs created tasks evaluates the creator": on a run without failure and without error every needed
    creator has exactly one evaluation in the trace (at most one is `onceOK`) -/
def evaluatedOK (c : Case) (st : FState) (obs : List Ev) (err : String) (exit : Nat) : Bool × String :=
  let failed := obs.any fun e => match e with | .failure _ => true | .unmet _ => true | _ => false
  if failed || err != "none" || exit != 0 then (true, "") else
  let missing := (neededCreators c st).filter fun cr => obs.count (.creator cr) != 1
  if missing.isEmpty then (true, "") else (false, s!"run ended with exit 0 but creators {missing} were not evaluated exactly once")

def boolJ (b : Bool) : Json := Json.bool b

/-- length of the shortest prefix (oldest first) on which the monitor `f` (newest first) is false; 0 = never -/
def firstBad (f : List Ev → Bool) (obs : List Ev) : Nat :=
  ((List.range (obs.length + 1)).find? fun k => !f (obs.take k).reverse).getD 0

def handle (j : Json) : Json :=
  let c := parseCase j
  let par := !c.serial
  let obsJ := jobj j "obs"
  let obsAll := (jarr obsJ "events").filterMap parseEv
  let obsErr := let e := jstr obsJ "err"; if e == "" then "none" else e
  let obsExit := jnat obsJ "exit"
  let budget := if jnat j "budget" = 0 then 200000 else jnat j "budget"
  if jbool j "dangling" then
    -- `executed=` names a task that does not exist: `TaskControl._check_dep_names` raises InvalidTask while the
    -- command is set up ("Task dependency '…' does not exist"): ERROR exit 3, nothing runs, no creator is evaluated
    Json.mkObj [
      ("filter", Json.str "invalid"),
      ("accept", boolJ (obsErr == "invalid" && obsAll.isEmpty && obsExit == 3)),
      ("model", Json.mkObj [("events", mkArr []), ("err", Json.str "invalid"), ("exit", toJson (3 : Nat))]),
      ("wf", Json.mkObj [("trig", boolJ true)]),
      ("prop", Json.mkObj [("once", boolJ (onceOK obsAll.reverse)), ("after", boolJ obsAll.isEmpty), ("obey", boolJ obsAll.isEmpty),
                           ("utd", boolJ true), ("target", boolJ true), ("target_why", Json.str ""),
                           ("evaluated", boolJ true), ("evaluated_why", Json.str "")]),
      ("visited", toJson (0 : Nat))] else
  match process c.pre c.sel with
  | .inl w =>
    -- `_filter_tasks` raised InvalidCommand(not_found): nothing runs
    let tgt := targetOK c none obsAll obsErr obsExit
    Json.mkObj [
      ("filter", Json.str "notfound"), ("word", toJson w),
      ("accept", boolJ (obsErr == "notfound" && obsAll.isEmpty && obsExit == 3)),
      ("model", Json.mkObj [("events", mkArr []), ("err", Json.str "notfound"), ("exit", toJson (3 : Nat))]),
      ("wf", Json.mkObj [("resolves", boolJ true), ("covers", boolJ true), ("trig", boolJ true), ("rx", boolJ true), ("noredef", boolJ true)]),
      ("prop", Json.mkObj [("once", boolJ (onceOK obsAll.reverse)), ("after", boolJ true), ("obey", boolJ true),
                           ("utd", boolJ true), ("target", boolJ tgt.1), ("target_why", Json.str tgt.2)]),
      ("visited", toJson (0 : Nat))]
  | .inr st =>
    let inp := inputOf c st
    let obsM := if par then obsAll.filter (fun e => match e with | .start _ => false | _ => true) else obsAll
    let startedObs := (obsAll.filterMap fun e => match e with | .start n => some n | _ => none)
    let ctx : Ctx := { inp := inp, par := par, obs := obsM, obsErr := obsErr, obsExit := obsExit, obsStarted := startedObs }
    let op := jstr j "op"
    let sim := simulate ctx (init inp) 100000
    let xctx : Driver.DelayedX.Ctx :=
      { inp := inp, par := par, obs := obsM, obsErr := obsErr, obsExit := obsExit, obsStarted := startedObs }
    let simX := Driver.DelayedX.simulate xctx (DoitModel.DelayedX.init inp) 100000
    let simJ := if c.x then
        Json.mkObj [("events", mkArr ((Driver.DelayedX.visOf { xctx with par := false } simX).map evJson)),
                    ("err", Json.str (Driver.DelayedX.errStr simX.susp)), ("exit", toJson (DoitModel.DelayedX.exitCode simX)),
                    ("susp", Json.str (reprStr simX.susp))]
      else Json.mkObj [("events", mkArr ((visOf { ctx with par := false } sim).map evJson)),
                            ("err", Json.str (errStr sim.susp)), ("exit", toJson (exitCode sim)),
                            ("susp", Json.str (reprStr sim.susp))]
    if op == "simulate" then Json.mkObj [("model", simJ), ("selected", ofNats st.selected)] else
    -- `task.file_dep` is a set: the order in which `add_implicit_task_dep` appends the owners of two file_deps of one
    -- created task is not fixed by doit.  Try the given order first, then the reversed one (for up to 3 such tasks).
    let flipNames := ((c.makeTab.flatMap fun e => e.2.2.filterMap fun nt =>
      if nt.fileDep.length ≥ 2 then some nt.name else none).eraseDups).take 3
    let subsets : List (List Nat) := flipNames.foldl (fun acc x => acc ++ acc.map (x :: ·)) [[]]
    let tryOne (flip : List Nat) (bud : Nat) :=
      let flipTab (tab : List (CId × Nat × List NewTask)) := tab.map fun e =>
        (e.1, e.2.1, e.2.2.map fun nt => if flip.contains nt.name then { nt with fileDep := nt.fileDep.reverse } else nt)
      let c' : Case := { c with makeTab := flipTab c.makeTab, makeTabX := flipTab c.makeTabX }
      let inp' := inputOf c' st
      let names := (List.range 400)
      if c.x then
        let r := (Driver.DelayedX.dfs { xctx with inp := inp' } (DoitModel.DelayedX.init inp') []).run (bud, 0, "")
        (r.1.map fun s => ((Driver.DelayedX.startedOf s).all (fun n => startedObs.contains n || s.running.contains n) &&
                             startedObs.all ((Driver.DelayedX.startedOf s).contains ·),
                           Driver.DelayedX.featureCounts inp' s names,
                           DoitModel.DelayedX.startAfterOK (fun t => DoitModel.DelayedX.nodeDeps s t ++ DoitModel.DelayedX.nodeSetup s t)
                             (DoitModel.DelayedX.nodeCalc s) s.events), r.2)
      else
        let r := (dfs { ctx with inp := inp' } (init inp') []).run (bud, 0, "")
        (r.1.map fun s => ((startedOf s).all (fun n => startedObs.contains n || s.running.contains n) &&
                             startedObs.all ((startedOf s).contains ·), ((0 : Nat), (0 : Nat), (0 : Nat), (0 : Nat)), true), r.2)
    let (res, left, best, bestS) := subsets.foldl (fun (acc : Option (Bool × (Nat × Nat × Nat × Nat) × Bool) × Nat × Nat × String) flip =>
      match acc.1 with
      | some _ => acc
      | none =>
        let r := tryOne flip acc.2.1
        (r.1, r.2.1, max acc.2.2.1 r.2.2.1, if r.2.2.1 ≥ acc.2.2.1 then r.2.2.2 else acc.2.2.2)) (none, budget, 0, "")
    let startedOK := match res with
      | some r => r.1
      | none => false
    let feat := match res with
      | some r => r.2.1
      | none => (0, 0, 0, 0)
    let xStartAfter := match res with
      | some r => r.2.2
      | none => true
    let deps := depsAll c st obsAll
    let tgt := targetOK c (some st) obsAll obsErr obsExit
    let evd := evaluatedOK c st obsAll obsErr obsExit
    let rev := obsAll.reverse
    Json.mkObj [
      ("filter", Json.str "ok"),
      ("accept", boolJ (res.isSome && startedOK)),
      ("exhausted", boolJ (left == 0)),
      ("x", boolJ c.x),
      ("x_features", Json.mkObj [("setup_two_selects", toJson feat.1), ("setup_not_scheduled", toJson feat.2.1),
                                 ("calc_processed", toJson feat.2.2.1), ("calc_delivered", toJson feat.2.2.2),
                                 ("start_after_all", boolJ xStartAfter)]),
      ("visited", toJson (budget - left)),
      ("best_prefix", toJson best), ("best_state", Json.str bestS),
      ("model", simJ),
      ("selected", ofNats st.selected),
      ("wf", Json.mkObj [("resolves", boolJ (resolvesB inp)), ("covers", boolJ (coversB inp)), ("trig", boolJ (trigB inp)), ("rx", boolJ (rxB inp)), ("noredef", boolJ (noRedefB inp))]),
      ("prop", Json.mkObj [("once", boolJ (onceOK rev)), ("after", boolJ (afterOK (trigOf inp) rev)),
                           ("obey", boolJ (obeyOK deps inp.noAct rev)), ("utd", boolJ (utdOK inp.utd rev)),
                           ("target", boolJ tgt.1), ("target_why", Json.str tgt.2),
                           ("evaluated", boolJ evd.1), ("evaluated_why", Json.str evd.2)]),
      ("bad_at", Json.mkObj [("once", toJson (firstBad onceOK obsAll)), ("after", toJson (firstBad (afterOK (trigOf inp)) obsAll)),
                             ("obey", toJson (firstBad (obeyOK deps inp.noAct) obsAll)),
                             ("utd", toJson (firstBad (utdOK inp.utd) obsAll))]),
      ("model_prop", Json.mkObj [("once", boolJ (onceOK sim.events)), ("after", boolJ (afterOK (trigOf inp) sim.events))])]

end Driver.Delayed
