import Driver.Util
open Lean
namespace Driver.Delayed
/-- handler for requests with `"model": "delayed"` (stub: filled in when the model exists) -/
def handle (_ : Json) : Json := Driver.err "model not implemented"
end Driver.Delayed
