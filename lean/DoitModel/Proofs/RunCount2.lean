import DoitModel.Proofs.RunCount
/-! # `Inv3` under the runner's own steps: `select_task`, start of execution, `process_task_result` -/
namespace DoitModel.Run

def selGo : Sel → Nat
  | .go => 1 | _ => 0
def selTerm : Sel → Nat
  | .skipIgn => 1 | .unmet => 1 | .depErr => 1 | .utd => 1 | .argsErr => 1 | _ => 0

theorem selEvents_counts (inp : RunInput) (n : Name) (nd : Node) (d : Sel) (m : Name) :
    Counts (selEvents inp n nd d) m (if n = m then selGo d else 0) 0 0 (if n = m then selTerm d else 0) := by
  have c := statusEv_counts nd n m
  cases d <;> constructor <;>
    simp [selEvents, selGo, selTerm, List.countP_cons, Ev.isGoOf, Ev.isStartOf, Ev.isFinOf, Ev.isTerminalOf,
      c.go, c.start, c.fin, c.term]

/-- where a node is when `select_task` answers yes -/
theorem go_yset {inp : RunInput} {s : Sys} {n : Name} {nd : Node} (h : Inv2 inp s) (haw : awaiting s)
    (hsusp : s.susp = some (.node n)) (hn : s.nodes n = some nd) (hd : selDecision inp n nd = .go) :
    YSet inp n nd.pc := by
  obtain ⟨nd', hn', hpc⟩ := h.inv1.sp n hsusp
  rw [hn] at hn'; cases hn'
  rcases hpc with e | e
  · have hnone := h.sel1 haw n nd hsusp hn e
    unfold selDecision at hd
    simp only [hnone, if_true] at hd
    split at hd; · cases hd
    split at hd; · cases hd
    split at hd; · cases hd
    split at hd; · cases hd
    split at hd; · cases hd
    rename_i hsetup
    exact Or.inr (Or.inr ⟨by simpa using hsetup, e⟩)
  · exact Or.inl e

theorem awaiting_holding {s : Sys} (h : awaiting s) (n : Name) : holding s n = 0 := by
  rcases h with e | ⟨r, e⟩ <;> simp [holding, e]

theorem inv3_select {inp : RunInput} {s : Sys} {n : Name} {nd : Node} (rpc' : RPC) (h3 : Inv3 inp s)
    (h2 : Inv2 inp s) (haw : awaiting s) (hsusp : s.susp = some (.node n)) (hn : s.nodes n = some nd)
    (hd : selDecision inp n nd ≠ .assertFail)
    (hr2 : ¬ awaiting { s with rpc := rpc' })
    (hr3 : ∀ m, holding { s with rpc := rpc' } m = if n = m then selGo (selDecision inp n nd) else 0)
    (hr4 : ∀ m, rpc' ≠ .sExec m) :
    Inv3 inp { applySel inp s n nd (selDecision inp n nd) with rpc := rpc' } := by
  obtain ⟨f1, f2, f3, f4, f5, f6, f7, f8⟩ := applySel_frame inp s n nd (selDecision inp n nd)
  have hst := stOf_applySel inp s n nd (selDecision inp n nd) hd
  have hev := applySel_events inp s n nd (selDecision inp n nd)
  have hc : ∀ m, _ := fun m => counts_append (s' := { applySel inp s n nd (selDecision inp n nd) with rpc := rpc' }) hev m
  have sc := selEvents_counts inp n nd (selDecision inp n nd)
  have z0 : cGo s n = 0 := h3.z haw n hsusp
  have hold0 := awaiting_holding haw
  have hunf : nd.status.finished = false := selDecision_unfinished hd
  have hterm0 : cTerm s n = 0 := h3.t n (by simp [stOf, hn, hunf])
  have hh : ∀ m, holding { applySel inp s n nd (selDecision inp n nd) with rpc := rpc' } m
      = if n = m then selGo (selDecision inp n nd) else 0 := hr3
  -- a task in flight is not `n`
  have notN : ∀ m, cGo s m ≥ 1 → n ≠ m := by intro m hm e; subst e; omega
  constructor
  · intro ha; exact absurd ha hr2
  · intro m hm
    rw [(hc m).1, (sc m).go] at hm
    by_cases e : n = m
    · subst e
      simp only [if_true, z0] at hm
      have hgo : selDecision inp n nd = .go := by
        cases hdd : selDecision inp n nd <;> simp [hdd, selGo] at hm
        rfl
      have hys : YSet inp n nd.pc := go_yset h2 haw hsusp hn hgo
      refine ⟨{ nd with status := selStatus (selDecision inp n nd) }, ?_, hys⟩
      show (applySel inp s n nd (selDecision inp n nd)).nodes n = _
      rw [applySel_nodes inp s n nd _ hd]; simp [setNode]
    · simp only [e, if_false, Nat.zero_add] at hm
      obtain ⟨x, a, b⟩ := h3.y m hm
      refine ⟨x, ?_, b⟩
      show (applySel inp s n nd (selDecision inp n nd)).nodes m = _
      rw [applySel_nodes inp s n nd _ hd]; simp [setNode, Ne.symm e, a]
  · intro m
    rw [(hc m).1, (hc m).2.1, (hc m).2.2.1, (sc m).go, (sc m).start, (sc m).fin]
    have := h3.p0 m
    by_cases e : n = m
    · subst e; simp only [if_true]
      have : selGo (selDecision inp n nd) ≤ 1 := by cases selDecision inp n nd <;> simp [selGo]
      omega
    · simp only [e, if_false]; omega
  · intro m
    rw [(hc m).1, (hc m).2.1, (sc m).go, (sc m).start, hh m]
    have := h3.j m
    rw [hold0] at this
    show (applySel inp s n nd (selDecision inp n nd)).jobQ.count _ + _ + _ = _
    rw [f6]; omega
  · intro w m hw
    have hw' : s.workers w = .running m := by rw [← f8]; exact hw
    obtain ⟨a, b, c⟩ := h3.w1 w m hw'
    have hne : n ≠ m := notN m (by have := h3.j m; omega)
    rw [(hc m).2.1, (hc m).2.2.1, (sc m).start, (sc m).fin]
    refine ⟨by omega, by omega, ?_⟩
    show stOf (applySel inp s n nd (selDecision inp n nd)) m = .run
    rw [hst]; simp [Ne.symm hne, c]
  · intro w w' m a b
    exact h3.w2 w w' m (by rw [← f8]; exact a) (by rw [← f8]; exact b)
  · intro m hm
    have hm' : m ∈ s.resQ := by rw [← f7]; exact hm
    obtain ⟨a, c⟩ := h3.q1 m hm'
    have hne : n ≠ m := notN m (by have := h3.j m; have := h3.p0 m; omega)
    rw [(hc m).2.2.1, (sc m).fin]
    refine ⟨by omega, ?_⟩
    show stOf (applySel inp s n nd (selDecision inp n nd)) m = .run
    rw [hst]; simp [Ne.symm hne, c]
  · show (applySel inp s n nd (selDecision inp n nd)).resQ.Nodup; rw [f7]; exact h3.q2
  · intro m hm
    show stOf (applySel inp s n nd (selDecision inp n nd)) m = .run
    rw [hst]
    rcases hm with a | a
    · have a' : Job.task m ∈ s.jobQ := by rw [← f6]; exact a
      have hne : n ≠ m := notN m (by have := h3.j m; have := count_task_pos.mp a'; omega)
      simp [Ne.symm hne, h3.j2 m (Or.inl a')]
    · rw [hh m] at a
      by_cases e : n = m
      · subst e
        simp only [if_true] at a ⊢
        cases hdd : selDecision inp n nd <;> simp [hdd, selGo] at a
        simp [selStatus]
      · simp [e] at a
  · intro m hm; exact absurd hm (hr4 m)
  · intro m w hm; exact absurd hm (hr4 m)
  · intro m hm
    have hm' : (stOf (applySel inp s n nd (selDecision inp n nd)) m).finished = false := hm
    rw [hst] at hm'
    rw [(hc m).2.2.2, (sc m).term]
    by_cases e : n = m
    · subst e
      simp only [if_true] at hm' ⊢
      cases hdd : selDecision inp n nd <;> simp [hdd, selStatus, RS.finished] at hm' <;> simp [selTerm, hterm0]
    · simp only [Ne.symm e, e, if_false] at hm' ⊢
      simpa using h3.t m hm'
  · intro m
    rw [(hc m).2.2.2, (sc m).term]
    by_cases e : n = m
    · subst e; simp only [if_true, hterm0]
      cases selDecision inp n nd <;> simp [selTerm]
    · simp only [e, if_false]; have := h3.t2 m; omega


/-- nodes and dispatcher untouched, new events contain no `go` and no terminal report; the flight clauses are supplied -/
theorem Inv3.outer {inp : RunInput} {s s' : Sys} (h : Inv3 inp s) (e1 : s'.nodes = s.nodes) (e5 : s'.susp = s.susp)
    (new : List Ev) (hev : s'.events = new ++ s.events)
    (hng : ∀ m, new.countP (Ev.isGoOf m) = 0 ∧ new.countP (Ev.isTerminalOf m) = 0)
    (haw : awaiting s' → awaiting s)
    (hp0 : ∀ n, cFin s' n ≤ cStart s' n)
    (hj : ∀ n, s'.jobQ.count (.task n) + holding s' n + cStart s' n = cGo s' n)
    (hw1 : ∀ w n, s'.workers w = .running n → cStart s' n = 1 ∧ cFin s' n = 0 ∧ stOf s n = .run)
    (hw2 : ∀ w w' n, s'.workers w = .running n → s'.workers w' = .running n → w = w')
    (hq1 : ∀ n ∈ s'.resQ, cFin s' n = 1 ∧ stOf s n = .run) (hq2 : s'.resQ.Nodup)
    (hj2 : ∀ n, (Job.task n ∈ s'.jobQ ∨ holding s' n = 1) → stOf s n = .run)
    (hx3 : ∀ n, s'.rpc = .sExec n → cStart s' n = 1 ∧ cFin s' n = 0)
    (hxw : ∀ n w, s'.rpc = .sExec n → s'.workers w ≠ .running n) : Inv3 inp s' := by
  have hst : ∀ x, stOf s' x = stOf s x := stOf_congr e1
  have hc := fun m => counts_append hev m
  constructor
  · intro ha n hn; rw [(hc n).1, (hng n).1, Nat.zero_add]; rw [e5] at hn; exact h.z (haw ha) n hn
  · intro n hn; rw [(hc n).1, (hng n).1, Nat.zero_add] at hn; rw [e1]; exact h.y n hn
  · intro n; refine ⟨?_, hp0 n⟩; rw [(hc n).1, (hng n).1, Nat.zero_add]; exact (h.p0 n).1
  · exact hj
  · intro w n hw; rw [hst]; exact hw1 w n hw
  · exact hw2
  · intro n hn; rw [hst]; exact hq1 n hn
  · exact hq2
  · intro n hn; rw [hst]; exact hj2 n hn
  · exact hx3
  · exact hxw
  · intro n hn; rw [hst] at hn; rw [(hc n).2.2.2, (hng n).2, Nat.zero_add]; exact h.t n hn
  · intro n; rw [(hc n).2.2.2, (hng n).2, Nat.zero_add]; exact h.t2 n

/-- only the runner's program counter changes, between positions that hold no job and execute nothing -/
theorem inv3_rpc {inp : RunInput} {s s' : Sys} (h : Inv3 inp s) (e1 : s'.nodes = s.nodes) (e5 : s'.susp = s.susp)
    (e6 : s'.events = s.events) (e7 : s'.jobQ = s.jobQ) (e8 : s'.resQ = s.resQ) (e9 : s'.workers = s.workers)
    (haw : ¬ awaiting s') (hh : ∀ n, holding s' n = 0) (hh0 : ∀ n, holding s n = 0)
    (hx : ∀ n, s'.rpc ≠ .sExec n) : Inv3 inp s' := by
  have hc := fun m => counts_same e6 m
  refine h.outer e1 e5 [] (by simpa using e6) (by simp) (fun a => absurd a haw) ?_ ?_ ?_ ?_ ?_ ?_ ?_ ?_ ?_
  · intro n; rw [(hc n).2.1, (hc n).2.2.1]; exact (h.p0 n).2
  · intro n; rw [e7, hh, (hc n).1, (hc n).2.1]; have := h.j n; rw [hh0] at this; exact this
  · intro w n hw; rw [e9] at hw; rw [(hc n).2.1, (hc n).2.2.1]; exact h.w1 w n hw
  · intro w w' n a b; rw [e9] at a b; exact h.w2 w w' n a b
  · intro n hn; rw [e8] at hn; rw [(hc n).2.2.1]; exact h.q1 n hn
  · rw [e8]; exact h.q2
  · intro n hn; rw [e7, hh] at hn
    rcases hn with a | a
    · exact h.j2 n (Or.inl a)
    · cases a
  · intro n hn; exact absurd hn (hx n)
  · intro n w hn; exact absurd hn (hx n)

theorem startTask_counts (inp : RunInput) (n w : Nat) (m : Name) :
    Counts (if inp.runner = .process then [Ev.start n w] else [Ev.start n w, Ev.execute n]) m 0
      (if n = m then 1 else 0) 0 0 := by
  split <;> constructor <;> simp [List.countP_cons, Ev.isGoOf, Ev.isStartOf, Ev.isFinOf, Ev.isTerminalOf]

theorem startTask_events (inp : RunInput) (s : Sys) (n w : Nat) :
    (startTask inp s n w).events =
      (if inp.runner = .process then [Ev.start n w] else [Ev.start n w, Ev.execute n]) ++ s.events := by
  unfold startTask
  by_cases hp : inp.runner = .process <;> simp [hp]

/-- the serial runner starts executing the task whose job it holds (`rpc = gRet (task n)` stands for "select said yes") -/
theorem inv3_startHeld {inp : RunInput} {s : Sys} {n : Name} {ret : Ret} (h : Inv3 inp s)
    (hr : s.rpc = .gRet (.task n) ret) : Inv3 inp { startTask inp s n 0 with rpc := .sExec n } := by
  have hev := startTask_events inp s n 0
  have sc := startTask_counts inp n 0
  have hc : ∀ m, _ := fun m => counts_append (s' := { startTask inp s n 0 with rpc := .sExec n }) hev m
  have hold : ∀ m, holding s m = if n = m then 1 else 0 := by intro m; simp [holding, hr]
  have hold' : ∀ m, holding { startTask inp s n 0 with rpc := .sExec n } m = 0 := by intro m; simp [holding]
  have key : cStart s n = 0 ∧ cFin s n = 0 := by
    have := h.j n; have := h.p0 n; rw [hold] at *; simp only [if_true] at *; omega
  refine h.outer rfl rfl _ hev (fun m => ⟨(sc m).go, (sc m).term⟩) ?_ ?_ ?_ ?_ ?_ ?_ ?_ ?_ ?_ ?_
  · intro a; rcases a with a | ⟨r, a⟩ <;> cases a
  · intro m; rw [(hc m).2.1, (hc m).2.2.1, (sc m).start, (sc m).fin]; have := (h.p0 m).2; omega
  · intro m; rw [hold', (hc m).1, (hc m).2.1, (sc m).go, (sc m).start]
    have := h.j m; rw [hold] at this
    show s.jobQ.count _ + _ + _ = _
    by_cases e : n = m <;> simp only [e, if_true, if_false] at this ⊢ <;> omega
  · intro w m hw
    obtain ⟨a, b, c⟩ := h.w1 w m hw
    rw [(hc m).2.1, (hc m).2.2.1, (sc m).start, (sc m).fin]
    have hne : n ≠ m := by intro e; subst e; omega
    simp only [hne, if_false]; exact ⟨by omega, by omega, c⟩
  · exact h.w2
  · intro m hm
    obtain ⟨a, c⟩ := h.q1 m hm
    rw [(hc m).2.2.1, (sc m).fin]; exact ⟨by omega, c⟩
  · exact h.q2
  · intro m hm; rw [hold'] at hm
    rcases hm with a | a
    · exact h.j2 m (Or.inl a)
    · cases a
  · intro m hm
    cases hm
    rw [(hc n).2.1, (hc n).2.2.1, (sc n).start, (sc n).fin]; simp only [if_true]; omega
  · intro m w hm hw
    cases hm
    have := (h.w1 w n hw).1; omega


theorem resEvents_counts (n : Name) (o : Outcome) (m : Name) :
    Counts (resEvents n o) m 0 0 0 (if n = m then 1 else 0) := by
  cases o <;> constructor <;> simp [resEvents, List.countP_cons, Ev.isGoOf, Ev.isStartOf, Ev.isFinOf, Ev.isTerminalOf]

/-- `process_task_result(n)`: the status of `n` (`run` before) becomes final; `pre` are events added just before
    (the serial runner's end-of-action event).  The flight clauses of the new state are supplied by the caller. -/
theorem Inv3.finish {inp : RunInput} {s s' : Sys} {n : Name} {nd : Node} (h : Inv3 inp s)
    (hn : s.nodes n = some nd) (hrun : nd.status = .run) (st' : RS) (hfin : st'.finished = true)
    (e1 : s'.nodes = (setNode s n { nd with status := st' }).nodes) (e5 : s'.susp = s.susp)
    (new : List Ev) (hev : s'.events = new ++ s.events)
    (hng : ∀ m, new.countP (Ev.isGoOf m) = 0 ∧ new.countP (Ev.isTerminalOf m) = if n = m then 1 else 0)
    (haw : ¬ awaiting s')
    (hp0 : ∀ m, cFin s' m ≤ cStart s' m)
    (hj : ∀ m, s'.jobQ.count (.task m) + holding s' m + cStart s' m = cGo s' m)
    (hw1 : ∀ w m, s'.workers w = .running m → cStart s' m = 1 ∧ cFin s' m = 0 ∧ stOf s m = .run ∧ m ≠ n)
    (hw2 : ∀ w w' m, s'.workers w = .running m → s'.workers w' = .running m → w = w')
    (hq1 : ∀ m ∈ s'.resQ, cFin s' m = 1 ∧ stOf s m = .run ∧ m ≠ n) (hq2 : s'.resQ.Nodup)
    (hj2 : ∀ m, (Job.task m ∈ s'.jobQ ∨ holding s' m = 1) → stOf s m = .run ∧ m ≠ n)
    (hx : ∀ m, s'.rpc ≠ .sExec m) : Inv3 inp s' := by
  have hst : ∀ x, stOf s' x = if x = n then st' else stOf s x := by
    intro x; rw [stOf_congr e1, stOf_setNode]
  have hc := fun m => counts_append hev m
  have hterm0 : cTerm s n = 0 := h.t n (by simp [stOf, hn, hrun, RS.finished])
  constructor
  · intro ha; exact absurd ha haw
  · intro m hm; rw [(hc m).1, (hng m).1, Nat.zero_add] at hm
    obtain ⟨x, a, b⟩ := h.y m hm
    rw [e1]
    by_cases e : m = n
    · subst e; rw [hn] at a; cases a; exact ⟨_, setNode_self _ _ _, b⟩
    · exact ⟨x, by simp [setNode, e, a], b⟩
  · intro m; refine ⟨?_, hp0 m⟩; rw [(hc m).1, (hng m).1, Nat.zero_add]; exact (h.p0 m).1
  · exact hj
  · intro w m hw
    obtain ⟨a, b, c, d⟩ := hw1 w m hw
    exact ⟨a, b, by rw [hst]; simp [d, c]⟩
  · exact hw2
  · intro m hm
    obtain ⟨a, c, d⟩ := hq1 m hm
    exact ⟨a, by rw [hst]; simp [d, c]⟩
  · exact hq2
  · intro m hm
    obtain ⟨c, d⟩ := hj2 m hm
    rw [hst]; simp [d, c]
  · intro m hm; exact absurd hm (hx m)
  · intro m w hm; exact absurd hm (hx m)
  · intro m hm
    rw [hst] at hm
    rw [(hc m).2.2.2, (hng m).2]
    by_cases e : m = n
    · subst e; simp only [if_true] at hm; rw [hfin] at hm; cases hm
    · simp only [e, if_false] at hm
      have : ¬ n = m := fun e' => e e'.symm
      simp only [this, if_false, Nat.zero_add]; exact h.t m hm
  · intro m
    rw [(hc m).2.2.2, (hng m).2]
    by_cases e : n = m
    · subst e; simp only [if_true, hterm0]; omega
    · simp only [e, if_false, Nat.zero_add]; exact h.t2 m

theorem resStatus_finished (o : Outcome) : (resStatus o).finished = true := by cases o <;> rfl

/-- the serial runner: end of the action and `process_task_result` -/
theorem inv3_result_serial {inp : RunInput} {s : Sys} {n : Name} {nd : Node} (h : Inv3 inp s)
    (hr : s.rpc = .sExec n) (hn : s.nodes n = some nd) (hrun : nd.status = .run) :
    Inv3 inp { processResult inp { s with events := Ev.fin n 0 :: s.events } n nd with rpc := .sTop (some n) } := by
  obtain ⟨f1, f2, f3, f4, f5, f6, f7, f8⟩ := processResult_frame inp { s with events := Ev.fin n 0 :: s.events } n nd
  have hev : (processResult inp { s with events := Ev.fin n 0 :: s.events } n nd).events
      = (resEvents n (inp.outcome n) ++ [Ev.fin n 0]) ++ s.events := by
    rw [processResult_events]; simp
  have rc := resEvents_counts n (inp.outcome n)
  have cnt : ∀ m, Counts (resEvents n (inp.outcome n) ++ [Ev.fin n 0]) m 0 0 (if n = m then 1 else 0)
      (if n = m then 1 else 0) := by
    intro m
    constructor <;> simp [List.countP_append, (rc m).go, (rc m).start, (rc m).fin, (rc m).term, List.countP_cons,
      Ev.isGoOf, Ev.isStartOf, Ev.isFinOf, Ev.isTerminalOf]
  have hc : ∀ m, _ := fun m => counts_append
    (s' := { processResult inp { s with events := Ev.fin n 0 :: s.events } n nd with rpc := .sTop (some n) }) hev m
  obtain ⟨x1, x2⟩ := h.x3 n hr
  have hold : ∀ m, holding s m = 0 := by intro m; simp [holding, hr]
  have hold' : ∀ m, holding { processResult inp { s with events := Ev.fin n 0 :: s.events } n nd
      with rpc := .sTop (some n) } m = 0 := by intro m; simp [holding]
  refine h.finish hn hrun (resStatus (inp.outcome n)) (resStatus_finished _)
    (processResult_nodes inp _ n nd) f4 _ hev (fun m => ⟨(cnt m).go, (cnt m).term⟩) ?_ ?_ ?_ ?_ ?_ ?_ ?_ ?_ ?_
  · intro a; rcases a with a | ⟨r, a⟩ <;> cases a
  · intro m; rw [(hc m).2.1, (hc m).2.2.1, (cnt m).start, (cnt m).fin]
    have := (h.p0 m).2
    by_cases e : n = m
    · subst e; simp only [if_true]; omega
    · simp only [e, if_false]; omega
  · intro m; rw [hold', (hc m).1, (hc m).2.1, (cnt m).go, (cnt m).start]
    have := h.j m; rw [hold] at this
    show (processResult inp { s with events := Ev.fin n 0 :: s.events } n nd).jobQ.count _ + _ + _ = _
    rw [f6]; show s.jobQ.count _ + _ + _ = _; omega
  · intro w m hw
    have hw' : s.workers w = .running m := by rw [← f8]; exact hw
    obtain ⟨a, b, c⟩ := h.w1 w m hw'
    have hne : m ≠ n := by intro e; subst e; exact h.xw m w hr hw'
    have hne' : ¬ n = m := fun e => hne e.symm
    rw [(hc m).2.1, (hc m).2.2.1, (cnt m).start, (cnt m).fin]
    simp only [hne', if_false]
    exact ⟨by omega, by omega, c, hne⟩
  · intro w w' m a b
    exact h.w2 w w' m (by rw [← f8]; exact a) (by rw [← f8]; exact b)
  · intro m hm
    have hm' : m ∈ s.resQ := by rw [← f7]; exact hm
    obtain ⟨a, c⟩ := h.q1 m hm'
    have hne : m ≠ n := by intro e; subst e; omega
    have hne' : ¬ n = m := fun e => hne e.symm
    rw [(hc m).2.2.1, (cnt m).fin]; simp only [hne', if_false]
    exact ⟨by omega, c, hne⟩
  · show (processResult inp { s with events := Ev.fin n 0 :: s.events } n nd).resQ.Nodup
    rw [f7]; exact h.q2
  · intro m hm
    rw [hold'] at hm
    rcases hm with a | a
    · have a' : Job.task m ∈ s.jobQ := by rw [← f6]; exact a
      refine ⟨h.j2 m (Or.inl a'), ?_⟩
      intro e; subst e
      have := h.j m; have := count_task_pos.mp a'; have := (h.p0 m).1; omega
    · cases a
  · intro m a; cases a

end DoitModel.Run
