import DoitModel.Model.Opt
/-! M4: the concrete option table / environment / assignments used by the non-vacuity examples and the pinned
    counterexample theorems of `Props/C16.lean` -/
namespace DoitModel.Opt

/-- what a caller sees of a result: the values of the named options and the positionals -/
def observe (names : List Str) : Except Err (Params × List Str) → Option (List (Option Val) × List Str)
  | .ok (p, pos) => some (names.map p.vals, pos)
  | .error _ => none

def demoSpec : List Opt :=
  [ { name := ['f'], ty := .bool, default := .b false, short := some 'f', long := ['f','l','a','g'],
      inverse := ['n','o','-','f','l','a','g'], choices := [], envVar := none },
    { name := ['n'], ty := .int, default := .i 0, short := some 'n', long := ['n','u','m'], inverse := [],
      choices := [], envVar := some ['E','N'] },
    { name := ['l'], ty := .list, default := .l [['d']], short := some 'l', long := ['l','s','t'], inverse := [],
      choices := [], envVar := none } ]

def demoEnv : Str → Option Str := fun k => if k = ['E','N'] then some ['5'] else none

/-- `-fn3 --lst=a -l b --no-flag task -x` -/
def demoAsgs : List Asg :=
  [.sAtt ['f'] 'n' ['3'], .lEq ['l','s','t'] ['a'], .sDet [] 'l' ['b'], .lFlag ['n','o','-','f','l','a','g']]

/-- a table with a `backend`-like option (choices attached late) -/
def demoBackend : List Opt :=
  [ { name := ['b'], ty := .str, default := .s ['d','b','m'], short := none, long := ['b','a','c','k','e','n','d'],
      inverse := [], choices := [.s ['d','b','m'], .s ['j','s','o','n']], envVar := none } ]

def errOf {α : Type} : Except Err α → Option Err
  | .error e => some e
  | .ok _ => none

end DoitModel.Opt
