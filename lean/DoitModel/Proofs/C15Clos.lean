import DoitModel.Proofs.C15Obey3
import DoitModel.Proofs.C15Target
/-! # Delayed creation: nothing outside the closure of the selection gets a node

`InClos inp s n`: `n` is reachable from the selected tasks through task_dep edges of the `Task` objects the nodes hold
(`nodeDeps`) or of the initial table entries (`origDeps`: for a placeholder the creator's `executed` and what
`_filter_tasks`/`Task.__init__` put there).  `ClosInv`: every node is in the closure.  A `start t` needs a node, so
every task that is handed to execution is in the closure ("exactly the producer and what it depends on"). -/
namespace DoitModel.Delayed
open DoitModel.Run (RS Name)

def origDeps (inp : Input) (p : Name) : List Name :=
  match lookup0 inp.tasks0 p with
  | some td => td.deps
  | none => []

inductive InClos (inp : Input) (s : Sys) : Name → Prop
  | sel {n : Name} : n ∈ inp.sel → InClos inp s n
  | dep {p n : Name} : InClos inp s p → (n ∈ nodeDeps s p ∨ n ∈ origDeps inp p) → InClos inp s n

theorem InClos.mono {inp : Input} {s s' : Sys}
    (hm : ∀ p n, n ∈ nodeDeps s p → n ∈ nodeDeps s' p ∨ n ∈ origDeps inp p) {n : Name} (h : InClos inp s n) :
    InClos inp s' n := by
  induction h with
  | sel hs => exact .sel hs
  | dep _ hd ih =>
    rcases hd with hd | hd
    · exact .dep ih (hm _ _ hd)
    · exact .dep ih (Or.inr hd)

def NodeC (nd : Node) : Prop :=
  (∀ d ∈ nd.pend, d ∈ nd.task.deps) ∧ (∀ ds, nd.pc = .taskIter ds → ∀ d ∈ ds, d ∈ nd.task.deps)

structure ClosInv (inp : Input) (s : Sys) : Prop where
  node : ∀ n nd, s.nodes n = some nd →
    InClos inp s n ∧ NodeC nd ∧ (nd.task.loader ≠ none → lookup0 inp.tasks0 n = some nd.task)
  tab : ∀ n td, s.tasks n = some td → td.loader ≠ none → lookup0 inp.tasks0 n = some td
  toRun : ∀ t ∈ s.toRun, t ∈ inp.sel

theorem nodeDeps_setNode (s : Sys) (n : Name) (x : Node) (p : Name) :
    nodeDeps (setNode s n x) p = if p = n then x.task.deps else nodeDeps s p := by
  by_cases h : p = n <;> simp [nodeDeps, setNode, h]

theorem ClosInv.congr {inp : Input} {s s' : Sys} (h : ClosInv inp s) (h1 : s'.tasks = s.tasks)
    (h2 : s'.nodes = s.nodes) (h3 : ∀ t ∈ s'.toRun, t ∈ s.toRun) : ClosInv inp s' := by
  have hm : ∀ p n, n ∈ nodeDeps s p → n ∈ nodeDeps s' p ∨ n ∈ origDeps inp p := by
    intro p n hn; rw [nodeDeps_congr h2]; exact Or.inl hn
  constructor
  · intro n nd hn; rw [h2] at hn
    obtain ⟨a, b, c⟩ := h.node n nd hn
    exact ⟨a.mono hm, b, c⟩
  · intro n td hn; rw [h1] at hn; exact h.tab n td hn
  · intro t ht; exact h.toRun t (h3 t ht)

/-- replace node `n` by `x` holding the same task object -/
theorem clos_setNode {inp : Input} {s : Sys} {n : Name} {nd x : Node} (h : ClosInv inp s)
    (hn : s.nodes n = some nd) (ht : x.task = nd.task) (hc : NodeC x) : ClosInv inp (setNode s n x) := by
  have hm : ∀ p k, k ∈ nodeDeps s p → k ∈ nodeDeps (setNode s n x) p ∨ k ∈ origDeps inp p := by
    intro p k hk
    rw [nodeDeps_setNode]
    by_cases hp : p = n
    · subst hp; simp only [if_true]; rw [ht]; left; simpa [nodeDeps, hn] using hk
    · simp only [hp, if_false]; exact Or.inl hk
  constructor
  · intro k nd' hk
    simp only [setNode] at hk
    split at hk
    · rename_i e; subst e; cases hk
      obtain ⟨a, _, c⟩ := h.node k nd hn
      exact ⟨a.mono hm, hc, by rw [ht]; exact c⟩
    · obtain ⟨a, b, c⟩ := h.node k nd' hk
      exact ⟨a.mono hm, b, c⟩
  · exact h.tab
  · exact h.toRun

/-- a new node for a task of the table that is in the closure -/
theorem clos_newNode {inp : Input} {s : Sys} {d : Name} {td : TDef} (anc : List Name) (h : ClosInv inp s)
    (hd : s.nodes d = none) (ht : s.tasks d = some td) (hin : InClos inp s d) :
    ClosInv inp (setNode s d (mkNodeI s₀ d₀ td anc)) := by
  have hm : ∀ p k, k ∈ nodeDeps s p → k ∈ nodeDeps (setNode s d (mkNodeI s₀ d₀ td anc)) p ∨ k ∈ origDeps inp p := by
    intro p k hk
    rw [nodeDeps_setNode]
    by_cases hp : p = d
    · subst hp; simp [nodeDeps, hd] at hk
    · simp only [hp, if_false]; exact Or.inl hk
  constructor
  · intro k nd' hk
    simp only [setNode] at hk
    split at hk
    · rename_i e; subst e; cases hk
      exact ⟨hin.mono hm, ⟨fun x hx => hx, fun ds e => by simp [mkNodeI, mkNodeI, mkNode] at e⟩, fun hl => h.tab k td ht hl⟩
    · obtain ⟨a, b, c⟩ := h.node k nd' hk
      exact ⟨a.mono hm, b, c⟩
  · exact h.tab
  · exact h.toRun

theorem clos_registerWaiting {inp : Input} {s : Sys} (n : Name) (wf : List Name) (h : ClosInv inp s) :
    ClosInv inp (registerWaiting s n wf) := by
  have hdeps : nodeDeps (registerWaiting s n wf) = nodeDeps s := by
    funext d
    cases hx : s.nodes d with
    | none => simp [nodeDeps, registerWaiting, hx]
    | some x =>
      by_cases hm : d ∈ wf
      · simp only [nodeDeps, registerWaiting, hx, hm, if_true]; unfold Node.addWaiting; split <;> rfl
      · simp only [nodeDeps, registerWaiting, hx, hm, if_false]
  have hm : ∀ p k, k ∈ nodeDeps s p → k ∈ nodeDeps (registerWaiting s n wf) p ∨ k ∈ origDeps inp p := by
    intro p k hk; rw [hdeps]; exact Or.inl hk
  constructor
  · intro k nd' hk
    simp only [registerWaiting] at hk
    cases hx : s.nodes k with
    | none => simp [hx] at hk
    | some x =>
      simp only [hx] at hk
      obtain ⟨a, b, c⟩ := h.node k x hx
      split at hk
      · cases hk
        unfold Node.addWaiting
        split
        · exact ⟨a.mono hm, b, c⟩
        · exact ⟨a.mono hm, b, c⟩
      · cases hk; exact ⟨a.mono hm, b, c⟩
  · exact h.tab
  · exact h.toRun

theorem clos_genStep {inp : Input} {s : Sys} {n : Name} {nd : Node} (h : ClosInv inp s) (hn : s.nodes n = some nd)
    (d : Name) (ds : List Name) (hpc : nd.pc = .taskIter (d :: ds)) :
    ClosInv inp (genStep s n nd d (.taskIter ds)) := by
  obtain ⟨hin, hc, _⟩ := h.node n nd hn
  have hx : NodeC { nd with pc := .taskIter ds } :=
    ⟨hc.1, fun ds' e => by cases e; exact fun x hx => hc.2 _ hpc x (List.mem_cons_of_mem _ hx)⟩
  have hdd : d ∈ nodeDeps s n := by simpa [nodeDeps, hn] using hc.2 _ hpc d List.mem_cons_self
  unfold genStep
  cases hd : s.nodes d with
  | some x =>
    simp only []
    split
    · exact h.congr rfl rfl (fun _ ht => ht)
    · exact clos_setNode h hn rfl hx
  | none =>
    simp only []
    cases ht : s.tasks d with
    | none => exact h.congr rfl rfl (fun _ ht => ht)
    | some td =>
      simp only []
      have hnd : n ≠ d := by intro e; subst e; rw [hn] at hd; cases hd
      have h1 := clos_newNode (s₀ := s) (d₀ := d) (nd.anc ++ [d]) h hd ht (.dep hin (Or.inl hdd))
      have hn' : (setNode s d (mkNodeI s d td (nd.anc ++ [d]))).nodes n = some nd := by simp [setNode, hnd, hn]
      exact (clos_setNode (x := { nd with pc := .taskIter ds }) h1 hn' rfl hx).congr rfl rfl (fun _ ht => ht)

theorem clos_addWaitRun {inp : Input} {s : Sys} {n : Name} {nd : Node} (h : ClosInv inp s)
    (hn : s.nodes n = some nd) (ds : List Name) : ClosInv inp (addWaitRun s n nd ds .afterDeps) := by
  unfold addWaitRun
  apply clos_registerWaiting
  exact clos_setNode h hn rfl ⟨(h.node n nd hn).2.1.1, fun ds' e => by cases e⟩

theorem clos_wakeOne {inp : Input} {s : Sys} {w : Name} {nd : Node} (h : ClosInv inp s) (hn : s.nodes w = some nd)
    (pst : RS) (p : Name) : ClosInv inp (wakeOne s pst p w nd) := by
  have hx : NodeC (wokenNode pst p nd) := (h.node w nd hn).2.1
  unfold wakeOne
  split
  · exact (clos_setNode (x := wokenNode pst p nd) h hn rfl hx).congr rfl rfl (fun _ ht => ht)
  · exact clos_setNode (x := wokenNode pst p nd) h hn rfl hx

theorem clos_updateWaiting {inp : Input} (pst : RS) (p : Name) (perm : List Name) :
    ∀ (s s' : Sys), ClosInv inp s → updateWaiting pst p s perm = some s' → ClosInv inp s' := by
  induction perm with
  | nil => intro s s' h hu; simp only [updateWaiting] at hu; cases hu; exact h
  | cons w ws ih =>
    intro s s' h hu
    simp only [updateWaiting] at hu
    cases hw : s.nodes w with
    | none => simp only [hw] at hu; exact ih s s' h hu
    | some nd =>
      simp only [hw] at hu
      split at hu
      · cases hu
      · exact ih _ _ (clos_wakeOne h hw pst p) hu

theorem clos_feed {inp : Input} {s s' : Sys} {p : Name} {perm : List Name} (h : ClosInv inp s)
    (hf : feed s p perm = some s') : ClosInv inp s' := by
  unfold feed at hf
  cases hp : s.nodes p with
  | none => simp only [hp] at hf; cases hf; exact h.congr rfl rfl (fun _ ht => ht)
  | some nd =>
    simp only [hp] at hf
    split at hf
    · split at hf
      · cases hu : updateWaiting nd.status p { s with dispatched := s.dispatched.filter (· ≠ p) } perm with
        | none => simp only [hu] at hf; cases hf; exact h.congr rfl rfl (fun _ ht => ht)
        | some s1 =>
          simp only [hu] at hf; cases hf
          have h0 : ClosInv inp { s with dispatched := s.dispatched.filter (· ≠ p) } :=
            h.congr rfl rfl (fun _ ht => ht)
          exact (clos_updateWaiting _ _ _ _ _ h0 hu).congr rfl rfl (fun _ ht => ht)
      · cases hf
    · cases hf; exact h.congr rfl rfl (fun _ ht => ht)

theorem clos_nodeStep {inp : Input} {s : Sys} {n : Name} {nd : Node} (h : ClosInv inp s)
    (hn : s.nodes n = some nd) (hl : nd.pc = .loaderPc → nd.task.loader = none) :
    ClosInv inp (nodeStep inp s n nd) := by
  obtain ⟨_, hc, _⟩ := h.node n nd hn
  have hq : ∀ pc', (∀ ds, pc' ≠ .taskIter ds) → NodeC { nd with pc := pc' } :=
    fun pc' hne => ⟨hc.1, fun ds e => absurd e (hne ds)⟩
  unfold nodeStep
  cases hpc : nd.pc with
  | start =>
    simp only []
    split
    · exact clos_setNode h hn rfl (hq _ (fun ds e => by cases e))
    · exact clos_setNode h hn rfl (hq _ (fun ds e => by cases e))
  | loopTop =>
    exact clos_setNode h hn rfl ⟨fun d hd => (by cases hd), fun ds e => (by injection e with e; subst e; exact hc.1)⟩
  | taskIter todo =>
    cases todo with
    | nil => exact clos_addWaitRun h hn _
    | cons d ds => exact clos_genStep h hn d ds hpc
  | afterDeps =>
    simp only []
    split
    · exact clos_setNode h hn rfl (hq _ (fun ds e => by cases e))
    · split
      · exact (clos_setNode (x := { nd with pc := .loopTop }) h hn rfl (hq _ (fun ds e => by cases e))).congr
          rfl rfl (fun _ ht => ht)
      · exact clos_setNode h hn rfl (hq _ (fun ds e => by cases e))
  | loaderPc =>
    simp only [hl hpc]
    exact clos_setNode h hn rfl (hq _ (fun ds e => by cases e))
  | self1 =>
    exact (clos_setNode (x := { nd with pc := .done }) h hn rfl (hq _ (fun ds e => by cases e))).congr
      rfl rfl (fun _ ht => ht)
  | done => exact h.congr rfl rfl (fun _ ht => ht)

/-! ### the loader section -/

theorem clos_regexBlock {inp : Input} {s : Sys} (l : LId) (g : GId) (h : ClosInv inp s) :
    ClosInv inp (regexBlock inp s l g) := by
  unfold regexBlock
  split
  · exact h.congr rfl rfl (fun _ ht => ht)
  · split
    · exact h.congr rfl rfl (fun _ ht => ht)
    · split
      · split <;> exact h.congr rfl rfl (fun _ ht => ht)
      · exact h.congr rfl rfl (fun _ ht => ht)

/-- the node is reset to another task object whose dependencies extend the old ones, or to the table entry while the
    old object was the initial placeholder -/
theorem clos_reset {inp : Input} {s : Sys} {n : Name} {nd : Node} {t : TDef} (h : ClosInv inp s)
    (hn : s.nodes n = some nd)
    (hdeps : ∀ d ∈ nd.task.deps, d ∈ t.deps ∨ d ∈ origDeps inp n)
    (horig : t.loader ≠ none → lookup0 inp.tasks0 n = some t) :
    ClosInv inp (setNode s n { nd with task := t, pend := t.deps, pc := .start }) := by
  have hm : ∀ p k, k ∈ nodeDeps s p →
      k ∈ nodeDeps (setNode s n { nd with task := t, pend := t.deps, pc := .start }) p ∨ k ∈ origDeps inp p := by
    intro p k hk
    rw [nodeDeps_setNode]
    by_cases hp : p = n
    · subst hp; simp only [if_true]
      exact hdeps k (by simpa [nodeDeps, hn] using hk)
    · simp only [hp, if_false]; exact Or.inl hk
  constructor
  · intro k nd' hk
    simp only [setNode] at hk
    split at hk
    · rename_i e; subst e; cases hk
      obtain ⟨a, _, _⟩ := h.node k nd hn
      exact ⟨a.mono hm, ⟨fun x hx => hx, fun ds e => by cases e⟩, horig⟩
    · obtain ⟨a, b, c⟩ := h.node k nd' hk
      exact ⟨a.mono hm, b, c⟩
  · exact h.tab
  · exact h.toRun

theorem ClosInv.setTasks {inp : Input} {s s' : Sys} (h : ClosInv inp s) (h2 : s'.nodes = s.nodes)
    (h3 : s'.toRun = s.toRun) (ht : ∀ n td, s'.tasks n = some td → td.loader ≠ none → lookup0 inp.tasks0 n = some td) :
    ClosInv inp s' := by
  have hm : ∀ p n, n ∈ nodeDeps s p → n ∈ nodeDeps s' p ∨ n ∈ origDeps inp p := by
    intro p n hn; rw [nodeDeps_congr h2]; exact Or.inl hn
  constructor
  · intro n nd hn; rw [h2] at hn
    obtain ⟨a, b, c⟩ := h.node n nd hn
    exact ⟨a.mono hm, b, c⟩
  · exact ht
  · intro t ht'; rw [h3] at ht'; exact h.toRun t ht'

theorem mutated_deps_sub (s : Sys) (tk : TDef) : ∀ d ∈ tk.deps, d ∈ (mutated s tk).deps :=
  fun _ hd => implicitDeps_sub _ _ _ _ hd

theorem clos_finishLoader {inp : Input} {s : Sys} {n : Name} {nd : Node} {l : LId} (s0 : Sys)
    (h : ClosInv inp s) (hn : s.nodes n = some nd) (hl : nd.task.loader ≠ none) :
    ClosInv inp (finishLoader s n nd l (mutated s0 nd.task)) := by
  have hsub := mutated_deps_sub s0 nd.task
  have horigN : lookup0 inp.tasks0 n = some nd.task := (h.node n nd hn).2.2 hl
  unfold finishLoader
  cases hc : s.tasks n with
  | none => exact h.congr rfl rfl (fun _ ht => ht)
  | some cur =>
    simp only []
    split
    · have h1 := clos_reset (t := mutated s0 nd.task) h hn (fun d hd => Or.inl (hsub d hd))
        (fun e => absurd rfl e)
      refine h1.setTasks rfl rfl ?_
      intro k td hk hld
      simp only at hk
      split at hk
      · cases hk; exact absurd rfl hld
      · exact h.tab k td hk hld
    · have h1 := clos_reset (t := cur) h hn
        (fun _ hd => Or.inr (by simpa [origDeps, horigN] using hd)) (fun e => h.tab n cur hc e)
      exact h1.congr rfl rfl (fun _ ht => ht)

theorem clos_afterCreate {inp : Input} {s : Sys} {n : Name} {nd : Node} {l : LId}
    (h : ClosInv inp s) (hn : s.nodes n = some nd) (hl : nd.task.loader ≠ none) :
    ClosInv inp (afterCreate inp s n nd l) := by
  unfold afterCreate
  cases nd.task.rx with
  | none => exact clos_finishLoader s h hn hl
  | some g =>
    simp only []
    have hn' : (regexBlock inp s l g).nodes n = some nd := by
      unfold regexBlock
      split
      · exact hn
      · split
        · exact hn
        · split
          · split <;> exact hn
          · exact hn
    split
    · exact clos_regexBlock l g h
    · exact clos_finishLoader s (clos_regexBlock l g h) hn' hl

theorem clos_evalCreator {inp : Input} {s : Sys} {l : LId} (tname : Name) (h : ClosInv inp s) :
    ClosInv inp (evalCreator inp s l tname b) := by
  unfold evalCreator
  cases regTargets s.targets (targetPairs (inp.make (inp.creatorOf l) tname)) with
  | none => exact h.congr rfl rfl (fun _ ht => ht)
  | some tg =>
    refine h.setTasks rfl rfl ?_
    intro k td hk hld
    cases hl' : td.loader with
    | none => exact absurd hl' hld
    | some l0 => exact h.tab k td (insertNew_old _ _ _ _ _ _ _ hk hl') hld

theorem clos_loaderStep {inp : Input} {s : Sys} {n : Name} {nd : Node} {l : LId} (h : ClosInv inp s)
    (hn : s.nodes n = some nd) (hl : nd.task.loader = some l) : ClosInv inp (loaderStep inp s n nd l) := by
  have hl' : nd.task.loader ≠ none := by rw [hl]; intro e; cases e
  unfold loaderStep
  cases s.tasks (toLoad inp l n) with
  | none => exact h.congr rfl rfl (fun _ ht => ht)
  | some tT =>
    simp only []
    have hn1 : (evalCreator inp s l (toLoad inp l n) nd.bad).nodes n = some nd := by
      rw [(evalCreator_facts inp s l (toLoad inp l n)).1]; exact hn
    split
    · split
      · exact clos_evalCreator _ h
      · exact clos_afterCreate (clos_evalCreator _ h) hn1 hl'
    · exact clos_afterCreate h hn hl'

theorem clos_dtick {inp : Input} {s : Sys} (h : ClosInv inp s) : ClosInv inp (dtick inp s) := by
  unfold dtick
  cases hc : s.cur with
  | some n =>
    simp only []
    cases hn : s.nodes n with
    | none => exact h.congr rfl rfl (fun _ ht => ht)
    | some nd =>
      simp only []
      by_cases hpc : nd.pc = .loaderPc
      · cases hld : nd.task.loader with
        | none => exact clos_nodeStep h hn (fun _ => hld)
        | some l =>
          have : nodeStep inp s n nd = loaderStep inp s n nd l := by unfold nodeStep; simp only [hpc, hld]
          rw [this]; exact clos_loaderStep h hn hld
      · exact clos_nodeStep h hn (fun e => absurd e hpc)
  | none =>
    simp only []
    cases hr : s.ready with
    | cons r rs => exact h.congr rfl rfl (fun _ ht => ht)
    | nil =>
      simp only []
      cases ht : s.toRun with
      | nil => simp only []; split
               · split <;> exact h.congr rfl rfl (fun _ ht' => by simp at ht')
               · exact h.congr rfl rfl (fun _ ht' => by simp at ht')
      | cons t ts =>
        simp only []
        have hsub : ∀ x ∈ ts, x ∈ s.toRun := fun x hx => by rw [ht]; exact List.mem_cons_of_mem _ hx
        have htsel : t ∈ inp.sel := h.toRun t (by rw [ht]; exact List.mem_cons_self)
        cases hn : s.nodes t with
        | some x => exact h.congr rfl rfl hsub
        | none =>
          simp only []
          cases htt : s.tasks t with
          | none => exact h.congr rfl rfl (fun _ ht' => by rw [ht]; exact ht')
          | some td => exact (clos_newNode [t] h hn htt (.sel htsel)).congr rfl rfl hsub

/-! ### the runner -/

theorem clos_handBack {inp : Input} {s s' : Sys} {n : Name} {perm : List Name} (h : ClosInv inp s)
    (hb : handBack inp s n perm = some s') : ClosInv inp s' := by
  unfold handBack at hb
  split at hb
  · cases hb; exact h.congr rfl rfl (fun _ ht => ht)
  · exact clos_feed h hb

theorem clos_status {inp : Input} {s : Sys} {n : Name} {nd : Node} (h : ClosInv inp s) (hn : s.nodes n = some nd)
    (st' : RS) : ClosInv inp (setNode s n { nd with status := st' }) :=
  clos_setNode h hn rfl (h.node n nd hn).2.1

theorem clos_selectStep {inp : Input} {s s' : Sys} {n : Name} {perm : List Name} (h : ClosInv inp s)
    (hs : selectStep inp s n perm = some s') : ClosInv inp s' := by
  unfold selectStep at hs
  cases hn : s.nodes n with
  | none => simp only [hn] at hs; cases hs; exact h.congr rfl rfl (fun _ ht => ht)
  | some nd =>
    simp only [hn] at hs
    split at hs
    · cases hs; exact h.congr rfl rfl (fun _ ht => ht)
    · split at hs
      · refine clos_handBack ?_ hs
        unfold failSys
        exact (clos_status h hn .fail).congr rfl rfl (fun _ ht => ht)
      · split at hs
        · refine clos_handBack ?_ hs
          exact (clos_status h hn .utd).congr rfl rfl (fun _ ht => ht)
        · cases hs
          exact (clos_status h hn .run).congr rfl rfl (fun _ ht => ht)

theorem clos_finishStep {inp : Input} {s s' : Sys} {n : Name} {perm : List Name} (h : ClosInv inp s)
    (hs : finishStep inp s n perm = some s') : ClosInv inp s' := by
  unfold finishStep at hs
  split at hs
  · cases hn : s.nodes n with
    | none => simp only [hn] at hs; cases hs
    | some nd =>
      simp only [hn] at hs
      split at hs
      · cases hs
      · have qf : ClosInv inp { failSys inp s n nd (.failure n) (if s.final = 2 then 2 else 1) with
                                running := s.running.filter (· ≠ n) } := by
          unfold failSys
          exact (clos_status h hn .fail).congr rfl rfl (fun _ ht => ht)
        have qs : ClosInv inp { setNode s n { nd with status := .ok } with
                                events := Ev.success n :: s.events, running := s.running.filter (· ≠ n) } :=
          (clos_status h hn .ok).congr rfl rfl (fun _ ht => ht)
        split at hs
        · split at hs
          · exact clos_feed qf hs
          · cases hs; exact qf
        · split at hs
          · cases hs; exact qs
          · exact clos_feed qs hs
  · cases hs

theorem clos_init (inp : Input) : ClosInv inp (init inp) :=
  ⟨fun _ _ h => by simp [init] at h, fun n td h _ => h, fun t ht => ht⟩

theorem clos_step {inp : Input} {s s' : Sys} {c : Choice} (h : ClosInv inp s) (hs : step inp s c = some s') :
    ClosInv inp s' := by
  cases c with
  | tick perm =>
    simp only [step] at hs
    cases hsu : s.susp with
    | running => simp only [hsu] at hs; cases hs; exact clos_dtick h
    | yielded n => simp only [hsu] at hs; exact clos_selectStep h hs
    | idle => simp [hsu] at hs
    | holdOn => simp [hsu] at hs
    | stopIter => simp [hsu] at hs
    | err e => simp [hsu] at hs
  | resume =>
    simp only [step] at hs
    split at hs
    · cases hs; exact h.congr rfl rfl (fun _ ht => ht)
    · cases hs
  | finish n perm => exact clos_finishStep h hs

theorem clos_reach {inp : Input} {s : Sys} (hr : Reach inp s) : ClosInv inp s := by
  induction hr with
  | init => exact clos_init inp
  | next _ hs ih => exact clos_step ih hs

/-- a task that has a `start` in the trace has a node (its status is not `None`), hence is in the closure -/
theorem started_in_closure {inp : Input} {s : Sys} (hc : CountOK (stOf s) s.events) (h : ClosInv inp s) (t : Name)
    (ht : Ev.start t ∈ s.events) : InClos inp s t := by
  cases hn : s.nodes t with
  | none => exact absurd rfl (hc.fresh t (by simp [stOf, hn]) _ ht)
  | some nd => exact (h.node t nd hn).1

end DoitModel.Delayed
