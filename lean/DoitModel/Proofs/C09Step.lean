import DoitModel.Proofs.C09Dep
/-! # C09 — the node invariant `AllN` holds in every reachable state of the serial and of the parallel system -/
namespace DoitModel.Run

variable {inp : RunInput} {rank : Name → Nat}

theorem init_allN : AllN inp rank (init inp) := by
  intro k y hk; simp [init] at hk

theorem gReturn_nodes (s : Sys) (job : Job) (ret : Ret) : (gReturn s job ret).nodes = s.nodes := by
  cases ret with
  | startLoop k => simp only [gReturn]; split; · rfl
                   split <;> rfl
  | feedLoop k => simp only [gReturn]; split
                  · split <;> rfl
                  · rfl

theorem takeStep_nodes {s s' : Sys} {w : Nat} (hs : takeStep inp s w = some s') : s'.nodes = s.nodes := by
  unfold takeStep at hs
  split at hs
  · cases hq : s.jobQ with
    | nil => simp only [hq] at hs; cases hs
    | cons j js =>
      simp only [hq] at hs
      cases j <;> (simp only [] at hs; cases hs; rfl)
  · cases hs

theorem doneStep_nodes {s s' : Sys} {w : Nat} (hs : doneStep s w = some s') : s'.nodes = s.nodes := by
  unfold doneStep at hs
  cases hw : s.workers w <;> simp only [hw] at hs <;> cases hs
  rfl

theorem select_allN {s : Sys} {n : Name} {nd : Node} (h : AllN inp rank s) (hn : s.nodes n = some nd)
    (d : Sel) (hd : d ≠ .assertFail) : AllN inp rank (applySel inp s n nd d) :=
  allN_status (selStatus d) h hn (applySel_nodes inp s n nd d hd)

theorem serialStep_allN {s s' : Sys} {perm : List Name} (hr : Ranked inp rank) (h : AllN inp rank s)
    (hs : serialStep inp s perm = some s') : AllN inp rank s' := by
  unfold serialStep at hs
  cases hrp : s.rpc with
  | sTop node =>
    simp only [hrp] at hs
    split at hs
    · cases hs; exact allN_congr h rfl
    · cases hsd : send inp s node perm with
      | none => simp only [hsd] at hs; cases hs
      | some s0 => simp only [hsd] at hs; cases hs; exact allN_congr (send_allN h hsd) rfl
  | sWait =>
    simp only [hrp] at hs
    cases hsu : s.susp with
    | none => simp only [hsu] at hs; exact dtick_allN hr h hs
    | some o =>
      simp only [hsu] at hs
      cases o with
      | init => cases hs
      | node n =>
        simp only [] at hs
        cases hn : s.nodes n with
        | none => simp only [hn] at hs; cases hs; exact allN_congr h rfl
        | some nd =>
          simp only [hn] at hs
          cases hd : selDecision inp n nd with
          | go =>
            simp only [hd] at hs; cases hs
            exact allN_congr (select_allN h hn .go (by simp)) rfl
          | assertFail => simp only [hd] at hs; cases hs; exact allN_congr h rfl
          | skipIgn => simp only [hd] at hs; cases hs; exact allN_congr (select_allN h hn _ (by simp)) rfl
          | unmet => simp only [hd] at hs; cases hs; exact allN_congr (select_allN h hn _ (by simp)) rfl
          | depErr => simp only [hd] at hs; cases hs; exact allN_congr (select_allN h hn _ (by simp)) rfl
          | utd => simp only [hd] at hs; cases hs; exact allN_congr (select_allN h hn _ (by simp)) rfl
          | runFirst => simp only [hd] at hs; cases hs; exact allN_congr (select_allN h hn _ (by simp)) rfl
          | argsErr => simp only [hd] at hs; cases hs; exact allN_congr (select_allN h hn _ (by simp)) rfl
      | stopIter => cases hs; exact allN_congr h rfl
      | holdOn => cases hs; exact allN_congr h rfl
      | cyclic n => cases hs; exact allN_congr h rfl
      | crash => cases hs; exact allN_congr h rfl
  | sExec n =>
    simp only [hrp] at hs
    cases hn : s.nodes n with
    | none => simp only [hn] at hs; cases hs; exact allN_congr h rfl
    | some nd =>
      simp only [hn] at hs; cases hs
      exact allN_status (resStatus (inp.outcome n)) h hn (processResult_nodes inp _ n nd)
  | fin => simp only [hrp] at hs; cases hs; exact allN_congr h rfl
  | gEntry a b => simp only [hrp] at hs; cases hs
  | gLoop a b => simp only [hrp] at hs; cases hs
  | gWait a => simp only [hrp] at hs; cases hs
  | gRet a b => simp only [hrp] at hs; cases hs
  | pTop => simp only [hrp] at hs; cases hs
  | pJoin => simp only [hrp] at hs; cases hs
  | halted => simp only [hrp] at hs; cases hs

theorem mainStep_allN {s s' : Sys} {perm : List Name} (hr : Ranked inp rank) (h : AllN inp rank s)
    (hs : mainStep inp s perm = some s') : AllN inp rank s' := by
  unfold mainStep at hs
  cases hrp : s.rpc with
  | gEntry completed ret =>
    simp only [hrp] at hs
    split at hs <;> (cases hs; exact allN_congr h rfl)
  | gLoop node ret =>
    simp only [hrp] at hs
    cases hsd : send inp s node perm with
    | none => simp only [hsd] at hs; cases hs
    | some s0 => simp only [hsd] at hs; cases hs; exact allN_congr (send_allN h hsd) rfl
  | gWait ret =>
    simp only [hrp] at hs
    cases hsu : s.susp with
    | none => simp only [hsu] at hs; exact dtick_allN hr h hs
    | some o =>
      simp only [hsu] at hs
      cases o with
      | init => cases hs
      | node n =>
        simp only [] at hs
        cases hn : s.nodes n with
        | none => simp only [hn] at hs; cases hs; exact allN_congr h rfl
        | some nd =>
          simp only [hn] at hs
          cases hd : selDecision inp n nd with
          | go => simp only [hd] at hs; cases hs; exact allN_congr (select_allN h hn .go (by simp)) rfl
          | assertFail => simp only [hd] at hs; cases hs; exact allN_congr h rfl
          | skipIgn => simp only [hd] at hs; cases hs; exact allN_congr (select_allN h hn _ (by simp)) rfl
          | unmet => simp only [hd] at hs; cases hs; exact allN_congr (select_allN h hn _ (by simp)) rfl
          | depErr => simp only [hd] at hs; cases hs; exact allN_congr (select_allN h hn _ (by simp)) rfl
          | utd => simp only [hd] at hs; cases hs; exact allN_congr (select_allN h hn _ (by simp)) rfl
          | runFirst => simp only [hd] at hs; cases hs; exact allN_congr (select_allN h hn _ (by simp)) rfl
          | argsErr => simp only [hd] at hs; cases hs; exact allN_congr (select_allN h hn _ (by simp)) rfl
      | holdOn => cases hs; exact allN_congr h rfl
      | stopIter => cases hs; exact allN_congr h rfl
      | cyclic n => cases hs; exact allN_congr h rfl
      | crash => cases hs; exact allN_congr h rfl
  | gRet job ret => simp only [hrp] at hs; cases hs; exact allN_congr h (gReturn_nodes s job ret)
  | pTop =>
    simp only [hrp] at hs
    split at hs
    · cases hs; exact allN_congr h rfl
    · cases hq : s.resQ with
      | nil => simp only [hq] at hs; cases hs
      | cons n rest =>
        simp only [hq] at hs
        cases hn : s.nodes n with
        | none => simp only [hn] at hs; cases hs; exact allN_congr h rfl
        | some nd =>
          simp only [hn] at hs; cases hs
          exact allN_status (resStatus (inp.outcome n)) h hn (processResult_nodes inp _ n nd)
  | pJoin =>
    simp only [hrp] at hs
    split at hs
    · cases hs; exact allN_congr h rfl
    · cases hs
  | fin => simp only [hrp] at hs; cases hs; exact allN_congr h rfl
  | sTop a => simp only [hrp] at hs; cases hs
  | sWait => simp only [hrp] at hs; cases hs
  | sExec a => simp only [hrp] at hs; cases hs
  | halted => simp only [hrp] at hs; cases hs

theorem reach_allN {s : Sys} (hr : Ranked inp rank) (h : Reach inp s) : AllN inp rank s := by
  induction h with
  | init => exact init_allN
  | @next s0 s1 c _ hs ih =>
    cases c with
    | main perm => exact serialStep_allN hr ih hs
    | take w => cases hs
    | done w => cases hs

theorem preach_allN {s : Sys} (hr : Ranked inp rank) (h : PReach inp s) : AllN inp rank s := by
  induction h with
  | init => exact init_allN
  | @next s0 s1 c _ hs ih =>
    cases c with
    | main perm => exact mainStep_allN hr ih hs
    | take w => exact allN_congr ih (takeStep_nodes hs)
    | done w => exact allN_congr ih (doneStep_nodes hs)

/-! ### the ancestors test of `_gen_node` -/

/-- in a state satisfying the node invariant, a step of the running dispatcher generator that ends in the cyclic error
    is `_check_deadlock` (nothing current, nothing ready, nothing left to select, somebody waiting, nobody out at the
    runner) — never the `task_name in parent.ancestors` test -/
theorem dtick_cyclic_shape {s s' : Sys} {perm : List Name} (hr : Ranked inp rank) (h : AllN inp rank s)
    (hsu : s.susp = none) (hs : dtick inp s perm = some s') (d : Name) (hc : s'.susp = some (.cyclic d)) :
    s.cur = none ∧ s.ready = [] ∧ s.toRun = [] ∧ s.waiting ≠ [] ∧ s.dispatched = [] := by
  have gs : ∀ (n : Name) (nd : Node) (x : Name) (pc' : PC), s.nodes n = some nd → Dep inp n x →
      (genStep inp s n nd x pc').susp ≠ some (.cyclic d) := by
    intro n nd x pc' hn hx
    unfold genStep
    cases hxn : s.nodes x with
    | none => simp [setNode, hsu]
    | some y =>
      simp only []
      split
      · rename_i hin
        have h1 := (h n nd hn).anc x hin
        have h2 := hr n x hx
        omega
      · simp [setNode, hsu]
  have aw : ∀ (n : Name) (nd : Node) (ds : List Name) (c : Bool) (pc' : PC),
      (addWaitRun inp s n nd ds c pc').susp ≠ some (.cyclic d) := by
    intro n nd ds c pc'; rw [addWaitRun_susp]; simp [hsu]
  unfold dtick at hs
  cases hcur : s.cur with
  | some n =>
    simp only [hcur] at hs
    cases hn : s.nodes n with
    | none => simp only [hn] at hs; cases hs; simp at hc
    | some nd =>
      simp only [hn] at hs
      have hnd := h n nd hn
      exfalso
      unfold nodeStep at hs
      cases hpc : nd.pc with
      | loopTop => simp only [hpc] at hs; split at hs <;> cases hs; simp [setNode, hsu] at hc
      | calcIter todo =>
        have hp := hnd.pcl; rw [hpc] at hp
        simp only [hpc] at hs
        cases todo with
        | cons x xs => cases hs; exact gs n nd x _ hn (Dep.ofCalc (hp x (by simp))) hc
        | nil => cases hs; exact aw _ _ _ _ _ hc
      | taskIter todo =>
        have hp := hnd.pcl; rw [hpc] at hp
        simp only [hpc] at hs
        cases todo with
        | cons x xs => cases hs; exact gs n nd x _ hn (hp x (by simp)) hc
        | nil => cases hs; exact aw _ _ _ _ _ hc
      | afterDeps =>
        simp only [hpc] at hs
        split at hs
        · cases hs; simp [setNode, hsu] at hc
        · split at hs <;> (cases hs; simp [setNode, hsu] at hc)
      | self1 => simp only [hpc] at hs; cases hs; simp at hc
      | afterSelf1 =>
        simp only [hpc] at hs
        split at hs
        · cases hs; simp [setNode, hsu] at hc
        · split at hs <;> (cases hs; simp [setNode, hsu] at hc)
      | setupDecide => simp only [hpc] at hs; split at hs <;> (cases hs; simp [setNode, hsu] at hc)
      | setupIter todo =>
        have hp := hnd.pcl; rw [hpc] at hp
        simp only [hpc] at hs
        cases todo with
        | cons x xs => cases hs; exact gs n nd x _ hn (Dep.setup (hp x (by simp))) hc
        | nil => cases hs; exact aw _ _ _ _ _ hc
      | afterSetup => simp only [hpc] at hs; split at hs <;> (cases hs; simp [setNode, hsu] at hc)
      | self2 => simp only [hpc] at hs; cases hs; simp at hc
      | afterSelf2 => simp only [hpc] at hs; cases hs; simp [setNode, hsu] at hc
      | done => simp only [hpc] at hs; cases hs; simp [hsu] at hc
  | none =>
    simp only [hcur] at hs
    cases hrd : s.ready with
    | cons r rs => simp only [hrd] at hs; cases hs; simp [hsu] at hc
    | nil =>
      simp only [hrd] at hs
      cases htr : s.toRun with
      | cons t ts =>
        simp only [htr] at hs
        split at hs <;> (cases hs; simp [setNode, hsu] at hc)
      | nil =>
        simp only [htr] at hs
        split at hs
        · rename_i hw
          split at hs
          · rename_i hdp; exact ⟨rfl, rfl, rfl, hw, hdp⟩
          · cases hs; simp at hc
        · cases hs; simp at hc

end DoitModel.Run
