import DoitModel.Proofs.CleanEffects
/-! Helper lemmas for C14, part 8: `clean` removes only targets of `clean: True` tasks, and every existing
    target file of such a task. -/
namespace DoitModel.Clean

/-- between two states only paths in `T` disappeared, and nothing appeared -/
structure Frame (T : List Path) (w w' : World) : Prop where
  fsub : ∀ q, q ∈ w'.files → q ∈ w.files
  fonly : ∀ q, q ∈ w.files → q ∈ w'.files ∨ q ∈ T
  dsub : ∀ q, q ∈ w'.dirs → q ∈ w.dirs
  donly : ∀ q, q ∈ w.dirs → q ∈ w'.dirs ∨ q ∈ T

theorem Frame.refl (T : List Path) (w : World) : Frame T w w :=
  ⟨fun _ h => h, fun _ h => Or.inl h, fun _ h => h, fun _ h => Or.inl h⟩

theorem Frame.trans {T1 T2 : List Path} {a b c : World} (h1 : Frame T1 a b) (h2 : Frame T2 b c) :
    Frame (T1 ++ T2) a c where
  fsub := fun q h => h1.fsub q (h2.fsub q h)
  fonly := by
    intro q h
    rcases h1.fonly q h with h' | h'
    · rcases h2.fonly q h' with h'' | h''
      · exact Or.inl h''
      · exact Or.inr (List.mem_append_right _ h'')
    · exact Or.inr (List.mem_append_left _ h')
  dsub := fun q h => h1.dsub q (h2.dsub q h)
  donly := by
    intro q h
    rcases h1.donly q h with h' | h'
    · rcases h2.donly q h' with h'' | h''
      · exact Or.inl h''
      · exact Or.inr (List.mem_append_right _ h'')
    · exact Or.inr (List.mem_append_left _ h')

theorem Frame.weaken {T T' : List Path} {a b : World} (h : Frame T a b) (hs : ∀ q, q ∈ T → q ∈ T') :
    Frame T' a b :=
  ⟨h.fsub, fun q hq => (h.fonly q hq).imp id (hs q), h.dsub, fun q hq => (h.donly q hq).imp id (hs q)⟩

theorem rmLink_files (dry : Bool) (t : Name) (st : World × List Ev) (p d : Path) :
    (rmLink dry t st p d).1.files = st.1.files ∧ (rmLink dry t st p d).1.dirs = st.1.dirs := by
  unfold rmLink
  split
  · cases dry <;> exact ⟨rfl, rfl⟩
  · split
    · split
      · exact ⟨rfl, rfl⟩
      · cases dry <;> exact ⟨rfl, rfl⟩
    · exact ⟨rfl, rfl⟩

theorem rmTarget_frame (dry : Bool) (t : Name) (st : World × List Ev) (p : Path) :
    Frame [p] st.1 (rmTarget dry t st p).1 := by
  unfold rmTarget
  split
  · cases dry
    · refine ⟨?_, ?_, fun _ h => h, fun _ h => Or.inl h⟩
      · intro q hq; simp only [Bool.false_eq_true, if_false, List.mem_filter] at hq; exact hq.1
      · intro q hq
        by_cases hqp : q = p
        · exact Or.inr (by simp [hqp])
        · exact Or.inl (by simp [hq, hqp])
    · exact Frame.refl _ _
  · split
    · obtain ⟨hf, hd⟩ := rmLink_files dry t st p ((linkDest st.1 p).getD [])
      exact ⟨fun q h => hf ▸ h, fun q h => Or.inl (hf ▸ h), fun q h => hd ▸ h, fun q h => Or.inl (hd ▸ h)⟩
    · split
      · split
        · exact Frame.refl _ _
        · cases dry
          · refine ⟨fun _ h => h, fun _ h => Or.inl h, ?_, ?_⟩
            · intro q hq; simp only [Bool.false_eq_true, if_false, List.mem_filter] at hq; exact hq.1
            · intro q hq
              by_cases hqp : q = p
              · exact Or.inr (by simp [hqp])
              · exact Or.inl (by simp [hq, hqp])
          · exact Frame.refl _ _
      · exact Frame.refl _ _

theorem foldl_frame {γ : Type} (g : World × List Ev → γ → World × List Ev) (T : γ → List Path)
    (hg : ∀ st x, Frame (T x) st.1 (g st x).1) :
    ∀ (l : List γ) (st : World × List Ev), Frame (l.flatMap T) st.1 (l.foldl g st).1 := by
  intro l
  induction l with
  | nil => intro st; exact Frame.refl _ _
  | cons x l ih =>
    intro st
    simp only [List.foldl_cons, List.flatMap_cons]
    exact (hg st x).trans (ih _)

theorem cleanTargets_frame (dry : Bool) (t : Name) (targets : List Path) (st : World × List Ev) :
    Frame targets st.1 (cleanTargets dry t targets st).1 := by
  unfold cleanTargets
  refine (foldl_frame (rmTarget dry t) (fun p => [p]) (rmTarget_frame dry t) (sortDesc targets) st).weaken ?_
  intro q hq
  simp only [List.mem_flatMap, List.mem_singleton] at hq
  obtain ⟨a, ha, rfl⟩ := hq
  exact (mem_sortDesc targets q).1 ha

/-- the targets a task's clean may remove: those of a `clean: True` task -/
def rmSet (tbl : Table) (t : Name) : List Path :=
  match tbl[t]? with
  | some tk => if tk.kind = .targets then tk.targets else []
  | none => []

/-- in an effect-free table the actions of every task leave the tree alone -/
theorem effFree_acts (tbl : Table) (h : effFree tbl = true) (t : Name) (tk : Task) (as : List Act)
    (ht : tbl[t]? = some tk) (hk : tk.kind = .actions as) : ∀ a, a ∈ as → a.eff = none := by
  have hm : tk ∈ tbl := List.mem_of_getElem? ht
  simp only [effFree, List.all_eq_true] at h
  have := h tk hm
  simp only [hk, List.all_eq_true, Option.isNone_iff_eq_none] at this
  exact this

theorem runActs_free (dry : Bool) (t : Name) : ∀ (as : List Act) (k : Nat) (st : World × List Ev),
    (∀ a, a ∈ as → a.eff = none) → (runActs dry t k as st).1 = st.1 := by
  intro as
  induction as with
  | nil => intro k st _; rfl
  | cons a as ih =>
    intro k st h
    simp only [runActs]
    rw [ih _ _ (fun x hx => h x (List.mem_cons_of_mem _ hx))]
    unfold runAct
    have : a.eff = none := h a (by simp)
    split
    · cases dry <;> simp [this, applyEff]
    · rfl

theorem taskClean_frame (tbl : Table) (hfree : effFree tbl = true) (dry : Bool) (t : Name)
    (st : World × List Ev) : Frame (rmSet tbl t) st.1 (taskClean tbl dry t st).1 := by
  unfold taskClean rmSet
  cases ht : tbl[t]? with
  | none => exact Frame.refl _ _
  | some tk =>
    simp only
    cases hk : tk.kind with
    | nothing => exact Frame.refl _ _
    | targets => simp only [if_true]; exact cleanTargets_frame dry t tk.targets st
    | actions as =>
      simp only [reduceCtorEq, ↓reduceIte]
      rw [runActs_free dry t as 0 st (effFree_acts tbl hfree t tk as ht hk)]
      exact Frame.refl _ _

theorem cleanOne_frame (tbl : Table) (hfree : effFree tbl = true) (dry forget : Bool) (st : World × List Ev)
    (t : Name) : Frame (rmSet tbl t) st.1 (cleanOne tbl dry forget st t).1 := by
  unfold cleanOne
  have h := taskClean_frame tbl hfree dry t st
  simp only
  split
  · exact ⟨h.fsub, h.fonly, h.dsub, h.donly⟩
  · exact h

theorem cleanTasks_frame (tbl : Table) (hfree : effFree tbl = true) (dry forget : Bool) (order : List Name)
    (w : World) : Frame (order.flatMap (rmSet tbl)) w (cleanTasks tbl dry forget order w).1 :=
  foldl_frame (cleanOne tbl dry forget) (rmSet tbl) (cleanOne_frame tbl hfree dry forget) order (w, [])

/-! ### every target file of a cleaned `clean: True` task is gone afterwards -/
theorem rmTarget_removes (t : Name) (st : World × List Ev) (p : Path) : p ∉ (rmTarget false t st p).1.files := by
  unfold rmTarget
  split
  · simp
  · rename_i hp
    split
    · rw [(rmLink_files false t st p _).1]; exact hp
    · split
      · split
        · exact hp
        · exact hp
      · exact hp

theorem foldl_removes {γ : Type} (g : World × List Ev → γ → World × List Ev) (T : γ → List Path)
    (hg : ∀ st x, Frame (T x) st.1 (g st x).1) (p : Path) (good : γ → Prop)
    (hrm : ∀ st x, good x → p ∉ (g st x).1.files) :
    ∀ (l : List γ) (st : World × List Ev), (∃ x, x ∈ l ∧ good x) → p ∉ (l.foldl g st).1.files := by
  intro l
  induction l with
  | nil => intro st h; obtain ⟨x, hx, _⟩ := h; simp at hx
  | cons y l ih =>
    intro st h
    simp only [List.foldl_cons]
    obtain ⟨x, hx, hgood⟩ := h
    simp only [List.mem_cons] at hx
    rcases hx with hx | hx
    · subst hx
      exact fun hm => hrm st x hgood ((foldl_frame g T hg l _).fsub p hm)
    · exact ih _ ⟨x, hx, hgood⟩

theorem cleanTargets_removes (t : Name) (targets : List Path) (st : World × List Ev) (p : Path)
    (hp : p ∈ targets) : p ∉ (cleanTargets false t targets st).1.files := by
  unfold cleanTargets
  exact foldl_removes (rmTarget false t) (fun p => [p]) (rmTarget_frame false t) p (fun x => x = p)
    (fun st x hx => hx ▸ rmTarget_removes t st x) _ st ⟨p, (mem_sortDesc targets p).2 hp, rfl⟩

theorem cleanOne_removes (tbl : Table) (forget : Bool) (st : World × List Ev) (t : Name) (p : Path)
    (hp : p ∈ rmSet tbl t) : p ∉ (cleanOne tbl false forget st t).1.files := by
  unfold rmSet at hp
  unfold cleanOne taskClean
  cases htk : tbl[t]? with
  | none => simp [htk] at hp
  | some tk =>
    simp only [htk] at hp ⊢
    by_cases hk : tk.kind = .targets
    · simp only [hk, if_true] at hp ⊢
      have := cleanTargets_removes t tk.targets st p hp
      split
      · exact this
      · exact this
    · simp [hk] at hp

theorem cleanTasks_removes (tbl : Table) (hfree : effFree tbl = true) (forget : Bool) (order : List Name) (w : World) (t : Name) (p : Path)
    (ht : t ∈ order) (hp : p ∈ rmSet tbl t) : p ∉ (cleanTasks tbl false forget order w).1.files := by
  unfold cleanTasks
  exact foldl_removes (cleanOne tbl false forget) (rmSet tbl) (cleanOne_frame tbl hfree false forget) p
    (fun x => p ∈ rmSet tbl x) (fun st x hx => cleanOne_removes tbl forget st x p hx) order (w, []) ⟨t, ht, hp⟩

end DoitModel.Clean
