import DoitModel.Proofs.Delayed
/-! # Delayed creation: the "after its trigger" invariant

Node-local bookkeeping (`NodeB`, the I2/I4 invariant of the run model restricted to task_dep edges): every
dependency of the task a node holds is still to be processed by the node's generator, awaited, or finished; a node
reaches the loader section only with nothing pending and nothing awaited.  Together with "a finished status has a
terminal report in the trace" and "a placeholder depends on its creator's triggers" this gives `afterOK`. -/
namespace DoitModel.Delayed
open DoitModel.Run (RS Name)

def finOf (s : Sys) (d : Name) : Bool := (stOf s d).finished

def NodeB (fin : Name → Bool) (nd : Node) : Prop :=
  (∀ d ∈ nd.task.deps,
      d ∈ nd.pend ∨ ((∃ ds, nd.pc = .taskIter ds) ∧ d ∈ nd.snap) ∨ d ∈ nd.waitRun ∨ fin d = true) ∧
  (nd.pc = .loaderPc → nd.pend = [] ∧ nd.waitRun = [])

/-- a task that carries a loader object depends on every trigger of that loader's creator -/
def TrigIn (inp : Input) (td : TDef) : Prop :=
  ∀ l, td.loader = some l → ∀ d ∈ trigOf inp (inp.creatorOf l), d ∈ td.deps

/-- once-only bookkeeping over (status map, trace): nothing is reported or started for a task whose status is still
    `None`; nothing is reported while it is unfinished; at most one start and one terminal report per task -/
structure CountOK (st : Name → RS) (ev : List Ev) : Prop where
  fresh : ∀ n, st n = .none → ∀ e ∈ ev, e ≠ Ev.start n
  noRep : ∀ n, (st n).finished = false → ∀ e ∈ ev, e.reports n = false
  cntS : ∀ n, ev.count (Ev.start n) ≤ 1
  cntR : ∀ n, ev.countP (Ev.reports n) ≤ 1

def updSt (st : Name → RS) (n : Name) (x : RS) : Name → RS := fun k => if k = n then x else st k

theorem CountOK.creator {st : Name → RS} {ev : List Ev} (h : CountOK st ev) (c : CId) :
    CountOK st (Ev.creator c :: ev) := by
  constructor
  · intro n hn e he
    rcases List.mem_cons.mp he with h1 | h1
    · subst h1; intro h2; cases h2
    · exact h.fresh n hn e h1
  · intro n hn e he
    rcases List.mem_cons.mp he with h1 | h1
    · subst h1; rfl
    · exact h.noRep n hn e h1
  · intro n
    have : (Ev.creator c == Ev.start n) = false := by simp
    rw [List.count_cons, this]; simpa using h.cntS n
  · intro n
    have : Ev.reports n (Ev.creator c) = false := rfl
    rw [List.countP_cons, this]; simpa using h.cntR n

theorem CountOK.start {st : Name → RS} {ev : List Ev} (h : CountOK st ev) {n : Name} (hn : st n = .none) :
    CountOK (updSt st n .run) (Ev.start n :: ev) := by
  constructor
  · intro m hm e he
    have hmn : m ≠ n := by intro e1; subst e1; simp [updSt] at hm
    have hm' : st m = .none := by simpa [updSt, hmn] using hm
    rcases List.mem_cons.mp he with h1 | h1
    · subst h1; intro h2; cases h2; exact hmn rfl
    · exact h.fresh m hm' e h1
  · intro m hm e he
    rcases List.mem_cons.mp he with h1 | h1
    · subst h1; rfl
    · by_cases hmn : m = n
      · subst hmn; exact h.noRep m (by rw [hn]; rfl) e h1
      · exact h.noRep m (by simpa [updSt, hmn] using hm) e h1
  · intro m
    by_cases hmn : m = n
    · subst hmn
      have h0 : ev.count (Ev.start m) = 0 := List.count_eq_zero.mpr (fun hmem => h.fresh m hn _ hmem rfl)
      simp [h0]
    · have : (Ev.start n == Ev.start m) = false := by simpa using fun e => hmn e.symm
      rw [List.count_cons, this]; simpa using h.cntS m
  · intro m
    have : Ev.reports m (Ev.start n) = false := rfl
    rw [List.countP_cons, this]; simpa using h.cntR m

theorem CountOK.report {st : Name → RS} {ev : List Ev} (h : CountOK st ev) {n : Name} {e : Ev} {x : RS}
    (hn : (st n).finished = false) (hfin : x.finished = true) (he : ∀ m, e ≠ Ev.start m)
    (hr : ∀ m, e.reports m = true → m = n) : CountOK (updSt st n x) (e :: ev) := by
  have hx : x ≠ .none := by intro e1; subst e1; cases hfin
  constructor
  · intro m hm e' he'
    have hmn : m ≠ n := by intro e1; subst e1; simp [updSt] at hm; exact hx hm
    have hm' : st m = .none := by simpa [updSt, hmn] using hm
    rcases List.mem_cons.mp he' with h1 | h1
    · subst h1; exact he m
    · exact h.fresh m hm' e' h1
  · intro m hm e' he'
    rcases List.mem_cons.mp he' with h1 | h1
    · subst h1
      cases hrm : e'.reports m with
      | false => rfl
      | true =>
        have hmn := hr m hrm
        subst hmn
        simp [updSt, hfin] at hm
    · by_cases hmn : m = n
      · subst hmn; exact h.noRep m hn e' h1
      · exact h.noRep m (by simpa [updSt, hmn] using hm) e' h1
  · intro m
    have : (e == Ev.start m) = false := by simpa using he m
    rw [List.count_cons, this]; simpa using h.cntS m
  · intro m
    rw [List.countP_cons]
    by_cases hmn : m = n
    · subst hmn
      have h0 : ev.countP (Ev.reports m) = 0 := by
        rw [List.countP_eq_zero]; intro e' he'; simp [h.noRep m hn e' he']
      rw [h0]; split <;> simp
    · have : e.reports m = false := by
        cases hrm : e.reports m with
        | false => rfl
        | true => exact absurd (hr m hrm) hmn
      simp [this]; exact h.cntR m

structure AfterInv (inp : Input) (s : Sys) : Prop where
  node : ∀ n nd, s.nodes n = some nd → NodeB (finOf s) nd ∧ TrigIn inp nd.task
  tab : ∀ n td, s.tasks n = some td → TrigIn inp td
  rep : ∀ d, finOf s d = true → s.events.any (Ev.reports d) = true
  aft : afterOK (trigOf inp) s.events = true
  cnt : CountOK (stOf s) s.events

theorem NodeB.mono {fin fin' : Name → Bool} {nd : Node} (h : NodeB fin nd) (hm : ∀ d, fin d = true → fin' d = true) :
    NodeB fin' nd := by
  refine ⟨fun d hd => ?_, h.2⟩
  rcases h.1 d hd with h1 | h1 | h1 | h1
  · exact Or.inl h1
  · exact Or.inr (Or.inl h1)
  · exact Or.inr (Or.inr (Or.inl h1))
  · exact Or.inr (Or.inr (Or.inr (hm d h1)))

theorem stOf_setNode (s : Sys) (n : Name) (x : Node) (d : Name) :
    stOf (setNode s n x) d = if d = n then x.status else stOf s d := by
  by_cases h : d = n <;> simp [stOf, setNode, h]

theorem finOf_setNode_same {s : Sys} {n : Name} {nd x : Node} (hn : s.nodes n = some nd) (hst : x.status = nd.status) :
    finOf (setNode s n x) = finOf s := by
  funext d
  unfold finOf
  rw [stOf_setNode]
  split
  · rename_i e; subst e; simp [stOf, hn, hst]
  · rfl

theorem finOf_congr {s s' : Sys} (h : s'.nodes = s.nodes) : finOf s' = finOf s := by
  funext d; simp [finOf, stOf, h]

/-- only fields the invariant does not read differ -/
theorem AfterInv.congr {inp : Input} {s s' : Sys} (h : AfterInv inp s) (h1 : s'.tasks = s.tasks)
    (h3 : s'.events = s.events) (h4 : s'.nodes = s.nodes) : AfterInv inp s' := by
  constructor
  · intro n nd hn; rw [h4] at hn; rw [finOf_congr h4]; exact h.node n nd hn
  · intro n td ht; rw [h1] at ht; exact h.tab n td ht
  · intro d hd; rw [finOf_congr h4] at hd; rw [h3]; exact h.rep d hd
  · rw [h3]; exact h.aft
  · have : stOf s' = stOf s := funext fun d => by simp [stOf, h4]
    rw [this, h3]; exact h.cnt

theorem stOf_setNode_same {s : Sys} {n : Name} {nd x : Node} (hn : s.nodes n = some nd) (hst : x.status = nd.status) :
    stOf (setNode s n x) = stOf s := by
  funext d
  rw [stOf_setNode]
  split
  · rename_i e; subst e; simp [stOf, hn, hst]
  · rfl

/-- replace node `n` by `x`: same status, `x` satisfies the node-local obligations -/
theorem after_setNode {inp : Input} {s : Sys} {n : Name} {nd x : Node} (h : AfterInv inp s)
    (hn : s.nodes n = some nd) (hst : x.status = nd.status) (hb : NodeB (finOf s) x) (ht : TrigIn inp x.task) :
    AfterInv inp (setNode s n x) := by
  have hf := finOf_setNode_same hn hst
  constructor
  · intro k nd' hk
    rw [hf]
    simp only [setNode] at hk
    split at hk
    · cases hk; exact ⟨hb, ht⟩
    · exact h.node k nd' hk
  · exact h.tab
  · intro d hd; rw [hf] at hd; exact h.rep d hd
  · exact h.aft
  · rw [stOf_setNode_same hn hst]; exact h.cnt

theorem after_newNode {inp : Input} {s : Sys} {d : Name} {td : TDef} (anc : List Name) (h : AfterInv inp s)
    (hd : s.nodes d = none) (ht : s.tasks d = some td) : AfterInv inp (setNode s d (mkNodeI s₀ d₀ td anc)) := by
  have hf : finOf (setNode s d (mkNodeI s₀ d₀ td anc)) = finOf s := by
    funext k; unfold finOf; rw [stOf_setNode]; split
    · rename_i e; subst e; simp [stOf, hd, mkNodeI, mkNode]
    · rfl
  constructor
  · intro k nd' hk
    rw [hf]
    simp only [setNode] at hk
    split at hk
    · cases hk
      exact ⟨⟨fun x hx => Or.inl hx, fun hpc => by simp [mkNodeI, mkNodeI, mkNode] at hpc⟩, h.tab d td ht⟩
    · exact h.node k nd' hk
  · exact h.tab
  · intro k hk; rw [hf] at hk; exact h.rep k hk
  · exact h.aft
  · have : stOf (setNode s d (mkNodeI s₀ d₀ td anc)) = stOf s := by
      funext k; rw [stOf_setNode]; split
      · rename_i e; subst e; simp [stOf, hd, mkNodeI, mkNode]
      · rfl
    rw [this]; exact h.cnt

theorem stOf_registerWaiting (s : Sys) (n : Name) (wf : List Name) (d : Name) :
    stOf (registerWaiting s n wf) d = stOf s d := by
  unfold stOf registerWaiting
  simp only []
  cases s.nodes d with
  | none => rfl
  | some x =>
    by_cases hm : d ∈ wf
    · simp only [hm, if_true]; unfold Node.addWaiting; split <;> rfl
    · simp only [hm, if_false]

theorem after_registerWaiting {inp : Input} {s : Sys} (n : Name) (wf : List Name) (h : AfterInv inp s) :
    AfterInv inp (registerWaiting s n wf) := by
  have hf : finOf (registerWaiting s n wf) = finOf s := by
    funext d; unfold finOf; rw [stOf_registerWaiting]
  constructor
  · intro k nd' hk
    rw [hf]
    simp only [registerWaiting] at hk
    cases hx : s.nodes k with
    | none => simp [hx] at hk
    | some x =>
      simp only [hx] at hk
      have hox := h.node k x hx
      split at hk
      · cases hk
        unfold Node.addWaiting
        split
        · exact hox
        · exact hox
      · cases hk; exact hox
  · exact h.tab
  · intro d hd; rw [hf] at hd; exact h.rep d hd
  · exact h.aft
  · have : stOf (registerWaiting s n wf) = stOf s := funext (stOf_registerWaiting s n wf)
    rw [this]; exact h.cnt

theorem after_genStep {inp : Input} {s : Sys} {n : Name} {nd : Node} (h : AfterInv inp s) (hn : s.nodes n = some nd)
    (d : Name) (ds : List Name) (_hpc : ∃ ds', nd.pc = .taskIter ds') : AfterInv inp (genStep s n nd d (.taskIter ds)) := by
  have hx : NodeB (finOf s) { nd with pc := .taskIter ds } ∧ TrigIn inp ({ nd with pc := PC.taskIter ds }).task := by
    obtain ⟨hb, ht⟩ := h.node n nd hn
    refine ⟨⟨fun x hx => ?_, fun hp => by cases hp⟩, ht⟩
    rcases hb.1 x hx with h1 | h1 | h1 | h1
    · exact Or.inl h1
    · exact Or.inr (Or.inl ⟨⟨ds, rfl⟩, h1.2⟩)
    · exact Or.inr (Or.inr (Or.inl h1))
    · exact Or.inr (Or.inr (Or.inr h1))
  unfold genStep
  cases hd : s.nodes d with
  | some x =>
    simp only []
    split
    · exact h.congr rfl rfl rfl
    · exact after_setNode h hn rfl hx.1 hx.2
  | none =>
    simp only []
    cases ht : s.tasks d with
    | none => exact h.congr rfl rfl rfl
    | some td =>
      simp only []
      have hnd : n ≠ d := by intro e; subst e; rw [hn] at hd; cases hd
      have h1 := after_newNode (s₀ := s) (d₀ := d) (nd.anc ++ [d]) h hd ht
      have hn' : (setNode s d (mkNodeI s d td (nd.anc ++ [d]))).nodes n = some nd := by simp [setNode, hnd, hn]
      have hf : finOf (setNode s d (mkNodeI s d td (nd.anc ++ [d]))) = finOf s := by
        funext k; unfold finOf; rw [stOf_setNode]; split
        · rename_i e; subst e; simp [stOf, hd, mkNodeI, mkNode]
        · rfl
      have h2 := after_setNode (x := { nd with pc := .taskIter ds }) h1 hn' rfl (by rw [hf]; exact hx.1) hx.2
      exact h2.congr rfl rfl rfl

theorem after_addWaitRun {inp : Input} {s : Sys} {n : Name} {nd : Node} (h : AfterInv inp s)
    (hn : s.nodes n = some nd) : AfterInv inp (addWaitRun s n nd nd.snap .afterDeps) := by
  unfold addWaitRun
  apply after_registerWaiting
  obtain ⟨hb, ht⟩ := h.node n nd hn
  refine after_setNode h hn rfl ⟨fun x hx => ?_, fun hp => by cases hp⟩ ht
  simp only [List.mem_append, List.mem_filter]
  rcases hb.1 x hx with h1 | h1 | h1 | h1
  · exact Or.inl h1
  · by_cases hu : unfinished s x = true
    · exact Or.inr (Or.inr (Or.inl (Or.inl ⟨h1.2, hu⟩)))
    · refine Or.inr (Or.inr (Or.inr ?_))
      simpa [unfinished, finOf] using hu
  · exact Or.inr (Or.inr (Or.inl (Or.inr h1)))
  · exact Or.inr (Or.inr (Or.inr h1))

theorem after_wakeOne {inp : Input} {s : Sys} {w : Name} {nd : Node} (h : AfterInv inp s) (hn : s.nodes w = some nd)
    (pst : RS) (p : Name) (hp : finOf s p = true) : AfterInv inp (wakeOne s pst p w nd) := by
  have hx : NodeB (finOf s) (wokenNode pst p nd) ∧ TrigIn inp (wokenNode pst p nd).task := by
    obtain ⟨hb, ht⟩ := h.node w nd hn
    refine ⟨⟨fun x hx => ?_, fun hpc => ?_⟩, ht⟩
    · simp only [wokenNode, List.mem_filter]
      rcases hb.1 x hx with h1 | h1 | h1 | h1
      · exact Or.inl h1
      · exact Or.inr (Or.inl h1)
      · by_cases hxp : x = p
        · subst hxp; exact Or.inr (Or.inr (Or.inr hp))
        · exact Or.inr (Or.inr (Or.inl ⟨h1, by simpa using hxp⟩))
      · exact Or.inr (Or.inr (Or.inr h1))
    · have := hb.2 hpc
      simp [wokenNode, this.1, this.2]
  unfold wakeOne
  split
  · exact (after_setNode (x := wokenNode pst p nd) h hn rfl hx.1 hx.2).congr rfl rfl rfl
  · exact after_setNode (x := wokenNode pst p nd) h hn rfl hx.1 hx.2

theorem finOf_wakeOne {s : Sys} {w : Name} {nd : Node} (hn : s.nodes w = some nd) (pst : RS) (p : Name) :
    finOf (wakeOne s pst p w nd) = finOf s := by
  unfold wakeOne
  split
  · exact (finOf_congr (s := setNode s w (wokenNode pst p nd)) rfl).trans
      (finOf_setNode_same (x := wokenNode pst p nd) hn rfl)
  · exact finOf_setNode_same (x := wokenNode pst p nd) hn rfl

theorem after_updateWaiting {inp : Input} (pst : RS) (p : Name) (perm : List Name) :
    ∀ (s s' : Sys), AfterInv inp s → finOf s p = true → updateWaiting pst p s perm = some s' → AfterInv inp s' := by
  induction perm with
  | nil => intro s s' h _ hu; simp only [updateWaiting] at hu; cases hu; exact h
  | cons w ws ih =>
    intro s s' h hp hu
    simp only [updateWaiting] at hu
    cases hw : s.nodes w with
    | none => simp only [hw] at hu; exact ih s s' h hp hu
    | some nd =>
      simp only [hw] at hu
      split at hu
      · cases hu
      · exact ih _ _ (after_wakeOne h hw pst p hp) (by rw [finOf_wakeOne hw]; exact hp) hu

theorem after_feed {inp : Input} {s s' : Sys} {p : Name} {perm : List Name} (h : AfterInv inp s)
    (hf : feed s p perm = some s') : AfterInv inp s' := by
  unfold feed at hf
  cases hp : s.nodes p with
  | none => simp only [hp] at hf; cases hf; exact h.congr rfl rfl rfl
  | some nd =>
    simp only [hp] at hf
    split at hf
    · rename_i hfin
      split at hf
      · cases hu : updateWaiting nd.status p { s with dispatched := s.dispatched.filter (· ≠ p) } perm with
        | none => simp only [hu] at hf; cases hf; exact h.congr rfl rfl rfl
        | some s1 =>
          simp only [hu] at hf; cases hf
          have h0 : AfterInv inp { s with dispatched := s.dispatched.filter (· ≠ p) } := h.congr rfl rfl rfl
          have hp0 : finOf { s with dispatched := s.dispatched.filter (· ≠ p) } p = true := by
            simp [finOf, stOf, hp, hfin]
          exact (after_updateWaiting _ _ _ _ _ h0 hp0 hu).congr rfl rfl rfl
      · cases hf
    · cases hf; exact h.congr rfl rfl rfl

end DoitModel.Delayed
