import DoitModel.Proofs.C08Dyn6
import DoitModel.Proofs.C08Conf9
import DoitModel.Proofs.C08Dyn8
/-! # C08 (I10) with calc_dep, closure, part 1: every node a run creates — hence every task it reports — is in the
    denotational closure `Dyn.DenCl` of the selection -/
namespace DoitModel.Run.Dyn

/-- the calc_deps of `n` according to the denotation: static ones and what their members deliver
    (`delivOf`: executed / up-to-date ones `calcRes`, ones that failed during their execution `calcResFail`) -/
inductive CalcR (inp : RunInput) (n : Name) : Name → Prop
  | static {c : Name} : c ∈ inp.calcDep n → CalcR inp n c
  | deliv {c x : Name} {d : Den} : CalcR inp n c → DenOf inp c d → x ∈ (delivOf inp c d).calcs → CalcR inp n x

/-- tasks a complete run processes: the selection, closed under task_dep, under calc_dep (static and delivered),
    under the task_deps / file_dep owners delivered by executed / up-to-date calc_deps, and under the setup-tasks of
    members whose first `select_task` pass says `run` -/
inductive DenCl (inp : RunInput) : Name → Prop
  | ofSel {t : Name} : t ∈ inp.sel → DenCl inp t
  | ofTask {t d : Name} : DenCl inp t → d ∈ inp.taskDep t → DenCl inp d
  | ofCalc {t c : Name} : DenCl inp t → CalcR inp t c → DenCl inp c
  | ofDeliv {t c x : Name} {d : Den} : DenCl inp t → CalcR inp t c → DenOf inp c d →
      (x ∈ (delivOf inp c d).tasks ∨ x ∈ (delivOf inp c d).files) → DenCl inp x
  | ofSetup {t d : Name} : DenCl inp t → R1 inp t → d ∈ inp.setup t → DenCl inp d

theorem CalcS.toR {inp : RunInput} {s : Sys} {n c : Name} (hD : InvE inp s) (h : CalcS inp s n c) : CalcR inp n c := by
  induction h with
  | static hc => exact CalcR.static hc
  | deliv _ hg hm ih =>
    obtain ⟨d, hd, hrs⟩ := hD.fin _ (RS.good_finished hg)
    exact CalcR.deliv ih hd (by rw [delivOf_good (by rw [hrs]; exact hg)]; exact hm)
  | delivF _ _ hsf hm ih =>
    obtain ⟨d, hd, hs⟩ := hsf
    exact CalcR.deliv ih hd (by rw [delivOf_startedFail hs]; exact hm)

theorem TaskS.toCl {inp : RunInput} {s : Sys} {n x : Name} (hD : InvE inp s) (hcl : DenCl inp n)
    (h : TaskS inp s n x) : DenCl inp x := by
  rcases h with a | ⟨c, hc, hg, hm⟩ | ⟨c, hc, _, ⟨d, hd, hs⟩, hm⟩
  · exact DenCl.ofTask hcl a
  · obtain ⟨d, hd, hrs⟩ := hD.fin _ (RS.good_finished hg)
    exact DenCl.ofDeliv hcl (hc.toR hD) hd (by rw [delivOf_good (by rw [hrs]; exact hg)]; exact hm)
  · exact DenCl.ofDeliv hcl (hc.toR hD) hd (by rw [delivOf_startedFail hs]; exact hm)

/-- what the `for` loop a generator is in will still visit -/
def pcC (inp : RunInput) (n : Name) : PC → Prop
  | .calcIter todo => ∀ d ∈ todo, DenCl inp d
  | .taskIter todo => ∀ d ∈ todo, DenCl inp d
  | .setupIter todo => (∀ d ∈ todo, d ∈ inp.setup n) ∧ R1 inp n
  | _ => True

structure InvC (inp : RunInput) (s : Sys) : Prop where
  nodes : ∀ n nd, s.nodes n = some nd → DenCl inp n ∧ pcC inp n nd.pc
  toRun : ∀ t ∈ s.toRun, DenCl inp t

theorem InvC.back {inp : RunInput} {p : Prop} {s s' : Sys} (h : InvC inp s) (b : BackG p s s') : InvC inp s' := by
  constructor
  · intro n nd hn
    obtain ⟨x, hx, e, _⟩ := b.1 n nd hn
    rw [e]; exact h.nodes n x hx
  · intro t ht; rw [b.2] at ht; exact h.toRun t ht

theorem invC_setNode {inp : RunInput} {s : Sys} {n : Name} {nd : Node} (x : Node) (h : InvC inp s)
    (hn : s.nodes n = some nd) (hx : pcC inp n x.pc) : InvC inp (setNode s n x) := by
  constructor
  · intro k y hk
    simp only [setNode_nodes] at hk
    split at hk
    · rename_i e; subst e; cases hk; exact ⟨(h.nodes k nd hn).1, hx⟩
    · exact h.nodes k y hk
  · exact h.toRun

theorem invC_create {inp : RunInput} {s : Sys} {d : Name} (anc : List Name) (h : InvC inp s) (hd : DenCl inp d) :
    InvC inp (setNode s d (mkNode inp d anc)) := by
  constructor
  · intro k y hk
    simp only [setNode_nodes] at hk
    split at hk
    · rename_i e; subst e; cases hk; exact ⟨hd, trivial⟩
    · exact h.nodes k y hk
  · exact h.toRun

theorem genStep_invC {inp : RunInput} {s : Sys} {n : Name} {nd : Node} (d : Name) (pc' : PC) (h : InvC inp s)
    (hn : s.nodes n = some nd) (hd : DenCl inp d) (hx : pcC inp n pc') : InvC inp (genStep inp s n nd d pc') := by
  unfold genStep
  cases hdn : s.nodes d with
  | none =>
    simp only []
    have hne : d ≠ n := by intro e; subst e; rw [hn] at hdn; cases hdn
    have h1 := invC_create (nd.anc ++ [d]) h hd
    have hn1 : (setNode s d (mkNode inp d (nd.anc ++ [d]))).nodes n = some nd := by
      simp [setNode_nodes, Ne.symm hne, hn]
    exact (invC_setNode { nd with pc := pc' } h1 hn1 hx).back (BackG.of_eq (p := False) rfl rfl)
  | some x =>
    simp only []
    split
    · exact h.back (BackG.of_eq (p := False) rfl rfl)
    · exact invC_setNode _ h hn hx

theorem addWaitRun_invC {inp : RunInput} {s : Sys} {n : Name} {nd : Node} (ds : List Name) (isCalc : Bool)
    (pc' : PC) (h : InvC inp s) (hn : s.nodes n = some nd) (hx : pcC inp n pc') :
    InvC inp (addWaitRun inp s n nd ds isCalc pc') := by
  have f := waitNode_facts inp s nd ds isCalc pc'
  unfold addWaitRun
  exact (invC_setNode (waitNode inp s nd ds isCalc pc') h hn (by rw [f.pc]; exact hx)).back
    (back_registerWaiting False _ _ _)

theorem nodeStep_invC {inp : RunInput} {s s' : Sys} {n : Name} {nd : Node} {perm : List Name} (hN : InvN inp s)
    (hE : InvE inp s) (h : InvC inp s) (hn : s.nodes n = some nd) (hs : nodeStep inp s n nd perm = some s') :
    InvC inp s' := by
  have hS := hN n nd hn
  obtain ⟨hcl, hpcC⟩ := h.nodes n nd hn
  unfold nodeStep at hs
  cases hpc : nd.pc with
  | loopTop =>
    simp only [hpc] at hs
    split at hs
    · rename_i hp; cases hs
      exact invC_setNode _ h hn (fun d hd =>
        DenCl.ofCalc hcl ((hS.1.dynC d (hS.1.pendC d (hp.mem_iff.mp hd))).toR hE))
    · cases hs
  | calcIter todo =>
    simp only [hpc] at hs
    rw [hpc] at hpcC
    cases todo with
    | cons d ds =>
      cases hs
      exact genStep_invC d _ h hn (hpcC d (by simp)) (fun x hx => hpcC x (by simp [hx]))
    | nil =>
      cases hs
      exact addWaitRun_invC _ _ _ h hn (fun d hd => (hS.1.dynT d (hS.1.snapT d hd)).toCl hE hcl)
  | taskIter todo =>
    simp only [hpc] at hs
    rw [hpc] at hpcC
    cases todo with
    | cons d ds =>
      cases hs
      exact genStep_invC d _ h hn (hpcC d (by simp)) (fun x hx => hpcC x (by simp [hx]))
    | nil => cases hs; exact addWaitRun_invC _ _ _ h hn trivial
  | afterDeps =>
    simp only [hpc] at hs
    split at hs
    · cases hs; exact invC_setNode _ h hn trivial
    · split at hs
      · cases hs; exact (invC_setNode { nd with pc := .loopTop } h hn trivial).back (BackG.of_eq (p := False) rfl rfl)
      · cases hs; exact invC_setNode _ h hn trivial
  | self1 =>
    simp only [hpc] at hs; cases hs
    exact (invC_setNode { nd with pc := .afterSelf1 } h hn trivial).back (BackG.of_eq (p := False) rfl rfl)
  | afterSelf1 =>
    simp only [hpc] at hs
    split at hs
    · cases hs; exact invC_setNode _ h hn trivial
    · split at hs
      · cases hs
        exact (invC_setNode { nd with pc := .setupDecide, waitSelect := true } h hn trivial).back (BackG.of_eq (p := False) rfl rfl)
      · cases hs; exact invC_setNode _ h hn trivial
  | setupDecide =>
    simp only [hpc] at hs
    split at hs
    · rename_i hrun; cases hs
      exact invC_setNode _ h hn ⟨fun d hd => hd, hE.run1 n (by simp [stOf, hn, hrun])⟩
    · cases hs; exact invC_setNode _ h hn trivial
  | setupIter todo =>
    simp only [hpc] at hs
    rw [hpc] at hpcC
    cases todo with
    | cons d ds =>
      cases hs
      exact genStep_invC d _ h hn (DenCl.ofSetup hcl hpcC.2 (hpcC.1 d (by simp)))
        ⟨fun x hx => hpcC.1 x (by simp [hx]), hpcC.2⟩
    | nil => cases hs; exact addWaitRun_invC _ _ _ h hn trivial
  | afterSetup =>
    simp only [hpc] at hs
    split at hs
    · cases hs; exact (invC_setNode { nd with pc := .self2 } h hn trivial).back (BackG.of_eq (p := False) rfl rfl)
    · cases hs; exact invC_setNode _ h hn trivial
  | self2 =>
    simp only [hpc] at hs; cases hs
    exact (invC_setNode { nd with pc := .afterSelf2 } h hn trivial).back (BackG.of_eq (p := False) rfl rfl)
  | afterSelf2 => simp only [hpc] at hs; cases hs; exact invC_setNode _ h hn trivial
  | done => simp only [hpc] at hs; cases hs; exact h.back (BackG.of_eq (p := False) rfl rfl)

theorem dtick_invC {inp : RunInput} {s s' : Sys} {perm : List Name} (hN : InvN inp s) (hE : InvE inp s)
    (h : InvC inp s) (hs : dtick inp s perm = some s') : InvC inp s' := by
  unfold dtick at hs
  cases hc : s.cur with
  | some n =>
    simp only [hc] at hs
    cases hn : s.nodes n with
    | none => simp only [hn] at hs; cases hs; exact h.back (BackG.of_eq (p := False) rfl rfl)
    | some nd => simp only [hn] at hs; exact nodeStep_invC hN hE h hn hs
  | none =>
    simp only [hc] at hs
    cases hr : s.ready with
    | cons r rs => simp only [hr] at hs; cases hs; exact h.back (BackG.of_eq (p := False) rfl rfl)
    | nil =>
      simp only [hr] at hs
      cases ht : s.toRun with
      | cons t ts =>
        simp only [ht] at hs
        have hsub : ∀ x ∈ ts, DenCl inp x := fun x hx => h.toRun x (by rw [ht]; simp [hx])
        cases hnt : s.nodes t with
        | none =>
          simp only [hnt] at hs; cases hs
          have h1 := invC_create [t] h (h.toRun t (by rw [ht]; simp))
          exact ⟨h1.nodes, hsub⟩
        | some x => simp only [hnt] at hs; cases hs; exact ⟨h.nodes, hsub⟩
      | nil =>
        simp only [ht] at hs
        split at hs
        · split at hs <;> (cases hs; exact h.back (BackG.of_eq (p := False) rfl ht.symm))
        · cases hs; exact h.back (BackG.of_eq (p := False) rfl ht.symm)

theorem init_invC (inp : RunInput) : InvC inp (init inp) :=
  ⟨fun n nd hn => by simp [init] at hn, fun t ht => DenCl.ofSel ht⟩

theorem reach_invC {inp : RunInput} {s : Sys} (h : Reach inp s) : InvC inp s := by
  induction h with
  | init => exact init_invC inp
  | @next s0 s1 c hr hs ih =>
    have hD := reach_invDen hr
    cases c with
    | main perm =>
      rcases serialStep_back hs with a | a
      · exact dtick_invC hD.nodeS hD.den ih a
      · exact ih.back a
    | take w => cases hs
    | done w => cases hs

theorem preach_invC {inp : RunInput} {s : Sys} (h : PReach inp s) : InvC inp s := by
  induction h with
  | init => exact init_invC inp
  | @next s0 s1 c hr hs ih =>
    have hD := preach_invDen hr
    cases c with
    | main perm =>
      rcases mainStep_back hs with a | a
      · exact dtick_invC hD.nodeS hD.den ih a
      · exact ih.back a
    | take w => exact ih.back (takeStep_back hs)
    | done w => exact ih.back (doneStep_back hs)

/-- nothing outside the denotational closure is ever created, selected, executed or reported -/
theorem reported_in_closure {inp : RunInput} {s : Sys} (hr : Reach inp s ∨ PReach inp s) (t : Name)
    (h : Reported s t) : DenCl inp t := by
  have hC : InvC inp s := by rcases hr with a | a; exact reach_invC a; exact preach_invC a
  have h3 : Inv3 inp s := by rcases hr with a | a; exact reach_inv3 a; exact (preach_inv a).2
  have hpos := (reported_iff_cTerm s t).mp h
  cases hn : s.nodes t with
  | some nd => exact (hC.nodes t nd hn).1
  | none =>
    have := h3.t t (by simp [stOf, hn, RS.finished])
    omega

theorem created_in_closure {inp : RunInput} {s : Sys} (hr : Reach inp s ∨ PReach inp s) (t : Name)
    (nd : Node) (h : s.nodes t = some nd) : DenCl inp t := by
  have hC : InvC inp s := by rcases hr with a | a; exact reach_invC a; exact preach_invC a
  exact (hC.nodes t nd h).1

end DoitModel.Run.Dyn
