import DoitModel.Proofs.C08Conf10
/-! # C08 (I10), closure, part 2b: `NodeP` in every reachable state; at a complete end the reported tasks are exactly
    the denotational closure `DenCl` -/
namespace DoitModel.Run

/-- a first pass that ends the task (ignored / unmet / error / up-to-date) means the denotation's first stage does
    not say `run` -/
theorem first_pass_notR1 {inp : RunInput} {s : Sys} {n : Name} {nd : Node} (hD : InvE inp s) (hN : InvN inp s)
    (h2 : Inv2 inp s) (hsusp : s.susp = some (.node n)) (hn : s.nodes n = some nd) (h0 : nd.status = .none)
    (hfin : (selStatus (selDecision inp n nd)).finished = true) (hs : inp.setup n ≠ []) : ¬ R1 inp n := by
  have hok := h2.inv1.node n nd hn
  have hS := hN n nd hn
  obtain ⟨nd', hn', hpc⟩ := h2.inv1.sp n hsusp
  rw [hn] at hn'; cases hn'
  have hm1 : nd.pendTask = [] ∧ nd.pendCalc = [] ∧ nd.waitRunCalc = [] := by
    rcases hpc with e | e <;> exact hok.m1 (by rw [e]; rfl)
  have hm2 : nd.waitRun = [] := by
    rcases hpc with e | e <;> exact hok.m2 (by rw [e]; rfl)
  have noT : nd.pc.iterT = false := by rcases hpc with e | e <;> (rw [e]; rfl)
  have clsT : ∀ d ∈ inp.taskDep n, Cls s nd d := by
    intro d hd'
    rcases hok.kt d (hok.st.1 d hd') with a | ⟨a, _⟩ | a | a
    · rw [hm1.1] at a; cases a
    · rw [noT] at a; cases a
    · rw [hm2] at a; cases a
    · exact a
  have hT : ∀ d ∈ inp.taskDep n, DenOf inp d (ddOf inp s d) := fun d hd' => (ddOf_spec hD (clsT d hd').1).1
  have hLT : ∀ d ∈ inp.taskDep n, (ddOf inp s d).rs = stOf s d := fun d hd' => (ddOf_spec hD (clsT d hd').1).2
  have hpc1 : nd.pc = .afterSelf1 := by
    rcases hpc with e | e
    · exact e
    · exact absurd h0 (hS.ph2 (by rw [e]; rfl))
  have srcT : ∀ p, Src inp n nd.pc p → p ∈ inp.taskDep n := by
    intro p hp
    rcases hp with a | ⟨a, _⟩
    · exact a
    · rw [hpc1] at a; cases a
  have hI := any_iff_ne_nil (ddOf inp s) s (inp.taskDep n) nd.ign .ign Den.isIgn Den.isIgn_iff
    (fun d hd' => ⟨hLT d hd', (clsT d hd').2.2⟩) (fun p hp => ⟨(hS.ign p hp).1, srcT p (hS.ign p hp).2⟩)
  have hB := any_iff_ne_nil (ddOf inp s) s (inp.taskDep n) nd.bad .fail Den.isFail Den.isFail_iff
    (fun d hd' => ⟨hLT d hd', (clsT d hd').2.1⟩) (fun p hp => ⟨(hS.bad p hp).1, srcT p (hS.bad p hp).2⟩)
  have key := sel1_stage1 (dd := ddOf inp s) h0 hI hB
  rintro ⟨dd0, hT0, h10⟩
  have h1 : stage1 inp (ddOf inp s) n = .run := by
    rw [← h10]; exact stage1_congr (fun d hd' => (hT d hd').functional (hT0 d hd'))
  cases hdec : selDecision inp n nd <;> rw [hdec] at key hfin <;> simp [selStatus, RS.finished] at hfin
  · rw [h1] at key; cases key
  · rw [h1] at key; cases key
  · rw [h1] at key; cases key
  · rw [h1] at key; cases key
  · exact hs key.2.1

theorem invP2_status {inp : RunInput} {s s' : Sys} {n : Name} {nd : Node} (st' : RS) (h : InvP2 inp s)
    (e : s'.nodes = (setNode s n { nd with status := st' }).nodes)
    (hx : NodeP inp s n { nd with status := st' }) : InvP2 inp s' := by
  have k : Keeps s s' := (keeps_setNode (n := n) { nd with status := st' }).trans (Keeps.of_eq e)
  intro m y hm
  rw [e] at hm
  simp only [setNode_nodes] at hm
  split at hm
  · rename_i e'; subst e'; cases hm; exact hx.mono k rfl rfl
  · exact (h m y hm).mono k rfl rfl

theorem invP2_select {inp : RunInput} {s s' : Sys} {n : Name} {nd : Node} (hD : InvE inp s) (hN : InvN inp s)
    (h2 : Inv2 inp s) (haw : awaiting s) (hsusp : s.susp = some (.node n)) (hn : s.nodes n = some nd)
    (h : InvP2 inp s)
    (e : s'.nodes = (setNode s n { nd with status := selStatus (selDecision inp n nd) }).nodes) : InvP2 inp s' := by
  obtain ⟨nd', hn', hpc⟩ := h2.inv1.sp n hsusp
  rw [hn] at hn'; cases hn'
  have hP := h n nd hn
  refine invP2_status _ h e ⟨?_, ?_, ?_, ?_⟩
  · intro hfin hp hs
    have hp' : nd.pc = .afterSelf1 ∨ nd.pc = .setupDecide := hp
    have hpc1 : nd.pc = .afterSelf1 := by
      rcases hpc with a | a
      · exact a
      · rcases hp' with b | b <;> (rw [a] at b; cases b)
    exact first_pass_notR1 hD hN h2 hsusp hn (h2.sel1 haw n nd hsusp hn hpc1) hfin hs
  · intro todo hp
    have hp' : nd.pc = .setupIter todo := hp
    rcases hpc with a | a <;> (rw [a] at hp'; cases hp')
  · intro hp; exact hP.late hp
  · intro hp
    have hp' : nd.pc = .done := hp
    rcases hpc with a | a <;> (rw [a] at hp'; cases hp')

theorem invP2_result {inp : RunInput} {s s' : Sys} {n : Name} {nd : Node} (h3 : Inv3 inp s)
    (hn : s.nodes n = some nd) (hrun : nd.status = .run) (hgo : cGo s n ≥ 1) (h : InvP2 inp s)
    (e : s'.nodes = (setNode s n { nd with status := resStatus (inp.outcome n) }).nodes) : InvP2 inp s' := by
  obtain ⟨nd', hn', hy⟩ := h3.y n hgo
  rw [hn] at hn'; cases hn'
  have hP := h n nd hn
  refine invP2_status _ h e ⟨?_, ?_, ?_, ?_⟩
  · intro _ hp hs
    have hp' : nd.pc = .afterSelf1 ∨ nd.pc = .setupDecide := hp
    rcases hy with a | a | ⟨a, _⟩
    · rcases hp' with b | b <;> (rw [a] at b; cases b)
    · rcases hp' with b | b <;> (rw [a] at b; cases b)
    · exact absurd a hs
  · intro todo hp
    have hp' : nd.pc = .setupIter todo := hp
    rcases hy with a | a | ⟨_, a⟩ <;> (rw [a] at hp'; cases hp')
  · intro hp; exact hP.late hp
  · intro hp _
    exact hP.fin hp (by rw [hrun]; simp)

theorem keeps_of_pcKeep {s s' : Sys} (k : PcKeep s s' none) : Keeps s s' := by
  intro d ⟨x, hx⟩
  obtain ⟨x', hx', _⟩ := k d x hx (by simp)
  exact ⟨x', hx'⟩

/-- what a step of a runner does to the nodes -/
def StepKind (inp : RunInput) (s s' : Sys) (perm : List Name) : Prop :=
  (s.susp = none ∧ dtick inp s perm = some s') ∨
  (∃ n nd, awaiting s ∧ s.susp = some (.node n) ∧ s.nodes n = some nd ∧ selDecision inp n nd ≠ .assertFail ∧
     s'.nodes = (setNode s n { nd with status := selStatus (selDecision inp n nd) }).nodes) ∨
  (∃ n nd, s.nodes n = some nd ∧ nd.status = .run ∧ cGo s n ≥ 1 ∧
     s'.nodes = (setNode s n { nd with status := resStatus (inp.outcome n) }).nodes) ∨
  (Back s s' ∧ Keeps s s')

theorem StepKind.same {inp : RunInput} {s s' : Sys} {perm : List Name} (e : s'.nodes = s.nodes)
    (e2 : s'.toRun = s.toRun) : StepKind inp s s' perm :=
  Or.inr (Or.inr (Or.inr ⟨BackG.of_eq e e2, Keeps.of_eq e⟩))

theorem serialStep_kind {inp : RunInput} [NoFailDeliver inp] {s s' : Sys} {perm : List Name} (h2 : Inv2 inp s) (h3 : Inv3 inp s)
    (hs : serialStep inp s perm = some s') : StepKind inp s s' perm := by
  unfold serialStep at hs
  cases hr : s.rpc with
  | sTop node =>
    simp only [hr] at hs
    split at hs
    · cases hs; exact StepKind.same rfl rfl
    · cases hsd : send inp s node perm with
      | none => simp only [hsd] at hs; cases hs
      | some s0 =>
        simp only [hsd] at hs; cases hs
        exact Or.inr (Or.inr (Or.inr ⟨(send_back hsd).wrap rfl rfl,
          (keeps_of_pcKeep (send_pcs hsd)).trans (Keeps.of_eq rfl)⟩))
  | sWait =>
    simp only [hr] at hs
    have haw : awaiting s := Or.inl hr
    cases hsu : s.susp with
    | none => simp only [hsu] at hs; exact Or.inl ⟨hsu, hs⟩
    | some o =>
      simp only [hsu] at hs
      cases o with
      | init => cases hs
      | node n =>
        simp only [] at hs
        cases hn : s.nodes n with
        | none => simp only [hn] at hs; cases hs; exact StepKind.same rfl rfl
        | some nd =>
          simp only [hn] at hs
          by_cases hd : selDecision inp n nd = .assertFail
          · simp only [hd] at hs; cases hs; exact StepKind.same rfl rfl
          · refine Or.inr (Or.inl ⟨n, nd, haw, hsu, hn, hd, ?_⟩)
            rw [← applySel_nodes inp s n nd _ hd]
            cases hd' : selDecision inp n nd <;> simp only [hd'] at hs hd ⊢ <;>
              first | (cases hs; rfl) | exact absurd rfl hd
      | stopIter => cases hs; exact StepKind.same rfl rfl
      | holdOn => cases hs; exact StepKind.same rfl rfl
      | cyclic n => cases hs; exact StepKind.same rfl rfl
      | crash => cases hs; exact StepKind.same rfl rfl
  | sExec n =>
    simp only [hr] at hs
    cases hn : s.nodes n with
    | none => simp only [hn] at hs; cases hs; exact StepKind.same rfl rfl
    | some nd =>
      simp only [hn] at hs; cases hs
      have hrun : nd.status = .run := by have := h2.x n hr; simpa [stOf, hn] using this
      have hgo : cGo s n ≥ 1 := by have := h3.j n; have := (h3.x3 n hr).1; omega
      exact Or.inr (Or.inr (Or.inl ⟨n, nd, hn, hrun, hgo, processResult_nodes inp _ n nd⟩))
  | fin => simp only [hr] at hs; cases hs; exact StepKind.same rfl rfl
  | gEntry a b => simp only [hr] at hs; cases hs
  | gLoop a b => simp only [hr] at hs; cases hs
  | gWait a => simp only [hr] at hs; cases hs
  | gRet a b => simp only [hr] at hs; cases hs
  | pTop => simp only [hr] at hs; cases hs
  | pJoin => simp only [hr] at hs; cases hs
  | halted => simp only [hr] at hs; cases hs

theorem mainStep_kind {inp : RunInput} [NoFailDeliver inp] {s s' : Sys} {perm : List Name} (h3 : Inv3 inp s)
    (hs : mainStep inp s perm = some s') : StepKind inp s s' perm := by
  unfold mainStep at hs
  cases hr : s.rpc with
  | gEntry completed ret =>
    simp only [hr] at hs
    split at hs <;> (cases hs; exact StepKind.same rfl rfl)
  | gLoop node ret =>
    simp only [hr] at hs
    cases hsd : send inp s node perm with
    | none => simp only [hsd] at hs; cases hs
    | some s0 =>
      simp only [hsd] at hs; cases hs
      exact Or.inr (Or.inr (Or.inr ⟨(send_back hsd).wrap rfl rfl,
        (keeps_of_pcKeep (send_pcs hsd)).trans (Keeps.of_eq rfl)⟩))
  | gWait ret =>
    simp only [hr] at hs
    have haw : awaiting s := Or.inr ⟨ret, hr⟩
    cases hsu : s.susp with
    | none => simp only [hsu] at hs; exact Or.inl ⟨hsu, hs⟩
    | some o =>
      simp only [hsu] at hs
      cases o with
      | init => cases hs
      | node n =>
        simp only [] at hs
        cases hn : s.nodes n with
        | none => simp only [hn] at hs; cases hs; exact StepKind.same rfl rfl
        | some nd =>
          simp only [hn] at hs
          by_cases hd : selDecision inp n nd = .assertFail
          · simp only [hd] at hs; cases hs; exact StepKind.same rfl rfl
          · refine Or.inr (Or.inl ⟨n, nd, haw, hsu, hn, hd, ?_⟩)
            rw [← applySel_nodes inp s n nd _ hd]
            cases hd' : selDecision inp n nd <;> simp only [hd'] at hs hd ⊢ <;>
              first | (cases hs; rfl) | exact absurd rfl hd
      | holdOn => cases hs; exact StepKind.same rfl rfl
      | stopIter => cases hs; exact StepKind.same rfl rfl
      | cyclic n => cases hs; exact StepKind.same rfl rfl
      | crash => cases hs; exact StepKind.same rfl rfl
  | gRet job ret =>
    simp only [hr] at hs; cases hs
    exact StepKind.same (gReturn_frame s job ret).1 (gReturn_toRun s job ret)
  | pTop =>
    simp only [hr] at hs
    split at hs
    · cases hs; exact StepKind.same rfl rfl
    · cases hq : s.resQ with
      | nil => simp only [hq] at hs; cases hs
      | cons n rest =>
        simp only [hq] at hs
        cases hn : s.nodes n with
        | none => simp only [hn] at hs; cases hs; exact StepKind.same rfl rfl
        | some nd =>
          simp only [hn] at hs; cases hs
          have hnq : n ∈ s.resQ := by rw [hq]; simp
          obtain ⟨q1a, q1b⟩ := h3.q1 n hnq
          have hrun : nd.status = .run := by simpa [stOf, hn] using q1b
          have hgo : cGo s n ≥ 1 := by have := h3.j n; have := (h3.p0 n).2; omega
          exact Or.inr (Or.inr (Or.inl ⟨n, nd, hn, hrun, hgo, processResult_nodes inp _ n nd⟩))
  | pJoin =>
    simp only [hr] at hs
    split at hs
    · cases hs; exact StepKind.same rfl rfl
    · cases hs
  | fin => simp only [hr] at hs; cases hs; exact StepKind.same rfl rfl
  | sTop a => simp only [hr] at hs; cases hs
  | sWait => simp only [hr] at hs; cases hs
  | sExec a => simp only [hr] at hs; cases hs
  | halted => simp only [hr] at hs; cases hs

theorem stepKind_invP2 {inp : RunInput} {s s' : Sys} {perm : List Name} (hD : InvDen inp s) (h2 : Inv2 inp s)
    (h3 : Inv3 inp s)
    (ha4 : ∀ n nd, s.nodes n = some nd → nd.pc.yielded1 = true → nd.status = .none → s.susp = some (.node n))
    (h : InvP2 inp s) (k : StepKind inp s s' perm) : InvP2 inp s' := by
  rcases k with ⟨a, b⟩ | ⟨n, nd, a, b, c, _, e⟩ | ⟨n, nd, a, b, c, e⟩ | ⟨a, b⟩
  · exact dtick_invP2 h2.inv1 ha4 a h b
  · exact invP2_select hD.den hD.nodeS h2 a b c h e
  · exact invP2_result h3 a b c h e
  · exact h.back a b

theorem takeStep_nodes {inp : RunInput} {s s' : Sys} {w : Nat} (hs : takeStep inp s w = some s') :
    s'.nodes = s.nodes := by
  unfold takeStep at hs
  split at hs
  · cases hq : s.jobQ with
    | nil => simp only [hq] at hs; cases hs
    | cons j js =>
      simp only [hq] at hs
      cases j <;> (cases hs; rfl)
  · cases hs

theorem doneStep_nodes {s s' : Sys} {w : Nat} (hs : doneStep s w = some s') : s'.nodes = s.nodes := by
  unfold doneStep at hs
  cases hw : s.workers w with
  | running n => simp only [hw] at hs; cases hs; rfl
  | notStarted => simp only [hw] at hs; cases hs
  | idle => simp only [hw] at hs; cases hs
  | exited => simp only [hw] at hs; cases hs

theorem reach_invP2 {inp : RunInput} [NoFailDeliver inp] {s : Sys} (hnc : NoCalc inp) (h : Reach inp s) : InvP2 inp s := by
  induction h with
  | init => intro n nd hn; simp [init] at hn
  | @next s0 s1 c hr hs ih =>
    cases c with
    | main perm =>
      exact stepKind_invP2 (reach_invDen hnc hr) (reach_inv2 hr) (reach_inv3 hr)
        (fun n nd a b c => ((reach_invL hr).a4 n nd a b c).1) ih (serialStep_kind (reach_inv2 hr) (reach_inv3 hr) hs)
    | take w => cases hs
    | done w => cases hs

theorem preach_invP2 {inp : RunInput} [NoFailDeliver inp] {s : Sys} (hnc : NoCalc inp) (h : PReach inp s) : InvP2 inp s := by
  induction h with
  | init => intro n nd hn; simp [init] at hn
  | @next s0 s1 c hr hs ih =>
    cases c with
    | main perm =>
      exact stepKind_invP2 (preach_invDen hnc hr) (preach_inv hr).1 (preach_inv hr).2
        (fun n nd a b c => ((preach_invP hr).a4 n nd a b c).1) ih (mainStep_kind (preach_inv hr).2 hs)
    | take w => exact ih.same (takeStep_nodes hs)
    | done w => exact ih.same (doneStep_nodes hs)

end DoitModel.Run
