import DoitModel.Proofs.C13Forget
/-! # C13 — the executable specification sets used by the monitor are the declarative ones of the theorems -/
namespace DoitModel.Cmds
open DoitModel.Status

theorem addNew_mem (xs S : List Name) (x : Name) : x ∈ addNew S xs ↔ x ∈ S ∨ x ∈ xs := by
  induction xs generalizing S with
  | nil => simp [addNew]
  | cons a as ih =>
    simp only [addNew]
    split
    · rename_i h
      rw [ih]
      simp only [List.mem_cons]
      constructor
      · rintro (h1 | h1)
        · exact Or.inl h1
        · exact Or.inr (Or.inr h1)
      · rintro (h1 | h1 | h1)
        · exact Or.inl h1
        · exact Or.inl (h1 ▸ h)
        · exact Or.inr h1
    · rw [ih]
      simp only [List.mem_append, List.mem_cons, List.not_mem_nil, or_false]
      constructor
      · rintro ((h1 | h1) | h1)
        · exact Or.inl h1
        · exact Or.inr (Or.inl h1)
        · exact Or.inr (Or.inr h1)
      · rintro (h1 | h1 | h1)
        · exact Or.inl (Or.inl h1)
        · exact Or.inl (Or.inr h1)
        · exact Or.inr h1

theorem expand_mem (g : Graph) (S : List Name) (x : Name) : x ∈ expand g S ↔ x ∈ S ∨ ∃ y, y ∈ S ∧ x ∈ g.succs y := by
  unfold expand
  rw [addNew_mem]
  simp [List.mem_flatMap]

theorem saturate_sound (g : Graph) (base : List Name) (n : Nat) (S : List Name) (h : ∀ x, x ∈ S → Reach g base x) :
    ∀ x, x ∈ saturate g n S → Reach g base x := by
  induction n generalizing S with
  | zero => exact h
  | succ n ih =>
    simp only [saturate]
    apply ih
    intro x hx
    rcases (expand_mem g S x).1 hx with h1 | ⟨y, hy, hxy⟩
    · exact h x h1
    · exact Reach.step (h y hy) hxy

theorem saturate_mono (g : Graph) (n : Nat) (S : List Name) (x : Name) (h : x ∈ S) : x ∈ saturate g n S := by
  induction n generalizing S with
  | zero => exact h
  | succ n ih => simp only [saturate]; exact ih _ ((expand_mem g S x).2 (Or.inl h))

theorem closed_complete (g : Graph) (base S : List Name) (hc : closedB g S = true) (hb : ∀ x, x ∈ base → x ∈ S) :
    ∀ x, Reach g base x → x ∈ S := by
  intro x hr
  induction hr with
  | base hx => exact hb _ hx
  | step _ hxy ih =>
    unfold closedB at hc
    have := List.all_eq_true.1 hc _ ih
    have := List.all_eq_true.1 this _ hxy
    simpa using this

/-- the closure the monitor uses for `forget --follow-sub` is graph reachability whenever its closedness flag holds -/
theorem saturate_iff_reach (g : Graph) (base : List Name) (n : Nat)
    (hc : closedB g (saturate g n (addNew [] base)) = true) (x : Name) :
    x ∈ saturate g n (addNew [] base) ↔ Reach g base x := by
  constructor
  · apply saturate_sound
    intro y hy
    exact Reach.base (by simpa [addNew_mem] using hy)
  · apply closed_complete g base _ hc
    intro y hy
    exact saturate_mono g n _ y (by simp [addNew_mem, hy])

/-- the set the monitor demands to be cleared by `forget` is the documented selection `ForgetSel` of `C13_forget` -/
theorem forgetSpec_iff (g : Graph) (a : ForgetArgs) (dflt : Option (List Name)) (hc : forgetSpecClosed g a dflt = true)
    (x : Name) :
    (match forgetSpec g a dflt with
     | none => True
     | some L => x ∈ L) ↔ ForgetSel g a dflt x := by
  unfold forgetSpec ForgetSel
  by_cases hall : a.all = true
  · simp [hall]
  · by_cases hn : (a.names.isEmpty && a.disableDefault) = true
    · have hn' : a.names = [] ∧ a.disableDefault = true := by
        simpa [Bool.and_eq_true, List.isEmpty_iff] using hn
      simp [hall, hn, hn'.1, hn'.2]
    · have hn' : ¬(a.names = [] ∧ a.disableDefault = true) := by
        intro h; apply hn; simp [h.1, h.2]
      by_cases hs : a.followSub = true
      · unfold forgetSpecClosed at hc
        simp only [hs, Bool.not_true, Bool.false_or] at hc
        simp only [hall, hn, hs, if_true, Bool.false_eq_true, if_false]
        unfold closureOf at hc ⊢
        rw [saturate_iff_reach g _ _ hc x]
        simp [hall, hn']
      · simp only [hall, hn, hs, Bool.false_eq_true, if_false]
        rw [mem_withSubs]
        simp [hall, hn']

/-! ## ignore closure -/

theorem ignGrow_mem (g : Graph) (defs : Name → TaskDef) (S : List Name) (x : Name) :
    x ∈ ignGrow g defs S → x ∈ S ∨ ∃ d, d ∈ hardDeps g defs x ∧ d ∈ S := by
  unfold ignGrow
  simp only [List.mem_append, List.mem_filter, Bool.and_eq_true, List.any_eq_true, List.contains_eq_mem, decide_eq_true_eq]
  rintro (h | ⟨_, _, d, hd, hds⟩)
  · exact Or.inl h
  · exact Or.inr ⟨d, hd, hds⟩

theorem ignIter_sound (g : Graph) (defs : Name → TaskDef) (marks : List Name) (n : Nat) (S : List Name)
    (h : ∀ x, x ∈ S → IgnReach g defs (fun k => decide (k ∈ marks)) x) :
    ∀ x, x ∈ ignIter g defs n S → IgnReach g defs (fun k => decide (k ∈ marks)) x := by
  induction n generalizing S with
  | zero => exact h
  | succ n ih =>
    simp only [ignIter]
    apply ih
    intro x hx
    rcases ignGrow_mem g defs S x hx with h1 | ⟨d, hd, hds⟩
    · exact h x h1
    · exact IgnReach.dep hd (h d hds)

theorem ignIter_mono (g : Graph) (defs : Name → TaskDef) (n : Nat) (S : List Name) (x : Name) (h : x ∈ S) :
    x ∈ ignIter g defs n S := by
  induction n generalizing S with
  | zero => exact h
  | succ n ih => simp only [ignIter]; exact ih _ (by unfold ignGrow; exact List.mem_append_left _ h)

/-- the set the monitor demands to be reported ignored is `IgnReach` (restricted to the task set) whenever its
    closedness flag holds -/
theorem ignClosure_iff (g : Graph) (defs : Name → TaskDef) (marks : List Name) (hwf : g.WF = true)
    (hc : ignClosedB g defs (ignClosure g defs marks) = true) (x : Name) (hx : x ∈ g.names) :
    x ∈ ignClosure g defs marks ↔ IgnReach g defs (fun k => decide (k ∈ marks)) x := by
  unfold ignClosure at hc ⊢
  constructor
  · apply ignIter_sound
    intro y hy
    exact IgnReach.mark (by simpa using hy)
  · intro hr
    -- reachability only passes through hard dependencies; members of the task set are caught by closedness
    have key : ∀ y, IgnReach g defs (fun k => decide (k ∈ marks)) y → y ∈ g.names →
        y ∈ ignIter g defs g.names.length marks := by
      intro y hy
      induction hy with
      | mark hm => intro _; exact ignIter_mono g defs _ marks _ (by simpa using hm)
      | dep hd hrd ih =>
        rename_i t d
        intro ht
        unfold ignClosedB at hc
        have := List.all_eq_true.1 hc t ht
        simp only [Bool.or_eq_true, List.contains_eq_mem, decide_eq_true_eq, Bool.not_eq_true', List.any_eq_false] at this
        rcases this with h1 | h1
        · exact h1
        · -- d is a hard dependency of t, hence in the task set (WF / implicit deps are tasks): ih puts it in S
          have hdn : d ∈ g.names := by
            unfold hardDeps at hd
            rcases List.mem_append.1 hd with h2 | h2
            · unfold Graph.WF at hwf
              have := List.all_eq_true.1 hwf t ht
              have := List.all_eq_true.1 this d (by
                unfold Graph.succs
                rcases List.mem_append.1 h2 with h3 | h3
                · exact List.mem_append_left _ (List.mem_append_left _ h3)
                · exact List.mem_append_right _ h3)
              simpa using this
            · unfold implicitDeps at h2
              exact (List.mem_filter.1 h2).1
          exact absurd (ih hdn) (h1 d hd)
    exact key x hr hx

end DoitModel.Cmds
