import DoitModel.Proofs.C11JustStep
import DoitModel.Proofs.C11Par
import DoitModel.Proofs.C11Lazy
import DoitModel.Proofs.C19Walk
import DoitModel.Proofs.C05Inv
/-! # C11, laziness monitor on the model: the trace of a state, the facts about reports that the proof uses -/
namespace DoitModel.Run
open DoitModel.Report

/-- the observable part of newly emitted events, chronological -/
def obsOf (inp : RunInput) (new : List Ev) : List Ev := (new.filter fun e => !hidden inp e).reverse

theorem trace_append {inp : RunInput} {s s' : Sys} {new : List Ev} (e : s'.events = new ++ s.events) :
    trace inp s' = trace inp s ++ obsOf inp new := by
  simp [trace, obsOf, e, List.filter_append]

theorem mem_trace {inp : RunInput} {s : Sys} {e : Ev} : e ∈ trace inp s ↔ e ∈ s.events ∧ hidden inp e = false := by
  simp [trace]

theorem mem_obsOf {inp : RunInput} {new : List Ev} {e : Ev} : e ∈ obsOf inp new ↔ e ∈ new ∧ hidden inp e = false := by
  simp [obsOf]

/-- the invariants of other files that the laziness proof relies on -/
structure Ctx (inp : RunInput) (s : Sys) : Prop where
  h2 : Inv2 inp s
  h3 : Inv3 inp s
  hg : InvG inp s
  h19 : Inv19 inp s
  lz : Lazy s
  tb : TdB inp s
  hF : InvF inp s

theorem reach_ctx {inp : RunInput} {s : Sys} (hser : inp.runner = .serial) (h : Reach inp s) : Ctx inp s :=
  ⟨reach_inv2 h, reach_inv3 h, reach_invG h, reach_inv19 h, reach_lazy h, reach_tdB hser h, reach_invF h⟩

theorem preach_ctx {inp : RunInput} {s : Sys} (hpar : inp.runner ≠ .serial) (h : PReach inp s) : Ctx inp s :=
  ⟨(preach_inv h).1, (preach_inv h).2, preach_invG h, preach_inv19 h, preach_lazy h, preach_tdB hpar h, preach_invF h⟩

theorem mem_startOrder {inp : RunInput} {d : Name} {evs : List Ev} (h : d ∈ startOrder inp evs) :
    ∃ w, Ev.start d w ∈ evs := by
  simp only [startOrder, List.mem_reverse, List.mem_filterMap] at h
  obtain ⟨e, he, hd⟩ := h
  cases e <;> simp only [tdName] at hd <;> try cases hd
  rename_i n w
  split at hd
  · cases hd; exact ⟨w, he⟩
  · cases hd

/-- a task that any observable event names has had its status computed -/
theorem Ctx.mention_status {inp : RunInput} {s : Sys} (c : Ctx inp s) {d : Name} {e : Ev} (he : e ∈ s.events)
    (hm : Ev.mentions d e = true) (hh : hidden inp e = false) : stOf s d ≠ .none := by
  intro h0
  have g0 := c.h19.g0 d h0
  cases e with
  | teardown n =>
    have hn : n = d := by simpa [Ev.mentions] using hm
    subst hn
    have hin := c.tb.tdm n he
    by_cases hp : inp.runner = .process
    · rw [c.tb.proc hp] at hin; cases hin
    · rw [c.tb.shared hp] at hin
      obtain ⟨w, hw⟩ := mem_startOrder hin
      have := g0 _ hw
      simp [Ev.touches] at this
  | go n ds => simp [hidden] at hh
  | complete => simp [Ev.mentions] at hm
  | getStatus n | skipIgn n | skipUtd n | execute n | success n =>
    have := g0 _ he
    simp [Ev.touches] at this
    simp [Ev.mentions] at hm
    exact this hm
  | failure n k =>
    have := g0 _ he
    simp [Ev.touches] at this
    simp [Ev.mentions] at hm
    exact this hm
  | start n w =>
    have := g0 _ he
    simp [Ev.touches] at this
    simp [Ev.mentions] at hm
    exact this hm
  | fin n w =>
    have := g0 _ he
    simp [Ev.touches] at this
    simp [Ev.mentions] at hm
    exact this hm

theorem Ctx.unmentioned {inp : RunInput} {s : Sys} (c : Ctx inp s) {d : Name} (h0 : stOf s d = .none) :
    ∀ e ∈ trace inp s, Ev.mentions d e = false := by
  intro e he
  obtain ⟨h1, h2⟩ := mem_trace.mp he
  cases hm : Ev.mentions d e with
  | false => rfl
  | true => exact absurd h0 (c.mention_status h1 hm h2)

/-- a task whose status is computed has its `get_status` report in the trace -/
theorem Ctx.status_mention {inp : RunInput} {s : Sys} (c : Ctx inp s) {d : Name} (h : stOf s d ≠ .none) :
    Ev.getStatus d ∈ trace inp s :=
  mem_trace.mpr ⟨c.h19.g1 d h, rfl⟩

/-- an executed / up-to-date task is finished in the trace -/
theorem Ctx.good_finished {inp : RunInput} {s : Sys} (c : Ctx inp s) {d : Name} (h : (stOf s d).good = true) :
    finishedIn (trace inp s) d = true := by
  unfold finishedIn
  rcases good_finBefore c.h2 h with a | a
  · exact List.any_eq_true.mpr ⟨_, mem_trace.mpr ⟨a, rfl⟩, by simp [Ev.isFinishOf]⟩
  · exact List.any_eq_true.mpr ⟨_, mem_trace.mpr ⟨a, rfl⟩, by simp [Ev.isFinishOf]⟩

theorem finBefore_finished {inp : RunInput} {s : Sys} {d : Name} (h : finBefore s.events d) :
    ∃ e ∈ trace inp s, Ev.mentions d e = true := by
  rcases h with a | a
  · exact ⟨_, mem_trace.mpr ⟨a, rfl⟩, by simp [Ev.mentions]⟩
  · exact ⟨_, mem_trace.mpr ⟨a, rfl⟩, by simp [Ev.mentions]⟩

/-- a task with status `run` has no terminal report -/
theorem Ctx.run_noTerminal {inp : RunInput} {s : Sys} (c : Ctx inp s) {a : Name} (h : stOf s a = .run) :
    (trace inp s).any (Ev.isTerminalOf a) = false := by
  have h0 : cTerm s a = 0 := c.h3.t a (by rw [h]; rfl)
  cases hx : (trace inp s).any (Ev.isTerminalOf a) with
  | false => rfl
  | true =>
    obtain ⟨e, he, hp⟩ := List.any_eq_true.mp hx
    have : 0 < s.events.countP (Ev.isTerminalOf a) := List.countP_pos_iff.mpr ⟨e, (mem_trace.mp he).1, hp⟩
    unfold cTerm at h0; omega

/-- the deliveries known in state `s`: an executed / up-to-date task delivers its values, a task that failed after its
    actions were started delivers what it returned before failing -/
def Ds (inp : RunInput) (s : Sys) : Name → CalcRes → Prop := fun p r =>
  ((stOf s p).good = true ∧ r = inp.calcRes p) ∨ (stOf s p = .fail ∧ started s p = true ∧ r = inp.calcResFail p)

theorem knowsD_ds (inp : RunInput) (s : Sys) : KnowsD inp (Ds inp s) s :=
  ⟨fun _ h => Or.inl ⟨h, rfl⟩, fun _ h1 h2 => Or.inr ⟨h1, h2, rfl⟩⟩

theorem finishedIn_status {inp : RunInput} {s : Sys} (c : Ctx inp s) {p : Name}
    (h : finishedIn (trace inp s) p = true) : (stOf s p).good = true := by
  unfold finishedIn at h
  obtain ⟨e, he, hp⟩ := List.any_eq_true.mp h
  have he' := (mem_trace.mp he).1
  cases e <;> simp [Ev.isFinishOf] at hp
  · subst hp; rw [c.hF.ut _ he']; rfl
  · subst hp; rw [(c.hF.ok _ he').1]; rfl

theorem failedRunIn_status {inp : RunInput} {s : Sys} (c : Ctx inp s) {p : Name}
    (h : failedRunIn (trace inp s) p = true) : stOf s p = .fail := by
  unfold failedRunIn at h
  simp only [Bool.and_eq_true] at h
  obtain ⟨e, he, hp⟩ := List.any_eq_true.mp h.2
  cases e <;> simp [Ev.isFailRepOf] at hp
  subst hp
  exact c.hF.fl _ _ (mem_trace.mp he).1

/-- what is known to be delivered in `s` is what the monitor reads off the trace (`resAt`) -/
theorem Ctx.ds_resAt {inp : RunInput} {n : Nat} (hb : BoundedP inp n) {s : Sys} (c : Ctx inp s) {p : Name}
    {r : CalcRes} (hp : p < n) (h : Ds inp s p r) :
    (∀ x ∈ r.calcs, x ∈ (resAt inp (trace inp s) p).calcs) ∧ (∀ x ∈ r.tasks, x ∈ (resAt inp (trace inp s) p).tasks) ∧
    (∀ x ∈ r.files, x ∈ (resAt inp (trace inp s) p).files) := by
  rcases h with ⟨hg, rfl⟩ | ⟨hf, hs, rfl⟩
  · have := c.good_finished hg
    unfold resAt; rw [if_pos this]; exact ⟨fun _ h => h, fun _ h => h, fun _ h => h⟩
  · by_cases hna : inp.noAct p = true
    · obtain ⟨a, b, d⟩ := hb.na p hp hna
      rw [a, b, d]
      exact ⟨fun _ h => (by cases h), fun _ h => (by cases h), fun _ h => (by cases h)⟩
    · have hnf : finishedIn (trace inp s) p = false := by
        cases hx : finishedIn (trace inp s) p with
        | false => rfl
        | true => have := finishedIn_status c hx; rw [hf] at this; cases this
      have hfr : failedRunIn (trace inp s) p = true := by
        unfold failedRunIn
        simp only [Bool.and_eq_true]
        constructor
        · unfold started at hs
          obtain ⟨e, he, hpe⟩ := List.any_eq_true.mp hs
          cases e <;> simp at hpe
          rename_i m w
          subst hpe
          exact List.any_eq_true.mpr ⟨_, mem_trace.mpr ⟨he, by simpa [hidden] using hna⟩, by simp [Ev.isStartOf]⟩
        · obtain ⟨k, hk⟩ := c.hF.fe p hf
          exact List.any_eq_true.mpr ⟨_, mem_trace.mpr ⟨hk, rfl⟩, by simp [Ev.isFailRepOf]⟩
      unfold resAt
      rw [hnf, hfr]
      exact ⟨fun _ h => h, fun _ h => h, fun _ h => h⟩

/-- the deliveries read off the trace only grow along a transition -/
theorem resLe_step {inp : RunInput} {s s' : Sys} (c' : Ctx inp s') {new : List Ev} (hev : s'.events = new ++ s.events) :
    ResLe inp (trace inp s) (trace inp s ++ obsOf inp new) := by
  apply resLe_append
  intro p hp
  rw [← trace_append hev]
  have hp' : failedRunIn (trace inp s') p = true := by
    rw [trace_append hev]
    unfold failedRunIn at hp ⊢
    simp only [Bool.and_eq_true] at hp ⊢
    exact ⟨by rw [List.any_append, hp.1]; rfl, by rw [List.any_append, hp.2]; rfl⟩
  have hst := failedRunIn_status c' hp'
  cases hx : finishedIn (trace inp s') p with
  | false => rfl
  | true => have := finishedIn_status c' hx; rw [hst] at this; cases this

/-- the systems are started according to `inp.runner`: the serial system of a parallel input never moves … -/
theorem reach_mismatch {inp : RunInput} {s : Sys} (hne : inp.runner ≠ .serial) (h : Reach inp s) : s = init inp := by
  induction h with
  | init => rfl
  | @next s0 s1 c _ hs ih =>
    subst ih
    cases c with
    | main perm => simp [step, serialStep, init, hne] at hs
    | take w => cases hs
    | done w => cases hs

/-- … nor does the parallel system of a serial input -/
theorem preach_mismatch {inp : RunInput} {s : Sys} (hser : inp.runner = .serial) (h : PReach inp s) : s = init inp := by
  induction h with
  | init => rfl
  | @next s0 s1 c _ hs ih =>
    subst ih
    cases c with
    | main perm => simp [pstep, mainStep, init, hser] at hs
    | take w => simp [pstep, takeStep, init] at hs
    | done w => simp [pstep, doneStep, init] at hs

end DoitModel.Run
