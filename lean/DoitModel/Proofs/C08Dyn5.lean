import DoitModel.Proofs.C08Dyn4
import DoitModel.Proofs.C08Conf5
import DoitModel.Proofs.RunDeliver
/-! # C08 (I10) with calc_dep, step 3b: at the select point the dynamic dependency lists of the node ARE the dependency
    set of the denotation, and the decision of `select_task` is the one the denotation makes -/
namespace DoitModel.Run.Dyn

/-- the derived outcome of every task that is finished in `s` (any value elsewhere) -/
noncomputable def ddOf (inp : RunInput) (s : Sys) (d : Name) : Den :=
  open Classical in if h : ∃ x, DenOf inp d x ∧ x.rs = stOf s d then Classical.choose h else .bot

theorem ddOf_spec {inp : RunInput} {s : Sys} {d : Name} (h : InvE inp s) (hf : (stOf s d).finished = true) :
    DenOf inp d (ddOf inp s d) ∧ (ddOf inp s d).rs = stOf s d := by
  have hx := h.fin d hf
  unfold ddOf; rw [dif_pos hx]; exact Classical.choose_spec hx

theorem inLoop_false {pc : PC} (h : pc.inLoop = false) : pc.iterT = false ∧ pc.iterC = false := by
  cases pc <;> simp [PC.inLoop, PC.iterT, PC.iterC] at h ⊢

/-- a failed task whose denotation is a failure during execution delivers `calcResFail` under `ddOf` -/
theorem delivOf_ddOf_fail {inp : RunInput} {s : Sys} {c : Name} (hD : InvE inp s) (hf : stOf s c = .fail)
    (hsf : SF inp c) : delivOf inp c (ddOf inp s c) = inp.calcResFail c := by
  obtain ⟨d, hd, hs⟩ := hsf
  have sp := ddOf_spec hD (d := c) (by rw [hf]; rfl)
  have e : d = ddOf inp s c := hd.functional sp.1
  subst e
  exact delivOf_fail (by rw [sp.2, hf]; rfl) hs

/-- calc_deps justified by the state are calc_deps of the denotation -/
theorem CalcS.toOf {inp : RunInput} {s : Sys} {n c : Name} (hD : InvE inp s) (h : CalcS inp s n c) :
    CalcOf inp (ddOf inp s) n c := by
  induction h with
  | static hc => exact CalcOf.static hc
  | deliv _ hg hm ih =>
    exact CalcOf.deliv ih (by rw [delivOf_good (by rw [(ddOf_spec hD (RS.good_finished hg)).2]; exact hg)]; exact hm)
  | delivF _ hf hsf hm ih =>
    exact CalcOf.deliv ih (by rw [delivOf_ddOf_fail hD hf hsf]; exact hm)

theorem TaskS.toOf {inp : RunInput} {s : Sys} {n x : Name} (hD : InvE inp s) (h : TaskS inp s n x) :
    DepOf inp (ddOf inp s) n x := by
  rcases h with a | ⟨c, hc, hg, hm⟩ | ⟨c, hc, hf, hsf, hm⟩
  · exact Or.inl a
  · exact Or.inr (Or.inr ⟨c, hc.toOf hD,
      by rw [delivOf_good (by rw [(ddOf_spec hD (RS.good_finished hg)).2]; exact hg)]; exact hm⟩)
  · exact Or.inr (Or.inr ⟨c, hc.toOf hD, by rw [delivOf_ddOf_fail hD hf hsf]; exact hm⟩)

/-- what the failed-during-execution calc_deps of a node delivered is in its dynamic dependency lists -/
def DelivF (inp : RunInput) (s : Sys) (nd : Node) : Prop :=
  ∀ c ∈ nd.dynCalc, (stOf s c).finished = true → (stOf s c).good = false → startedFail inp c (ddOf inp s c) = true →
    (∀ x ∈ (inp.calcResFail c).tasks, x ∈ nd.dynTask) ∧ (∀ x ∈ (inp.calcResFail c).files, x ∈ nd.dynTask) ∧
    (∀ x ∈ (inp.calcResFail c).calcs, x ∈ nd.dynCalc)

/-- the completeness invariant `AllDCF` (what a processed, failed-during-execution calc_dep returned is in the lists)
    gives `DelivF` at a point where the node waits for nothing -/
theorem DelivF.ofDCF {inp : RunInput} {s : Sys} {n : Name} {nd : Node} (hD : InvE inp s) (h1 : Inv1 inp s)
    (hdcf : AllDCF inp (SF inp) s) (hn : s.nodes n = some nd) (hl : nd.pc.inLoop = false) : DelivF inp s nd := by
  intro c hc hfin hg hsf
  have hm1 := (h1.node n nd hn).m1 hl
  obtain ⟨_, noC⟩ := inLoop_false hl
  have hpr : Processed nd c := ⟨by rw [hm1.2.1]; simp,
    (fun (e : nd.pc.iterC = true ∧ c ∈ nd.snapCalc) => by rw [noC] at e; cases e.1), by rw [hm1.2.2]; simp⟩
  have hf : stOf s c = .fail := by
    rw [← (ddOf_spec hD hfin).2]
    cases hdd : ddOf inp s c <;> rw [hdd] at hsf <;> first | rfl | (simp [startedFail] at hsf)
  exact hdcf n nd hn c hc hpr hf ⟨_, (ddOf_spec hD hfin).1, hsf⟩

/-- what the invariants give about the dependency lists of a node that is outside the dependency loop and waits for
    nothing (the two select points, and `done`) -/
structure SelDeps (inp : RunInput) (s : Sys) (n : Name) (nd : Node) : Prop where
  cls : ∀ d ∈ nd.dynTask ++ nd.dynCalc, Cls s nd d
  hL : ∀ x, x ∈ nd.dynTask ++ nd.dynCalc ↔ DepOf inp (ddOf inp s) n x
  hT : ∀ d ∈ nd.dynTask ++ nd.dynCalc, DenOf inp d (ddOf inp s d)
  rs : ∀ d ∈ nd.dynTask ++ nd.dynCalc, (ddOf inp s d).rs = stOf s d
  deliv : ∀ c ∈ nd.dynCalc, (stOf s c).good = true → Delivered inp nd c
  delivF : DelivF inp s nd

theorem sel_deps {inp : RunInput} {s : Sys} {n : Name} {nd : Node} (hD : InvE inp s) (hN : InvN inp s)
    (h1 : Inv1 inp s) (hdc : AllDC inp s) (hn : s.nodes n = some nd) (hl : nd.pc.inLoop = false)
    (hq : nd.pc.quiet = true) (hdf : DelivF inp s nd) : SelDeps inp s n nd := by
  have hok := h1.node n nd hn
  have hS := hN n nd hn
  have hm1 := hok.m1 hl
  have hm2 := hok.m2 hq
  obtain ⟨noT, noC⟩ := inLoop_false hl
  have cls : ∀ d ∈ nd.dynTask ++ nd.dynCalc, Cls s nd d := by
    intro d hd
    rcases List.mem_append.mp hd with hd' | hd'
    · rcases hok.kt d hd' with a | ⟨a, _⟩ | a | a
      · rw [hm1.1] at a; cases a
      · rw [noT] at a; cases a
      · rw [hm2] at a; cases a
      · exact a
    · rcases hok.kc d hd' with a | ⟨a, _⟩ | a | a
      · rw [hm1.2.1] at a; cases a
      · rw [noC] at a; cases a
      · rw [hm1.2.2] at a; cases a
      · exact a
  have rs : ∀ d ∈ nd.dynTask ++ nd.dynCalc, (ddOf inp s d).rs = stOf s d := fun d hd => (ddOf_spec hD (cls d hd).1).2
  have deliv : ∀ c ∈ nd.dynCalc, (stOf s c).good = true → Delivered inp nd c := by
    intro c hc hg
    have hpr : Processed nd c := ⟨by rw [hm1.2.1]; simp,
      (fun (e : nd.pc.iterC = true ∧ c ∈ nd.snapCalc) => by rw [noC] at e; cases e.1), by rw [hm1.2.2]; simp⟩
    exact hdc n nd hn c hc hpr hg
  have calcIn : ∀ c, CalcOf inp (ddOf inp s) n c → c ∈ nd.dynCalc := by
    intro c hc
    induction hc with
    | static hc => exact hok.st.2 _ hc
    | @deliv c x _ hm ih =>
      have hcm : c ∈ nd.dynTask ++ nd.dynCalc := by simp [ih]
      rcases delivOf_cases inp c (ddOf inp s c) with ⟨hg, e⟩ | ⟨hg, hsf, e⟩ | e
      · rw [e] at hm; rw [rs c hcm] at hg
        exact (deliv c ih hg).2.2 x hm
      · rw [e] at hm; rw [rs c hcm] at hg
        exact (hdf c ih (cls c hcm).1 hg hsf).2.2 x hm
      · rw [e] at hm; cases hm
  refine ⟨cls, ?_, fun d hd => (ddOf_spec hD (cls d hd).1).1, rs, deliv, hdf⟩
  intro x
  constructor
  · intro hx
    rcases List.mem_append.mp hx with a | a
    · exact (hS.1.dynT x a).toOf hD
    · exact DepOf.ofCalc ((hS.1.dynC x a).toOf hD)
  · rintro (a | a | ⟨c, hc, hm⟩)
    · exact List.mem_append.mpr (Or.inl (hok.st.1 x a))
    · exact List.mem_append.mpr (Or.inr (calcIn x a))
    · have hc' := calcIn c hc
      have hcm : c ∈ nd.dynTask ++ nd.dynCalc := by simp [hc']
      rcases delivOf_cases inp c (ddOf inp s c) with ⟨hg, e⟩ | ⟨hg, hsf, e⟩ | e
      · rw [e] at hm; rw [rs c hcm] at hg
        obtain ⟨d1, d2, _⟩ := deliv c hc' hg
        rcases hm with m | m
        · exact List.mem_append.mpr (Or.inl (d1 x m))
        · exact List.mem_append.mpr (Or.inl (d2 x m))
      · rw [e] at hm; rw [rs c hcm] at hg
        obtain ⟨d1, d2, _⟩ := hdf c hc' (cls c hcm).1 hg hsf
        rcases hm with m | m
        · exact List.mem_append.mpr (Or.inl (d1 x m))
        · exact List.mem_append.mpr (Or.inl (d2 x m))
      · rw [e] at hm; rcases hm with m | m <;> cases m

theorem stage1L_run {inp : RunInput} {dd : Name → Den} {L : List Name} {n : Name} (h : stage1L inp dd L n = .run) :
    ¬ (L.any (fun d => (dd d).isIgn) = true) ∧ ¬ (L.any (fun d => (dd d).isFail) = true) := by
  unfold stage1L at h
  split at h; · cases h
  rename_i c1
  split at h; · cases h
  rename_i c2
  exact ⟨fun x => c1 (Or.inl x), c2⟩

theorem sel1_stage1L {inp : RunInput} {n : Name} {nd : Node} {dd : Name → Den} {L : List Name} (h0 : nd.status = .none)
    (hI : L.any (fun d => (dd d).isIgn) = true ↔ nd.ign ≠ [])
    (hB : L.any (fun d => (dd d).isFail) = true ↔ nd.bad ≠ []) :
    match selDecision inp n nd with
    | .skipIgn => stage1L inp dd L n = .ign
    | .unmet => stage1L inp dd L n = .unmet
    | .depErr => stage1L inp dd L n = .depErr
    | .utd => stage1L inp dd L n = .utd
    | .runFirst => stage1L inp dd L n = .run ∧ inp.setup n ≠ []
    | .go => stage1L inp dd L n = .run ∧ inp.setup n = [] ∧ inp.argsOk n = true
    | .argsErr => stage1L inp dd L n = .run ∧ inp.setup n = [] ∧ inp.argsOk n = false
    | .assertFail => False := by
  unfold selDecision stage1L
  simp only [h0, if_true, hI, hB]
  by_cases c1 : nd.ign ≠ [] ∨ inp.ignored n = true
  · simp [c1]
  · by_cases c2 : nd.bad ≠ []
    · simp [c1, c2]
    · by_cases c3 : inp.statusOf n = .error
      · simp [c1, c2, c3]
      · by_cases c4 : effStatus inp n = .utd
        · simp [c1, c2, c3, c4]
        · by_cases c5 : inp.setup n ≠ []
          · simp [c1, c2, c3, c4, c5]
          · by_cases c6 : inp.argsOk n = true
            · simp [c1, c2, c3, c4, c5, c6]; simpa using c5
            · simp [c1, c2, c3, c4, c5, c6]; simpa using c5

/-- the first-pass facts: with `L = task.task_dep ++ task.calc_dep`, "some dependency is ignored / failed" is
    "`ignored_deps` / `bad_deps` is non-empty", hence the decision is `stage1L` -/
theorem first_pass_key {inp : RunInput} {s : Sys} {n : Name} {nd : Node} (hN : InvN inp s)
    (hn : s.nodes n = some nd) (sd : SelDeps inp s n nd) (hpc1 : nd.pc = .afterSelf1) (h0 : nd.status = .none) :
    match selDecision inp n nd with
    | .skipIgn => stage1L inp (ddOf inp s) (nd.dynTask ++ nd.dynCalc) n = .ign
    | .unmet => stage1L inp (ddOf inp s) (nd.dynTask ++ nd.dynCalc) n = .unmet
    | .depErr => stage1L inp (ddOf inp s) (nd.dynTask ++ nd.dynCalc) n = .depErr
    | .utd => stage1L inp (ddOf inp s) (nd.dynTask ++ nd.dynCalc) n = .utd
    | .runFirst => stage1L inp (ddOf inp s) (nd.dynTask ++ nd.dynCalc) n = .run ∧ inp.setup n ≠ []
    | .go => stage1L inp (ddOf inp s) (nd.dynTask ++ nd.dynCalc) n = .run ∧ inp.setup n = [] ∧ inp.argsOk n = true
    | .argsErr => stage1L inp (ddOf inp s) (nd.dynTask ++ nd.dynCalc) n = .run ∧ inp.setup n = [] ∧ inp.argsOk n = false
    | .assertFail => False := by
  have hS := hN n nd hn
  have srcT : ∀ p, Src inp n nd.pc.late nd p → p ∈ nd.dynTask ++ nd.dynCalc := by
    intro p hp
    rcases hp with a | a | ⟨a, _⟩
    · exact List.mem_append.mpr (Or.inl a)
    · exact List.mem_append.mpr (Or.inr a)
    · rw [hpc1] at a; cases a
  have hI := any_iff_ne_nil (ddOf inp s) s (nd.dynTask ++ nd.dynCalc) nd.ign .ign Den.isIgn Den.isIgn_iff
    (fun d hd' => ⟨sd.rs d hd', (sd.cls d hd').2.2⟩) (fun p hp => ⟨(hS.1.ign p hp).1, srcT p (hS.1.ign p hp).2⟩)
  have hB := any_iff_ne_nil (ddOf inp s) s (nd.dynTask ++ nd.dynCalc) nd.bad .fail Den.isFail Den.isFail_iff
    (fun d hd' => ⟨sd.rs d hd', (sd.cls d hd').2.1⟩) (fun p hp => ⟨(hS.1.bad p hp).1, srcT p (hS.1.bad p hp).2⟩)
  exact sel1_stage1L (dd := ddOf inp s) h0 hI hB

/-- a recorded first-pass justification (`R1`) transfers to the current dependency lists -/
theorem r1_now {inp : RunInput} {s : Sys} {n : Name} {nd : Node} (sd : SelDeps inp s n nd) (r : R1 inp n) :
    stage1L inp (ddOf inp s) (nd.dynTask ++ nd.dynCalc) n = .run := by
  obtain ⟨dd0, L0, hL0, hT0, h10⟩ := r
  obtain ⟨sub, eT⟩ := dep_agree sd.hL hL0 hT0 (fun d hd b hb => (sd.hT d hd).functional hb)
  rw [← h10]; exact stage1L_congr sub eT

/-- `select_task(n)` on the node the generator yielded: the new status / report / `go` mark is the denotation's -/
theorem invE_select {inp : RunInput} {s : Sys} {n : Name} {nd : Node} (hD : InvE inp s) (hN : InvN inp s)
    (h2 : Inv2 inp s) (hdc : AllDC inp s) (haw : awaiting s) (hsusp : s.susp = some (.node n))
    (hn : s.nodes n = some nd) (hdf : DelivF inp s nd)
    (hd : selDecision inp n nd ≠ .assertFail) : InvE inp (applySel inp s n nd (selDecision inp n nd)) := by
  have hok := h2.inv1.node n nd hn
  have hS := hN n nd hn
  obtain ⟨nd', hn', hpc⟩ := h2.inv1.sp n hsusp
  rw [hn] at hn'; cases hn'
  have hm2 : nd.waitRun = [] := by
    rcases hpc with e | e <;> exact hok.m2 (by rw [e]; rfl)
  have sd : SelDeps inp s n nd := by
    rcases hpc with e | e <;> exact sel_deps hD hN h2.inv1 hdc hn (by rw [e]; rfl) (by rw [e]; rfl) hdf
  have hu := selDecision_unfinished hd
  by_cases h0 : nd.status = .none
  · -- first pass
    have hpc1 : nd.pc = .afterSelf1 := by
      rcases hpc with e | e
      · exact e
      · exact absurd h0 (hS.2 (by rw [e]; rfl))
    have key := first_pass_key hN hn sd hpc1 h0
    have early : ∀ r, stage1L inp (ddOf inp s) (nd.dynTask ++ nd.dynCalc) n = r → r ≠ .run →
        DenOf inp n (combineL inp (ddOf inp s) (nd.dynTask ++ nd.dynCalc) n) :=
      fun r h1 hr => DenOf.mk n _ _ sd.hL sd.hT (fun h1' => absurd (h1.symm.trans h1') hr)
    apply invE_applySel _ hD hn hu hd
    · intro d hsd
      cases hdec : selDecision inp n nd <;> rw [hdec] at key hsd <;> simp only [selDen] at hsd <;> cases hsd
      · have := early _ key (by simp); simpa [combineL, key] using this
      · have := early _ key (by simp); simpa [combineL, key] using this
      · have := early _ key (by simp); simpa [combineL, key] using this
      · have := early _ key (by simp); simpa [combineL, key] using this
      · have := DenOf.mk n _ _ sd.hL sd.hT (fun _ d hd' => by rw [key.2.1] at hd'; cases hd')
        simpa [combineL, key.1, stage2, key.2.1, key.2.2] using this
    · intro hdec
      refine ⟨ddOf inp s, _, sd.hL, sd.hT, ?_⟩
      rcases hdec with e | e <;> (rw [e] at key; exact key.1)
    · intro hdec
      rw [hdec] at key
      refine ⟨ddOf inp s, _, sd.hL, sd.hT, key.1, ?_, ?_, key.2.2⟩
      · intro d hd'; rw [key.2.1] at hd'; cases hd'
      · simp [stage2, key.2.1, key.2.2]
  · -- second pass
    have hrun : nd.status = .run ∧ inp.setup n ≠ [] := by
      refine ⟨?_, ?_⟩
      · apply Classical.byContradiction; intro c; apply hd; unfold selDecision; simp [h0, c]
      · intro c; apply hd; unfold selDecision; simp [h0, c]
    have hpc2 : nd.pc = .afterSelf2 := by
      rcases hpc with e | e
      · exact absurd (h2.sel1 haw n nd hsusp hn e) h0
      · exact e
    have h1 := r1_now sd (hD.run1 n (by simp [stOf, hn, hrun.1]))
    obtain ⟨nI, nB⟩ := stage1L_run h1
    have clsS : ∀ d ∈ inp.setup n, Cls s nd d := by
      intro d hd'
      rcases hok.ks (by rw [hpc2]; rfl) d hd' with a | a
      · rw [hm2] at a; cases a
      · exact a
    have hSd : ∀ d ∈ inp.setup n, DenOf inp d (ddOf inp s d) := fun d hd' => (ddOf_spec hD (clsS d hd').1).1
    have inL : ∀ p, Src inp n nd.pc.late nd p → p ∈ nd.dynTask ++ nd.dynCalc ∨ p ∈ inp.setup n := by
      intro p hp
      rcases hp with a | a | ⟨_, a⟩
      · exact Or.inl (List.mem_append.mpr (Or.inl a))
      · exact Or.inl (List.mem_append.mpr (Or.inr a))
      · exact Or.inr a
    have srcI : ∀ p, stOf s p = .ign → Src inp n nd.pc.late nd p → p ∈ inp.setup n := by
      intro p hp hsrc
      rcases inL p hsrc with a | a
      · exfalso; apply nI; rw [List.any_eq_true]
        exact ⟨p, a, (Den.isIgn_iff _).mpr (by rw [sd.rs p a]; exact hp)⟩
      · exact a
    have srcB : ∀ p, stOf s p = .fail → Src inp n nd.pc.late nd p → p ∈ inp.setup n := by
      intro p hp hsrc
      rcases inL p hsrc with a | a
      · exfalso; apply nB; rw [List.any_eq_true]
        exact ⟨p, a, (Den.isFail_iff _).mpr (by rw [sd.rs p a]; exact hp)⟩
      · exact a
    have hI := any_iff_ne_nil (ddOf inp s) s (inp.setup n) nd.ign .ign Den.isIgn Den.isIgn_iff
      (fun d hd' => ⟨(ddOf_spec hD (clsS d hd').1).2, (clsS d hd').2.2⟩)
      (fun p hp => ⟨(hS.1.ign p hp).1, srcI p (hS.1.ign p hp).1 (hS.1.ign p hp).2⟩)
    have hB := any_iff_ne_nil (ddOf inp s) s (inp.setup n) nd.bad .fail Den.isFail Den.isFail_iff
      (fun d hd' => ⟨(ddOf_spec hD (clsS d hd').1).2, (clsS d hd').2.1⟩)
      (fun p hp => ⟨(hS.1.bad p hp).1, srcB p (hS.1.bad p hp).1 (hS.1.bad p hp).2⟩)
    have key := sel2_stage2 (dd := ddOf inp s) hrun.1 hrun.2 hI hB
    have base : DenOf inp n (stage2 inp (ddOf inp s) n) := by
      have := DenOf.mk n _ _ sd.hL sd.hT (fun _ => hSd)
      simpa [combineL, h1] using this
    apply invE_applySel _ hD hn hu hd
    · intro d hsd
      cases hdec : selDecision inp n nd <;> rw [hdec] at key hsd <;> simp only [selDen] at hsd <;> cases hsd
      · rw [key] at base; exact base
      · rw [key] at base; exact base
      · exact key.elim
      · exact key.elim
      · rw [key] at base; exact base
    · intro _; exact ⟨ddOf inp s, _, sd.hL, sd.hT, h1⟩
    · intro hdec
      rw [hdec] at key
      exact ⟨ddOf inp s, _, sd.hL, sd.hT, h1, hSd, key, selDecision_go_args hdec⟩

end DoitModel.Run.Dyn
