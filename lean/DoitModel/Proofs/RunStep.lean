import DoitModel.Proofs.RunInv
/-! # `Inv1` is preserved by the dispatcher (`dtick`, `send`) and by the runner's status changes -/
namespace DoitModel.Run

/-! ### node-local transitions of `_add_task` -/

theorem nodeOK_loopTop {inp : RunInput} {s : Sys} {n : Name} {nd : Node} {perm : List Name}
    (hok : NodeOK inp s n nd) (hpc : nd.pc = .loopTop) (hp : perm.Perm nd.pendCalc) :
    NodeOK inp s n { nd with snapCalc := perm, pendCalc := [], snapTask := nd.pendTask, pendTask := [],
                             pc := .calcIter perm } := by
  have hst : nd.status = .none := by
    cases h : nd.status with
    | none => rfl
    | _ => have := hok.l (by simp [h]); simp [hpc, PC.yielded1] at this
  have hws : nd.waitSelect = false := by
    cases h : nd.waitSelect with
    | false => rfl
    | true => have := hok.ws h; rw [hpc] at this; cases this
  constructor
  · intro d hd
    rcases hok.kt d hd with h | ⟨h, _⟩ | h | h
    · exact Or.inr (Or.inl ⟨rfl, h⟩)
    · simp [hpc, PC.iterT] at h
    · exact Or.inr (Or.inr (Or.inl h))
    · exact Or.inr (Or.inr (Or.inr h))
  · intro d hd
    rcases hok.kc d hd with h | ⟨h, _⟩ | h | h
    · exact Or.inr (Or.inl ⟨rfl, hp.mem_iff.mpr h⟩)
    · simp [hpc, PC.iterC] at h
    · exact Or.inr (Or.inr (Or.inl h))
    · exact Or.inr (Or.inr (Or.inr h))
  · intro h; simp [PC.setupAbsorbed] at h
  · intro h; simp [PC.inLoop] at h
  · intro h; simp [PC.quiet] at h
  · intro h; exact absurd hst h
  · intro h; simp [hws] at h
  · exact hok.st

/-- the program counter moves between two positions that the obligations do not distinguish -/
theorem nodeOK_setPc {inp : RunInput} {s : Sys} {n : Name} {nd : Node} (pc' : PC) (hok : NodeOK inp s n nd)
    (h1 : pc'.iterT = nd.pc.iterT) (h2 : pc'.iterC = nd.pc.iterC)
    (h3 : pc'.setupAbsorbed = true → nd.pc.setupAbsorbed = true)
    (h4 : pc'.inLoop = false → nd.pc.inLoop = false) (h5 : pc'.quiet = true → nd.pc.quiet = true)
    (h6 : nd.pc.yielded1 = true → pc'.yielded1 = true) (h7 : nd.waitSelect = true → pc' = .setupDecide) :
    NodeOK inp s n { nd with pc := pc' } := by
  constructor
  · intro d hd
    rcases hok.kt d hd with h | ⟨h, h'⟩ | h | h
    · exact Or.inl h
    · exact Or.inr (Or.inl ⟨by simpa [h1] using h, h'⟩)
    · exact Or.inr (Or.inr (Or.inl h))
    · exact Or.inr (Or.inr (Or.inr h))
  · intro d hd
    rcases hok.kc d hd with h | ⟨h, h'⟩ | h | h
    · exact Or.inl h
    · exact Or.inr (Or.inl ⟨by simpa [h2] using h, h'⟩)
    · exact Or.inr (Or.inr (Or.inl h))
    · exact Or.inr (Or.inr (Or.inr h))
  · intro h; exact hok.ks (h3 h)
  · intro h; exact hok.m1 (h4 h)
  · intro h; exact hok.m2 (h5 h)
  · intro h; exact h6 (hok.l h)
  · exact h7
  · exact hok.st

theorem nodeOK_noWaitSelect {inp : RunInput} {s : Sys} {n : Name} {nd : Node} (hok : NodeOK inp s n nd)
    (hpc : nd.pc ≠ .setupDecide) : nd.waitSelect = false := by
  cases h : nd.waitSelect with
  | false => rfl
  | true => exact absurd (hok.ws h) hpc

/-- `calcIter []`: `_node_add_wait_run(node, calc_dep_list, calc=True)` -/
theorem nodeOK_waitCalc {inp : RunInput} {s : Sys} {n : Name} {nd : Node}
    (hok : NodeOK inp s n nd) (hpc : nd.pc = .calcIter []) :
    NodeOK inp s n (waitNode inp s nd nd.snapCalc true (.taskIter nd.snapTask)) := by
  have f := waitNode_facts inp s nd nd.snapCalc true (.taskIter nd.snapTask)
  have hst : nd.status = .none := by
    cases h : nd.status with
    | none => rfl
    | _ => have := hok.l (by simp [h]); simp [hpc, PC.yielded1] at this
  have hws := nodeOK_noWaitSelect hok (by rw [hpc]; simp)
  constructor
  · intro d hd
    rcases f.newTask d hd with h | h
    · rcases hok.kt d h with h1 | ⟨_, h1⟩ | h1 | h1
      · exact Or.inl (f.pendTask d h1)
      · exact Or.inr (Or.inl ⟨by rw [f.pc]; rfl, f.snapTask ▸ h1⟩)
      · exact Or.inr (Or.inr (Or.inl (f.wr d h1)))
      · exact Or.inr (Or.inr (Or.inr (f.cls d h1)))
    · exact Or.inl h
  · intro d hd
    rcases f.newCalc d hd with h | h
    · rcases hok.kc d h with h1 | ⟨_, h1⟩ | h1 | h1
      · exact Or.inl (f.pendCalc d h1)
      · rcases f.absorbed d h1 with h2 | h2
        · exact Or.inr (Or.inr (Or.inl (by simpa using h2)))
        · exact Or.inr (Or.inr (Or.inr h2))
      · exact Or.inr (Or.inr (Or.inl (f.wc d h1)))
      · exact Or.inr (Or.inr (Or.inr (f.cls d h1)))
    · exact Or.inl h
  · intro h; rw [f.pc] at h; simp [PC.setupAbsorbed] at h
  · intro h; rw [f.pc] at h; simp [PC.inLoop] at h
  · intro h; rw [f.pc] at h; simp [PC.quiet] at h
  · intro h; rw [f.status] at h; exact absurd hst h
  · intro h; rw [f.waitSelect, hws] at h; cases h
  · exact ⟨fun d hd => f.dynTask d (hok.st.1 d hd), fun d hd => f.dynCalc d (hok.st.2 d hd)⟩

/-- `taskIter []`: `_node_add_wait_run(node, task_dep_list)` -/
theorem nodeOK_waitTask {inp : RunInput} {s : Sys} {n : Name} {nd : Node}
    (hok : NodeOK inp s n nd) (hpc : nd.pc = .taskIter []) :
    NodeOK inp s n (waitNode inp s nd nd.snapTask false .afterDeps) := by
  have f := waitNode_facts inp s nd nd.snapTask false .afterDeps
  obtain ⟨⟨e1, e2, e3, e4⟩, e5⟩ := f.same rfl
  have hst : nd.status = .none := by
    cases h : nd.status with
    | none => rfl
    | _ => have := hok.l (by simp [h]); simp [hpc, PC.yielded1] at this
  have hws := nodeOK_noWaitSelect hok (by rw [hpc]; simp)
  constructor
  · intro d hd
    rw [e1] at hd
    rcases hok.kt d hd with h1 | ⟨_, h1⟩ | h1 | h1
    · exact Or.inl (f.pendTask d h1)
    · rcases f.absorbed d h1 with h2 | h2
      · exact Or.inr (Or.inr (Or.inl (by simpa using h2)))
      · exact Or.inr (Or.inr (Or.inr h2))
    · exact Or.inr (Or.inr (Or.inl (f.wr d h1)))
    · exact Or.inr (Or.inr (Or.inr (f.cls d h1)))
  · intro d hd
    rw [e2] at hd
    rcases hok.kc d hd with h1 | ⟨h0, _⟩ | h1 | h1
    · exact Or.inl (f.pendCalc d h1)
    · simp [hpc, PC.iterC] at h0
    · exact Or.inr (Or.inr (Or.inl (f.wc d h1)))
    · exact Or.inr (Or.inr (Or.inr (f.cls d h1)))
  · intro h; rw [f.pc] at h; simp [PC.setupAbsorbed] at h
  · intro h; rw [f.pc] at h; simp [PC.inLoop] at h
  · intro h; rw [f.pc] at h; simp [PC.quiet] at h
  · intro h; rw [f.status] at h; exact absurd hst h
  · intro h; rw [f.waitSelect, hws] at h; cases h
  · exact ⟨fun d hd => f.dynTask d (hok.st.1 d hd), fun d hd => f.dynCalc d (hok.st.2 d hd)⟩

/-- `setupIter []`: `_node_add_wait_run(node, this_task.setup_tasks)` -/
theorem nodeOK_waitSetup {inp : RunInput} {s : Sys} {n : Name} {nd : Node}
    (hok : NodeOK inp s n nd) (hpc : nd.pc = .setupIter []) :
    NodeOK inp s n (waitNode inp s nd (inp.setup n) false .afterSetup) := by
  have f := waitNode_facts inp s nd (inp.setup n) false .afterSetup
  obtain ⟨⟨e1, e2, e3, e4⟩, e5⟩ := f.same rfl
  have hm1 := hok.m1 (by rw [hpc]; rfl)
  have hws := nodeOK_noWaitSelect hok (by rw [hpc]; simp)
  constructor
  · intro d hd
    rw [e1] at hd
    rcases hok.kt d hd with h1 | ⟨h0, _⟩ | h1 | h1
    · exact Or.inl (f.pendTask d h1)
    · simp [hpc, PC.iterT] at h0
    · exact Or.inr (Or.inr (Or.inl (f.wr d h1)))
    · exact Or.inr (Or.inr (Or.inr (f.cls d h1)))
  · intro d hd
    rw [e2] at hd
    rcases hok.kc d hd with h1 | ⟨h0, _⟩ | h1 | h1
    · exact Or.inl (f.pendCalc d h1)
    · simp [hpc, PC.iterC] at h0
    · exact Or.inr (Or.inr (Or.inl (f.wc d h1)))
    · exact Or.inr (Or.inr (Or.inr (f.cls d h1)))
  · intro _ d hd
    rcases f.absorbed d hd with h2 | h2
    · exact Or.inl (by simpa using h2)
    · exact Or.inr h2
  · intro _; rw [e3, e4, e5]; exact hm1
  · intro h; rw [f.pc] at h; simp [PC.quiet] at h
  · intro _; rw [f.pc]; rfl
  · intro h; rw [f.waitSelect, hws] at h; cases h
  · exact ⟨fun d hd => f.dynTask d (hok.st.1 d hd), fun d hd => f.dynCalc d (hok.st.2 d hd)⟩


/-! ### `_gen_node`, `_node_add_wait_run` on the state -/

theorem genStep_inv1 {inp : RunInput} {s : Sys} {n : Name} {nd : Node} (d : Name) (pc' : PC) (h : Inv1 inp s)
    (hc : s.cur = some n) (hn : s.nodes n = some nd) (hsusp : s.susp = none)
    (hok : NodeOK inp s n { nd with pc := pc' }) (hpc : pc' ≠ .self2) (hws : nd.waitSelect = false) :
    Inv1 inp (genStep inp s n nd d pc') := by
  unfold genStep
  cases hd : s.nodes d with
  | none =>
    simp only []
    have hdn : d ≠ n := by intro e; subst e; rw [hn] at hd; cases hd
    have h1 := inv1_create (nd.anc ++ [d]) h hd
    have hn1 : (setNode s d (mkNode inp d (nd.anc ++ [d]))).nodes n = some nd := by
      simp [setNode_nodes, Ne.symm hdn, hn]
    have hstb : Stable s (setNode s d (mkNode inp d (nd.anc ++ [d]))) := by
      apply Stable.of_eq; intro x; rw [stOf_setNode]; split
      · rename_i e; subst e; simp [stOf, hd, mkNode]
      · rfl
    have h2 := inv1_setNode (x := { nd with pc := pc' }) h1 hn1 rfl (hok.stable hstb)
      (fun e => absurd e hpc) (fun e => by simp [hsusp] at e) (fun e => by simp [hws] at e)
    have hd1 : d ∉ s.ready := fun e => by obtain ⟨x, hx⟩ := h.q4 d (Or.inl e); rw [hd] at hx; cases hx
    have hd2 : d ∉ s.waiting := fun e => by obtain ⟨x, hx⟩ := h.q4 d (Or.inr e); rw [hd] at hx; cases hx
    refine inv1_pushReady (d := d) (nd := mkNode inp d (nd.anc ++ [d])) h2 hd1 hd2 ?_ ?_ ?_ rfl rfl rfl rfl rfl
    · simp only [setNode_cur, hc]; intro e; cases e; exact hdn rfl
    · simp [setNode_nodes, hdn]
    · intro e; simp [mkNode] at e
  | some x =>
    simp only []
    split
    · exact inv1_susp (some (.cyclic d)) h (fun m e => by cases e) rfl rfl rfl rfl rfl
    · exact inv1_setNode h hn rfl hok (fun e => absurd e hpc) (fun e => by simp [hsusp] at e)
        (fun e => by simp [hws] at e)

theorem addWaitRun_inv1 {inp : RunInput} {s : Sys} {n : Name} {nd : Node} (ds : List Name) (isCalc : Bool)
    (pc' : PC) (h : Inv1 inp s) (hn : s.nodes n = some nd) (hsusp : s.susp = none)
    (hok : NodeOK inp s n (waitNode inp s nd ds isCalc pc')) (hpc : pc' ≠ .self2) (hws : nd.waitSelect = false) :
    Inv1 inp (addWaitRun inp s n nd ds isCalc pc') := by
  have f := waitNode_facts inp s nd ds isCalc pc'
  unfold addWaitRun
  apply inv1_registerWaiting
  exact inv1_setNode (x := waitNode inp s nd ds isCalc pc') h hn f.status hok
    (fun e => by rw [f.pc] at e; exact absurd e hpc) (fun e => by simp [hsusp] at e)
    (fun e => by rw [f.waitSelect, hws] at e; cases e)

/-! ### `node.step()` -/

theorem nodeStep_inv1 {inp : RunInput} {s s' : Sys} {n : Name} {nd : Node} {perm : List Name} (h : Inv1 inp s)
    (hc : s.cur = some n) (hn : s.nodes n = some nd) (hsusp : s.susp = none)
    (hs : nodeStep inp s n nd perm = some s') : Inv1 inp s' := by
  have hok := h.node n nd hn
  have q3 := h.q3 n hc
  have hwsel : nd.waitSelect = false := by
    cases hw : nd.waitSelect with
    | false => rfl
    | true => exact absurd (h.wsel n nd hn hw) q3.2
  have nosp : s.susp = some (.node n) → False := fun e => by simp [hsusp] at e
  unfold nodeStep at hs
  cases hpc : nd.pc with
  | loopTop =>
    simp only [hpc] at hs
    split at hs
    · rename_i hp; cases hs
      exact inv1_setNode h hn rfl (nodeOK_loopTop hok hpc hp) (fun e => by cases e) (fun e => (nosp e).elim)
        (fun e => by simp [hwsel] at e)
    · cases hs
  | calcIter todo =>
    simp only [hpc] at hs
    cases todo with
    | cons d ds =>
      cases hs
      exact genStep_inv1 d _ h hc hn hsusp
        (nodeOK_setPc _ hok (by simp [hpc, PC.iterT]) (by simp [hpc, PC.iterC]) (by simp [PC.setupAbsorbed])
          (by simp [PC.inLoop]) (by simp [PC.quiet]) (by simp [hpc, PC.yielded1]) (by simp [hwsel]))
        (by simp) hwsel
    | nil =>
      cases hs
      exact addWaitRun_inv1 _ _ _ h hn hsusp (nodeOK_waitCalc hok hpc) (by simp) hwsel
  | taskIter todo =>
    simp only [hpc] at hs
    cases todo with
    | cons d ds =>
      cases hs
      exact genStep_inv1 d _ h hc hn hsusp
        (nodeOK_setPc _ hok (by simp [hpc, PC.iterT]) (by simp [hpc, PC.iterC]) (by simp [PC.setupAbsorbed])
          (by simp [PC.inLoop]) (by simp [PC.quiet]) (by simp [hpc, PC.yielded1]) (by simp [hwsel]))
        (by simp) hwsel
    | nil =>
      cases hs
      exact addWaitRun_inv1 _ _ _ h hn hsusp (nodeOK_waitTask hok hpc) (by simp) hwsel
  | afterDeps =>
    simp only [hpc] at hs
    have okTop : NodeOK inp s n { nd with pc := .loopTop } :=
      nodeOK_setPc _ hok (by simp [hpc, PC.iterT]) (by simp [hpc, PC.iterC]) (by simp [PC.setupAbsorbed])
        (by simp [PC.inLoop]) (by simp [PC.quiet]) (by simp [hpc, PC.yielded1]) (by simp [hwsel])
    split at hs
    · cases hs
      exact inv1_setNode h hn rfl okTop (fun e => by cases e) (fun e => (nosp e).elim) (fun e => by simp [hwsel] at e)
    · split at hs
      · cases hs
        have h1 := inv1_park (s' := { s with waiting := s.waiting ++ [n], cur := none }) h hc hn rfl rfl rfl rfl rfl
        exact inv1_setNode (s := { s with waiting := s.waiting ++ [n], cur := none }) h1 hn rfl (okTop.congr rfl)
          (fun e => by cases e) (fun e => (nosp e).elim) (fun e => by simp [hwsel] at e)
      · rename_i hp hw
        cases hs
        have hp' : nd.pendCalc = [] ∧ nd.pendTask = [] := by
          simp only [not_or, ne_eq, Decidable.not_not] at hp; exact hp
        have hw' : nd.waitRun = [] ∧ nd.waitRunCalc = [] := by
          simp only [not_or, ne_eq, Decidable.not_not] at hw; exact hw
        refine inv1_setNode h hn rfl ?_ (fun e => by cases e) (fun e => (nosp e).elim) (fun e => by simp [hwsel] at e)
        have base := nodeOK_setPc .loopTop hok (by simp [hpc, PC.iterT]) (by simp [hpc, PC.iterC])
          (by simp [PC.setupAbsorbed]) (by simp [PC.inLoop]) (by simp [PC.quiet]) (by simp [hpc, PC.yielded1])
          (by simp [hwsel])
        exact ⟨fun d hd => by
                 rcases hok.kt d hd with a | ⟨a, _⟩ | a | a
                 · exact Or.inl a
                 · simp [hpc, PC.iterT] at a
                 · exact Or.inr (Or.inr (Or.inl a))
                 · exact Or.inr (Or.inr (Or.inr a)),
               fun d hd => by
                 rcases hok.kc d hd with a | ⟨a, _⟩ | a | a
                 · exact Or.inl a
                 · simp [hpc, PC.iterC] at a
                 · exact Or.inr (Or.inr (Or.inl a))
                 · exact Or.inr (Or.inr (Or.inr a)),
               fun e => by simp [PC.setupAbsorbed] at e,
               fun _ => ⟨hp'.2, hp'.1, hw'.2⟩, fun _ => hw'.1,
               fun e => by have := base.l e; simp [PC.yielded1] at this,
               fun e => by simp [hwsel] at e, hok.st⟩
  | self1 =>
    simp only [hpc] at hs; cases hs
    have ok' : NodeOK inp s n { nd with pc := .afterSelf1 } :=
      nodeOK_setPc _ hok (by simp [hpc, PC.iterT]) (by simp [hpc, PC.iterC]) (by simp [PC.setupAbsorbed])
        (by simp [hpc, PC.inLoop]) (by simp [hpc, PC.quiet]) (by simp [PC.yielded1]) (by simp [hwsel])
    have h1 := inv1_setNode (x := { nd with pc := .afterSelf1 }) h hn rfl ok' (fun e => by cases e)
      (fun e => (nosp e).elim) (fun e => by simp [hwsel] at e)
    exact inv1_susp (s := setNode s n { nd with pc := .afterSelf1 }) (some (.node n)) h1
      (fun m e => by cases e; exact ⟨{ nd with pc := .afterSelf1 }, by simp [setNode_nodes], Or.inl rfl⟩)
      rfl rfl rfl rfl rfl
  | afterSelf1 =>
    simp only [hpc] at hs
    split at hs
    · cases hs
      exact inv1_setNode h hn rfl
        (nodeOK_setPc _ hok (by simp [hpc, PC.iterT]) (by simp [hpc, PC.iterC]) (by simp [PC.setupAbsorbed])
          (by simp [hpc, PC.inLoop]) (by simp [hpc, PC.quiet]) (by simp [PC.yielded1]) (by simp [hwsel]))
        (fun e => by cases e) (fun e => (nosp e).elim) (fun e => by simp [hwsel] at e)
    · have ok' : NodeOK inp s n { nd with pc := .setupDecide } :=
        nodeOK_setPc _ hok (by simp [hpc, PC.iterT]) (by simp [hpc, PC.iterC]) (by simp [PC.setupAbsorbed])
          (by simp [hpc, PC.inLoop]) (by simp [hpc, PC.quiet]) (by simp [PC.yielded1]) (by simp)
      split at hs
      · cases hs
        have h1 := inv1_park (s' := { s with waiting := s.waiting ++ [n], cur := none }) h hc hn rfl rfl rfl rfl rfl
        refine inv1_setNode (s := { s with waiting := s.waiting ++ [n], cur := none })
          (x := { nd with pc := .setupDecide, waitSelect := true }) h1 hn rfl ?_
          (fun e => by cases e) (fun e => (nosp e).elim) (fun _ => by simp)
        have := ok'.congr (s' := { s with waiting := s.waiting ++ [n], cur := none }) rfl
        exact ⟨this.kt, this.kc, this.ks, this.m1, this.m2, this.l, fun _ => rfl, this.st⟩
      · cases hs
        exact inv1_setNode h hn rfl ok' (fun e => by cases e) (fun e => (nosp e).elim) (fun e => by simp [hwsel] at e)
  | setupDecide =>
    simp only [hpc] at hs
    split at hs
    · cases hs
      exact inv1_setNode h hn rfl
        (nodeOK_setPc _ hok (by simp [hpc, PC.iterT]) (by simp [hpc, PC.iterC]) (by simp [PC.setupAbsorbed])
          (by simp [hpc, PC.inLoop]) (by simp [hpc, PC.quiet]) (by simp [PC.yielded1]) (by simp [hwsel]))
        (fun e => by cases e) (fun e => (nosp e).elim) (fun e => by simp [hwsel] at e)
    · cases hs
      exact inv1_setNode h hn rfl
        (nodeOK_setPc _ hok (by simp [hpc, PC.iterT]) (by simp [hpc, PC.iterC]) (by simp [PC.setupAbsorbed])
          (by simp [hpc, PC.inLoop]) (by simp [hpc, PC.quiet]) (by simp [PC.yielded1]) (by simp [hwsel]))
        (fun e => by cases e) (fun e => (nosp e).elim) (fun e => by simp [hwsel] at e)
  | setupIter todo =>
    simp only [hpc] at hs
    cases todo with
    | cons d ds =>
      cases hs
      exact genStep_inv1 d _ h hc hn hsusp
        (nodeOK_setPc _ hok (by simp [hpc, PC.iterT]) (by simp [hpc, PC.iterC]) (by simp [PC.setupAbsorbed])
          (by simp [hpc, PC.inLoop]) (by simp [hpc, PC.quiet]) (by simp [PC.yielded1]) (by simp [hwsel]))
        (by simp) hwsel
    | nil =>
      cases hs
      exact addWaitRun_inv1 _ _ _ h hn hsusp (nodeOK_waitSetup hok hpc) (by simp) hwsel
  | afterSetup =>
    simp only [hpc] at hs
    have ok' : NodeOK inp s n { nd with pc := .self2 } :=
      nodeOK_setPc _ hok (by simp [hpc, PC.iterT]) (by simp [hpc, PC.iterC]) (by simp [hpc, PC.setupAbsorbed])
        (by simp [hpc, PC.inLoop]) (by simp [PC.quiet]) (by simp [PC.yielded1]) (by simp [hwsel])
    split at hs
    · cases hs
      have h1 := inv1_park (s' := { s with waiting := s.waiting ++ [n], cur := none }) h hc hn rfl rfl rfl rfl rfl
      exact inv1_setNode (s := { s with waiting := s.waiting ++ [n], cur := none }) h1 hn rfl (ok'.congr rfl)
        (fun _ => Or.inr ⟨q3.1, by simp⟩) (fun e => (nosp e).elim) (fun e => by simp [hwsel] at e)
    · rename_i hw
      cases hs
      exact inv1_setNode h hn rfl ok' (fun _ => Or.inl (by simpa using hw)) (fun e => (nosp e).elim)
        (fun e => by simp [hwsel] at e)
  | self2 =>
    simp only [hpc] at hs; cases hs
    have hwr := h.r2 n nd hc hn hpc
    have base := nodeOK_setPc .afterSetup hok (by simp [hpc, PC.iterT]) (by simp [hpc, PC.iterC])
      (by simp [hpc, PC.setupAbsorbed]) (by simp [hpc, PC.inLoop]) (by simp [PC.quiet]) (by simp [PC.yielded1])
      (by simp [hwsel])
    have ok' : NodeOK inp s n { nd with pc := .afterSelf2 } :=
      ⟨fun d hd => by
         rcases hok.kt d hd with a | ⟨a, _⟩ | a | a
         · exact Or.inl a
         · simp [hpc, PC.iterT] at a
         · exact Or.inr (Or.inr (Or.inl a))
         · exact Or.inr (Or.inr (Or.inr a)),
       fun d hd => by
         rcases hok.kc d hd with a | ⟨a, _⟩ | a | a
         · exact Or.inl a
         · simp [hpc, PC.iterC] at a
         · exact Or.inr (Or.inr (Or.inl a))
         · exact Or.inr (Or.inr (Or.inr a)),
       fun _ => hok.ks (by simp [hpc, PC.setupAbsorbed]),
       fun _ => hok.m1 (by simp [hpc, PC.inLoop]), fun _ => hwr, fun _ => rfl,
       fun e => by simp [hwsel] at e, hok.st⟩
    have h1 := inv1_setNode (x := { nd with pc := .afterSelf2 }) h hn rfl ok' (fun e => by cases e)
      (fun e => (nosp e).elim) (fun e => by simp [hwsel] at e)
    exact inv1_susp (s := setNode s n { nd with pc := .afterSelf2 }) (some (.node n)) h1
      (fun m e => by cases e; exact ⟨{ nd with pc := .afterSelf2 }, by simp [setNode_nodes], Or.inr rfl⟩)
      rfl rfl rfl rfl rfl
  | afterSelf2 =>
    simp only [hpc] at hs; cases hs
    exact inv1_setNode h hn rfl
      (nodeOK_setPc _ hok (by simp [hpc, PC.iterT]) (by simp [hpc, PC.iterC]) (by simp [PC.setupAbsorbed])
        (by simp [hpc, PC.inLoop]) (by simp [hpc, PC.quiet]) (by simp [PC.yielded1]) (by simp [hwsel]))
      (fun e => by cases e) (fun e => (nosp e).elim) (fun e => by simp [hwsel] at e)
  | done =>
    simp only [hpc] at hs; cases hs
    exact inv1_curNone h rfl rfl rfl rfl rfl


/-! ### `_dispatcher_generator` -/

theorem dtick_inv1 {inp : RunInput} {s s' : Sys} {perm : List Name} (h : Inv1 inp s) (hsusp : s.susp = none)
    (hs : dtick inp s perm = some s') : Inv1 inp s' := by
  unfold dtick at hs
  cases hc : s.cur with
  | some n =>
    simp only [hc] at hs
    cases hn : s.nodes n with
    | none =>
      simp only [hn] at hs; cases hs
      exact inv1_susp (some .crash) h (fun m e => by cases e) (by first | rfl | simp [*]) (by first | rfl | simp [*]) (by first | rfl | simp [*]) (by first | rfl | simp [*]) (by first | rfl | simp [*])
    | some nd =>
      simp only [hn] at hs
      exact nodeStep_inv1 h hc hn hsusp hs
  | none =>
    simp only [hc] at hs
    cases hr : s.ready with
    | cons r rs =>
      simp only [hr] at hs; cases hs
      exact inv1_pop h hc hr (by first | rfl | simp [*]) (by first | rfl | simp [*]) (by first | rfl | simp [*]) (by first | rfl | simp [*]) (by first | rfl | simp [*])
    | nil =>
      simp only [hr] at hs
      cases ht : s.toRun with
      | cons t ts =>
        simp only [ht] at hs
        cases hnt : s.nodes t with
        | none =>
          simp only [hnt] at hs; cases hs
          have h1 := inv1_create [t] h hnt
          have hd1 : t ∉ s.ready := fun e => by obtain ⟨x, hx⟩ := h.q4 t (Or.inl e); rw [hnt] at hx; cases hx
          have hd2 : t ∉ s.waiting := fun e => by obtain ⟨x, hx⟩ := h.q4 t (Or.inr e); rw [hnt] at hx; cases hx
          refine inv1_setCur (t := t) h1 hd1 hd2 ?_ (by first | rfl | simp [*]) (by first | rfl | simp [*]) (by first | rfl | simp [*]) (by first | rfl | simp [*]) (by first | rfl | simp [*])
          intro nd hnd; simp [setNode_nodes] at hnd; subst hnd; simp [mkNode]
        | some x =>
          simp only [hnt] at hs; cases hs
          exact h.congr (by first | rfl | simp [*]) (by first | rfl | simp [*]) (by first | rfl | simp [*]) (by first | rfl | simp [*]) (by first | rfl | simp [*])
      | nil =>
        simp only [ht] at hs
        split at hs
        · split at hs
          · cases hs; exact inv1_susp (some (.cyclic _)) h (fun m e => by cases e) (by first | rfl | simp [*]) (by first | rfl | simp [*]) (by first | rfl | simp [*]) (by first | rfl | simp [*]) (by first | rfl | simp [*])
          · cases hs; exact inv1_susp (some .holdOn) h (fun m e => by cases e) (by first | rfl | simp [*]) (by first | rfl | simp [*]) (by first | rfl | simp [*]) (by first | rfl | simp [*]) (by first | rfl | simp [*])
        · cases hs; exact inv1_susp (some .stopIter) h (fun m e => by cases e) (by first | rfl | simp [*]) (by first | rfl | simp [*]) (by first | rfl | simp [*]) (by first | rfl | simp [*]) (by first | rfl | simp [*])

/-! ### `_update_waiting` on the state -/

theorem wokenReady_self2 {inp : RunInput} {s : Sys} {w : Name} {nd : Node} (pst : RS) (p : Name)
    (hok : NodeOK inp s w nd) (hr : wokenReady p nd = true) (hpc : nd.pc = .self2) :
    (wokenF inp s pst p nd).waitRun = [] := by
  have hm := hok.m1 (by rw [hpc]; rfl)
  have hnc : p ∉ nd.waitRunCalc := by rw [hm.2.2]; simp
  rw [wokenF_same hnc]
  simp only [wokenReady, hnc, if_false, Bool.and_eq_true, List.isEmpty_iff] at hr
  simp only [wokenNode, hnc, if_false, parentStatus]
  exact hr.1

theorem wakeOne_inv1 {inp : RunInput} {s : Sys} {pst : RS} {p w : Name} {nd : Node} (h : Inv1 inp s)
    (hw : s.nodes w = some nd) (hp : stOf s p = pst) (hf : pst.finished = true) (hcr : wakeCrash p nd = false) :
    Inv1 inp (wakeOne inp s pst p w nd) ∧ (∀ x, stOf (wakeOne inp s pst p w nd) x = stOf s x) := by
  have hok := h.node w nd hw
  have hu := wokenF_upd inp s pst p nd
  have hst : ∀ x, stOf (setNode s w (wokenF inp s pst p nd)) x = stOf s x := by
    intro x; rw [stOf_setNode]; split
    · rename_i e; subst e; simp [stOf, hw, hu.status]
    · rfl
  have hok' : NodeOK inp s w (wokenF inp s pst p nd) := hok.upd hu (Stable.refl s) hp hf
  -- `p` is in one of the wait sets, so the node is not at a quiet position: it is not waiting for select
  have hin : p ∈ nd.waitRun ∨ p ∈ nd.waitRunCalc := by
    simp only [wakeCrash, Bool.and_eq_false_iff, decide_eq_false_iff_not, Decidable.not_not] at hcr
    exact hcr
  have hnq : nd.pc ≠ .setupDecide := by
    intro e
    have a := hok.m2 (by rw [e]; rfl)
    have b := hok.m1 (by rw [e]; rfl)
    rcases hin with x | x
    · rw [a] at x; cases x
    · rw [b.2.2] at x; cases x
  have hws : nd.waitSelect = false := nodeOK_noWaitSelect hok hnq
  have h1 : Inv1 inp (setNode s w (wokenF inp s pst p nd)) := by
    refine inv1_setNode h hw hu.status hok' ?_ ?_ ?_
    · intro e
      rw [hu.pc] at e
      by_cases hwr : nd.waitRun = []
      · left
        cases hb : (wokenF inp s pst p nd).waitRun with
        | nil => rfl
        | cons a t => have := hu.wr' a (by simp [hb]); rw [hwr] at this; cases this
      · right
        exact ⟨fun hr => hwr (h.r1 w hr nd hw e), fun hc => hwr (h.r2 w nd hc hw e)⟩
    · intro e
      obtain ⟨md, h1, h2⟩ := h.sp w e
      rw [hw] at h1; cases h1; rw [hu.pc]; exact h2
    · intro e; rw [hu.waitSelect, hws] at e; cases e
  unfold wakeOne
  split
  · rename_i hc
    constructor
    · refine inv1_toReady (w := w) (nd := wokenF inp s pst p nd) h1 hc.2 (by simp [setNode_nodes]) ?_ ?_
        rfl rfl rfl rfl rfl
      · intro e; rw [hu.pc] at e; exact wokenReady_self2 pst p hok hc.1 e
      · rw [hu.waitSelect]; exact hws
    · intro x; exact hst x
  · exact ⟨h1, hst⟩

theorem updateWaiting_inv1 {inp : RunInput} {pst : RS} {p : Name} (hf : pst.finished = true) :
    ∀ (perm : List Name) (s s' : Sys), Inv1 inp s → stOf s p = pst → updateWaiting inp pst p s perm = some s' →
      Inv1 inp s' ∧ (∀ x, stOf s' x = stOf s x) := by
  intro perm
  induction perm with
  | nil => intro s s' h _ hs; simp only [updateWaiting] at hs; cases hs; exact ⟨h, fun _ => rfl⟩
  | cons w ws ih =>
    intro s s' h hp hs
    simp only [updateWaiting] at hs
    cases hw : s.nodes w with
    | none => simp only [hw] at hs; exact ih s s' h hp hs
    | some nd =>
      simp only [hw] at hs
      split at hs
      · cases hs
      · rename_i hcr
        obtain ⟨h1, e1⟩ := wakeOne_inv1 (w := w) h hw hp hf (by simpa using hcr)
        obtain ⟨h2, e2⟩ := ih _ s' h1 (by rw [e1]; exact hp) hs
        exact ⟨h2, fun x => (e2 x).trans (e1 x)⟩

theorem sendHead_inv1 {inp : RunInput} {s : Sys} {p : Name} {nd : Node} (h : Inv1 inp s)
    (hn : s.nodes p = some nd) (hk : ¬ (nd.waitSelect = true ∧ p ∉ s.waiting)) :
    Inv1 inp (sendHead s p nd) ∧ (∀ x, stOf (sendHead s p nd) x = stOf s x) ∧
    ∃ nd', (sendHead s p nd).nodes p = some nd' ∧ nd'.status = nd.status ∧ nd'.waitingMe = nd.waitingMe := by
  unfold sendHead
  split
  · rename_i hws
    have hpw : p ∈ s.waiting := by
      by_cases e : p ∈ s.waiting
      · exact e
      · exact absurd ⟨hws, e⟩ hk
    have hok := h.node p nd hn
    have hpc := hok.ws hws
    have h1 : Inv1 inp (setNode s p { nd with waitSelect := false }) := by
      refine inv1_setNode h hn rfl ⟨hok.kt, hok.kc, hok.ks, hok.m1, hok.m2, hok.l, (fun e => by cases e), hok.st⟩ ?_ ?_ ?_
      · intro e; rw [hpc] at e; cases e
      · intro e
        obtain ⟨md, a, b⟩ := h.sp p e
        rw [hn] at a; cases a; exact b
      · intro e; cases e
    refine ⟨?_, ?_, ⟨{ nd with waitSelect := false }, by simp [setNode_nodes], rfl, rfl⟩⟩
    · refine inv1_toReady (w := p) (nd := { nd with waitSelect := false }) h1 hpw (by simp [setNode_nodes]) ?_ rfl
        rfl rfl rfl rfl rfl
      intro e; rw [hpc] at e; cases e
    · intro x
      show stOf (setNode s p { nd with waitSelect := false }) x = stOf s x
      rw [stOf_setNode]; split
      · rename_i e; subst e; simp [stOf, hn]
      · rfl
  · exact ⟨h.congr rfl rfl rfl rfl rfl, fun _ => rfl, ⟨nd, hn, rfl, rfl⟩⟩

/-- `generator.send(processed)`; `processed` was selected (or executed) by the runner before -/
theorem send_inv1 {inp : RunInput} {s s' : Sys} {processed : Option Name} {perm : List Name} (h : Inv1 inp s)
    (hsel : ∀ p, processed = some p → stOf s p ≠ .none)
    (hs : send inp s processed perm = some s') : Inv1 inp s' ∧ (∀ x, stOf s' x = stOf s x) := by
  unfold send at hs
  cases processed with
  | none =>
    cases hs
    exact ⟨inv1_susp none h (fun m e => by cases e) rfl rfl rfl rfl rfl, fun _ => rfl⟩
  | some p =>
    simp only [] at hs
    cases hn : s.nodes p with
    | none =>
      simp only [hn] at hs; cases hs
      exact ⟨inv1_susp (some .crash) h (fun m e => by cases e) rfl rfl rfl rfl rfl, fun _ => rfl⟩
    | some nd =>
      simp only [hn] at hs
      split at hs
      · cases hs
        exact ⟨inv1_susp (some .crash) h (fun m e => by cases e) rfl rfl rfl rfl rfl, fun _ => rfl⟩
      · rename_i hk
        obtain ⟨h1, e1, nd', hn', est, _⟩ := sendHead_inv1 h hn hk
        split at hs
        · cases hs
          exact ⟨inv1_susp none h1 (fun m e => by cases e) rfl rfl rfl rfl rfl, e1⟩
        · rename_i hrun
          split at hs
          · have hst : stOf s p = nd.status := by simp [stOf, hn]
            have hfin : nd.status.finished = true := by
              have := hsel p rfl
              rw [hst] at this
              cases hx : nd.status <;> simp_all [RS.finished]
            cases hu : updateWaiting inp nd.status p (sendHead s p nd) perm with
            | none =>
              simp only [hu] at hs; cases hs
              exact ⟨inv1_susp (some .crash) h1 (fun m e => by cases e) rfl rfl rfl rfl rfl, e1⟩
            | some s2 =>
              simp only [hu] at hs; cases hs
              obtain ⟨h2, e2⟩ := updateWaiting_inv1 hfin perm _ s2 h1 (by rw [e1, hst]) hu
              exact ⟨inv1_susp none h2 (fun m e => by cases e) rfl rfl rfl rfl rfl, fun x => (e2 x).trans (e1 x)⟩
          · cases hs

/-! ### the runner's status changes -/

theorem selDecision_unfinished {inp : RunInput} {n : Name} {nd : Node} (h : selDecision inp n nd ≠ .assertFail) :
    nd.status.finished = false := by
  unfold selDecision at h
  by_cases h0 : nd.status = .none
  · rw [h0]; rfl
  · simp only [h0, if_false] at h
    by_cases h1 : nd.status = .run
    · rw [h1]; rfl
    · simp [h1] at h

theorem failNode_inv1 {inp : RunInput} {s : Sys} {n : Name} {nd : Node} (k : FailKind) (pre : List Ev)
    (h : Inv1 inp s) (hn : s.nodes n = some nd) (hu : nd.status.finished = false) (hy : nd.pc.yielded1 = true) :
    Inv1 inp (failNode inp s n nd k pre) :=
  (inv1_status .fail h hn hu hy).congr rfl rfl rfl rfl rfl

theorem applySel_inv1 {inp : RunInput} {s : Sys} {n : Name} {nd : Node} (d : Sel) (h : Inv1 inp s)
    (hn : s.nodes n = some nd) (hu : nd.status.finished = false) (hy : nd.pc.yielded1 = true) :
    Inv1 inp (applySel inp s n nd d) := by
  cases d with
  | skipIgn => exact (inv1_status .ign h hn hu hy).congr rfl rfl rfl rfl rfl
  | unmet => exact failNode_inv1 _ _ h hn hu hy
  | depErr => exact failNode_inv1 _ _ h hn hu hy
  | utd => exact (inv1_status .utd h hn hu hy).congr rfl rfl rfl rfl rfl
  | runFirst => exact (inv1_status .run h hn hu hy).congr rfl rfl rfl rfl rfl
  | argsErr => exact failNode_inv1 _ _ h hn hu hy
  | go => exact (inv1_status .run h hn hu hy).congr rfl rfl rfl rfl rfl
  | assertFail => exact h

theorem processResult_inv1 {inp : RunInput} {s : Sys} {n : Name} {nd : Node} (h : Inv1 inp s)
    (hn : s.nodes n = some nd) (hu : nd.status.finished = false) (hy : nd.pc.yielded1 = true) :
    Inv1 inp (processResult inp s n nd) := by
  unfold processResult
  split
  · exact (inv1_status .ok h hn hu hy).congr rfl rfl rfl rfl rfl
  · exact failNode_inv1 _ _ h hn hu hy
  · exact failNode_inv1 _ _ h hn hu hy
  · exact failNode_inv1 _ _ h hn hu hy

end DoitModel.Run
