import DoitModel.Model.Sel
/-! helper lemmas for the selection model (M8): glob, option consumption -/
namespace DoitModel.Sel

/-! ## glob -/
/-- declarative matching: `*` any string, `?` any one character, a literal itself -/
inductive GlobMatch : Tok → Tok → Prop
  | nil : GlobMatch [] []
  | star (p pre s full : Tok) : full = pre ++ s → GlobMatch p s → GlobMatch ('*' :: p) full
  | any (p s : Tok) (d : Char) : GlobMatch p s → GlobMatch ('?' :: p) (d :: s)
  | lit (c : Char) (p s : Tok) : c ≠ '*' → GlobMatch p s → GlobMatch (c :: p) (c :: s)

theorem anySuffix_iff (f : Tok → Bool) (s : Tok) : anySuffix f s = true ↔ ∃ pre suf, s = pre ++ suf ∧ f suf = true := by
  induction s with
  | nil =>
    simp only [anySuffix]
    constructor
    · intro h; exact ⟨[], [], rfl, h⟩
    · rintro ⟨pre, suf, h, hf⟩
      have : suf = [] := by
        cases pre <;> simp_all
      simpa [this] using hf
  | cons c s ih =>
    simp only [anySuffix, Bool.or_eq_true, ih]
    constructor
    · rintro (h | ⟨pre, suf, h, hf⟩)
      · exact ⟨[], c :: s, rfl, h⟩
      · exact ⟨c :: pre, suf, by simp [h], hf⟩
    · rintro ⟨pre, suf, h, hf⟩
      cases pre with
      | nil => left; simp at h; simpa [h] using hf
      | cons d pre => right; simp at h; exact ⟨pre, suf, h.2, hf⟩

/-- declarative matching for the whole of `fnmatch`: `*` any string, `?` any one character, `[…]` one character of the
    class (`splitClass` finds its end, `inClass` is the membership `fnmatch.translate` gives it), a `[` that is never
    closed and every other character stand for themselves -/
inductive Matches : Tok → Tok → Prop
  | nil : Matches [] []
  | star (p pre s full : Tok) : full = pre ++ s → Matches p s → Matches ('*' :: p) full
  | any (p s : Tok) (d : Char) : Matches p s → Matches ('?' :: p) (d :: s)
  | cls (p body rest s : Tok) (d : Char) : splitClass p = some (body, rest) → inClass body d = true →
      Matches rest s → Matches ('[' :: p) (d :: s)
  | openLit (p s : Tok) : splitClass p = none → Matches p s → Matches ('[' :: p) ('[' :: s)
  | lit (c : Char) (p s : Tok) : c ≠ '*' → c ≠ '?' → c ≠ '[' → Matches p s → Matches (c :: p) (c :: s)

theorem closeAt_length (pre q body rest : Tok) (h : closeAt pre q = some (body, rest)) : rest.length ≤ q.length := by
  unfold closeAt at h
  split at h
  · simp only [Option.some.injEq, Prod.mk.injEq] at h
    rw [← h.2]
    have := (List.dropWhile_sublist (· != ']') (l := q)).length_le
    simp only [List.length_tail]; omega
  · cases h

theorem afterBang_length (pre q body rest : Tok) (h : afterBang pre q = some (body, rest)) : rest.length ≤ q.length := by
  unfold afterBang at h
  split at h
  · have := closeAt_length _ _ _ _ h; simp; omega
  · exact closeAt_length _ _ _ _ h

theorem splitClass_length (p body rest : Tok) (h : splitClass p = some (body, rest)) : rest.length ≤ p.length := by
  unfold splitClass at h
  split at h
  · have := afterBang_length _ _ _ _ h; simp; omega
  · exact afterBang_length _ _ _ _ h

theorem globF_iff (n : Nat) (p s : Tok) (h : p.length < n) : globF n p s = true ↔ Matches p s := by
  induction n generalizing p s with
  | zero => omega
  | succ n ih =>
    cases p with
    | nil =>
      cases s with
      | nil => simp [globF]; exact Matches.nil
      | cons d s => simp [globF]; intro h; cases h
    | cons c p =>
      have hp : p.length < n := by simp at h; omega
      unfold globF
      by_cases hc : c = '*'
      · subst hc
        simp only [if_true, anySuffix_iff]
        constructor
        · rintro ⟨pre, suf, he, h⟩; exact Matches.star p pre suf _ he ((ih p suf hp).1 h)
        · intro h
          cases h with
          | star _ pre s' _ he hm => exact ⟨pre, s', he, (ih p s' hp).2 hm⟩
          | lit _ _ _ hne => exact absurd rfl hne
      · simp only [hc, if_false]
        by_cases hb : c = '['
        · subst hb
          simp only [if_true]
          cases s with
          | nil =>
            constructor
            · intro h; split at h <;> simp_all
            · intro h; cases h
          | cons d s =>
            cases hs : splitClass p with
            | none =>
              simp only [Bool.and_eq_true, beq_iff_eq]
              constructor
              · rintro ⟨rfl, hm⟩; exact Matches.openLit p s hs ((ih p s hp).1 hm)
              · intro h
                cases h with
                | cls _ body rest _ _ hs' => rw [hs] at hs'; cases hs'
                | openLit _ _ _ hm => exact ⟨rfl, (ih p s hp).2 hm⟩
                | lit _ _ _ _ _ hne => exact absurd rfl hne
            | some br =>
              obtain ⟨body, rest⟩ := br
              have hr : rest.length < n := Nat.lt_of_le_of_lt (splitClass_length p body rest hs) hp
              simp only [Bool.and_eq_true]
              constructor
              · rintro ⟨hi, hm⟩; exact Matches.cls p body rest s d hs hi ((ih rest s hr).1 hm)
              · intro h
                cases h with
                | cls _ body' rest' _ _ hs' hi hm =>
                  rw [hs] at hs'; cases hs'; exact ⟨hi, (ih rest s hr).2 hm⟩
                | openLit _ _ hs' => rw [hs] at hs'; cases hs'
                | lit _ _ _ _ _ hne => exact absurd rfl hne
        · simp only [hb, if_false]
          cases s with
          | nil =>
            simp
            intro h
            cases h with
            | star => exact hc rfl
          | cons d s =>
            simp only [Bool.and_eq_true, Bool.or_eq_true, beq_iff_eq]
            constructor
            · rintro ⟨h | h, hm⟩
              · subst h; exact Matches.any p s d ((ih p s hp).1 hm)
              · subst h
                by_cases hq : c = '?'
                · subst hq; exact Matches.any p s _ ((ih p s hp).1 hm)
                · exact Matches.lit c p s hc hq hb ((ih p s hp).1 hm)
            · intro h
              cases h with
              | star => exact absurd rfl hc
              | any _ _ _ hm => exact ⟨Or.inl rfl, (ih p s hp).2 hm⟩
              | cls => exact absurd rfl hb
              | openLit => exact absurd rfl hb
              | lit _ _ _ _ _ _ hm => exact ⟨Or.inr rfl, (ih p s hp).2 hm⟩

/-- the executable matcher decides `Matches`, for every pattern and every string -/
theorem glob_iff_matches (p s : Tok) : glob p s = true ↔ Matches p s := globF_iff _ p s (by omega)

/-- without `[` in the pattern the full relation is the `*` / `?` / literal one -/
theorem matches_iff_globMatch (p s : Tok) (h : '[' ∉ p) : Matches p s ↔ GlobMatch p s := by
  constructor
  · intro hm
    induction hm with
    | nil => exact GlobMatch.nil
    | star p pre s full he _ ih => exact GlobMatch.star p pre s full he (ih (by simp at h; exact h))
    | any p s d _ ih => exact GlobMatch.any p s d (ih (by simp at h; exact h))
    | cls => simp at h
    | openLit => simp at h
    | lit c p s hc _ _ _ ih => exact GlobMatch.lit c p s hc (ih (by simp at h; exact h.2))
  · intro hm
    induction hm with
    | nil => exact Matches.nil
    | star p pre s full he _ ih => exact Matches.star p pre s full he (ih (by simp at h; exact h))
    | any p s d _ ih => exact Matches.any p s d (ih (by simp at h; exact h))
    | lit c p s hc _ ih =>
      have hb : c ≠ '[' := by intro e; subst e; simp at h
      have hp : '[' ∉ p := by simp at h; exact h.2
      by_cases hq : c = '?'
      · subst hq; exact Matches.any p s _ (ih hp)
      · exact Matches.lit c p s hc hq hb (ih hp)

theorem glob_iff (p s : Tok) (h : '[' ∉ p) : glob p s = true ↔ GlobMatch p s :=
  (glob_iff_matches p s).trans (matches_iff_globMatch p s h)

/-! ## options consumed by a task's parser -/
/-- `Consumes ps args rest`: the parser of a task with params `ps` takes a (possibly empty) run of complete option
    groups off `args` — up to the first token that is not an option, or up to and including `--` — and leaves `rest` -/
inductive Consumes (ps : List Param) : List Tok → List Tok → Prop
  | done : Consumes ps [] []
  | stop (a : Tok) (rest : List Tok) : scan ps a = .notOpt → Consumes ps (a :: rest) (a :: rest)
  | dashdash (a : Tok) (rest : List Tok) : scan ps a = .dashdash → Consumes ps (a :: rest) rest
  | flag (a : Tok) (rest r : List Tok) : scan ps a = .complete → Consumes ps rest r → Consumes ps (a :: rest) r
  | withVal (a v : Tok) (rest r : List Tok) : scan ps a = .needsVal → Consumes ps rest r → Consumes ps (a :: v :: rest) r

theorem dropOpts_iff (ps : List Param) (l r : List Tok) : dropOpts ps l = some r ↔ Consumes ps l r := by
  fun_induction dropOpts ps l generalizing r with
  | case1 =>
    constructor
    · intro h; cases h; exact .done
    · intro h; cases h; rfl
  | case2 a rest hs =>
    constructor
    · intro h; cases h; exact .stop a rest hs
    · intro h; cases h <;> simp_all
  | case3 a rest hs =>
    constructor
    · intro h; cases h; exact .dashdash a rest hs
    · intro h; cases h <;> simp_all
  | case4 a rest hs ih =>
    rw [ih]
    constructor
    · intro h; exact .flag a rest r hs h
    · intro h; cases h <;> simp_all
  | case5 a hs =>
    constructor
    · intro h; cases h
    · intro h; cases h <;> simp_all
  | case6 a hs v rest' ih =>
    rw [ih]
    constructor
    · intro h; exact .withVal a v rest' r hs h
    · intro h; cases h <;> simp_all
  | case7 a rest hs =>
    constructor
    · intro h; cases h
    · intro h; cases h <;> simp_all

theorem dropOpts_length (ps : List Param) (l r : List Tok) (h : dropOpts ps l = some r) : r.length ≤ l.length := by
  fun_induction dropOpts ps l generalizing r with
  | case1 => cases h; simp
  | case2 a rest hs => cases h; simp
  | case3 a rest hs => cases h; simp
  | case4 a rest hs ih => have := ih r h; simp; omega
  | case5 a hs => cases h
  | case6 a hs v rest' ih => have := ih r h; simp; omega
  | case7 a rest hs => cases h

/-! ## the declarative selection relation -/

/-- what an argument that is not a pattern stands for -/
inductive Denotes (ts : List Task) : Tok → Tok → Prop
  | name (a : Tok) (t : Task) : find ts a = some t → Denotes ts a a
  | target (a p : Tok) : find ts a = none → producer ts a = some p → Denotes ts a p
  | delayedSub (a : Tok) (b : Task) : find ts a = none → producer ts a = none →
      find ts (baseName a) = some b → b.delayed = true → Denotes ts a a

theorem resolve_iff (ts : List Task) (a n : Tok) : resolve ts a = some n ↔ Denotes ts a n := by
  unfold resolve
  constructor
  · intro h
    cases hf : find ts a with
    | some t => simp only [hf, Option.some.injEq] at h; subst h; exact .name a t hf
    | none =>
      simp only [hf] at h
      cases hp : producer ts a with
      | some p => simp only [hp, Option.some.injEq] at h; subst h; exact .target a p hf hp
      | none =>
        simp only [hp] at h
        cases hb : find ts (baseName a) with
        | none => simp [hb] at h
        | some b =>
          simp only [hb] at h
          by_cases hd : b.delayed = true
          · simp only [hd, if_true, Option.some.injEq] at h; subst h; exact .delayedSub a b hf hp hb hd
          · simp [hd] at h
  · intro h
    cases h <;> simp_all

/-- `Resolves ts ini args sel`: the command-line `args` denote the selection `sel`, `ini` being the tasks whose options
    are initialised already (named or matched by a pattern further left; `[]` for a whole command line).  A task's
    options are parsed where it is named first (`task`, `taskPos`); naming it again selects it again and parses
    nothing (`again`). -/
inductive Resolves (ts : List Task) : List Tok → List Tok → List Tok → Prop
  | nil (ini : List Tok) : Resolves ts ini [] []
  | pattern (ini : List Tok) (a : Tok) (rest sel : List Tok) : hasStar a = true →
      Resolves ts (ini ++ wild ts a) rest sel → Resolves ts ini (a :: rest) (wild ts a ++ sel)
  | task (ini : List Tok) (a : Tok) (t : Task) (rest rest' sel : List Tok) : hasStar a = false →
      find ts a = some t → ini.contains a = false → t.posArg = false → Consumes t.params rest rest' →
      Resolves ts (a :: ini) rest' sel → Resolves ts ini (a :: rest) (a :: sel)
  | taskPos (ini : List Tok) (a : Tok) (t : Task) (rest rest' : List Tok) : hasStar a = false →
      find ts a = some t → ini.contains a = false → t.posArg = true → Consumes t.params rest rest' →
      Resolves ts ini (a :: rest) [a]
  | again (ini : List Tok) (a : Tok) (t : Task) (rest sel : List Tok) : hasStar a = false →
      find ts a = some t → ini.contains a = true → Resolves ts ini rest sel → Resolves ts ini (a :: rest) (a :: sel)
  | other (ini : List Tok) (a n : Tok) (rest sel : List Tok) : hasStar a = false → find ts a = none →
      Denotes ts a n → Resolves ts ini rest sel → Resolves ts ini (a :: rest) (n :: sel)

theorem bindOk_ok (r : Except Err (List Tok)) (f : List Tok → Except Err (List Tok)) (s : List Tok) :
    bindOk r f = .ok s ↔ ∃ l, r = .ok l ∧ f l = .ok s := by
  cases r <;> simp [bindOk]

theorem mapOk_ok (f : List Tok → List Tok) (r : Except Err (List Tok)) (l : List Tok) :
    mapOk f r = .ok l ↔ ∃ l', r = .ok l' ∧ l = f l' := by
  cases r <;> simp [mapOk, eq_comm]

theorem resolveAll_cons (ts : List Task) (a : Tok) (l s : List Tok) :
    resolveAll ts (a :: l) = .ok s ↔ ∃ n s', resolve ts a = some n ∧ resolveAll ts l = .ok s' ∧ s = n :: s' := by
  simp only [resolveAll]
  cases h : resolve ts a with
  | none => simp
  | some n => simp [mapOk_ok]

theorem find_of_mem_names (ts : List Task) (n : Tok) (h : n ∈ names ts) : ∃ t, find ts n = some t := by
  unfold names at h
  unfold find
  rcases List.mem_map.1 h with ⟨t, ht, rfl⟩
  cases hf : ts.find? (fun t' => t'.name == t.name) with
  | some t' => exact ⟨t', rfl⟩
  | none =>
    have := List.find?_eq_none.1 hf t ht
    simp at this

theorem resolve_name (ts : List Task) (n : Tok) (h : n ∈ names ts) : resolve ts n = some n := by
  rcases find_of_mem_names ts n h with ⟨t, ht⟩
  simp [resolve, ht]

theorem resolveAll_names_append (ts : List Task) (w l s : List Tok) (hw : ∀ x ∈ w, x ∈ names ts) :
    resolveAll ts (w ++ l) = .ok s ↔ ∃ s', resolveAll ts l = .ok s' ∧ s = w ++ s' := by
  induction w generalizing s with
  | nil => simp
  | cons x w ih =>
    have hx := resolve_name ts x (hw x (by simp))
    have ih' := fun s => ih s (fun y hy => hw y (by simp [hy]))
    simp only [List.cons_append, resolveAll_cons, hx, Option.some.injEq]
    constructor
    · rintro ⟨n, s', rfl, h, rfl⟩
      rcases (ih' s').1 h with ⟨s'', h2, rfl⟩
      exact ⟨s'', h2, rfl⟩
    · rintro ⟨s', h, rfl⟩
      exact ⟨x, w ++ s', rfl, (ih' _).2 ⟨s', h, rfl⟩, rfl⟩

theorem wild_sub_names (ts : List Task) (a : Tok) : ∀ x ∈ wild ts a, x ∈ names ts := by
  intro x hx
  exact (List.mem_filter.1 hx).1

/-- the filter loop of the current code followed by name resolution, at any sufficient fuel -/
theorem spec_run_iff (ts : List Task) (n : Nat) (ini args sel : List Tok) (hn : args.length < n) :
    bindOk (pf ts false n ini args) (resolveAll ts) = .ok sel ↔ Resolves ts ini args sel := by
  induction n generalizing ini args sel with
  | zero => omega
  | succ n ih =>
    cases args with
    | nil =>
      simp only [pf, bindOk, resolveAll]
      constructor
      · intro h; cases h; exact .nil ini
      · intro h; cases h; rfl
    | cons a rest =>
      simp only [List.length_cons] at hn
      simp only [pf]
      by_cases hs : hasStar a = true
      · simp only [hs, if_true, bindOk_ok, mapOk_ok]
        constructor
        · rintro ⟨l, ⟨l', hl', rfl⟩, hr⟩
          rcases (resolveAll_names_append ts _ _ _ (wild_sub_names ts a)).1 hr with ⟨s', hs', rfl⟩
          exact .pattern ini a rest s' hs ((ih _ rest s' (by omega)).1 ((bindOk_ok _ _ _).2 ⟨l', hl', hs'⟩))
        · intro h
          cases h with
          | pattern _ _ _ s' _ hr =>
            rcases (bindOk_ok _ _ _).1 ((ih (ini ++ wild ts a) rest s' (by omega)).2 hr) with ⟨l', hl', hs'⟩
            exact ⟨_, ⟨l', hl', rfl⟩, (resolveAll_names_append ts _ _ _ (wild_sub_names ts a)).2 ⟨s', hs', rfl⟩⟩
          | task _ _ _ _ _ _ h1 => simp [h1] at hs
          | taskPos _ _ _ _ _ h1 => simp [h1] at hs
          | again _ _ _ _ _ h1 => simp [h1] at hs
          | other _ _ _ _ _ h1 => simp [h1] at hs
      · have hs' : hasStar a = false := by simpa using hs
        simp only [hs', Bool.false_eq_true, if_false]
        cases hf : find ts a with
        | none =>
          simp only [bindOk_ok, mapOk_ok]
          constructor
          · rintro ⟨l, ⟨l', hl', rfl⟩, hr⟩
            rcases (resolveAll_cons ts a l' sel).1 hr with ⟨m, s', hm, hs2, rfl⟩
            exact .other ini a m rest s' hs' hf ((resolve_iff ts a m).1 hm)
              ((ih ini rest s' (by omega)).1 ((bindOk_ok _ _ _).2 ⟨l', hl', hs2⟩))
          · intro h
            cases h with
            | pattern _ _ _ _ h1 => simp [h1] at hs
            | task _ _ t _ _ _ _ h1 => simp [hf] at h1
            | taskPos _ _ t _ _ _ h1 => simp [hf] at h1
            | again _ _ t _ _ _ h1 => simp [hf] at h1
            | other _ _ m _ s' _ _ hd hr =>
              rcases (bindOk_ok _ _ _).1 ((ih ini rest s' (by omega)).2 hr) with ⟨l', hl', hs2⟩
              exact ⟨_, ⟨l', hl', rfl⟩, (resolveAll_cons ts a l' _).2 ⟨m, s', (resolve_iff ts a m).2 hd, hs2, rfl⟩⟩
        | some t =>
          have hres : resolve ts a = some a := by simp [resolve, hf]
          by_cases hi : ini.contains a = true
          · simp only [hi, if_true, bindOk_ok, mapOk_ok]
            constructor
            · rintro ⟨l, ⟨l', hl', rfl⟩, hr⟩
              rcases (resolveAll_cons ts a l' sel).1 hr with ⟨m, s', hm, hs2, rfl⟩
              rw [hres] at hm; cases hm
              exact .again ini a t rest s' hs' hf hi
                ((ih ini rest s' (by omega)).1 ((bindOk_ok _ _ _).2 ⟨l', hl', hs2⟩))
            · intro h
              cases h with
              | pattern _ _ _ _ h1 => simp [h1] at hs
              | task _ _ _ _ _ _ _ _ h2 => rw [hi] at h2; cases h2
              | taskPos _ _ _ _ _ _ _ h2 => rw [hi] at h2; cases h2
              | again _ _ _ _ s' _ _ _ hr =>
                rcases (bindOk_ok _ _ _).1 ((ih ini rest s' (by omega)).2 hr) with ⟨l', hl', hs2⟩
                exact ⟨_, ⟨l', hl', rfl⟩, (resolveAll_cons ts a l' _).2 ⟨a, s', hres, hs2, rfl⟩⟩
              | other _ _ _ _ _ _ h1 => rw [hf] at h1; cases h1
          · have hi' : ini.contains a = false := by simpa using hi
            simp only [hi', Bool.false_eq_true, if_false]
            cases hd : dropOpts t.params rest with
            | none =>
              simp only [bindOk]
              constructor
              · intro h; cases h
              · intro h
                cases h with
                | pattern _ _ _ _ h1 => simp [h1] at hs
                | task _ _ t' _ rest' _ _ h1 _ _ hc =>
                  rw [hf] at h1; cases h1
                  rw [(dropOpts_iff _ _ _).2 hc] at hd; cases hd
                | taskPos _ _ t' _ rest' _ h1 _ _ hc =>
                  rw [hf] at h1; cases h1
                  rw [(dropOpts_iff _ _ _).2 hc] at hd; cases hd
                | again _ _ _ _ _ _ _ h2 => rw [hi'] at h2; cases h2
                | other _ _ _ _ _ _ h1 => rw [hf] at h1; cases h1
            | some rest' =>
              have hlen := dropOpts_length _ _ _ hd
              by_cases hp : t.posArg = true
              · simp only [hp, if_true, bindOk, resolveAll, hres, mapOk]
                constructor
                · intro h; cases h
                  exact .taskPos ini a t rest rest' hs' hf hi' hp ((dropOpts_iff _ _ _).1 hd)
                · intro h
                  cases h with
                  | pattern _ _ _ _ h1 => simp [h1] at hs
                  | task _ _ t' _ _ _ _ h1 _ h2 => rw [hf] at h1; cases h1; simp [hp] at h2
                  | taskPos => rfl
                  | again _ _ _ _ _ _ _ h2 => rw [hi'] at h2; cases h2
                  | other _ _ _ _ _ _ h1 => rw [hf] at h1; cases h1
              · have hp' : t.posArg = false := by simpa using hp
                simp only [hp', Bool.false_eq_true, if_false, bindOk_ok, mapOk_ok]
                constructor
                · rintro ⟨l, ⟨l', hl', rfl⟩, hr⟩
                  rcases (resolveAll_cons ts a l' sel).1 hr with ⟨m, s', hm, hs2, rfl⟩
                  rw [hres] at hm; cases hm
                  exact .task ini a t rest rest' s' hs' hf hi' hp' ((dropOpts_iff _ _ _).1 hd)
                    ((ih _ rest' s' (by omega)).1 ((bindOk_ok _ _ _).2 ⟨l', hl', hs2⟩))
                · intro h
                  cases h with
                  | pattern _ _ _ _ h1 => simp [h1] at hs
                  | task _ _ t' _ r2 s' _ h1 _ _ hc hr =>
                    rw [hf] at h1; cases h1
                    rw [(dropOpts_iff _ _ _).2 hc] at hd; cases hd
                    rcases (bindOk_ok _ _ _).1 ((ih (a :: ini) rest' s' (by omega)).2 hr) with ⟨l', hl', hs2⟩
                    exact ⟨_, ⟨l', hl', rfl⟩, (resolveAll_cons ts a l' _).2 ⟨a, s', hres, hs2, rfl⟩⟩
                  | taskPos _ _ t' _ _ _ h1 _ h2 => rw [hf] at h1; cases h1; simp [hp'] at h2
                  | again _ _ _ _ _ _ _ h2 => rw [hi'] at h2; cases h2
                  | other _ _ _ _ _ _ h1 => rw [hf] at h1; cases h1

theorem dropOpts_mem (ps : List Param) (l r : List Tok) (h : dropOpts ps l = some r) : ∀ x ∈ r, x ∈ l := by
  fun_induction dropOpts ps l generalizing r with
  | case1 => cases h; simp
  | case2 a rest hs => cases h; simp
  | case3 a rest hs => cases h; intro x hx; simp [hx]
  | case4 a rest hs ih => intro x hx; have := ih r h x hx; simp [this]
  | case5 a hs => cases h
  | case6 a hs v rest' ih => intro x hx; have := ih r h x hx; simp [this]
  | case7 a rest hs => cases h

theorem mapOk_error (f : List Tok → List Tok) (r : Except Err (List Tok)) (e : Err) :
    mapOk f r = .error e ↔ r = .error e := by
  cases r <;> simp [mapOk]

theorem pf_mem (ts : List Task) (head : Bool) (n : Nat) (ini args l : List Tok)
    (h : pf ts head n ini args = .ok l) : ∀ x ∈ l, x ∈ args ∨ x ∈ names ts := by
  induction n generalizing ini args l with
  | zero => simp [pf] at h
  | succ n ih =>
    cases args with
    | nil => simp only [pf, Except.ok.injEq] at h; subst h; simp
    | cons a rest =>
      simp only [pf] at h
      split at h
      · rcases (mapOk_ok _ _ _).1 h with ⟨l', hl', rfl⟩
        intro x hx
        rcases List.mem_append.1 hx with hx | hx
        · exact Or.inr (wild_sub_names ts a x hx)
        · rcases ih _ _ _ hl' x hx with h1 | h1
          · exact Or.inl (by simp [h1])
          · exact Or.inr h1
      · split at h
        · rcases (mapOk_ok _ _ _).1 h with ⟨l', hl', rfl⟩
          intro x hx
          rcases List.mem_cons.1 hx with rfl | hx
          · exact Or.inl (by simp)
          · rcases ih _ _ _ hl' x hx with h1 | h1
            · exact Or.inl (by simp [h1])
            · exact Or.inr h1
        · split at h
          · split at h
            · cases h; intro x hx; simp at hx; subst hx; exact Or.inl (by simp)
            · rcases (mapOk_ok _ _ _).1 h with ⟨l', hl', rfl⟩
              intro x hx
              rcases List.mem_cons.1 hx with rfl | hx
              · exact Or.inl (by simp)
              · rcases ih _ _ _ hl' x hx with h1 | h1
                · exact Or.inl (by simp [h1])
                · exact Or.inr h1
          · split at h
            · cases h
            · next rest' hd =>
              split at h
              · cases h; intro x hx; simp at hx; subst hx; exact Or.inl (by simp)
              · rcases (mapOk_ok _ _ _).1 h with ⟨l', hl', rfl⟩
                intro x hx
                rcases List.mem_cons.1 hx with rfl | hx
                · exact Or.inl (by simp)
                · rcases ih _ _ _ hl' x hx with h1 | h1
                  · exact Or.inl (by simp [dropOpts_mem _ _ _ hd x h1])
                  · exact Or.inr h1

theorem pf_no_fuel (ts : List Task) (head : Bool) (n : Nat) (ini args : List Tok) (hn : args.length < n) :
    pf ts head n ini args ≠ .error .fuel := by
  induction n generalizing ini args with
  | zero => omega
  | succ n ih =>
    cases args with
    | nil => simp [pf]
    | cons a rest =>
      simp only [List.length_cons] at hn
      simp only [pf]
      split
      · intro h; exact ih _ rest (by omega) ((mapOk_error _ _ _).1 h)
      · split
        · intro h; exact ih _ rest (by omega) ((mapOk_error _ _ _).1 h)
        · split
          · split
            · simp
            · intro h; exact ih _ rest (by omega) ((mapOk_error _ _ _).1 h)
          · split
            · simp
            · next rest' hd =>
              have := dropOpts_length _ _ _ hd
              split
              · simp
              · intro h; exact ih _ rest' (by omega) ((mapOk_error _ _ _).1 h)

theorem resolveAll_error (ts : List Task) (l : List Tok) (e : Err) (h : resolveAll ts l = .error e) :
    ∃ a, e = .notFound a ∧ a ∈ l ∧ resolve ts a = none := by
  induction l with
  | nil => simp [resolveAll] at h
  | cons x l ih =>
    simp only [resolveAll] at h
    cases hr : resolve ts x with
    | none => simp only [hr, Except.error.injEq] at h; exact ⟨x, h.symm, by simp, hr⟩
    | some m =>
      simp only [hr] at h
      rcases ih ((mapOk_error _ _ _).1 h) with ⟨a, he, ha, hn⟩
      exact ⟨a, he, by simp [ha], hn⟩

theorem filterGen_no_fuel (ts : List Task) (head : Bool) (args : List Tok) :
    filterGen ts head [] args ≠ .error .fuel := by
  unfold filterGen
  intro h
  cases hp : pf ts head (args.length + 1) [] args with
  | error e =>
    simp only [hp, bindOk, Except.error.injEq] at h
    subst h
    exact pf_no_fuel ts head _ [] args (by omega) hp
  | ok l =>
    simp only [hp, bindOk] at h
    rcases resolveAll_error ts l _ h with ⟨a, he, _, _⟩
    cases he

theorem notFound_sound (ts : List Task) (head : Bool) (args : List Tok) (a : Tok)
    (h : filterGen ts head [] args = .error (.notFound a)) : a ∈ args ∧ ∀ n, ¬ Denotes ts a n := by
  unfold filterGen at h
  cases hp : pf ts head (args.length + 1) [] args with
  | error e =>
    simp only [hp, bindOk, Except.error.injEq] at h
    subst h
    exfalso
    -- the filter loop itself only fails with optErr / fuel
    have : ∀ n ini args, pf ts head n ini args ≠ .error (.notFound a) := by
      intro n
      induction n with
      | zero => intro ini args; simp [pf]
      | succ n ih =>
        intro ini args
        cases args with
        | nil => simp [pf]
        | cons b rest =>
          simp only [pf]
          split
          · intro h; exact ih _ _ ((mapOk_error _ _ _).1 h)
          · split
            · intro h; exact ih _ _ ((mapOk_error _ _ _).1 h)
            · split
              · split
                · simp
                · intro h; exact ih _ _ ((mapOk_error _ _ _).1 h)
              · split
                · simp
                · split
                  · simp
                  · intro h; exact ih _ _ ((mapOk_error _ _ _).1 h)
    exact this _ _ _ hp
  | ok l =>
    simp only [hp, bindOk] at h
    rcases resolveAll_error ts l _ h with ⟨b, he, hb, hn⟩
    cases he
    refine ⟨?_, fun n hd => ?_⟩
    · rcases pf_mem ts head _ _ _ _ hp a hb with h1 | h1
      · exact h1
      · rw [resolve_name ts a h1] at hn; cases hn
    · rw [(resolve_iff ts a n).2 hd] at hn; cases hn

end DoitModel.Sel
