import DoitModel.Model.Sel
/-! helper lemmas for the selection model (M8) -/
namespace DoitModel.Sel

end DoitModel.Sel
