import DoitModel.Proofs.OptGetopt
import DoitModel.Proofs.Opt
/-! M4: errors propagate — a getopt error, an ill-typed value, a bad environment value make `parse` fail -/
namespace DoitModel.Opt

def IsErr {α : Type} (r : Except Err α) : Prop := ∃ e, r = .error e

theorem parse_getopt_error (st : PState) (env : Str → Option Str) (argv : List Str) (e : Err)
    (h : getopt st argv = .error e) : IsErr (parse false st env argv).2 := by
  unfold parse
  split
  · exact ⟨_, rfl⟩
  · unfold parseOnly; rw [h]; exact ⟨_, rfl⟩

theorem applyPairs_bad (st : PState) (ps : Pairs) (kv : Key × Str) (hm : kv ∈ ps)
    (hbad : ∀ p, IsErr (applyPair false st p kv).2) (p : Params) : IsErr (applyPairs false ps st p).2 := by
  induction ps generalizing p with
  | nil => cases hm
  | cons a r ih =>
    unfold applyPairs
    have hst := applyPair_fixed_state st p a
    generalize hr : applyPair false st p a = res at hst
    obtain ⟨st1, x⟩ := res
    simp only at hst; subst hst
    cases x with
    | error e => exact ⟨e, rfl⟩
    | ok p1 =>
      rcases List.mem_cons.mp hm with e | m
      · subst e
        obtain ⟨e', he'⟩ := hbad p
        rw [hr] at he'; cases he'
      · exact ih m p1

/-- a pair whose scalar option cannot convert the text makes every `applyPair` fail -/
theorem applyPair_bad_scalar (st : PState) (k : Key) (v : Str) (o : Opt) (inv : Bool) (e : Err)
    (hg : getOption st k = some (o, inv)) (hty : o.ty = .int ∨ o.ty = .str) (hc : str2type o v = .error e)
    (p : Params) : IsErr (applyPair false st p (k, v)).2 := by
  unfold applyPair
  simp only [hg]
  unfold applyOpt
  rcases hty with h | h <;> simp only [h, scalarStep, hc] <;> exact ⟨e, rfl⟩

theorem parse_bad_value (st : PState) (env : Str → Option Str) (argv : List Str) (ps : Pairs) (pos : List Str)
    (k : Key) (v : Str) (o : Opt) (inv : Bool) (e : Err)
    (hgo : getopt st argv = .ok (ps, pos)) (hm : (k, v) ∈ ps)
    (hg : getOption st k = some (o, inv)) (hty : o.ty = .int ∨ o.ty = .str) (hc : str2type o v = .error e) :
    IsErr (parse false st env argv).2 := by
  unfold parse
  split
  · exact ⟨_, rfl⟩
  · next p0 _ =>
    unfold parseOnly
    simp only [hgo]
    obtain ⟨e', he'⟩ := applyPairs_bad st ps (k, v) hm (applyPair_bad_scalar st k v o inv e hg hty hc) p0
    generalize applyPairs false ps st p0 = r at he' ⊢
    obtain ⟨st', x⟩ := r
    simp only at he'; subst he'
    exact ⟨e', by simp [withPos]⟩

theorem applyEnv_bad (env : Str → Option Str) (st : List Opt) (o : Opt) (ho : o ∈ st) (s : Str) (e : Err)
    (hs : envOf env o = some s) (hc : str2type o s = .error e) (p : Params) : IsErr (applyEnv env st p) := by
  induction st generalizing p with
  | nil => cases ho
  | cons a r ih =>
    unfold applyEnv
    rcases List.mem_cons.mp ho with h | m
    · subst h
      unfold envOf at hs
      simp only [hs, hc]
      exact ⟨e, rfl⟩
    · split
      · exact ih m _
      · split
        · exact ⟨_, rfl⟩
        · exact ih m _

theorem parse_bad_env (st : PState) (env : Str → Option Str) (argv : List Str) (o : Opt) (ho : o ∈ st) (s : Str)
    (e : Err) (hs : envOf env o = some s) (hc : str2type o s = .error e) : IsErr (parse false st env argv).2 := by
  obtain ⟨e', he'⟩ := applyEnv_bad env st o ho s e hs hc (initParams st Params.empty)
  unfold parse
  rw [he']
  exact ⟨e', rfl⟩

/-- a value outside `choices` does not convert -/
theorem str2type_bad_choice (o : Opt) (s : Str) (v : Val) (hconv : convert o.ty s = .ok v)
    (hch : o.choices ≠ []) (hnot : v ∉ o.choices) : IsErr (str2type o s) := by
  unfold str2type
  rw [hconv]
  unfold checkChoice
  simp only [hch, if_false]
  cases v <;> simp_all [IsErr]

/-- text that `int()` does not accept does not convert -/
theorem str2type_bad_int (o : Opt) (s : Str) (hty : o.ty = .int) (hbad : parseInt s = none) :
    str2type o s = .error .badInt := by
  simp [str2type, convert, hty, hbad]

end DoitModel.Opt
