import DoitModel.Proofs.DelayedAfter2
/-! # the Boolean hypotheses imply the propositional ones -/
namespace DoitModel.Delayed
open DoitModel.Run (RS Name)

theorem lookup0_mem {α : Type} : ∀ (l : List (Name × α)) (k : Name) (v : α), lookup0 l k = some v → (k, v) ∈ l := by
  intro l
  induction l with
  | nil => intro k v h; simp [lookup0] at h
  | cons p r ih =>
    intro k v h
    obtain ⟨a, b⟩ := p
    simp only [lookup0] at h
    split at h
    · rename_i e; cases h; subst e; simp
    · exact List.mem_cons_of_mem _ (ih k v h)

theorem onceWF_of_bool {inp : Input} (h1 : resolvesB inp = true) (h2 : coversB inp = true) : OnceWF inp := by
  constructor
  · intro n l ⟨td0, hh1, hh2⟩ td l' ht hl
    have hm := lookup0_mem _ _ _ hh1
    have := (List.all_eq_true.mp h1) (n, td0) hm
    simp only [hh2, ht] at this
    rw [hl] at this
    simpa using this
  · intro n l q lq ⟨td0, hh1, hh2⟩ ⟨tq0, hq1, hq2⟩ hc hne
    have hm := lookup0_mem _ _ _ hh1
    have hmq := lookup0_mem _ _ _ hq1
    have := (List.all_eq_true.mp ((List.all_eq_true.mp h2) (n, td0) hm)) (q, tq0) hmq
    simp only [hh2, hq2, hc] at this
    simp only [bne_self_eq_false, Bool.false_or, Bool.or_eq_true, beq_iff_eq, List.any_eq_true] at this
    rcases this with h | ⟨nt, h3, h4⟩
    · exact absurd h hne
    · exact ⟨nt, by rw [hc]; exact h3, h4⟩

theorem trigWF_of_bool {inp : Input} (h : trigB inp = true) : TrigWF inp := by
  intro n td hl l hld d hd
  have hm := lookup0_mem _ _ _ hl
  have := (List.all_eq_true.mp h) (n, td) hm
  simp only [hld, List.all_eq_true, List.contains_iff_mem] at this
  exact this d hd

theorem onceOK_count (c : CId) : ∀ ev : List Ev, onceOK ev = true → ev.count (Ev.creator c) ≤ 1 := by
  intro ev
  induction ev with
  | nil => intro _; simp
  | cons e r ih =>
    intro h
    cases e with
    | creator c' =>
      simp only [onceOK, Bool.and_eq_true, Bool.not_eq_true', List.contains_eq_mem, decide_eq_false_iff_not] at h
      by_cases hc : c' = c
      · subst hc
        have : r.count (Ev.creator c') = 0 := List.count_eq_zero.mpr h.1
        simp [this]
      · have hne : (Ev.creator c' == Ev.creator c) = false := by simpa using hc
        rw [List.count_cons, hne]; simpa using ih h.2
    | start n => simpa [onceOK, List.count_cons] using ih (by simpa [onceOK] using h)
    | success n => simpa [onceOK, List.count_cons] using ih (by simpa [onceOK] using h)
    | failure n => simpa [onceOK, List.count_cons] using ih (by simpa [onceOK] using h)
    | unmet n => simpa [onceOK, List.count_cons] using ih (by simpa [onceOK] using h)
    | skipUtd n => simpa [onceOK, List.count_cons] using ih (by simpa [onceOK] using h)

theorem autoRun_reach {inp : Input} : ∀ (k : Nat) (s : Sys), Reach inp s → Reach inp (autoRun inp k s) := by
  intro k
  induction k with
  | zero => intro s h; exact h
  | succ k ih =>
    intro s h
    simp only [autoRun]
    cases hs : step inp s (defaultChoice s) with
    | none => exact h
    | some s' => exact ih s' (Reach.next h hs)

end DoitModel.Delayed
