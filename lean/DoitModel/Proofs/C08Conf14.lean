import DoitModel.Proofs.C08Conf13
/-! # C08 (I10): `nTasks + 1` rounds of `denCloseIter` reach the fixpoint when the closure lives below `nTasks` -/
namespace DoitModel.Run

/-- `b` is `a` or strictly longer -/
def Ext (a b : List Name) : Prop := b = a ∨ a.length < b.length

theorem Ext.refl (a : List Name) : Ext a a := Or.inl rfl
theorem Ext.trans {a b c : List Name} (h1 : Ext a b) (h2 : Ext b c) : Ext a c := by
  rcases h1 with rfl | h1 <;> rcases h2 with rfl | h2
  · exact Or.inl rfl
  · exact Or.inr h2
  · exact Or.inr h1
  · exact Or.inr (Nat.lt_trans h1 h2)

theorem addAll_ext : ∀ (ds acc : List Name), Ext acc (addAll ds acc) := by
  intro ds
  induction ds with
  | nil => intro acc; exact Ext.refl _
  | cons d t ih =>
    intro acc
    show Ext acc (addAll t (if d ∈ acc then acc else acc ++ [d]))
    refine Ext.trans ?_ (ih _)
    split
    · exact Ext.refl _
    · exact Or.inr (by simp)

theorem closeStep_ext (inp : RunInput) (fuel : Nat) (acc : List Name) (t : Name) :
    Ext acc (closeStep inp fuel acc t) := by
  unfold closeStep; split
  · exact (addAll_ext _ _).trans (addAll_ext _ _)
  · exact addAll_ext _ _

theorem foldl_ext (inp : RunInput) (fuel : Nat) : ∀ (L acc : List Name), Ext acc (L.foldl (closeStep inp fuel) acc) := by
  intro L
  induction L with
  | nil => intro acc; exact Ext.refl _
  | cons a t ih => intro acc; rw [List.foldl_cons]; exact (closeStep_ext inp fuel acc a).trans (ih _)

theorem closeOnce_ext (inp : RunInput) (fuel : Nat) (cl : List Name) : Ext cl (denCloseOnce inp fuel cl) := by
  rw [denCloseOnce_eq]; exact foldl_ext inp fuel cl cl

theorem iter_fixed (inp : RunInput) (fuel : Nat) (cl : List Name) (h : denCloseOnce inp fuel cl = cl) :
    ∀ k, denCloseIter inp fuel k cl = cl := by
  intro k
  induction k with
  | zero => rfl
  | succ k ih => show denCloseIter inp fuel k (denCloseOnce inp fuel cl) = cl; rw [h]; exact ih

/-- after `k` rounds the list is a fixpoint of a round, or has grown by at least `k` -/
theorem iter_spec (inp : RunInput) (fuel : Nat) : ∀ (k : Nat) (cl : List Name),
    denCloseOnce inp fuel (denCloseIter inp fuel k cl) = denCloseIter inp fuel k cl ∨
    cl.length + k ≤ (denCloseIter inp fuel k cl).length := by
  intro k
  induction k with
  | zero => intro cl; exact Or.inr (Nat.le_refl _)
  | succ k ih =>
    intro cl
    show denCloseOnce inp fuel (denCloseIter inp fuel k (denCloseOnce inp fuel cl)) =
        denCloseIter inp fuel k (denCloseOnce inp fuel cl) ∨
      cl.length + (k + 1) ≤ (denCloseIter inp fuel k (denCloseOnce inp fuel cl)).length
    rcases closeOnce_ext inp fuel cl with e | lt
    · left
      rw [e, iter_fixed inp fuel cl e k]; exact e
    · rcases ih (denCloseOnce inp fuel cl) with a | a
      · exact Or.inl a
      · right; omega

/-! ### no duplicates -/

theorem dedup_nodup : ∀ l : List Name, (dedup l).Nodup := by
  intro l
  induction l with
  | nil => simp [dedup]
  | cons a t ih =>
    simp only [dedup]
    split
    · exact ih
    · rename_i h; exact List.nodup_cons.mpr ⟨h, ih⟩

theorem addAll_nodup : ∀ (ds acc : List Name), acc.Nodup → (addAll ds acc).Nodup := by
  intro ds
  induction ds with
  | nil => intro acc h; exact h
  | cons d t ih =>
    intro acc h
    show (addAll t (if d ∈ acc then acc else acc ++ [d])).Nodup
    apply ih
    split
    · exact h
    · rename_i hd
      exact List.nodup_append.mpr ⟨h, by simp, by intro a ha b hb; simp at hb; subst hb; exact fun e => hd (e ▸ ha)⟩

theorem closeStep_nodup (inp : RunInput) (fuel : Nat) (acc : List Name) (t : Name) (h : acc.Nodup) :
    (closeStep inp fuel acc t).Nodup := by
  unfold closeStep; split
  · exact addAll_nodup _ _ (addAll_nodup _ _ h)
  · exact addAll_nodup _ _ h

theorem foldl_nodup (inp : RunInput) (fuel : Nat) : ∀ (L acc : List Name), acc.Nodup →
    (L.foldl (closeStep inp fuel) acc).Nodup := by
  intro L
  induction L with
  | nil => intro acc h; exact h
  | cons a t ih => intro acc h; rw [List.foldl_cons]; exact ih _ (closeStep_nodup inp fuel acc a h)

theorem iter_nodup (inp : RunInput) (fuel : Nat) : ∀ (k : Nat) (cl : List Name), cl.Nodup →
    (denCloseIter inp fuel k cl).Nodup := by
  intro k
  induction k with
  | zero => intro cl h; exact h
  | succ k ih =>
    intro cl h
    exact ih _ (by rw [denCloseOnce_eq]; exact foldl_nodup inp fuel cl cl h)

/-- `nTasks + 1` rounds suffice: the computed closure is stable, provided the closure lives below `nTasks` -/
theorem closureStable {inp : RunInput} {r : Name → Nat} (hac : Acyclic inp r) (nTasks : Nat)
    (hb : ∀ t, r t ≤ nTasks) (hlt : ∀ t, DenCl inp t → t < nTasks) : ClosureStable inp nTasks := by
  have hnd : (denClosure inp nTasks).Nodup := iter_nodup inp _ _ _ (dedup_nodup _)
  have hsub : denClosure inp nTasks ⊆ List.range nTasks := by
    intro x hx
    exact List.mem_range.mpr (hlt x (denClosure_sound hac nTasks hb x hx))
  have hlen : (denClosure inp nTasks).length ≤ nTasks := by
    have := hnd.length_le_of_subset hsub
    simpa using this
  rcases iter_spec inp (nTasks + 1) (nTasks + 1) (dedup inp.sel) with a | a
  · intro x hx
    have e : denCloseOnce inp (nTasks + 1) (denClosure inp nTasks) = denClosure inp nTasks := a
    rw [e] at hx; exact hx
  · exfalso
    have : (dedup inp.sel).length + (nTasks + 1) ≤ (denClosure inp nTasks).length := a
    omega

end DoitModel.Run
