import DoitModel.Proofs.StatusDecision
/-! # M2 — records recovered from *earlier* points of a history (composition with M9, property C06)

After a kill every readable per-task record is, independently per task, the record some earlier point of the same
history held (M9, `Props/C06.lean`), or it is absent.  Here: replacing, for any set of tasks, the pair
`(rcd t, shadow t)` of a reachable state by the pair an earlier prefix of the same history had keeps the invariant
`Inv` — the file system only moves *forward* (every file present later is the very file of the earlier state or has
an mtime newer than the earlier clock), so an old record can never be confused by a newer file. -/
namespace DoitModel.Status

/-- `b` is a later point than `a` as far as files are concerned -/
def Later (a b : St) : Prop :=
  a.clock ≤ b.clock ∧ ∀ p cur, b.fs p = some cur → a.fs p = some cur ∨ a.clock < cur.mtime

theorem Later.refl (a : St) : Later a a := ⟨Nat.le_refl _, fun _ _ h => Or.inl h⟩

theorem Later.trans {a b c : St} (h1 : Later a b) (h2 : Later b c) : Later a c := by
  refine ⟨Nat.le_trans h1.1 h2.1, ?_⟩
  intro p cur hc
  cases h2.2 p cur hc with
  | inl hb => exact h1.2 p cur hb
  | inr hlt => exact Or.inr (Nat.lt_of_le_of_lt h1.1 hlt)

/-- same files, same clock -/
theorem Later.of_eq {a b : St} (hfs : b.fs = a.fs) (hck : b.clock = a.clock) : Later a b :=
  ⟨by omega, fun p cur h => Or.inl (by rw [← hfs]; exact h)⟩

@[simp] theorem erase_fs (s : St) (t : Name) : (erase s t).fs = s.fs := rfl
@[simp] theorem erase_clock (s : St) (t : Name) : (erase s t).clock = s.clock := rfl
@[simp] theorem commit_fs (s : St) (t : Name) (r : Rcd) (e : Exec) : (commit s t r e).fs = s.fs := rfl
@[simp] theorem commit_clock (s : St) (t : Name) (r : Rcd) (e : Exec) : (commit s t r e).clock = s.clock := rfl

theorem peek_fs (s : St) (t : Name) : (peek s t).fs = s.fs ∧ (peek s t).clock = s.clock := by
  unfold peek; split <;> exact ⟨rfl, rfl⟩

theorem finish_fs (s : St) (t : Name) (ok : Bool) (res : Option Res) :
    (finish s t ok res).fs = s.fs ∧ (finish s t ok res).clock = s.clock := by
  unfold finish
  split
  · split <;> exact ⟨rfl, rfl⟩
  · exact ⟨rfl, rfl⟩

theorem writeFile_later (s : St) (p : Path) (sz c : Nat) (hclk : ∀ q m, s.fs q = some m → m.mtime ≤ s.clock) :
    Later s (writeFile s p sz c) := by
  refine ⟨by simp [writeFile], ?_⟩
  intro q cur hq
  simp only [writeFile] at hq
  by_cases hqp : q = p
  · simp only [hqp, if_true, Option.some.injEq] at hq
    subst hq
    exact Or.inr (by simp)
  · simp only [hqp, if_false] at hq
    exact Or.inl hq

theorem applyWrites_later {s : St} (ws : List (Path × Nat × Nat)) (h : Inv s) : Later s (applyWrites s ws) := by
  induction ws generalizing s with
  | nil => exact Later.refl s
  | cons w rest ih =>
    obtain ⟨p, sz, c⟩ := w
    exact Later.trans (writeFile_later s p sz c h.clk) (ih (writeFile_inv p sz c h))

theorem finish_later {a s : St} (t : Name) (ok : Bool) (res : Option Res) (h : Later a s) :
    Later a (finish s t ok res) := by
  have := finish_fs s t ok res
  exact Later.trans h (Later.of_eq this.1 this.2)

theorem runTask_later {s : St} (t : Name) (ok always : Bool) (ws : List (Path × Nat × Nat)) (res : Option Res)
    (h : Inv s) : Later s (runTask true s t ok always ws res) := by
  unfold runTask
  split
  · exact Later.refl s
  · cases hst : s.status true t with
    | crash => exact Later.of_eq rfl rfl
    | error => exact Later.of_eq rfl rfl
    | upToDate =>
      simp only
      split
      · exact finish_later t ok res (applyWrites_later ws h)
      · exact Later.refl s
    | run =>
      simp only
      have hp := peek_fs s t
      exact finish_later t ok res
        (Later.trans (Later.of_eq hp.1 hp.2) (applyWrites_later ws (peek_inv t h)))

theorem resetDep_later (s : St) (t : Name) : Later s (resetDep true s t) := by
  unfold resetDep
  split
  · exact Later.refl s
  · cases hst : s.status true t with
    | crash => exact Later.of_eq rfl rfl
    | error => exact Later.refl s
    | upToDate => exact Later.refl s
    | run =>
      simp only
      split
      · exact Later.of_eq rfl rfl
      · exact Later.refl s
      · exact Later.of_eq rfl rfl

/-- every operation inside the checker's premise moves the file system forward only -/
theorem step_later {s : St} (op : Op) (hop : op.faithful = true) (h : Inv s) : Later s (step true s op) := by
  unfold step
  split
  · exact Later.refl s
  · cases op with
    | edit p sz c => exact writeFile_later s p sz c h.clk
    | touch p =>
      refine ⟨by simp, ?_⟩
      intro q cur hq
      simp only at hq
      by_cases hqp : q = p
      · simp only [hqp, if_true] at hq
        cases hf : s.fs p with
        | none => simp [hf, touchMeta] at hq
        | some m0 =>
          simp only [hf, touchMeta, Option.some.injEq] at hq
          subst hq
          exact Or.inr (by simp)
      · simp only [hqp, if_false] at hq
        exact Or.inl hq
    | delete p =>
      refine ⟨Nat.le_refl _, ?_⟩
      intro q cur hq
      simp only at hq
      by_cases hqp : q = p
      · simp [hqp] at hq
      · simp only [hqp, if_false] at hq
        exact Or.inl hq
    | editKeep p sz c => simp [Op.faithful] at hop
    | redefine t d => exact Later.of_eq rfl rfl
    | run t ok always ws res => exact runTask_later t ok always ws res h
    | unmet t => exact Later.of_eq rfl rfl
    | forget t => exact Later.of_eq rfl rfl
    | ignore t => exact Later.of_eq rfl rfl
    | resetDep t =>
      simp only [resetDepKeep]
      split
      · exact Later.trans (resetDep_later s t) (Later.of_eq rfl rfl)
      · exact resetDep_later s t
    | peek t =>
      simp only
      split
      · exact Later.of_eq rfl rfl
      · have hp := peek_fs s t
        exact Later.of_eq hp.1 hp.2
    | info t =>
      simp only [info]
      split
      · exact Later.refl s
      · split
        · exact Later.of_eq rfl rfl
        · split
          · exact Later.of_eq rfl rfl
          · exact Later.refl s
    | switchChecker c => exact Later.of_eq rfl rfl

theorem foldl_later (ops : List Op) (hf : Faithful ops = true) (s : St) (h : Inv s) :
    Later s (ops.foldl (step true) s) := by
  induction ops generalizing s with
  | nil => exact Later.refl s
  | cons o os ih =>
    simp only [Faithful, List.all_cons, Bool.and_eq_true] at hf
    exact Later.trans (step_later o hf.1 h) (ih (by simpa [Faithful] using hf.2) _ (step_inv o hf.1 h))

theorem faithful_take' (h : List Op) (k : Nat) (hf : Faithful h = true) : Faithful (h.take k) = true := by
  unfold Faithful at hf ⊢
  rw [List.all_eq_true] at hf ⊢
  intro o ho
  exact hf o (List.mem_of_mem_take ho)

theorem faithful_drop (h : List Op) (k : Nat) (hf : Faithful h = true) : Faithful (h.drop k) = true := by
  unfold Faithful at hf ⊢
  rw [List.all_eq_true] at hf ⊢
  intro o ho
  exact hf o (List.mem_of_mem_drop ho)

/-- the end of a faithful history is a later point than each of its prefixes -/
theorem prefix_later (h : List Op) (hf : Faithful h = true) (k : Nat) :
    Later (runHist true (h.take k)) (runHist true h) := by
  have hsplit : runHist true h = (h.drop k).foldl (step true) (runHist true (h.take k)) := by
    unfold runHist
    rw [← List.foldl_append, List.take_append_drop]
  rw [hsplit]
  exact foldl_later _ (faithful_drop h k hf) _ (hist_inv _ (faithful_take' h k hf))

/-- the monotonicity lemma: a record that never lied at an earlier point does not lie later -/
theorem StOk_later {a b : St} (hl : Later a b) {r : Rcd} (h : StOk a.fs a.clock r) : StOk b.fs b.clock r := by
  intro p m sz c hp
  have := h p m sz c hp
  refine ⟨Nat.le_trans this.1 hl.1, ?_⟩
  intro cur hcur hm
  cases hl.2 p cur hcur with
  | inl ha => exact this.2 cur ha hm
  | inr hlt => omega

theorem SawOk_later {a b : St} (hl : Later a b) {e : Exec} (h : SawOk a.fs a.clock e) : SawOk b.fs b.clock e := by
  intro p sm hp
  have := h p sm hp
  refine ⟨Nat.le_trans this.1 hl.1, ?_⟩
  intro cur hcur hm
  cases hl.2 p cur hcur with
  | inl ha => exact this.2 cur ha hm
  | inr hlt => omega

/-- a per-task pair `(record, ghost)` that a kill may leave readable: absent, or the pair of some prefix -/
def Recovered (h : List Op) (t : Name) (pr : Rcd × Option Exec) : Prop :=
  pr = (Rcd.empty, none) ∨
  ∃ k, pr = ((runHist true (h.take k)).rcd t, (runHist true (h.take k)).shadow t)

/-- the state the next invocation starts from: files, clock, definitions and configured checker of the present,
    per-task records (and their ghosts) as recovered -/
def mixState (s : St) (pick : Name → Rcd × Option Exec) : St :=
  { s with rcd := fun t => (pick t).1, shadow := fun t => (pick t).2 }

theorem mix_inv (h : List Op) (hf : Faithful h = true) (pick : Name → Rcd × Option Exec)
    (hp : ∀ t, Recovered h t (pick t)) : Inv (mixState (runHist true h) pick) := by
  have hinv : Inv (runHist true h) := hist_inv h hf
  refine ⟨hinv.clk, ?_, ?_, ?_⟩
  · intro t
    simp only [mixState]
    cases hp t with
    | inl he => rw [he]; exact StOk_empty _ _
    | inr hk =>
      obtain ⟨k, hk⟩ := hk
      rw [hk]
      exact StOk_later (prefix_later h hf k) ((hist_inv _ (faithful_take' h k hf)).st t)
  · intro t e he
    simp only [mixState] at he ⊢
    cases hp t with
    | inl hemp => rw [hemp] at he; cases he
    | inr hk =>
      obtain ⟨k, hk⟩ := hk
      rw [hk] at he
      exact SawOk_later (prefix_later h hf k) ((hist_inv _ (faithful_take' h k hf)).saw t e he)
  · intro t
    simp only [mixState]
    cases hp t with
    | inl he => rw [he]; simp [Agree, AgreeNone, Rcd.empty]
    | inr hk =>
      obtain ⟨k, hk⟩ := hk
      rw [hk]
      exact (hist_inv _ (faithful_take' h k hf)).agree t

end DoitModel.Status
