import DoitModel.Proofs.C11Fuel
/-! # C11, laziness monitor: what is justified on a trace stays justified when the trace grows -/
namespace DoitModel.Run

theorem finishedIn_append {tr : List Ev} {d : Name} (h : finishedIn tr d = true) (obs : List Ev) :
    finishedIn (tr ++ obs) d = true := by
  unfold finishedIn at *; rw [List.any_append, h]; rfl

/-- what the calc tasks deliver according to `tr` they also deliver according to `tr'` -/
def ResLe (inp : RunInput) (tr tr' : List Ev) : Prop :=
  ∀ c x, (x ∈ (resAt inp tr c).calcs → x ∈ (resAt inp tr' c).calcs) ∧
    (x ∈ (resAt inp tr c).tasks → x ∈ (resAt inp tr' c).tasks) ∧
    (x ∈ (resAt inp tr c).files → x ∈ (resAt inp tr' c).files)

/-- a longer trace delivers the same, provided a task reported failed is not reported finished later -/
theorem resLe_append (inp : RunInput) (tr obs : List Ev)
    (h : ∀ c, failedRunIn tr c = true → finishedIn (tr ++ obs) c = false) : ResLe inp tr (tr ++ obs) := by
  intro c x
  unfold resAt
  by_cases hf : finishedIn tr c = true
  · simp only [hf, finishedIn_append hf obs, if_true]; exact ⟨id, id, id⟩
  · simp only [hf, Bool.false_eq_true, if_false]
    by_cases hr : failedRunIn tr c = true
    · have hr' : failedRunIn (tr ++ obs) c = true := by
        unfold failedRunIn at hr ⊢
        simp only [Bool.and_eq_true] at hr ⊢
        exact ⟨by rw [List.any_append, hr.1]; rfl, by rw [List.any_append, hr.2]; rfl⟩
      simp only [hr, h c hr, hr', if_true, Bool.false_eq_true, if_false]; exact ⟨id, id, id⟩
    · simp only [hr, Bool.false_eq_true, if_false]
      exact ⟨fun a => by simp at a, fun a => by simp at a, fun a => by simp at a⟩

/-- membership in `calcsAtF` is monotone in the start list and in the trace -/
theorem calcsAtF_mono {inp : RunInput} {tr tr' : List Ev} (hr : ResLe inp tr tr') : ∀ (k : Nat) (cs cs' : List Name),
    (∀ y ∈ cs, y ∈ cs') → ∀ x ∈ calcsAtF inp tr k cs, x ∈ calcsAtF inp tr' k cs' := by
  intro k
  induction k with
  | zero => intro cs cs' h x hx; exact h x hx
  | succ k ih =>
    intro cs cs' h x hx
    simp only [calcsAtF] at hx ⊢
    refine ih _ _ ?_ x hx
    intro y hy
    rcases (mem_addNew _ _).mp hy with a | a
    · exact (mem_addNew _ _).mpr (Or.inl (h y a))
    · simp only [List.mem_flatMap] at a
      obtain ⟨c, hc, hyc⟩ := a
      refine (mem_addNew _ _).mpr (Or.inr ?_)
      simp only [List.mem_flatMap]
      exact ⟨c, h c hc, (hr c y).1 hyc⟩

/-- when every member is already finished the computation does not change with a longer trace -/
theorem calcsAt_stable (inp : RunInput) (tr obs : List Ev) : ∀ (k : Nat) (cs : List Name),
    (∀ c ∈ calcsAt inp tr k cs, finishedIn tr c = true) → calcsAt inp (tr ++ obs) k cs = calcsAt inp tr k cs := by
  intro k
  induction k with
  | zero => intro cs _; rfl
  | succ k ih =>
    intro cs h
    simp only [calcsAt] at h ⊢
    have hcs : ∀ c ∈ cs, finishedIn tr c = true := fun c hc =>
      h c (calcsAt_ext inp tr k _ c ((mem_addNew _ _).mpr (Or.inl hc)))
    have e : cs.filter (finishedIn (tr ++ obs)) = cs.filter (finishedIn tr) :=
      List.filter_congr (fun c hc => by rw [hcs c hc, finishedIn_append (hcs c hc) obs])
    rw [e]
    exact ih _ h

theorem ranFirst_stable {inp : RunInput} {n : Nat} {tr : List Ev} {t : Name} (h : ranFirst inp n tr t = true)
    (obs : List Ev) : ranFirst inp n (tr ++ obs) t = true := by
  unfold ranFirst at *
  simp only [Bool.and_eq_true, List.all_eq_true] at h ⊢
  obtain ⟨hs, ha⟩ := h
  refine ⟨hs, ?_⟩
  have hc : ∀ c ∈ calcsAt inp tr n (inp.calcDep t), finishedIn tr c = true :=
    fun c hc => ha c (by simp [hc])
  have e := calcsAt_stable inp tr obs n (inp.calcDep t) hc
  have e2 : (calcsAt inp tr n (inp.calcDep t)).filter (finishedIn (tr ++ obs)) =
      (calcsAt inp tr n (inp.calcDep t)).filter (finishedIn tr) :=
    List.filter_congr (fun c hcc => by rw [hc c hcc, finishedIn_append (hc c hcc) obs])
  rw [e, e2]
  intro x hx
  exact finishedIn_append (ha x hx) obs

theorem runPending_append {inp : RunInput} {n : Nat} {tr : List Ev} {t : Name} (h : runPending inp n tr t = true)
    {o : List Ev} (ho : ∀ e ∈ o, Ev.isTerminalOf t e = false) : runPending inp n (tr ++ o) t = true := by
  unfold runPending at *
  simp only [Bool.and_eq_true, Bool.not_eq_true', List.contains_eq_mem, decide_eq_true_eq] at h ⊢
  refine ⟨⟨List.mem_append.mpr (Or.inl h.1.1), ?_⟩, ranFirst_stable h.2 o⟩
  rw [List.any_append, h.1.2, Bool.false_or]
  cases ha : o.any (Ev.isTerminalOf t) with
  | false => rfl
  | true =>
    obtain ⟨e, he, hp⟩ := List.any_eq_true.mp ha
    rw [ho e he] at hp; cases hp

/-- a setup edge that is accepted stays accepted: if the setup-task was already touched nothing changes; otherwise the
    parent must not get its terminal report before the setup-task is touched -/
theorem setupOK_stable {inp : RunInput} {n : Nat} {tr : List Ev} {t d : Name} (h : setupOK inp n tr t d = true)
    (obs : List Ev) (hT : (∃ e ∈ obs, Ev.isTerminalOf t e = true) → ∃ e ∈ tr, Ev.mentions d e = true) :
    setupOK inp n (tr ++ obs) t d = true := by
  unfold setupOK firstMentionIdx at *
  rw [List.findIdx?_append]
  cases hf : List.findIdx? (Ev.mentions d) tr with
  | some i =>
    rw [hf] at h
    simp only [Option.some_or] at h ⊢
    have hi : i < tr.length := (List.findIdx?_eq_some_iff_findIdx_eq.mp hf).1
    rw [List.take_append_of_le_length (Nat.le_of_lt hi)]
    exact h
  | none =>
    rw [hf] at h
    simp only [Option.none_or] at h ⊢
    have hno : ∀ e ∈ obs, Ev.isTerminalOf t e = false := by
      intro e he
      cases hp : Ev.isTerminalOf t e with
      | false => rfl
      | true =>
        obtain ⟨e', he', hm⟩ := hT ⟨e, he, hp⟩
        rw [List.findIdx?_eq_none_iff.mp hf e' he'] at hm; cases hm
    cases hg : List.findIdx? (Ev.mentions d) obs with
    | none => simp only [Option.map_none]; exact runPending_append h hno
    | some j =>
      simp only [Option.map_some]
      rw [Nat.add_comm, List.take_length_add_append]
      exact runPending_append h (fun e he => hno e (List.mem_of_mem_take he))

theorem succs_mono {inp : RunInput} {n : Nat} {tr : List Ev} {t x : Name} (obs : List Ev)
    (hr : ResLe inp tr (tr ++ obs))
    (hS : ∀ d ∈ inp.setup t, setupOK inp n tr t d = true → setupOK inp n (tr ++ obs) t d = true)
    (h : x ∈ succs inp n tr t) : x ∈ succs inp n (tr ++ obs) t := by
  have hc := calcsAtF_mono hr n (inp.calcDep t) (inp.calcDep t) (fun y hy => hy)
  simp only [succs, List.mem_append, List.mem_flatMap, List.mem_filter] at h ⊢
  rcases h with ((a | a) | ⟨c, hcc, a⟩) | ⟨a, b⟩
  · exact Or.inl (Or.inl (Or.inl a))
  · exact Or.inl (Or.inl (Or.inr (hc x a)))
  · refine Or.inl (Or.inr ⟨c, hc c hcc, ?_⟩)
    rcases a with a | a
    · exact Or.inl ((hr c x).2.1 a)
    · exact Or.inr ((hr c x).2.2 a)
  · exact Or.inr ⟨a, hS x a b⟩

theorem Just.mono {inp : RunInput} {n : Nat} {tr : List Ev} (obs : List Ev) (hr : ResLe inp tr (tr ++ obs))
    (hS : ∀ t d, d ∈ inp.setup t → setupOK inp n tr t d = true → setupOK inp n (tr ++ obs) t d = true)
    {d : Name} (h : Just inp n tr d) : Just inp n (tr ++ obs) d := by
  induction h with
  | sel ht => exact .sel ht
  | step _ hd ih => exact .step ih (succs_mono obs hr (fun x hx => hS _ x hx) hd)

end DoitModel.Run
