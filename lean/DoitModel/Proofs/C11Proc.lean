import DoitModel.Proofs.C11Log
/-! # C11: the process runner — every worker process tears down what it started itself -/
namespace DoitModel.Run

theorem logOf_append (e : Option Nat) (a b : List TdEv) : logOf e (a ++ b) = logOf e a ++ logOf e b := by
  simp [logOf]

theorem entity_teardownRun (tdFail : Name → Bool) (w : Option Nat) (l : List Name) :
    ∀ x ∈ teardownRun tdFail w l, x.entity = w := by
  intro x hx
  simp only [teardownRun, List.mem_flatMap] at hx
  obtain ⟨t, _, ht⟩ := hx
  split at ht <;> simp at ht <;> rcases ht with rfl | rfl <;> rfl

theorem entity_teardownAbort (tdFail : Name → Bool) (w : Option Nat) : ∀ (l : List Name),
    ∀ x ∈ teardownAbort tdFail w l, x.entity = w := by
  intro l
  induction l with
  | nil => intro x hx; cases hx
  | cons t ts ih =>
    intro x hx
    simp only [teardownAbort] at hx
    split at hx
    · simp at hx; subst hx; rfl
    · simp only [List.mem_cons] at hx
      rcases hx with rfl | hx
      · rfl
      · exact ih x hx

theorem entity_workerTeardown (v : Variant) (tdFail : Name → Bool) (w : Nat) (l : List Name) :
    ∀ x ∈ workerTeardown v tdFail w l, x.entity = some w := by
  unfold workerTeardown
  split
  · exact entity_teardownAbort tdFail _ _
  · exact entity_teardownRun tdFail _ l

theorem logOf_all {e : Option Nat} {l : List TdEv} (h : ∀ x ∈ l, x.entity = e) : logOf e l = l := by
  simp only [logOf]
  exact List.filter_eq_self.mpr (fun x hx => by simp [h x hx])

theorem logOf_other {e e' : Option Nat} {l : List TdEv} (h : ∀ x ∈ l, x.entity = e') (hne : e' ≠ e) : logOf e l = [] := by
  simp only [logOf]
  exact List.filter_eq_nil_iff.mpr (fun x hx => by simp [h x hx, hne])

structure TdP (inp : RunInput) (tdFail : Name → Bool) (v : Variant) (ts : TSys) : Prop where
  b : TdB inp ts.base
  own : ∀ w, ts.wtd w = startOrderOf inp w ts.base.events
  logW : ∀ w, logOf (some w) ts.log =
    if ts.base.workers w = .exited then (workerTeardown v tdFail w (ts.wtd w)).reverse else []
  logM : logOf none ts.log = []
  ns : ∀ w, ts.base.workers w = .notStarted → ts.wtd w = []
  crash : ts.crashed = true ↔
    (v.pinnedProcess = true ∧ ∃ w, ts.base.workers w = .exited ∧ (ts.wtd w).any tdFail = true)

theorem init_tdP (inp : RunInput) (tdFail : Name → Bool) (v : Variant) : TdP inp tdFail v (tinit inp) := by
  refine ⟨init_tdB inp, fun _ => rfl, fun w => ?_, rfl, fun _ _ => rfl, ?_⟩
  · simp [tinit, init, logOf]
  · simp [tinit, init]

theorem tstep_tdP {inp : RunInput} {tdFail : Name → Bool} {v : Variant} {ts ts' : TSys} {c : Choice}
    (hp : inp.runner = .process) (h : TdP inp tdFail v ts)
    (hs : tstep inp tdFail v ts c = some ts') : TdP inp tdFail v ts' := by
  have hpar : inp.runner ≠ .serial := by rw [hp]; simp
  unfold tstep at hs
  cases hb : stepOf inp ts.base c with
  | none => simp only [hb] at hs; cases hs
  | some b' =>
    simp only [hb] at hs; cases hs
    have hB := stepOf_tdB h.b hb
    unfold stepOf at hb; rw [if_neg hpar] at hb
    cases c with
    | main perm =>
      have mv := mainStep_move h.b hb
      obtain ⟨new, e, hns⟩ := mv.plain.ev
      have hlog : (tdAfter inp tdFail v ts (.main perm) b').log = ts.log := by
        simp only [tdAfter]; split
        · simp [h.b.proc hp, teardownRun]
        · rfl
      have hw : (tdAfter inp tdFail v ts (.main perm) b').wtd = ts.wtd := by
        simp only [tdAfter]; split <;> rfl
      have hc : (tdAfter inp tdFail v ts (.main perm) b').crashed = ts.crashed := by
        simp only [tdAfter]; split <;> rfl
      have eb := tdAfter_base inp tdFail v ts (.main perm) b'
      refine ⟨by rw [eb]; exact hB, ?_, ?_, ?_, ?_, ?_⟩
      · intro w; rw [hw, eb, e, startOrderOf_noStart inp w hns]; exact h.own w
      · intro w; rw [hlog, hw, eb, h.logW w]
        by_cases x : ts.base.workers w = .exited
        · rw [if_pos x, if_pos ((mv.ex w).mpr x)]
        · rw [if_neg x, if_neg (fun y => x ((mv.ex w).mp y))]
      · rw [hlog]; exact h.logM
      · intro w x; rw [hw]; rw [eb] at x; exact h.ns w (mv.nsb w x)
      · rw [hc, hw, eb, h.crash]
        constructor
        · rintro ⟨a, w, b, c⟩; exact ⟨a, w, (mv.ex w).mpr b, c⟩
        · rintro ⟨a, w, b, c⟩; exact ⟨a, w, (mv.ex w).mp b, c⟩
    | done w =>
      have eb := tdAfter_base inp tdFail v ts (.done w) b'
      simp only [pstep, doneStep] at hb
      cases hw : ts.base.workers w with
      | running n =>
        simp only [hw] at hb; cases hb
        have exq : ∀ k, (setWorker ts.base w .idle).workers k = .exited ↔ ts.base.workers k = .exited := by
          intro k; simp only [setWorker]
          by_cases e : k = w
          · subst e; rw [if_pos rfl, hw]; simp
          · rw [if_neg e]
        refine ⟨by rw [eb]; exact hB, ?_, ?_, h.logM, ?_, ?_⟩
        · intro k
          show ts.wtd k = startOrderOf inp k (Ev.fin n w :: ts.base.events)
          rw [show Ev.fin n w :: ts.base.events = [Ev.fin n w] ++ ts.base.events from rfl,
            startOrderOf_noStart inp k (fun e he a b => by simp at he; subst he; intro x; cases x)]
          exact h.own k
        · intro k
          show logOf (some k) ts.log = if (setWorker ts.base w .idle).workers k = .exited then _ else _
          rw [h.logW k]
          by_cases x : ts.base.workers k = .exited
          · rw [if_pos x, if_pos ((exq k).mpr x)]; rfl
          · rw [if_neg x, if_neg (fun y => x ((exq k).mp y))]
        · intro k x
          have x' : (setWorker ts.base w .idle).workers k = .notStarted := x
          simp only [setWorker] at x'
          by_cases e : k = w
          · subst e; rw [if_pos rfl] at x'; cases x'
          · rw [if_neg e] at x'; exact h.ns k x'
        · show ts.crashed = true ↔ _
          rw [h.crash]
          constructor
          · rintro ⟨a, k, b, c⟩; exact ⟨a, k, (exq k).mpr b, c⟩
          · rintro ⟨a, k, b, c⟩; exact ⟨a, k, (exq k).mp b, c⟩
      | notStarted => simp [hw] at hb
      | idle => simp [hw] at hb
      | exited => simp [hw] at hb
    | take w =>
      have eb := tdAfter_base inp tdFail v ts (.take w) b'
      simp only [pstep, takeStep] at hb
      split at hb
      · rename_i hidle
        cases hq : ts.base.jobQ with
        | nil => simp only [hq] at hb; cases hb
        | cons j js =>
          simp only [hq] at hb
          have htj : takenJob ts.base w = some j := by simp [takenJob, hidle, hq]
          cases j with
          | hold =>
            cases hb
            simp only [tdAfter, htj]
            exact ⟨hB, h.own, h.logW, h.logM, h.ns, h.crash⟩
          | stop =>
            cases hb
            simp only [tdAfter, htj, hp, if_true]
            have exq : ∀ k, k ≠ w → ((setWorker ts.base w .exited).workers k = .exited ↔ ts.base.workers k = .exited) := by
              intro k hk; simp only [setWorker]; rw [if_neg hk]
            have exw : (setWorker ts.base w .exited).workers w = .exited := by simp [setWorker]
            refine ⟨hB, h.own, ?_, ?_, ?_, ?_⟩
            · intro k
              show logOf (some k) ((workerTeardown v tdFail w (ts.wtd w)).reverse ++ ts.log) =
                if (setWorker ts.base w .exited).workers k = .exited then _ else _
              rw [logOf_append, h.logW k]
              by_cases e : k = w
              · subst e
                rw [if_pos exw, if_neg (by rw [hidle]; simp),
                  logOf_all (fun x hx => entity_workerTeardown v tdFail k _ x (List.mem_reverse.mp hx))]
                simp
              · rw [logOf_other (e' := some w)
                  (fun x hx => entity_workerTeardown v tdFail w _ x (List.mem_reverse.mp hx)) (by simp; exact fun x => e x.symm)]
                by_cases x : ts.base.workers k = .exited
                · rw [if_pos x, if_pos ((exq k e).mpr x)]; rfl
                · rw [if_neg x, if_neg (fun y => x ((exq k e).mp y))]; rfl
            · show logOf none ((workerTeardown v tdFail w (ts.wtd w)).reverse ++ ts.log) = []
              rw [logOf_append, h.logM, logOf_other (e' := some w)
                (fun x hx => entity_workerTeardown v tdFail w _ x (List.mem_reverse.mp hx)) (by simp)]
              rfl
            · intro k x
              have x' : (setWorker ts.base w .exited).workers k = .notStarted := x
              simp only [setWorker] at x'
              by_cases e : k = w
              · subst e; rw [if_pos rfl] at x'; cases x'
              · rw [if_neg e] at x'; exact h.ns k x'
            · show (ts.crashed || (v.pinnedProcess && (ts.wtd w).any tdFail)) = true ↔ _
              rw [Bool.or_eq_true, h.crash]
              constructor
              · rintro (⟨a, k, b, c⟩ | a)
                · refine ⟨a, k, ?_, c⟩
                  by_cases e : k = w
                  · subst e; exact exw
                  · exact (exq k e).mpr b
                · simp only [Bool.and_eq_true] at a
                  exact ⟨a.1, w, exw, a.2⟩
              · rintro ⟨a, k, b, c⟩
                by_cases e : k = w
                · subst e; exact Or.inr (by simp [a, c])
                · exact Or.inl ⟨a, k, (exq k e).mp b, c⟩
          | task n =>
            cases hb
            simp only [tdAfter, htj]
            have exq : ∀ k, ((setWorker (startTask inp ts.base n w) w (.running n)).workers k = .exited ↔
                ts.base.workers k = .exited) := by
              intro k; simp only [setWorker, startTask]
              by_cases e : k = w
              · subst e; rw [if_pos rfl, hidle]; simp
              · rw [if_neg e]
            refine ⟨hB, ?_, ?_, h.logM, ?_, ?_⟩
            · intro k
              show (if k = w ∧ inp.runner = .process ∧ inp.hasTeardown n = true then ts.wtd k ++ [n] else ts.wtd k) =
                startOrderOf inp k (startTask inp ts.base n w).events
              have e : (startTask inp ts.base n w).events = [Ev.start n w] ++ ts.base.events := by
                simp [startTask, hp]
              rw [e, startOrderOf_append, ← h.own k]
              by_cases c1 : k = w ∧ inp.hasTeardown n = true
              · simp [tdNameOf, c1.1, c1.2, hp]
              · have : ¬ (k = w ∧ inp.runner = .process ∧ inp.hasTeardown n = true) := fun x => c1 ⟨x.1, x.2.2⟩
                rw [if_neg this]
                have : ¬ (w = k ∧ inp.hasTeardown n = true) := fun x => c1 ⟨x.1.symm, x.2⟩
                simp [tdNameOf, this]
            · intro k
              show logOf (some k) ts.log = if (setWorker (startTask inp ts.base n w) w (.running n)).workers k = .exited
                then (workerTeardown v tdFail k
                  (if k = w ∧ inp.runner = .process ∧ inp.hasTeardown n = true then ts.wtd k ++ [n] else ts.wtd k)).reverse
                else []
              rw [h.logW k]
              by_cases x : ts.base.workers k = .exited
              · have hk : k ≠ w := fun e => by subst e; rw [hidle] at x; cases x
                rw [if_pos x, if_pos ((exq k).mpr x), if_neg (fun y => hk y.1)]
              · rw [if_neg x, if_neg (fun y => x ((exq k).mp y))]
            · intro k x
              have x' : (setWorker (startTask inp ts.base n w) w (.running n)).workers k = .notStarted := x
              simp only [setWorker, startTask] at x'
              by_cases e : k = w
              · subst e; rw [if_pos rfl] at x'; cases x'
              · rw [if_neg e] at x'
                show (if k = w ∧ inp.runner = .process ∧ inp.hasTeardown n = true then ts.wtd k ++ [n] else ts.wtd k) = []
                rw [if_neg (fun y => e y.1)]; exact h.ns k x'
            · show ts.crashed = true ↔ _
              rw [h.crash]
              constructor
              · rintro ⟨a, k, b, c⟩
                have hk : k ≠ w := fun e => by subst e; rw [hidle] at b; cases b
                exact ⟨a, k, (exq k).mpr b, by simp only [if_neg (fun y : _ ∧ _ => hk y.1)]; exact c⟩
              · rintro ⟨a, k, b, c⟩
                have b' := (exq k).mp b
                have hk : k ≠ w := fun e => by subst e; rw [hidle] at b'; cases b'
                simp only [if_neg (fun y : _ ∧ _ => hk y.1)] at c
                exact ⟨a, k, b', c⟩
      · cases hb

theorem treach_tdP {inp : RunInput} {tdFail : Name → Bool} {v : Variant} {ts : TSys}
    (hp : inp.runner = .process) (h : TReach inp tdFail v ts) : TdP inp tdFail v ts := by
  induction h with
  | init => exact init_tdP inp tdFail v
  | next _ hs ih => exact tstep_tdP hp ih hs

end DoitModel.Run
