import DoitModel.Proofs.C09Pinned
/-! # C09 — accounting of `TaskDispatcher.dispatched`: a node is in `dispatched` exactly while it is out at the runner
    (being selected, in the job queue, executing, in the result queue, or about to be fed back) -/
namespace DoitModel.Run

variable {inp : RunInput}

/-! ### how the dispatcher moves `dispatched` and `susp` -/

theorem genStep_dispatched (inp : RunInput) (s : Sys) (n : Name) (nd : Node) (d : Name) (pc' : PC) :
    (genStep inp s n nd d pc').dispatched = s.dispatched := by
  unfold genStep
  cases s.nodes d with
  | none => simp [setNode]
  | some x => simp only []; split <;> simp [setNode]

theorem addWaitRun_dispatched (inp : RunInput) (s : Sys) (n : Name) (nd : Node) (ds : List Name) (c : Bool) (pc' : PC) :
    (addWaitRun inp s n nd ds c pc').dispatched = s.dispatched := by
  simp [addWaitRun, registerWaiting, setNode]

/-- one step of `node.step()`: either `dispatched` is untouched and no node is yielded, or the current node is yielded
    and added to `dispatched` -/
theorem nodeStep_disp {s s' : Sys} {n : Name} {nd : Node} {perm : List Name} (hsu : s.susp = none)
    (hs : nodeStep inp s n nd perm = some s') :
    (s'.dispatched = s.dispatched ∧ ∀ m, s'.susp ≠ some (.node m)) ∨
    (s'.dispatched = addDispatched s n ∧ s'.susp = some (.node n)) := by
  have gs : ∀ (x : Name) (pc' : PC), (genStep inp s n nd x pc').dispatched = s.dispatched ∧
      ∀ m, (genStep inp s n nd x pc').susp ≠ some (.node m) := by
    intro x pc'
    refine ⟨genStep_dispatched _ _ _ _ _ _, ?_⟩
    intro m e; have := genStep_susp inp s n nd x pc' m e; rw [hsu] at this; cases this
  have aw : ∀ (ds : List Name) (c : Bool) (pc' : PC), (addWaitRun inp s n nd ds c pc').dispatched = s.dispatched ∧
      ∀ m, (addWaitRun inp s n nd ds c pc').susp ≠ some (.node m) := by
    intro ds c pc'
    refine ⟨addWaitRun_dispatched _ _ _ _ _ _ _, ?_⟩
    intro m e; rw [addWaitRun_susp, hsu] at e; cases e
  unfold nodeStep at hs
  cases hpc : nd.pc with
  | loopTop => simp only [hpc] at hs; split at hs <;> cases hs; left; simp [setNode, hsu]
  | calcIter todo =>
    simp only [hpc] at hs
    cases todo with
    | cons x xs => cases hs; exact Or.inl (gs _ _)
    | nil => cases hs; exact Or.inl (aw _ _ _)
  | taskIter todo =>
    simp only [hpc] at hs
    cases todo with
    | cons x xs => cases hs; exact Or.inl (gs _ _)
    | nil => cases hs; exact Or.inl (aw _ _ _)
  | afterDeps =>
    simp only [hpc] at hs
    split at hs
    · cases hs; left; simp [setNode, hsu]
    · split at hs <;> (cases hs; left; simp [setNode, hsu])
  | self1 => simp only [hpc] at hs; cases hs; right; simp [setNode]
  | afterSelf1 =>
    simp only [hpc] at hs
    split at hs
    · cases hs; left; simp [setNode, hsu]
    · split at hs <;> (cases hs; left; simp [setNode, hsu])
  | setupDecide => simp only [hpc] at hs; split at hs <;> (cases hs; left; simp [setNode, hsu])
  | setupIter todo =>
    simp only [hpc] at hs
    cases todo with
    | cons x xs => cases hs; exact Or.inl (gs _ _)
    | nil => cases hs; exact Or.inl (aw _ _ _)
  | afterSetup => simp only [hpc] at hs; split at hs <;> (cases hs; left; simp [setNode, hsu])
  | self2 => simp only [hpc] at hs; cases hs; right; simp [setNode]
  | afterSelf2 => simp only [hpc] at hs; cases hs; left; simp [setNode, hsu]
  | done => simp only [hpc] at hs; cases hs; left; simp [hsu]

theorem dtick_disp {s s' : Sys} {perm : List Name} (hsu : s.susp = none) (hs : dtick inp s perm = some s') :
    (s'.dispatched = s.dispatched ∧ ∀ m, s'.susp ≠ some (.node m)) ∨
    (∃ n, s'.dispatched = addDispatched s n ∧ s'.susp = some (.node n)) := by
  unfold dtick at hs
  cases hc : s.cur with
  | some n =>
    simp only [hc] at hs
    cases hn : s.nodes n with
    | none => simp only [hn] at hs; cases hs; left; simp
    | some nd =>
      simp only [hn] at hs
      rcases nodeStep_disp hsu hs with a | a
      · exact Or.inl a
      · exact Or.inr ⟨n, a⟩
  | none =>
    simp only [hc] at hs
    split at hs
    · cases hs; left; simp [hsu]
    · split at hs
      · split at hs <;> (cases hs; left; simp [setNode, hsu])
      · split at hs
        · split at hs <;> (cases hs; left; simp)
        · cases hs; left; simp

theorem mem_addDispatched (s : Sys) (n m : Name) : m ∈ addDispatched s n ↔ m ∈ s.dispatched ∨ m = n := by
  unfold addDispatched
  split
  · rename_i h
    constructor
    · intro a; exact Or.inl a
    · intro a; rcases a with a | a
      · exact a
      · subst a; exact h
  · simp

theorem wakeOne_dispatched (inp : RunInput) (s : Sys) (pst : RS) (p w : Name) (nd : Node) :
    (wakeOne inp s pst p w nd).dispatched = s.dispatched := by
  unfold wakeOne; split <;> simp [setNode]

theorem updateWaiting_dispatched (inp : RunInput) (pst : RS) (p : Name) :
    ∀ (perm : List Name) (s s' : Sys), updateWaiting inp pst p s perm = some s' → s'.dispatched = s.dispatched := by
  intro perm
  induction perm with
  | nil => intro s s' hs; simp only [updateWaiting] at hs; cases hs; rfl
  | cons w ws ih =>
    intro s s' hs
    simp only [updateWaiting] at hs
    cases hw : s.nodes w with
    | none => simp only [hw] at hs; exact ih s s' hs
    | some nd =>
      simp only [hw] at hs
      split at hs
      · cases hs
      · rw [ih _ s' hs, wakeOne_dispatched]

theorem sendHead_dispatched (s : Sys) (p : Name) (nd : Node) :
    (sendHead s p nd).dispatched = s.dispatched.filter (· ≠ p) := by
  unfold sendHead; split <;> simp [setNode]

/-- `generator.send(processed)`: afterwards the generator runs or has crashed; if it runs, exactly `processed` has
    been discarded from `dispatched` -/
theorem send_disp {s s' : Sys} {processed : Option Name} {perm : List Name}
    (hs : send inp s processed perm = some s') :
    (s'.susp = none ∨ s'.susp = some .crash) ∧
    (s'.susp = none → processed = none → s'.dispatched = s.dispatched) ∧
    (s'.susp = none → ∀ p, processed = some p → s'.dispatched = s.dispatched.filter (· ≠ p)) := by
  unfold send at hs
  cases processed with
  | none => cases hs; exact ⟨Or.inl rfl, fun _ _ => rfl, fun _ p e => by simp at e⟩
  | some p =>
    simp only [] at hs
    cases hn : s.nodes p with
    | none => simp only [hn] at hs; cases hs; (refine ⟨Or.inr rfl, ?_, ?_⟩ <;> (intro e; simp at e))
    | some nd =>
      simp only [hn] at hs
      split at hs
      · cases hs; (refine ⟨Or.inr rfl, ?_, ?_⟩ <;> (intro e; simp at e))
      · split at hs
        · cases hs
          exact ⟨Or.inl rfl, fun _ e => by simp at e, fun _ q e => by cases e; exact sendHead_dispatched s p nd⟩
        · split at hs
          · cases hu : updateWaiting inp nd.status p (sendHead s p nd) perm with
            | none => simp only [hu] at hs; cases hs; (refine ⟨Or.inr rfl, ?_, ?_⟩ <;> (intro e; simp at e))
            | some s2 =>
              simp only [hu] at hs; cases hs
              refine ⟨Or.inl rfl, fun _ e => by simp at e, fun _ q e => ?_⟩
              cases e
              show s2.dispatched = _
              rw [updateWaiting_dispatched inp _ p perm _ s2 hu, sendHead_dispatched]
          · cases hs

/-- the dispatcher answers `"hold on"` only while a node it handed out has not come back -/
theorem dtick_holdOn {s s' : Sys} {perm : List Name} (hsu : s.susp = none)
    (hs : dtick inp s perm = some s') (hh : s'.susp = some .holdOn) :
    s.dispatched ≠ [] ∧ s'.dispatched = s.dispatched := by
  rcases dtick_disp hsu hs with ⟨d1, _⟩ | ⟨m, _, d2⟩
  · refine ⟨?_, d1⟩
    unfold dtick at hs
    cases hcur : s.cur with
    | some n =>
      simp only [hcur] at hs
      cases hn : s.nodes n with
      | none => simp only [hn] at hs; cases hs; simp at hh
      | some nd =>
        simp only [hn] at hs
        exfalso
        have aw : ∀ (ds : List Name) (c : Bool) (pc' : PC),
            (addWaitRun inp s n nd ds c pc').susp ≠ some .holdOn := by
          intro ds c pc'; rw [addWaitRun_susp]; simp [hsu]
        have gs : ∀ (x : Name) (pc' : PC), (genStep inp s n nd x pc').susp ≠ some .holdOn := by
          intro x pc'; unfold genStep
          cases s.nodes x with
          | none => simp [setNode, hsu]
          | some y => simp only []; split <;> simp [setNode, hsu]
        unfold nodeStep at hs
        cases hpc : nd.pc with
        | loopTop => simp only [hpc] at hs; split at hs <;> cases hs; simp [setNode, hsu] at hh
        | calcIter todo =>
          simp only [hpc] at hs
          cases todo with
          | cons x xs => cases hs; exact gs _ _ hh
          | nil => cases hs; exact aw _ _ _ hh
        | taskIter todo =>
          simp only [hpc] at hs
          cases todo with
          | cons x xs => cases hs; exact gs _ _ hh
          | nil => cases hs; exact aw _ _ _ hh
        | afterDeps =>
          simp only [hpc] at hs
          split at hs
          · cases hs; simp [setNode, hsu] at hh
          · split at hs <;> (cases hs; simp [setNode, hsu] at hh)
        | self1 => simp only [hpc] at hs; cases hs; simp at hh
        | afterSelf1 =>
          simp only [hpc] at hs
          split at hs
          · cases hs; simp [setNode, hsu] at hh
          · split at hs <;> (cases hs; simp [setNode, hsu] at hh)
        | setupDecide => simp only [hpc] at hs; split at hs <;> (cases hs; simp [setNode, hsu] at hh)
        | setupIter todo =>
          simp only [hpc] at hs
          cases todo with
          | cons x xs => cases hs; exact gs _ _ hh
          | nil => cases hs; exact aw _ _ _ hh
        | afterSetup => simp only [hpc] at hs; split at hs <;> (cases hs; simp [setNode, hsu] at hh)
        | self2 => simp only [hpc] at hs; cases hs; simp at hh
        | afterSelf2 => simp only [hpc] at hs; cases hs; simp [setNode, hsu] at hh
        | done => simp only [hpc] at hs; cases hs; simp [hsu] at hh
    | none =>
      simp only [hcur] at hs
      cases hrd : s.ready with
      | cons r rs => simp only [hrd] at hs; cases hs; simp [hsu] at hh
      | nil =>
        simp only [hrd] at hs
        cases htr : s.toRun with
        | cons t ts =>
          simp only [htr] at hs
          split at hs <;> (cases hs; simp [setNode, hsu] at hh)
        | nil =>
          simp only [htr] at hs
          split at hs
          · split at hs
            · cases hs; simp at hh
            · rename_i hdp; exact hdp
          · cases hs; simp at hh
  · rw [d2] at hh; cases hh

/-! ### the invariant -/

/-- where a dispatched node is -/
def AtRunner (s : Sys) (n : Name) : Prop :=
  (awaiting s ∧ s.susp = some (.node n)) ∨ sentBack s = some n ∨ InFlight s n ∨ s.rpc = .sExec n

structure InvC (s : Sys) : Prop where
  ds : ∀ n, s.susp = some (.node n) → n ∈ s.dispatched
  dc : s.stop = false → s.halt = .none → s.susp ≠ some .crash → ∀ n ∈ s.dispatched, AtRunner s n
  cr : s.susp = some .crash → awaiting s ∨ s.halt ≠ .none
  ho : s.susp = some .holdOn → s.dispatched ≠ []

theorem init_invC (inp : RunInput) : InvC (init inp) := by
  refine ⟨?_, ?_, ?_, ?_⟩
  · intro n h; simp [init] at h
  · intro _ _ _ n h; simp [init] at h
  · intro h; simp [init] at h
  · intro h; simp [init] at h

/-- a step of the runner from a position where it does not await a yield: dispatcher untouched -/
theorem InvC.move {s s' : Sys} (h : InvC s) (hna : ¬ awaiting s) (e1 : s'.dispatched = s.dispatched)
    (e2 : s'.susp = s.susp) (e3 : s'.stop = false → s.stop = false) (e4 : s'.halt = .none → s.halt = .none)
    (hk : s'.stop = false → s'.halt = .none → ∀ n, AtRunner s n → AtRunner s' n) : InvC s' := by
  refine ⟨?_, ?_, ?_, ?_⟩
  · intro n a; rw [e1]; exact h.ds n (e2 ▸ a)
  · intro a b c n hn
    exact hk a b n (h.dc (e3 a) (e4 b) (e2 ▸ c) n (e1 ▸ hn))
  · intro a
    rcases h.cr (e2 ▸ a) with x | x
    · exact absurd x hna
    · right; intro y; exact x (e4 y)
  · intro a; rw [e1]; exact h.ho (e2 ▸ a)

/-- a worker step: the main thread does not move -/
theorem InvC.worker {s s' : Sys} (h : InvC s) (e0 : s'.rpc = s.rpc) (e1 : s'.dispatched = s.dispatched)
    (e2 : s'.susp = s.susp) (e3 : s'.stop = s.stop) (e4 : s'.halt = s.halt)
    (hk : ∀ n, InFlight s n → InFlight s' n) : InvC s' := by
  have haw : awaiting s' ↔ awaiting s := by unfold awaiting; rw [e0]
  refine ⟨?_, ?_, ?_, ?_⟩
  · intro n a; rw [e1]; exact h.ds n (e2 ▸ a)
  · intro a b c n hn
    rcases h.dc (e3 ▸ a) (e4 ▸ b) (e2 ▸ c) n (e1 ▸ hn) with ⟨x, y⟩ | x | x | x
    · exact Or.inl ⟨haw.mpr x, e2 ▸ y⟩
    · exact Or.inr (Or.inl (by unfold sentBack at *; rw [e0]; exact x))
    · exact Or.inr (Or.inr (Or.inl (hk n x)))
    · exact Or.inr (Or.inr (Or.inr (by rw [e0]; exact x)))
  · intro a
    rcases h.cr (e2 ▸ a) with x | x
    · exact Or.inl (haw.mpr x)
    · exact Or.inr (by rw [e4]; exact x)
  · intro a; rw [e1]; exact h.ho (e2 ▸ a)

/-- an exception left `run_tasks`: nothing is claimed any more -/
theorem InvC.raised {s : Sys} (h : InvC s) (hl : Halt) (hne : hl ≠ .none) : InvC (raise s hl) := by
  refine ⟨fun n a => h.ds n a, ?_, fun _ => Or.inr hne, fun a => h.ho a⟩
  intro _ b; exact absurd b hne

theorem holding_of_rpc {s : Sys} (h : ∀ m r, s.rpc ≠ .gRet (.task m) r) (n : Name) : holding s n = 0 := by
  unfold holding
  split
  · rename_i m r hr; exact absurd hr (h m r)
  · rfl

/-- `InFlight` survives a step that keeps the queues and the workers when nothing was being held before -/
theorem inFlight_keep {s s' : Sys} (e1 : s'.jobQ = s.jobQ) (e2 : s'.workers = s.workers) (e3 : s'.resQ = s.resQ)
    (h0 : ∀ m r, s.rpc ≠ .gRet (.task m) r) (n : Name) (h : InFlight s n) : InFlight s' n :=
  inFlight_rpc e1 e2 e3 (fun m => holding_of_rpc h0 m) n h

/-! ### the dispatcher side -/

theorem invC_dtick {s s' : Sys} {perm : List Name} (h : InvC s) (hsu : s.susp = none)
    (haw : awaiting s) (hs : dtick inp s perm = some s') : InvC s' := by
  have o := dtick_outer hs
  obtain ⟨_, o2, o3, o4, o5, o6, _, _, o9, _⟩ := o
  have haw' : awaiting s' := by unfold awaiting at *; rw [o2]; exact haw
  have hsb : sentBack s = none := by
    unfold sentBack; rcases haw with a | ⟨r, a⟩ <;> rw [a]
  have keep : ∀ n, AtRunner s n → AtRunner s' n := by
    intro n a
    rcases a with ⟨_, b⟩ | b | b | b
    · rw [hsu] at b; cases b
    · rw [hsb] at b; cases b
    · exact Or.inr (Or.inr (Or.inl (inFlight_outer (dtick_outer hs) n b)))
    · exact Or.inr (Or.inr (Or.inr (by rw [o2]; exact b)))
  rcases dtick_disp hsu hs with ⟨d1, d2⟩ | ⟨m, d1, d2⟩
  · refine ⟨?_, ?_, fun _ => Or.inl haw', fun a => by rw [(dtick_holdOn hsu hs a).2]; exact (dtick_holdOn hsu hs a).1⟩
    · intro n a; exact absurd a (d2 n)
    · intro a b c n hn
      rw [d1] at hn
      exact keep n (h.dc (o6 ▸ a) (o9 ▸ b) (by rw [hsu]; simp) n hn)
  · refine ⟨?_, ?_, fun _ => Or.inl haw', fun a => by rw [d2] at a; cases a⟩
    · intro n a; rw [d2] at a; cases a; rw [d1]; exact (mem_addDispatched s m m).mpr (Or.inr rfl)
    · intro a b c n hn
      rw [d1] at hn
      rcases (mem_addDispatched s m n).mp hn with x | x
      · exact keep n (h.dc (o6 ▸ a) (o9 ▸ b) (by rw [hsu]; simp) n x)
      · subst x; exact Or.inl ⟨haw', d2⟩

/-- `generator.send(node)` from `sTop node` / `gLoop node ret`, followed by the move to the awaiting position -/
theorem invC_send {s s0 : Sys} {node : Option Name} {perm : List Name} (rpc' : RPC) (h : InvC s)
    (hsb : sentBack s = node) (hnx : ∀ m, s.rpc ≠ .sExec m) (hna : ¬ awaiting s)
    (hr0 : ∀ m r, s.rpc ≠ .gRet (.task m) r)
    (haw' : awaiting { s0 with rpc := rpc' })
    (hs : send inp s node perm = some s0) : InvC { s0 with rpc := rpc' } := by
  obtain ⟨⟨_, o2, o3, o4, o5, o6, _, _, o9, _⟩, _⟩ := send_outer hs
  obtain ⟨d1, d2, d3⟩ := send_disp hs
  refine ⟨?_, ?_, fun _ => Or.inl haw', ?_⟩
  rotate_left 2
  · intro a
    have a' : s0.susp = some .holdOn := a
    rcases d1 with x | x <;> (rw [x] at a'; cases a')
  · intro n a
    have a' : s0.susp = some (.node n) := a
    rcases d1 with x | x <;> (rw [x] at a'; cases a')
  · intro a b c n hn
    have c' : s0.susp ≠ some .crash := c
    have hs0 : s0.susp = none := by
      rcases d1 with x | x
      · exact x
      · exact absurd x c'
    have hn' : n ∈ s0.dispatched := hn
    have hst : s.stop = false := by rw [← o6]; exact a
    have hht : s.halt = .none := by rw [← o9]; exact b
    have hcr : s.susp ≠ some .crash := by
      intro e
      rcases h.cr e with x | x
      · exact hna x
      · exact x hht
    have hin : n ∈ s.dispatched ∧ node ≠ some n := by
      cases node with
      | none => rw [d2 hs0 rfl] at hn'; exact ⟨hn', by simp⟩
      | some p =>
        rw [d3 hs0 p rfl] at hn'
        have := List.mem_filter.mp hn'
        refine ⟨this.1, ?_⟩
        intro e; cases e; simp at this
    rcases h.dc hst hht hcr n hin.1 with ⟨x, _⟩ | x | x | x
    · exact absurd x hna
    · rw [hsb] at x; exact absurd x hin.2
    · refine Or.inr (Or.inr (Or.inl ?_))
      have : InFlight s0 n := inFlight_keep o3 o5 o4 hr0 n x
      rcases this with y | y | y | y
      · exact Or.inl y
      · have h0 : holding s0 n = 0 := holding_of_rpc (s := s0) (by rw [o2]; exact hr0) n
        rw [h0] at y; cases y
      · exact Or.inr (Or.inr (Or.inl y))
      · exact Or.inr (Or.inr (Or.inr y))
    · exact absurd x (hnx n)

/-! ### the runner side -/

theorem applySel_dispatched (inp : RunInput) (s : Sys) (n : Name) (nd : Node) (d : Sel) :
    (applySel inp s n nd d).dispatched = s.dispatched := by
  cases d <;> simp [applySel, failNode, setNode]

theorem processResult_dispatched (inp : RunInput) (s : Sys) (n : Name) (nd : Node) :
    (processResult inp s n nd).dispatched = s.dispatched := by
  unfold processResult; cases inp.outcome n <;> simp [failNode, setNode]

/-- `select_task(n)` answered; the runner moves to `rpc'` where `n` is accounted for -/
theorem invC_select {s : Sys} {n : Name} {nd : Node} (d : Sel) (rpc' : RPC) (h : InvC s) (haw : awaiting s)
    (hsu : s.susp = some (.node n))
    (hna' : ¬ awaiting { applySel inp s n nd d with rpc := rpc' })
    (hn' : AtRunner { applySel inp s n nd d with rpc := rpc' } n)
    (hh : ∀ m r, rpc' = .gRet (.task m) r → m = n) :
    InvC { applySel inp s n nd d with rpc := rpc' } := by
  obtain ⟨_, _, _, f4, _, f6, f7, f8⟩ := applySel_frame inp s n nd d
  obtain ⟨_, _, _, g4, g5⟩ := applySel_frame2 inp s n nd d
  have hsb : sentBack s = none := by
    unfold sentBack; rcases haw with a | ⟨r, a⟩ <;> rw [a]
  have hr0 : ∀ m r, s.rpc ≠ .gRet (.task m) r := by
    intro m r e; rcases haw with a | ⟨r', a⟩ <;> (rw [a] at e; cases e)
  refine ⟨?_, ?_, ?_, ?_⟩
  · intro m a
    have a' : (applySel inp s n nd d).susp = some (.node m) := a
    rw [f4] at a'
    show m ∈ (applySel inp s n nd d).dispatched
    rw [applySel_dispatched]; exact h.ds m a'
  · intro a b c m hm
    have hm' : m ∈ (applySel inp s n nd d).dispatched := hm
    rw [applySel_dispatched] at hm'
    have c' : (applySel inp s n nd d).susp ≠ some .crash := c
    rw [f4] at c'
    have b' : (applySel inp s n nd d).halt = .none := b
    rw [g4] at b'
    by_cases e : m = n
    · subst e; exact hn'
    · rcases h.dc (g5 a) b' c' m hm' with ⟨_, y⟩ | x | x | x
      · rw [hsu] at y; cases y; exact absurd rfl e
      · rw [hsb] at x; cases x
      · refine Or.inr (Or.inr (Or.inl ?_))
        rcases x with y | y | y | y
        · exact Or.inl (by show Job.task m ∈ (applySel inp s n nd d).jobQ; rw [f6]; exact y)
        · rw [holding_of_rpc hr0 m] at y; cases y
        · exact Or.inr (Or.inr (Or.inl (by
            obtain ⟨w, hw⟩ := y
            exact ⟨w, by show (applySel inp s n nd d).workers w = _; rw [f8]; exact hw⟩)))
        · exact Or.inr (Or.inr (Or.inr (by show m ∈ (applySel inp s n nd d).resQ; rw [f7]; exact y)))
      · rcases haw with a1 | ⟨r, a1⟩ <;> (rw [a1] at x; cases x)
  · intro a
    have a' : (applySel inp s n nd d).susp = some .crash := a
    rw [f4, hsu] at a'; cases a'
  · intro a
    have a' : (applySel inp s n nd d).susp = some .holdOn := a
    rw [f4, hsu] at a'; cases a'

theorem inFlight_cases {s : Sys} {n : Name} (h : InFlight s n) (h0 : ∀ m r, s.rpc ≠ .gRet (.task m) r) :
    Job.task n ∈ s.jobQ ∨ (∃ w, s.workers w = .running n) ∨ n ∈ s.resQ := by
  rcases h with y | y | y | y
  · exact Or.inl y
  · rw [holding_of_rpc h0 n] at y; cases y
  · exact Or.inr (Or.inl y)
  · exact Or.inr (Or.inr y)

theorem inFlight_of {s : Sys} {n : Name} (h : Job.task n ∈ s.jobQ ∨ (∃ w, s.workers w = .running n) ∨ n ∈ s.resQ) :
    InFlight s n := by
  rcases h with y | y | y
  · exact Or.inl y
  · exact Or.inr (Or.inr (Or.inl y))
  · exact Or.inr (Or.inr (Or.inr y))

/-- `process_task_result(n)`; the runner moves to a position where `n` is about to be fed back -/
theorem invC_result {s s1 : Sys} {n : Name} {nd : Node} (rpc' : RPC) (fp : Nat) (h : InvC s) (hna : ¬ awaiting s)
    (hsb : sentBack s = none) (hr0 : ∀ m r, s.rpc ≠ .gRet (.task m) r) (hx : ∀ m, s.rpc = .sExec m → m = n)
    (e1 : s1.dispatched = s.dispatched) (e2 : s1.susp = s.susp) (e3 : s1.stop = s.stop) (e4 : s1.halt = s.halt)
    (e5 : s1.jobQ = s.jobQ) (e6 : s1.workers = s.workers) (e7 : ∀ m ∈ s.resQ, m = n ∨ m ∈ s1.resQ)
    (hsb' : sentBack { processResult inp s1 n nd with rpc := rpc', freeProc := fp } = some n)
    (hna' : ¬ awaiting { processResult inp s1 n nd with rpc := rpc', freeProc := fp })
    (hr0' : ∀ m r, rpc' ≠ .gRet (.task m) r) :
    InvC { processResult inp s1 n nd with rpc := rpc', freeProc := fp } := by
  obtain ⟨_, _, _, f4, _, f6, f7, f8⟩ := processResult_frame inp s1 n nd
  obtain ⟨_, _, _, g4, g5⟩ := processResult_frame2 inp s1 n nd
  apply h.move hna
  · show (processResult inp s1 n nd).dispatched = s.dispatched
    rw [processResult_dispatched, e1]
  · show (processResult inp s1 n nd).susp = s.susp
    rw [f4, e2]
  · intro a; rw [← e3]; exact g5 a
  · intro a
    have a' : (processResult inp s1 n nd).halt = .none := a
    rw [g4, e4] at a'; exact a'
  · intro _ _ m hm
    rcases hm with ⟨x, _⟩ | x | x | x
    · exact absurd x hna
    · rw [hsb] at x; cases x
    · rcases inFlight_cases x hr0 with y | y | y
      · exact Or.inr (Or.inr (Or.inl (Or.inl (by
          show Job.task m ∈ (processResult inp s1 n nd).jobQ; rw [f6, e5]; exact y))))
      · obtain ⟨w, hw⟩ := y
        exact Or.inr (Or.inr (Or.inl (Or.inr (Or.inr (Or.inl ⟨w, by
          show (processResult inp s1 n nd).workers w = _; rw [f8, e6]; exact hw⟩)))))
      · rcases e7 m y with z | z
        · subst z; exact Or.inr (Or.inl hsb')
        · exact Or.inr (Or.inr (Or.inl (Or.inr (Or.inr (Or.inr (by
            show m ∈ (processResult inp s1 n nd).resQ; rw [f7]; exact z))))))
    · have := hx m x; subst this; exact Or.inr (Or.inl hsb')

/-! ### `get_next_job` returns -/

theorem gReturn_invC {s : Sys} {job : Job} {ret : Ret} (h : InvC s) (hr : s.rpc = .gRet job ret)
    (hns : s.workers s.nStarted = .notStarted) : InvC (gReturn s job ret) := by
  have hna : ¬ awaiting s := by
    intro a; rcases a with a | ⟨r, a⟩ <;> (rw [hr] at a; cases a)
  have hsb : sentBack s = none := by unfold sentBack; rw [hr]
  -- every node at the runner is in flight; after the job was queued it still is
  have key : ∀ (s' : Sys), s'.dispatched = s.dispatched → s'.susp = s.susp → s'.stop = s.stop → s'.halt = s.halt →
      (∀ m, Job.task m ∈ s.jobQ ∨ job = .task m → Job.task m ∈ s'.jobQ) →
      (∀ w m, s.workers w = .running m → s'.workers w = .running m) → s'.resQ = s.resQ →
      (∀ m r, s'.rpc ≠ .gRet (.task m) r) → (∀ m, s'.rpc ≠ .sExec m) → InvC s' := by
    intro s' e1 e2 e3 e4 hj hw hq _ _
    apply h.move hna e1 e2 (fun a => e3 ▸ a) (fun a => e4 ▸ a)
    intro _ _ m hm
    rcases hm with ⟨x, _⟩ | x | x | x
    · exact absurd x hna
    · rw [hsb] at x; cases x
    · refine Or.inr (Or.inr (Or.inl ?_))
      rcases x with y | y | y | y
      · exact Or.inl (hj m (Or.inl y))
      · refine Or.inl (hj m (Or.inr ?_))
        unfold holding at y; rw [hr] at y
        cases job with
        | task k => simp only [] at y; split at y
                    · rename_i e; rw [e]
                    · cases y
        | hold => simp at y
        | stop => simp at y
      · obtain ⟨w, hw'⟩ := y; exact Or.inr (Or.inr (Or.inl ⟨w, hw w m hw'⟩))
      · exact Or.inr (Or.inr (Or.inr (by rw [hq]; exact y)))
    · rw [hr] at x; cases x
  have hwk : ∀ w m, s.workers w = .running m → (setWorker s s.nStarted .idle).workers w = .running m := by
    intro w m hw
    simp only [setWorker]
    split
    · rename_i e; subst e; rw [hns] at hw; cases hw
    · exact hw
  have happ : ∀ m, Job.task m ∈ s.jobQ ∨ job = .task m → Job.task m ∈ s.jobQ ++ [job] := by
    intro m a; rcases a with a | a
    · simp [a]
    · simp [a]
  cases ret with
  | startLoop k =>
    simp only [gReturn]
    split
    · rename_i hj
      refine key _ rfl rfl rfl rfl ?_ (fun w m a => a) rfl (fun m r a => by cases a) (fun m a => by cases a)
      intro m a; rcases a with a | a
      · exact a
      · rw [hj] at a; cases a
    · split
      · exact key _ rfl rfl rfl rfl happ hwk rfl (fun m r a => by cases a) (fun m a => by cases a)
      · exact key _ rfl rfl rfl rfl happ hwk rfl (fun m r a => by cases a) (fun m a => by cases a)
  | feedLoop k =>
    simp only [gReturn]
    split
    · split
      · exact key _ rfl rfl rfl rfl happ (fun w m a => a) rfl (fun m r a => by cases a) (fun m a => by cases a)
      · refine ⟨fun n a => h.ds n a, ?_, fun _ => Or.inr (by simp [raise]), fun a => h.ho a⟩
        intro _ b; simp [raise] at b
    · exact key _ rfl rfl rfl rfl happ (fun w m a => a) rfl (fun m r a => by cases a) (fun m a => by cases a)

/-! ### workers -/

theorem takeStep_invC {s s' : Sys} {w : Nat} (h : InvC s) (hs : takeStep inp s w = some s') : InvC s' := by
  unfold takeStep at hs
  split at hs
  · rename_i hidle
    cases hq : s.jobQ with
    | nil => simp only [hq] at hs; cases hs
    | cons j js =>
      simp only [hq] at hs
      have keepW : ∀ (st : WState) w' m, s.workers w' = .running m → (if w' = w then st else s.workers w') = .running m := by
        intro st w' m a
        split
        · rename_i e; subst e; rw [hidle] at a; cases a
        · exact a
      cases j with
      | hold =>
        simp only [] at hs; cases hs
        refine h.worker rfl rfl rfl rfl rfl ?_
        intro n a
        rcases a with y | y | y | y
        · rw [hq] at y; simp at y; exact Or.inl y
        · exact Or.inr (Or.inl y)
        · exact Or.inr (Or.inr (Or.inl y))
        · exact Or.inr (Or.inr (Or.inr y))
      | stop =>
        simp only [] at hs; cases hs
        refine h.worker rfl rfl rfl rfl rfl ?_
        intro n a
        rcases a with y | y | y | y
        · rw [hq] at y; simp at y; exact Or.inl y
        · exact Or.inr (Or.inl y)
        · obtain ⟨w', hw'⟩ := y
          exact Or.inr (Or.inr (Or.inl ⟨w', by simp only [setWorker]; exact keepW _ w' n hw'⟩))
        · exact Or.inr (Or.inr (Or.inr y))
      | task k =>
        simp only [] at hs; cases hs
        refine h.worker rfl rfl rfl rfl rfl ?_
        intro n a
        rcases a with y | y | y | y
        · rw [hq] at y
          rcases List.mem_cons.mp y with z | z
          · cases z
            exact Or.inr (Or.inr (Or.inl ⟨w, by simp [setWorker]⟩))
          · exact Or.inl z
        · exact Or.inr (Or.inl y)
        · obtain ⟨w', hw'⟩ := y
          exact Or.inr (Or.inr (Or.inl ⟨w', by simp only [setWorker, startTask]; exact keepW _ w' n hw'⟩))
        · exact Or.inr (Or.inr (Or.inr y))
  · cases hs

theorem doneStep_invC {s s' : Sys} {w : Nat} (h : InvC s) (hs : doneStep s w = some s') : InvC s' := by
  unfold doneStep at hs
  cases hw : s.workers w with
  | running k =>
    simp only [hw] at hs; cases hs
    refine h.worker rfl rfl rfl rfl rfl ?_
    intro n a
    rcases a with y | y | y | y
    · exact Or.inl y
    · exact Or.inr (Or.inl y)
    · obtain ⟨w', hw'⟩ := y
      by_cases e : w' = w
      · subst e; rw [hw] at hw'; cases hw'
        exact Or.inr (Or.inr (Or.inr (by simp)))
      · exact Or.inr (Or.inr (Or.inl ⟨w', by simp [setWorker, e, hw']⟩))
    · exact Or.inr (Or.inr (Or.inr (by simp [y])))
  | notStarted => simp only [hw] at hs; cases hs
  | idle => simp only [hw] at hs; cases hs
  | exited => simp only [hw] at hs; cases hs

/-! ### assembling the steps -/

theorem InvC.congr {s s' : Sys} (h : InvC s) (e1 : s'.dispatched = s.dispatched) (e2 : s'.susp = s.susp)
    (e3 : s'.stop = s.stop) (e4 : s'.halt = s.halt) (e5 : s'.rpc = s.rpc) (e6 : s'.jobQ = s.jobQ)
    (e7 : s'.workers = s.workers) (e8 : s'.resQ = s.resQ) : InvC s' :=
  h.worker e5 e1 e2 e3 e4 (fun n a => by unfold InFlight holding at *; rw [e5, e6, e7, e8]; exact a)

/-- the runner moves between positions where it does not await a yield; queues untouched -/
theorem InvC.rpcMove {s s' : Sys} (h : InvC s) (hna : ¬ awaiting s) (e1 : s'.dispatched = s.dispatched)
    (e2 : s'.susp = s.susp) (e3 : s'.stop = false → s.stop = false) (e4 : s'.halt = .none → s.halt = .none)
    (e5 : s'.jobQ = s.jobQ) (e6 : s'.workers = s.workers) (e7 : s'.resQ = s.resQ)
    (hr0 : ∀ m r, s.rpc ≠ .gRet (.task m) r) (hx : ∀ n, s.rpc ≠ .sExec n)
    (hsb : s'.stop = false → ∀ n, sentBack s = some n → sentBack s' = some n) : InvC s' := by
  apply h.move hna e1 e2 e3 e4
  intro a _ n hn
  rcases hn with ⟨x, _⟩ | x | x | x
  · exact absurd x hna
  · exact Or.inr (Or.inl (hsb a n x))
  · exact Or.inr (Or.inr (Or.inl (inFlight_keep e5 e6 e7 hr0 n x)))
  · exact absurd x (hx n)

/-- the runner leaves the awaiting position after the generator ended / said "hold on" -/
theorem InvC.leaveAwait {s s' : Sys} (h : InvC s) (haw : awaiting s) (hsu : ∀ n, s.susp ≠ some (.node n))
    (hcr : s.susp ≠ some .crash) (e1 : s'.dispatched = s.dispatched) (e2 : s'.susp = s.susp)
    (e3 : s'.stop = s.stop) (e4 : s'.halt = s.halt) (e5 : s'.jobQ = s.jobQ) (e6 : s'.workers = s.workers)
    (e7 : s'.resQ = s.resQ) : InvC s' := by
  have hr0 : ∀ m r, s.rpc ≠ .gRet (.task m) r := by
    intro m r e; rcases haw with a | ⟨r', a⟩ <;> (rw [a] at e; cases e)
  have hsb : sentBack s = none := by
    unfold sentBack; rcases haw with a | ⟨r, a⟩ <;> rw [a]
  refine ⟨?_, ?_, ?_, ?_⟩
  · intro n a; rw [e2] at a; exact absurd a (hsu n)
  · intro a b c n hn
    rcases h.dc (e3 ▸ a) (e4 ▸ b) hcr n (e1 ▸ hn) with ⟨_, y⟩ | x | x | x
    · exact absurd y (hsu n)
    · rw [hsb] at x; cases x
    · exact Or.inr (Or.inr (Or.inl (inFlight_keep e5 e6 e7 hr0 n x)))
    · rcases haw with a1 | ⟨r, a1⟩ <;> (rw [a1] at x; cases x)
  · intro a; rw [e2] at a; exact absurd a hcr
  · intro a; rw [e1]; exact h.ho (e2 ▸ a)

theorem serialStep_invC {s s' : Sys} {perm : List Name} (h : InvC s)
    (hs : serialStep inp s perm = some s') : InvC s' := by
  unfold serialStep at hs
  cases hr : s.rpc with
  | sTop node =>
    simp only [hr] at hs
    have hna : ¬ awaiting s := by intro a; rcases a with a | ⟨r, a⟩ <;> (rw [hr] at a; cases a)
    have hr0 : ∀ m r, s.rpc ≠ .gRet (.task m) r := by intro m r e; rw [hr] at e; cases e
    have hx : ∀ m, s.rpc ≠ .sExec m := by intro m e; rw [hr] at e; cases e
    split at hs
    · rename_i hstop
      cases hs
      exact h.rpcMove hna rfl rfl (fun a => a) (fun a => a) rfl rfl rfl hr0 hx
        (fun a => by simp only [] at a; rw [hstop] at a; cases a)
    · cases hsd : send inp s node perm with
      | none => simp only [hsd] at hs; cases hs
      | some s0 =>
        simp only [hsd] at hs; cases hs
        exact invC_send .sWait h (by unfold sentBack; rw [hr]) hx hna hr0 (Or.inl rfl) hsd
  | sWait =>
    simp only [hr] at hs
    have haw : awaiting s := Or.inl hr
    cases hsu : s.susp with
    | none => simp only [hsu] at hs; exact invC_dtick h hsu haw hs
    | some o =>
      simp only [hsu] at hs
      cases o with
      | init => cases hs
      | node n =>
        simp only [] at hs
        cases hn : s.nodes n with
        | none => simp only [hn] at hs; cases hs; exact h.raised _ (by simp)
        | some nd =>
          simp only [hn] at hs
          have key : ∀ d, InvC { applySel inp s n nd d with rpc := .sTop (some n) } := fun d =>
            invC_select d _ h haw hsu (by intro a; rcases a with a | ⟨r, a⟩ <;> cases a)
              (Or.inr (Or.inl rfl)) (fun m r e => by cases e)
          cases hd : selDecision inp n nd with
          | go =>
            simp only [hd] at hs; cases hs
            have h1 : InvC { applySel inp s n nd .go with rpc := .sExec n } :=
              invC_select .go _ h haw hsu (by intro a; rcases a with a | ⟨r, a⟩ <;> cases a)
                (Or.inr (Or.inr (Or.inr rfl))) (fun m r e => by cases e)
            exact h1.congr rfl rfl rfl rfl rfl rfl rfl rfl
          | assertFail => simp only [hd] at hs; cases hs; exact h.raised _ (by simp)
          | skipIgn => simp only [hd] at hs; cases hs; exact key _
          | unmet => simp only [hd] at hs; cases hs; exact key _
          | depErr => simp only [hd] at hs; cases hs; exact key _
          | utd => simp only [hd] at hs; cases hs; exact key _
          | runFirst => simp only [hd] at hs; cases hs; exact key _
          | argsErr => simp only [hd] at hs; cases hs; exact key _
      | stopIter =>
        cases hs
        exact h.leaveAwait haw (by rw [hsu]; simp) (by rw [hsu]; simp) rfl hsu.symm rfl rfl rfl rfl rfl
      | holdOn => cases hs; exact h.raised _ (by simp)
      | cyclic n => cases hs; exact h.raised _ (by simp)
      | crash => cases hs; exact h.raised _ (by simp)
  | sExec n =>
    simp only [hr] at hs
    have hna : ¬ awaiting s := by intro a; rcases a with a | ⟨r, a⟩ <;> (rw [hr] at a; cases a)
    cases hn : s.nodes n with
    | none => simp only [hn] at hs; cases hs; exact h.raised _ (by simp)
    | some nd =>
      simp only [hn] at hs; cases hs
      have h1 := invC_result (inp := inp) (s1 := { s with events := Ev.fin n 0 :: s.events, rpc := .sExec n }) (n := n) (nd := nd)
        (.sTop (some n)) (processResult inp { s with events := Ev.fin n 0 :: s.events, rpc := .sExec n } n nd).freeProc h hna
        (by unfold sentBack; rw [hr]) (by intro m r e; rw [hr] at e; cases e)
        (by intro m e; rw [hr] at e; cases e; rfl) rfl rfl rfl rfl rfl rfl (fun m a => Or.inr a) rfl
        (by intro a; rcases a with a | ⟨r, a⟩ <;> cases a) (fun m r e => by cases e)
      exact h1.congr rfl rfl rfl rfl rfl rfl rfl rfl
  | fin =>
    simp only [hr] at hs; cases hs
    have hna : ¬ awaiting s := by intro a; rcases a with a | ⟨r, a⟩ <;> (rw [hr] at a; cases a)
    exact h.rpcMove hna rfl rfl (fun a => a) (fun a => a) rfl rfl rfl (by intro m r e; rw [hr] at e; cases e)
      (by intro m e; rw [hr] at e; cases e) (fun _ n a => by unfold sentBack at a; rw [hr] at a; cases a)
  | gEntry a b => simp only [hr] at hs; cases hs
  | gLoop a b => simp only [hr] at hs; cases hs
  | gWait a => simp only [hr] at hs; cases hs
  | gRet a b => simp only [hr] at hs; cases hs
  | pTop => simp only [hr] at hs; cases hs
  | pJoin => simp only [hr] at hs; cases hs
  | halted => simp only [hr] at hs; cases hs

theorem mainStep_invC {s s' : Sys} {perm : List Name} (h : InvC s)
    (hns : s.workers s.nStarted = .notStarted) (hs : mainStep inp s perm = some s') : InvC s' := by
  unfold mainStep at hs
  cases hr : s.rpc with
  | gEntry completed ret =>
    simp only [hr] at hs
    have hna : ¬ awaiting s := by intro a; rcases a with a | ⟨r, a⟩ <;> (rw [hr] at a; cases a)
    have hr0 : ∀ m r, s.rpc ≠ .gRet (.task m) r := by intro m r e; rw [hr] at e; cases e
    have hx : ∀ m, s.rpc ≠ .sExec m := by intro m e; rw [hr] at e; cases e
    split at hs
    · rename_i hstop
      cases hs
      exact h.rpcMove hna rfl rfl (fun a => a) (fun a => a) rfl rfl rfl hr0 hx
        (fun a => by simp only [] at a; rw [hstop] at a; cases a)
    · cases hs
      exact h.rpcMove hna rfl rfl (fun a => a) (fun a => a) rfl rfl rfl hr0 hx
        (fun _ n a => by unfold sentBack at *; rw [hr] at a; exact a)
  | gLoop node ret =>
    simp only [hr] at hs
    have hna : ¬ awaiting s := by intro a; rcases a with a | ⟨r, a⟩ <;> (rw [hr] at a; cases a)
    cases hsd : send inp s node perm with
    | none => simp only [hsd] at hs; cases hs
    | some s0 =>
      simp only [hsd] at hs; cases hs
      exact invC_send (.gWait ret) h (by unfold sentBack; rw [hr]) (by intro m e; rw [hr] at e; cases e) hna
        (by intro m r e; rw [hr] at e; cases e) (Or.inr ⟨ret, rfl⟩) hsd
  | gWait ret =>
    simp only [hr] at hs
    have haw : awaiting s := Or.inr ⟨ret, hr⟩
    cases hsu : s.susp with
    | none => simp only [hsu] at hs; exact invC_dtick h hsu haw hs
    | some o =>
      simp only [hsu] at hs
      cases o with
      | init => cases hs
      | node n =>
        simp only [] at hs
        cases hn : s.nodes n with
        | none => simp only [hn] at hs; cases hs; exact h.raised _ (by simp)
        | some nd =>
          simp only [hn] at hs
          have key : ∀ d, InvC { applySel inp s n nd d with rpc := .gLoop (some n) ret } := fun d =>
            invC_select d _ h haw hsu (by intro a; rcases a with a | ⟨r, a⟩ <;> cases a)
              (Or.inr (Or.inl rfl)) (fun m r e => by cases e)
          cases hd : selDecision inp n nd with
          | go =>
            simp only [hd] at hs; cases hs
            exact invC_select .go _ h haw hsu (by intro a; rcases a with a | ⟨r, a⟩ <;> cases a)
              (Or.inr (Or.inr (Or.inl (Or.inr (Or.inl (by simp [holding])))))) (fun m r e => by cases e; rfl)
          | assertFail => simp only [hd] at hs; cases hs; exact h.raised _ (by simp)
          | skipIgn => simp only [hd] at hs; cases hs; exact key _
          | unmet => simp only [hd] at hs; cases hs; exact key _
          | depErr => simp only [hd] at hs; cases hs; exact key _
          | utd => simp only [hd] at hs; cases hs; exact key _
          | runFirst => simp only [hd] at hs; cases hs; exact key _
          | argsErr => simp only [hd] at hs; cases hs; exact key _
      | holdOn =>
        cases hs
        exact h.leaveAwait haw (by rw [hsu]; simp) (by rw [hsu]; simp) rfl hsu.symm rfl rfl rfl rfl rfl
      | stopIter =>
        cases hs
        exact h.leaveAwait haw (by rw [hsu]; simp) (by rw [hsu]; simp) rfl hsu.symm rfl rfl rfl rfl rfl
      | cyclic n => cases hs; exact h.raised _ (by simp)
      | crash => cases hs; exact h.raised _ (by simp)
  | gRet job ret => simp only [hr] at hs; cases hs; exact gReturn_invC h hr hns
  | pTop =>
    simp only [hr] at hs
    have hna : ¬ awaiting s := by intro a; rcases a with a | ⟨r, a⟩ <;> (rw [hr] at a; cases a)
    have hr0 : ∀ m r, s.rpc ≠ .gRet (.task m) r := by intro m r e; rw [hr] at e; cases e
    have hx : ∀ m, s.rpc ≠ .sExec m := by intro m e; rw [hr] at e; cases e
    split at hs
    · cases hs
      exact h.rpcMove hna rfl rfl (fun a => a) (fun a => a) rfl rfl rfl hr0 hx
        (fun _ n a => by unfold sentBack at a; rw [hr] at a; cases a)
    · cases hq : s.resQ with
      | nil => simp only [hq] at hs; cases hs
      | cons n rest =>
        simp only [hq] at hs
        cases hn : s.nodes n with
        | none => simp only [hn] at hs; cases hs; exact h.raised _ (by simp)
        | some nd =>
          simp only [hn] at hs; cases hs
          exact invC_result (s1 := { s with resQ := rest, rpc := .pTop }) (.gEntry (some n) (.feedLoop (s.freeProc + 1))) 0 h hna
            (by unfold sentBack; rw [hr]) hr0 (fun m e => absurd e (hx m)) rfl rfl rfl rfl rfl rfl
            (fun m a => by rw [hq] at a; rcases List.mem_cons.mp a with z | z
                           · exact Or.inl z
                           · exact Or.inr z)
            rfl (by intro a; rcases a with a | ⟨r, a⟩ <;> cases a) (fun m r e => by cases e)
  | pJoin =>
    simp only [hr] at hs
    have hna : ¬ awaiting s := by intro a; rcases a with a | ⟨r, a⟩ <;> (rw [hr] at a; cases a)
    split at hs
    · cases hs
      exact h.rpcMove hna rfl rfl (fun a => a) (fun a => a) rfl rfl rfl (by intro m r e; rw [hr] at e; cases e)
        (by intro m e; rw [hr] at e; cases e) (fun _ n a => by unfold sentBack at a; rw [hr] at a; cases a)
    · cases hs
  | fin =>
    simp only [hr] at hs; cases hs
    have hna : ¬ awaiting s := by intro a; rcases a with a | ⟨r, a⟩ <;> (rw [hr] at a; cases a)
    exact h.rpcMove hna rfl rfl (fun a => a) (fun a => a) rfl rfl rfl (by intro m r e; rw [hr] at e; cases e)
      (by intro m e; rw [hr] at e; cases e) (fun _ n a => by unfold sentBack at a; rw [hr] at a; cases a)
  | sTop a => simp only [hr] at hs; cases hs
  | sWait => simp only [hr] at hs; cases hs
  | sExec a => simp only [hr] at hs; cases hs
  | halted => simp only [hr] at hs; cases hs

theorem reach_invC {s : Sys} (h : Reach inp s) : InvC s := by
  induction h with
  | init => exact init_invC inp
  | @next s0 s1 c _ hs ih =>
    cases c with
    | main perm => exact serialStep_invC ih hs
    | take w => cases hs
    | done w => cases hs

theorem preach_invC {s : Sys} (h : PReach inp s) : InvC s := by
  induction h with
  | init => exact init_invC inp
  | @next s0 s1 c hp hs ih =>
    cases c with
    | main perm => exact mainStep_invC ih ((preach_inv5 hp).ns _ (Nat.le_refl _)) hs
    | take w => exact takeStep_invC ih hs
    | done w => exact doneStep_invC ih hs

/-! ### the serial runner: nothing is ever in flight, the generator runs only while the run goes on -/

structure InvS (s : Sys) : Prop where
  hl : s.halt ≠ .none → s.rpc = .fin ∨ s.rpc = .halted
  sw : s.rpc = .sWait → s.stop = false
  q : s.jobQ = [] ∧ s.resQ = [] ∧ ∀ w, s.workers w = .notStarted

theorem InvS.outer {s s' : Sys} (h : InvS s) (o : SameOuter s s') : InvS s' := by
  obtain ⟨_, o2, o3, o4, o5, o6, _, _, o9, _⟩ := o
  exact ⟨by rw [o9, o2]; exact h.hl, by rw [o2, o6]; exact h.sw, by rw [o3, o4, o5]; exact h.q⟩

theorem serialStep_invS {s s' : Sys} {perm : List Name} (h : InvS s)
    (hs : serialStep inp s perm = some s') : InvS s' := by
  unfold serialStep at hs
  cases hr : s.rpc with
  | sTop node =>
    simp only [hr] at hs
    have hh : s.halt = .none := by
      apply Classical.byContradiction; intro e
      rcases h.hl e with a | a <;> (rw [hr] at a; cases a)
    split at hs
    · cases hs; exact ⟨fun _ => Or.inl rfl, (fun e => by cases e), h.q⟩
    · rename_i hst
      cases hsd : send inp s node perm with
      | none => simp only [hsd] at hs; cases hs
      | some s0 =>
        simp only [hsd] at hs; cases hs
        obtain ⟨⟨_, o2, o3, o4, o5, o6, _, _, o9, _⟩, _⟩ := send_outer hsd
        refine ⟨?_, ?_, ?_⟩
        · intro e; exact absurd (show s0.halt = .none by rw [o9]; exact hh) e
        · intro _; show s0.stop = false; rw [o6]; simpa using hst
        · show s0.jobQ = [] ∧ s0.resQ = [] ∧ ∀ w, s0.workers w = .notStarted
          rw [o3, o4, o5]; exact h.q
  | sWait =>
    simp only [hr] at hs
    have hh : s.halt = .none := by
      apply Classical.byContradiction; intro e
      rcases h.hl e with a | a <;> (rw [hr] at a; cases a)
    cases hsu : s.susp with
    | none => simp only [hsu] at hs; exact h.outer (dtick_outer hs)
    | some o =>
      simp only [hsu] at hs
      have raised : ∀ hl : Halt, InvS (raise s hl) := fun hl =>
        ⟨fun _ => Or.inl rfl, (fun e => by cases e), h.q⟩
      cases o with
      | init => cases hs
      | node n =>
        simp only [] at hs
        cases hn : s.nodes n with
        | none => simp only [hn] at hs; cases hs; exact raised _
        | some nd =>
          simp only [hn] at hs
          have key : ∀ (d : Sel) (rpc' : RPC), rpc' ≠ .sWait → rpc' ≠ .fin → rpc' ≠ .halted →
              InvS { applySel inp s n nd d with rpc := rpc' } := by
            intro d rpc' h1 h2 h3
            obtain ⟨_, _, _, _, _, f6, f7, f8⟩ := applySel_frame inp s n nd d
            obtain ⟨_, _, _, g4, _⟩ := applySel_frame2 inp s n nd d
            refine ⟨?_, fun e => absurd e h1, ?_⟩
            · intro e
              have e' : (applySel inp s n nd d).halt ≠ .none := e
              rw [g4] at e'; exact absurd hh e'
            · show (applySel inp s n nd d).jobQ = [] ∧ (applySel inp s n nd d).resQ = [] ∧
                ∀ w, (applySel inp s n nd d).workers w = .notStarted
              rw [f6, f7, f8]; exact h.q
          cases hd : selDecision inp n nd with
          | go =>
            simp only [hd] at hs; cases hs
            have h1 := key .go (.sExec n) (by simp) (by simp) (by simp)
            exact ⟨h1.hl, (fun e => by cases e), h1.q⟩
          | assertFail => simp only [hd] at hs; cases hs; exact raised _
          | skipIgn => simp only [hd] at hs; cases hs; exact key _ _ (by simp) (by simp) (by simp)
          | unmet => simp only [hd] at hs; cases hs; exact key _ _ (by simp) (by simp) (by simp)
          | depErr => simp only [hd] at hs; cases hs; exact key _ _ (by simp) (by simp) (by simp)
          | utd => simp only [hd] at hs; cases hs; exact key _ _ (by simp) (by simp) (by simp)
          | runFirst => simp only [hd] at hs; cases hs; exact key _ _ (by simp) (by simp) (by simp)
          | argsErr => simp only [hd] at hs; cases hs; exact key _ _ (by simp) (by simp) (by simp)
      | stopIter => cases hs; exact ⟨fun _ => Or.inl rfl, (fun e => by cases e), h.q⟩
      | holdOn => cases hs; exact raised _
      | cyclic n => cases hs; exact raised _
      | crash => cases hs; exact raised _
  | sExec n =>
    simp only [hr] at hs
    have hh : s.halt = .none := by
      apply Classical.byContradiction; intro e
      rcases h.hl e with a | a <;> (rw [hr] at a; cases a)
    cases hn : s.nodes n with
    | none => simp only [hn] at hs; cases hs; exact ⟨fun _ => Or.inl rfl, (fun e => by cases e), h.q⟩
    | some nd =>
      simp only [hn] at hs; cases hs
      obtain ⟨_, _, _, _, _, f6, f7, f8⟩ :=
        processResult_frame inp { s with events := Ev.fin n 0 :: s.events, rpc := .sExec n } n nd
      obtain ⟨_, _, _, g4, _⟩ :=
        processResult_frame2 inp { s with events := Ev.fin n 0 :: s.events, rpc := .sExec n } n nd
      refine ⟨?_, (fun e => by cases e), ?_⟩
      · intro e
        have e' : (processResult inp { s with events := Ev.fin n 0 :: s.events, rpc := .sExec n } n nd).halt ≠ .none := e
        rw [g4] at e'; exact absurd hh e'
      · show (processResult inp _ n nd).jobQ = [] ∧ (processResult inp _ n nd).resQ = [] ∧
          ∀ w, (processResult inp _ n nd).workers w = .notStarted
        rw [f6, f7, f8]; exact h.q
  | fin => simp only [hr] at hs; cases hs; exact ⟨fun _ => Or.inr rfl, (fun e => by cases e), h.q⟩
  | gEntry a b => simp only [hr] at hs; cases hs
  | gLoop a b => simp only [hr] at hs; cases hs
  | gWait a => simp only [hr] at hs; cases hs
  | gRet a b => simp only [hr] at hs; cases hs
  | pTop => simp only [hr] at hs; cases hs
  | pJoin => simp only [hr] at hs; cases hs
  | halted => simp only [hr] at hs; cases hs

theorem init_invS (inp : RunInput) (hser : inp.runner = .serial) : InvS (init inp) := by
  refine ⟨?_, ?_, ?_⟩
  · intro e; simp [init] at e
  · intro e; simp [init, hser] at e
  · simp [init]

theorem reach_invS {s : Sys} (hser : inp.runner = .serial) (h : Reach inp s) : InvS s := by
  induction h with
  | init => exact init_invS inp hser
  | @next s0 s1 c _ hs ih =>
    cases c with
    | main perm => exact serialStep_invS ih hs
    | take w => cases hs
    | done w => cases hs

/-- serial runner: the dispatcher never answers `"hold on"` -/
theorem serial_no_holdOn {s : Sys} (hser : inp.runner = .serial) (h : Reach inp s) : s.susp ≠ some .holdOn := by
  induction h with
  | init => simp [init]
  | @next s0 s1 c hp hs ih =>
    cases c with
    | take w => cases hs
    | done w => cases hs
    | main perm =>
      have hC := reach_invC hp
      have hS := reach_invS hser hp
      intro hh
      have hs' : serialStep inp s0 perm = some s1 := hs
      unfold serialStep at hs'
      cases hr : s0.rpc with
      | sTop node =>
        simp only [hr] at hs'
        split at hs'
        · cases hs'; exact ih hh
        · cases hsd : send inp s0 node perm with
          | none => simp only [hsd] at hs'; cases hs'
          | some x =>
            simp only [hsd] at hs'; cases hs'
            have hh' : x.susp = some .holdOn := hh
            rcases (send_disp hsd).1 with a | a <;> (rw [a] at hh'; cases hh')
      | sWait =>
        simp only [hr] at hs'
        cases hsu : s0.susp with
        | none =>
          simp only [hsu] at hs'
          obtain ⟨hne, _⟩ := dtick_holdOn hsu hs' hh
          have hh0 : s0.halt = .none := by
            apply Classical.byContradiction; intro e
            rcases hS.hl e with a | a <;> (rw [hr] at a; cases a)
          cases hd : s0.dispatched with
          | nil => exact hne hd
          | cons n rest =>
            have := hC.dc (hS.sw hr) hh0 (by rw [hsu]; simp) n (by rw [hd]; simp)
            rcases this with ⟨_, y⟩ | y | y | y
            · rw [hsu] at y; cases y
            · unfold sentBack at y; rw [hr] at y; cases y
            · rcases y with z | z | z | z
              · rw [hS.q.1] at z; cases z
              · unfold holding at z; rw [hr] at z; cases z
              · obtain ⟨w, hw⟩ := z; rw [hS.q.2.2 w] at hw; cases hw
              · rw [hS.q.2.1] at z; cases z
            · rw [hr] at y; cases y
        | some o =>
          simp only [hsu] at hs'
          cases o with
          | init => cases hs'
          | node n =>
            simp only [] at hs'
            cases hn : s0.nodes n with
            | none => simp only [hn] at hs'; cases hs'; exact ih hh
            | some nd =>
              simp only [hn] at hs'
              have key : ∀ (d : Sel), (applySel inp s0 n nd d).susp ≠ some .holdOn := by
                intro d; rw [(applySel_frame inp s0 n nd d).2.2.2.1, hsu]; simp
              cases hd : selDecision inp n nd <;> simp only [hd] at hs' <;> cases hs' <;>
                first | exact ih hh | exact key _ hh
          | stopIter => cases hs'; exact absurd hh (by simp)
          | holdOn => exact ih hsu
          | cyclic n => cases hs'; exact ih hh
          | crash => cases hs'; exact ih hh
      | sExec n =>
        simp only [hr] at hs'
        cases hn : s0.nodes n with
        | none => simp only [hn] at hs'; cases hs'; exact ih hh
        | some nd =>
          simp only [hn] at hs'; cases hs'
          have hh' : (processResult inp { s0 with events := Ev.fin n 0 :: s0.events, rpc := .sExec n } n nd).susp
              = some .holdOn := hh
          rw [(processResult_frame inp _ n nd).2.2.2.1] at hh'
          exact ih hh'
      | fin => simp only [hr] at hs'; cases hs'; exact ih hh
      | gEntry a b => simp only [hr] at hs'; cases hs'
      | gLoop a b => simp only [hr] at hs'; cases hs'
      | gWait a => simp only [hr] at hs'; cases hs'
      | gRet a b => simp only [hr] at hs'; cases hs'
      | pTop => simp only [hr] at hs'; cases hs'
      | pJoin => simp only [hr] at hs'; cases hs'
      | halted => simp only [hr] at hs'; cases hs'


/-- `sExec` is a position of the serial runner only -/
theorem preach_no_sExec {s : Sys} (h : PReach inp s) : ∀ m, s.rpc ≠ .sExec m := by
  induction h with
  | init => intro m; simp only [init]; split <;> simp
  | @next s0 s1 c _ hs ih =>
    intro m
    cases c with
    | take w =>
      have hs' : takeStep inp s0 w = some s1 := hs
      unfold takeStep at hs'
      split at hs'
      · cases hq : s0.jobQ with
        | nil => simp only [hq] at hs'; cases hs'
        | cons j js =>
          simp only [hq] at hs'
          cases j <;> (simp only [] at hs'; cases hs'; exact ih m)
      · cases hs'
    | done w =>
      have hs' : doneStep s0 w = some s1 := hs
      unfold doneStep at hs'
      cases hw : s0.workers w <;> simp only [hw] at hs' <;> cases hs'
      exact ih m
    | main perm =>
      have hs' : mainStep inp s0 perm = some s1 := hs
      unfold mainStep at hs'
      cases hr : s0.rpc with
      | gEntry completed ret => simp only [hr] at hs'; split at hs' <;> (cases hs'; simp)
      | gLoop node ret =>
        simp only [hr] at hs'
        cases hsd : send inp s0 node perm with
        | none => simp only [hsd] at hs'; cases hs'
        | some x => simp only [hsd] at hs'; cases hs'; simp
      | gWait ret =>
        simp only [hr] at hs'
        cases hsu : s0.susp with
        | none =>
          simp only [hsu] at hs'
          have := (dtick_outer hs').2.1
          rw [this, hr]; simp
        | some o =>
          simp only [hsu] at hs'
          cases o with
          | init => cases hs'
          | node n =>
            simp only [] at hs'
            cases hn : s0.nodes n with
            | none => simp only [hn] at hs'; cases hs'; simp [raise]
            | some nd =>
              simp only [hn] at hs'
              cases hd : selDecision inp n nd <;> simp only [hd] at hs' <;> cases hs' <;> simp [raise]
          | holdOn => cases hs'; simp
          | stopIter => cases hs'; simp
          | cyclic n => cases hs'; simp [raise]
          | crash => cases hs'; simp [raise]
      | gRet job ret =>
        simp only [hr] at hs'; cases hs'
        cases ret with
        | startLoop k => simp only [gReturn]; split; · simp
                         split <;> simp [setWorker]
        | feedLoop k => simp only [gReturn]; split
                        · split <;> simp [raise]
                        · simp
      | pTop =>
        simp only [hr] at hs'
        split at hs'
        · cases hs'; simp
        · cases hq : s0.resQ with
          | nil => simp only [hq] at hs'; cases hs'
          | cons n rest =>
            simp only [hq] at hs'
            cases hn : s0.nodes n with
            | none => simp only [hn] at hs'; cases hs'; simp [raise]
            | some nd => simp only [hn] at hs'; cases hs'; simp
      | pJoin => simp only [hr] at hs'; split at hs' <;> cases hs'; simp
      | fin => simp only [hr] at hs'; cases hs'; simp [finishRun]
      | sTop a => simp only [hr] at hs'; cases hs'
      | sWait => simp only [hr] at hs'; cases hs'
      | sExec a => simp only [hr] at hs'; cases hs'
      | halted => simp only [hr] at hs'; cases hs'

/-- parallel runners: while the run goes on, a `"hold on"` answer means some task is out at the runner -/
theorem parallel_holdOn_in_flight {s : Sys} (h : PReach inp s) (hst : s.stop = false) (hh : s.halt = .none)
    (hho : s.susp = some .holdOn) :
    ∃ n, n ∈ s.dispatched ∧ (InFlight s n ∨ sentBack s = some n) := by
  have hC := preach_invC h
  have hne := hC.ho hho
  cases hd : s.dispatched with
  | nil => exact absurd hd hne
  | cons n rest =>
    refine ⟨n, by simp, ?_⟩
    rcases hC.dc hst hh (by rw [hho]; simp) n (by rw [hd]; simp) with ⟨_, y⟩ | y | y | y
    · rw [hho] at y; cases y
    · exact Or.inr y
    · exact Or.inl y
    · exact absurd y (preach_no_sExec h n)

end DoitModel.Run
