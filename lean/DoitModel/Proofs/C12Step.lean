import DoitModel.Proofs.C12Keep
import DoitModel.Proofs.C09Wait
/-! # C12 — one transition of the serial runner, as far as the order clause is concerned -/
namespace DoitModel.Run

/-- serial runner: the node being executed / fed back is the node the dispatcher yielded last -/
def SB (s : Sys) : Prop := ∀ n, (s.rpc = .sExec n ∨ s.rpc = .sTop (some n)) → s.susp = some (.node n)

def Ev.startName : Ev → Option Name
  | .start n _ => some n
  | _ => none

/-- the tasks started so far, newest first -/
def startsOf (l : List Ev) : List Name := l.filterMap Ev.startName

theorem startsOf_append (a b : List Ev) : startsOf (a ++ b) = startsOf a ++ startsOf b := by
  simp [startsOf, List.filterMap_append]

theorem startsOf_selEvents (inp : RunInput) (n : Name) (nd : Node) (d : Sel) : startsOf (selEvents inp n nd d) = [] := by
  cases d <;> simp [selEvents, statusEv, startsOf, Ev.startName] <;> split <;> simp [Ev.startName]

theorem startsOf_resEvents (n : Name) (o : Outcome) : startsOf (resEvents n o) = [] := by
  cases o <;> simp [resEvents, startsOf, Ev.startName]

theorem startsOf_teardown (l : List Name) : startsOf (l.map Ev.teardown) = [] := by
  induction l with
  | nil => rfl
  | cons a t ih => simp [startsOf, Ev.startName]

structure StepFacts (inp : RunInput) (s s' : Sys) : Prop where
  keep : KeepW (sentBack s) s s'
  ev : startsOf s'.events = startsOf s.events ∨
    (∃ b, startsOf s'.events = b :: startsOf s.events ∧ s.rpc = .sWait ∧ s.susp = some (.node b) ∧
      ∃ nd, s.nodes b = some nd ∧ selDecision inp b nd = .go)
  toRun : s'.toRun = s.toRun ∨
    (∃ t, s.toRun = t :: s'.toRun ∧ s.rpc = .sWait ∧ s.susp = none ∧ s.cur = none ∧ s.ready = [] ∧ created s' t)
  sb : SB s → SB s'

theorem dtick_toRun {inp : RunInput} {s s' : Sys} {perm : List Name} (hs : dtick inp s perm = some s') :
    s'.toRun = s.toRun ∨ (∃ t, s.toRun = t :: s'.toRun ∧ s.cur = none ∧ s.ready = [] ∧ created s' t) := by
  unfold dtick at hs
  cases hc : s.cur with
  | some n =>
    simp only [hc] at hs
    cases hn : s.nodes n with
    | none => simp only [hn] at hs; cases hs; exact Or.inl rfl
    | some nd =>
      simp only [hn] at hs
      left
      unfold nodeStep at hs
      split at hs
      all_goals (try split at hs)
      all_goals (try split at hs)
      all_goals (cases hs)
      all_goals first
        | rfl
        | (unfold genStep; split <;> (try split) <;> rfl)
        | (unfold addWaitRun; rfl)
  | none =>
    simp only [hc] at hs
    cases hrd : s.ready with
    | cons r rs => simp only [hrd] at hs; cases hs; exact Or.inl rfl
    | nil =>
      simp only [hrd] at hs
      cases htr : s.toRun with
      | nil =>
        simp only [htr] at hs
        left
        split at hs
        · split at hs <;> (cases hs; exact htr.symm ▸ rfl)
        · cases hs; exact htr.symm ▸ rfl
      | cons t ts =>
        simp only [htr] at hs
        right
        cases ht : s.nodes t with
        | none =>
          simp only [ht] at hs; cases hs
          exact ⟨t, rfl, rfl, rfl, ⟨mkNode inp t [t], by simp [setNode]⟩⟩
        | some x =>
          simp only [ht] at hs; cases hs
          exact ⟨t, rfl, rfl, rfl, ⟨x, ht⟩⟩

theorem applySel_toRun (inp : RunInput) (s : Sys) (n : Name) (nd : Node) (d : Sel) :
    (applySel inp s n nd d).toRun = s.toRun := by
  cases d <;> rfl

theorem processResult_toRun (inp : RunInput) (s : Sys) (n : Name) (nd : Node) :
    (processResult inp s n nd).toRun = s.toRun := by
  unfold processResult; cases inp.outcome n <;> rfl

theorem serialStep_facts {inp : RunInput} {s s' : Sys} {perm : List Name}
    (hs : serialStep inp s perm = some s') : StepFacts inp s s' := by
  -- a step that only moves the runner
  have plain : ∀ s1 : Sys, s1.nodes = s.nodes → s1.events = s.events → s1.toRun = s.toRun →
      (∀ n, s1.rpc ≠ .sExec n ∧ s1.rpc ≠ .sTop (some n)) → StepFacts inp s s1 := by
    intro s1 e1 e2 e3 hr
    exact ⟨KeepW.of_eq e1, Or.inl (by rw [e2]), Or.inl e3, fun _ n a => by
      rcases a with a | a
      · exact absurd a (hr n).1
      · exact absurd a (hr n).2⟩
  have raised : ∀ hl : Halt, StepFacts inp s (raise s hl) := by
    intro hl
    exact ⟨KeepW.of_eq rfl, Or.inl rfl, Or.inl rfl, fun _ n a => by
      rcases a with a | a <;> cases a⟩
  unfold serialStep at hs
  cases hr : s.rpc with
  | sTop node =>
    simp only [hr] at hs
    split at hs
    · cases hs; exact plain _ rfl rfl rfl (fun n => ⟨by simp, by simp⟩)
    · cases hsd : send inp s node perm with
      | none => simp only [hsd] at hs; cases hs
      | some s0 =>
        simp only [hsd] at hs; cases hs
        obtain ⟨o, _⟩ := send_outer hsd
        refine ⟨?_, ?_, Or.inl (show s0.toRun = s.toRun from send_toRun hsd), ?_⟩
        · have : sentBack s = node := by simp [sentBack, hr]
          rw [this]
          exact (keepW_send hsd).trans (KeepW.of_eq rfl)
        · exact Or.inl (by show startsOf s0.events = _; rw [o.1])
        · intro _ n a; rcases a with a | a <;> cases a
  | sWait =>
    simp only [hr] at hs
    cases hsu : s.susp with
    | none =>
      simp only [hsu] at hs
      have o := dtick_outer hs
      refine ⟨keepW_dtick _ hs, ?_, ?_, ?_⟩
      · exact Or.inl (by rw [o.1])
      · rcases dtick_toRun hs with a | ⟨t, a1, a2, a3, a4⟩
        · exact Or.inl a
        · exact Or.inr ⟨t, a1, hr, hsu, a2, a3, a4⟩
      · intro _ n a
        rw [o.2.1, hr] at a
        rcases a with a | a <;> cases a
    | some o =>
      simp only [hsu] at hs
      cases o with
      | init => cases hs
      | node n =>
        simp only [] at hs
        cases hn : s.nodes n with
        | none => simp only [hn] at hs; cases hs; exact raised _
        | some nd =>
          simp only [hn] at hs
          have key : ∀ (d : Sel), selDecision inp n nd = d → d ≠ .assertFail → d ≠ .go →
              StepFacts inp s { applySel inp s n nd d with rpc := .sTop (some n) } := by
            intro d hd h1 h2
            refine ⟨keepW_status _ (selStatus d) hn (applySel_nodes inp s n nd d h1), ?_,
              Or.inl (applySel_toRun inp s n nd d), ?_⟩
            · left
              show startsOf (applySel inp s n nd d).events = _
              rw [applySel_events, startsOf_append, startsOf_selEvents]; rfl
            · intro _ m a
              rcases a with a | a
              · cases a
              · simp only [RPC.sTop.injEq, Option.some.injEq] at a
                subst a
                show (applySel inp s n nd d).susp = _
                rw [(applySel_frame inp s n nd d).2.2.2.1]; exact hsu
          cases hd : selDecision inp n nd with
          | go =>
            simp only [hd] at hs; cases hs
            refine ⟨keepW_status _ (selStatus .go) hn (applySel_nodes inp s n nd .go (by simp)), ?_,
              Or.inl (applySel_toRun inp s n nd .go), ?_⟩
            · right
              refine ⟨n, ?_, hr, hsu, nd, hn, hd⟩
              show startsOf (startTask inp (applySel inp s n nd .go) n 0).events = _
              have e : startsOf (applySel inp s n nd .go).events = startsOf s.events := by
                rw [applySel_events, startsOf_append, startsOf_selEvents]; rfl
              simp only [startTask]
              split
              · simp only [startsOf, List.filterMap_cons, Ev.startName]; exact congrArg _ e
              · simp only [startsOf, List.filterMap_cons, Ev.startName]; exact congrArg _ e
            · intro _ m a
              rcases a with a | a
              · simp only [RPC.sExec.injEq] at a
                subst a
                show (applySel inp s n nd .go).susp = _
                rw [(applySel_frame inp s n nd .go).2.2.2.1]; exact hsu
              · cases a
          | assertFail => simp only [hd] at hs; cases hs; exact raised _
          | skipIgn => simp only [hd] at hs; cases hs; exact key _ hd (by simp) (by simp)
          | unmet => simp only [hd] at hs; cases hs; exact key _ hd (by simp) (by simp)
          | depErr => simp only [hd] at hs; cases hs; exact key _ hd (by simp) (by simp)
          | utd => simp only [hd] at hs; cases hs; exact key _ hd (by simp) (by simp)
          | runFirst => simp only [hd] at hs; cases hs; exact key _ hd (by simp) (by simp)
          | argsErr => simp only [hd] at hs; cases hs; exact key _ hd (by simp) (by simp)
      | stopIter => cases hs; exact plain _ rfl rfl rfl (fun n => ⟨by simp, by simp⟩)
      | holdOn => cases hs; exact raised _
      | cyclic n => cases hs; exact raised _
      | crash => cases hs; exact raised _
  | sExec n =>
    simp only [hr] at hs
    cases hn : s.nodes n with
    | none => simp only [hn] at hs; cases hs; exact raised _
    | some nd =>
      simp only [hn] at hs; cases hs
      refine ⟨keepW_status _ (resStatus (inp.outcome n)) hn (processResult_nodes inp _ n nd), ?_,
        Or.inl (processResult_toRun inp _ n nd), ?_⟩
      · left
        show startsOf (processResult inp { s with rpc := .sExec n, events := Ev.fin n 0 :: s.events } n nd).events = _
        rw [processResult_events, startsOf_append, startsOf_resEvents]
        simp only [startsOf, List.filterMap_cons, Ev.startName, List.nil_append]
      · intro hsb m a
        rcases a with a | a
        · cases a
        · simp only [RPC.sTop.injEq, Option.some.injEq] at a
          subst a
          show (processResult inp { s with rpc := .sExec n, events := Ev.fin n 0 :: s.events } n nd).susp = _
          rw [(processResult_frame inp _ n nd).2.2.2.1]
          exact hsb n (Or.inl hr)
  | fin =>
    simp only [hr] at hs; cases hs
    refine ⟨KeepW.of_eq rfl, ?_, Or.inl rfl, fun _ n a => by rcases a with a | a <;> cases a⟩
    left
    show startsOf (Ev.complete :: ((s.tdown.map Ev.teardown) ++ s.events)) = _
    have := startsOf_teardown s.tdown
    simp only [startsOf, List.filterMap_cons, Ev.startName, List.filterMap_append] at this ⊢
    rw [this]; rfl
  | gEntry a b => simp only [hr] at hs; cases hs
  | gLoop a b => simp only [hr] at hs; cases hs
  | gWait a => simp only [hr] at hs; cases hs
  | gRet a b => simp only [hr] at hs; cases hs
  | pTop => simp only [hr] at hs; cases hs
  | pJoin => simp only [hr] at hs; cases hs
  | halted => simp only [hr] at hs; cases hs

theorem reach_sb {inp : RunInput} {s : Sys} (hser : inp.runner = .serial) (h : Reach inp s) : SB s := by
  induction h with
  | init => intro n a; simp [init, hser] at a
  | @next s0 s1 c _ hs ih =>
    cases c with
    | main perm => exact (serialStep_facts hs).sb ih
    | take w => cases hs
    | done w => cases hs

end DoitModel.Run
