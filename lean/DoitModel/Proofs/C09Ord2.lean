import DoitModel.Proofs.C09Ord
/-! # C09 — the order of terminal reports, part 2: the system invariant `InvT`

`InvT.g1`: the terminal report of a task comes after the terminal report of every first-stage dependency the run has
determined (`StageG`); `InvT.g2`: if the first `select_task` pass chose the task for execution (`RunFirstG`), also after
the terminal reports of its setup-tasks.  Proved from the shape of one transition (`Proofs/C05Shape.lean`) and the node
invariant `NG`, for the serial and the parallel system. -/
namespace DoitModel.Run

structure InvT (inp : RunInput) (s : Sys) : Prop where
  ng : AllNG inp (stOf s) s
  ev : ∀ n, (Ev.success n ∈ s.events ∨ Ev.skipUtd n ∈ s.events) → (stOf s n).good = true
  g1 : ∀ n a, fstTerm s.events n = some a → ∀ d, StageG inp (stOf s) n d →
    ∃ b, fstTerm s.events d = some b ∧ b < a
  g2 : ∀ n a, fstTerm s.events n = some a → RunFirstG inp (stOf s) n → ∀ d ∈ inp.setup n,
    ∃ b, fstTerm s.events d = some b ∧ b < a

/-- what the proof uses of the other invariants of the run model -/
structure Ctx9 (inp : RunInput) (s : Sys) : Prop where
  h2 : Inv2 inp s
  h3 : Inv3 inp s
  hG : InvG inp s
  a4b : ∀ n nd, s.nodes n = some nd → nd.pc = .afterSelf2 → nd.status ≠ .none
  a6 : ∀ n, (stOf s n).finished = true → cTerm s n ≥ 1

variable {inp : RunInput}

theorem quiet_not_terminal {e : Ev} (h : e.quiet = true) (t : Name) : Ev.isTerminalOf t e = false := by
  cases e <;> simp [Ev.quiet, Ev.isTerminalOf] at h ⊢

theorem terminal_mentions {e : Ev} {t : Name} (h : Ev.isTerminalOf t e = true) : Ev.mentions t e = true := by
  cases e <;> simp [Ev.isTerminalOf, Ev.mentions] at h ⊢ <;> exact h

theorem only_not_terminal {l : List Ev} {n m : Name} (h : OnlyMentions l n) (hne : m ≠ n) :
    ∀ e ∈ l, Ev.isTerminalOf m e = false := by
  intro e he
  cases hb : Ev.isTerminalOf m e with
  | false => rfl
  | true => exact absurd (h e he m (terminal_mentions hb)) hne

theorem finBefore_fstTerm {l : List Ev} {d : Name} (h : finBefore l d) : ∃ b, fstTerm l d = some b := by
  rcases h with a | a
  · exact fstTerm_some_of_mem a (by simp [Ev.isTerminalOf])
  · exact fstTerm_some_of_mem a (by simp [Ev.isTerminalOf])

/-! ### the generic step: the status of one unfinished task `n0` changes, events are added -/

theorem invT_change {s s' : Sys} {n0 : Name} {r : RS} {new : List Ev} (h : InvT inp s)
    (hunf : (stOf s n0).finished = false) (hnone0 : fstTerm s.events n0 = none)
    (hst : ∀ x, stOf s' x = if x = n0 then r else stOf s x) (hev : s'.events = new ++ s.events)
    (hother : ∀ m, m ≠ n0 → ∀ e ∈ new, Ev.isTerminalOf m e = false)
    (Kt : ∀ x, StageG inp (stOf s) n0 x → ∃ b, fstTerm s.events x = some b)
    (Ks : (∃ a, fstTerm s'.events n0 = some a) → RunFirstG inp (stOf s') n0 → ∀ d ∈ inp.setup n0,
      ∃ b, fstTerm s.events d = some b)
    (hevn : ∀ m, (Ev.success m ∈ new ∨ Ev.skipUtd m ∈ new) → m = n0 ∧ r.good = true)
    (hng : AllNG inp (stOf s) s') : InvT inp s' := by
  have hfin : ∀ x, (stOf s x).finished = true → stOf s' x = stOf s x := by
    intro x hx; rw [hst]; split
    · rename_i e; subst e; rw [hunf] at hx; cases hx
    · rfl
  have hne : ∀ x, x ≠ n0 → stOf s' x = stOf s x := by intro x hx; rw [hst]; simp [hx]
  have fwd : ∀ n p, CalcG inp (stOf s) n p → CalcG inp (stOf s') n p → (stOf s p).good = true →
      (stOf s' p).good = true := by
    intro n p _ _ hg; rw [hfin p (RS.good_finished hg)]; exact hg
  have selfNot : ∀ x, StageG inp (stOf s) n0 x → x ≠ n0 := by
    intro x hx e; subst e
    obtain ⟨b, hb⟩ := Kt x hx; rw [hnone0] at hb; cases hb
  have old : ∀ d b, fstTerm s.events d = some b → fstTerm s'.events d = some b ∧ b < s.events.length :=
    fun d b hb => ⟨by rw [hev]; exact fstTerm_append_old hb, fstTerm_lt hb⟩
  have otherT : ∀ n, n ≠ n0 → fstTerm s'.events n = fstTerm s.events n := by
    intro n hn; rw [hev]; exact fstTerm_append_quiet (hother n hn)
  -- `StageG` under the new statuses is `StageG` under the old ones, for `n0` and for every task reported before
  have back : ∀ n, (n = n0 ∨ ∃ a, fstTerm s.events n = some a) → ∀ d, StageG inp (stOf s') n d →
      StageG inp (stOf s) n d := by
    intro n hn d hd
    apply StageG.mono _ hd
    intro p _ hp hg
    by_cases e : p = n0
    · subst e
      have hsg : StageG inp (stOf s) n p := Or.inr (Or.inl hp)
      rcases hn with rfl | ⟨a, ha⟩
      · exact absurd rfl (selfNot _ hsg)
      · obtain ⟨b, hb, _⟩ := h.g1 n a ha p hsg
        rw [hnone0] at hb; cases hb
    · rw [hne p e] at hg; exact hg
  refine ⟨hng.mono hfin, ?_, ?_, ?_⟩
  · intro m hm
    rw [hev] at hm
    have : (Ev.success m ∈ new ∨ Ev.skipUtd m ∈ new) ∨ (Ev.success m ∈ s.events ∨ Ev.skipUtd m ∈ s.events) := by
      rcases hm with a | a <;> rcases List.mem_append.mp a with b | b
      · exact Or.inl (Or.inl b)
      · exact Or.inr (Or.inl b)
      · exact Or.inl (Or.inr b)
      · exact Or.inr (Or.inr b)
    rcases this with a | a
    · obtain ⟨rfl, hr⟩ := hevn m a
      rw [hst]; simpa using hr
    · have hg := h.ev m a
      rw [hfin m (RS.good_finished hg)]; exact hg
  · intro n a ha d hd
    by_cases e : n = n0
    · subst e
      obtain ⟨b, hb⟩ := Kt d (back n (Or.inl rfl) d hd)
      obtain ⟨o1, o2⟩ := old d b hb
      have : s.events.length ≤ a := by rw [hev] at ha; exact fstTerm_append_new hnone0 ha
      exact ⟨b, o1, by omega⟩
    · rw [otherT n e] at ha
      obtain ⟨b, hb, hlt⟩ := h.g1 n a ha d (back n (Or.inr ⟨a, ha⟩) d hd)
      exact ⟨b, (old d b hb).1, hlt⟩
  · intro n a ha hrf d hd
    by_cases e : n = n0
    · subst e
      obtain ⟨b, hb⟩ := Ks ⟨a, ha⟩ hrf d hd
      obtain ⟨o1, o2⟩ := old d b hb
      have : s.events.length ≤ a := by rw [hev] at ha; exact fstTerm_append_new hnone0 ha
      exact ⟨b, o1, by omega⟩
    · rw [otherT n e] at ha
      have hrf' : RunFirstG inp (stOf s) n := by
        refine ⟨hrf.1, hrf.2.1, hrf.2.2.1, ?_⟩
        intro x hx
        have hg := hrf.2.2.2 x (hx.mono (fwd n))
        by_cases ex : x = n0
        · subst ex
          obtain ⟨b, hb, _⟩ := h.g1 n a ha x hx
          rw [hnone0] at hb; cases hb
        · rw [hne x ex] at hg; exact hg
      obtain ⟨b, hb, hlt⟩ := h.g2 n a ha hrf' d hd
      exact ⟨b, (old d b hb).1, hlt⟩

/-! ### `select_task` -/

/-- when `select_task` looks at the yielded node, every first-stage dependency the run has determined is in the node's
    dependency lists and finished -/
theorem select_stage_finished {s : Sys} {n : Name} {nd : Node} (c : Ctx9 inp s) (hsusp : s.susp = some (.node n))
    (hn : s.nodes n = some nd) : ∀ x, StageG inp (stOf s) n x → (stOf s x).finished = true := by
  have hok := c.h2.inv1.node n nd hn
  obtain ⟨nd', hn', hpc⟩ := c.h2.inv1.sp n hsusp
  rw [hn] at hn'; cases hn'
  have hm1 : nd.pendTask = [] ∧ nd.pendCalc = [] ∧ nd.waitRunCalc = [] := by
    rcases hpc with e | e <;> exact hok.m1 (by rw [e]; rfl)
  have hm2 : nd.waitRun = [] := by
    rcases hpc with e | e <;> exact hok.m2 (by rw [e]; rfl)
  have noT : nd.pc.iterT = false := by rcases hpc with e | e <;> (rw [e]; rfl)
  have noC : nd.pc.iterC = false := by rcases hpc with e | e <;> (rw [e]; rfl)
  have clsT : ∀ d ∈ nd.dynTask, (stOf s d).finished = true := by
    intro d hd
    rcases hok.kt d hd with a | ⟨a, _⟩ | a | a
    · rw [hm1.1] at a; cases a
    · rw [noT] at a; cases a
    · rw [hm2] at a; cases a
    · exact a.1
  have clsC : ∀ d ∈ nd.dynCalc, (stOf s d).finished = true := by
    intro d hd
    rcases hok.kc d hd with a | ⟨a, _⟩ | a | a
    · rw [hm1.2.1] at a; cases a
    · rw [noC] at a; cases a
    · rw [hm1.2.2] at a; cases a
    · exact a.1
  have dlv : ∀ p ∈ nd.dynCalc, (stOf s p).good = true → Delivered inp nd p := by
    intro p hp hg
    have hpr : Processed nd p := ⟨by rw [hm1.2.1]; simp,
      (fun (e : nd.pc.iterC = true ∧ p ∈ nd.snapCalc) => by rw [noC] at e; cases e.1), by rw [hm1.2.2]; simp⟩
    exact c.hG.dc n nd hn p hp hpr hg
  have calcIn : ∀ x, CalcG inp (stOf s) n x → x ∈ nd.dynCalc := by
    intro x hx
    induction hx with
    | base h => exact hok.st.2 _ h
    | res _ hg hc ih => exact (dlv _ ih hg).2.2 _ hc
  intro x hx
  rcases hx with a | a | ⟨p, a, b, c'⟩
  · exact clsT x (hok.st.1 x a)
  · exact clsC x (calcIn x a)
  · rcases c' with c' | c'
    · exact clsT x ((dlv p (calcIn p a) b).1 x c')
    · exact clsT x ((dlv p (calcIn p a) b).2.1 x c')

theorem statusEv_mem {nd : Node} {n : Name} {e : Ev} (h : e ∈ statusEv nd n) : e = Ev.getStatus n := by
  unfold statusEv at h; split at h
  · simpa using h
  · cases h

theorem selEvents_fin9 {n m : Name} {nd : Node} {d : Sel}
    (h : Ev.success m ∈ selEvents inp n nd d ∨ Ev.skipUtd m ∈ selEvents inp n nd d) :
    m = n ∧ (selStatus d).good = true := by
  have hs1 : ∀ m', Ev.success m' ∉ statusEv nd n := fun m' x => by have := statusEv_mem x; cases this
  have hs2 : ∀ m', Ev.skipUtd m' ∉ statusEv nd n := fun m' x => by have := statusEv_mem x; cases this
  have hs : ∀ m', Ev.success m' ∉ statusEv nd n ∧ Ev.skipUtd m' ∉ statusEv nd n := fun m' => ⟨hs1 m', hs2 m'⟩
  rcases h with h | h <;> cases d <;> simp only [selEvents, List.mem_cons] at h
  all_goals first
    | exact absurd h (hs m).1
    | exact absurd h (hs m).2
    | (rcases h with h | h
       · first | (cases h; exact ⟨rfl, rfl⟩) | cases h
       · first | exact absurd h (hs m).1 | exact absurd h (hs m).2)
    | cases h

theorem resEvents_fin9 {n m : Name} {o : Outcome} (h : Ev.success m ∈ resEvents n o ∨ Ev.skipUtd m ∈ resEvents n o) :
    m = n ∧ (resStatus o).good = true := by
  rcases h with h | h <;> cases o <;> simp [resEvents] at h
  exact ⟨h, rfl⟩

theorem quiet_no_fin {new : List Ev} (hq : ∀ e ∈ new, e.quiet = true) (m : Name) :
    Ev.success m ∉ new ∧ Ev.skipUtd m ∉ new :=
  ⟨fun h => by have := hq _ h; simp [Ev.quiet] at this, fun h => by have := hq _ h; simp [Ev.quiet] at this⟩

theorem invT_select {s s' : Sys} {n : Name} {nd : Node} {extra : List Ev} (h : InvT inp s) (c : Ctx9 inp s)
    (haw : awaiting s) (hsusp : s.susp = some (.node n)) (hn : s.nodes n = some nd)
    (hd : selDecision inp n nd ≠ .assertFail)
    (hst : ∀ x, stOf s' x = if x = n then selStatus (selDecision inp n nd) else stOf s x)
    (hev : s'.events = extra ++ (selEvents inp n nd (selDecision inp n nd) ++ s.events))
    (hq : ∀ e ∈ extra, e.quiet = true) (hng : AllNG inp (stOf s) s') : InvT inp s' := by
  have hstn : stOf s n = nd.status := by simp [stOf, hn]
  have hunf : (stOf s n).finished = false := by rw [hstn]; exact selDecision_unfinished hd
  have hnone0 : fstTerm s.events n = none := fstTerm_none_of_cTerm (c.h3.t n hunf)
  have hev' : s'.events = (extra ++ selEvents inp n nd (selDecision inp n nd)) ++ s.events := by
    rw [hev, List.append_assoc]
  have K := select_stage_finished c hsusp hn
  have fin_term : ∀ x, (stOf s x).finished = true → ∃ b, fstTerm s.events x = some b :=
    fun x hx => fstTerm_some_of_cTerm (c.a6 x hx)
  have hok := c.h2.inv1.node n nd hn
  obtain ⟨nd', hn', hpc⟩ := c.h2.inv1.sp n hsusp
  rw [hn] at hn'; cases hn'
  have hm2 : nd.waitRun = [] := by
    rcases hpc with e | e <;> exact hok.m2 (by rw [e]; rfl)
  have hfin : ∀ x, (stOf s x).finished = true → stOf s' x = stOf s x := by
    intro x hx; rw [hst]; split
    · rename_i e; subst e; rw [hunf] at hx; cases hx
    · rfl
  refine invT_change h hunf hnone0 hst hev' ?_ (fun x hx => fin_term x (K x hx)) ?_ ?_ hng
  · intro m hm e he
    rcases List.mem_append.mp he with a | a
    · exact quiet_not_terminal (hq e a) m
    · exact only_not_terminal (selEvents_only inp n nd _) hm e a
  · -- setup-tasks
    rintro ⟨a, ha⟩ hrf d hdm
    by_cases h0 : nd.status = .none
    · -- first pass: the decision cannot have been a terminal one
      exfalso
      have hpc1 : nd.pc = .afterSelf1 := by
        rcases hpc with e | e
        · exact e
        · exact absurd h0 (c.a4b n nd hn e)
      have hsetup : inp.setup n ≠ [] := by intro e; rw [e] at hdm; cases hdm
      have hng0 := h.ng n nd hn
      have fwd : ∀ x, StageG inp (stOf s) n x → StageG inp (stOf s') n x := by
        intro x hx; apply hx.mono
        intro p _ _ hg; rw [hfin p (RS.good_finished hg)]; exact hg
      have notLate : nd.pc.late9 = false := by rw [hpc1]; rfl
      by_cases c1 : nd.ign ≠ [] ∨ inp.ignored n = true
      · rcases c1 with c1 | c1
        · cases hl : nd.ign with
          | nil => exact c1 hl
          | cons x xs =>
            obtain ⟨e1, e2⟩ := hng0.ig x (by rw [hl]; simp)
            have hsx : StageF inp (stOf s) n x := by
              rcases e2 with e2 | e2
              · exact e2
              · rw [notLate] at e2; cases e2
            -- `x` is a determined dependency, or hangs below a failed calc_dep that is one: either is not good
            rcases hsx.cases with y | ⟨q, y, yf⟩
            · have hg := hrf.2.2.2 x (fwd x y)
              rw [hfin x (by rw [e1]; rfl), e1] at hg; cases hg
            · have hg := hrf.2.2.2 q (fwd q y)
              rw [hfin q (by rw [yf]; rfl), yf] at hg; cases hg
        · have := hrf.1; rw [c1] at this; cases this
      · by_cases c2 : nd.bad ≠ []
        · cases hl : nd.bad with
          | nil => exact c2 hl
          | cons x xs =>
            obtain ⟨e1, e2⟩ := hng0.bd x (by rw [hl]; simp)
            have hsx : StageF inp (stOf s) n x := by
              rcases e2 with e2 | e2
              · exact e2
              · rw [notLate] at e2; cases e2
            -- `x` is a determined dependency, or hangs below a failed calc_dep that is one: either is not good
            rcases hsx.cases with y | ⟨q, y, yf⟩
            · have hg := hrf.2.2.2 x (fwd x y)
              rw [hfin x (by rw [e1]; rfl), e1] at hg; cases hg
            · have hg := hrf.2.2.2 q (fwd q y)
              rw [hfin q (by rw [yf]; rfl), yf] at hg; cases hg
        · by_cases c3 : inp.statusOf n = .error
          · exact hrf.2.1 c3
          · by_cases c4 : effStatus inp n = .utd
            · have := hrf.2.2.1; rw [c4] at this; cases this
            · have hD : selDecision inp n nd = .runFirst := by
                unfold selDecision; simp only [h0, if_true, c1, c2, c3, c4, if_false]
                rw [if_pos hsetup]
              rw [hev', hD] at ha
              have : fstTerm ((extra ++ selEvents inp n nd .runFirst) ++ s.events) n = fstTerm s.events n := by
                apply fstTerm_append_quiet
                intro e he
                rcases List.mem_append.mp he with x | x
                · exact quiet_not_terminal (hq e x) n
                · have := statusEv_mem (show e ∈ statusEv nd n from x); subst this; rfl
              rw [this, hnone0] at ha; cases ha
    · -- second pass: the setup-tasks were absorbed
      have hpc2 : nd.pc = .afterSelf2 := by
        rcases hpc with e | e
        · exact absurd (c.h2.sel1 haw n nd hsusp hn e) h0
        · exact e
      rcases hok.ks (by rw [hpc2]; rfl) d hdm with x | x
      · rw [hm2] at x; cases x
      · exact fin_term d x.1
  · intro m hm
    have : Ev.success m ∈ selEvents inp n nd (selDecision inp n nd) ∨
        Ev.skipUtd m ∈ selEvents inp n nd (selDecision inp n nd) := by
      rcases hm with a | a <;> rcases List.mem_append.mp a with b | b
      · exact absurd b (quiet_no_fin hq m).1
      · exact Or.inl b
      · exact absurd b (quiet_no_fin hq m).2
      · exact Or.inr b
    exact selEvents_fin9 this

/-! ### `process_task_result` -/

theorem invT_result {s s' : Sys} {n : Name} {nd : Node} {mid : List Ev} (h : InvT inp s) (c : Ctx9 inp s)
    (hn : s.nodes n = some nd) (hrun : nd.status = .run) (hgo : ∃ deps, Ev.go n deps ∈ s.events)
    (hst : ∀ x, stOf s' x = if x = n then resStatus (inp.outcome n) else stOf s x)
    (hev : s'.events = resEvents n (inp.outcome n) ++ (mid ++ s.events))
    (hq : ∀ e ∈ mid, e.quiet = true) (hng : AllNG inp (stOf s) s') : InvT inp s' := by
  have hstn : stOf s n = nd.status := by simp [stOf, hn]
  have hunf : (stOf s n).finished = false := by rw [hstn, hrun]; rfl
  have hnone0 : fstTerm s.events n = none := fstTerm_none_of_cTerm (c.h3.t n hunf)
  have hev' : s'.events = (resEvents n (inp.outcome n) ++ mid) ++ s.events := by
    rw [hev, List.append_assoc]
  obtain ⟨deps, hg⟩ := hgo
  obtain ⟨cs, hcl⟩ := c.hG.gd n deps hg
  have inDeps : ∀ x ∈ deps, ∃ b, fstTerm s.events x = some b :=
    fun x hx => finBefore_fstTerm (ordOK_go c.h2.ord hg x hx)
  have calcIn : ∀ x, CalcG inp (stOf s) n x → x ∈ cs := by
    intro x hx
    induction hx with
    | base h => exact hcl.1 _ h
    | res _ _ hc ih => exact (hcl.2.2 _ ih).1 _ hc
  refine invT_change h hunf hnone0 hst hev' ?_ ?_ ?_ ?_ hng
  · intro m hm e he
    rcases List.mem_append.mp he with a | a
    · exact only_not_terminal (resEvents_only n _) hm e a
    · exact quiet_not_terminal (hq e a) m
  · intro x hx
    rcases hx with a | a | ⟨p, a, _, c'⟩
    · exact inDeps x (c.h2.gs n deps hg x (by simp [staticDeps, a]))
    · exact inDeps x (hcl.2.1 x (calcIn x a))
    · rcases c' with c' | c'
      · exact inDeps x ((hcl.2.2 p (calcIn p a)).2.1 x c')
      · exact inDeps x ((hcl.2.2 p (calcIn p a)).2.2 x c')
  · intro _ _ d hd
    exact inDeps d (c.h2.gs n deps hg d (by simp [staticDeps, hd]))
  · intro m hm
    have : Ev.success m ∈ resEvents n (inp.outcome n) ∨ Ev.skipUtd m ∈ resEvents n (inp.outcome n) := by
      rcases hm with a | a <;> rcases List.mem_append.mp a with b | b
      · exact Or.inl b
      · exact absurd b (quiet_no_fin hq m).1
      · exact Or.inr b
      · exact absurd b (quiet_no_fin hq m).2
    exact resEvents_fin9 this

/-! ### quiet transitions -/

theorem invT_quiet {s s' : Sys} {new : List Ev} (h : InvT inp s) (hst : ∀ x, stOf s' x = stOf s x)
    (hev : s'.events = new ++ s.events) (hq : ∀ e ∈ new, e.quiet = true) (hng : AllNG inp (stOf s) s') :
    InvT inp s' := by
  have e : stOf s' = stOf s := funext hst
  have ft : ∀ n, fstTerm s'.events n = fstTerm s.events n := by
    intro n; rw [hev]; exact fstTerm_append_quiet (fun x hx => quiet_not_terminal (hq x hx) n)
  refine ⟨by rw [e]; exact hng, ?_, ?_, ?_⟩
  · intro m hm
    rw [e]; apply h.ev m
    rw [hev] at hm
    rcases hm with a | a <;> rcases List.mem_append.mp a with b | b
    · exact absurd b (quiet_no_fin hq m).1
    · exact Or.inl b
    · exact absurd b (quiet_no_fin hq m).2
    · exact Or.inr b
  · intro n a ha d hd
    rw [ft] at ha; rw [e] at hd
    obtain ⟨b, hb, hlt⟩ := h.g1 n a ha d hd
    exact ⟨b, by rw [ft]; exact hb, hlt⟩
  · intro n a ha hrf d hd
    rw [ft] at ha; rw [e] at hrf
    obtain ⟨b, hb, hlt⟩ := h.g2 n a ha hrf d hd
    exact ⟨b, by rw [ft]; exact hb, hlt⟩

theorem invT_step {s s' : Sys} (h : InvT inp s) (c : Ctx9 inp s) (sh : Shape inp s s')
    (hng : AllNG inp (stOf s) s') : InvT inp s' := by
  cases sh with
  | quiet new hst hev hq _ => exact invT_quiet h hst hev hq hng
  | select n nd extra haw hsusp hn hd hst hev hq _ => exact invT_select h c haw hsusp hn hd hst hev hq hng
  | result n nd mid hn hrun hgo hst hev hq _ => exact invT_result h c hn hrun hgo hst hev hq hng

theorem init_invT (inp : RunInput) : InvT inp (init inp) := by
  refine ⟨fun k y hk => by simp [init] at hk, ?_, ?_, ?_⟩
  · intro n hn; simp [init] at hn
  · intro n a ha; simp [init, fstTerm] at ha
  · intro n a ha; simp [init, fstTerm] at ha

end DoitModel.Run
