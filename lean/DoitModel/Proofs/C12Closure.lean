import DoitModel.Proofs.C12Cut
/-! # C12 — while only members of a prefix `pre` of the selection have been popped from `tasks_to_run`, every node
    belongs to the dependency closure of `pre` (`Cl (cutSel inp pre)`) -/
namespace DoitModel.Run

variable {inp : RunInput} {pre : List Name}

/-- every node satisfies the closure obligations of `Proofs/RunClosure.lean` with respect to the prefix -/
def AllNCl (inp : RunInput) (pre : List Name) (s : Sys) : Prop :=
  ∀ k y, s.nodes k = some y → NCl (cutSel inp pre) k y

theorem AllNCl.of_eq {s s' : Sys} (h : AllNCl inp pre s) (e : s'.nodes = s.nodes) : AllNCl inp pre s' := by
  intro k y hk; rw [e] at hk; exact h k y hk

theorem send_ncl {s s' : Sys} {processed : Option Name} {perm : List Name} (h : AllNCl inp pre s)
    (hs : send inp s processed perm = some s') : AllNCl inp pre s' := by
  unfold send at hs
  cases processed with
  | none => cases hs; exact h.of_eq rfl
  | some p =>
    simp only [] at hs
    cases hn : s.nodes p with
    | none => simp only [hn] at hs; cases hs; exact h.of_eq rfl
    | some nd =>
      simp only [hn] at hs
      have hh : AllNCl inp pre (sendHead s p nd) := sendHead_ncl h hn
      split at hs
      · cases hs; exact h.of_eq rfl
      · split at hs
        · cases hs; exact hh.of_eq rfl
        · split at hs
          · cases hu : updateWaiting inp nd.status p (sendHead s p nd) perm with
            | none => simp only [hu] at hs; cases hs; exact hh.of_eq rfl
            | some s1 =>
              simp only [hu] at hs; cases hs
              have := updateWaiting_ncl (inp := cutSel inp pre) (pst := nd.status) (h p nd hn).self perm
                (sendHead s p nd) s1 hh (by rw [updateWaiting_cut]; exact hu)
              exact AllNCl.of_eq this rfl
          · cases hs

theorem dtick_ncl {s s' : Sys} {perm : List Name} (h : AllNCl inp pre s)
    (hpop : ∀ t rest, s.toRun = t :: rest → s.cur = none → s.ready = [] → Cl (cutSel inp pre) t)
    (hs : dtick inp s perm = some s') : AllNCl inp pre s' := by
  unfold dtick at hs
  cases hc : s.cur with
  | some n =>
    simp only [hc] at hs
    cases hn : s.nodes n with
    | none => simp only [hn] at hs; cases hs; exact h.of_eq rfl
    | some nd =>
      simp only [hn] at hs
      exact nodeStep_ncl (inp := cutSel inp pre) h hn (by rw [nodeStep_cut]; exact hs)
  | none =>
    simp only [hc] at hs
    cases hrd : s.ready with
    | cons r rs => simp only [hrd] at hs; cases hs; exact h.of_eq rfl
    | nil =>
      simp only [hrd] at hs
      cases htr : s.toRun with
      | nil =>
        simp only [htr] at hs
        split at hs
        · split at hs <;> (cases hs; exact h.of_eq rfl)
        · cases hs; exact h.of_eq rfl
      | cons t ts =>
        simp only [htr] at hs
        cases ht : s.nodes t with
        | none =>
          simp only [ht] at hs; cases hs
          have hcl := hpop t ts htr hc hrd
          have : AllNCl inp pre (setNode s t (mkNode inp t [t])) :=
            ncl_setNode h (mkNode_ncl (inp := cutSel inp pre) [t] hcl)
          exact this.of_eq rfl
        | some x => simp only [ht] at hs; cases hs; exact h.of_eq rfl

/-- the runner sets the status of node `n` -/
theorem status_ncl {s s' : Sys} {n : Name} {nd : Node} (st' : RS) (h : AllNCl inp pre s) (hn : s.nodes n = some nd)
    (hrun : st' = .run → nd.status = .run ∨ MayRun inp n)
    (e : s'.nodes = (setNode s n { nd with status := st' }).nodes) : AllNCl inp pre s' := by
  have hnd := h n nd hn
  have hx : NCl (cutSel inp pre) n { nd with status := st' } :=
    ⟨hnd.self, hnd.dt, hnd.dc, hnd.pt, hnd.pcalc, hnd.st, hnd.sc, hnd.pcl, fun a => by
      rcases hrun a with b | b
      · exact hnd.run b
      · exact b⟩
  exact AllNCl.of_eq (ncl_setNode h hx) e

theorem serialStep_ncl {s s' : Sys} {perm : List Name} (h : AllNCl inp pre s)
    (hpop : ∀ t rest, s.toRun = t :: rest → s.rpc = .sWait → s.susp = none → s.cur = none → s.ready = [] →
      Cl (cutSel inp pre) t)
    (hs : serialStep inp s perm = some s') : AllNCl inp pre s' := by
  unfold serialStep at hs
  cases hr : s.rpc with
  | sTop node =>
    simp only [hr] at hs
    split at hs
    · cases hs; exact h.of_eq rfl
    · cases hsd : send inp s node perm with
      | none => simp only [hsd] at hs; cases hs
      | some s0 => simp only [hsd] at hs; cases hs; exact (send_ncl h hsd).of_eq rfl
  | sWait =>
    simp only [hr] at hs
    cases hsu : s.susp with
    | none =>
      simp only [hsu] at hs
      exact dtick_ncl h (fun t rest a b c => hpop t rest a hr hsu b c) hs
    | some o =>
      simp only [hsu] at hs
      cases o with
      | init => cases hs
      | node n =>
        simp only [] at hs
        cases hn : s.nodes n with
        | none => simp only [hn] at hs; cases hs; exact h.of_eq rfl
        | some nd =>
          simp only [hn] at hs
          have key : ∀ (d : Sel), selDecision inp n nd = d → d ≠ .assertFail →
              AllNCl inp pre (applySel inp s n nd d) := by
            intro d hd h1
            refine status_ncl (selStatus d) h hn ?_ (applySel_nodes inp s n nd d h1)
            intro e
            by_cases hst : nd.status = .run
            · exact Or.inl hst
            · exact Or.inr (sel_mayRun hst (by rw [hd]; exact e))
          cases hd : selDecision inp n nd with
          | go => simp only [hd] at hs; cases hs; exact (key _ hd (by simp)).of_eq rfl
          | assertFail => simp only [hd] at hs; cases hs; exact h.of_eq rfl
          | skipIgn => simp only [hd] at hs; cases hs; exact (key _ hd (by simp)).of_eq rfl
          | unmet => simp only [hd] at hs; cases hs; exact (key _ hd (by simp)).of_eq rfl
          | depErr => simp only [hd] at hs; cases hs; exact (key _ hd (by simp)).of_eq rfl
          | utd => simp only [hd] at hs; cases hs; exact (key _ hd (by simp)).of_eq rfl
          | runFirst => simp only [hd] at hs; cases hs; exact (key _ hd (by simp)).of_eq rfl
          | argsErr => simp only [hd] at hs; cases hs; exact (key _ hd (by simp)).of_eq rfl
      | stopIter => cases hs; exact h.of_eq rfl
      | holdOn => cases hs; exact h.of_eq rfl
      | cyclic n => cases hs; exact h.of_eq rfl
      | crash => cases hs; exact h.of_eq rfl
  | sExec n =>
    simp only [hr] at hs
    cases hn : s.nodes n with
    | none => simp only [hn] at hs; cases hs; exact h.of_eq rfl
    | some nd =>
      simp only [hn] at hs; cases hs
      refine status_ncl (resStatus (inp.outcome n)) h hn ?_ (processResult_nodes inp _ n nd)
      intro e; cases ho : inp.outcome n <;> simp [ho, resStatus] at e
  | fin => simp only [hr] at hs; cases hs; exact h.of_eq rfl
  | gEntry a b => simp only [hr] at hs; cases hs
  | gLoop a b => simp only [hr] at hs; cases hs
  | gWait a => simp only [hr] at hs; cases hs
  | gRet a b => simp only [hr] at hs; cases hs
  | pTop => simp only [hr] at hs; cases hs
  | pJoin => simp only [hr] at hs; cases hs
  | halted => simp only [hr] at hs; cases hs

end DoitModel.Run
