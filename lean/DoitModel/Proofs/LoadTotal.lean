import DoitModel.Proofs.LoadDict
import DoitModel.Proofs.LoadControl
/-! loading never raises anything but InvalidTask / InvalidDodoFile: lifting the dict-level lemmas through the loader -/
namespace DoitModel.Load

theorem fromReturn_no_crash (fn : Name) (d : TDict) (e : Exn) : fromReturn fn d ≠ .error (.crash e) := by
  unfold fromReturn
  split
  · simp
  · exact dictToTask_no_crash _ e

theorem groupTask_no_crash (b : Name) (deps : List Name) (e : Exn) : groupTask b deps ≠ .error (.crash e) := by
  unfold groupTask
  split <;> simp

theorem attachSub_no_crash (tasks : Tasks) (b full : Name) (sub : Task) (e : Exn) :
    attachSub tasks b full sub ≠ .error (.crash e) := by
  unfold attachSub
  split
  · split <;> simp
  · split
    · rename_i e' hg
      intro h; cases h
      exact absurd hg (groupTask_no_crash _ _ _)
    · simp

theorem afterSub_crash (tasks : Tasks) (base : RawVal) (full : Name) (sub : Task) (e : Exn)
    (h : afterSub tasks base full sub = .error (.crash e)) : base.hashable = false := by
  unfold afterSub at h
  split at h
  · exact absurd h (attachSub_no_crash _ _ _ _ _)
  · split at h
    · rename_i hh; simpa using hh
    · simp at h

theorem yieldSub_crash (tasks : Tasks) (d0 : TDict) (base nv : RawVal) (nf bf : Name) (e : Exn)
    (h : yieldSub tasks d0 base nv nf bf = .error (.crash e)) : base.hashable = false := by
  unfold yieldSub at h
  split at h
  · simp at h
  · split at h
    · rename_i e' hd
      cases h
      exact absurd hd (dictToTask_no_crash _ e)
    · exact afterSub_crash _ _ _ _ e h

theorem yieldGroupAttrs_no_crash (tasks : Tasks) (d0 : TDict) (base : RawVal) (e : Exn) :
    yieldGroupAttrs tasks d0 base ≠ .error (.crash e) := by
  intro h
  unfold yieldGroupAttrs at h
  split at h
  · rename_i e' hd
    cases h
    exact absurd hd (dictToTask_no_crash _ e)
  · split at h
    · simp at h
    · split at h <;> simp at h

theorem yieldPlain_crash (tasks : Tasks) (d0 : TDict) (bn : RawVal) (e : Exn)
    (h : yieldPlain tasks d0 bn = .error (.crash e)) : bn.hashable = false := by
  unfold yieldPlain at h
  split at h
  · simp at h
  · split at h
    · rename_i hh; simpa using hh
    · split at h
      · split at h
        · simp at h
        · split at h
          · rename_i e' hd
            cases h
            exact absurd hd (dictToTask_no_crash _ e)
          · simp at h
      · split at h
        · rename_i e' hd
          cases h
          exact absurd hd (dictToTask_no_crash _ e)
        · simp at h

/-- once `basename` has passed `check_attr` it is absent or a string -/
theorem basenameOk_cases (d : TDict) (h : basenameOk d = true) : bnOf d = .none ∨ ∃ s, bnOf d = .str s := by
  unfold basenameOk at h
  unfold bnOf
  cases hg : get d .basename with
  | none => left; rfl
  | some v =>
    rw [hg] at h
    have hv : validAttr .basename = some ([.str], []) := by decide
    simp only [hv] at h
    right
    cases v <;> simp_all [checkAttr, RawVal.isInstance]

theorem bnOf_hashable (d : TDict) (h : basenameOk d = true) : (bnOf d).hashable = true := by
  rcases basenameOk_cases d h with h1 | ⟨s, h1⟩ <;> rw [h1] <;> rfl

theorem baseOf_hashable (fn : Name) (d : TDict) (h : basenameOk d = true) : (baseOf fn d).hashable = true := by
  unfold baseOf
  split
  · exact bnOf_hashable d h
  · rfl

theorem yieldDict_no_crash (tasks : Tasks) (fn : Name) (d : TDict) (nf bf : Name) (e : Exn) :
    yieldDict tasks fn d nf bf ≠ .error (.crash e) := by
  intro h
  unfold yieldDict at h
  split at h
  · simp at h
  · rename_i hok
    have hok' : basenameOk d = true := by simpa using hok
    unfold yieldDictPinned at h
    split at h
    · split at h
      · exact yieldGroupAttrs_no_crash _ _ _ e h
      · have := yieldSub_crash _ _ _ _ _ _ e h
        rw [baseOf_hashable fn d hok'] at this
        cases this
    · have := yieldPlain_crash _ _ _ e h
      rw [bnOf_hashable d hok'] at this
      cases this

theorem yieldAll_no_crash (fn : Name) (ys : List Yielded) (tasks : Tasks) (e : Exn) :
    yieldAll fn tasks ys ≠ .error (.crash e) := by
  induction ys generalizing tasks with
  | nil => simp [yieldAll]
  | cons y rest ih =>
    intro h
    unfold yieldAll at h
    cases hy : yieldOne fn tasks y with
    | error e' =>
      rw [hy] at h; simp only at h; cases h
      cases y with
      | other => simp [yieldOne] at hy
      | task t => simp only [yieldOne] at hy; split at hy <;> simp at hy
      | dict d nf bf => exact yieldDict_no_crash tasks fn d nf bf e hy
    | ok tasks' =>
      rw [hy] at h; simp only at h
      exact ih tasks' h

theorem generate_no_crash (fn : Name) (r : Result) (e : Exn) : generate fn r ≠ .error (.crash e) := by
  intro h
  cases r with
  | task t => simp [generate] at h
  | none => simp [generate] at h
  | other => simp [generate] at h
  | dict d =>
    simp only [generate] at h
    split at h
    · rename_i e' hd; cases h
      exact fromReturn_no_crash fn d e hd
    · simp at h
  | gen items =>
    simp only [generate] at h
    split at h
    · rename_i e' hy; cases h
      exact yieldAll_no_crash fn _ [] e hy
    · split at h
      · rename_i e' hg; cases h
        exact absurd hg (groupTask_no_crash _ _ _)
      · simp at h
    · simp at h

theorem generateAll_no_crash (cmds : List Name) (cs : List Creator) (e : Exn) :
    generateAll cmds cs ≠ .error (.crash e) := by
  induction cs with
  | nil => simp [generateAll]
  | cons c rest ih =>
    intro h
    unfold generateAll at h
    split at h
    · rename_i e' hg; cases h
      exact generate_no_crash _ _ e hg
    · split at h
      · simp at h
      · split at h
        · rename_i e' hr; cases h
          exact ih hr
        · simp at h

theorem mem_insertByLine (c x : Creator) (l : List Creator) : x ∈ insertByLine c l ↔ x = c ∨ x ∈ l := by
  induction l with
  | nil => simp [insertByLine]
  | cons y ys ih =>
    unfold insertByLine
    split
    · simp
    · simp [ih]; constructor
      · rintro (h | h | h) <;> simp [h]
      · rintro (h | h | h) <;> simp [h]

theorem mem_sortByLine (cs : List Creator) (x : Creator) : x ∈ sortByLine cs ↔ x ∈ cs := by
  unfold sortByLine
  suffices ∀ acc, x ∈ cs.foldl (fun acc c => insertByLine c acc) acc ↔ x ∈ acc ∨ x ∈ cs by simpa using this []
  induction cs with
  | nil => simp
  | cons c rest ih =>
    intro acc
    simp only [List.foldl_cons, ih, mem_insertByLine, List.mem_cons]
    constructor
    · rintro ((h | h) | h) <;> simp [h]
    · rintro (h | h | h) <;> simp [h]

theorem control_no_crash (ts : List Task) (e : Exn) : control ts ≠ .error (.crash e) := by
  unfold control
  simp only
  split
  · simp
  · split
    · simp
    · split <;> simp

theorem load_no_crash (cmds : List Name) (cs : List Creator) (e : Exn) : load cmds cs ≠ .crash e := by
  intro h
  unfold load at h
  cases hl : loadTasks cmds cs with
  | error e' =>
    rw [hl] at h
    cases e' with
    | invalidTask => simp [toOutcome] at h
    | invalidDodo => simp [toOutcome] at h
    | crash e'' =>
      unfold loadTasks at hl
      split at hl
      · simp at hl
      · exact generateAll_no_crash _ _ e'' hl
  | ok ts =>
    rw [hl] at h
    simp only at h
    cases hc : control ts with
    | ok ts' => rw [hc] at h; simp [toOutcome] at h
    | error e' =>
      rw [hc] at h
      cases e' with
      | invalidTask => simp [toOutcome] at h
      | invalidDodo => simp [toOutcome] at h
      | crash e'' => exact absurd hc (control_no_crash ts e'')

end DoitModel.Load
