import DoitModel.Proofs.LoadDict
import DoitModel.Proofs.LoadControl
/-! where an internal exception (`Err.crash`) can come from: lifting the dict-level lemmas through the loader -/
namespace DoitModel.Load

theorem initSafe_false_of (d : TDict) (h : cleanBad (get d .clean) = true ∨ tupleExtend d = true) :
    initSafe d = false := by
  unfold initSafe
  rcases h with h | h <;> simp [h]

/-- dictionaries that agree on `clean`, `getargs`, `uptodate` are equally (un)safe -/
theorem initSafe_congr (d d' : TDict) (h1 : get d' .clean = get d .clean) (h2 : get d' .getargs = get d .getargs)
    (h3 : get d' .uptodate = get d .uptodate) : initSafe d' = initSafe d := by
  unfold initSafe tupleExtend
  rw [h1, h2, h3]

theorem initSafe_named (d : TDict) (v : RawVal) :
    initSafe (put (del d .basename) .name v) = initSafe d := by
  apply initSafe_congr
  · rw [get_put_ne _ _ _ _ (by decide), get_del_ne _ _ _ (by decide)]
  · rw [get_put_ne _ _ _ _ (by decide), get_del_ne _ _ _ (by decide)]
  · rw [get_put_ne _ _ _ _ (by decide), get_del_ne _ _ _ (by decide)]

theorem initSafe_group (d : TDict) (v w : RawVal) :
    initSafe (put (put (del d .basename) .name v) .actions w) = initSafe d := by
  apply initSafe_congr
  · rw [get_put_ne _ _ _ _ (by decide), get_put_ne _ _ _ _ (by decide), get_del_ne _ _ _ (by decide)]
  · rw [get_put_ne _ _ _ _ (by decide), get_put_ne _ _ _ _ (by decide), get_del_ne _ _ _ (by decide)]
  · rw [get_put_ne _ _ _ _ (by decide), get_put_ne _ _ _ _ (by decide), get_del_ne _ _ _ (by decide)]

theorem fromReturn_crash (fn : Name) (d : TDict) (e : Exn) (h : fromReturn fn d = .error (.crash e)) :
    initSafe d = false := by
  unfold fromReturn at h
  split at h
  · simp at h
  · rw [← initSafe_named d ((get d .basename).getD (.str fn))]
    exact initSafe_false_of _ (dictToTask_crash _ e h)

theorem groupTask_no_crash (b : Name) (deps : List Name) (e : Exn) : groupTask b deps ≠ .error (.crash e) := by
  unfold groupTask
  split <;> simp

theorem attachSub_no_crash (tasks : Tasks) (b full : Name) (sub : Task) (e : Exn) :
    attachSub tasks b full sub ≠ .error (.crash e) := by
  unfold attachSub
  split
  · split <;> simp
  · split
    · rename_i e' hg
      intro h; cases h
      exact absurd hg (groupTask_no_crash _ _ _)
    · simp

theorem afterSub_crash (tasks : Tasks) (base : RawVal) (full : Name) (sub : Task) (e : Exn)
    (h : afterSub tasks base full sub = .error (.crash e)) : base.hashable = false := by
  unfold afterSub at h
  split at h
  · exact absurd h (attachSub_no_crash _ _ _ _ _)
  · split at h
    · rename_i hh; simpa using hh
    · simp at h

theorem yieldSub_crash (tasks : Tasks) (d : TDict) (base nv : RawVal) (nf bf : Name) (e : Exn)
    (h : yieldSub tasks (del d .basename) base nv nf bf = .error (.crash e)) :
    initSafe d = false ∨ (base.hashable = false) := by
  unfold yieldSub at h
  split at h
  · simp at h
  · split at h
    · rename_i e' hd
      cases h
      left
      rw [← initSafe_named d]
      exact initSafe_false_of _ (dictToTask_crash _ e hd)
    · exact Or.inr (afterSub_crash _ _ _ _ e h)

theorem yieldGroupAttrs_crash (tasks : Tasks) (d : TDict) (base : RawVal) (e : Exn)
    (h : yieldGroupAttrs tasks (del d .basename) base = .error (.crash e)) : initSafe d = false := by
  unfold yieldGroupAttrs at h
  split at h
  · rename_i e' hd
    cases h
    rw [← initSafe_group d]
    exact initSafe_false_of _ (dictToTask_crash _ e hd)
  · simp at h

theorem yieldPlain_crash (tasks : Tasks) (d : TDict) (bn : RawVal) (e : Exn)
    (h : yieldPlain tasks (del d .basename) bn = .error (.crash e)) :
    initSafe d = false ∨ (bn.truthy = true ∧ bn.hashable = false) := by
  unfold yieldPlain at h
  split at h
  · simp at h
  · rename_i ht
    split at h
    · rename_i hh
      right
      exact ⟨by simpa using ht, by simpa using hh⟩
    · split at h
      · split at h
        · simp at h
        · split at h
          · rename_i e' hd
            cases h
            left
            rw [← initSafe_named d]
            exact initSafe_false_of _ (dictToTask_crash _ e hd)
          · simp at h
      · split at h
        · rename_i e' hd
          cases h
          left
          rw [← initSafe_named d]
          exact initSafe_false_of _ (dictToTask_crash _ e hd)
        · simp at h

theorem yieldDict_crash (tasks : Tasks) (fn : Name) (d : TDict) (nf bf : Name) (e : Exn)
    (h : yieldDict tasks fn d nf bf = .error (.crash e)) :
    initSafe d = false ∨ basenameBad d = true := by
  unfold yieldDict at h
  split at h
  · rename_i nv hnv
    split at h
    · exact Or.inl (yieldGroupAttrs_crash _ _ _ e h)
    · rcases yieldSub_crash tasks d _ nv nf bf e h with h1 | h1
      · exact Or.inl h1
      · right
        unfold basenameBad
        unfold baseOf at h1
        by_cases ht : (bnOf d).truthy = true
        · simp only [ht, if_true] at h1
          simp [ht, h1]
        · simp only [ht, Bool.false_eq_true, if_false] at h1
          simp [RawVal.hashable] at h1
  · rcases yieldPlain_crash tasks d _ e h with h1 | ⟨h1, h2⟩
    · exact Or.inl h1
    · right; simp [basenameBad, h1, h2]

theorem yieldAll_crash (fn : Name) (ys : List Yielded) (tasks : Tasks) (e : Exn)
    (h : yieldAll fn tasks ys = .error (.crash e)) :
    ∃ d ∈ yieldedDicts ys, initSafe d = false ∨ basenameBad d = true := by
  induction ys generalizing tasks with
  | nil => simp [yieldAll] at h
  | cons y rest ih =>
    unfold yieldAll at h
    cases hy : yieldOne fn tasks y with
    | error e' =>
      rw [hy] at h; simp only at h; cases h
      cases y with
      | other => simp [yieldOne] at hy
      | task t => simp [yieldOne] at hy
      | dict d nf bf =>
        exact ⟨d, by simp [yieldedDicts], yieldDict_crash tasks fn d nf bf e hy⟩
    | ok tasks' =>
      rw [hy] at h; simp only at h
      obtain ⟨d, hd, hbad⟩ := ih tasks' h
      refine ⟨d, ?_, hbad⟩
      cases y <;> simp [yieldedDicts, hd]

theorem generate_crash (fn : Name) (r : Result) (e : Exn) (h : generate fn r = .error (.crash e)) :
    resultSafe r = false := by
  cases r with
  | task t => simp [generate] at h
  | none => simp [generate] at h
  | other => simp [generate] at h
  | dict d =>
    simp only [generate] at h
    split at h
    · rename_i e' hd; cases h
      simpa [resultSafe] using fromReturn_crash fn d e hd
    · simp at h
  | gen items =>
    simp only [generate] at h
    split at h
    · rename_i e' hy; cases h
      obtain ⟨d, hd, hbad⟩ := yieldAll_crash fn _ [] e hy
      cases hS : resultSafe (.gen items) with
      | false => rfl
      | true =>
        exfalso
        have hall : ∀ x ∈ yieldedDicts (Gen.flattenList items), initSafe x = true ∧ basenameBad x = false := by
          simpa [resultSafe] using hS
        have := hall d hd
        rcases hbad with hb | hb <;> simp [hb] at this
    · split at h
      · rename_i e' hg; cases h
        exact absurd hg (groupTask_no_crash _ _ _)
      · simp at h
    · simp at h

theorem generateAll_crash (cs : List Creator) (e : Exn) (h : generateAll cs = .error (.crash e)) :
    ∃ c ∈ cs, resultSafe c.result = false := by
  induction cs with
  | nil => simp [generateAll] at h
  | cons c rest ih =>
    unfold generateAll at h
    split at h
    · rename_i e' hg; cases h
      exact ⟨c, by simp, generate_crash _ _ e hg⟩
    · split at h
      · rename_i e' hr; cases h
        obtain ⟨c', hc', hbad⟩ := ih hr
        exact ⟨c', by simp [hc'], hbad⟩
      · simp at h

theorem mem_insertByLine (c x : Creator) (l : List Creator) : x ∈ insertByLine c l ↔ x = c ∨ x ∈ l := by
  induction l with
  | nil => simp [insertByLine]
  | cons y ys ih =>
    unfold insertByLine
    split
    · simp
    · simp [ih]; constructor
      · rintro (h | h | h) <;> simp [h]
      · rintro (h | h | h) <;> simp [h]

theorem mem_sortByLine (cs : List Creator) (x : Creator) : x ∈ sortByLine cs ↔ x ∈ cs := by
  unfold sortByLine
  suffices ∀ acc, x ∈ cs.foldl (fun acc c => insertByLine c acc) acc ↔ x ∈ acc ∨ x ∈ cs by simpa using this []
  induction cs with
  | nil => simp
  | cons c rest ih =>
    intro acc
    simp only [List.foldl_cons, ih, mem_insertByLine, List.mem_cons]
    constructor
    · rintro ((h | h) | h) <;> simp [h]
    · rintro (h | h | h) <;> simp [h]

theorem control_no_crash (ts : List Task) (e : Exn) : control ts ≠ .error (.crash e) := by
  unfold control
  simp only
  split
  · simp
  · split
    · simp
    · split <;> simp

theorem load_crash (cmds : List Name) (cs : List Creator) (e : Exn) (h : load cmds cs = .crash e) :
    Safe cs = false := by
  unfold load at h
  cases hl : loadTasks cmds cs with
  | error e' =>
    rw [hl] at h
    cases e' with
    | invalidTask => simp [toOutcome] at h
    | invalidDodo => simp [toOutcome] at h
    | crash e'' =>
      unfold loadTasks at hl
      split at hl
      · simp at hl
      · obtain ⟨c, hc, hbad⟩ := generateAll_crash _ e'' hl
        rw [mem_sortByLine] at hc
        cases hS : Safe cs with
        | false => rfl
        | true =>
          exfalso
          have := List.all_eq_true.mp (by simpa [Safe] using hS) c hc
          simp [hbad] at this
  | ok ts =>
    rw [hl] at h
    simp only at h
    cases hc : control ts with
    | ok ts' => rw [hc] at h; simp [toOutcome] at h
    | error e' =>
      rw [hc] at h
      cases e' with
      | invalidTask => simp [toOutcome] at h
      | invalidDodo => simp [toOutcome] at h
      | crash e'' => exact absurd hc (control_no_crash ts e'')

end DoitModel.Load
