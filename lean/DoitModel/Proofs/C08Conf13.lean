import DoitModel.Proofs.C08Conf9
import DoitModel.Proofs.C08Conf8
/-! # C08 (I10): the executable closure `denClosure` against the inductive closure `DenCl` — sound on acyclic graphs;
    complete whenever the computed list is stable under one more round (a decidable check) -/
namespace DoitModel.Run

def addAll (ds acc : List Name) : List Name := ds.foldl (fun a d => if d ∈ a then a else a ++ [d]) acc

theorem mem_addAll (x : Name) : ∀ (ds acc : List Name), x ∈ addAll ds acc ↔ x ∈ acc ∨ x ∈ ds := by
  intro ds
  induction ds with
  | nil => intro acc; simp [addAll]
  | cons d t ih =>
    intro acc
    show x ∈ addAll t (if d ∈ acc then acc else acc ++ [d]) ↔ _
    rw [ih]
    by_cases h : d ∈ acc
    · simp only [h, if_true, List.mem_cons]
      constructor
      · rintro (a | a)
        · exact Or.inl a
        · exact Or.inr (Or.inr a)
      · rintro (a | a | a)
        · exact Or.inl a
        · subst a; exact Or.inl h
        · exact Or.inr a
    · simp only [h, if_false, List.mem_append, List.mem_cons, List.not_mem_nil, or_false]
      constructor
      · rintro ((a | a) | a)
        · exact Or.inl a
        · exact Or.inr (Or.inl a)
        · exact Or.inr (Or.inr a)
      · rintro (a | a | a)
        · exact Or.inl (Or.inl a)
        · exact Or.inl (Or.inr a)
        · exact Or.inr a

/-- one member's contribution to a closure round -/
def closeStep (inp : RunInput) (fuel : Nat) (acc : List Name) (t : Name) : List Name :=
  if stage1 inp (denF inp fuel) t = .run then addAll (inp.setup t) (addAll (inp.taskDep t) acc)
  else addAll (inp.taskDep t) acc

theorem denCloseOnce_eq (inp : RunInput) (fuel : Nat) (cl : List Name) :
    denCloseOnce inp fuel cl = cl.foldl (closeStep inp fuel) cl := rfl

theorem mem_closeStep (inp : RunInput) (fuel : Nat) (acc : List Name) (t x : Name) :
    x ∈ closeStep inp fuel acc t ↔
      x ∈ acc ∨ x ∈ inp.taskDep t ∨ (stage1 inp (denF inp fuel) t = .run ∧ x ∈ inp.setup t) := by
  unfold closeStep
  split
  · rename_i h
    rw [mem_addAll, mem_addAll]
    constructor
    · rintro ((a | a) | a)
      · exact Or.inl a
      · exact Or.inr (Or.inl a)
      · exact Or.inr (Or.inr ⟨h, a⟩)
    · rintro (a | a | ⟨_, a⟩)
      · exact Or.inl (Or.inl a)
      · exact Or.inl (Or.inr a)
      · exact Or.inr a
  · rename_i h
    rw [mem_addAll]
    constructor
    · rintro (a | a)
      · exact Or.inl a
      · exact Or.inr (Or.inl a)
    · rintro (a | a | ⟨b, _⟩)
      · exact Or.inl a
      · exact Or.inr a
      · exact absurd b h

theorem mem_foldl_closeStep (inp : RunInput) (fuel : Nat) (x : Name) : ∀ (L acc : List Name),
    x ∈ L.foldl (closeStep inp fuel) acc ↔
      x ∈ acc ∨ ∃ t ∈ L, x ∈ inp.taskDep t ∨ (stage1 inp (denF inp fuel) t = .run ∧ x ∈ inp.setup t) := by
  intro L
  induction L with
  | nil => intro acc; simp
  | cons a t ih =>
    intro acc
    rw [List.foldl_cons, ih, mem_closeStep]
    constructor
    · rintro ((h | h) | ⟨u, hu, h⟩)
      · exact Or.inl h
      · exact Or.inr ⟨a, by simp, h⟩
      · exact Or.inr ⟨u, by simp [hu], h⟩
    · rintro (h | ⟨u, hu, h⟩)
      · exact Or.inl (Or.inl h)
      · rcases List.mem_cons.mp hu with rfl | hu'
        · exact Or.inl (Or.inr h)
        · exact Or.inr ⟨u, hu', h⟩

theorem mem_denCloseOnce (inp : RunInput) (fuel : Nat) (cl : List Name) (x : Name) :
    x ∈ denCloseOnce inp fuel cl ↔
      x ∈ cl ∨ ∃ t ∈ cl, x ∈ inp.taskDep t ∨ (stage1 inp (denF inp fuel) t = .run ∧ x ∈ inp.setup t) := by
  rw [denCloseOnce_eq]; exact mem_foldl_closeStep inp fuel x cl cl

theorem denCloseIter_mono (inp : RunInput) (fuel : Nat) (x : Name) : ∀ (k : Nat) (cl : List Name),
    x ∈ cl → x ∈ denCloseIter inp fuel k cl := by
  intro k
  induction k with
  | zero => intro cl h; exact h
  | succ k ih => intro cl h; exact ih _ ((mem_denCloseOnce inp fuel cl x).mpr (Or.inl h))

/-- with enough fuel the executable first stage is the denotation's -/
theorem stage1_denF_R1 {inp : RunInput} {r : Name → Nat} (hac : Acyclic inp r) (fuel : Nat) (hb : ∀ t, r t < fuel)
    (t : Name) : stage1 inp (denF inp fuel) t = .run ↔ R1 inp t := by
  constructor
  · intro h; exact ⟨denF inp fuel, fun d _ => denF_is_den hac fuel d (hb d), h⟩
  · rintro ⟨dd, hT, h1⟩
    rw [← h1]
    exact stage1_congr (fun d hd => denF_unique hac (hT d hd) fuel (hb d))

theorem denCloseOnce_sound {inp : RunInput} {r : Name → Nat} (hac : Acyclic inp r) (fuel : Nat)
    (hb : ∀ t, r t < fuel) (cl : List Name) (h : ∀ t ∈ cl, DenCl inp t) :
    ∀ t ∈ denCloseOnce inp fuel cl, DenCl inp t := by
  intro x hx
  rcases (mem_denCloseOnce inp fuel cl x).mp hx with a | ⟨t, ht, a | ⟨a, b⟩⟩
  · exact h x a
  · exact DenCl.ofTask (h t ht) a
  · exact DenCl.ofSetup (h t ht) ((stage1_denF_R1 hac fuel hb t).mp a) b

theorem denCloseIter_sound {inp : RunInput} {r : Name → Nat} (hac : Acyclic inp r) (fuel : Nat)
    (hb : ∀ t, r t < fuel) : ∀ (k : Nat) (cl : List Name), (∀ t ∈ cl, DenCl inp t) →
      ∀ t ∈ denCloseIter inp fuel k cl, DenCl inp t := by
  intro k
  induction k with
  | zero => intro cl h; exact h
  | succ k ih => intro cl h; exact ih _ (denCloseOnce_sound hac fuel hb cl h)

/-- every member of the executable closure is in the denotational closure -/
theorem denClosure_sound {inp : RunInput} {r : Name → Nat} (hac : Acyclic inp r) (nTasks : Nat)
    (hb : ∀ t, r t ≤ nTasks) (t : Name) (h : t ∈ denClosure inp nTasks) : DenCl inp t := by
  unfold denClosure at h
  refine denCloseIter_sound hac (nTasks + 1) (fun t => by have := hb t; omega) _ _ ?_ t h
  intro x hx; exact DenCl.ofSel (mem_dedup.mp hx)

/-- the computed closure is stable under one more round (decidable; a driver checks it by evaluation) -/
def ClosureStable (inp : RunInput) (nTasks : Nat) : Prop :=
  ∀ x ∈ denCloseOnce inp (nTasks + 1) (denClosure inp nTasks), x ∈ denClosure inp nTasks

instance (inp : RunInput) (nTasks : Nat) : Decidable (ClosureStable inp nTasks) := by
  unfold ClosureStable; infer_instance

/-- a stable computed closure contains the denotational closure -/
theorem denClosure_complete {inp : RunInput} {r : Name → Nat} (hac : Acyclic inp r) (nTasks : Nat)
    (hb : ∀ t, r t ≤ nTasks) (hst : ClosureStable inp nTasks) (t : Name) (h : DenCl inp t) :
    t ∈ denClosure inp nTasks := by
  have hb' : ∀ t, r t < nTasks + 1 := fun t => by have := hb t; omega
  induction h with
  | ofSel hm => exact denCloseIter_mono inp _ _ _ _ (mem_dedup.mpr hm)
  | @ofTask t d _ hd ih =>
    exact hst d ((mem_denCloseOnce inp _ _ d).mpr (Or.inr ⟨t, ih, Or.inl hd⟩))
  | @ofSetup t d _ hr hd ih =>
    exact hst d ((mem_denCloseOnce inp _ _ d).mpr
      (Or.inr ⟨t, ih, Or.inr ⟨(stage1_denF_R1 hac _ hb' t).mpr hr, hd⟩⟩))

end DoitModel.Run
