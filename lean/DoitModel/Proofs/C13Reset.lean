import DoitModel.Model.Cmds
import DoitModel.Proofs.StatusDecision
/-! # C13 — `reset-dep` on one task: what is recorded, what is kept -/
namespace DoitModel.Cmds
open DoitModel.Status

theorem checkModified_stateOf_same (c : Checker) (cur : FMeta) : checkModified c (stateOf c cur) cur = .same := by
  cases c <;> simp [stateOf, checkModified]

theorem sameSet_refl (l : List Path) : sameSet l l = true := by
  simp [sameSet]

/-- a record in which every dependency's saved state judges the present file unmodified, written by the configured
    checker for exactly this dependency set, passes everything `get_status` reads after its early exits -/
theorem lateOk_of (c : Checker) (d : TaskDef) (r : Rcd) (fs : FS) (hck : r.checker = some c) (hdeps : r.deps = some d.deps)
    (hrec : d.deps.all (depRecorded c r fs) = true) : lateOk c d r fs = true := by
  have h1 : checkerChanged c r = false := by simp [checkerChanged, hck]
  have h3 : depsChanged true r d.deps = false := by simp [depsChanged, hdeps, sameSet_refl]
  have h2 : fileVerdict c r fs d.deps = .upToDate := by
    rw [fileVerdict_upToDate_iff]
    intro p hp
    have := List.all_eq_true.1 hrec p hp
    unfold depRecorded at this
    cases hf : fs p with
    | none => cases hr : r.fstate p <;> simp [hf, hr] at this
    | some cur =>
      cases hr : r.fstate p with
      | none => simp [hf, hr] at this
      | some st =>
        simp only [hf, hr, beq_iff_eq] at this
        exact ⟨cur, rfl, by simp [depVerdict, hr, this, notSaved, hdeps, hp]⟩
  simp [lateOk, h1, h2, h3]

/-- up-to-date ⇒ the record already has the property -/
theorem recorded_of_upToDate (c : Checker) (d : TaskDef) (r : Rcd) (fs : FS) (resOf : Name → Option Res)
    (h : statusOf true c d r fs resOf = .upToDate) :
    d.deps.all (depRecorded c r fs) = true ∧ lateOk c d r fs = true := by
  unfold statusOf at h
  split at h
  · cases h
  · split at h
    · cases h
    · rename_i hcc
      cases hfv : fileVerdict c r fs d.deps with
      | error => simp [hfv] at h
      | crash => simp [hfv] at h
      | run => simp [hfv] at h
      | upToDate =>
        simp only [hfv] at h
        split at h
        · cases h
        · rename_i hdc
          refine ⟨?_, by simp [lateOk, hcc, hfv, hdc]⟩
          rw [fileVerdict_upToDate_iff] at hfv
          apply List.all_eq_true.2
          intro p hp
          obtain ⟨cur, hcur, hv⟩ := hfv p hp
          unfold depVerdict at hv
          unfold depRecorded
          cases hr : r.fstate p with
          | none => simp [hr] at hv
          | some st =>
            simp only [hr] at hv
            split at hv
            · cases hv
            · simp [hcur, hv]

theorem statusOf_error_missing (c : Checker) (d : TaskDef) (r : Rcd) (fs : FS) (resOf : Name → Option Res)
    (h : statusOf true c d r fs resOf = .error) : d.deps.any (depMissing fs) = true := by
  unfold statusOf at h
  split at h
  · cases h
  · split at h
    · cases h
    · cases hfv : fileVerdict c r fs d.deps with
      | error =>
        unfold fileVerdict at hfv
        split at hfv
        · assumption
        · split at hfv
          · cases hfv
          · split at hfv <;> cases hfv
      | crash => simp [hfv] at h
      | run => simp [hfv] at h
      | upToDate => simp only [hfv] at h; split at h <;> cases h

/-- the per-file state `save_success` leaves judges the present file unmodified (equal-mtime shortcut included) -/
theorem savedState_recorded (c : Checker) (r0 : Rcd) (fs : FS) (p : Path) (cur : FMeta) (hcur : fs p = some cur)
    (hnc : saveCrashAt c r0 fs p = false) :
    ∃ st, savedState c r0 fs p = some st ∧ checkModified c st cur = .same := by
  unfold savedState
  unfold saveCrashAt at hnc
  simp only [hcur] at hnc ⊢
  cases hg : getState c cur (r0.fstate p) with
  | crash => simp [hg] at hnc
  | new st =>
    refine ⟨st, rfl, ?_⟩
    -- every `new` state is `stateOf c cur`
    have : st = stateOf c cur := by
      unfold getState at hg
      split at hg
      · split at hg
        · cases hg
        · injection hg with hg; exact hg.symm
      · split at hg
        · injection hg with hg; exact hg.symm
        · cases hg
      · injection hg with hg; exact hg.symm
      · injection hg with hg; exact hg.symm
    rw [this]; exact checkModified_stateOf_same c cur
  | keep =>
    -- only md5 with an equal mtime keeps
    unfold getState at hg
    split at hg
    · rename_i m sz cid hf
      split at hg
      · rename_i hm
        refine ⟨.md5 m sz cid, hf, ?_⟩
        simp [checkModified, hm]
      · cases hg
    · split at hg <;> cases hg
    · cases hg
    · cases hg

theorem peek_rcd_result (s : St) (t : Name) (h : (s.rcd t).result = none) : ((peek s t).rcd t).result = none := by
  unfold peek; split
  · simp [erase, Rcd.empty]
  · exact h

theorem resetDep_frame (s : St) (t k : Name) (hk : k ≠ t) :
    (resetDep true s t).rcd k = s.rcd k := by
  unfold resetDep
  split
  · rfl
  · cases s.status true t with
    | crash => rfl
    | error => rfl
    | upToDate => rfl
    | run =>
      simp only
      split <;> simp [commit, hk]

theorem resetDep_fs (s : St) (t : Name) :
    (resetDep true s t).fs = s.fs ∧ (resetDep true s t).defs = s.defs ∧ (resetDep true s t).checker = s.checker := by
  unfold resetDep
  split
  · exact ⟨rfl, rfl, rfl⟩
  · cases s.status true t with
    | crash => exact ⟨rfl, rfl, rfl⟩
    | error => exact ⟨rfl, rfl, rfl⟩
    | upToDate => exact ⟨rfl, rfl, rfl⟩
    | run =>
      simp only
      split <;> exact ⟨rfl, rfl, rfl⟩

/-- `reset-dep` of a task with a missing file dependency records nothing -/
theorem resetDep_missing (s : St) (t : Name) (h : (s.defs t).deps.any (depMissing s.fs) = true) :
    resetDep true s t = s := by
  unfold resetDep; simp [h]

/-- `reset-dep` of a task whose file dependencies are all present (and no `TypeError` of a checker on a state of the
    other checker's shape): the record afterwards judges every dependency unmodified, passes every test of
    `get_status` that reads the record, and values and result are the old ones -/
theorem resetDep_present (s : St) (t : Name) (hm : (s.defs t).deps.any (depMissing s.fs) = false)
    (hc0 : s.crashed = false) (hc1 : (resetDep true s t).crashed = false) :
    resetRecOk s.checker (s.defs t) (s.rcd t) ((resetDep true s t).rcd t) s.fs = true ∧
    lateOk s.checker (s.defs t) ((resetDep true s t).rcd t) s.fs = true := by
  unfold resetDep at hc1 ⊢
  simp only [hm, Bool.false_eq_true, if_false] at hc1 ⊢
  cases hst : s.status true t with
  | crash => simp [hst] at hc1
  | error =>
    have := statusOf_error_missing _ _ _ _ _ hst
    rw [hm] at this; cases this
  | upToDate =>
    simp only
    obtain ⟨h1, h2⟩ := recorded_of_upToDate _ _ _ _ _ hst
    exact ⟨by simp [resetRecOk, h1], h2⟩
  | run =>
    simp only [hst] at hc1 ⊢
    cases hs : saveSuccess s.checker (s.defs t).deps ((peek s t).rcd t) s.fs (s.rcd t).getValues (s.rcd t).result with
    | crash => simp [hs, hc0] at hc1
    | missing =>
      unfold saveSuccess at hs
      simp [hm] at hs
      split at hs <;> cases hs
    | ok r =>
      simp only [commit, if_true]
      unfold saveSuccess at hs
      simp only [hm, Bool.false_eq_true, if_false] at hs
      split at hs
      · cases hs
      · rename_i hnc
        injection hs with hs
        subst hs
        have hrec : (s.defs t).deps.all (depRecorded s.checker
            { values := some (s.rcd t).getValues
              result := (s.rcd t).result.orElse fun _ => ((peek s t).rcd t).result
              checker := some s.checker
              deps := some (s.defs t).deps
              fstate := fun p => if p ∈ (s.defs t).deps then savedState s.checker ((peek s t).rcd t) s.fs p
                                 else ((peek s t).rcd t).fstate p
              ign := ((peek s t).rcd t).ign } s.fs) = true := by
          apply List.all_eq_true.2
          intro p hp
          have hpm := any_false_of hm hp
          have hpc := any_false_of (by simpa using hnc) hp
          unfold depMissing at hpm
          cases hf : s.fs p with
          | none => simp [hf] at hpm
          | some cur =>
            obtain ⟨st, hst', hsame⟩ := savedState_recorded s.checker ((peek s t).rcd t) s.fs p cur hf hpc
            simp [depRecorded, hp, hst', hf, hsame]
        refine ⟨?_, lateOk_of _ _ _ _ rfl rfl hrec⟩
        have hres : ((s.rcd t).result.orElse fun _ => ((peek s t).rcd t).result) = (s.rcd t).result := by
          cases hr : (s.rcd t).result with
          | some x => rfl
          | none => simp [peek_rcd_result s t hr]
        unfold resetRecOk
        rw [Bool.and_eq_true, Bool.and_eq_true]
        refine ⟨⟨?_, ?_⟩, hrec⟩
        · simp [Rcd.getValues]
        · simp only [hres]; exact beq_self_eq_true _

/-- with such a record the decision of `get_status` is: up-to-date unless one of its early exits fires (a false
    `uptodate` item, a missing target, or no dependency at all) -/
theorem statusOf_of_lateOk (c : Checker) (d : TaskDef) (r : Rcd) (fs : FS) (resOf : Name → Option Res)
    (h : lateOk c d r fs = true) :
    statusOf true c d r fs resOf = if earlyRun d r.getValues resOf fs then .run else .upToDate := by
  unfold lateOk at h
  simp only [Bool.and_eq_true, Bool.not_eq_true', beq_iff_eq] at h
  unfold statusOf
  split
  · rfl
  · simp [h.1.1, h.1.2, h.2]

theorem resetDep_crashed_mono (s : St) (t : Name) (h : (resetDep true s t).crashed = false) : s.crashed = false := by
  unfold resetDep at h
  split at h
  · exact h
  · cases hst : s.status true t with
    | crash => simp [hst] at h
    | error => simpa [hst] using h
    | upToDate => simpa [hst] using h
    | run =>
      simp only [hst] at h
      split at h
      · simpa [commit] using h
      · exact h
      · simp at h

/-! ### the repaired per-task step `resetOne` = `resetDep` + the mark re-applied -/

theorem rcd_ign_eta (r : Rcd) (h : r.ign = true) : { r with ign := true } = r := by
  cases r; simp_all

theorem resetOne_frame (s : St) (t k : Name) (hk : k ≠ t) : (resetOne s t).rcd k = s.rcd k := by
  unfold resetOne; split
  · simp [setIgn, hk, resetDep_frame s t k hk]
  · exact resetDep_frame s t k hk

theorem resetOne_fs (s : St) (t : Name) :
    (resetOne s t).fs = s.fs ∧ (resetOne s t).defs = s.defs ∧ (resetOne s t).checker = s.checker := by
  unfold resetOne; split
  · simpa [setIgn] using resetDep_fs s t
  · exact resetDep_fs s t

theorem resetOne_crashed (s : St) (t : Name) : (resetOne s t).crashed = (resetDep true s t).crashed := by
  unfold resetOne; split <;> simp [setIgn]

theorem resetOne_missing (s : St) (t k : Name) (h : (s.defs t).deps.any (depMissing s.fs) = true) :
    (resetOne s t).rcd k = s.rcd k := by
  unfold resetOne; split
  · rename_i hi
    rw [resetDep_missing s t h]
    simp only [setIgn]
    split
    · rename_i hk; subst hk; exact rcd_ign_eta _ hi
    · rfl
  · rw [resetDep_missing s t h]

theorem resetRecOk_ign (c : Checker) (d : TaskDef) (pre r : Rcd) (fs : FS) :
    resetRecOk c d pre { r with ign := true } fs = resetRecOk c d pre r fs := rfl

theorem lateOk_ign (c : Checker) (d : TaskDef) (r : Rcd) (fs : FS) :
    lateOk c d { r with ign := true } fs = lateOk c d r fs := rfl

theorem resetOne_present (s : St) (t : Name) (hm : (s.defs t).deps.any (depMissing s.fs) = false)
    (hc0 : s.crashed = false) (hc1 : (resetOne s t).crashed = false) :
    resetRecOk s.checker (s.defs t) (s.rcd t) ((resetOne s t).rcd t) s.fs = true ∧
    lateOk s.checker (s.defs t) ((resetOne s t).rcd t) s.fs = true := by
  rw [resetOne_crashed] at hc1
  have := resetDep_present s t hm hc0 hc1
  unfold resetOne; split
  · simp only [setIgn, if_true]
    rw [resetRecOk_ign, lateOk_ign]; exact this
  · exact this

theorem resetOne_crashed_mono (s : St) (t : Name) (h : (resetOne s t).crashed = false) : s.crashed = false := by
  rw [resetOne_crashed] at h; exact resetDep_crashed_mono s t h

/-- the repaired `reset-dep` never removes a mark -/
theorem resetOne_keeps_ign (s : St) (k T : Name) (hi : (s.rcd T).ign = true) : ((resetOne s k).rcd T).ign = true := by
  by_cases hk : T = k
  · subst hk
    unfold resetOne
    simp [hi, setIgn]
  · rw [resetOne_frame s k T hk]; exact hi

theorem resetList_crashed_mono (l : List Name) (s : St) (h : (resetList s l).crashed = false) : s.crashed = false := by
  induction l generalizing s with
  | nil => exact h
  | cons a as ih =>
    simp only [resetList, List.foldl_cons] at h ih
    exact resetOne_crashed_mono s a (ih _ h)

theorem resetList_frame (l : List Name) (s : St) :
    (∀ k, k ∉ l → (resetList s l).rcd k = s.rcd k) ∧ (resetList s l).fs = s.fs ∧ (resetList s l).defs = s.defs ∧
    (resetList s l).checker = s.checker := by
  induction l generalizing s with
  | nil => simp [resetList]
  | cons a as ih =>
    simp only [resetList, List.foldl_cons] at ih ⊢
    obtain ⟨h1, h2, h3, h4⟩ := ih (resetOne s a)
    obtain ⟨f1, f2, f3⟩ := resetOne_fs s a
    refine ⟨?_, h2.trans f1, h3.trans f2, h4.trans f3⟩
    intro k hk
    have hka : k ≠ a := fun h => hk (h ▸ List.mem_cons_self)
    rw [h1 k (fun h => hk (List.mem_cons_of_mem _ h)), resetOne_frame s a k hka]

theorem resetRecOk_trans (c : Checker) (d : TaskDef) (r0 r1 r2 : Rcd) (fs : FS)
    (h01 : r1.getValues = r0.getValues ∧ r1.result = r0.result) (h12 : resetRecOk c d r1 r2 fs = true) :
    resetRecOk c d r0 r2 fs = true := by
  unfold resetRecOk at h12 ⊢
  simp only [Bool.and_eq_true, beq_iff_eq] at h12 ⊢
  exact ⟨⟨h12.1.1.trans h01.1, h12.1.2.trans h01.2⟩, h12.2⟩

theorem resetRecOk_vals (c : Checker) (d : TaskDef) (r0 r1 : Rcd) (fs : FS) (h : resetRecOk c d r0 r1 fs = true) :
    r1.getValues = r0.getValues ∧ r1.result = r0.result := by
  unfold resetRecOk at h
  simp only [Bool.and_eq_true, beq_iff_eq] at h
  exact h.1

/-- the whole target list of one `reset-dep` invocation -/
theorem resetList_present (l : List Name) (s : St) (hc : (resetList s l).crashed = false) (t : Name) (ht : t ∈ l)
    (hm : (s.defs t).deps.any (depMissing s.fs) = false) :
    resetRecOk s.checker (s.defs t) (s.rcd t) ((resetList s l).rcd t) s.fs = true ∧
    lateOk s.checker (s.defs t) ((resetList s l).rcd t) s.fs = true := by
  induction l generalizing s with
  | nil => cases ht
  | cons a as ih =>
    simp only [resetList, List.foldl_cons] at hc ih ⊢
    obtain ⟨f1, f2, f3⟩ := resetOne_fs s a
    have hc1 : (resetOne s a).crashed = false := resetList_crashed_mono as _ hc
    have hc0 : s.crashed = false := resetOne_crashed_mono s a hc1
    by_cases hta : t ∈ as
    · have hm' : (((resetOne s a).defs t).deps.any (depMissing (resetOne s a).fs)) = false := by
        rw [f1, f2]; exact hm
      have := ih (resetOne s a) hc hta hm'
      rw [f1, f2, f3] at this
      refine ⟨?_, this.2⟩
      apply resetRecOk_trans _ _ _ ((resetOne s a).rcd t) _ _ _ this.1
      by_cases hat : t = a
      · subst hat
        exact resetRecOk_vals _ _ _ _ _ (resetOne_present s t hm hc0 hc1).1
      · rw [resetOne_frame s a t hat]; exact ⟨rfl, rfl⟩
    · have hat : t = a := by
        rcases List.mem_cons.1 ht with h | h
        · exact h
        · exact absurd h hta
      subst hat
      have hfr := (resetList_frame as (resetOne s t)).1 t hta
      simp only [resetList] at hfr
      rw [hfr]
      exact resetOne_present s t hm hc0 hc1

theorem resetList_missing (l : List Name) (s : St) (t : Name)
    (hm : (s.defs t).deps.any (depMissing s.fs) = true) : (resetList s l).rcd t = s.rcd t := by
  induction l generalizing s with
  | nil => rfl
  | cons a as ih =>
    simp only [resetList, List.foldl_cons] at ih ⊢
    obtain ⟨f1, f2, _⟩ := resetOne_fs s a
    rw [ih (resetOne s a) (by rw [f1, f2]; exact hm)]
    by_cases hat : t = a
    · subst hat; exact resetOne_missing s t t hm
    · exact resetOne_frame s a t hat

theorem resetList_keeps_ign (l : List Name) (s : St) (T : Name) (hi : (s.rcd T).ign = true) :
    ((resetList s l).rcd T).ign = true := by
  induction l generalizing s with
  | nil => exact hi
  | cons a as ih =>
    simp only [resetList, List.foldl_cons] at ih ⊢
    exact ih _ (resetOne_keeps_ign s a T hi)

end DoitModel.Cmds
