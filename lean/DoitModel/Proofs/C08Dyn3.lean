import DoitModel.Proofs.C08Dyn2
/-! # C08 (I10) with calc_dep, step 2 continued: `InvN` is preserved by `dtick` and `send` -/
namespace DoitModel.Run.Dyn

theorem nodeStep_invN {inp : RunInput} {s s' : Sys} {n : Name} {nd : Node} {perm : List Name}
    (hF : StartF inp s) (h : InvN inp s) (hn : s.nodes n = some nd) (hs : nodeStep inp s n nd perm = some s') : InvN inp s' := by
  have hS := h n nd hn
  unfold nodeStep at hs
  cases hpc : nd.pc with
  | loopTop =>
    simp only [hpc] at hs
    split at hs
    · rename_i hp; cases hs
      refine invN_setNode h hn rfl ⟨?_, by intro e; simp [PC.ph2] at e⟩
      have hD := hS.1.late (lt' := false) (by simp [hpc, PC.late])
      refine ⟨?_, ?_, hD.pendT, ?_, hD.wait, hD.waitC, hD.bad, hD.ign, hD.dynC, hD.dynT⟩
      · intro d hd; cases hd
      · intro d hd; cases hd
      · intro d hd; exact hD.pendC d (hp.mem_iff.mp hd)
    · cases hs
  | calcIter todo =>
    simp only [hpc] at hs
    cases todo with
    | cons d ds =>
      cases hs
      exact genStep_invN d _ h hn (hS.setPc _ (by simp [hpc, PC.late]) (by simp [PC.ph2]))
    | nil =>
      cases hs
      exact addWaitRun_invN _ _ _ h hn (waitNode_S hF _ true _ hS (fun d hd => by simp only [if_true]; exact hS.1.snapC d hd) (by simp [hpc, PC.late]) (by simp [PC.ph2]))
  | taskIter todo =>
    simp only [hpc] at hs
    cases todo with
    | cons d ds =>
      cases hs
      exact genStep_invN d _ h hn (hS.setPc _ (by simp [hpc, PC.late]) (by simp [PC.ph2]))
    | nil =>
      cases hs
      exact addWaitRun_invN _ _ _ h hn
        (waitNode_S hF _ false _ hS (fun d hd => by simp only [Bool.false_eq_true, if_false]; exact Or.inl (hS.1.snapT d hd)) (by simp [hpc, PC.late]) (by simp [PC.ph2]))
  | afterDeps =>
    simp only [hpc] at hs
    have okTop : NodeS inp s n { nd with pc := .loopTop } := hS.setPc _ (by simp [hpc, PC.late]) (by simp [PC.ph2])
    split at hs
    · cases hs; exact invN_setNode h hn rfl okTop
    · split at hs
      · cases hs; exact invN_congr (invN_setNode (x := { nd with pc := .loopTop }) h hn rfl okTop) rfl
      · cases hs; exact invN_setNode h hn rfl (hS.setPc _ (by simp [hpc, PC.late]) (by simp [PC.ph2]))
  | self1 =>
    simp only [hpc] at hs; cases hs
    exact invN_congr (invN_setNode (x := { nd with pc := .afterSelf1 }) h hn rfl (hS.setPc .afterSelf1 (by simp [hpc, PC.late]) (by simp [PC.ph2]))) rfl
  | afterSelf1 =>
    simp only [hpc] at hs
    split at hs
    · cases hs; exact invN_setNode h hn rfl (hS.setPc _ (by simp [PC.late]) (by simp [PC.ph2]))
    · have ok' : NodeS inp s n { nd with pc := .setupDecide } :=
        hS.setPc _ (by simp [hpc, PC.late]) (by simp [PC.ph2])
      split at hs
      · cases hs
        refine invN_congr (invN_setNode (x := { nd with pc := .setupDecide, waitSelect := true }) h hn rfl ?_) rfl
        exact ⟨ok'.1.ctl rfl rfl rfl rfl rfl rfl rfl rfl rfl rfl, ok'.2⟩
      · cases hs; exact invN_setNode h hn rfl ok'
  | setupDecide =>
    simp only [hpc] at hs
    split at hs
    · rename_i hrun; cases hs
      exact invN_setNode h hn rfl
        (hS.setPc _ (by simp [hpc, PC.late]) (fun _ => Or.inr (by rw [hrun]; simp)))
    · cases hs
      exact invN_setNode h hn rfl (hS.setPc _ (by simp [PC.late]) (by simp [PC.ph2]))
  | setupIter todo =>
    simp only [hpc] at hs
    cases todo with
    | cons d ds =>
      cases hs
      exact genStep_invN d _ h hn (hS.setPc _ (by simp [hpc, PC.late]) (by simp [hpc, PC.ph2]))
    | nil =>
      cases hs
      exact addWaitRun_invN _ _ _ h hn
        (waitNode_S hF _ false _ hS (fun d hd => by simp only [Bool.false_eq_true, if_false]; exact Or.inr (Or.inr ⟨rfl, hd⟩)) (by simp [PC.late]) (by simp [hpc, PC.ph2]))
  | afterSetup =>
    simp only [hpc] at hs
    have ok' : NodeS inp s n { nd with pc := .self2 } := hS.setPc _ (by simp [PC.late]) (by simp [hpc, PC.ph2])
    split at hs
    · cases hs; exact invN_congr (invN_setNode (x := { nd with pc := .self2 }) h hn rfl ok') rfl
    · cases hs; exact invN_setNode h hn rfl ok'
  | self2 =>
    simp only [hpc] at hs; cases hs
    exact invN_congr (invN_setNode (x := { nd with pc := .afterSelf2 }) h hn rfl (hS.setPc .afterSelf2 (by simp [PC.late]) (by simp [hpc, PC.ph2]))) rfl
  | afterSelf2 =>
    simp only [hpc] at hs; cases hs
    exact invN_setNode h hn rfl (hS.setPc _ (by simp [PC.late]) (by simp [PC.ph2]))
  | done =>
    simp only [hpc] at hs; cases hs
    exact invN_congr h rfl

theorem dtick_invN {inp : RunInput} {s s' : Sys} {perm : List Name} (hF : StartF inp s) (h : InvN inp s)
    (hs : dtick inp s perm = some s') : InvN inp s' := by
  unfold dtick at hs
  cases hc : s.cur with
  | some n =>
    simp only [hc] at hs
    cases hn : s.nodes n with
    | none => simp only [hn] at hs; cases hs; exact invN_congr h rfl
    | some nd => simp only [hn] at hs; exact nodeStep_invN hF h hn hs
  | none =>
    simp only [hc] at hs
    cases hr : s.ready with
    | cons r rs => simp only [hr] at hs; cases hs; exact invN_congr h rfl
    | nil =>
      simp only [hr] at hs
      cases ht : s.toRun with
      | cons t ts =>
        simp only [ht] at hs
        cases hnt : s.nodes t with
        | none => simp only [hnt] at hs; cases hs; exact invN_congr (invN_create [t] h hnt) rfl
        | some x => simp only [hnt] at hs; cases hs; exact invN_congr h rfl
      | nil =>
        simp only [ht] at hs
        split at hs
        · split at hs <;> (cases hs; exact invN_congr h rfl)
        · cases hs; exact invN_congr h rfl

/-! ### `_update_waiting` -/

theorem wakeOne_invN {inp : RunInput} {s : Sys} {pst : RS} {p w : Name} {nd : Node} (h : InvN inp s)
    (hw : s.nodes w = some nd) (hp : stOf s p = pst) (hcr : wakeCrash p nd = false)
    (hF : pst = .fail → started s p = true → SF inp p) :
    InvN inp (wakeOne inp s pst p w nd) ∧ (∀ x, stOf (wakeOne inp s pst p w nd) x = stOf s x) := by
  have hS := h w nd hw
  have hu := wokenF_upd inp s pst p nd
  have hin : p ∈ nd.waitRun ∨ p ∈ nd.waitRunCalc := by
    simp only [wakeCrash, Bool.and_eq_false_iff, decide_eq_false_iff_not, Decidable.not_not] at hcr
    exact hcr
  have hst : ∀ x, stOf (setNode s w (wokenF inp s pst p nd)) x = stOf s x := stOf_setNode_same hw hu.status
  have h1 : InvN inp (setNode s w (wokenF inp s pst p nd)) := invN_setNode h hw hu.status (wokenF_S hS hin hp hF)
  unfold wakeOne
  split
  · exact ⟨invN_congr h1 rfl, hst⟩
  · exact ⟨h1, hst⟩

theorem updateWaiting_invN {inp : RunInput} {pst : RS} {p : Name} :
    ∀ (perm : List Name) (s s' : Sys), InvN inp s → stOf s p = pst → (pst = .fail → started s p = true → SF inp p) →
      updateWaiting inp pst p s perm = some s' → InvN inp s' := by
  intro perm
  induction perm with
  | nil => intro s s' h _ _ hs; simp only [updateWaiting] at hs; cases hs; exact h
  | cons w ws ih =>
    intro s s' h hp hF hs
    simp only [updateWaiting] at hs
    cases hw : s.nodes w with
    | none => simp only [hw] at hs; exact ih s s' h hp hF hs
    | some nd =>
      simp only [hw] at hs
      split at hs
      · cases hs
      · rename_i hcr
        obtain ⟨h1, e1⟩ := wakeOne_invN (w := w) h hw hp (by simpa using hcr) hF
        exact ih _ s' h1 (by rw [e1]; exact hp)
          (by rw [started_congr (wakeOne_events inp s pst p w nd) p]; exact hF) hs

theorem sendHead_invN {inp : RunInput} {s : Sys} {p : Name} {nd : Node} (h : InvN inp s)
    (hn : s.nodes p = some nd) :
    InvN inp (sendHead s p nd) ∧ (∀ x, stOf (sendHead s p nd) x = stOf s x) := by
  have hS := h p nd hn
  unfold sendHead
  split
  · have h1 : InvN inp (setNode s p { nd with waitSelect := false }) :=
      invN_setNode (x := { nd with waitSelect := false }) h hn rfl ⟨hS.1.ctl rfl rfl rfl rfl rfl rfl rfl rfl rfl rfl, hS.2⟩
    refine ⟨invN_congr h1 rfl, ?_⟩
    intro x
    show stOf (setNode s p { nd with waitSelect := false }) x = stOf s x
    exact stOf_setNode_same (x := { nd with waitSelect := false }) hn rfl x
  · exact ⟨invN_congr h rfl, fun _ => rfl⟩

theorem send_invN {inp : RunInput} {s s' : Sys} {processed : Option Name} {perm : List Name} (hF : StartF inp s)
    (h : InvN inp s)
    (hs : send inp s processed perm = some s') : InvN inp s' := by
  unfold send at hs
  cases processed with
  | none => cases hs; exact invN_congr h rfl
  | some p =>
    simp only [] at hs
    cases hn : s.nodes p with
    | none => simp only [hn] at hs; cases hs; exact invN_congr h rfl
    | some nd =>
      simp only [hn] at hs
      split at hs
      · cases hs; exact invN_congr h rfl
      · obtain ⟨h1, e1⟩ := sendHead_invN h hn
        split at hs
        · cases hs; exact invN_congr h1 rfl
        · split at hs
          · have hst : stOf s p = nd.status := by simp [stOf, hn]
            cases hu : updateWaiting inp nd.status p (sendHead s p nd) perm with
            | none => simp only [hu] at hs; cases hs; exact invN_congr h1 rfl
            | some s2 =>
              simp only [hu] at hs; cases hs
              refine invN_congr (updateWaiting_invN perm _ s2 h1 (by rw [e1, hst]) ?_ hu) rfl
              intro e1' e2'
              rw [started_congr (sendHead_events s p nd) p] at e2'
              exact hF p (hst.trans e1') e2'
          · cases hs

end DoitModel.Run.Dyn
