import DoitModel.Proofs.C09Ord3
import DoitModel.Proofs.C08Dyn6
/-! # C09 — the order of terminal reports also along what a FAILED calc_dep delivered

`CalcH` / `StageH` add to `CalcG` / `StageG` (Proofs/C09Ord.lean) the deliveries of a calc_dep whose status is `fail`
and that satisfies `P` — instantiated with `Dyn.SF inp` ("its derived outcome is a failure during its execution"), which
in every reachable state is equivalent to "it has a start event" (`Dyn.InvDen.started_iff`).  `InvTF`: the terminal
report of a task is younger than the terminal report of every member of `StageH`.  It rides on `InvT` (for the statuses),
on the completeness invariant `AllDCF` of C08 (what a processed, started-and-failed calc_dep returned is in the node's
dynamic lists) and on the same `Shape` case analysis of the transitions. -/
namespace DoitModel.Run

inductive CalcH (inp : RunInput) (σ : Name → RS) (P : Name → Prop) (n : Name) : Name → Prop
  | base {c : Name} : c ∈ inp.calcDep n → CalcH inp σ P n c
  | res {p c : Name} : CalcH inp σ P n p → (σ p).good = true → c ∈ (inp.calcRes p).calcs → CalcH inp σ P n c
  | resF {p c : Name} : CalcH inp σ P n p → σ p = .fail → P p → c ∈ (inp.calcResFail p).calcs → CalcH inp σ P n c

def StageH (inp : RunInput) (σ : Name → RS) (P : Name → Prop) (n d : Name) : Prop :=
  d ∈ inp.taskDep n ∨ CalcH inp σ P n d ∨
    ∃ p, CalcH inp σ P n p ∧ (((σ p).good = true ∧ (d ∈ (inp.calcRes p).tasks ∨ d ∈ (inp.calcRes p).files)) ∨
      (σ p = .fail ∧ P p ∧ (d ∈ (inp.calcResFail p).tasks ∨ d ∈ (inp.calcResFail p).files)))

variable {inp : RunInput} {P : Name → Prop}

theorem CalcG.toH {σ : Name → RS} {n c : Name} (h : CalcG inp σ n c) : CalcH inp σ P n c := by
  induction h with
  | base h => exact .base h
  | res _ hg hc ih => exact .res ih hg hc

theorem StageG.toH {σ : Name → RS} {n d : Name} (h : StageG inp σ n d) : StageH inp σ P n d := by
  rcases h with a | a | ⟨p, a, b, c⟩
  · exact Or.inl a
  · exact Or.inr (Or.inl a.toH)
  · exact Or.inr (Or.inr ⟨p, a.toH, Or.inl ⟨b, c⟩⟩)

theorem CalcH.mono {σ σ' : Name → RS} {n c : Name}
    (hm : ∀ p, CalcH inp σ P n p → CalcH inp σ' P n p → (σ p).finished = true → σ' p = σ p)
    (h : CalcH inp σ P n c) : CalcH inp σ' P n c := by
  induction h with
  | base h => exact .base h
  | res hp hg hc ih => exact .res ih (by rw [hm _ hp ih (RS.good_finished hg)]; exact hg) hc
  | resF hp hf hP hc ih => exact .resF ih (by rw [hm _ hp ih (by rw [hf]; rfl)]; exact hf) hP hc

theorem StageH.mono {σ σ' : Name → RS} {n d : Name}
    (hm : ∀ p, CalcH inp σ P n p → CalcH inp σ' P n p → (σ p).finished = true → σ' p = σ p)
    (h : StageH inp σ P n d) : StageH inp σ' P n d := by
  rcases h with a | a | ⟨p, a, b⟩
  · exact Or.inl a
  · exact Or.inr (Or.inl (a.mono hm))
  · refine Or.inr (Or.inr ⟨p, a.mono hm, ?_⟩)
    rcases b with ⟨b1, b2⟩ | ⟨b1, b2⟩
    · exact Or.inl ⟨by rw [hm p a (a.mono hm) (RS.good_finished b1)]; exact b1, b2⟩
    · exact Or.inr ⟨by rw [hm p a (a.mono hm) (by rw [b1]; rfl)]; exact b1, b2⟩

/-- when every member of `CalcG` is executed / up-to-date, nothing failed delivered: `StageH` is `StageG` -/
theorem CalcH.toG {σ : Name → RS} {n c : Name} (hgood : ∀ p, CalcG inp σ n p → (σ p).good = true)
    (h : CalcH inp σ P n c) : CalcG inp σ n c := by
  induction h with
  | base h => exact .base h
  | res _ hg hc ih => exact .res ih hg hc
  | resF _ hf _ _ ih => have := hgood _ ih; rw [hf] at this; cases this

theorem StageH.toG {σ : Name → RS} {n d : Name} (hgood : ∀ p, CalcG inp σ n p → (σ p).good = true)
    (h : StageH inp σ P n d) : StageG inp σ n d := by
  rcases h with a | a | ⟨p, a, b⟩
  · exact Or.inl a
  · exact Or.inr (Or.inl (a.toG hgood))
  · rcases b with ⟨b1, b2⟩ | ⟨b1, _⟩
    · exact Or.inr (Or.inr ⟨p, a.toG hgood, b1, b2⟩)
    · have := hgood _ (a.toG hgood); rw [b1] at this; cases this

/-- the order invariant along the deliveries of failed calc_deps too -/
def InvTF (inp : RunInput) (P : Name → Prop) (s : Sys) : Prop :=
  ∀ n a, fstTerm s.events n = some a → ∀ d, StageH inp (stOf s) P n d → ∃ b, fstTerm s.events d = some b ∧ b < a

/-! ### the generic step -/

theorem invTF_change {s s' : Sys} {n0 : Name} {r : RS} {new : List Ev} (h : InvTF inp P s)
    (hnone0 : fstTerm s.events n0 = none)
    (hst : ∀ x, stOf s' x = if x = n0 then r else stOf s x) (hev : s'.events = new ++ s.events)
    (hother : ∀ m, m ≠ n0 → ∀ e ∈ new, Ev.isTerminalOf m e = false)
    (Kt : ∀ x, StageH inp (stOf s) P n0 x → ∃ b, fstTerm s.events x = some b) : InvTF inp P s' := by
  have hne : ∀ x, x ≠ n0 → stOf s' x = stOf s x := by intro x hx; rw [hst]; simp [hx]
  have old : ∀ d b, fstTerm s.events d = some b → fstTerm s'.events d = some b ∧ b < s.events.length :=
    fun d b hb => ⟨by rw [hev]; exact fstTerm_append_old hb, fstTerm_lt hb⟩
  have otherT : ∀ n, n ≠ n0 → fstTerm s'.events n = fstTerm s.events n := by
    intro n hn; rw [hev]; exact fstTerm_append_quiet (hother n hn)
  have back : ∀ n, (n = n0 ∨ ∃ a, fstTerm s.events n = some a) → ∀ d, StageH inp (stOf s') P n d →
      StageH inp (stOf s) P n d := by
    intro n hn d hd
    apply StageH.mono _ hd
    intro p _ hp _
    by_cases e : p = n0
    · subst e
      have hsg : StageH inp (stOf s) P n p := Or.inr (Or.inl hp)
      rcases hn with rfl | ⟨a, ha⟩
      · obtain ⟨b, hb⟩ := Kt _ hsg; rw [hnone0] at hb; cases hb
      · obtain ⟨b, hb, _⟩ := h n a ha p hsg
        rw [hnone0] at hb; cases hb
    · exact (hne p e).symm
  intro n a ha d hd
  by_cases e : n = n0
  · subst e
    obtain ⟨b, hb⟩ := Kt d (back n (Or.inl rfl) d hd)
    obtain ⟨o1, o2⟩ := old d b hb
    have : s.events.length ≤ a := by rw [hev] at ha; exact fstTerm_append_new hnone0 ha
    exact ⟨b, o1, by omega⟩
  · rw [otherT n e] at ha
    obtain ⟨b, hb, hlt⟩ := h n a ha d (back n (Or.inr ⟨a, ha⟩) d hd)
    exact ⟨b, (old d b hb).1, hlt⟩

/-! ### `select_task` -/

/-- when `select_task` looks at the yielded node, every first-stage dependency the run has determined — what failed
    calc_deps delivered included — is in the node's dependency lists and finished -/
theorem select_stageH_finished {s : Sys} {n : Name} {nd : Node} (c : Ctx9 inp s) (hdcf : AllDCF inp P s)
    (hsusp : s.susp = some (.node n)) (hn : s.nodes n = some nd) :
    ∀ x, StageH inp (stOf s) P n x → (stOf s x).finished = true := by
  have hok := c.h2.inv1.node n nd hn
  obtain ⟨nd', hn', hpc⟩ := c.h2.inv1.sp n hsusp
  rw [hn] at hn'; cases hn'
  have hm1 : nd.pendTask = [] ∧ nd.pendCalc = [] ∧ nd.waitRunCalc = [] := by
    rcases hpc with e | e <;> exact hok.m1 (by rw [e]; rfl)
  have hm2 : nd.waitRun = [] := by
    rcases hpc with e | e <;> exact hok.m2 (by rw [e]; rfl)
  have noT : nd.pc.iterT = false := by rcases hpc with e | e <;> (rw [e]; rfl)
  have noC : nd.pc.iterC = false := by rcases hpc with e | e <;> (rw [e]; rfl)
  have clsT : ∀ d ∈ nd.dynTask, (stOf s d).finished = true := by
    intro d hd
    rcases hok.kt d hd with a | ⟨a, _⟩ | a | a
    · rw [hm1.1] at a; cases a
    · rw [noT] at a; cases a
    · rw [hm2] at a; cases a
    · exact a.1
  have clsC : ∀ d ∈ nd.dynCalc, (stOf s d).finished = true := by
    intro d hd
    rcases hok.kc d hd with a | ⟨a, _⟩ | a | a
    · rw [hm1.2.1] at a; cases a
    · rw [noC] at a; cases a
    · rw [hm1.2.2] at a; cases a
    · exact a.1
  have hpr : ∀ p, Processed nd p := fun p => ⟨by rw [hm1.2.1]; simp,
      (fun (e : nd.pc.iterC = true ∧ p ∈ nd.snapCalc) => by rw [noC] at e; cases e.1), by rw [hm1.2.2]; simp⟩
  have dlv : ∀ p ∈ nd.dynCalc, (stOf s p).good = true → Delivered inp nd p :=
    fun p hp hg => c.hG.dc n nd hn p hp (hpr p) hg
  have dlvF : ∀ p ∈ nd.dynCalc, stOf s p = .fail → P p → DeliveredF inp nd p :=
    fun p hp hf hP => hdcf n nd hn p hp (hpr p) hf hP
  have calcIn : ∀ x, CalcH inp (stOf s) P n x → x ∈ nd.dynCalc := by
    intro x hx
    induction hx with
    | base h => exact hok.st.2 _ h
    | res _ hg hc ih => exact (dlv _ ih hg).2.2 _ hc
    | resF _ hf hP hc ih => exact (dlvF _ ih hf hP).2.2 _ hc
  intro x hx
  rcases hx with a | a | ⟨p, a, b⟩
  · exact clsT x (hok.st.1 x a)
  · exact clsC x (calcIn x a)
  · rcases b with ⟨b, c'⟩ | ⟨b, hP, c'⟩
    · rcases c' with c' | c'
      · exact clsT x ((dlv p (calcIn p a) b).1 x c')
      · exact clsT x ((dlv p (calcIn p a) b).2.1 x c')
    · rcases c' with c' | c'
      · exact clsT x ((dlvF p (calcIn p a) b hP).1 x c')
      · exact clsT x ((dlvF p (calcIn p a) b hP).2.1 x c')

theorem invTF_select {s s' : Sys} {n : Name} {nd : Node} {extra : List Ev} (h : InvTF inp P s) (c : Ctx9 inp s)
    (hdcf : AllDCF inp P s) (hsusp : s.susp = some (.node n)) (hn : s.nodes n = some nd)
    (hd : selDecision inp n nd ≠ .assertFail)
    (hst : ∀ x, stOf s' x = if x = n then selStatus (selDecision inp n nd) else stOf s x)
    (hev : s'.events = extra ++ (selEvents inp n nd (selDecision inp n nd) ++ s.events))
    (hq : ∀ e ∈ extra, e.quiet = true) : InvTF inp P s' := by
  have hstn : stOf s n = nd.status := by simp [stOf, hn]
  have hunf : (stOf s n).finished = false := by rw [hstn]; exact selDecision_unfinished hd
  have hnone0 : fstTerm s.events n = none := fstTerm_none_of_cTerm (c.h3.t n hunf)
  have hev' : s'.events = (extra ++ selEvents inp n nd (selDecision inp n nd)) ++ s.events := by
    rw [hev, List.append_assoc]
  have K := select_stageH_finished c hdcf hsusp hn
  refine invTF_change h hnone0 hst hev' ?_ (fun x hx => fstTerm_some_of_cTerm (c.a6 x (K x hx)))
  intro m hm e he
  rcases List.mem_append.mp he with a | a
  · exact quiet_not_terminal (hq e a) m
  · exact only_not_terminal (selEvents_only inp n nd _) hm e a

/-! ### `process_task_result` -/

theorem invTF_result {s s' : Sys} {n : Name} {nd : Node} {mid : List Ev} (h : InvTF inp P s) (hT : InvT inp s)
    (c : Ctx9 inp s) (hn : s.nodes n = some nd) (hrun : nd.status = .run) (hgo : ∃ deps, Ev.go n deps ∈ s.events)
    (hst : ∀ x, stOf s' x = if x = n then resStatus (inp.outcome n) else stOf s x)
    (hev : s'.events = resEvents n (inp.outcome n) ++ (mid ++ s.events))
    (hq : ∀ e ∈ mid, e.quiet = true) : InvTF inp P s' := by
  have hstn : stOf s n = nd.status := by simp [stOf, hn]
  have hunf : (stOf s n).finished = false := by rw [hstn, hrun]; rfl
  have hnone0 : fstTerm s.events n = none := fstTerm_none_of_cTerm (c.h3.t n hunf)
  have hev' : s'.events = (resEvents n (inp.outcome n) ++ mid) ++ s.events := by
    rw [hev, List.append_assoc]
  obtain ⟨deps, hg⟩ := hgo
  obtain ⟨cs, hcl⟩ := c.hG.gd n deps hg
  have inFin : ∀ x ∈ deps, finBefore s.events x := fun x hx => ordOK_go c.h2.ord hg x hx
  have inDeps : ∀ x ∈ deps, ∃ b, fstTerm s.events x = some b := fun x hx => finBefore_fstTerm (inFin x hx)
  have calcIn : ∀ x, CalcG inp (stOf s) n x → x ∈ cs := by
    intro x hx
    induction hx with
    | base h => exact hcl.1 _ h
    | res _ _ hc ih => exact (hcl.2.2 _ ih).1 _ hc
  have hgood : ∀ p, CalcG inp (stOf s) n p → (stOf s p).good = true :=
    fun p hp => hT.ev p (inFin p (hcl.2.1 p (calcIn p hp)))
  refine invTF_change h hnone0 hst hev' ?_ ?_
  · intro m hm e he
    rcases List.mem_append.mp he with a | a
    · exact only_not_terminal (resEvents_only n _) hm e a
    · exact quiet_not_terminal (hq e a) m
  · intro x hx
    rcases hx.toG hgood with a | a | ⟨p, a, _, c'⟩
    · exact inDeps x (c.h2.gs n deps hg x (by simp [staticDeps, a]))
    · exact inDeps x (hcl.2.1 x (calcIn x a))
    · rcases c' with c' | c'
      · exact inDeps x ((hcl.2.2 p (calcIn p a)).2.1 x c')
      · exact inDeps x ((hcl.2.2 p (calcIn p a)).2.2 x c')

theorem invTF_quiet {s s' : Sys} {new : List Ev} (h : InvTF inp P s) (hst : ∀ x, stOf s' x = stOf s x)
    (hev : s'.events = new ++ s.events) (hq : ∀ e ∈ new, e.quiet = true) : InvTF inp P s' := by
  have e : stOf s' = stOf s := funext hst
  have ft : ∀ n, fstTerm s'.events n = fstTerm s.events n := by
    intro n; rw [hev]; exact fstTerm_append_quiet (fun x hx => quiet_not_terminal (hq x hx) n)
  intro n a ha d hd
  rw [ft] at ha; rw [e] at hd
  obtain ⟨b, hb, hlt⟩ := h n a ha d hd
  exact ⟨b, by rw [ft]; exact hb, hlt⟩

theorem invTF_step {s s' : Sys} (h : InvTF inp P s) (hT : InvT inp s) (c : Ctx9 inp s) (hdcf : AllDCF inp P s)
    (sh : Shape inp s s') : InvTF inp P s' := by
  cases sh with
  | quiet new hst hev hq _ => exact invTF_quiet h hst hev hq
  | select n nd extra haw hsusp hn hd hst hev hq _ => exact invTF_select h c hdcf hsusp hn hd hst hev hq
  | result n nd mid hn hrun hgo hst hev hq _ => exact invTF_result h hT c hn hrun hgo hst hev hq

theorem init_invTF (inp : RunInput) (P : Name → Prop) : InvTF inp P (init inp) := by
  intro n a ha; simp [init, fstTerm] at ha

theorem reach_invTF {s : Sys} (h : Reach inp s) : InvTF inp (Dyn.SF inp) s := by
  induction h with
  | init => exact init_invTF inp _
  | @next s0 s1 c hr hs ih =>
    cases c with
    | main perm =>
      exact invTF_step ih (reach_invT hr) (reach_ctx9 hr) (Dyn.reach_invDen hr).dcf
        (serialStep_shape (reach_inv2 hr) (reach_inv3 hr) hs)
    | take w => cases hs
    | done w => cases hs

theorem preach_invTF {s : Sys} (h : PReach inp s) : InvTF inp (Dyn.SF inp) s := by
  induction h with
  | init => exact init_invTF inp _
  | @next s0 s1 c hr hs ih =>
    have hi := preach_inv hr
    exact invTF_step ih (preach_invT hr) (preach_ctx9 hr) (Dyn.preach_invDen hr).dcf (pstep_shape hi.1 hi.2 hs)

end DoitModel.Run
