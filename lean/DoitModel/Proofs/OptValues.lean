import DoitModel.Proofs.Opt
/-! M4: what `parse` does to the value of one option (command line over environment over default) -/
namespace DoitModel.Opt

theorem getOption_mem (st : List Opt) (k : Key) (o : Opt) (inv : Bool) (h : getOption st k = some (o, inv)) :
    o ∈ st := by
  induction st with
  | nil => simp [getOption] at h
  | cons a r ih =>
    unfold getOption at h
    split at h
    · injection h with h; injection h with h1 _; subst h1; simp
    · exact List.mem_cons_of_mem _ (ih h)

theorem name_inj (st : List Opt) (hnd : (st.map (·.name)).Nodup) (o o' : Opt) (h1 : o ∈ st) (h2 : o' ∈ st)
    (h : o.name = o'.name) : o = o' := by
  induction st with
  | nil => cases h1
  | cons a r ih =>
    simp only [List.map_cons, List.nodup_cons] at hnd
    rcases List.mem_cons.mp h1 with e1 | m1 <;> rcases List.mem_cons.mp h2 with e2 | m2
    · rw [e1, e2]
    · exfalso; apply hnd.1; rw [← e1, h]; exact List.mem_map_of_mem m2
    · exfalso; apply hnd.1; rw [← e2, ← h]; exact List.mem_map_of_mem m1
    · exact ih hnd.2 m1 m2

/-- what one occurrence on the command line does to the value of its option -/
def occStep (o : Opt) (cur : Option Val) (occ : Bool × Str) : Except Err Val :=
  match o.ty with
  | .bool => .ok (.b (!occ.1))
  | .list => match cur with
    | some (.l xs) => .ok (.l (xs ++ [occ.2]))
    | _ => .error .crash
  | .int => str2type o occ.2
  | .str => str2type o occ.2

def occResult (o : Opt) : Option Val → List (Bool × Str) → Except Err (Option Val)
  | cur, [] => .ok cur
  | cur, x :: xs => match occStep o cur x with
    | .error e => .error e
    | .ok v => occResult o (some v) xs

theorem applyOpt_ok (st : PState) (p p' : Params) (o : Opt) (inv : Bool) (v : Str) (st' : PState)
    (h : applyOpt false st p o inv v = (st', .ok p')) :
    ∃ x, occStep o (p.vals o.name) (inv, v) = .ok x ∧ p' = p.set o.name x := by
  unfold applyOpt at h
  unfold occStep
  cases hty : o.ty <;> simp only [hty] at h ⊢
  · injection h with _ h; injection h with h; exact ⟨_, rfl, h.symm⟩
  · unfold scalarStep at h
    split at h
    · injection h with _ h; cases h
    · next x hx => injection h with _ h; injection h with h; exact ⟨x, hx, h.symm⟩
  · unfold scalarStep at h
    split at h
    · injection h with _ h; cases h
    · next x hx => injection h with _ h; injection h with h; exact ⟨x, hx, h.symm⟩
  · unfold listStep at h
    split at h
    · next xs hx =>
      simp only [Bool.false_eq_true, if_false] at h
      injection h with _ h; injection h with h
      exact ⟨_, by simp [hx], h.symm⟩
    · injection h with _ h; cases h

/-- one pair: the option it names gets the new value and is marked as set, every other option is untouched -/
theorem applyPair_effect (st : PState) (hnd : (st.map (·.name)).Nodup) (o : Opt) (ho : o ∈ st)
    (p p' : Params) (kv : Key × Str) (st' : PState) (h : applyPair false st p kv = (st', .ok p')) :
    occResult o (p.vals o.name) (occurrences st o [kv]) = .ok (p'.vals o.name) ∧
    p'.nd o.name = (p.nd o.name || !(occurrences st o [kv]).isEmpty) := by
  unfold applyPair at h
  split at h
  · injection h with _ h; cases h
  · next o' inv hg =>
    obtain ⟨x, hx, hp⟩ := applyOpt_ok st p p' o' inv kv.2 st' h
    have hm := getOption_mem st kv.1 o' inv hg
    by_cases hn : o'.name = o.name
    · have := name_inj st hnd o' o hm ho hn
      subst this
      simp [occurrences, hg, occResult, hx, hp, Params.set]
    · have hn' : ¬ o.name = o'.name := fun e => hn e.symm
      simp [occurrences, hg, hn, occResult, hp, Params.set, hn']

theorem occurrences_cons (st : List Opt) (o : Opt) (kv : Key × Str) (ps : Pairs) :
    occurrences st o (kv :: ps) = occurrences st o [kv] ++ occurrences st o ps := by
  simp [occurrences, List.filterMap_cons]
  split <;> simp

theorem occResult_append (o : Opt) (cur : Option Val) (xs ys : List (Bool × Str)) (mid : Option Val)
    (h : occResult o cur xs = .ok mid) : occResult o cur (xs ++ ys) = occResult o mid ys := by
  induction xs generalizing cur with
  | nil =>
    have e : occResult o cur [] = .ok cur := rfl
    rw [e] at h; injection h with h; subst h; rfl
  | cons x r ih =>
    simp only [occResult, List.cons_append] at h ⊢
    cases hv : occStep o cur x with
    | error e => simp [hv] at h
    | ok v => simp only [hv] at h ⊢; exact ih _ h

/-- the whole list of pairs, seen from one option -/
theorem applyPairs_effect (st : PState) (hnd : (st.map (·.name)).Nodup) (o : Opt) (ho : o ∈ st)
    (ps : Pairs) (p p' : Params) (h : (applyPairs false ps st p).2 = .ok p') :
    occResult o (p.vals o.name) (occurrences st o ps) = .ok (p'.vals o.name) ∧
    p'.nd o.name = (p.nd o.name || !(occurrences st o ps).isEmpty) := by
  induction ps generalizing p with
  | nil => simp [applyPairs] at h; subst h; simp [occurrences, occResult]
  | cons kv rest ih =>
    unfold applyPairs at h
    have hst := applyPair_fixed_state st p kv
    generalize hr : applyPair false st p kv = r at h hst
    obtain ⟨st1, res⟩ := r
    simp only at hst; subst hst
    cases res with
    | error e => simp at h
    | ok p1 =>
      simp only at h
      obtain ⟨h1, h2⟩ := applyPair_effect st1 hnd o ho p p1 kv st1 hr
      obtain ⟨h3, h4⟩ := ih p1 h
      rw [occurrences_cons]
      refine ⟨?_, ?_⟩
      · rw [occResult_append o _ _ _ _ h1]; exact h3
      · rw [h4, h2]; cases (occurrences st1 o [kv]) <;> simp [Bool.or_assoc]

end DoitModel.Opt
