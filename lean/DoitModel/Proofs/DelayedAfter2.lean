import DoitModel.Proofs.DelayedAfter
import DoitModel.Proofs.DelayedOnce
/-! # Delayed creation: `AfterInv` is preserved by every step (C15 `after_trigger`) -/
namespace DoitModel.Delayed
open DoitModel.Run (RS Name)

theorem afterOK_cons_quiet (trig : CId → List Name) (e : Ev) (ev : List Ev) (he : ∀ c, e ≠ Ev.creator c) :
    afterOK trig (e :: ev) = afterOK trig ev := by
  cases e <;> simp_all [afterOK]

/-- node `n` changes its status from an unfinished one: either it is handed to execution (`None → run`, event
    `start n`) or it gets its terminal report `e` -/
theorem after_status {inp : Input} {s : Sys} {n : Name} {nd : Node} (h : AfterInv inp s) (hn : s.nodes n = some nd)
    (hu : nd.status.finished = false) (st' : RS) (e : Ev) (he : ∀ c, e ≠ Ev.creator c)
    (hk : (e = Ev.start n ∧ nd.status = .none ∧ st' = .run) ∨
          (st'.finished = true ∧ e.reports n = true ∧ (∀ m, e ≠ Ev.start m) ∧ ∀ m, e.reports m = true → m = n)) :
    AfterInv inp { setNode s n { nd with status := st' } with events := e :: s.events } := by
  have hr : st'.finished = true → e.reports n = true := by
    intro hf
    rcases hk with ⟨_, _, h3⟩ | ⟨_, h2, _⟩
    · subst h3; cases hf
    · exact h2
  have hm : ∀ d, finOf s d = true →
      finOf { setNode s n { nd with status := st' } with events := e :: s.events } d = true := by
    intro d hd
    by_cases hdn : d = n
    · subst hdn; simp [finOf, stOf, hn, hu] at hd
    · simpa [finOf, stOf, setNode, hdn] using hd
  have hst : stOf { setNode s n { nd with status := st' } with events := e :: s.events } = updSt (stOf s) n st' := by
    funext d
    show stOf (setNode s n { nd with status := st' }) d = _
    rw [stOf_setNode]; rfl
  have hsn : stOf s n = nd.status := by simp [stOf, hn]
  constructor
  · intro k nd' hk'
    simp only [setNode] at hk'
    split at hk'
    · cases hk'
      obtain ⟨hb, ht⟩ := h.node n nd hn
      exact ⟨NodeB.mono (nd := { nd with status := st' }) ⟨hb.1, hb.2⟩ hm, ht⟩
    · obtain ⟨hb, ht⟩ := h.node k nd' hk'
      exact ⟨hb.mono hm, ht⟩
  · exact h.tab
  · intro d hd
    simp only [List.any_cons, Bool.or_eq_true]
    by_cases hdn : d = n
    · subst hdn
      left; apply hr
      simpa [finOf, stOf, setNode] using hd
    · right; apply h.rep
      simpa [finOf, stOf, setNode, hdn] using hd
  · simp only []; rw [afterOK_cons_quiet _ _ _ he]; exact h.aft
  · rw [hst]
    rcases hk with ⟨h1, h2, h3⟩ | ⟨h1, _, h3, h4⟩
    · subst h1; subst h3; exact h.cnt.start (by rw [hsn]; exact h2)
    · exact h.cnt.report (by rw [hsn]; exact hu) h1 h3 h4

theorem nodeB_pc {fin : Name → Bool} {nd : Node} (pc' : PC) (h : NodeB fin nd) (h1 : ¬ ∃ ds, nd.pc = .taskIter ds)
    (h2 : pc' = .loaderPc → nd.pend = [] ∧ nd.waitRun = []) : NodeB fin { nd with pc := pc' } := by
  refine ⟨fun d hd => ?_, h2⟩
  rcases h.1 d hd with h3 | h3 | h3 | h3
  · exact Or.inl h3
  · exact absurd h3.1 h1
  · exact Or.inr (Or.inr (Or.inl h3))
  · exact Or.inr (Or.inr (Or.inr h3))

theorem after_nodeStep {inp : Input} {s : Sys} {n : Name} {nd : Node} (h : AfterInv inp s) (hn : s.nodes n = some nd)
    (hl : nd.pc = .loaderPc → nd.task.loader = none) : AfterInv inp (nodeStep inp s n nd) := by
  obtain ⟨hb, ht⟩ := h.node n nd hn
  unfold nodeStep
  cases hpc : nd.pc with
  | start =>
    simp only []
    have hni : ¬ ∃ ds, nd.pc = .taskIter ds := by rw [hpc]; intro ⟨_, e⟩; cases e
    split
    · exact after_setNode h hn rfl (nodeB_pc .done hb hni (fun e => by cases e)) ht
    · exact after_setNode h hn rfl (nodeB_pc .loopTop hb hni (fun e => by cases e)) ht
  | loopTop =>
    refine after_setNode h hn rfl ⟨fun d hd => ?_, fun e => by cases e⟩ ht
    rcases hb.1 d hd with h3 | h3 | h3 | h3
    · exact Or.inr (Or.inl ⟨⟨_, rfl⟩, h3⟩)
    · rw [hpc] at h3; obtain ⟨⟨_, e⟩, _⟩ := h3; cases e
    · exact Or.inr (Or.inr (Or.inl h3))
    · exact Or.inr (Or.inr (Or.inr h3))
  | taskIter todo =>
    cases todo with
    | nil => exact after_addWaitRun h hn
    | cons d ds => exact after_genStep h hn d ds ⟨_, hpc⟩
  | afterDeps =>
    simp only []
    have hni : ¬ ∃ ds, nd.pc = .taskIter ds := by rw [hpc]; intro ⟨_, e⟩; cases e
    split
    · exact after_setNode h hn rfl (nodeB_pc .loopTop hb hni (fun e => by cases e)) ht
    · rename_i hp
      split
      · exact (after_setNode (x := { nd with pc := .loopTop }) h hn rfl
          (nodeB_pc .loopTop hb hni (fun e => by cases e)) ht).congr rfl rfl rfl
      · rename_i hw
        refine after_setNode h hn rfl (nodeB_pc .loaderPc hb hni (fun _ => ⟨?_, ?_⟩)) ht
        · simpa using hp
        · simpa using hw
  | loaderPc =>
    simp only [hl hpc]
    have hni : ¬ ∃ ds, nd.pc = .taskIter ds := by rw [hpc]; intro ⟨_, e⟩; cases e
    exact after_setNode h hn rfl (nodeB_pc .self1 hb hni (fun e => by cases e)) ht
  | self1 =>
    have hni : ¬ ∃ ds, nd.pc = .taskIter ds := by rw [hpc]; intro ⟨_, e⟩; cases e
    exact (after_setNode (x := { nd with pc := .done }) h hn rfl
      (nodeB_pc .done hb hni (fun e => by cases e)) ht).congr rfl rfl rfl
  | done => exact h.congr rfl rfl rfl

/-! ### the loader section -/

/-- the table (and fields the invariant does not read) changes, every entry still depends on its triggers -/
theorem AfterInv.setTasks {inp : Input} {s s' : Sys} (h : AfterInv inp s) (h3 : s'.events = s.events)
    (h4 : s'.nodes = s.nodes) (ht : ∀ n td, s'.tasks n = some td → TrigIn inp td) : AfterInv inp s' := by
  constructor
  · intro n nd hn; rw [h4] at hn; rw [finOf_congr h4]; exact h.node n nd hn
  · exact ht
  · intro d hd; rw [finOf_congr h4] at hd; rw [h3]; exact h.rep d hd
  · rw [h3]; exact h.aft
  · have : stOf s' = stOf s := funext fun d => by simp [stOf, h4]
    rw [this, h3]; exact h.cnt

theorem after_regexBlock {inp : Input} {s : Sys} (l : LId) (g : GId) (h : AfterInv inp s) :
    AfterInv inp (regexBlock inp s l g) := by
  unfold regexBlock
  split
  · exact h.congr rfl rfl rfl
  · split
    · exact h.congr rfl rfl rfl
    · split
      · split <;> exact h.congr rfl rfl rfl
      · exact h.congr rfl rfl rfl

theorem after_finishLoader {inp : Input} {s : Sys} {n : Name} {nd : Node} {l : LId} {tk' : TDef}
    (h : AfterInv inp s) (hn : s.nodes n = some nd) (ht : tk'.loader = none) :
    AfterInv inp (finishLoader s n nd l tk') := by
  have hreset : ∀ t : TDef, TrigIn inp t → AfterInv inp (setNode s n { nd with task := t, pend := t.deps, pc := .start }) :=
    fun t htr => after_setNode h hn rfl ⟨fun d hd => Or.inl hd, fun e => by cases e⟩ htr
  have htk : TrigIn inp tk' := fun l0 h0 => by rw [ht] at h0; cases h0
  unfold finishLoader
  cases hc : s.tasks n with
  | none => exact h.congr rfl rfl rfl
  | some cur =>
    simp only []
    split
    · refine (hreset tk' htk).setTasks rfl rfl ?_
      intro k td hk
      simp only at hk
      split at hk
      · cases hk; exact htk
      · exact h.tab k td hk
    · exact (hreset cur (h.tab n cur hc)).congr rfl rfl rfl

theorem after_afterCreate {inp : Input} {s : Sys} {n : Name} {nd : Node} {l : LId}
    (h : AfterInv inp s) (hn : s.nodes n = some nd) : AfterInv inp (afterCreate inp s n nd l) := by
  unfold afterCreate
  cases nd.task.rx with
  | none => exact after_finishLoader h hn rfl
  | some g =>
    simp only []
    have hn' : (regexBlock inp s l g).nodes n = some nd := by
      unfold regexBlock
      split
      · exact hn
      · split
        · exact hn
        · split
          · split <;> exact hn
          · exact hn
    split
    · exact after_regexBlock l g h
    · exact after_finishLoader (after_regexBlock l g h) hn' rfl

/-- the creator call: every trigger of the creator has a terminal report already (that is C15 `after_trigger`) -/
theorem after_evalCreator {inp : Input} {s : Sys} {n : Name} {nd : Node} {l : LId} (tname : Name)
    (h : AfterInv inp s) (hn : s.nodes n = some nd) (hpc : nd.pc = .loaderPc) (hl : nd.task.loader = some l) :
    AfterInv inp (evalCreator inp s l tname b) ∧ (evalCreator inp s l tname b).nodes n = some nd := by
  obtain ⟨hb, ht⟩ := h.node n nd hn
  have hrep : ∀ d ∈ trigOf inp (inp.creatorOf l), s.events.any (Ev.reports d) = true := by
    intro d hd
    have hdep := ht l hl d hd
    obtain ⟨hp, hw⟩ := hb.2 hpc
    rcases hb.1 d hdep with h3 | h3 | h3 | h3
    · rw [hp] at h3; cases h3
    · rw [hpc] at h3; obtain ⟨⟨_, e⟩, _⟩ := h3; cases e
    · rw [hw] at h3; cases h3
    · exact h.rep d h3
  have haft : afterOK (trigOf inp) (Ev.creator (inp.creatorOf l) :: s.events) = true := by
    simp only [afterOK, Bool.and_eq_true, List.all_eq_true]
    exact ⟨hrep, h.aft⟩
  have hrep' : ∀ d, finOf s d = true → (Ev.creator (inp.creatorOf l) :: s.events).any (Ev.reports d) = true := by
    intro d hd
    simp only [List.any_cons, Bool.or_eq_true]
    exact Or.inr (h.rep d hd)
  unfold evalCreator
  cases hr : regTargets s.targets (targetPairs (inp.make (inp.creatorOf l) tname)) with
  | none => exact ⟨⟨h.node, h.tab, hrep', haft, h.cnt.creator _⟩, hn⟩
  | some tg =>
    refine ⟨⟨h.node, ?_, hrep', haft, h.cnt.creator _⟩, hn⟩
    intro k td hk l0 h0
    exact h.tab k td (insertNew_old _ _ _ _ _ _ _ hk h0) l0 h0

theorem after_loaderStep {inp : Input} {s : Sys} {n : Name} {nd : Node} {l : LId} (h : AfterInv inp s)
    (hn : s.nodes n = some nd) (hpc : nd.pc = .loaderPc) (hl : nd.task.loader = some l) :
    AfterInv inp (loaderStep inp s n nd l) := by
  unfold loaderStep
  cases s.tasks (toLoad inp l n) with
  | none => exact h.congr rfl rfl rfl
  | some tT =>
    simp only []
    split
    · obtain ⟨h1, hn1⟩ := after_evalCreator (toLoad inp l n) h hn hpc hl
      split
      · exact h1
      · exact after_afterCreate h1 hn1
    · exact after_afterCreate h hn

theorem after_dtick {inp : Input} {s : Sys} (h : AfterInv inp s) : AfterInv inp (dtick inp s) := by
  unfold dtick
  cases hc : s.cur with
  | some n =>
    simp only []
    cases hn : s.nodes n with
    | none => exact h.congr rfl rfl rfl
    | some nd =>
      simp only []
      by_cases hpc : nd.pc = .loaderPc
      · cases hld : nd.task.loader with
        | none => exact after_nodeStep h hn (fun _ => hld)
        | some l =>
          have : nodeStep inp s n nd = loaderStep inp s n nd l := by unfold nodeStep; simp only [hpc, hld]
          rw [this]; exact after_loaderStep h hn hpc hld
      · exact after_nodeStep h hn (fun e => absurd e hpc)
  | none =>
    simp only []
    cases hr : s.ready with
    | cons r rs => exact h.congr rfl rfl rfl
    | nil =>
      simp only []
      cases ht : s.toRun with
      | nil => simp only []; split
               · split <;> exact h.congr rfl rfl rfl
               · exact h.congr rfl rfl rfl
      | cons t ts =>
        simp only []
        cases hn : s.nodes t with
        | some x => exact h.congr rfl rfl rfl
        | none =>
          simp only []
          cases htt : s.tasks t with
          | none => exact h.congr rfl rfl rfl
          | some td => exact (after_newNode [t] h hn htt).congr rfl rfl rfl

/-! ### the runner -/

theorem after_handBack {inp : Input} {s s' : Sys} {n : Name} {perm : List Name} (h : AfterInv inp s)
    (hb : handBack inp s n perm = some s') : AfterInv inp s' := by
  unfold handBack at hb
  split at hb
  · cases hb; exact h.congr rfl rfl rfl
  · exact after_feed h hb

theorem reports_unique_unmet (n m : Name) : (Ev.unmet n).reports m = true → m = n := by
  intro h; simpa [Ev.reports, eq_comm] using h
theorem reports_unique_failure (n m : Name) : (Ev.failure n).reports m = true → m = n := by
  intro h; simpa [Ev.reports, eq_comm] using h
theorem reports_unique_success (n m : Name) : (Ev.success n).reports m = true → m = n := by
  intro h; simpa [Ev.reports, eq_comm] using h
theorem reports_unique_skip (n m : Name) : (Ev.skipUtd n).reports m = true → m = n := by
  intro h; simpa [Ev.reports, eq_comm] using h

theorem after_failSys {inp : Input} {s : Sys} {n : Name} {nd : Node} (h : AfterInv inp s) (hn : s.nodes n = some nd)
    (hu : nd.status.finished = false) (e : Ev) (he : ∀ c, e ≠ Ev.creator c) (hr : e.reports n = true)
    (hs : ∀ m, e ≠ Ev.start m) (huq : ∀ m, e.reports m = true → m = n) (fin : Nat) :
    AfterInv inp (failSys inp s n nd e fin) := by
  unfold failSys
  exact (after_status h hn hu .fail e he (Or.inr ⟨rfl, hr, hs, huq⟩)).congr rfl rfl rfl

theorem after_selectStep {inp : Input} {s s' : Sys} {n : Name} {perm : List Name} (h : AfterInv inp s)
    (hs : selectStep inp s n perm = some s') : AfterInv inp s' := by
  unfold selectStep at hs
  cases hn : s.nodes n with
  | none => simp only [hn] at hs; cases hs; exact h.congr rfl rfl rfl
  | some nd =>
    simp only [hn] at hs
    split at hs
    · cases hs; exact h.congr rfl rfl rfl
    · rename_i hst
      have hu : nd.status.finished = false := by
        have : nd.status = .none := by simpa using hst
        rw [this]; rfl
      split at hs
      · exact after_handBack (after_failSys h hn hu (.unmet n) (by intro c; simp) (by simp [Ev.reports])
          (by intro m; simp) (reports_unique_unmet n) 2) hs
      · split at hs
        · refine after_handBack ?_ hs
          exact (after_status h hn hu .utd (.skipUtd n) (by intro c; simp)
            (Or.inr ⟨rfl, by simp [Ev.reports], by intro m; simp, reports_unique_skip n⟩)).congr rfl rfl rfl
        · cases hs
          have hnone : nd.status = .none := by simpa using hst
          exact (after_status h hn hu .run (.start n) (by intro c; simp) (Or.inl ⟨rfl, hnone, rfl⟩)).congr rfl rfl rfl

theorem after_finishStep {inp : Input} {s s' : Sys} {n : Name} {perm : List Name} (h : AfterInv inp s)
    (hs : finishStep inp s n perm = some s') : AfterInv inp s' := by
  unfold finishStep at hs
  split at hs
  · cases hn : s.nodes n with
    | none => simp only [hn] at hs; cases hs
    | some nd =>
      simp only [hn] at hs
      split at hs
      · cases hs
      · rename_i hst
        have hu : nd.status.finished = false := by
          have : nd.status = .run := by simpa using hst
          rw [this]; rfl
        have qf : AfterInv inp { failSys inp s n nd (.failure n) (if s.final = 2 then 2 else 1) with
                                 running := s.running.filter (· ≠ n) } :=
          (after_failSys (inp := inp) h hn hu (.failure n) (by intro c; simp) (by simp [Ev.reports])
            (by intro m; simp) (reports_unique_failure n) (if s.final = 2 then 2 else 1)).congr rfl rfl rfl
        have qs : AfterInv inp { setNode s n { nd with status := .ok } with
                                 events := Ev.success n :: s.events, running := s.running.filter (· ≠ n) } :=
          (after_status h hn hu .ok (.success n) (by intro c; simp)
            (Or.inr ⟨rfl, by simp [Ev.reports], by intro m; simp, reports_unique_success n⟩)).congr rfl rfl rfl
        split at hs
        · split at hs
          · exact after_feed qf hs
          · cases hs; exact qf
        · split at hs
          · cases hs; exact qs
          · exact after_feed qs hs
  · cases hs

/-- hypothesis of `after_trigger`: every task of the initial table that carries a loader object has all triggers
    of that loader's creator among its task_deps (`Task.__init__` appends `loader.task_dep`) -/
def TrigWF (inp : Input) : Prop := ∀ n td, lookup0 inp.tasks0 n = some td → TrigIn inp td

theorem after_init {inp : Input} (wf : TrigWF inp) : AfterInv inp (init inp) :=
  ⟨fun _ _ h => by simp [init] at h, wf, fun d hd => by simp [finOf, stOf, init, RS.finished] at hd, rfl,
   ⟨fun _ _ _ he => by simp [init] at he, fun _ _ _ he => by simp [init] at he, fun _ => by simp [init],
    fun _ => by simp [init]⟩⟩

theorem after_step {inp : Input} {s s' : Sys} {c : Choice} (h : AfterInv inp s) (hs : step inp s c = some s') :
    AfterInv inp s' := by
  cases c with
  | tick perm =>
    simp only [step] at hs
    cases hsu : s.susp with
    | running => simp only [hsu] at hs; cases hs; exact after_dtick h
    | yielded n => simp only [hsu] at hs; exact after_selectStep h hs
    | idle => simp [hsu] at hs
    | holdOn => simp [hsu] at hs
    | stopIter => simp [hsu] at hs
    | err e => simp [hsu] at hs
  | resume =>
    simp only [step] at hs
    split at hs
    · cases hs; exact h.congr rfl rfl rfl
    · cases hs
  | finish n perm => exact after_finishStep h hs

theorem after_reach {inp : Input} (wf : TrigWF inp) {s : Sys} (hr : Reach inp s) : AfterInv inp s := by
  induction hr with
  | init => exact after_init wf
  | next _ hs ih => exact after_step ih hs

end DoitModel.Delayed
