import DoitModel.Proofs.RunCount2
/-! # The serial runner preserves the counting invariant `Inv3` -/
namespace DoitModel.Run

theorem init_inv3 (inp : RunInput) : Inv3 inp (init inp) := by
  have hh : ∀ n, holding (init inp) n = 0 := by
    intro n; unfold holding init
    by_cases hrn : inp.runner = .serial <;> simp [hrn]
  constructor
  · intro _ n hs; simp [init] at hs
  · intro n hn; simp [cGo, init] at hn
  · intro n; simp [cGo, cFin, cStart, init]
  · intro n; rw [hh]; simp [cGo, cStart, init]
  · intro w n hw; simp [init] at hw
  · intro w w' n hw; simp [init] at hw
  · intro n hn; simp [init] at hn
  · simp [init]
  · intro n hn; rw [hh] at hn; simp [init] at hn
  · intro n hn; simp only [init] at hn; split at hn <;> cases hn
  · intro n w hn; simp only [init] at hn; split at hn <;> cases hn
  · intro n _; simp [cTerm, init]
  · intro n; simp [cTerm, init]

theorem inv3_raise {inp : RunInput} {s : Sys} (h : Inv3 inp s) (hh0 : ∀ n, holding s n = 0) (hl : Halt) :
    Inv3 inp (raise s hl) := by
  refine inv3_rpc h rfl rfl rfl rfl rfl rfl ?_ ?_ hh0 ?_
  · intro a; rcases a with a | ⟨r, a⟩ <;> cases a
  · intro n; simp [holding, raise]
  · intro n a; cases a

theorem teardown_counts (l : List Name) (m : Name) :
    (Ev.complete :: l.map Ev.teardown).countP (Ev.isGoOf m) = 0 ∧
    (Ev.complete :: l.map Ev.teardown).countP (Ev.isStartOf m) = 0 ∧
    (Ev.complete :: l.map Ev.teardown).countP (Ev.isFinOf m) = 0 ∧
    (Ev.complete :: l.map Ev.teardown).countP (Ev.isTerminalOf m) = 0 := by
  induction l with
  | nil => simp [List.countP_cons, Ev.isGoOf, Ev.isStartOf, Ev.isFinOf, Ev.isTerminalOf]
  | cons a t ih =>
    simp only [List.map_cons, List.countP_cons, Ev.isGoOf, Ev.isStartOf, Ev.isFinOf, Ev.isTerminalOf] at ih ⊢
    simpa using ih

theorem inv3_finishRun {inp : RunInput} {s : Sys} (h : Inv3 inp s) (hr : s.rpc = .fin) : Inv3 inp (finishRun s) := by
  have tc := teardown_counts s.tdown
  have hev : (finishRun s).events = (Ev.complete :: s.tdown.map Ev.teardown) ++ s.events := by simp [finishRun]
  have hc := fun m => counts_append hev m
  have hold : ∀ m, holding s m = 0 := by intro m; simp [holding, hr]
  have hold' : ∀ m, holding (finishRun s) m = 0 := by intro m; simp [holding, finishRun]
  refine h.outer rfl rfl _ hev (fun m => ⟨(tc m).1, (tc m).2.2.2⟩) ?_ ?_ ?_ ?_ ?_ ?_ ?_ ?_ ?_ ?_
  · intro a; rcases a with a | ⟨r, a⟩ <;> cases a
  · intro m; rw [(hc m).2.1, (hc m).2.2.1, (tc m).2.1, (tc m).2.2.1]; have := (h.p0 m).2; omega
  · intro m; rw [hold', (hc m).1, (hc m).2.1, (tc m).1, (tc m).2.1]
    have := h.j m; rw [hold] at this
    show s.jobQ.count _ + _ + _ = _; omega
  · intro w m hw
    obtain ⟨a, b, c⟩ := h.w1 w m hw
    rw [(hc m).2.1, (hc m).2.2.1, (tc m).2.1, (tc m).2.2.1]; exact ⟨by omega, by omega, c⟩
  · exact h.w2
  · intro m hm
    obtain ⟨a, c⟩ := h.q1 m hm
    rw [(hc m).2.2.1, (tc m).2.2.1]; exact ⟨by omega, c⟩
  · exact h.q2
  · intro m hm; rw [hold'] at hm
    rcases hm with a | a
    · exact h.j2 m (Or.inl a)
    · cases a
  · intro m hm; cases hm
  · intro m w hm; cases hm

theorem serialStep_inv3 {inp : RunInput} {s s' : Sys} {perm : List Name} (h3 : Inv3 inp s) (h2 : Inv2 inp s)
    (hs : serialStep inp s perm = some s') : Inv3 inp s' := by
  unfold serialStep at hs
  cases hr : s.rpc with
  | sTop node =>
    simp only [hr] at hs
    have hold : ∀ n, holding s n = 0 := by intro n; simp [holding, hr]
    split at hs
    · cases hs
      refine inv3_rpc h3 rfl rfl rfl rfl rfl rfl ?_ (fun n => by simp [holding]) hold ?_
      · intro a; rcases a with a | ⟨r, a⟩ <;> cases a
      · intro n a; cases a
    · cases hsd : send inp s node perm with
      | none => simp only [hsd] at hs; cases hs
      | some s0 =>
        simp only [hsd] at hs; cases hs
        exact inv3_send .sWait h3 h2 (by simp [sentBack, hr]) hsd (funext hold) (fun n ret a => by cases a)
          (fun n a => by cases a)
  | sWait =>
    simp only [hr] at hs
    have haw : awaiting s := Or.inl hr
    have hold : ∀ n, holding s n = 0 := awaiting_holding haw
    cases hsu : s.susp with
    | none => simp only [hsu] at hs; exact inv3_dtick h3 h2 hsu hs
    | some o =>
      simp only [hsu] at hs
      cases o with
      | init => cases hs
      | node n =>
        simp only [] at hs
        cases hn : s.nodes n with
        | none => simp only [hn] at hs; cases hs; exact inv3_raise h3 hold _
        | some nd =>
          simp only [hn] at hs
          have key : ∀ (hd : selDecision inp n nd ≠ .assertFail) (hg : selDecision inp n nd ≠ .go),
              Inv3 inp { applySel inp s n nd (selDecision inp n nd) with rpc := .sTop (some n) } := by
            intro hd hg
            refine inv3_select _ h3 h2 haw hsu hn hd ?_ ?_ ?_
            · intro a; rcases a with a | ⟨r, a⟩ <;> cases a
            · intro m
              have : selGo (selDecision inp n nd) = 0 := by
                cases hdd : selDecision inp n nd <;> first | rfl | exact absurd hdd hg
              simp [holding, this]
            · intro m a; cases a
          cases hd : selDecision inp n nd with
          | go =>
            simp only [hd] at hs; cases hs
            have h1 : Inv3 inp { applySel inp s n nd (selDecision inp n nd) with rpc := .gRet (.task n) (.startLoop 0) } := by
              refine inv3_select _ h3 h2 haw hsu hn (by rw [hd]; simp) ?_ ?_ ?_
              · intro a; rcases a with a | ⟨r, a⟩ <;> cases a
              · intro m; simp only [holding, hd, selGo]
              · intro m a; cases a
            rw [hd] at h1
            exact inv3_startHeld (s := { applySel inp s n nd .go with rpc := .gRet (.task n) (.startLoop 0) }) h1 rfl
          | assertFail => simp only [hd] at hs; cases hs; exact inv3_raise h3 hold _
          | skipIgn => simp only [hd] at hs; cases hs; have := key (by simp [hd]) (by simp [hd]); rwa [hd] at this
          | unmet => simp only [hd] at hs; cases hs; have := key (by simp [hd]) (by simp [hd]); rwa [hd] at this
          | depErr => simp only [hd] at hs; cases hs; have := key (by simp [hd]) (by simp [hd]); rwa [hd] at this
          | utd => simp only [hd] at hs; cases hs; have := key (by simp [hd]) (by simp [hd]); rwa [hd] at this
          | runFirst => simp only [hd] at hs; cases hs; have := key (by simp [hd]) (by simp [hd]); rwa [hd] at this
          | argsErr => simp only [hd] at hs; cases hs; have := key (by simp [hd]) (by simp [hd]); rwa [hd] at this
      | stopIter =>
        cases hs
        refine inv3_rpc h3 rfl (by simp [hsu]) rfl rfl rfl rfl ?_ (fun n => by simp [holding]) hold ?_
        · intro a; rcases a with a | ⟨r, a⟩ <;> cases a
        · intro n a; cases a
      | holdOn => cases hs; exact inv3_raise h3 hold _
      | cyclic n => cases hs; exact inv3_raise h3 hold _
      | crash => cases hs; exact inv3_raise h3 hold _
  | sExec n =>
    simp only [hr] at hs
    have hold : ∀ m, holding s m = 0 := by intro m; simp [holding, hr]
    cases hn : s.nodes n with
    | none => simp only [hn] at hs; cases hs; exact inv3_raise h3 hold _
    | some nd =>
      simp only [hn] at hs; cases hs
      have hrun : nd.status = .run := by have := h2.x n hr; simpa [stOf, hn] using this
      have := inv3_result_serial h3 hr hn hrun
      simp only [hr] at this
      exact this
  | fin => simp only [hr] at hs; cases hs; exact inv3_finishRun h3 hr
  | gEntry a b => simp only [hr] at hs; cases hs
  | gLoop a b => simp only [hr] at hs; cases hs
  | gWait a => simp only [hr] at hs; cases hs
  | gRet a b => simp only [hr] at hs; cases hs
  | pTop => simp only [hr] at hs; cases hs
  | pJoin => simp only [hr] at hs; cases hs
  | halted => simp only [hr] at hs; cases hs

theorem reach_inv3 {inp : RunInput} {s : Sys} (h : Reach inp s) : Inv3 inp s := by
  induction h with
  | init => exact init_inv3 inp
  | @next s0 s1 c hr hs ih =>
    cases c with
    | main perm => exact serialStep_inv3 ih (reach_inv2 hr) hs
    | take w => cases hs
    | done w => cases hs

end DoitModel.Run
