import DoitModel.Proofs.C11Main
/-! # C11: the invariant of the extended system `TSys` — who has torn down what -/
namespace DoitModel.Run

theorem serialStep_ctl {inp : RunInput} {s s' : Sys} {perm : List Name} (hs : serialStep inp s perm = some s') :
    (s.rpc = .fin ∧ s' = finishRun s) ∨ (s.rpc ≠ .fin ∧ s'.rpc ≠ .halted) := by
  unfold serialStep at hs
  cases hr : s.rpc with
  | sTop node =>
    simp only [hr] at hs
    split at hs
    · cases hs; exact Or.inr ⟨by simp, by simp⟩
    · cases hsd : send inp s node perm with
      | none => simp only [hsd] at hs; cases hs
      | some s0 => simp only [hsd] at hs; cases hs; exact Or.inr ⟨by simp, by simp⟩
  | sWait =>
    simp only [hr] at hs
    cases hsu : s.susp with
    | none =>
      simp only [hsu] at hs
      have o := dtick_outer hs
      exact Or.inr ⟨by simp, by rw [o.2.1, hr]; simp⟩
    | some o =>
      simp only [hsu] at hs
      cases o with
      | init => cases hs
      | node n =>
        simp only [] at hs
        cases hn : s.nodes n with
        | none => simp only [hn] at hs; cases hs; exact Or.inr ⟨by simp, by simp [raise]⟩
        | some nd =>
          simp only [hn] at hs
          cases hd : selDecision inp n nd <;> simp only [hd] at hs <;> cases hs <;>
            exact Or.inr ⟨by simp, by simp [raise]⟩
      | stopIter => cases hs; exact Or.inr ⟨by simp, by simp⟩
      | cyclic c => cases hs; exact Or.inr ⟨by simp, by simp [raise]⟩
      | holdOn => cases hs; exact Or.inr ⟨by simp, by simp [raise]⟩
      | crash => cases hs; exact Or.inr ⟨by simp, by simp [raise]⟩
  | sExec n =>
    simp only [hr] at hs
    cases hn : s.nodes n with
    | none => simp only [hn] at hs; cases hs; exact Or.inr ⟨by simp, by simp [raise]⟩
    | some nd => simp only [hn] at hs; cases hs; exact Or.inr ⟨by simp, by simp⟩
  | fin => simp only [hr] at hs; cases hs; exact Or.inl ⟨rfl, rfl⟩
  | gEntry _ _ => simp [hr] at hs
  | gLoop _ _ => simp [hr] at hs
  | gWait _ => simp [hr] at hs
  | gRet _ _ => simp [hr] at hs
  | pTop => simp [hr] at hs
  | pJoin => simp [hr] at hs
  | halted => simp [hr] at hs

theorem stepOf_tdB {inp : RunInput} {s s' : Sys} {c : Choice} (h : TdB inp s) (hs : stepOf inp s c = some s') :
    TdB inp s' := by
  unfold stepOf at hs
  by_cases hser : inp.runner = .serial
  · rw [if_pos hser] at hs
    cases c with
    | main perm => exact serialStep_tdB h hser hs
    | take w => simp [step] at hs
    | done w => simp [step] at hs
  · rw [if_neg hser] at hs
    cases c with
    | main perm => exact mainStep_tdB h hser hs
    | take w => exact takeStep_tdB h hser hs
    | done w => exact doneStep_tdB h hser hs

theorem main_ctl {inp : RunInput} {s s' : Sys} {perm : List Name} (h : TdB inp s)
    (hs : stepOf inp s (.main perm) = some s') :
    (s.rpc = .fin ∧ s' = finishRun s) ∨ (s.rpc ≠ .fin ∧ s'.rpc ≠ .halted) := by
  unfold stepOf at hs
  by_cases hser : inp.runner = .serial
  · rw [if_pos hser] at hs; exact serialStep_ctl hs
  · rw [if_neg hser] at hs; exact (mainStep_move h hs).ctl

/-- a worker step leaves the runner's control state alone -/
theorem worker_ctl {inp : RunInput} {s s' : Sys} {c : Choice} (hc : ∀ p, c ≠ .main p)
    (hs : stepOf inp s c = some s') : s'.rpc = s.rpc ∧ s'.halt = s.halt := by
  unfold stepOf at hs
  by_cases hser : inp.runner = .serial
  · rw [if_pos hser] at hs
    cases c with
    | main perm => exact absurd rfl (hc perm)
    | take w => simp [step] at hs
    | done w => simp [step] at hs
  · rw [if_neg hser] at hs
    cases c with
    | main perm => exact absurd rfl (hc perm)
    | take w =>
      simp only [pstep, takeStep] at hs
      split at hs
      · cases hq : s.jobQ with
        | nil => simp only [hq] at hs; cases hs
        | cons j js =>
          simp only [hq] at hs
          cases j <;> (cases hs; simp [setWorker, startTask])
      · cases hs
    | done w =>
      simp only [pstep, doneStep] at hs
      cases hw : s.workers w <;> simp only [hw] at hs <;> cases hs
      simp [setWorker]

theorem tdAfter_base (inp : RunInput) (tdFail : Name → Bool) (v : Variant) (ts : TSys) (c : Choice) (b' : Sys) :
    (tdAfter inp tdFail v ts c b').base = b' := by
  unfold tdAfter
  cases c with
  | main p => simp only []; split <;> rfl
  | done w => rfl
  | take w =>
    simp only []
    split
    · rfl
    · split
      · rfl
      · split <;> rfl
    · rfl

/-! ### the shared list (serial, thread) -/

structure TdS (inp : RunInput) (tdFail : Name → Bool) (ts : TSys) : Prop where
  b : TdB inp ts.base
  pre : ts.base.rpc ≠ .halted → ts.log = []
  post : ts.base.rpc = .halted → (inp.runner = .serial ∨ ts.base.halt = .none) →
    ts.log = (teardownRun tdFail none ts.base.tdown).reverse

theorem tstep_tdS {inp : RunInput} {tdFail : Name → Bool} {v : Variant} {ts ts' : TSys} {c : Choice}
    (hnp : inp.runner ≠ .process) (hv : v.pinnedThread = false) (h : TdS inp tdFail ts)
    (hs : tstep inp tdFail v ts c = some ts') : TdS inp tdFail ts' := by
  unfold tstep at hs
  cases hb : stepOf inp ts.base c with
  | none => simp only [hb] at hs; cases hs
  | some b' =>
    simp only [hb] at hs; cases hs
    have hB := stepOf_tdB h.b hb
    cases c with
    | main perm =>
      rcases main_ctl h.b hb with ⟨hfin, e⟩ | ⟨hnf, hnh⟩
      · subst e
        simp only [tdAfter, hfin, if_true]
        refine ⟨hB, fun x => absurd rfl x, fun _ _ => ?_⟩
        rw [h.pre (by rw [hfin]; simp)]; simp [finishRun]
      · simp only [tdAfter, if_neg hnf]
        exact ⟨hB, fun _ => h.pre (fun x => by
          -- no main step from `halted`
          unfold stepOf at hb
          by_cases hser : inp.runner = .serial
          · rw [if_pos hser] at hb; simp [step, serialStep, x] at hb
          · rw [if_neg hser] at hb; simp [pstep, mainStep, x] at hb), fun x => absurd x hnh⟩
    | take w =>
      obtain ⟨e1, e2⟩ := worker_ctl (fun p => by simp) hb
      have keep : (tdAfter inp tdFail v ts (.take w) b').log = ts.log := by
        simp only [tdAfter]
        split
        · rfl
        · simp [hnp, hv]
        · rfl
      have eb := tdAfter_base inp tdFail v ts (.take w) b'
      refine ⟨by rw [eb]; exact hB, fun x => by rw [keep]; rw [eb] at x; exact h.pre (e1 ▸ x), fun x y => ?_⟩
      -- a finished run that ended normally has no worker left that could move
      exfalso
      rw [eb] at x y
      have x' : ts.base.rpc = .halted := e1 ▸ x
      have hpar : inp.runner ≠ .serial := by
        intro hser; unfold stepOf at hb; rw [if_pos hser] at hb; simp [step] at hb
      have y' : ts.base.halt = .none := by
        rcases y with y | y
        · exact absurd y hpar
        · exact e2 ▸ y
      unfold stepOf at hb; rw [if_neg hpar] at hb
      simp only [pstep, takeStep] at hb
      split at hb
      · rename_i hidle
        rcases h.b.quiet (Or.inr x') y' w with q | q <;> (rw [hidle] at q; cases q)
      · cases hb
    | done w =>
      obtain ⟨e1, e2⟩ := worker_ctl (fun p => by simp) hb
      refine ⟨hB, fun x => h.pre (e1 ▸ x), fun x y => ?_⟩
      exfalso
      have x' : ts.base.rpc = .halted := e1 ▸ x
      have hpar : inp.runner ≠ .serial := by
        intro hser; unfold stepOf at hb; rw [if_pos hser] at hb; simp [step] at hb
      have y' : ts.base.halt = .none := by
        rcases y with y | y
        · exact absurd y hpar
        · exact e2 ▸ y
      unfold stepOf at hb; rw [if_neg hpar] at hb
      simp only [pstep, doneStep] at hb
      rcases h.b.quiet (Or.inr x') y' w with q | q <;> (rw [q] at hb; cases hb)

theorem treach_tdS {inp : RunInput} {tdFail : Name → Bool} {v : Variant} {ts : TSys}
    (hnp : inp.runner ≠ .process) (hv : v.pinnedThread = false) (h : TReach inp tdFail v ts) : TdS inp tdFail ts := by
  induction h with
  | init => exact ⟨init_tdB inp, fun _ => rfl, fun x => by simp [tinit, init] at x; split at x <;> cases x⟩
  | next _ hs ih => exact tstep_tdS hnp hv ih hs

end DoitModel.Run
