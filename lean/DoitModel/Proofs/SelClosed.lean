import DoitModel.Proofs.SelClosure
/-! # `closureOf` is closed: `ts.length` rounds of `expand` reach the fixed point

Every round that does not reach a closed set adds the name of a task of `ts` that was not there before (a new name
without a task has no successors), so the number of tasks whose name is missing drops by one per round. -/
namespace DoitModel.Sel

/-- tasks whose name is not in `S` -/
def missing (ts : List Task) (S : List Tok) : Nat := (ts.filter (fun t => !S.contains t.name)).length

theorem filter_length_lt {α} (p q : α → Bool) : ∀ (l : List α), (∀ t ∈ l, q t = true → p t = true) →
    (∃ t ∈ l, p t = true ∧ q t = false) → (l.filter q).length < (l.filter p).length := by
  intro l
  induction l with
  | nil => intro _ ⟨t, ht, _⟩; cases ht
  | cons a l ih =>
    intro hm ⟨t, ht, hp, hq⟩
    have hle : (l.filter q).length ≤ (l.filter p).length := by
      have h1 := List.countP_mono_left (l := l) (p := q) (q := p) (fun x hx => hm x (List.mem_cons_of_mem _ hx))
      simpa [List.countP_eq_length_filter] using h1
    rcases List.mem_cons.mp ht with e | ht'
    · subst e
      simp only [List.filter_cons, hp, hq, if_true, List.length_cons]
      simp only [Bool.false_eq_true, if_false]
      omega
    · have := ih (fun x hx => hm x (List.mem_cons_of_mem _ hx)) ⟨t, ht', hp, hq⟩
      simp only [List.filter_cons]
      cases hqa : q a
      · simp only [Bool.false_eq_true, if_false]
        split
        · simp only [List.length_cons]; omega
        · exact this
      · have hpa := hm a (by simp) hqa
        simp only [hpa, if_true, List.length_cons]
        omega

theorem succs_has_task (ts : List Task) (n m : Tok) (h : m ∈ succs ts n) : ∃ t ∈ ts, t.name = n := by
  unfold succs at h
  cases hf : find ts n with
  | none => rw [hf] at h; cases h
  | some t =>
    unfold find at hf
    exact ⟨t, List.mem_of_find?_eq_some hf, by simpa using List.find?_some hf⟩

theorem closed_expand (ts : List Task) (S : List Tok) (h : Closed ts S) : Closed ts (expand ts S) := by
  have sub : ∀ x, x ∈ expand ts S → x ∈ S := by
    intro x hx
    rcases (mem_expand ts S x).1 hx with a | ⟨n, hn, a⟩
    · exact a
    · exact h n hn x a
  intro n hn m hm
  exact (mem_expand ts S m).2 (Or.inl (h n (sub n hn) m hm))

theorem closed_reachIter (ts : List Task) (k : Nat) : ∀ S, Closed ts S → Closed ts (reachIter ts k S) := by
  induction k with
  | zero => intro S h; exact h
  | succ k ih => intro S h; exact ih _ (closed_expand ts S h)

theorem missing_lt_of_not_closed (ts : List Task) (S : List Tok) (h : ¬ Closed ts (expand ts S)) :
    missing ts (expand ts S) < missing ts S := by
  -- a member of `expand S` with a successor outside is new and has a task
  have : ∃ n, n ∈ expand ts S ∧ ∃ m, m ∈ succs ts n ∧ m ∉ expand ts S := by
    apply Classical.byContradiction; intro hn
    apply h; intro n hn' m hm
    apply Classical.byContradiction; intro hx
    exact hn ⟨n, hn', m, hm, hx⟩
  obtain ⟨n, hn, m, hm, hout⟩ := this
  have hnS : n ∉ S := fun a => hout ((mem_expand ts S m).2 (Or.inr ⟨n, a, hm⟩))
  obtain ⟨t, ht, e⟩ := succs_has_task ts n m hm
  unfold missing
  apply filter_length_lt
  · intro x _ hq
    simp only [Bool.not_eq_true', List.contains_eq_mem, decide_eq_false_iff_not] at hq ⊢
    exact fun a => hq ((mem_expand ts S _).2 (Or.inl a))
  · refine ⟨t, ht, ?_, ?_⟩
    · simp [e, hnS]
    · simp [e, hn]

theorem missing_lt_length (ts : List Task) (S : List Tok) (h : ¬ Closed ts S) : missing ts S < ts.length := by
  have : ∃ n, n ∈ S ∧ ∃ m, m ∈ succs ts n := by
    apply Classical.byContradiction; intro hn
    apply h; intro n hn' m hm
    exact (hn ⟨n, hn', m, hm⟩).elim
  obtain ⟨n, hn, m, hm⟩ := this
  obtain ⟨t, ht, e⟩ := succs_has_task ts n m hm
  have := filter_length_lt (fun _ => true) (fun t => !S.contains t.name) ts (fun _ _ _ => rfl)
    ⟨t, ht, rfl, by simp [e, hn]⟩
  have e2 : (ts.filter (fun _ => true)).length = ts.length := by simp
  unfold missing; omega

theorem missing_reachIter (ts : List Task) (k : Nat) : ∀ S, ¬ Closed ts (reachIter ts k S) →
    missing ts (reachIter ts k S) + k ≤ missing ts S := by
  induction k with
  | zero => intro S _; simp [reachIter]
  | succ k ih =>
    intro S h
    simp only [reachIter] at h ⊢
    have h1 := ih (expand ts S) h
    have h2 : ¬ Closed ts (expand ts S) := fun a => h (closed_reachIter ts k _ a)
    have h3 := missing_lt_of_not_closed ts S h2
    omega

/-- the computed closure is closed under `succs` — no certificate needed -/
theorem closureOf_closed (ts : List Task) (sel : List Tok) : Closed ts (closureOf ts sel) := by
  apply Classical.byContradiction; intro h
  unfold closureOf at h
  have h1 := missing_reachIter ts ts.length _ h
  have h2 : ¬ Closed ts (addNew [] sel) := fun a => h (closed_reachIter ts _ _ a)
  have h3 := missing_lt_length ts _ h2
  omega

theorem closure_complete' (ts : List Task) (sel : List Tok) (m : Tok) (h : Reach ts sel m) : m ∈ closureOf ts sel :=
  reach_least ts sel _ (closure_has_sel ts sel) (closureOf_closed ts sel) m h

theorem closedB_closureOf (ts : List Task) (sel : List Tok) : closedB ts (closureOf ts sel) = true :=
  (closedB_iff ts _).2 (closureOf_closed ts sel)

end DoitModel.Sel
