import DoitModel.Model.Act
/-! Helper lemmas for C17 (model M5): list bookkeeping of the stream machine and the frame lemma of
    well-nested step lists. -/
namespace DoitModel.Act

theorem run_append (s : St) (xs ys : List Ev) : run s (xs ++ ys) = run (run s xs) ys := by
  simp [run, List.foldl_append]

theorem run_cons (s : St) (e : Ev) (xs : List Ev) : run s (e :: xs) = run (step s e) xs := rfl

theorem writesOf_append (a : Act) (xs ys : List Ev) :
    writesOf a (xs ++ ys) = writesOf a xs ++ writesOf a ys := by
  induction xs with
  | nil => rfl
  | cons e xs ih =>
    cases e with
    | write b n =>
      by_cases hb : b = a
      · simp [writesOf, hb, ih]
      · simp [writesOf, hb, ih]
    | save b => simpa [writesOf] using ih
    | set b => simpa [writesOf] using ih
    | restore b => simpa [writesOf] using ih
    | read b => simpa [writesOf] using ih

theorem started_append (xs ys : List Ev) : started (xs ++ ys) = started xs ++ started ys := by
  induction xs with
  | nil => rfl
  | cons e xs ih => cases e <;> simp [started, ih]

/-- in a well-nested list only the context action and the actions started in it write -/
theorem wn_writes {o : Option Act} {evs : List Ev} (h : WN o evs) :
    ∀ c, o ≠ some c → c ∉ started evs → writesOf c evs = [] := by
  induction h with
  | nil o => intros; rfl
  | write a n rest _ ih =>
    intro c hc hs
    have hac : a ≠ c := fun e => hc (by rw [e])
    simp only [writesOf, hac, if_false]
    exact ih c hc (by simpa [started] using hs)
  | exec o b body rest _ _ ihb ihr =>
    intro c hc hs
    have h1 : c ≠ b := by
      intro e; apply hs; simp [started_append, started, e]
    have h2 : c ∉ started body := by
      intro e; apply hs; simp [started_append, started, e]
    have h3 : c ∉ started rest := by
      intro e; apply hs; simp [started_append, started, e]
    have e1 := ihb c (by intro e; exact h1 (Option.some.inj e).symm) h2
    have e2 := ihr c hc h3
    simp [writesOf_append, writesOf, e1, e2]

/-- what running a well-nested list does to the machine -/
structure Frame (evs : List Ev) (s s' : St) : Prop where
  cell : s'.cell = s.cell
  unbound : s'.unbound = s.unbound
  orig : s'.origLog = s.origLog
  outs : ∀ b, b ∈ started evs → s'.out b = some (writesOf b evs)
  buf : ∀ c, c ∉ started evs → s'.buf c = s.buf c ++ writesOf c evs
  keepOut : ∀ c, c ∉ started evs → s'.out c = s.out c
  keepSaved : ∀ c, c ∉ started evs → s'.saved c = s.saved c

end DoitModel.Act
