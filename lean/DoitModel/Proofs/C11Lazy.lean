import DoitModel.Proofs.RunLive2
/-! # C11, laziness: the dispatcher is inside the setup stage of a task only while that task's `run_status` is `run` -/
namespace DoitModel.Run

/-- positions of `_add_task` between "`if node.run_status == 'run':`" and the second `yield this_task`: the setup-tasks
    are being scheduled (`setupIter`), registered / awaited (`afterSetup`), the task is about to be re-sent (`self2`) -/
def PC.setupStage : PC → Bool
  | .setupIter _ | .afterSetup | .self2 => true
  | _ => false

def Lazy (s : Sys) : Prop := ∀ n nd, s.nodes n = some nd → nd.pc.setupStage = true → nd.status = .run

theorem lazy_init (inp : RunInput) : Lazy (init inp) := by
  intro n nd hn; simp [init] at hn

theorem Lazy.congr {s s' : Sys} (h : Lazy s) (e : s'.nodes = s.nodes) : Lazy s' := by
  intro n nd hn; rw [e] at hn; exact h n nd hn

theorem lazy_dtick {inp : RunInput} {s s' : Sys} {perm : List Name} (h : Lazy s) (hs : dtick inp s perm = some s') :
    Lazy s' := by
  intro k y hk hy
  rcases dtick_node hs k y hk with ⟨_, a, _⟩ | ⟨x, hx, e1, e2⟩
  · rw [a] at hy; cases hy
  · rcases e2 with e2 | ⟨_, tr⟩
    · rw [e1]; exact h k x hx (e2 ▸ hy)
    · unfold PcTrans at tr
      cases hpc : x.pc <;> rw [hpc] at tr <;> simp only at tr
      case setupDecide =>
        rcases tr with ⟨a, _⟩ | ⟨_, t⟩
        · rw [e1]; exact a
        · rw [t] at hy; cases hy
      case setupIter => rw [e1]; exact h k x hx (by rw [hpc]; rfl)
      case afterSetup => rw [e1]; exact h k x hx (by rw [hpc]; rfl)
      case self1 => rw [tr.1] at hy; cases hy
      case self2 => rw [tr.1] at hy; cases hy
      case afterSelf1 => rcases tr with ⟨_, t⟩ | ⟨_, t⟩ <;> (rw [t] at hy; cases hy)
      case afterSelf2 => rw [tr] at hy; cases hy
      case done => rw [tr] at hy; cases hy
      all_goals (cases hq : y.pc <;> rw [hq] at tr hy <;>
        first | (simp [PC.yielded1] at tr; done) | (simp [PC.setupStage] at hy; done))

theorem lazy_send {inp : RunInput} {s s' : Sys} {node : Option Name} {perm : List Name} (h : Lazy s)
    (h1 : Inv1 inp s) (hsel : ∀ p, node = some p → stOf s p ≠ .none) (hs : send inp s node perm = some s') :
    Lazy s' := by
  obtain ⟨_, hst⟩ := send_inv1 h1 hsel hs
  have keep := send_pcs hs
  intro k y hk hy
  cases hx : s.nodes k with
  | none =>
    have := send_noNew hs k hx
    rw [hk] at this; cases this
  | some x =>
    obtain ⟨x', hx', e⟩ := keep k x hx (by simp)
    rw [hk] at hx'; cases hx'
    have e2 : y.status = x.status := by have := hst k; simpa [stOf, hk, hx] using this
    rw [e2]; exact h k x hx (e ▸ hy)

/-- `run_status` of a node that is not in its setup stage changes -/
theorem lazy_status {s s' : Sys} {n : Name} {nd : Node} (st : RS) (h : Lazy s) (hn : s.nodes n = some nd)
    (hpc : nd.pc.setupStage = false) (e : s'.nodes = (setNode s n { nd with status := st }).nodes) : Lazy s' := by
  intro k y hk hy
  rw [e] at hk
  simp only [setNode] at hk
  by_cases ek : k = n
  · subst ek; rw [if_pos rfl] at hk; cases hk
    simp only [] at hy; rw [hpc] at hy; cases hy
  · rw [if_neg ek] at hk; exact h k y hk hy

theorem yset_notSetup {inp : RunInput} {n : Name} {pc : PC} (h : YSet inp n pc) : pc.setupStage = false := by
  rcases h with e | e | ⟨_, e⟩ <;> (rw [e]; rfl)

theorem lazy_select {inp : RunInput} {s : Sys} {n : Name} {nd : Node} (h : Lazy s) (h1 : Inv1 inp s)
    (hsusp : s.susp = some (.node n)) (hn : s.nodes n = some nd) (d : Sel) (hd : d ≠ .assertFail) (r : RPC) :
    Lazy { applySel inp s n nd d with rpc := r } := by
  obtain ⟨nd', hn', hpc⟩ := h1.sp n hsusp
  rw [hn] at hn'; cases hn'
  refine lazy_status (selStatus d) h hn ?_ (applySel_nodes inp s n nd d hd)
  rcases hpc with e | e <;> (rw [e]; rfl)

theorem lazy_result {inp : RunInput} {s x : Sys} {n : Name} {nd : Node} (h : Lazy s) (h3 : Inv3 inp s)
    (hgo : cGo s n ≥ 1) (hn : s.nodes n = some nd) (ex : x.nodes = s.nodes) (r : RPC) :
    Lazy { processResult inp x n nd with rpc := r } := by
  obtain ⟨nd', hn', hy⟩ := h3.y n hgo
  rw [hn] at hn'; cases hn'
  have hx : Lazy x := h.congr ex
  exact lazy_status (resStatus (inp.outcome n)) hx (by rw [ex]; exact hn) (yset_notSetup hy)
    (processResult_nodes inp x n nd)

theorem serialStep_lazy {inp : RunInput} {s s' : Sys} {perm : List Name} (h : Lazy s) (h2 : Inv2 inp s)
    (h3 : Inv3 inp s) (hs : serialStep inp s perm = some s') : Lazy s' := by
  unfold serialStep at hs
  cases hr : s.rpc with
  | sTop node =>
    simp only [hr] at hs
    split at hs
    · cases hs; exact h.congr rfl
    · cases hsd : send inp s node perm with
      | none => simp only [hsd] at hs; cases hs
      | some s0 =>
        simp only [hsd] at hs; cases hs
        exact (lazy_send h h2.inv1 (fun p hp => h2.sb p (by simp [sentBack, hr, hp])) hsd).congr rfl
  | sWait =>
    simp only [hr] at hs
    cases hsu : s.susp with
    | none => simp only [hsu] at hs; exact lazy_dtick h hs
    | some o =>
      simp only [hsu] at hs
      cases o with
      | init => cases hs
      | node n =>
        simp only [] at hs
        cases hn : s.nodes n with
        | none => simp only [hn] at hs; cases hs; exact h.congr rfl
        | some nd =>
          simp only [hn] at hs
          have key : ∀ d r, d ≠ .assertFail → Lazy { applySel inp s n nd d with rpc := r } :=
            fun d r hd => lazy_select h h2.inv1 hsu hn d hd r
          cases hd : selDecision inp n nd <;> simp only [hd] at hs <;> cases hs
          all_goals first
            | exact key _ _ (by simp)
            | exact h.congr rfl
            | exact (key .go (.sExec n) (by simp)).congr rfl
      | stopIter => cases hs; exact h.congr rfl
      | cyclic c => cases hs; exact h.congr rfl
      | holdOn => cases hs; exact h.congr rfl
      | crash => cases hs; exact h.congr rfl
  | sExec n =>
    simp only [hr] at hs
    cases hn : s.nodes n with
    | none => simp only [hn] at hs; cases hs; exact h.congr rfl
    | some nd =>
      simp only [hn] at hs; cases hs
      have hgo : cGo s n ≥ 1 := by
        have := (h3.x3 n hr).1; have := h3.j n; omega
      exact lazy_result (x := { s with events := Ev.fin n 0 :: s.events, rpc := .sExec n }) h h3 hgo hn rfl _
  | fin => simp only [hr] at hs; cases hs; exact h.congr rfl
  | gEntry _ _ => simp [hr] at hs
  | gLoop _ _ => simp [hr] at hs
  | gWait _ => simp [hr] at hs
  | gRet _ _ => simp [hr] at hs
  | pTop => simp [hr] at hs
  | pJoin => simp [hr] at hs
  | halted => simp [hr] at hs

theorem gReturn_nodes (s : Sys) (job : Job) (ret : Ret) : (gReturn s job ret).nodes = s.nodes := by
  cases ret <;> simp only [gReturn] <;> (repeat' split) <;> rfl

theorem mainStep_lazy {inp : RunInput} {s s' : Sys} {perm : List Name} (h : Lazy s) (h2 : Inv2 inp s)
    (h3 : Inv3 inp s) (hs : mainStep inp s perm = some s') : Lazy s' := by
  unfold mainStep at hs
  cases hr : s.rpc with
  | gEntry completed ret =>
    simp only [hr] at hs
    split at hs <;> (cases hs; exact h.congr rfl)
  | gLoop node ret =>
    simp only [hr] at hs
    cases hsd : send inp s node perm with
    | none => simp only [hsd] at hs; cases hs
    | some s0 =>
      simp only [hsd] at hs; cases hs
      exact (lazy_send h h2.inv1 (fun p hp => h2.sb p (by simp [sentBack, hr, hp])) hsd).congr rfl
  | gWait ret =>
    simp only [hr] at hs
    cases hsu : s.susp with
    | none => simp only [hsu] at hs; exact lazy_dtick h hs
    | some o =>
      simp only [hsu] at hs
      cases o with
      | init => cases hs
      | node n =>
        simp only [] at hs
        cases hn : s.nodes n with
        | none => simp only [hn] at hs; cases hs; exact h.congr rfl
        | some nd =>
          simp only [hn] at hs
          have key : ∀ d r, d ≠ .assertFail → Lazy { applySel inp s n nd d with rpc := r } :=
            fun d r hd => lazy_select h h2.inv1 hsu hn d hd r
          cases hd : selDecision inp n nd <;> simp only [hd] at hs <;> cases hs
          all_goals first
            | exact key _ _ (by simp)
            | exact h.congr rfl
      | stopIter => cases hs; exact h.congr rfl
      | cyclic c => cases hs; exact h.congr rfl
      | holdOn => cases hs; exact h.congr rfl
      | crash => cases hs; exact h.congr rfl
  | gRet job ret => simp only [hr] at hs; cases hs; exact h.congr (gReturn_nodes s job ret)
  | pTop =>
    simp only [hr] at hs
    split at hs
    · cases hs; exact h.congr rfl
    · cases hq : s.resQ with
      | nil => simp only [hq] at hs; cases hs
      | cons n rest =>
        simp only [hq] at hs
        cases hn : s.nodes n with
        | none => simp only [hn] at hs; cases hs; exact h.congr rfl
        | some nd =>
          simp only [hn] at hs; cases hs
          have hgo : cGo s n ≥ 1 := by
            have := (h3.q1 n (by rw [hq]; simp)).1; have := (h3.p0 n).2; have := h3.j n; omega
          exact (lazy_result (x := { s with resQ := rest, rpc := .pTop }) h h3 hgo hn rfl
            (.gEntry (some n) (.feedLoop (s.freeProc + 1)))).congr rfl
  | pJoin =>
    simp only [hr] at hs
    split at hs
    · cases hs; exact h.congr rfl
    · cases hs
  | fin => simp only [hr] at hs; cases hs; exact h.congr rfl
  | sTop _ => simp [hr] at hs
  | sWait => simp [hr] at hs
  | sExec _ => simp [hr] at hs
  | halted => simp [hr] at hs

theorem reach_lazy {inp : RunInput} {s : Sys} (h : Reach inp s) : Lazy s := by
  induction h with
  | init => exact lazy_init inp
  | @next s0 s1 c hr hs ih =>
    cases c with
    | main perm => exact serialStep_lazy ih (reach_inv2 hr) (reach_inv3 hr) hs
    | take w => simp [step] at hs
    | done w => simp [step] at hs

theorem preach_lazy {inp : RunInput} {s : Sys} (h : PReach inp s) : Lazy s := by
  induction h with
  | init => exact lazy_init inp
  | @next s0 s1 c hr hs ih =>
    cases c with
    | main perm => exact mainStep_lazy ih (preach_inv hr).1 (preach_inv hr).2 hs
    | take w =>
      simp only [pstep, takeStep] at hs
      split at hs
      · cases hq : s0.jobQ with
        | nil => simp only [hq] at hs; cases hs
        | cons j js =>
          simp only [hq] at hs
          cases j <;> (cases hs; exact ih.congr rfl)
      · cases hs
    | done w =>
      simp only [pstep, doneStep] at hs
      cases hw : s0.workers w <;> simp only [hw] at hs <;> cases hs
      exact ih.congr rfl

end DoitModel.Run
