import DoitModel.Proofs.ActMode
import DoitModel.Proofs.ActFwd
/-! Captured intact in the `Mode` machine: in a scenario mixing both capture modes, every capturing execution ends
    with exactly its own writes (in order) among the tokens of its buffer. -/
namespace DoitModel.Act.Mode
open DoitModel.Act

theorem pre_buf (s : Fwd.St) (b : Act) (on cap : Bool) :
    (run s (pre b on cap)).buf = s.buf ∧ (run s (pre b on cap)).out = s.out := by
  cases cap
  · by_cases hg : given (if on then s.cell else Fwd.Stream.null) = true <;> simp [pre, run, step, upd, hg]
  · simp [pre, run, step]

theorem post_buf (s : Fwd.St) (b : Act) (cap : Bool) : (run s (post b cap)).buf = s.buf := by
  cases cap
  · by_cases hg : given (s.live b) = true
    · cases h : s.saved b <;> simp [post, run, step, hg, Fwd.restoreTo, h]
    · simp [post, run, step, hg]
  · cases h : s.saved b <;> simp [post, run, step, Fwd.restoreTo, h]

theorem post_cap_out (s : Fwd.St) (b : Act) :
    (run s (post b true)).out b = some (s.buf b) ∧ ∀ c, c ≠ b → (run s (post b true)).out c = s.out c := by
  cases h : s.saved b <;> simp [post, run, step, Fwd.restoreTo, h, upd] <;> (intro c hc; simp [hc])

/-- foreign tokens never change the own tokens of a buffer -/
theorem own_foreign (evs : List Ev) : ∀ (s : Fwd.St) (c : Act), writesOf c evs = [] →
    Fwd.own c ((run s evs).buf c) = Fwd.own c (s.buf c) := by
  induction evs with
  | nil => intro s c _; rfl
  | cons e evs ih =>
    intro s c hw
    rw [run_cons]
    cases e with
    | write a n =>
      by_cases hac : a = c
      · simp [writesOf, hac] at hw
      · rw [ih _ c (by simpa [writesOf, hac] using hw)]
        simp only [step]
        exact (Fwd.emit_frame (a, n) s.cell s).2.2.2.2.2.2.1 c hac
    | getlive a on => rw [ih _ c (by simpa [writesOf] using hw)]; simp [step]
    | save a => rw [ih _ c (by simpa [writesOf] using hw)]; simp [step]
    | set a => rw [ih _ c (by simpa [writesOf] using hw)]; simp [step]
    | read a => rw [ih _ c (by simpa [writesOf] using hw)]; simp [step]
    | restore a =>
      rw [ih _ c (by simpa [writesOf] using hw)]
      cases h : s.saved a <;> simp [step, Fwd.restoreTo, h]
    | swapNC a =>
      rw [ih _ c (by simpa [writesOf] using hw)]
      by_cases hg : given (s.live a) = true <;> simp [step, hg]
    | restoreNC a =>
      rw [ih _ c (by simpa [writesOf] using hw)]
      by_cases hg : given (s.live a) = true
      · cases h : s.saved a <;> simp [step, hg, Fwd.restoreTo, h]
      · simp [step, hg]

/-- the callable of a capturing execution `c` (cell = its writer, whose live chain does not contain its own
    buffer): its own writes are appended to its buffer, whatever executions of either mode run in between -/
theorem own_ctx (f : Forest) : ∀ (c : Act) (L : Fwd.Stream) (s : Fwd.St),
    (started (flatten (some c) f)).Nodup → c ∉ started (flatten (some c) f) →
    s.cell = .writer c L → c ∉ Fwd.bufsOf L →
    Fwd.own c ((run s (flatten (some c) f)).buf c) = Fwd.own c (s.buf c) ++ writesOf c (flatten (some c) f) := by
  induction f with
  | nil => intro c L s _ _ _ _; simp [flatten, run, writesOf]
  | kw b rest ih => intro c L s hn hc hcell hL; exact ih c L s hn hc hcell hL
  | write n rest ih =>
    intro c L s hn hc hcell hL
    simp only [flatten, run_cons, step]
    have E := Fwd.emit_frame (c, n) s.cell s
    rw [ih c L _ (by simpa [flatten, started] using hn) (by simpa [flatten, started] using hc)
      (by rw [E.1]; exact hcell) hL]
    rw [hcell, Fwd.emit_owner c n L s hL]
    simp [writesOf, Fwd.own]
  | exec b on cap body rest _ ihr =>
    intro c L s hn hc hcell hL
    have hn' := hn
    simp only [flatten, started_exec, List.nodup_cons, List.mem_append, not_or, List.nodup_append] at hn'
    obtain ⟨_, _, hnR, _⟩ := hn'
    simp only [flatten, started_exec, List.mem_cons, List.mem_append, not_or] at hc
    have hw : writesOf c (flatten (some b) body) = [] :=
      writesOf_none body (some b) c (fun e => hc.1 (by injection e with e; exact e.symm)) hc.2.1
    -- the nested execution as a one-tree forest: cell preserved, own tokens of `c` untouched
    have hn1 : (started (flatten (some c) (.exec b on cap body .nil))).Nodup := by
      have : started (flatten (some c) (.exec b on cap body .nil)) = b :: started (flatten (some b) body) := by
        simp [flatten, started_append, started_pre, started_post, started]
      rw [this]
      simp only [flatten, started_exec, List.nodup_cons, List.mem_append, not_or, List.nodup_append] at hn
      exact List.nodup_cons.mpr ⟨hn.1.1, hn.2.1⟩
    have F1 := frame (.exec b on cap body .nil) (some c) s hn1
    have hsplit : flatten (some c) (.exec b on cap body rest) =
        flatten (some c) (.exec b on cap body .nil) ++ flatten (some c) rest := by
      simp [flatten]
    have hw1 : writesOf c (flatten (some c) (.exec b on cap body .nil)) = [] := by
      simp [flatten, writesOf_append, writesOf_pre, writesOf_post, hw, writesOf]
    rw [hsplit, run_append, writesOf_append, hw1]
    rw [ihr c L _ hnR hc.2.2 (by rw [F1.cell]; exact hcell) hL, own_foreign _ s c hw1]
    simp

structure BFrame (evs : List Ev) (s s' : Fwd.St) : Prop where
  outs : ∀ b, b ∈ reads evs → ∃ l, s'.out b = some l ∧ Fwd.own b l = writesOf b evs
  untouched : ∀ d, d ∉ started evs → d ∉ Fwd.bufsOf s.cell → s'.buf d = s.buf d

theorem bufsOf_live (on : Bool) (X : Fwd.Stream) (d : Act) (h : d ∉ Fwd.bufsOf X) :
    d ∉ Fwd.bufsOf (if on then X else Fwd.Stream.null) := by
  cases on <;> simp [Fwd.bufsOf, h]

theorem bframe (f : Forest) : ∀ (o : Option Act) (s : Fwd.St), (started (flatten o f)).Nodup →
    (∀ b, b ∈ started (flatten o f) → s.buf b = [] ∧ b ∉ Fwd.bufsOf s.cell) →
    (∀ a, o = some a → a ∉ started (flatten o f)) →
    BFrame (flatten o f) s (run s (flatten o f)) := by
  induction f with
  | nil => intro o s _ _ _; cases o <;> exact ⟨by intro b hb; simp [flatten, reads] at hb, fun _ _ _ => rfl⟩
  | kw b rest ih => intro o s hn hb ho; exact ih o s hn hb ho
  | write n rest ih =>
    intro o s hn hb ho
    cases o with
    | none => exact ih none s hn hb ho
    | some a =>
      have E := Fwd.emit_frame (a, n) s.cell s
      have ha : a ∉ started (flatten (some a) rest) := by simpa [flatten, started] using ho a rfl
      have F := ih (some a) (step s (.write a n)) (by simpa [flatten, started] using hn)
        (by
          intro b hbs
          have := hb b (by simpa [flatten, started] using hbs)
          simp only [step]
          exact ⟨by rw [E.2.2.2.2.2.1 b this.2]; exact this.1, by rw [E.1]; exact this.2⟩)
        (by intro a' ha'; cases ha'; exact ha)
      simp only [flatten, run_cons]
      refine ⟨?_, ?_⟩
      · intro b hbr
        have hbr' : b ∈ reads (flatten (some a) rest) := by simpa [reads] using hbr
        obtain ⟨l, h1, h2⟩ := F.outs b hbr'
        have hs := reads_sub_started rest (some a) b hbr'
        have hab : a ≠ b := by intro e; subst e; exact ha hs
        exact ⟨l, h1, by simp [writesOf, hab, h2]⟩
      · intro d hd hdc
        rw [F.untouched d (by simpa [started] using hd) (by simp only [step]; rw [E.1]; exact hdc)]
        simp only [step]
        exact E.2.2.2.2.2.1 d hdc
  | exec b on cap body rest ihb ihr =>
    intro o s hn hb ho
    have hn0 := hn
    simp only [flatten, started_exec, List.nodup_cons, List.mem_append, not_or, List.nodup_append] at hn
    obtain ⟨⟨hbB, hbR⟩, hnB, hnR, hdisj⟩ := hn
    have hbs : ∀ x, x ∈ started (flatten o (.exec b on cap body rest)) ↔
        x = b ∨ x ∈ started (flatten (some b) body) ∨ x ∈ started (flatten o rest) := by
      intro x; simp [flatten, started_append, started_pre, started_post]
    have hb0 := hb b ((hbs b).mpr (Or.inl rfl))
    have ho' : ∀ a, o = some a → a ≠ b ∧ a ∉ started (flatten (some b) body) ∧ a ∉ started (flatten o rest) := by
      intro a ha
      have := ho a ha
      rw [hbs] at this
      exact ⟨fun e => this (Or.inl e), fun e => this (Or.inr (Or.inl e)), fun e => this (Or.inr (Or.inr e))⟩
    have F0 := frame (.exec b on cap body rest) o s hn0
    have hrun : run s (flatten o (.exec b on cap body rest)) =
        run (run (run (run s (pre b on cap)) (flatten (some b) body)) (post b cap)) (flatten o rest) := by
      simp only [flatten, run_append]
    -- states
    have hcell3 : (run (run (run s (pre b on cap)) (flatten (some b) body)) (post b cap)).cell = s.cell := by
      have hn1 : (started (flatten o (.exec b on cap body .nil))).Nodup := by
        have : started (flatten o (.exec b on cap body .nil)) = b :: started (flatten (some b) body) := by
          cases o <;> simp [flatten, started_append, started_pre, started_post, started]
        rw [this]; exact List.nodup_cons.mpr ⟨hbB, hnB⟩
      have F1 := frame (.exec b on cap body .nil) o s hn1
      have : flatten o (.exec b on cap body .nil) = pre b on cap ++ flatten (some b) body ++ post b cap := by
        cases o <;> simp [flatten]
      rw [this, run_append, run_append] at F1
      exact F1.cell
    have Pb := pre_buf s b on cap
    -- the cell the callable runs under
    have hcell1 : ∀ d, d ≠ b → d ∉ Fwd.bufsOf s.cell → d ∉ Fwd.bufsOf (run s (pre b on cap)).cell := by
      intro d hdb hdc
      cases cap
      · rw [(pre_nc s b on).1]; exact hdc
      · rw [(pre_cap s b on).1]
        simp only [Fwd.bufsOf, List.mem_cons, not_or]
        exact ⟨hdb, bufsOf_live on s.cell d hdc⟩
    have FB := ihb (some b) (run s (pre b on cap)) hnB
      (by
        intro x hx
        have := hb x ((hbs x).mpr (Or.inr (Or.inl hx)))
        exact ⟨by rw [Pb.1]; exact this.1, hcell1 x (fun e => hbB (e ▸ hx)) this.2⟩)
      (by intro a ha; cases ha; exact hbB)
    have Qb := post_buf (run (run s (pre b on cap)) (flatten (some b) body)) b cap
    have FR := ihr o (run (run (run s (pre b on cap)) (flatten (some b) body)) (post b cap)) hnR
      (by
        intro x hx
        have := hb x ((hbs x).mpr (Or.inr (Or.inr hx)))
        have hxb : x ≠ b := fun e => hbR (e ▸ hx)
        have hxB : x ∉ started (flatten (some b) body) := fun e => hdisj x e x hx rfl
        refine ⟨?_, by rw [hcell3]; exact this.2⟩
        rw [Qb, FB.untouched x hxB (hcell1 x hxb this.2), Pb.1]; exact this.1)
      (by intro a ha; exact (ho' a ha).2.2)
    rw [hrun]
    refine ⟨?_, ?_⟩
    · intro x hx
      have hx' : x ∈ reads (flatten (some b) body) ∨ (cap = true ∧ x = b) ∨ x ∈ reads (flatten o rest) := by
        simp only [flatten, reads_append, List.mem_append] at hx
        rcases hx with ((hx | hx) | hx) | hx
        · cases cap <;> simp [pre, reads] at hx
        · exact Or.inl hx
        · cases cap
          · simp [post, reads] at hx
          · simp [post, reads] at hx; exact Or.inr (Or.inl ⟨rfl, hx⟩)
        · exact Or.inr (Or.inr hx)
      have hwhole : ∀ y, writesOf y (flatten o (.exec b on cap body rest)) =
          writesOf y (flatten (some b) body) ++ writesOf y (flatten o rest) := by
        intro y; simp [flatten, writesOf_append, writesOf_pre, writesOf_post]
      rcases hx' with hxB | ⟨hcap, hxb⟩ | hxR
      · -- read inside the body
        have hxs := reads_sub_started body _ x hxB
        have hxb : x ≠ b := fun e => hbB (e ▸ hxs)
        have hxR : x ∉ started (flatten o rest) := fun e => hdisj x hxs x e rfl
        obtain ⟨l, h1, h2⟩ := FB.outs x hxB
        refine ⟨l, ?_, ?_⟩
        · rw [out_only_read _ _ x (fun e => hxR (reads_sub_started rest _ x e))]
          rw [out_only_read _ _ x (by cases cap <;> simp [post, reads, hxb])]
          exact h1
        · rw [hwhole, h2, writesOf_none rest o x (fun e => (ho' x e).2.1 hxs) hxR]; simp
      · -- the execution itself (capturing)
        subst hcap; subst hxb
        have P := pre_cap s x on
        have hown := own_ctx body x (if on then s.cell else .null) (run s (pre x on true)) hnB hbB P.1
          (bufsOf_live on s.cell x hb0.2)
        rw [Pb.1, hb0.1] at hown
        have Qo := post_cap_out (run (run s (pre x on true)) (flatten (some x) body)) x
        refine ⟨(run (run s (pre x on true)) (flatten (some x) body)).buf x, ?_, ?_⟩
        · rw [out_only_read _ _ x (fun e => hbR (reads_sub_started rest _ x e))]
          exact Qo.1
        · rw [hwhole, writesOf_none rest o x (fun e => (ho' x e).1 rfl) hbR, hown]; simp [Fwd.own]
      · -- read in the rest
        have hxs := reads_sub_started rest _ x hxR
        have hxB : x ∉ started (flatten (some b) body) := fun e => hdisj x e x hxs rfl
        obtain ⟨l, h1, h2⟩ := FR.outs x hxR
        refine ⟨l, h1, ?_⟩
        rw [hwhole, h2, writesOf_none body (some b) x (fun e => hbR (by injection e with e; exact e ▸ hxs)) hxB]; simp
    · intro d hd hdc
      rw [hbs] at hd
      simp only [not_or] at hd
      rw [FR.untouched d hd.2.2 (by rw [hcell3]; exact hdc), Qb, FB.untouched d hd.2.1 (hcell1 d hd.1 hdc), Pb.1]

end DoitModel.Act.Mode
