import DoitModel.Proofs.CleanBuild
/-! Helper lemmas for C14, part 6: the fuel of `build_nodes_with_deps` (number of tasks + 1) suffices
    whenever every dependency names a task (`TaskControl._check_dep_names`). -/
namespace DoitModel.Clean

/-- number of tasks `< n` not yet processed -/
def unproc (n : Nat) (P : List Name) : Nat := (List.range n).countP (fun x => decide (x ∉ P))

theorem unproc_mono (n : Nat) {P P' : List Name} (h : ∀ x, x ∈ P → x ∈ P') : unproc n P' ≤ unproc n P := by
  unfold unproc
  apply List.countP_mono_left
  intro x _ hx
  simp only [decide_eq_true_eq] at hx ⊢
  exact fun hm => hx (h x hm)

theorem countP_strict (name : Name) (P : List Name) (hn : name ∉ P) :
    ∀ (l : List Name), name ∈ l →
      l.countP (fun x => decide (x ∉ name :: P)) < l.countP (fun x => decide (x ∉ P)) := by
  intro l
  induction l with
  | nil => intro h; simp at h
  | cons x l ih =>
    intro h
    have hmono : l.countP (fun x => decide (x ∉ name :: P)) ≤ l.countP (fun x => decide (x ∉ P)) := by
      apply List.countP_mono_left
      intro y _ hy
      simp only [decide_eq_true_eq, List.mem_cons, not_or] at hy ⊢
      exact hy.2
    by_cases hx : x = name
    · subst hx
      have e1 : decide (x ∉ x :: P) = false := by simp
      have e2 : decide (x ∉ P) = true := by simp [hn]
      simp only [List.countP_cons, e1, e2, Bool.false_eq_true, if_false, if_true]
      omega
    · simp only [List.mem_cons] at h
      have hl : name ∈ l := by
        rcases h with h | h
        · exact absurd h.symm hx
        · exact h
      have := ih hl
      have e : decide (x ∉ name :: P) = decide (x ∉ P) := by simp [hx]
      simp only [List.countP_cons, e]
      omega

theorem unproc_strict (n : Nat) (name : Name) (P : List Name) (hn : name ∉ P) (hlt : name < n) :
    unproc n (name :: P) < unproc n P :=
  countP_strict name P hn (List.range n) (List.mem_range.2 hlt)

theorem buildDeps_fuel (deps : Name → List Name) (n : Nat) (hwf : ∀ a b, b ∈ deps a → b < n) :
    ∀ (f : Nat) (name : Name) (s : BState), s.oof = false → name < n → unproc n s.processed < f →
      (buildDeps deps f name s).oof = false := by
  intro f
  induction f with
  | zero => intro name s _ _ h; omega
  | succ f ih =>
    intro name s hoof hlt hm
    by_cases hp : name ∈ s.processed
    · simp only [buildDeps, hp, if_true]; exact hoof
    · simp only [buildDeps, hp, if_false]
      have hs := unproc_strict n name s.processed hp hlt
      have inner : ∀ (ds : List Name) (t : BState), (∀ d, d ∈ ds → d < n) → t.oof = false →
          unproc n t.processed < f → (ds.foldl (buildStep (buildDeps deps f) name) t).oof = false := by
        intro ds
        induction ds with
        | nil => intro t _ h _; exact h
        | cons d ds ihd =>
          intro t hds ht hmt
          simp only [List.foldl_cons]
          have h1 : (buildStep (buildDeps deps f) name t d).oof = false :=
            ih d { t with nodes := addRev d name t.nodes } ht (hds d (by simp)) hmt
          have hmono : BMono { t with nodes := addRev d name t.nodes } (buildStep (buildDeps deps f) name t d) :=
            buildDeps_mono deps f d _
          have := unproc_mono n hmono.proc
          exact ihd _ (fun x hx => hds x (List.mem_cons_of_mem _ hx)) h1 (by simp only at this; omega)
      exact inner _ _ (fun d hd => hwf name d (by simpa using hd)) hoof (by simp only; omega)

theorem unproc_le (n : Nat) (P : List Name) : unproc n P ≤ n := by
  unfold unproc
  have := List.countP_le_length (p := fun x => decide (x ∉ P)) (l := List.range n)
  simpa using this

theorem buildAll_fuel (deps : Name → List Name) (n : Nat) (hwf : ∀ a b, b ∈ deps a → b < n)
    (cl : List Name) (hcl : ∀ r, r ∈ cl → r < n) : (buildAll deps (n + 1) cl).oof = false := by
  unfold buildAll
  have : ∀ (l : List Name) (s : BState), (∀ r, r ∈ l → r < n) → s.oof = false →
      (l.foldl (fun s x => buildDeps deps (n + 1) x s) s).oof = false := by
    intro l
    induction l with
    | nil => intro s _ h; exact h
    | cons r l ih =>
      intro s hl h
      simp only [List.foldl_cons]
      refine ih _ (fun x hx => hl x (List.mem_cons_of_mem _ hx)) ?_
      exact buildDeps_fuel deps n hwf (n + 1) r s h (hl r (by simp)) (by have := unproc_le n s.processed; omega)
  exact this cl _ hcl rfl

/-! ### every name in `clean_list` is a task -/
theorem mapM_id_mem {α : Type} : ∀ (l : List (Option α)) (l' : List α), l.mapM id = some l' →
    ∀ x, x ∈ l' → some x ∈ l := by
  intro l
  induction l with
  | nil => intro l' h x hx; simp at h; subst h; simp at hx
  | cons a l ih =>
    intro l' h x hx
    cases a with
    | none => simp [List.mapM_cons] at h
    | some v =>
      cases hl : l.mapM id with
      | none => simp [List.mapM_cons, hl] at h
      | some vs =>
        simp [List.mapM_cons, hl] at h
        subst h
        simp only [List.mem_cons] at hx
        rcases hx with hx | hx
        · simp [hx]
        · exact List.mem_cons_of_mem _ (ih vs hl x hx)

theorem resolve_lt (tbl : Table) (arg : List Char) (x : Name) (h : resolve tbl arg = some x) : x < tbl.length := by
  unfold resolve at h
  simp only at h
  split at h
  · cases h; assumption
  · cases h

theorem expand_lt (tbl : Table) (args : List (List Char)) (x : Name) (h : some x ∈ expand tbl args) :
    x < tbl.length := by
  unfold expand at h
  rw [List.mem_flatMap] at h
  obtain ⟨arg, _, hx⟩ := h
  unfold expandArg at hx
  split at hx
  · simp only [List.mem_map, List.mem_filter] at hx
    obtain ⟨y, ⟨hy, _⟩, he⟩ := hx
    cases he
    simpa [allNames] using hy
  · simp only [List.mem_singleton] at hx
    exact resolve_lt tbl arg x hx.symm

theorem cleanList_lt (tbl : Table) (r : Req) (base : List Name) (h : cleanList tbl r = .ok base) :
    ∀ x, x ∈ base → x < tbl.length := by
  unfold cleanList at h
  split at h
  · cases h
  · split at h
    · cases h; intro x hx; simpa [allNames] using hx
    · split at h
      · split at h
        · rename_i l hl
          cases h
          exact fun x hx => expand_lt tbl _ x (mapM_id_mem _ _ hl x hx)
        · cases h
      · split at h
        · split at h
          · rename_i l hl
            cases h
            exact fun x hx => expand_lt tbl _ x (mapM_id_mem _ _ hl x (by simpa using hx))
          · cases h
        · cases h; intro x hx; simpa [allNames] using hx

theorem wfB_sound (tbl : Table) (h : wfB tbl = true) : ∀ a b, b ∈ depsOf tbl a → b < tbl.length := by
  intro a b hb
  by_cases ha : a < tbl.length
  · simp only [wfB, allNames, List.all_eq_true, List.mem_range, decide_eq_true_eq] at h
    exact h a ha b hb
  · have : tbl[a]? = none := by simp [Nat.le_of_not_lt ha]
    simp [depsOf, setupOf, taskDepOf, this] at hb

end DoitModel.Clean
