import DoitModel.Proofs.C11Par
/-! # C11: a step of the parallel main thread starts no action and lets no worker exit -/
namespace DoitModel.Run

/-- what the teardown bookkeeping needs to know about a main-thread step -/
structure MainMove (s s' : Sys) : Prop where
  plain : Plain s s'
  ex : ∀ w, s'.workers w = .exited ↔ s.workers w = .exited
  ctl : (s.rpc = .fin ∧ s' = finishRun s) ∨ (s.rpc ≠ .fin ∧ s'.rpc ≠ .halted)
  nsb : ∀ w, s'.workers w = .notStarted → s.workers w = .notStarted

theorem MainMove.same {s s' : Sys} (p : Plain s s') (hw : s'.workers = s.workers)
    (hc : s.rpc ≠ .fin ∧ s'.rpc ≠ .halted) : MainMove s s' :=
  ⟨p, fun w => by rw [hw], Or.inr hc, fun w => by rw [hw]; exact id⟩

theorem gReturn_move {inp : RunInput} {s : Sys} (h : TdB inp s) (job : Job) (ret : Ret) (hr : s.rpc = .gRet job ret) :
    MainMove s (gReturn s job ret) := by
  have hnf : s.rpc ≠ .fin := by rw [hr]; simp
  have nw : ∀ w, (setWorker s s.nStarted .idle).workers w = .exited ↔ s.workers w = .exited := by
    intro w
    simp only [setWorker]
    by_cases e : w = s.nStarted
    · subst e; rw [if_pos rfl, h.ns _ (Nat.le_refl _)]; simp
    · rw [if_neg e]
  have nb : ∀ w, (setWorker s s.nStarted .idle).workers w = .notStarted → s.workers w = .notStarted := by
    intro w
    simp only [setWorker]
    by_cases e : w = s.nStarted
    · subst e; rw [if_pos rfl]; intro x; cases x
    · rw [if_neg e]; exact id
  cases ret with
  | startLoop k =>
    simp only [gReturn]
    split
    · exact MainMove.same (Plain.of_same rfl rfl) rfl ⟨hnf, by simp [raise]⟩
    · split
      · exact ⟨Plain.of_same rfl rfl, nw, Or.inr ⟨hnf, by simp⟩, nb⟩
      · exact ⟨Plain.of_same rfl rfl, nw, Or.inr ⟨hnf, by simp⟩, nb⟩
  | feedLoop k =>
    simp only [gReturn]
    split
    · split
      · exact MainMove.same (Plain.of_same rfl rfl) rfl ⟨hnf, by simp [raise]⟩
      · exact MainMove.same (Plain.of_same rfl rfl) rfl ⟨hnf, by simp [raise]⟩
    · exact MainMove.same (Plain.of_same rfl rfl) rfl ⟨hnf, by simp [raise]⟩

theorem mainStep_move {inp : RunInput} {s s' : Sys} {perm : List Name} (h : TdB inp s)
    (hs : mainStep inp s perm = some s') : MainMove s s' := by
  unfold mainStep at hs
  cases hr : s.rpc with
  | gEntry completed ret =>
    simp only [hr] at hs
    split at hs <;> (cases hs; exact MainMove.same (Plain.of_same rfl rfl) rfl ⟨by simp [hr], by simp⟩)
  | gLoop node ret =>
    simp only [hr] at hs
    cases hsd : send inp s node perm with
    | none => simp only [hsd] at hs; cases hs
    | some s0 =>
      simp only [hsd] at hs; cases hs
      have o := (send_outer hsd).1
      exact MainMove.same (Plain.of_same o.1 o.2.2.2.2.2.2.2.1) o.2.2.2.2.1 ⟨by simp [hr], by simp⟩
  | gWait ret =>
    simp only [hr] at hs
    cases hsu : s.susp with
    | none =>
      simp only [hsu] at hs
      have o := dtick_outer hs
      exact MainMove.same (Plain.of_outer o) o.2.2.2.2.1 ⟨by simp [hr], by rw [o.2.1, hr]; simp⟩
    | some o =>
      simp only [hsu] at hs
      cases o with
      | init => cases hs
      | node n =>
        simp only [] at hs
        cases hn : s.nodes n with
        | none => simp only [hn] at hs; cases hs; exact MainMove.same (raise_plain _ _) rfl ⟨by simp [hr], by simp [raise]⟩
        | some nd =>
          simp only [hn] at hs
          have key : ∀ d r, r ≠ .halted → MainMove s { applySel inp s n nd d with rpc := r } := fun d r hr2 =>
            MainMove.same (applySel_plain inp s n nd d _) (applySel_outer inp s n nd d).2.2.2.1 ⟨by simp [hr], hr2⟩
          cases hd : selDecision inp n nd <;> simp only [hd] at hs <;> cases hs
          all_goals first
            | exact key _ _ (by simp)
            | exact MainMove.same (raise_plain _ _) rfl ⟨by simp [hr], by simp [raise]⟩
      | stopIter => cases hs; exact MainMove.same (Plain.of_same rfl rfl) rfl ⟨by simp [hr], by simp⟩
      | cyclic c => cases hs; exact MainMove.same (raise_plain _ _) rfl ⟨by simp [hr], by simp [raise]⟩
      | holdOn => cases hs; exact MainMove.same (Plain.of_same rfl rfl) rfl ⟨by simp [hr], by simp⟩
      | crash => cases hs; exact MainMove.same (raise_plain _ _) rfl ⟨by simp [hr], by simp [raise]⟩
  | gRet job ret => simp only [hr] at hs; cases hs; exact gReturn_move h job ret hr
  | pTop =>
    simp only [hr] at hs
    split at hs
    · cases hs; exact MainMove.same (Plain.of_same rfl rfl) rfl ⟨by simp [hr], by simp⟩
    · cases hq : s.resQ with
      | nil => simp only [hq] at hs; cases hs
      | cons n rest =>
        simp only [hq] at hs
        cases hn : s.nodes n with
        | none => simp only [hn] at hs; cases hs; exact MainMove.same (raise_plain _ _) rfl ⟨by simp [hr], by simp [raise]⟩
        | some nd =>
          simp only [hn] at hs; cases hs
          have p := processResult_plain inp { s with resQ := rest, rpc := .pTop } n nd
          have o := processResult_outer inp { s with resQ := rest, rpc := .pTop } n nd
          exact MainMove.same ⟨p.ev, p.td, p.tdn⟩ o.2.2.2.1 ⟨by simp [hr], by simp⟩
  | pJoin =>
    simp only [hr] at hs
    split at hs
    · cases hs; exact MainMove.same (Plain.of_same rfl rfl) rfl ⟨by simp [hr], by simp⟩
    · cases hs
  | fin => simp only [hr] at hs; cases hs; exact ⟨finishRun_plain s, fun w => Iff.rfl, Or.inl ⟨hr, rfl⟩, fun w => id⟩
  | sTop _ => simp [hr] at hs
  | sWait => simp [hr] at hs
  | sExec _ => simp [hr] at hs
  | halted => simp [hr] at hs

end DoitModel.Run
