import DoitModel.Proofs.C11LazyFirst
/-! # C11, laziness monitor: what one transition (by its `Shape`) does to the facts the monitor looks at -/
namespace DoitModel.Run
open DoitModel.Report

theorem terminal_not_quiet {t : Name} {e : Ev} (h : Ev.isTerminalOf t e = true) : e.quiet = false := by
  cases e <;> simp [Ev.isTerminalOf] at h <;> rfl

theorem selEvents_terminal {inp : RunInput} {n t : Name} {nd : Node} {d : Sel} {e : Ev}
    (he : e ∈ selEvents inp n nd d) (ht : Ev.isTerminalOf t e = true) : t = n := by
  have hs : ∀ e ∈ statusEv nd n, Ev.isTerminalOf t e = false := by
    intro e he; unfold statusEv at he; split at he <;> simp at he; subst he; rfl
  cases d <;> simp only [selEvents, List.mem_cons] at he
  case go =>
    rcases he with he | he
    · subst he; simp [Ev.isTerminalOf] at ht
    · rw [hs e he] at ht; cases ht
  case runFirst => rw [hs e he] at ht; cases ht
  case assertFail => cases he
  all_goals
    rcases he with he | he
    · subst he; simp [Ev.isTerminalOf] at ht; exact ht.symm
    · rw [hs e he] at ht; cases ht

theorem resEvents_terminal {n t : Name} {o : Outcome} {e : Ev} (he : e ∈ resEvents n o)
    (ht : Ev.isTerminalOf t e = true) : t = n := by
  cases o <;> simp [resEvents] at he <;> (subst he; simp [Ev.isTerminalOf] at ht; exact ht.symm)

structure StepInfo (inp : RunInput) (nT : Nat) (s s' : Sys) : Prop where
  ev : ∃ new, s'.events = new ++ s.events ∧
    ∀ t d, d ∈ inp.setup t → Ev.getStatus t ∈ trace inp s → (∃ e ∈ new, Ev.isTerminalOf t e = true) →
      ∃ e ∈ trace inp s, Ev.mentions d e = true
  dmono : ∀ p r, Ds inp s p r → Ds inp s' p r
  rf : (∀ a, stOf s a = .run → ranFirst inp nT (trace inp s) a = true) →
    ∀ a, stOf s' a = .run → ranFirst inp nT (trace inp s') a = true

theorem started_mono {s s' : Sys} {new : List Ev} (e : s'.events = new ++ s.events) {p : Name}
    (h : started s p = true) : started s' p = true := by
  unfold started at h ⊢; rw [e, List.any_append, h]; simp

theorem ds_mono {inp : RunInput} {s s' : Sys} {new : List Ev} (e : s'.events = new ++ s.events) {p : Name}
    (hst : stOf s' p = stOf s p) {r : CalcRes} (h : Ds inp s p r) : Ds inp s' p r := by
  rcases h with ⟨a, b⟩ | ⟨a, b, c⟩
  · exact Or.inl ⟨by rw [hst]; exact a, b⟩
  · exact Or.inr ⟨by rw [hst]; exact a, started_mono e b, c⟩

theorem stepInfo {inp : RunInput} {s s' : Sys} (c : Ctx inp s) (nT : Nat) (sh : Shape inp s s') :
    StepInfo inp nT s s' := by
  cases sh with
  | quiet new hst hev hq hstop =>
    refine ⟨⟨new, hev, ?_⟩, fun p r hp => ds_mono hev (hst p) hp, ?_⟩
    · intro t d _ _ ⟨e, he, ht⟩
      have := terminal_not_quiet ht; rw [hq e he] at this; cases this
    · intro hrf a ha
      rw [trace_append hev]
      exact ranFirst_stable (hrf a (by rw [← hst]; exact ha)) _
  | select n nd extra haw hsusp hn hd hst hev hq hstop =>
    have hstn : stOf s n = nd.status := by simp [stOf, hn]
    have hev' : s'.events = (extra ++ selEvents inp n nd (selDecision inp n nd)) ++ s.events := by
      rw [hev, List.append_assoc]
    refine ⟨⟨_, hev', ?_⟩, ?_, ?_⟩
    · intro t d hdt hgs ⟨e, he, ht⟩
      rcases List.mem_append.mp he with a | a
      · have := terminal_not_quiet ht; rw [hq e a] at this; cases this
      · have htn := selEvents_terminal a ht
        subst htn
        have hne : nd.status ≠ .none := by
          rw [← hstn]; exact c.mention_status (mem_trace.mp hgs).1 (by simp [Ev.mentions]) rfl
        have hok := c.h2.inv1.node t nd hn
        obtain ⟨nd', hn', hpc⟩ := c.h2.inv1.sp t hsusp
        rw [hn] at hn'; cases hn'
        have hpc2 : nd.pc = .afterSelf2 := by
          rcases hpc with e1 | e1
          · exact absurd (c.h2.sel1 haw t nd hsusp hn e1) hne
          · exact e1
        have hw : nd.waitRun = [] := hok.m2 (by rw [hpc2]; rfl)
        rcases hok.ks (by rw [hpc2]; rfl) d hdt with x | x
        · rw [hw] at x; cases x
        · have : stOf s d ≠ .none := by
            intro h0; have x1 := x.1; rw [h0] at x1; cases x1
          exact ⟨_, c.status_mention this, by simp [Ev.mentions]⟩
    · intro p r hp
      by_cases e : p = n
      · subst e
        exfalso
        rcases hp with ⟨a, _⟩ | ⟨a, _⟩ <;> rw [hstn] at a <;>
          rcases selDecision_status hd with x | x <;> (rw [x] at a; cases a)
      · exact ds_mono hev' (by rw [hst, if_neg e]) hp
    · intro hrf a ha
      rw [trace_append hev']
      apply ranFirst_stable
      rw [hst] at ha
      by_cases e : a = n
      · subst e
        rw [if_pos rfl] at ha
        by_cases h0 : nd.status = .none
        · exact first_run_ranFirst c hsusp hn h0 ha nT
        · rcases selDecision_status hd with x | x
          · exact absurd x h0
          · exact hrf a (by rw [hstn]; exact x)
      · rw [if_neg e] at ha; exact hrf a ha
  | result n nd mid hn hrun hgo hst hev hq hstop =>
    have hstn : stOf s n = .run := by simp [stOf, hn, hrun]
    have hev' : s'.events = (resEvents n (inp.outcome n) ++ mid) ++ s.events := by
      rw [hev, List.append_assoc]
    refine ⟨⟨_, hev', ?_⟩, ?_, ?_⟩
    · intro t d hdt _ ⟨e, he, ht⟩
      rcases List.mem_append.mp he with a | a
      · have htn := resEvents_terminal a ht
        subst htn
        obtain ⟨deps, hdeps⟩ := hgo
        have hin : d ∈ deps := c.h2.gs t deps hdeps d (by simp [staticDeps, hdt])
        exact finBefore_finished (ordOK_go c.h2.ord hdeps d hin)
      · have := terminal_not_quiet ht; rw [hq e a] at this; cases this
    · intro p r hp
      by_cases e : p = n
      · subst e
        exfalso
        rcases hp with ⟨a, _⟩ | ⟨a, _⟩ <;> (rw [hstn] at a; cases a)
      · exact ds_mono hev' (by rw [hst, if_neg e]) hp
    · intro hrf a ha
      rw [trace_append hev']
      apply ranFirst_stable
      rw [hst] at ha
      by_cases e : a = n
      · subst e
        rw [if_pos rfl] at ha
        cases ho : inp.outcome a <;> (rw [ho] at ha; simp [resStatus] at ha)
      · rw [if_neg e] at ha; exact hrf a ha

end DoitModel.Run
