import DoitModel.Proofs.RunLiveP
/-! # I9 — queue accounting of `MRunner.run_tasks`: every job handed out has a receiver, every worker not yet told to
    exit is counted in `proc_count`; at a normal end of the main loop nothing is left in flight -/
namespace DoitModel.Run

def isRun : WState → Bool
  | .running _ => true
  | _ => false

/-- number of workers among the first `k` that are executing a task -/
def cntRun (f : Nat → WState) : Nat → Nat
  | 0 => 0
  | k + 1 => cntRun f k + (if isRun (f k) then 1 else 0)

def isTaskJob : Job → Bool
  | .task _ => true
  | _ => false

def heldTask (s : Sys) : Nat :=
  match s.rpc with
  | .gRet (.task _) _ => 1
  | _ => 0

/-- outstanding work: task jobs queued or held, tasks being executed, results not yet processed -/
def outst (s : Sys) : Nat := s.jobQ.countP isTaskJob + heldTask s + cntRun s.workers s.nStarted + s.resQ.length

/-- `get_next_job` calls of the current feed round still to be accounted for -/
def kRem (s : Sys) : Nat :=
  match s.rpc with
  | .gEntry _ (.feedLoop k) => k
  | .gLoop _ (.feedLoop k) => k
  | .gWait (.feedLoop k) => k
  | .gRet .stop (.feedLoop k) => k
  | .gRet _ (.feedLoop k) => k - 1
  | _ => 0

def feedK (s : Sys) : Option Nat :=
  match s.rpc with
  | .gEntry _ (.feedLoop k) => some k
  | .gLoop _ (.feedLoop k) => some k
  | .gWait (.feedLoop k) => some k
  | .gRet _ (.feedLoop k) => some k
  | _ => none

def inStart (s : Sys) : Bool :=
  match s.rpc with
  | .gEntry _ (.startLoop _) => true
  | .gLoop _ (.startLoop _) => true
  | .gWait (.startLoop _) => true
  | .gRet _ (.startLoop _) => true
  | _ => false

def pendStart (s : Sys) : Nat :=
  match s.rpc with
  | .gRet .stop (.startLoop _) => 0
  | .gRet _ (.startLoop _) => 1
  | _ => 0

def afterLoop (s : Sys) : Prop := s.rpc = .pJoin ∨ s.rpc = .fin ∨ s.rpc = .halted
def atRest (s : Sys) : Prop := s.rpc = .pTop ∨ afterLoop s

structure Inv5 (s : Sys) : Prop where
  ns : ∀ w, w ≥ s.nStarted → s.workers w = .notStarted
  kp : ∀ k, feedK s = some k → k ≥ 1
  accS : inStart s = true → s.nStarted + pendStart s = outst s + s.freeProc
  accM : inStart s = false → s.halt = .none → s.procCount ≥ ((outst s + s.freeProc + kRem s : Nat) : Int)
  pz : afterLoop s → s.halt = .none → s.procCount = 0
  gr : ∀ job ret, s.rpc = .gRet job ret → s.stop = false →
    (job = .stop → s.susp = some .stopIter) ∧ (∀ n, job = .task n → s.susp = some (.node n)) ∧
    (job = .hold → s.susp = some .holdOn ∧ s.freeProc ≥ 1)
  sx : atRest s → s.stop = false → s.halt = .none →
    s.susp = some .stopIter ∨ (∃ n, s.susp = some (.node n) ∧ InFlight s n) ∨ (s.susp = some .holdOn ∧ s.freeProc ≥ 1)

theorem cntRun_congr {f g : Nat → WState} : ∀ k, (∀ i, i < k → f i = g i) → cntRun f k = cntRun g k := by
  intro k
  induction k with
  | zero => intro _; rfl
  | succ k ih =>
    intro h
    simp only [cntRun]
    rw [ih (fun i hi => h i (by omega)), h k (by omega)]

theorem cntRun_update (f : Nat → WState) (w : Nat) (st : WState) : ∀ k, w < k →
    cntRun (fun i => if i = w then st else f i) k + (if isRun (f w) then 1 else 0) =
      cntRun f k + (if isRun st then 1 else 0) := by
  intro k
  induction k with
  | zero => intro h; omega
  | succ k ih =>
    intro h
    simp only [cntRun]
    by_cases e : k = w
    · subst e
      have : cntRun (fun i => if i = k then st else f i) k = cntRun f k :=
        cntRun_congr k (fun i hi => by simp [Nat.ne_of_lt hi])
      simp only [this, if_true]; omega
    · have := ih (by omega)
      simp only [e, if_false]; omega

theorem cntRun_pos {f : Nat → WState} {w : Nat} : ∀ k, w < k → isRun (f w) = true → cntRun f k ≥ 1 := by
  intro k
  induction k with
  | zero => intro h; omega
  | succ k ih =>
    intro h hr
    simp only [cntRun]
    by_cases e : k = w
    · subst e; simp [hr]
    · have := ih (by omega) hr; omega


/-- a worker step: the runner's position and counters are untouched, outstanding work is conserved -/
theorem inv5_worker {s s' : Sys} (h : Inv5 s) (e1 : s'.rpc = s.rpc) (e2 : s'.susp = s.susp) (e3 : s'.stop = s.stop)
    (e4 : s'.halt = s.halt) (e5 : s'.procCount = s.procCount) (e6 : s'.freeProc = s.freeProc)
    (e7 : s'.nStarted = s.nStarted) (ho : outst s' = outst s)
    (hns : ∀ w, w ≥ s.nStarted → s'.workers w = .notStarted) (hfl : ∀ n, InFlight s n → InFlight s' n) : Inv5 s' := by
  have k1 : kRem s' = kRem s := by simp [kRem, e1]
  have k2 : feedK s' = feedK s := by simp [feedK, e1]
  have k3 : inStart s' = inStart s := by simp [inStart, e1]
  have k4 : pendStart s' = pendStart s := by simp [pendStart, e1]
  refine ⟨by rw [e7]; exact hns, by rw [k2]; exact h.kp, ?_, ?_, ?_, ?_, ?_⟩
  · intro a; rw [e7, k4, ho, e6]; exact h.accS (k3 ▸ a)
  · intro a b; rw [e5, ho, e6, k1]; exact h.accM (k3 ▸ a) (e4 ▸ b)
  · intro a b; rw [e5]; exact h.pz (by unfold afterLoop at *; rw [e1] at a; exact a) (e4 ▸ b)
  · intro job ret a b; rw [e2, e6]; exact h.gr job ret (e1 ▸ a) (e3 ▸ b)
  · intro a b c
    have a' : atRest s := by unfold atRest afterLoop at *; rw [e1] at a; exact a
    rcases h.sx a' (e3 ▸ b) (e4 ▸ c) with x | ⟨n, x, y⟩ | x
    · exact Or.inl (by rw [e2]; exact x)
    · exact Or.inr (Or.inl ⟨n, by rw [e2]; exact x, hfl n y⟩)
    · exact Or.inr (Or.inr (by rw [e2, e6]; exact x))

theorem takeStep_inv5 {inp : RunInput} {s s' : Sys} {w : Nat} (h : Inv5 s)
    (hs : takeStep inp s w = some s') : Inv5 s' := by
  unfold takeStep at hs
  by_cases hidle : s.workers w = .idle
  case neg => simp only [hidle, if_false] at hs; cases hs
  simp only [hidle, if_true] at hs
  have wlt : w < s.nStarted := by
    by_cases e : w < s.nStarted
    · exact e
    · have := h.ns w (by omega); rw [hidle] at this; cases this
  have nsSet : ∀ (st : WState) k, k ≥ s.nStarted → (setWorker s w st).workers k = .notStarted := fun st k hk => by
    have : k ≠ w := by omega
    simp [setWorker, this, h.ns k hk]
  cases hq : s.jobQ with
  | nil => simp only [hq] at hs; cases hs
  | cons j js =>
    simp only [hq] at hs
    cases j with
    | hold =>
      cases hs
      refine inv5_worker h rfl rfl rfl rfl rfl rfl rfl ?_ h.ns ?_
      · simp [outst, heldTask, hq, List.countP_cons, isTaskJob]
      · intro n hn
        rcases hn with a | a | a | a
        · rw [hq] at a; rcases List.mem_cons.mp a with x | x
          · cases x
          · exact Or.inl x
        · exact Or.inr (Or.inl a)
        · exact Or.inr (Or.inr (Or.inl a))
        · exact Or.inr (Or.inr (Or.inr a))
    | stop =>
      cases hs
      refine inv5_worker h rfl rfl rfl rfl rfl rfl rfl ?_ (nsSet _) ?_
      · have := cntRun_update s.workers w .exited s.nStarted wlt
        simp only [hidle, isRun, Bool.false_eq_true, if_false, Nat.add_zero] at this
        simp only [outst, heldTask, hq, List.countP_cons, isTaskJob, setWorker]
        simp [this]
      · intro n hn
        rcases hn with a | a | a | a
        · rw [hq] at a; rcases List.mem_cons.mp a with x | x
          · cases x
          · exact Or.inl x
        · exact Or.inr (Or.inl a)
        · obtain ⟨v, hv⟩ := a
          have : v ≠ w := by intro e; subst e; rw [hidle] at hv; cases hv
          exact Or.inr (Or.inr (Or.inl ⟨v, by simp [setWorker, this, hv]⟩))
        · exact Or.inr (Or.inr (Or.inr a))
    | task n =>
      cases hs
      refine inv5_worker h rfl rfl rfl rfl rfl rfl rfl ?_
        (fun k hk => by have : k ≠ w := by omega
                        simp [setWorker, startTask, this, h.ns k hk]) ?_
      · have := cntRun_update s.workers w (.running n) s.nStarted wlt
        simp only [hidle, isRun, Bool.false_eq_true, if_false, Nat.add_zero, if_true] at this
        simp only [outst, heldTask, hq, List.countP_cons, isTaskJob, setWorker, startTask]
        simp only [if_true]
        show js.countP isTaskJob + _ + cntRun (fun k => if k = w then WState.running n else s.workers k) s.nStarted + _ = _
        rw [this]; omega
      · intro m hm
        rcases hm with a | a | a | a
        · rw [hq] at a; rcases List.mem_cons.mp a with x | x
          · cases x; exact Or.inr (Or.inr (Or.inl ⟨w, by simp [setWorker]⟩))
          · exact Or.inl x
        · exact Or.inr (Or.inl a)
        · obtain ⟨v, hv⟩ := a
          have : v ≠ w := by intro e; subst e; rw [hidle] at hv; cases hv
          exact Or.inr (Or.inr (Or.inl ⟨v, by simp [setWorker, startTask, this, hv]⟩))
        · exact Or.inr (Or.inr (Or.inr a))

theorem doneStep_inv5 {s s' : Sys} {w : Nat} (h : Inv5 s) (hs : doneStep s w = some s') : Inv5 s' := by
  unfold doneStep at hs
  cases hw : s.workers w with
  | running n =>
    simp only [hw] at hs; cases hs
    have wlt : w < s.nStarted := by
      by_cases e : w < s.nStarted
      · exact e
      · have := h.ns w (by omega); rw [hw] at this; cases this
    refine inv5_worker h rfl rfl rfl rfl rfl rfl rfl ?_
      (fun k hk => by have : k ≠ w := by omega
                      simp [setWorker, this, h.ns k hk]) ?_
    · have := cntRun_update s.workers w .idle s.nStarted wlt
      simp only [hw, isRun, if_true, Bool.false_eq_true, if_false, Nat.add_zero] at this
      simp only [outst, heldTask, setWorker, List.length_append, List.length_singleton]
      show _ + _ + cntRun (fun k => if k = w then WState.idle else s.workers k) s.nStarted + _ = _
      omega
    · intro m hm
      rcases hm with a | a | a | a
      · exact Or.inl a
      · exact Or.inr (Or.inl a)
      · obtain ⟨v, hv⟩ := a
        by_cases e : v = w
        · subst e; rw [hw] at hv; cases hv
          exact Or.inr (Or.inr (Or.inr (by simp)))
        · exact Or.inr (Or.inr (Or.inl ⟨v, by simp [setWorker, e, hv]⟩))
      · exact Or.inr (Or.inr (Or.inr (by simp [a])))
  | notStarted => simp only [hw] at hs; cases hs
  | idle => simp only [hw] at hs; cases hs
  | exited => simp only [hw] at hs; cases hs


theorem applySel_frame2 (inp : RunInput) (s : Sys) (n : Name) (nd : Node) (d : Sel) :
    (applySel inp s n nd d).freeProc = s.freeProc ∧ (applySel inp s n nd d).procCount = s.procCount ∧
    (applySel inp s n nd d).nStarted = s.nStarted ∧ (applySel inp s n nd d).halt = s.halt ∧
    ((applySel inp s n nd d).stop = false → s.stop = false) := by
  cases d <;> simp [applySel, failNode, setNode] <;> (intro h; split at h <;> simp_all)

theorem processResult_frame2 (inp : RunInput) (s : Sys) (n : Name) (nd : Node) :
    (processResult inp s n nd).freeProc = s.freeProc ∧ (processResult inp s n nd).procCount = s.procCount ∧
    (processResult inp s n nd).nStarted = s.nStarted ∧ (processResult inp s n nd).halt = s.halt ∧
    ((processResult inp s n nd).stop = false → s.stop = false) := by
  unfold processResult
  cases inp.outcome n <;> simp [failNode, setNode] <;> (intro h; split at h <;> simp_all)

/-- a step of the main thread that keeps queues and counters and stays inside `get_next_job` (positions `gEntry`,
    `gLoop`, `gWait` with the same return address) -/
theorem inv5_inner {s s' : Sys} (h : Inv5 s) (e3 : s'.stop = false → s.stop = false)
    (e4 : s'.halt = s.halt) (e5 : s'.procCount = s.procCount) (e6 : s'.freeProc = s.freeProc)
    (e7 : s'.nStarted = s.nStarted) (e8 : s'.jobQ = s.jobQ) (e9 : s'.resQ = s.resQ) (e10 : s'.workers = s.workers)
    (hk : kRem s' = kRem s) (hf : feedK s' = feedK s) (hi : inStart s' = inStart s) (hp : pendStart s' = pendStart s)
    (hh : heldTask s' = heldTask s) (hnr : ∀ job ret, s'.rpc ≠ .gRet job ret) (hna : ¬ atRest s') : Inv5 s' := by
  have ho : outst s' = outst s := by simp [outst, e8, e9, e10, e7, hh]
  refine ⟨by rw [e7, e10]; exact h.ns, by rw [hf]; exact h.kp, ?_, ?_, ?_, ?_, ?_⟩
  · intro a; rw [e7, hp, ho, e6]; exact h.accS (hi ▸ a)
  · intro a b; rw [e5, ho, e6, hk]; exact h.accM (hi ▸ a) (e4 ▸ b)
  · intro a; exact absurd (Or.inr a) hna
  · intro job ret a; exact absurd a (hnr job ret)
  · intro a; exact absurd a hna


theorem cntRun_start (f : Nat → WState) (n : Nat) :
    cntRun (fun k => if k = n then WState.idle else f k) (n + 1) = cntRun f n := by
  simp only [cntRun, if_true, isRun, Bool.false_eq_true, if_false, Nat.add_zero]
  exact cntRun_congr n (fun i hi => by simp [Nat.ne_of_lt hi])

theorem countP_task_append (q : List Job) (j : Job) :
    (q ++ [j]).countP isTaskJob = q.countP isTaskJob + (if isTaskJob j then 1 else 0) := by
  simp [List.countP_append, List.countP_cons]

theorem outst_enqueue (s s1 : Sys) (job : Job) (hjq : s1.jobQ = s.jobQ ++ [job]) (hres : s1.resQ = s.resQ)
    (hcr : cntRun s1.workers s1.nStarted = cntRun s.workers s.nStarted) (hh : heldTask s1 = 0)
    (held : heldTask s = if isTaskJob job then 1 else 0) : outst s1 = outst s := by
  simp only [outst, hjq, hres, hcr, hh, countP_task_append, held]; omega

/-- `get_next_job` returns its job to the start loop / the feed loop -/
theorem gReturn_inv5 {s : Sys} {job : Job} {ret : Ret} (h : Inv5 s) (hr : s.rpc = .gRet job ret) :
    Inv5 (gReturn s job ret) := by
  have hgr := h.gr job ret hr
  have held : heldTask s = (if isTaskJob job then 1 else 0) := by
    simp only [heldTask, hr]; cases job <;> rfl
  -- the job, once queued, keeps the node it came with in flight
  have sxOf : ∀ s1 : Sys, s1.susp = s.susp → s1.freeProc = s.freeProc → s1.stop = s.stop →
      (∀ n, job = .task n → Job.task n ∈ s1.jobQ) → s1.stop = false →
      s1.susp = some .stopIter ∨ (∃ n, s1.susp = some (.node n) ∧ InFlight s1 n) ∨
        (s1.susp = some .holdOn ∧ s1.freeProc ≥ 1) := by
    intro s1 e1 e2 e3 hq hst
    obtain ⟨g1, g2, g3⟩ := hgr (e3 ▸ hst)
    cases job with
    | stop => exact Or.inl (by rw [e1]; exact g1 rfl)
    | task n => exact Or.inr (Or.inl ⟨n, by rw [e1]; exact g2 n rfl, Or.inl (hq n rfl)⟩)
    | hold => exact Or.inr (Or.inr (by rw [e1, e2]; exact g3 rfl))
  cases ret with
  | startLoop k =>
    have hS : inStart s = true := by simp [inStart, hr]
    have hacc := h.accS hS
    simp only [gReturn]
    split
    · -- `None`: no more process is started
      rename_i hj; subst hj
      have hp : pendStart s = 0 := by simp [pendStart, hr]
      refine ⟨h.ns, fun k e => by simp [feedK] at e, fun a => by simp [inStart] at a, ?_, ?_, ?_, ?_⟩
      · intro _ _
        have ho : outst { s with rpc := .pTop, procCount := (s.nStarted : Int) } = outst s := by
          simp [outst, heldTask, hr]
        rw [ho]; simp only [kRem]; show (s.nStarted : Int) ≥ _; omega
      · intro a; rcases a with a | a | a <;> cases a
      · intro job ret a; cases a
      · intro _ b _; exact sxOf _ rfl rfl rfl (fun n e => by cases e) b
    · rename_i hj
      have hp : pendStart s = 1 := by
        simp only [pendStart, hr] <;> (cases job <;> first | rfl | exact absurd rfl hj)
      have nsNew : ∀ w, w ≥ s.nStarted + 1 → (setWorker s s.nStarted .idle).workers w = .notStarted := by
        intro w hw
        have : w ≠ s.nStarted := by omega
        simp [setWorker, this, h.ns w (by omega)]
      split
      · refine ⟨nsNew, fun k e => by simp [feedK] at e, fun a => by simp [inStart] at a, ?_, ?_, ?_, ?_⟩
        · intro _ _
          rw [outst_enqueue s _ job (by rfl) (by rfl) (by exact cntRun_start s.workers s.nStarted) (by rfl) held]
          simp only [kRem]
          show ((s.nStarted + 1 : Nat) : Int) ≥ ((outst s + s.freeProc + 0 : Nat) : Int)
          omega
        · intro a; rcases a with a | a | a <;> cases a
        · intro job ret a; cases a
        · intro _ b _; exact sxOf _ rfl rfl rfl (fun n e => by simp [e]) b
      · refine ⟨nsNew, fun k e => by simp [feedK] at e, ?_, fun a => by simp [inStart] at a, ?_, ?_, ?_⟩
        · intro _
          rw [outst_enqueue s _ job (by rfl) (by rfl) (by exact cntRun_start s.workers s.nStarted) (by rfl) held]
          simp only [pendStart]
          show s.nStarted + 1 + 0 = outst s + s.freeProc; omega
        · intro a; rcases a with a | a | a <;> cases a
        · intro job ret a; cases a
        · intro a; rcases a with a | a | a | a <;> cases a
  | feedLoop k =>
    have hS : inStart s = false := by simp [inStart, hr]
    have hk1 : k ≥ 1 := h.kp k (by simp [feedK, hr])
    have hkr : kRem s = (if job = .stop then k else k - 1) := by
      simp only [kRem, hr]; cases job <;> simp
    simp only [gReturn]
    split
    · split
      · refine ⟨h.ns, fun k e => by simp [feedK] at e, fun a => by simp [inStart] at a, ?_, ?_, ?_, ?_⟩
        · intro _ b
          have := h.accM hS b
          rw [outst_enqueue s _ job (by rfl) (by rfl) (by rfl) (by rfl) held]
          rw [hkr] at this; simp only [kRem]
          show (if job = .stop then s.procCount - 1 else s.procCount) ≥ ((outst s + s.freeProc + 0 : Nat) : Int)
          by_cases e : job = .stop <;> simp only [e, if_true, if_false] at this ⊢ <;> omega
        · intro a; rcases a with a | a | a <;> cases a
        · intro job ret a; cases a
        · intro _ b _; exact sxOf _ rfl rfl rfl (fun n e => by simp [e]) b
      · -- the assertion `len(proc_list) > free_proc` fails: the run is aborted
        refine ⟨h.ns, fun k e => by simp [feedK, raise] at e, fun a => by simp [inStart, raise] at a,
          fun _ b => by simp [raise] at b, fun _ b => by simp [raise] at b, fun job ret a => by simp [raise] at a,
          fun _ _ c => by simp [raise] at c⟩
    · have hk2 : k - 1 ≥ 1 := by omega
      refine ⟨h.ns, fun k' e => by simp [feedK] at e; omega, fun a => by simp [inStart] at a, ?_, ?_, ?_, ?_⟩
      · intro _ b
        have := h.accM hS b
        rw [outst_enqueue s _ job (by rfl) (by rfl) (by rfl) (by rfl) held]
        rw [hkr] at this; simp only [kRem]
        show (if job = .stop then s.procCount - 1 else s.procCount) ≥ ((outst s + s.freeProc + (k - 1) : Nat) : Int)
        by_cases e : job = .stop <;> simp only [e, if_true, if_false] at this ⊢ <;> omega
      · intro a; rcases a with a | a | a <;> cases a
      · intro job ret a; cases a
      · intro a; rcases a with a | a | a | a <;> cases a


theorem inv5_raise {s : Sys} (h : Inv5 s) (hl : Halt) (hne : hl ≠ .none) : Inv5 (raise s hl) :=
  ⟨h.ns, fun k e => by simp [feedK, raise] at e, fun a => by simp [inStart, raise] at a,
   fun _ b => absurd b hne, fun _ b => absurd b hne, fun job ret a => by simp [raise] at a,
   fun _ _ c => absurd c hne⟩

theorem pTopResult_inv5 {inp : RunInput} {s : Sys} {n : Name} {rest : List Name} {nd : Node} (h : Inv5 s)
    (hr : s.rpc = .pTop) (hq : s.resQ = n :: rest) :
    Inv5 { processResult inp { s with resQ := rest } n nd with
           rpc := .gEntry (some n) (.feedLoop (s.freeProc + 1)), freeProc := 0 } := by
  have hS : inStart s = false := by simp [inStart, hr]
  obtain ⟨f1, f2, f3, f4, f5, f6, f7, f8⟩ := processResult_frame inp { s with resQ := rest } n nd
  obtain ⟨g1, g2, g3, g4, g5⟩ := processResult_frame2 inp { s with resQ := rest } n nd
  have hh : heldTask s = 0 := by simp [heldTask, hr]
  have ho : outst { processResult inp { s with resQ := rest } n nd with
      rpc := .gEntry (some n) (.feedLoop (s.freeProc + 1)), freeProc := 0 } + 1 = outst s := by
    unfold outst
    rw [hh]
    show (processResult inp { s with resQ := rest } n nd).jobQ.countP isTaskJob + 0 +
      cntRun (processResult inp { s with resQ := rest } n nd).workers
        (processResult inp { s with resQ := rest } n nd).nStarted +
      (processResult inp { s with resQ := rest } n nd).resQ.length + 1 = _
    rw [f6, f8, g3, f7, hq]
    simp only [List.length_cons]
    rfl
  refine ⟨?_, ?_, (fun a => by simp [inStart] at a), ?_, ?_, (fun job ret a => by cases a), ?_⟩
  · show ∀ w, w ≥ (processResult inp { s with resQ := rest } n nd).nStarted →
      (processResult inp { s with resQ := rest } n nd).workers w = _
    rw [g3, f8]; exact h.ns
  · intro k e; simp [feedK] at e; omega
  · intro _ b
    have hb : s.halt = .none := by
      have : (processResult inp { s with resQ := rest } n nd).halt = .none := b
      rw [g4] at this; exact this
    have := h.accM hS hb
    simp only [kRem, hr] at this
    rw [← ho] at this
    have key : s.procCount ≥ ((outst { processResult inp { s with resQ := rest } n nd with
        rpc := .gEntry (some n) (.feedLoop (s.freeProc + 1)), freeProc := 0 } + 0 + (s.freeProc + 1) : Nat) : Int) := by
      omega
    show (processResult inp { s with resQ := rest } n nd).procCount ≥ _
    rw [g2]; exact key
  · intro a; rcases a with a | a | a <;> cases a
  · intro a; rcases a with a | a | a | a <;> cases a

theorem mainStep_inv5 {inp : RunInput} {s s' : Sys} {perm : List Name} (h : Inv5 s) (h2 : Inv2 inp s)
    (hs : mainStep inp s perm = some s') : Inv5 s' := by
  unfold mainStep at hs
  cases hr : s.rpc with
  | gEntry completed ret =>
    simp only [hr] at hs
    split at hs
    · rename_i hstop
      cases hs
      have ho : outst { s with rpc := .gRet .stop ret } = outst s := by simp [outst, heldTask, hr]
      refine ⟨h.ns, ?_, ?_, ?_, ?_, ?_, ?_⟩
      · intro k e; apply h.kp k; cases ret <;> simp_all [feedK]
      · intro a; rw [ho]
        have : inStart s = true := by cases ret <;> simp_all [inStart]
        have := h.accS this
        cases ret <;> simp_all [pendStart, inStart]
      · intro a b; rw [ho]
        have hi : inStart s = false := by cases ret <;> simp_all [inStart]
        have := h.accM hi b
        cases ret <;> simp_all [kRem, inStart]
      · intro a; rcases a with a | a | a <;> cases a
      · intro job ret' a b; rw [hstop] at b; cases b
      · intro a; rcases a with a | a | a | a <;> cases a
    · cases hs
      refine inv5_inner h (fun a => a) rfl rfl rfl rfl rfl rfl rfl ?_ ?_ ?_ ?_ ?_ (fun _ _ a => by cases a) ?_
      · cases ret <;> simp [kRem, hr]
      · cases ret <;> simp [feedK, hr]
      · cases ret <;> simp [inStart, hr]
      · cases ret <;> simp [pendStart, hr]
      · simp [heldTask, hr]
      · intro a; rcases a with a | a | a | a <;> cases a
  | gLoop node ret =>
    simp only [hr] at hs
    cases hsd : send inp s node perm with
    | none => simp only [hsd] at hs; cases hs
    | some s0 =>
      simp only [hsd] at hs; cases hs
      obtain ⟨⟨_, _, o3, o4, o5, o6, _, _, o9, o10, o11, o12⟩, _⟩ := send_outer hsd
      refine inv5_inner h (fun a => by rw [← o6]; exact a) o9 o11 o10 o12 o3 o4 o5 ?_ ?_ ?_ ?_ ?_
        (fun _ _ a => by cases a) ?_
      · cases ret <;> simp [kRem, hr]
      · cases ret <;> simp [feedK, hr]
      · cases ret <;> simp [inStart, hr]
      · cases ret <;> simp [pendStart, hr]
      · simp [heldTask, hr]
      · intro a; rcases a with a | a | a | a <;> cases a
  | gWait ret =>
    simp only [hr] at hs
    have inner : ∀ s1 : Sys, (s1.stop = false → s.stop = false) → s1.halt = s.halt → s1.procCount = s.procCount →
        s1.freeProc = s.freeProc → s1.nStarted = s.nStarted → s1.jobQ = s.jobQ → s1.resQ = s.resQ →
        s1.workers = s.workers → (s1.rpc = .gWait ret ∨ ∃ m, s1.rpc = .gLoop m ret) → Inv5 s1 := by
      intro s1 e3 e4 e5 e6 e7 e8 e9 e10 hrpc
      refine inv5_inner h e3 e4 e5 e6 e7 e8 e9 e10 ?_ ?_ ?_ ?_ ?_ ?_ ?_
      · rcases hrpc with e | ⟨m, e⟩ <;> (cases ret <;> simp [kRem, hr, e])
      · rcases hrpc with e | ⟨m, e⟩ <;> (cases ret <;> simp [feedK, hr, e])
      · rcases hrpc with e | ⟨m, e⟩ <;> (cases ret <;> simp [inStart, hr, e])
      · rcases hrpc with e | ⟨m, e⟩ <;> (cases ret <;> simp [pendStart, hr, e])
      · rcases hrpc with e | ⟨m, e⟩ <;> simp [heldTask, hr, e]
      · intro job r a; rcases hrpc with e | ⟨m, e⟩ <;> (rw [e] at a; cases a)
      · intro a; rcases hrpc with e | ⟨m, e⟩ <;> (rcases a with a | a | a | a <;> (rw [e] at a; cases a))
    -- `get_next_job` has its answer: a job other than a task
    have answer : ∀ (j : Job) (fp : Nat) (su : Option DOut), (∀ n, j ≠ .task n) → (j = .hold → fp = s.freeProc + 1) →
        (j = .stop → fp = s.freeProc) → s.susp = su →
        (s.stop = false → (j = .stop → su = some .stopIter) ∧ (j = .hold → su = some .holdOn)) →
        Inv5 { s with freeProc := fp, rpc := .gRet j ret } := by
      intro j fp su hj hh1 hh2 hsu hsx
      have hjj : j = .hold ∨ j = .stop := by cases j <;> simp_all
      have ho : outst { s with freeProc := fp, rpc := .gRet j ret } = outst s := by
        simp only [outst, heldTask, hr]; cases j <;> simp_all
      refine ⟨h.ns, ?_, ?_, ?_, ?_, ?_, ?_⟩
      · intro k e; apply h.kp k; cases ret <;> simp_all [feedK]
      · intro a; rw [ho]
        have hi : inStart s = true := by cases ret <;> simp_all [inStart]
        have := h.accS hi
        rcases hjj with e | e
        · subst e; cases ret <;> simp_all [pendStart, inStart] <;> omega
        · subst e; cases ret <;> simp_all [pendStart, inStart]
      · intro a b; rw [ho]
        have hi : inStart s = false := by cases ret <;> simp_all [inStart]
        have := h.accM hi b
        have hk := h.kp
        rcases hjj with e | e
        · subst e
          cases ret with
          | startLoop k => simp [inStart] at a
          | feedLoop k =>
            have hk1 := hk k (by simp [feedK, hr])
            simp only [kRem, hr] at this ⊢
            show s.procCount ≥ ((outst s + fp + (k - 1) : Nat) : Int)
            rw [hh1 rfl]; omega
        · subst e
          cases ret with
          | startLoop k => simp [inStart] at a
          | feedLoop k =>
            simp only [kRem, hr] at this ⊢
            show s.procCount ≥ ((outst s + fp + k : Nat) : Int)
            rw [hh2 rfl]; exact this
      · intro a; rcases a with a | a | a <;> cases a
      · intro job r a b
        cases a
        have := hsx b
        refine ⟨fun e => by rw [← hsu] at this; exact this.1 e, fun n e => absurd e (hj n), fun e => ?_⟩
        exact ⟨by rw [← hsu] at this; exact this.2 e, by show fp ≥ 1; rw [hh1 e]; omega⟩
      · intro a; rcases a with a | a | a | a <;> cases a
    cases hsu : s.susp with
    | none =>
      simp only [hsu] at hs
      obtain ⟨_, o2, o3, o4, o5, o6, _, _, o9, o10, o11, o12⟩ := dtick_outer hs
      exact inner _ (fun a => by rw [← o6]; exact a) o9 o11 o10 o12 o3 o4 o5 (Or.inl (o2.trans hr))
    | some o =>
      simp only [hsu] at hs
      cases o with
      | init => cases hs
      | node n =>
        simp only [] at hs
        cases hn : s.nodes n with
        | none => simp only [hn] at hs; cases hs; exact inv5_raise h _ (by simp)
        | some nd =>
          simp only [hn] at hs
          have other : ∀ d, d ≠ .go → Inv5 { applySel inp s n nd d with rpc := .gLoop (some n) ret } := by
            intro d _
            obtain ⟨f1, f2, f3, f4, f5, f6, f7, f8⟩ := applySel_frame inp s n nd d
            obtain ⟨g1, g2, g3, g4, g5⟩ := applySel_frame2 inp s n nd d
            exact inner _ g5 g4 g2 g1 g3 f6 f7 f8 (Or.inr ⟨_, rfl⟩)
          cases hd : selDecision inp n nd with
          | go =>
            simp only [hd] at hs; cases hs
            obtain ⟨f1, f2, f3, f4, f5, f6, f7, f8⟩ := applySel_frame inp s n nd .go
            obtain ⟨g1, g2, g3, g4, g5⟩ := applySel_frame2 inp s n nd .go
            have ho : outst { applySel inp s n nd .go with rpc := .gRet (.task n) ret } = outst s + 1 := by
              simp only [outst, heldTask, hr]
              show (applySel inp s n nd .go).jobQ.countP _ + 1 + cntRun (applySel inp s n nd .go).workers
                (applySel inp s n nd .go).nStarted + (applySel inp s n nd .go).resQ.length = _
              rw [f6, f8, g3, f7]; omega
            refine ⟨by show ∀ w, w ≥ (applySel inp s n nd .go).nStarted → (applySel inp s n nd .go).workers w = _
                       rw [g3, f8]; exact h.ns, ?_, ?_, ?_, ?_, ?_, ?_⟩
            · intro k e; apply h.kp k; cases ret <;> simp_all [feedK]
            · intro a; rw [ho]
              have hi : inStart s = true := by cases ret <;> simp_all [inStart]
              have := h.accS hi
              show (applySel inp s n nd .go).nStarted + _ = _ + (applySel inp s n nd .go).freeProc
              rw [g3, g1]
              cases ret <;> simp_all [pendStart, inStart] <;> omega
            · intro a b; rw [ho]
              have hi : inStart s = false := by cases ret <;> simp_all [inStart]
              have hb : s.halt = .none := by rw [← g4]; exact b
              have := h.accM hi hb
              cases ret with
              | startLoop k => simp [inStart] at a
              | feedLoop k =>
                have hk1 := h.kp k (by simp [feedK, hr])
                simp only [kRem, hr] at this ⊢
                show (applySel inp s n nd .go).procCount ≥ ((outst s + 1 + (applySel inp s n nd .go).freeProc + (k - 1) : Nat) : Int)
                rw [g2, g1]; omega
            · intro a; rcases a with a | a | a <;> cases a
            · intro job r a b
              cases a
              refine ⟨(fun e => by cases e), (fun m e => by cases e; show (applySel inp s n nd .go).susp = _; rw [f4]; exact hsu),
                (fun e => by cases e)⟩
            · intro a; rcases a with a | a | a | a <;> cases a
          | assertFail => simp only [hd] at hs; cases hs; exact inv5_raise h _ (by simp)
          | skipIgn => simp only [hd] at hs; cases hs; exact other _ (by simp)
          | unmet => simp only [hd] at hs; cases hs; exact other _ (by simp)
          | depErr => simp only [hd] at hs; cases hs; exact other _ (by simp)
          | utd => simp only [hd] at hs; cases hs; exact other _ (by simp)
          | runFirst => simp only [hd] at hs; cases hs; exact other _ (by simp)
          | argsErr => simp only [hd] at hs; cases hs; exact other _ (by simp)
      | holdOn =>
        cases hs
        have := answer .hold (s.freeProc + 1) (some .holdOn) (fun n e => by cases e) (fun _ => rfl) (fun e => by cases e) hsu
          (fun _ => ⟨(fun e => by cases e), fun _ => rfl⟩)
        simpa [hsu] using this
      | stopIter =>
        cases hs
        have := answer .stop s.freeProc (some .stopIter) (fun n e => by cases e) (fun e => by cases e) (fun _ => rfl) hsu
          (fun _ => ⟨fun _ => rfl, (fun e => by cases e)⟩)
        simpa [hsu] using this
      | cyclic n => cases hs; exact inv5_raise h _ (by simp)
      | crash => cases hs; exact inv5_raise h _ (by simp)
  | gRet job ret => simp only [hr] at hs; cases hs; exact gReturn_inv5 h hr
  | pTop =>
    simp only [hr] at hs
    have hS : inStart s = false := by simp [inStart, hr]
    split at hs
    · rename_i hp0
      cases hs
      have ho : outst { s with rpc := .pJoin } = outst s := by simp [outst, heldTask, hr]
      refine ⟨h.ns, (fun k e => by simp [feedK] at e), (fun a => by simp [inStart] at a), ?_, fun _ _ => hp0, ?_, ?_⟩
      · intro _ b; rw [ho]; have := h.accM hS b; simpa [kRem, hr] using this
      · intro job ret a; cases a
      · intro _ b c
        rcases h.sx (Or.inl hr) b c with x | ⟨n, x, y⟩ | x
        · exact Or.inl x
        · refine Or.inr (Or.inl ⟨n, x, ?_⟩)
          rcases y with y | y | y | y
          · exact Or.inl y
          · simp [holding, hr] at y
          · exact Or.inr (Or.inr (Or.inl y))
          · exact Or.inr (Or.inr (Or.inr y))
        · exact Or.inr (Or.inr x)
    · cases hq : s.resQ with
      | nil => simp only [hq] at hs; cases hs
      | cons n rest =>
        simp only [hq] at hs
        cases hn : s.nodes n with
        | none => simp only [hn] at hs; cases hs; exact inv5_raise h _ (by simp)
        | some nd =>
          simp only [hn] at hs; cases hs
          have := pTopResult_inv5 (inp := inp) h hr hq (nd := nd)
          simp only [hr] at this; exact this
  | pJoin =>
    simp only [hr] at hs
    have hS : inStart s = false := by simp [inStart, hr]
    split at hs
    · cases hs
      have ho : outst { s with rpc := .fin } = outst s := by simp [outst, heldTask, hr]
      refine ⟨h.ns, (fun k e => by simp [feedK] at e), (fun a => by simp [inStart] at a), ?_,
        fun _ b => h.pz (Or.inl hr) b, (fun job ret a => by cases a), ?_⟩
      · intro _ b; rw [ho]; have := h.accM hS b; simpa [kRem, hr] using this
      · intro _ b c
        rcases h.sx (Or.inr (Or.inl hr)) b c with x | ⟨n, x, y⟩ | x
        · exact Or.inl x
        · refine Or.inr (Or.inl ⟨n, x, ?_⟩)
          rcases y with y | y | y | y
          · exact Or.inl y
          · simp [holding, hr] at y
          · exact Or.inr (Or.inr (Or.inl y))
          · exact Or.inr (Or.inr (Or.inr y))
        · exact Or.inr (Or.inr x)
    · cases hs
  | fin =>
    simp only [hr] at hs; cases hs
    have hS : inStart s = false := by simp [inStart, hr]
    have ho : outst (finishRun s) = outst s := by simp [outst, heldTask, hr, finishRun]
    refine ⟨h.ns, (fun k e => by simp [feedK, finishRun] at e), (fun a => by simp [inStart, finishRun] at a), ?_,
      fun _ b => h.pz (Or.inr (Or.inl hr)) b, (fun job ret a => by simp [finishRun] at a), ?_⟩
    · intro _ b; rw [ho]; have := h.accM hS b; simpa [kRem, hr, finishRun] using this
    · intro _ b c
      rcases h.sx (Or.inr (Or.inr (Or.inl hr))) b c with x | ⟨n, x, y⟩ | x
      · exact Or.inl x
      · refine Or.inr (Or.inl ⟨n, x, ?_⟩)
        rcases y with y | y | y | y
        · exact Or.inl y
        · simp [holding, hr] at y
        · exact Or.inr (Or.inr (Or.inl y))
        · exact Or.inr (Or.inr (Or.inr y))
      · exact Or.inr (Or.inr x)
  | sTop a => simp only [hr] at hs; cases hs
  | sWait => simp only [hr] at hs; cases hs
  | sExec a => simp only [hr] at hs; cases hs
  | halted => simp only [hr] at hs; cases hs


theorem init_inv5 (inp : RunInput) : Inv5 (init inp) := by
  have ho : outst (init inp) = 0 := by
    simp only [outst, heldTask, init, List.countP_nil, cntRun, List.length_nil]
    by_cases e : inp.runner = .serial <;> simp [e]
  refine ⟨fun _ _ => rfl, ?_, ?_, ?_, ?_, ?_, ?_⟩
  · intro k e; simp only [feedK, init] at e; by_cases x : inp.runner = .serial <;> simp [x] at e
  · intro _; rw [ho]; simp only [pendStart, init]; by_cases x : inp.runner = .serial <;> simp [x]
  · intro _ _; rw [ho]; simp only [kRem, init]; by_cases x : inp.runner = .serial <;> simp [x]
  · intro a; unfold afterLoop init at a; by_cases x : inp.runner = .serial <;> simp [x] at a
  · intro job ret a; simp only [init] at a; by_cases x : inp.runner = .serial <;> simp [x] at a
  · intro a; unfold atRest afterLoop init at a; by_cases x : inp.runner = .serial <;> simp [x] at a

theorem preach_inv5 {inp : RunInput} {s : Sys} (h : PReach inp s) : Inv5 s := by
  induction h with
  | init => exact init_inv5 inp
  | @next s0 s1 c hr hs ih =>
    cases c with
    | main perm => exact mainStep_inv5 ih (preach_inv hr).1 hs
    | take w => exact takeStep_inv5 ih hs
    | done w => exact doneStep_inv5 ih hs

/-- at a normal end of `MRunner.run_tasks` nothing is left in flight and the dispatcher generator is exhausted -/
theorem parallel_end_quiescent {inp : RunInput} {s : Sys} (hr : PReach inp s) (hh : s.rpc = .halted)
    (hhalt : s.halt = .none) (hstop : s.stop = false) :
    s.susp = some .stopIter ∧ ∀ t, ¬ InFlight s t := by
  have h5 := preach_inv5 hr
  have hS : inStart s = false := by simp [inStart, hh]
  have hp0 := h5.pz (Or.inr (Or.inr hh)) hhalt
  have hacc := h5.accM hS hhalt
  rw [hp0] at hacc
  have hz : outst s = 0 ∧ s.freeProc = 0 := by omega
  have hnf : ∀ t, ¬ InFlight s t := by
    intro t ht
    unfold outst at hz
    rcases ht with a | a | ⟨w, a⟩ | a
    · have : s.jobQ.countP isTaskJob ≥ 1 := by
        have : 0 < s.jobQ.countP isTaskJob := List.countP_pos_iff.mpr ⟨Job.task t, a, rfl⟩
        omega
      omega
    · simp [holding, hh] at a
    · by_cases e : w < s.nStarted
      · have := cntRun_pos (f := s.workers) s.nStarted e (by rw [a]; rfl); omega
      · have := h5.ns w (by omega); rw [a] at this; cases this
    · have : s.resQ.length ≥ 1 := List.length_pos_of_mem a
      omega
  refine ⟨?_, hnf⟩
  rcases h5.sx (Or.inr (Or.inr (Or.inr hh))) hstop hhalt with x | ⟨n, _, y⟩ | ⟨_, y⟩
  · exact x
  · exact absurd y (hnf n)
  · omega

/-- parallel runners: when the run ends because the dispatcher has nothing left, every member of the closure has
    exactly one terminal report -/
theorem all_processed_parallel {inp : RunInput} {s : Sys} (hr : PReach inp s) (hh : s.rpc = .halted)
    (hhalt : s.halt = .none) (hstop : s.stop = false) : ∀ t, RunCl inp s t → cTerm s t = 1 := by
  obtain ⟨a, b⟩ := parallel_end_quiescent hr hh hhalt hstop
  exact all_processed_parallel_partial hr a b

end DoitModel.Run
