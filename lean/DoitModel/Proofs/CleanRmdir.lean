import DoitModel.Proofs.CleanFrame
/-! Helper lemmas for C14, part 9: a target directory that contains only target files of the task is removed. -/
namespace DoitModel.Clean

theorem foldl_rm_removes (t : Name) (p : Path) :
    ∀ (l : List Path) (st : World × List Ev), p ∈ l → p ∉ (l.foldl (rmTarget false t) st).1.files :=
  fun l st hp => foldl_removes (rmTarget false t) (fun p => [p]) (rmTarget_frame false t) p (fun x => x = p)
    (fun st x hx => hx ▸ rmTarget_removes t st x) l st ⟨p, hp, rfl⟩

theorem rmTarget_links_nil (dry : Bool) (t : Name) (s : World × List Ev) (p : Path) (h : s.1.links = []) :
    (rmTarget dry t s p).1.links = [] := by
  unfold rmTarget
  have hl : (linkDest s.1 p).isSome = false := by simp [linkDest, h, alookup]
  simp only [hl, Bool.false_eq_true, if_false]
  split
  · cases dry <;> exact h
  · split
    · split
      · exact h
      · cases dry <;> exact h
    · exact h

theorem foldl_links_nil (dry : Bool) (t : Name) : ∀ (l : List Path) (s : World × List Ev), s.1.links = [] →
    (l.foldl (rmTarget dry t) s).1.links = [] := by
  intro l
  induction l with
  | nil => intro s h; exact h
  | cons x l ih => intro s h; simp only [List.foldl_cons]; exact ih _ (rmTarget_links_nil dry t s x h)

theorem rmTarget_rmdir (t : Name) (s : World × List Ev) (d : Path) (hnf : d ∉ s.1.files)
    (hl : s.1.links = []) (he : hasEntry s.1 d = false) : d ∉ (rmTarget false t s d).1.dirs := by
  unfold rmTarget
  have hl' : (linkDest s.1 d).isSome = false := by simp [linkDest, hl, alookup]
  simp only [hnf, if_false, hl', he, Bool.false_eq_true]
  split
  · simp
  · assumption

/-- a target directory whose whole content are target files of the same task is removed: the files inside are
    handled first (`sortDesc` puts them before the directory), so `os.listdir` finds it empty -/
theorem cleanTargets_rmdir (t : Name) (targets : List Path) (st : World × List Ev) (d : Path)
    (hd : d ∈ targets) (hnf : d ∉ st.1.files) (hnl : st.1.links = [])
    (hfiles : ∀ q, q ∈ st.1.files → below d q = true → q ∈ targets)
    (hdirs : ∀ q, q ∈ st.1.dirs → below d q = false) :
    d ∉ (cleanTargets false t targets st).1.dirs := by
  unfold cleanTargets
  obtain ⟨l1, l2, hs⟩ := List.append_of_mem ((mem_sortDesc targets d).2 hd)
  rw [hs, List.foldl_append, List.foldl_cons]
  have hf1 := foldl_frame (rmTarget false t) (fun p => [p]) (rmTarget_frame false t) l1 st
  -- after the part of the walk before `d`, nothing is left below `d`
  have hempty : hasEntry (l1.foldl (rmTarget false t) st).1 d = false := by
    unfold hasEntry
    rw [foldl_links_nil false t l1 st hnl, List.map_nil, List.append_nil, List.any_eq_false]
    intro q hq
    simp only [List.mem_append] at hq
    rcases hq with hq | hq
    · intro hb
      have hq0 := hf1.fsub q hq
      have hqt := hfiles q hq0 hb
      have hqs := (mem_sortDesc targets q).2 hqt
      rw [hs] at hqs
      simp only [List.mem_append, List.mem_cons] at hqs
      rcases hqs with h1 | h1 | h1
      · exact foldl_rm_removes t q l1 st h1 hq
      · rw [h1] at hq0; exact hnf hq0
      · have hdesc := desc_sortDesc targets
        rw [hs] at hdesc
        have h2 := (List.pairwise_cons.1 (List.pairwise_append.1 hdesc).2.1).1 q h1
        rw [not_pathLe_of_prefix '/' d q hb] at h2
        exact absurd h2 (by simp)
    · have := hdirs q (hf1.dsub q hq)
      simp [this]
  have hnf1 : d ∉ (l1.foldl (rmTarget false t) st).1.files := fun h => hnf (hf1.fsub d h)
  have hstep : d ∉ (rmTarget false t (l1.foldl (rmTarget false t) st) d).1.dirs :=
    rmTarget_rmdir t _ d hnf1 (foldl_links_nil false t l1 st hnl) hempty
  have hf2 := foldl_frame (rmTarget false t) (fun p => [p]) (rmTarget_frame false t) l2
    (rmTarget false t (l1.foldl (rmTarget false t) st) d)
  exact fun h => hstep (hf2.dsub d h)

/-! ### without symbolic links the command never reaches the `os.rmdir`-on-a-link crash -/
/-- no symbolic link in the world, no crash event so far -/
def NoLinkNoCrash (st : World × List Ev) : Prop := st.1.links = [] ∧ ∀ e, e ∈ st.2 → isCrash e = false

theorem rmTarget_nlnc (dry : Bool) (t : Name) (st : World × List Ev) (p : Path) (h : NoLinkNoCrash st) :
    NoLinkNoCrash (rmTarget dry t st p) := by
  refine ⟨rmTarget_links_nil dry t st p h.1, ?_⟩
  unfold rmTarget
  have hl : (linkDest st.1 p).isSome = false := by simp [linkDest, h.1, alookup]
  simp only [hl, Bool.false_eq_true, if_false]
  intro e he
  split at he
  · simp only [List.mem_append, List.mem_singleton] at he
    rcases he with he | he
    · exact h.2 e he
    · rw [he]; rfl
  · split at he
    · split at he <;>
      · simp only [List.mem_append, List.mem_singleton] at he
        rcases he with he | he
        · exact h.2 e he
        · rw [he]; rfl
    · exact h.2 e he

theorem applyEff_links (e : Option Eff) (w : World) : (applyEff e w).links = w.links := by
  cases e with
  | none => rfl
  | some e =>
    cases e with
    | rm p => rfl
    | mk p => simp only [applyEff]; split <;> rfl

theorem runAct_nlnc (dry : Bool) (t : Name) (k : Nat) (a : Act) (st : World × List Ev) (h : NoLinkNoCrash st) :
    NoLinkNoCrash (runAct dry t k a st) := by
  unfold runAct
  split
  · refine ⟨?_, ?_⟩
    · cases dry
      · simp only [Bool.false_eq_true, if_false]; rw [applyEff_links]; exact h.1
      · exact h.1
    · intro e he
      simp only [List.mem_append, List.mem_cons, List.not_mem_nil, or_false] at he
      rcases he with he | he | he
      · exact h.2 e he
      · rw [he]; rfl
      · rw [he]; split <;> rfl
  · refine ⟨h.1, ?_⟩
    intro e he
    simp only [List.mem_append, List.mem_singleton] at he
    rcases he with he | he
    · exact h.2 e he
    · rw [he]; rfl

theorem runActs_nlnc (dry : Bool) (t : Name) : ∀ (as : List Act) (k : Nat) (st : World × List Ev),
    NoLinkNoCrash st → NoLinkNoCrash (runActs dry t k as st) := by
  intro as
  induction as with
  | nil => intro k st h; exact h
  | cons a as ih => intro k st h; simp only [runActs]; exact ih _ _ (runAct_nlnc dry t k a st h)

theorem foldl_nlnc {γ : Type} (g : World × List Ev → γ → World × List Ev)
    (hg : ∀ st x, NoLinkNoCrash st → NoLinkNoCrash (g st x)) :
    ∀ (l : List γ) (st : World × List Ev), NoLinkNoCrash st → NoLinkNoCrash (l.foldl g st) := by
  intro l
  induction l with
  | nil => intro st h; exact h
  | cons x l ih => intro st h; simp only [List.foldl_cons]; exact ih _ (hg st x h)

theorem taskClean_nlnc (tbl : Table) (dry : Bool) (t : Name) (st : World × List Ev) (h : NoLinkNoCrash st) :
    NoLinkNoCrash (taskClean tbl dry t st) := by
  unfold taskClean
  cases tbl[t]? with
  | none => exact h
  | some tk =>
    simp only
    cases tk.kind with
    | nothing => exact h
    | targets => exact foldl_nlnc _ (fun st p hh => rmTarget_nlnc dry t st p hh) _ _ h
    | actions as => exact runActs_nlnc dry t as 0 st h

theorem cleanTasks_nlnc (tbl : Table) (dry forget : Bool) (order : List Name) (w : World) (h : w.links = []) :
    NoLinkNoCrash (cleanTasks tbl dry forget order w) := by
  unfold cleanTasks
  refine foldl_nlnc _ ?_ order (w, []) ⟨h, fun e he => by simp at he⟩
  intro st t hh
  have := taskClean_nlnc tbl dry t st hh
  unfold cleanOne
  simp only
  split
  · exact ⟨this.1, this.2⟩
  · exact this

end DoitModel.Clean
