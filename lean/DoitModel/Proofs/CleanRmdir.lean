import DoitModel.Proofs.CleanFrame
/-! Helper lemmas for C14, part 9: a target directory that contains only target files of the task is removed. -/
namespace DoitModel.Clean

theorem foldl_rm_removes (t : Name) (p : Path) :
    ∀ (l : List Path) (st : World × List Ev), p ∈ l → p ∉ (l.foldl (rmTarget false t) st).1.files :=
  fun l st hp => foldl_removes (rmTarget false t) (fun p => [p]) (rmTarget_frame false t) p (fun x => x = p)
    (fun st x hx => hx ▸ rmTarget_removes t st x) l st ⟨p, hp, rfl⟩

theorem rmLink_links_sub (dry : Bool) (t : Name) (s : World × List Ev) (p d : Path) :
    ∀ l, l ∈ (rmLink dry t s p d).1.links → l ∈ s.1.links := by
  unfold rmLink
  intro l hl
  split at hl
  · cases dry
    · simp only [Bool.false_eq_true, if_false, List.mem_filter] at hl; exact hl.1
    · exact hl
  · split at hl
    · split at hl
      · exact hl
      · cases dry
        · simp only [Bool.false_eq_true, if_false, List.mem_filter] at hl; exact hl.1
        · exact hl
    · exact hl

/-- symbolic links are never created, only removed -/
theorem rmTarget_links_sub (dry : Bool) (t : Name) (s : World × List Ev) (p : Path) :
    ∀ l, l ∈ (rmTarget dry t s p).1.links → l ∈ s.1.links := by
  unfold rmTarget
  intro l hl
  split at hl
  · cases dry <;> exact hl
  · split at hl
    · exact rmLink_links_sub dry t s p _ l hl
    · split at hl
      · split at hl
        · exact hl
        · cases dry <;> exact hl
      · exact hl

theorem foldl_links_sub (dry : Bool) (t : Name) : ∀ (xs : List Path) (s : World × List Ev),
    ∀ l, l ∈ (xs.foldl (rmTarget dry t) s).1.links → l ∈ s.1.links := by
  intro xs
  induction xs with
  | nil => intro s l h; exact h
  | cons x xs ih => intro s l h; simp only [List.foldl_cons] at h; exact rmTarget_links_sub dry t s x l (ih _ l h)

/-- `d` is not a symbolic link and no symbolic link lies below `d` -/
def LinksAway (d : Path) (w : World) : Prop := ∀ l, l ∈ w.links → l.1 ≠ d ∧ below d l.1 = false

theorem linkDest_none_of_away {d : Path} {w : World} (h : LinksAway d w) : (linkDest w d).isSome = false := by
  unfold linkDest
  have : ∀ (ls : List (Path × Path)), (∀ l, l ∈ ls → l.1 ≠ d) → alookup d ls = none := by
    intro ls
    induction ls with
    | nil => intro _; rfl
    | cons x ls ih =>
      obtain ⟨a, b⟩ := x
      intro hh
      have hne : ¬ a = d := hh (a, b) (by simp)
      simp only [alookup, hne, if_false]
      exact ih (fun l hl => hh l (List.mem_cons_of_mem _ hl))
  rw [this w.links (fun l hl => (h l hl).1)]
  rfl

theorem rmTarget_rmdir (t : Name) (s : World × List Ev) (d : Path) (hnf : d ∉ s.1.files)
    (hl : LinksAway d s.1) (he : hasEntry s.1 d = false) : d ∉ (rmTarget false t s d).1.dirs := by
  unfold rmTarget
  simp only [hnf, if_false, linkDest_none_of_away hl, he, Bool.false_eq_true]
  split
  · simp
  · assumption

/-- a target directory whose whole content are target files of the same task is removed: the files inside are
    handled first (`sortDesc` puts them before the directory), so `os.listdir` finds it empty -/
theorem cleanTargets_rmdir (t : Name) (targets : List Path) (st : World × List Ev) (d : Path)
    (hd : d ∈ targets) (hnf : d ∉ st.1.files) (hnl : LinksAway d st.1)
    (hfiles : ∀ q, q ∈ st.1.files → below d q = true → q ∈ targets)
    (hdirs : ∀ q, q ∈ st.1.dirs → below d q = false) :
    d ∉ (cleanTargets false t targets st).1.dirs := by
  unfold cleanTargets
  obtain ⟨l1, l2, hs⟩ := List.append_of_mem ((mem_sortDesc targets d).2 hd)
  rw [hs, List.foldl_append, List.foldl_cons]
  have hf1 := foldl_frame (rmTarget false t) (fun p => [p]) (rmTarget_frame false t) l1 st
  -- after the part of the walk before `d`, nothing is left below `d`
  have hempty : hasEntry (l1.foldl (rmTarget false t) st).1 d = false := by
    unfold hasEntry
    rw [List.any_eq_false]
    intro q hq
    simp only [List.mem_append, List.mem_map] at hq
    rcases hq with (hq | hq) | ⟨l, hl, hlq⟩
    rotate_left 2
    · have := (hnl l (foldl_links_sub false t l1 st l hl)).2
      rw [hlq] at this
      simp [this]
    · intro hb
      have hq0 := hf1.fsub q hq
      have hqt := hfiles q hq0 hb
      have hqs := (mem_sortDesc targets q).2 hqt
      rw [hs] at hqs
      simp only [List.mem_append, List.mem_cons] at hqs
      rcases hqs with h1 | h1 | h1
      · exact foldl_rm_removes t q l1 st h1 hq
      · rw [h1] at hq0; exact hnf hq0
      · have hdesc := desc_sortDesc targets
        rw [hs] at hdesc
        have h2 := (List.pairwise_cons.1 (List.pairwise_append.1 hdesc).2.1).1 q h1
        rw [not_pathLe_of_prefix '/' d q hb] at h2
        exact absurd h2 (by simp)
    · have := hdirs q (hf1.dsub q hq)
      simp [this]
  have hnf1 : d ∉ (l1.foldl (rmTarget false t) st).1.files := fun h => hnf (hf1.fsub d h)
  have hstep : d ∉ (rmTarget false t (l1.foldl (rmTarget false t) st) d).1.dirs :=
    rmTarget_rmdir t _ d hnf1 (fun l hl => hnl l (foldl_links_sub false t l1 st l hl)) hempty
  have hf2 := foldl_frame (rmTarget false t) (fun p => [p]) (rmTarget_frame false t) l2
    (rmTarget false t (l1.foldl (rmTarget false t) st) d)
  exact fun h => hstep (hf2.dsub d h)

/-! ### the model never emits a `crash` event: `clean` always runs to its end (since fix a5ed062) -/
def NoCrash (st : World × List Ev) : Prop := ∀ e, e ∈ st.2 → isCrash e = false

theorem rmLink_nocrash (dry : Bool) (t : Name) (st : World × List Ev) (p d : Path) (h : NoCrash st) :
    NoCrash (rmLink dry t st p d) := by
  unfold rmLink
  intro e he
  split at he
  · simp only [List.mem_append, List.mem_singleton] at he
    rcases he with he | he
    · exact h e he
    · rw [he]; rfl
  · split at he
    · split at he <;>
      · simp only [List.mem_append, List.mem_singleton] at he
        rcases he with he | he
        · exact h e he
        · rw [he]; rfl
    · exact h e he

theorem rmTarget_nocrash (dry : Bool) (t : Name) (st : World × List Ev) (p : Path) (h : NoCrash st) :
    NoCrash (rmTarget dry t st p) := by
  unfold rmTarget
  intro e he
  split at he
  · simp only [List.mem_append, List.mem_singleton] at he
    rcases he with he | he
    · exact h e he
    · rw [he]; rfl
  · split at he
    · exact rmLink_nocrash dry t st p _ h e he
    · split at he
      · split at he <;>
        · simp only [List.mem_append, List.mem_singleton] at he
          rcases he with he | he
          · exact h e he
          · rw [he]; rfl
      · exact h e he

theorem runAct_nocrash (dry : Bool) (t : Name) (k : Nat) (a : Act) (st : World × List Ev) (h : NoCrash st) :
    NoCrash (runAct dry t k a st) := by
  unfold runAct
  intro e he
  split at he
  · simp only [List.mem_append, List.mem_cons, List.not_mem_nil, or_false] at he
    rcases he with he | he | he
    · exact h e he
    · rw [he]; rfl
    · rw [he]; split <;> rfl
  · simp only [List.mem_append, List.mem_singleton] at he
    rcases he with he | he
    · exact h e he
    · rw [he]; rfl

theorem runActs_nocrash (dry : Bool) (t : Name) : ∀ (as : List Act) (k : Nat) (st : World × List Ev),
    NoCrash st → NoCrash (runActs dry t k as st) := by
  intro as
  induction as with
  | nil => intro k st h; exact h
  | cons a as ih => intro k st h; simp only [runActs]; exact ih _ _ (runAct_nocrash dry t k a st h)

theorem foldl_nocrash {γ : Type} (g : World × List Ev → γ → World × List Ev)
    (hg : ∀ st x, NoCrash st → NoCrash (g st x)) :
    ∀ (l : List γ) (st : World × List Ev), NoCrash st → NoCrash (l.foldl g st) := by
  intro l
  induction l with
  | nil => intro st h; exact h
  | cons x l ih => intro st h; simp only [List.foldl_cons]; exact ih _ (hg st x h)

theorem taskClean_nocrash (tbl : Table) (dry : Bool) (t : Name) (st : World × List Ev) (h : NoCrash st) :
    NoCrash (taskClean tbl dry t st) := by
  unfold taskClean
  cases tbl[t]? with
  | none => exact h
  | some tk =>
    simp only
    cases tk.kind with
    | nothing => exact h
    | targets => exact foldl_nocrash _ (fun st p hh => rmTarget_nocrash dry t st p hh) _ _ h
    | actions as => exact runActs_nocrash dry t as 0 st h

theorem cleanTasks_nocrash (tbl : Table) (dry forget : Bool) (order : List Name) (w : World) :
    NoCrash (cleanTasks tbl dry forget order w) := by
  unfold cleanTasks
  refine foldl_nocrash _ ?_ order (w, []) (fun e he => by simp at he)
  intro st t hh
  have := taskClean_nocrash tbl dry t st hh
  unfold cleanOne
  simp only
  split
  · exact this
  · exact this

end DoitModel.Clean
