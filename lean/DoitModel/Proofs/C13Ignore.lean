import DoitModel.Proofs.C13Run
import DoitModel.Proofs.C13Forget
/-! # C13 — `ignore`: the marks placed, their persistence, and the tasks with an ignored setup-task -/
namespace DoitModel.Cmds
open DoitModel.Status

theorem setIgn_rcd (s : St) (t k : Name) :
    (setIgn s t).rcd k = if k = t then { s.rcd t with ign := true } else s.rcd k := rfl

theorem ignList_rcd (l : List Name) (s : St) (k : Name) :
    (ignList s l).rcd k = if k ∈ l then { s.rcd k with ign := true } else s.rcd k := by
  induction l generalizing s with
  | nil => simp [ignList]
  | cons a as ih =>
    simp only [ignList, List.foldl_cons] at ih ⊢
    rw [ih (setIgn s a), setIgn_rcd]
    by_cases h2 : k = a
    · subst h2; by_cases h1 : k ∈ as <;> simp [h1]
    · by_cases h1 : k ∈ as <;> simp [h1, h2]

theorem ignList_frame (l : List Name) (s : St) :
    (ignList s l).fs = s.fs ∧ (ignList s l).defs = s.defs ∧ (ignList s l).checker = s.checker := by
  induction l generalizing s with
  | nil => simp [ignList]
  | cons a as ih =>
    simp only [ignList, List.foldl_cons] at ih ⊢
    simpa [setIgn] using ih (setIgn s a)

theorem afterSetup_bad (fixed : Bool) (g : Graph) (rs : RunSt) (s1 : St) (t : Name) (pl : Plan) :
    (afterSetup fixed g rs s1 t pl).bad = (rs.bad || missingOut rs (g.setup t)) := by
  unfold afterSetup
  split
  · rfl
  · split <;> rfl

theorem missingOut_bad (rs : RunSt) (b : Bool) (ds : List Name) :
    missingOut { rs with bad := b } ds = missingOut rs ds := rfl

/-- an executed task had all its setup-tasks reported (when the order flag stayed clean) -/
theorem runOne_executed_setup (fixed always : Bool) (g : Graph) (plan : Name → Plan) (rs : RunSt) (t : Name) (o : Outcome)
    (hout : (runOne fixed always g plan rs t).out = (t, o) :: rs.out) (hex : o.executed = true)
    (hbad : (runOne fixed always g plan rs t).bad = false) : missingOut rs (g.setup t) = false := by
  unfold runOne at hout hbad
  split at hout
  · simp [record] at hout; subst hout; simp [Outcome.executed] at hex
  · split at hout
    · simp [record] at hout; subst hout; simp [Outcome.executed] at hex
    · rename_i h1 h2
      simp only [h1, h2, if_false] at hbad
      cases hst : rs.s.status true t with
      | crash => simp [hst, record] at hout; subst hout; simp [Outcome.executed] at hex
      | error => simp [hst, record] at hout; subst hout; simp [Outcome.executed] at hex
      | upToDate =>
        simp only [hst] at hout hbad
        split at hout
        · rename_i ha
          simp only [ha, if_true, Bool.false_eq_true, if_false] at hbad
          rw [afterSetup_bad, missingOut_bad] at hbad
          simp only [Bool.or_eq_false_iff] at hbad
          exact hbad.2
        · simp [record] at hout; subst hout; simp [Outcome.executed] at hex
      | run =>
        simp only [hst, Bool.false_eq_true, if_false] at hout hbad
        rw [afterSetup_bad, missingOut_bad] at hbad
        simp only [Bool.or_eq_false_iff] at hbad
        exact hbad.2

/-- the mark of `t` survives a run: `t` itself is only ever reported ignored, other tasks do not touch its record -/
theorem runOne_keeps_ign (fixed always : Bool) (g : Graph) (plan : Name → Plan) (rs : RunSt) (k t : Name)
    (h : (rs.s.rcd t).ign = true) : ((runOne fixed always g plan rs k).s.rcd t).ign = true := by
  by_cases hk : t = k
  · subst hk
    rw [(runOne_ignored fixed always g plan rs t (Or.inr h)).2]; exact h
  · obtain ⟨_, _, hframe, _, _⟩ := runOne_shape fixed always g plan rs k
    rw [hframe t hk]; exact h

theorem runAll_keeps_ign (fixed always : Bool) (g : Graph) (plan : Name → Plan) (order : List Name) (rs : RunSt) (t : Name)
    (h : (rs.s.rcd t).ign = true) : ((order.foldl (runOne fixed always g plan) rs).s.rcd t).ign = true := by
  induction order generalizing rs with
  | nil => exact h
  | cons k ks ih => exact ih _ (runOne_keeps_ign fixed always g plan rs k t h)

theorem forgetCmd_keeps (g : Graph) (a : ForgetArgs) (dflt : Option (List Name)) (s : St) (t : Name)
    (h : ¬ForgetSel g a dflt t) : (forgetCmd true g a dflt s).rcd t = s.rcd t := by
  have hspec := forgetTarget_spec g a dflt
  unfold forgetCmd
  cases ht : forgetTarget true g a dflt with
  | tasks l =>
    rw [ht] at hspec
    have hnl : t ∉ l := fun hm => h ((hspec t).1 hm)
    simp only; rw [eraseList_rcd]; simp [hnl]
  | everything => rw [ht] at hspec; exact absurd (hspec t) h
  | nothing => rfl
  | notATask n => rfl
  | crash => rfl
  | fuel => rfl

/-- a task with a setup-task that is ignored (marked, or through `task_dep` edges) is not executed -/
theorem runOne_setup_reach (always : Bool) (g : Graph) (plan : Name → Plan) (defs : Name → TaskDef) (ign : Name → Bool)
    (done : List Name) (rs : RunSt) (t : Name) (inv : RunInv g defs ign done rs)
    (hbad : (runOne true always g plan rs t).bad = false) (d : Name) (hd : d ∈ g.setup t) (hr : IgnReach g defs ign d) :
    ∃ o, (runOne true always g plan rs t).out = (t, o) :: rs.out ∧ o.executed = false := by
  by_cases hdone : d ∈ done
  · have hig := inv.ignored d hdone hr
    apply runOne_setup_ignored
    unfold anyOut
    exact any_true_of hd (by simp [hig, Outcome.isIgnored])
  · obtain ⟨o, hout, _, _, _⟩ := runOne_shape true always g plan rs t
    refine ⟨o, hout, ?_⟩
    cases hex : o.executed with
    | false => rfl
    | true =>
      have hm := runOne_executed_setup true always g plan rs t o hout hex hbad
      have hnone := inv.out_none d hdone
      have : missingOut rs (g.setup t) = true := by
        unfold missingOut
        exact any_true_of hd (by simp [hnone])
      rw [this] at hm
      exact Bool.noConfusion hm

/-- second invariant of a run: processed tasks with an ignored setup-task were not executed -/
def SetupInv (g : Graph) (defs : Name → TaskDef) (ign : Name → Bool) (done : List Name) (rs : RunSt) : Prop :=
  ∀ t, t ∈ done → (∃ d, d ∈ g.setup t ∧ IgnReach g defs ign d) → ∃ o, outOf rs t = some o ∧ o.executed = false

theorem foldl_inv2 (always : Bool) (g : Graph) (plan : Name → Plan) (defs : Name → TaskDef) (ign : Name → Bool)
    (order : List Name) (done : List Name) (rs : RunSt) (hnd : order.Nodup) (hdisj : ∀ t ∈ order, t ∉ done)
    (inv : RunInv g defs ign done rs) (inv2 : SetupInv g defs ign done rs)
    (hbad : (order.foldl (runOne true always g plan) rs).bad = false) :
    RunInv g defs ign (order.reverse ++ done) (order.foldl (runOne true always g plan) rs) ∧
    SetupInv g defs ign (order.reverse ++ done) (order.foldl (runOne true always g plan) rs) := by
  induction order generalizing done rs with
  | nil => simpa using ⟨inv, inv2⟩
  | cons t ts ih =>
    simp only [List.foldl_cons, List.reverse_cons, List.append_assoc, List.singleton_append] at hbad ⊢
    have hnd' := List.nodup_cons.1 hnd
    have hb1 := foldl_bad_mono true always g plan ts _ hbad
    have hstep := runOne_inv true always g plan defs ign done rs t (hdisj t List.mem_cons_self) inv hb1
    have hstep2 : SetupInv g defs ign (t :: done) (runOne true always g plan rs t) := by
      intro k hk hex
      obtain ⟨o, hout, _, _, _⟩ := runOne_shape true always g plan rs t
      by_cases hkt : k = t
      · subst hkt
        obtain ⟨d, hd, hr⟩ := hex
        obtain ⟨o', hout', hne⟩ := runOne_setup_reach always g plan defs ign done rs k inv hb1 d hd hr
        refine ⟨o', ?_, hne⟩
        unfold outOf; rw [hout']; simp [alookup]
      · have hkd : k ∈ done := by
          rcases List.mem_cons.1 hk with h | h
          · exact absurd h hkt
          · exact h
        obtain ⟨o', ho', hne⟩ := inv2 k hkd hex
        refine ⟨o', ?_, hne⟩
        unfold outOf at ho' ⊢
        rw [hout, alookup_cons_ne k t o rs.out (Ne.symm hkt)]; exact ho'
    apply ih (t :: done) _ hnd'.2 _ hstep hstep2 hbad
    intro k hk hkd
    rcases List.mem_cons.1 hkd with h | h
    · exact hnd'.1 (h ▸ hk)
    · exact hdisj k (List.mem_cons_of_mem _ hk) h

theorem firstPass_keeps_ign (ts : List Name) (s : St) (T : Name) (h : (s.rcd T).ign = true) :
    ((ts.foldl firstPassOne s).rcd T).ign = true := by
  induction ts generalizing s with
  | nil => exact h
  | cons k ks ih =>
    simp only [List.foldl_cons]
    apply ih
    unfold firstPassOne
    split
    · exact h
    · by_cases hk : T = k
      · subst hk; rename_i hn; exact absurd h hn
      · rw [peek_frame s k T hk]; exact h

end DoitModel.Cmds
