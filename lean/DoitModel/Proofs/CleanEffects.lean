import DoitModel.Model.Clean
/-! Helper lemmas for C14, part 5: effects of `Task.clean` / `clean_targets` / `--forget` on the small world. -/
namespace DoitModel.Clean

/-! ### dry run -/
theorem rmLink_dry (t : Name) (st : World × List Ev) (p d : Path) : (rmLink true t st p d).1 = st.1 := by
  unfold rmLink
  split
  · rfl
  · split
    · split <;> rfl
    · rfl

theorem rmTarget_dry (t : Name) (st : World × List Ev) (p : Path) : (rmTarget true t st p).1 = st.1 := by
  unfold rmTarget
  split
  · rfl
  · split
    · exact rmLink_dry t st p _
    · split
      · split <;> rfl
      · rfl

theorem foldl_fst_inv {α β γ : Type} (g : α × β → γ → α × β) (hg : ∀ st x, (g st x).1 = st.1) :
    ∀ (l : List γ) (st : α × β), (l.foldl g st).1 = st.1 := by
  intro l
  induction l with
  | nil => intro st; rfl
  | cons x l ih => intro st; simp only [List.foldl_cons]; rw [ih, hg]

theorem runAct_dry (t : Name) (k : Nat) (a : Act) (st : World × List Ev) : (runAct true t k a st).1 = st.1 := by
  unfold runAct
  split <;> rfl

theorem runActs_dry (t : Name) : ∀ (as : List Act) (k : Nat) (st : World × List Ev),
    (runActs true t k as st).1 = st.1 := by
  intro as
  induction as with
  | nil => intro k st; rfl
  | cons a as ih => intro k st; simp only [runActs]; rw [ih, runAct_dry]

theorem taskClean_dry (tbl : Table) (t : Name) (st : World × List Ev) : (taskClean tbl true t st).1 = st.1 := by
  unfold taskClean
  cases tbl[t]? with
  | none => rfl
  | some tk =>
    simp only
    cases tk.kind with
    | nothing => rfl
    | targets => exact foldl_fst_inv _ (rmTarget_dry t) _ _
    | actions as => exact runActs_dry t as 0 st

theorem cleanTasks_dry (tbl : Table) (forget : Bool) (order : List Name) (w : World) :
    (cleanTasks tbl true forget order w).1 = w := by
  unfold cleanTasks
  rw [foldl_fst_inv]
  intro st t
  simp [cleanOne, taskClean_dry]

/-- what may be seen on a dry run: no shell command, and no callable told `dryrun=False`
    (a callable without the parameter records `false`) -/
def dryOk : Ev → Prop
  | .cmd _ _ => False
  | .ran _ _ d => d = true
  | _ => True

theorem rmLink_dryOk (t : Name) (st : World × List Ev) (p d : Path)
    (h : ∀ e, e ∈ st.2 → dryOk e) : ∀ e, e ∈ (rmLink true t st p d).2 → dryOk e := by
  unfold rmLink
  intro e he
  split at he
  · simp only [List.mem_append, List.mem_singleton] at he
    rcases he with he | he
    · exact h e he
    · rw [he]; trivial
  · split at he
    · split at he <;>
      · simp only [if_true, List.mem_append, List.mem_singleton] at he
        rcases he with he | he
        · exact h e he
        · rw [he]; trivial
    · exact h e he

theorem rmTarget_dryOk (t : Name) (st : World × List Ev) (p : Path)
    (h : ∀ e, e ∈ st.2 → dryOk e) : ∀ e, e ∈ (rmTarget true t st p).2 → dryOk e := by
  unfold rmTarget
  intro e he
  split at he
  · simp only [List.mem_append, List.mem_singleton] at he
    rcases he with he | he
    · exact h e he
    · rw [he]; trivial
  · split at he
    · exact rmLink_dryOk t st p _ h e he
    · split at he
      · split at he <;>
        · simp only [List.mem_append, List.mem_singleton] at he
          rcases he with he | he
          · exact h e he
          · rw [he]; trivial
      · exact h e he

theorem runAct_dryOk (t : Name) (k : Nat) (a : Act) (st : World × List Ev)
    (h : ∀ e, e ∈ st.2 → dryOk e) : ∀ e, e ∈ (runAct true t k a st).2 → dryOk e := by
  have hp : (ActKind.plain == ActKind.aware) = false := by decide
  have hc : (ActKind.cmd == ActKind.aware) = false := by decide
  have ha : (ActKind.aware == ActKind.aware) = true := by decide
  unfold runAct actRuns
  intro e he
  cases hk : a.kind with
  | aware =>
    simp only [hk, ha, Bool.not_true, Bool.false_or, if_true, reduceCtorEq, if_false, Bool.and_self,
      List.mem_append, List.mem_cons, List.not_mem_nil, or_false] at he
    rcases he with he | he | he
    · exact h e he
    · rw [he]; trivial
    · rw [he]; rfl
  | plain =>
    simp only [hk, hp, Bool.not_true, Bool.false_or, Bool.false_eq_true, if_false,
      List.mem_append, List.mem_cons, List.not_mem_nil, or_false] at he
    rcases he with he | he
    · exact h e he
    · rw [he]; trivial
  | cmd =>
    simp only [hk, hc, Bool.not_true, Bool.false_or, Bool.false_eq_true, if_false,
      List.mem_append, List.mem_cons, List.not_mem_nil, or_false] at he
    rcases he with he | he
    · exact h e he
    · rw [he]; trivial

theorem runActs_dryOk (t : Name) : ∀ (as : List Act) (k : Nat) (st : World × List Ev),
    (∀ e, e ∈ st.2 → dryOk e) → ∀ e, e ∈ (runActs true t k as st).2 → dryOk e := by
  intro as
  induction as with
  | nil => intro k st h; exact h
  | cons a as ih => intro k st h; simp only [runActs]; exact ih _ _ (runAct_dryOk t k a st h)

theorem foldl_snd_inv {α β γ : Type} (P : β → Prop) (g : α × β → γ → α × β)
    (hg : ∀ st x, P st.2 → P (g st x).2) : ∀ (l : List γ) (st : α × β), P st.2 → P (l.foldl g st).2 := by
  intro l
  induction l with
  | nil => intro st h; exact h
  | cons x l ih => intro st h; simp only [List.foldl_cons]; exact ih _ (hg st x h)

theorem taskClean_dryOk (tbl : Table) (t : Name) (st : World × List Ev)
    (h : ∀ e, e ∈ st.2 → dryOk e) : ∀ e, e ∈ (taskClean tbl true t st).2 → dryOk e := by
  unfold taskClean
  cases tbl[t]? with
  | none => exact h
  | some tk =>
    simp only
    cases tk.kind with
    | nothing => exact h
    | targets =>
      exact foldl_snd_inv (fun evs => ∀ e, e ∈ evs → dryOk e) _ (fun st p hh => rmTarget_dryOk t st p hh) _ _ h
    | actions as => exact runActs_dryOk t as 0 st h

theorem cleanTasks_dryOk (tbl : Table) (forget : Bool) (order : List Name) (w : World) :
    ∀ e, e ∈ (cleanTasks tbl true forget order w).2 → dryOk e := by
  unfold cleanTasks
  refine foldl_snd_inv (fun evs => ∀ e, e ∈ evs → dryOk e) _ ?_ order (w, []) (fun e he => by simp at he)
  intro st t hh
  have := taskClean_dryOk tbl t st hh
  simpa [cleanOne] using this

/-! ### the DB -/
theorem rmLink_db (dry : Bool) (t : Name) (st : World × List Ev) (p d : Path) :
    (rmLink dry t st p d).1.db = st.1.db := by
  unfold rmLink
  split
  · cases dry <;> rfl
  · split
    · split
      · rfl
      · cases dry <;> rfl
    · rfl

theorem rmTarget_db (dry : Bool) (t : Name) (st : World × List Ev) (p : Path) :
    (rmTarget dry t st p).1.db = st.1.db := by
  unfold rmTarget
  split
  · cases dry <;> rfl
  · split
    · exact rmLink_db dry t st p _
    · split
      · split
        · rfl
        · cases dry <;> rfl
      · rfl

theorem foldl_db_inv {γ : Type} (g : World × List Ev → γ → World × List Ev)
    (hg : ∀ st x, (g st x).1.db = st.1.db) :
    ∀ (l : List γ) (st : World × List Ev), (l.foldl g st).1.db = st.1.db := by
  intro l
  induction l with
  | nil => intro st; rfl
  | cons x l ih => intro st; simp only [List.foldl_cons]; rw [ih, hg]

theorem applyEff_db (e : Option Eff) (w : World) : (applyEff e w).db = w.db := by
  cases e with
  | none => rfl
  | some e =>
    cases e with
    | rm p => rfl
    | mk p => simp only [applyEff]; split <;> rfl

theorem runAct_db (dry : Bool) (t : Name) (k : Nat) (a : Act) (st : World × List Ev) :
    (runAct dry t k a st).1.db = st.1.db := by
  unfold runAct
  split
  · cases dry
    · simp [applyEff_db]
    · rfl
  · rfl

theorem runActs_db (dry : Bool) (t : Name) : ∀ (as : List Act) (k : Nat) (st : World × List Ev),
    (runActs dry t k as st).1.db = st.1.db := by
  intro as
  induction as with
  | nil => intro k st; rfl
  | cons a as ih => intro k st; simp only [runActs]; rw [ih, runAct_db]

theorem taskClean_db (tbl : Table) (dry : Bool) (t : Name) (st : World × List Ev) :
    (taskClean tbl dry t st).1.db = st.1.db := by
  unfold taskClean
  cases tbl[t]? with
  | none => rfl
  | some tk =>
    simp only
    cases tk.kind with
    | nothing => rfl
    | targets => exact foldl_db_inv _ (rmTarget_db dry t) _ _
    | actions as => exact runActs_db dry t as 0 st

theorem cleanTasks_db (tbl : Table) (dry forget : Bool) : ∀ (order : List Name) (st : World × List Ev) (x : Name),
    x ∈ ((order.foldl (cleanOne tbl dry forget) st).1.db) ↔
      x ∈ st.1.db ∧ ¬ (forget = true ∧ dry = false ∧ x ∈ order) := by
  intro order
  induction order with
  | nil => intro st x; simp
  | cons t order ih =>
    intro st x
    simp only [List.foldl_cons]
    rw [ih]
    have hstep : x ∈ (cleanOne tbl dry forget st t).1.db ↔
        x ∈ st.1.db ∧ ¬ (forget = true ∧ dry = false ∧ x = t) := by
      unfold cleanOne
      cases forget <;> cases dry <;> simp [forgetTask, taskClean_db]
    rw [hstep]
    simp only [List.mem_cons]
    constructor
    · rintro ⟨⟨h1, h2⟩, h3⟩
      refine ⟨h1, ?_⟩
      rintro ⟨f, d, h | h⟩
      · exact h2 ⟨f, d, h⟩
      · exact h3 ⟨f, d, h⟩
    · rintro ⟨h1, h2⟩
      exact ⟨⟨h1, fun ⟨f, d, h⟩ => h2 ⟨f, d, Or.inl h⟩⟩, fun ⟨f, d, h⟩ => h2 ⟨f, d, Or.inr h⟩⟩

/-! ### the order in which `clean_targets` walks the targets -/
theorem pathLe_total : ∀ (p q : Path), pathLe p q = true ∨ pathLe q p = true := by
  intro p
  induction p with
  | nil => intro q; exact Or.inl (by simp [pathLe])
  | cons a p ih =>
    intro q
    cases q with
    | nil => exact Or.inr (by simp [pathLe])
    | cons b q =>
      simp only [pathLe, Bool.or_eq_true, decide_eq_true_eq, Bool.and_eq_true, beq_iff_eq]
      rcases Nat.lt_trichotomy a.toNat b.toNat with h | h | h
      · exact Or.inl (Or.inl h)
      · rcases ih q with h' | h'
        · exact Or.inl (Or.inr ⟨h, h'⟩)
        · exact Or.inr (Or.inr ⟨h.symm, h'⟩)
      · exact Or.inr (Or.inl h)

theorem pathLe_trans : ∀ (p q r : Path), pathLe p q = true → pathLe q r = true → pathLe p r = true := by
  intro p
  induction p with
  | nil => intro q r _ _; simp [pathLe]
  | cons a p ih =>
    intro q r h1 h2
    cases q with
    | nil => simp [pathLe] at h1
    | cons b q =>
      cases r with
      | nil => simp [pathLe] at h2
      | cons c r =>
        simp only [pathLe, Bool.or_eq_true, decide_eq_true_eq, Bool.and_eq_true, beq_iff_eq] at h1 h2 ⊢
        rcases h1 with h1 | ⟨e1, h1⟩
        · rcases h2 with h2 | ⟨e2, _⟩
          · exact Or.inl (by omega)
          · exact Or.inl (by omega)
        · rcases h2 with h2 | ⟨e2, h2⟩
          · exact Or.inl (by omega)
          · exact Or.inr ⟨by omega, ih q r h1 h2⟩

/-- descending: every earlier element is `≥` every later one -/
def Desc (l : List Path) : Prop := l.Pairwise (fun a b => pathLe b a = true)

theorem mem_insertDesc {x y : Path} : ∀ {l : List Path}, y ∈ insertDesc x l ↔ y = x ∨ y ∈ l := by
  intro l
  induction l with
  | nil => simp [insertDesc]
  | cons z l ih =>
    simp only [insertDesc]
    split
    · simp
    · simp only [List.mem_cons, ih]
      constructor
      · intro h; rcases h with h | h | h
        · exact Or.inr (Or.inl h)
        · exact Or.inl h
        · exact Or.inr (Or.inr h)
      · intro h; rcases h with h | h | h
        · exact Or.inr (Or.inl h)
        · exact Or.inl h
        · exact Or.inr (Or.inr h)

theorem desc_insertDesc (x : Path) : ∀ (l : List Path), Desc l → Desc (insertDesc x l) := by
  intro l
  induction l with
  | nil => intro _; simp [insertDesc, Desc]
  | cons z l ih =>
    intro h
    simp only [Desc, List.pairwise_cons] at h
    simp only [insertDesc]
    split
    · rename_i hzx
      simp only [Desc, List.pairwise_cons, List.mem_cons]
      refine ⟨?_, h⟩
      intro b hb
      rcases hb with hb | hb
      · rw [hb]; exact hzx
      · exact pathLe_trans b z x (h.1 b hb) hzx
    · rename_i hzx
      have hxz : pathLe x z = true := by
        rcases pathLe_total z x with h' | h'
        · exact absurd h' hzx
        · exact h'
      simp only [Desc, List.pairwise_cons]
      refine ⟨?_, ih h.2⟩
      intro b hb
      rcases mem_insertDesc.1 hb with hb | hb
      · rw [hb]; exact hxz
      · exact h.1 b hb

theorem desc_sortDesc (ts : List Path) : Desc (sortDesc ts) := by
  unfold sortDesc
  induction ts with
  | nil => simp [Desc]
  | cons t ts ih => simp only [List.foldr_cons]; exact desc_insertDesc t _ ih

theorem mem_sortDesc (ts : List Path) (y : Path) : y ∈ sortDesc ts ↔ y ∈ ts := by
  unfold sortDesc
  induction ts with
  | nil => simp
  | cons t ts ih => simp only [List.foldr_cons, mem_insertDesc, ih, List.mem_cons]

/-- a path strictly below directory `d` is strictly greater than `d` in code-point order -/
theorem not_pathLe_of_prefix (c : Char) : ∀ (d p : Path), (d ++ [c]).isPrefixOf p = true → pathLe p d = false := by
  intro d
  induction d with
  | nil =>
    intro p h
    cases p with
    | nil => simp at h
    | cons b p => simp [pathLe]
  | cons a d ih =>
    intro p h
    cases p with
    | nil => simp at h
    | cons b p =>
      simp only [List.cons_append, List.isPrefixOf, Bool.and_eq_true, beq_iff_eq] at h
      obtain ⟨hab, hp⟩ := h
      subst hab
      have := ih p hp
      simp [pathLe, this]

end DoitModel.Clean
