import DoitModel.Proofs.C19Walk
import DoitModel.Proofs.C19Trace
import DoitModel.Proofs.C19FwdWalk
/-! # C19: consequences of `Inv19` + the counting invariant `Inv3`: exactly one final report, matching `run_status` -/
namespace DoitModel.Report
open DoitModel.Run

theorem filter_singleton {p : Ev → Bool} {l : List Ev} {e : Ev} (hc : l.countP p ≤ 1) (he : e ∈ l) (hp : p e = true) :
    l.filter p = [e] := by
  induction l with
  | nil => cases he
  | cons a l ih =>
    rw [List.countP_cons] at hc
    by_cases hpa : p a = true
    · simp only [hpa, if_true] at hc
      have h0 : l.countP p = 0 := by omega
      have hf : l.filter p = [] := by
        rw [List.filter_eq_nil_iff]; intro x hx hpx
        have : 0 < l.countP p := List.countP_pos_iff.mpr ⟨x, hx, hpx⟩
        omega
      rcases List.mem_cons.mp he with a1 | a1
      · subst a1; simp [List.filter_cons, hpa, hf]
      · have : 0 < l.countP p := List.countP_pos_iff.mpr ⟨e, a1, hp⟩
        omega
    · have hpa' : p a = false := by cases h : p a <;> simp_all
      simp only [hpa', Bool.false_eq_true, if_false, Nat.add_zero] at hc
      rcases List.mem_cons.mp he with a1 | a1
      · subst a1; rw [hp] at hpa'; cases hpa'
      · simp [List.filter_cons, hpa', ih hc a1]

/-- the final report expected for a `run_status` -/
def reportFor (n : Name) : RS → Ev → Prop
  | .ok, e => e = .success n
  | .utd, e => e = .skipUtd n
  | .ign, e => e = .skipIgn n
  | .fail, e => ∃ k, e = .failure n k
  | _, _ => False

/-- every task has no final report while it is unprocessed / selected / running, and exactly one, the one matching
    its `run_status`, once it is finished -/
theorem one_final_report_core {inp : RunInput} {s : Sys}
    (hfl : ∀ n, stOf s n = .fail → ∃ k, Ev.failure n k ∈ s.events) (hig : ∀ n, stOf s n = .ign → Ev.skipIgn n ∈ s.events)
    (h2 : Inv2 inp s) (h3 : Inv3 inp s) (n : Name) :
    ((stOf s n).finished = false → s.events.filter (Ev.isTerminalOf n) = []) ∧
    ((stOf s n).finished = true → ∃ e, s.events.filter (Ev.isTerminalOf n) = [e] ∧ reportFor n (stOf s n) e) := by
  constructor
  · intro hf
    have := h3.t n hf
    rw [List.filter_eq_nil_iff]; intro x hx hpx
    have : 0 < s.events.countP (Ev.isTerminalOf n) := List.countP_pos_iff.mpr ⟨x, hx, hpx⟩
    unfold cTerm at *; omega
  · intro hf
    have hc : s.events.countP (Ev.isTerminalOf n) ≤ 1 := h3.t2 n
    cases hst : stOf s n with
    | none => rw [hst] at hf; cases hf
    | run => rw [hst] at hf; cases hf
    | ok => exact ⟨_, filter_singleton hc ((h2.g n).1 hst) (by simp [Ev.isTerminalOf]), rfl⟩
    | utd => exact ⟨_, filter_singleton hc ((h2.g n).2 hst) (by simp [Ev.isTerminalOf]), rfl⟩
    | ign => exact ⟨_, filter_singleton hc (hig n hst) (by simp [Ev.isTerminalOf]), rfl⟩
    | fail =>
      obtain ⟨k, hk⟩ := hfl n hst
      exact ⟨_, filter_singleton hc hk (by simp [Ev.isTerminalOf]), ⟨k, rfl⟩⟩

theorem one_final_report {inp : RunInput} {s : Sys} (h : Inv19 inp s) (h2 : Inv2 inp s) (h3 : Inv3 inp s) (n : Name) :
    ((stOf s n).finished = false → s.events.filter (Ev.isTerminalOf n) = []) ∧
    ((stOf s n).finished = true → ∃ e, s.events.filter (Ev.isTerminalOf n) = [e] ∧ reportFor n (stOf s n) e) :=
  one_final_report_core h.fl h.ig h2 h3 n

/-- when no task is in the state `run` (selected / executing) every announced task has its final report -/
theorem all_reported {inp : RunInput} {s : Sys} (h : Inv19 inp s) (hp : inp.runner ≠ .process)
    (hrun : ∀ n, stOf s n ≠ .run) (n : Name) (hx : s.events.any (Ev.isExecOf n) = true) :
    s.events.any (Ev.isTerminalOf n) = true := by
  obtain ⟨e, he, hpe⟩ := List.any_eq_true.mp hx
  have h1 : 0 < s.events.countP (Ev.isExecOf n) := List.countP_pos_iff.mpr ⟨e, he, hpe⟩
  have h2 := h.ex n
  simp only [hp, if_false] at h2
  have h3 : cStart s n ≥ 1 := by unfold cExec at h2; omega
  rcases h.st n h3 with a | a
  · exact absurd a (hrun n)
  · exact any_true_of_countP a

end DoitModel.Report
