import DoitModel.Proofs.C09Ord2
/-! # C09 — the order of terminal reports, part 3: `InvT` holds in every reachable state of both systems -/
namespace DoitModel.Run

variable {inp : RunInput} {σ : Name → RS}

theorem ng_select {s s' : Sys} {n : Name} {nd : Node} (h : AllNG inp σ s) (hn : s.nodes n = some nd)
    (hd : selDecision inp n nd ≠ .assertFail)
    (e1 : s'.nodes = (applySel inp s n nd (selDecision inp n nd)).nodes) : AllNG inp σ s' := by
  refine (allNG_status h hn (selStatus (selDecision inp n nd))).congr ?_
  rw [e1, applySel_nodes _ _ _ _ _ hd]

theorem ng_result {s s1 s' : Sys} {n : Name} {nd : Node} (h : AllNG inp σ s) (hn : s.nodes n = some nd)
    (e0 : s1.nodes = s.nodes) (e1 : s'.nodes = (processResult inp s1 n nd).nodes) : AllNG inp σ s' := by
  refine (allNG_status h hn (resStatus (inp.outcome n))).congr ?_
  rw [e1, processResult_nodes]; funext k; simp [setNode, e0]

theorem serialStep_ng {s s' : Sys} {perm : List Name} (hσ : ∀ d, stOf s d = σ d) (h : AllNG inp σ s)
    (hs : serialStep inp s perm = some s') : AllNG inp σ s' := by
  have same : ∀ x : Sys, x.nodes = s.nodes → AllNG inp σ x := fun x a => h.congr a
  unfold serialStep at hs
  cases hr : s.rpc with
  | sTop node =>
    simp only [hr] at hs
    split at hs
    · cases hs; exact same _ rfl
    · cases hsd : send inp s node perm with
      | none => simp only [hsd] at hs; cases hs
      | some s0 =>
        simp only [hsd] at hs; cases hs
        exact (send_ng hσ h hsd).congr rfl
  | sWait =>
    simp only [hr] at hs
    cases hsu : s.susp with
    | none =>
      simp only [hsu] at hs
      exact dtick_ng hσ h hs
    | some o =>
      simp only [hsu] at hs
      cases o with
      | init => cases hs
      | node n =>
        simp only [] at hs
        cases hn : s.nodes n with
        | none => simp only [hn] at hs; cases hs; exact same _ rfl
        | some nd =>
          simp only [hn] at hs
          have key : ∀ (hd : selDecision inp n nd ≠ .assertFail),
              AllNG inp σ { applySel inp s n nd (selDecision inp n nd) with rpc := .sTop (some n) } :=
            fun hd => ng_select h hn hd rfl
          cases hd : selDecision inp n nd with
          | go =>
            simp only [hd] at hs; cases hs
            have := ng_select (s' := { startTask inp (applySel inp s n nd (selDecision inp n nd)) n 0 with rpc := .sExec n })
              h hn (by rw [hd]; simp) rfl
            rwa [hd] at this
          | assertFail => simp only [hd] at hs; cases hs; exact same _ rfl
          | skipIgn => simp only [hd] at hs; cases hs; have := key (by simp [hd]); rwa [hd] at this
          | unmet => simp only [hd] at hs; cases hs; have := key (by simp [hd]); rwa [hd] at this
          | depErr => simp only [hd] at hs; cases hs; have := key (by simp [hd]); rwa [hd] at this
          | utd => simp only [hd] at hs; cases hs; have := key (by simp [hd]); rwa [hd] at this
          | runFirst => simp only [hd] at hs; cases hs; have := key (by simp [hd]); rwa [hd] at this
          | argsErr => simp only [hd] at hs; cases hs; have := key (by simp [hd]); rwa [hd] at this
      | stopIter => cases hs; exact same _ rfl
      | holdOn => cases hs; exact same _ rfl
      | cyclic n => cases hs; exact same _ rfl
      | crash => cases hs; exact same _ rfl
  | sExec n =>
    simp only [hr] at hs
    cases hn : s.nodes n with
    | none => simp only [hn] at hs; cases hs; exact same _ rfl
    | some nd =>
      simp only [hn] at hs; cases hs
      exact ng_result (s1 := { s with rpc := .sExec n, events := Ev.fin n 0 :: s.events }) h hn rfl rfl
  | fin => simp only [hr] at hs; cases hs; exact same _ rfl
  | gEntry a b => simp only [hr] at hs; cases hs
  | gLoop a b => simp only [hr] at hs; cases hs
  | gWait a => simp only [hr] at hs; cases hs
  | gRet a b => simp only [hr] at hs; cases hs
  | pTop => simp only [hr] at hs; cases hs
  | pJoin => simp only [hr] at hs; cases hs
  | halted => simp only [hr] at hs; cases hs

theorem pstep_ng {s s' : Sys} {c : Choice} (hσ : ∀ d, stOf s d = σ d) (h : AllNG inp σ s)
    (hs : pstep inp s c = some s') : AllNG inp σ s' := by
  have same : ∀ x : Sys, x.nodes = s.nodes → AllNG inp σ x := fun x a => h.congr a
  cases c with
  | take w =>
    simp only [pstep] at hs
    unfold takeStep at hs
    by_cases hidle : s.workers w = .idle
    case neg => simp only [hidle, if_false] at hs; cases hs
    simp only [hidle, if_true] at hs
    cases hq : s.jobQ with
    | nil => simp only [hq] at hs; cases hs
    | cons j js =>
      simp only [hq] at hs
      cases j with
      | hold => cases hs; exact same _ rfl
      | stop => cases hs; exact same _ rfl
      | task n => cases hs; exact same _ rfl
  | done w =>
    simp only [pstep] at hs
    unfold doneStep at hs
    cases hw : s.workers w with
    | running n => simp only [hw] at hs; cases hs; exact same _ rfl
    | notStarted => simp only [hw] at hs; cases hs
    | idle => simp only [hw] at hs; cases hs
    | exited => simp only [hw] at hs; cases hs
  | main perm =>
    simp only [pstep] at hs
    unfold mainStep at hs
    cases hr : s.rpc with
    | gEntry completed ret =>
      simp only [hr] at hs
      split at hs <;> (cases hs; exact same _ rfl)
    | gLoop node ret =>
      simp only [hr] at hs
      cases hsd : send inp s node perm with
      | none => simp only [hsd] at hs; cases hs
      | some s0 =>
        simp only [hsd] at hs; cases hs
        exact (send_ng hσ h hsd).congr rfl
    | gWait ret =>
      simp only [hr] at hs
      cases hsu : s.susp with
      | none =>
        simp only [hsu] at hs
        exact dtick_ng hσ h hs
      | some o =>
        simp only [hsu] at hs
        cases o with
        | init => cases hs
        | node n =>
          simp only [] at hs
          cases hn : s.nodes n with
          | none => simp only [hn] at hs; cases hs; exact same _ rfl
          | some nd =>
            simp only [hn] at hs
            have key : ∀ (rpc' : RPC) (hd : selDecision inp n nd ≠ .assertFail),
                AllNG inp σ { applySel inp s n nd (selDecision inp n nd) with rpc := rpc' } :=
              fun rpc' hd => ng_select h hn hd rfl
            cases hd : selDecision inp n nd with
            | go => simp only [hd] at hs; cases hs; have := key (.gRet (.task n) ret) (by simp [hd]); rwa [hd] at this
            | assertFail => simp only [hd] at hs; cases hs; exact same _ rfl
            | skipIgn => simp only [hd] at hs; cases hs; have := key (.gLoop (some n) ret) (by simp [hd]); rwa [hd] at this
            | unmet => simp only [hd] at hs; cases hs; have := key (.gLoop (some n) ret) (by simp [hd]); rwa [hd] at this
            | depErr => simp only [hd] at hs; cases hs; have := key (.gLoop (some n) ret) (by simp [hd]); rwa [hd] at this
            | utd => simp only [hd] at hs; cases hs; have := key (.gLoop (some n) ret) (by simp [hd]); rwa [hd] at this
            | runFirst => simp only [hd] at hs; cases hs; have := key (.gLoop (some n) ret) (by simp [hd]); rwa [hd] at this
            | argsErr => simp only [hd] at hs; cases hs; have := key (.gLoop (some n) ret) (by simp [hd]); rwa [hd] at this
        | holdOn => cases hs; exact same _ rfl
        | stopIter => cases hs; exact same _ rfl
        | cyclic n => cases hs; exact same _ rfl
        | crash => cases hs; exact same _ rfl
    | gRet job ret =>
      simp only [hr] at hs; cases hs
      cases ret with
      | startLoop k =>
        simp only [gReturn]
        split
        · exact same _ rfl
        · split <;> exact same _ rfl
      | feedLoop k =>
        simp only [gReturn]
        split
        · split <;> exact same _ rfl
        · exact same _ rfl
    | pTop =>
      simp only [hr] at hs
      split at hs
      · cases hs; exact same _ rfl
      · cases hq : s.resQ with
        | nil => simp only [hq] at hs; cases hs
        | cons n rest =>
          simp only [hq] at hs
          cases hn : s.nodes n with
          | none => simp only [hn] at hs; cases hs; exact same _ rfl
          | some nd =>
            simp only [hn] at hs; cases hs
            exact ng_result (s1 := { s with rpc := .pTop, resQ := rest }) h hn rfl rfl
    | pJoin =>
      simp only [hr] at hs
      split at hs
      · cases hs; exact same _ rfl
      · cases hs
    | fin => simp only [hr] at hs; cases hs; exact same _ rfl
    | sTop a => simp only [hr] at hs; cases hs
    | sWait => simp only [hr] at hs; cases hs
    | sExec a => simp only [hr] at hs; cases hs
    | halted => simp only [hr] at hs; cases hs

theorem reach_ctx9 {s : Sys} (h : Reach inp s) : Ctx9 inp s :=
  ⟨reach_inv2 h, reach_inv3 h, reach_invG h, (reach_invL h).a4b, (reach_invL h).a6⟩

theorem preach_ctx9 {s : Sys} (h : PReach inp s) : Ctx9 inp s :=
  ⟨(preach_inv h).1, (preach_inv h).2, preach_invG h, (preach_invP h).a4b, (preach_invP h).a6⟩

theorem reach_invT {s : Sys} (h : Reach inp s) : InvT inp s := by
  induction h with
  | init => exact init_invT inp
  | @next s0 s1 c hr hs ih =>
    cases c with
    | main perm =>
      exact invT_step ih (reach_ctx9 hr) (serialStep_shape (reach_inv2 hr) (reach_inv3 hr) hs)
        (serialStep_ng (fun _ => rfl) ih.ng hs)
    | take w => cases hs
    | done w => cases hs

theorem preach_invT {s : Sys} (h : PReach inp s) : InvT inp s := by
  induction h with
  | init => exact init_invT inp
  | @next s0 s1 c hr hs ih =>
    have hi := preach_inv hr
    exact invT_step ih (preach_ctx9 hr) (pstep_shape hi.1 hi.2 hs) (pstep_ng (fun _ => rfl) ih.ng hs)

end DoitModel.Run
