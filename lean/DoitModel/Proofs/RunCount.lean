import DoitModel.Proofs.RunOrder
/-! # Counting invariant `Inv3`: each task is selected for execution, started, finished and reported at most once,
    and is in at most one place (job queue / a worker / result queue) while it is in flight -/
namespace DoitModel.Run

def Ev.isGoOf (n : Name) : Ev → Bool
  | .go m _ => m = n
  | _ => false

def cGo (s : Sys) (n : Name) : Nat := s.events.countP (Ev.isGoOf n)
def cStart (s : Sys) (n : Name) : Nat := s.events.countP (Ev.isStartOf n)
def cFin (s : Sys) (n : Name) : Nat := s.events.countP (Ev.isFinOf n)
def cTerm (s : Sys) (n : Name) : Nat := s.events.countP (Ev.isTerminalOf n)

/-- `get_next_job` is returning the job of task `n` -/
def holding (s : Sys) (n : Name) : Nat :=
  match s.rpc with
  | .gRet (.task m) _ => if m = n then 1 else 0
  | _ => 0

/-- positions of a node whose `select_task` may already have answered yes -/
def YSet (inp : RunInput) (n : Name) (pc : PC) : Prop :=
  pc = .afterSelf2 ∨ pc = .done ∨ (inp.setup n = [] ∧ pc = .afterSelf1)

structure Inv3 (inp : RunInput) (s : Sys) : Prop where
  z : awaiting s → ∀ n, s.susp = some (.node n) → cGo s n = 0
  y : ∀ n, cGo s n ≥ 1 → ∃ nd, s.nodes n = some nd ∧ YSet inp n nd.pc
  p0 : ∀ n, cGo s n ≤ 1 ∧ cFin s n ≤ cStart s n
  j : ∀ n, s.jobQ.count (.task n) + holding s n + cStart s n = cGo s n
  w1 : ∀ w n, s.workers w = .running n → cStart s n = 1 ∧ cFin s n = 0 ∧ stOf s n = .run
  w2 : ∀ w w' n, s.workers w = .running n → s.workers w' = .running n → w = w'
  q1 : ∀ n ∈ s.resQ, cFin s n = 1 ∧ stOf s n = .run
  q2 : s.resQ.Nodup
  j2 : ∀ n, (Job.task n ∈ s.jobQ ∨ holding s n = 1) → stOf s n = .run
  x3 : ∀ n, s.rpc = .sExec n → cStart s n = 1 ∧ cFin s n = 0
  xw : ∀ n w, s.rpc = .sExec n → s.workers w ≠ .running n
  t : ∀ n, (stOf s n).finished = false → cTerm s n = 0
  t2 : ∀ n, cTerm s n ≤ 1

/-- the four counters of a list of new events -/
structure Counts (new : List Ev) (n : Name) (g st f tm : Nat) : Prop where
  go : new.countP (Ev.isGoOf n) = g
  start : new.countP (Ev.isStartOf n) = st
  fin : new.countP (Ev.isFinOf n) = f
  term : new.countP (Ev.isTerminalOf n) = tm

theorem counts_append {s s' : Sys} {new : List Ev} (hev : s'.events = new ++ s.events) (n : Name) :
    cGo s' n = new.countP (Ev.isGoOf n) + cGo s n ∧ cStart s' n = new.countP (Ev.isStartOf n) + cStart s n ∧
    cFin s' n = new.countP (Ev.isFinOf n) + cFin s n ∧ cTerm s' n = new.countP (Ev.isTerminalOf n) + cTerm s n := by
  simp [cGo, cStart, cFin, cTerm, hev, List.countP_append]

theorem counts_same {s s' : Sys} (hev : s'.events = s.events) (n : Name) :
    cGo s' n = cGo s n ∧ cStart s' n = cStart s n ∧ cFin s' n = cFin s n ∧ cTerm s' n = cTerm s n := by
  simp [cGo, cStart, cFin, cTerm, hev]

theorem statusEv_counts (nd : Node) (m n : Name) : Counts (statusEv nd m) n 0 0 0 0 := by
  unfold statusEv; split <;> constructor <;> simp [Ev.isGoOf, Ev.isStartOf, Ev.isFinOf, Ev.isTerminalOf]

theorem count_task_pos {q : List Job} {n : Name} : Job.task n ∈ q ↔ q.count (.task n) ≥ 1 := by
  rw [ge_iff_le, List.one_le_count_iff]


/-! ### program counters: who moves -/

/-- every existing node other than `ex` keeps its program counter -/
def PcKeep (s s' : Sys) (ex : Option Name) : Prop :=
  ∀ k x, s.nodes k = some x → some k ≠ ex → ∃ x', s'.nodes k = some x' ∧ x'.pc = x.pc

theorem PcKeep.trans {a b c : Sys} {ex : Option Name} (h1 : PcKeep a b ex) (h2 : PcKeep b c ex) : PcKeep a c ex := by
  intro k x hx hk
  obtain ⟨x', hx', e1⟩ := h1 k x hx hk
  obtain ⟨x'', hx'', e2⟩ := h2 k x' hx' hk
  exact ⟨x'', hx'', e2.trans e1⟩

theorem PcKeep.refl (a : Sys) (ex : Option Name) : PcKeep a a ex := fun _ x hx _ => ⟨x, hx, rfl⟩

theorem PcKeep.weaken {a b : Sys} {ex : Option Name} (h : PcKeep a b none) : PcKeep a b ex :=
  fun k x hx _ => h k x hx (by simp)

theorem setNode_self (s : Sys) (n : Name) (x : Node) : (setNode s n x).nodes n = some x := by simp [setNode]

theorem pcKeep_setNode (s : Sys) (n : Name) (x : Node) : PcKeep s (setNode s n x) (some n) := by
  intro k y hy hk
  have : k ≠ n := fun e => hk (by rw [e])
  exact ⟨y, by simp [setNode_nodes, this, hy], rfl⟩

theorem pcKeep_setNode_same {s : Sys} {n : Name} {nd x : Node} (hn : s.nodes n = some nd) (hpc : x.pc = nd.pc) :
    PcKeep s (setNode s n x) none := by
  intro k y hy _
  by_cases e : k = n
  · subst e; rw [hn] at hy; cases hy; exact ⟨x, by simp [setNode_nodes], hpc⟩
  · exact ⟨y, by simp [setNode_nodes, e, hy], rfl⟩

theorem pcKeep_registerWaiting (s : Sys) (n : Name) (wf : List Name) : PcKeep s (registerWaiting s n wf) none := by
  intro k y hy _
  rw [registerWaiting_nodes, hy]
  by_cases hk : k ∈ wf
  · exact ⟨y.addWaiting n, by simp [hk], (addWaiting_fields y n).1⟩
  · exact ⟨y, by simp [hk], rfl⟩

/-- effect of `genStep` on the nodes: others keep their pc; the current node gets pc `pc'` or keeps its pc -/
theorem genStep_pcs {inp : RunInput} {s : Sys} {n : Name} {nd : Node} (d : Name) (pc' : PC)
    (hn : s.nodes n = some nd) :
    PcKeep s (genStep inp s n nd d pc') (some n) ∧
    ∃ nd', (genStep inp s n nd d pc').nodes n = some nd' ∧ (nd'.pc = pc' ∨ nd'.pc = nd.pc) := by
  unfold genStep
  cases hd : s.nodes d with
  | none =>
    simp only []
    have hdn : d ≠ n := by intro e; subst e; rw [hn] at hd; cases hd
    constructor
    · intro k y hy hk
      have h1 : k ≠ n := fun e => hk (by rw [e])
      have h2 : k ≠ d := by intro e; subst e; rw [hd] at hy; cases hy
      exact ⟨y, by simp [setNode, h1, h2, hy], rfl⟩
    · exact ⟨{ nd with pc := pc' }, by simp [setNode], Or.inl rfl⟩
  | some y =>
    simp only []
    split
    · exact ⟨fun k x hx _ => ⟨x, hx, rfl⟩, nd, hn, Or.inr rfl⟩
    · exact ⟨pcKeep_setNode s n _, { nd with pc := pc' }, by simp [setNode], Or.inl rfl⟩

theorem addWaitRun_pcs {inp : RunInput} {s : Sys} {n : Name} {nd : Node} (ds : List Name) (c : Bool) (pc' : PC) :
    PcKeep s (addWaitRun inp s n nd ds c pc') (some n) ∧
    ∃ nd', (addWaitRun inp s n nd ds c pc').nodes n = some nd' ∧ nd'.pc = pc' := by
  unfold addWaitRun
  have f := waitNode_facts inp s nd ds c pc'
  constructor
  · exact (pcKeep_setNode s n _).trans (pcKeep_registerWaiting _ n _).weaken
  · have hx : (setNode s n (waitNode inp s nd ds c pc')).nodes n = some (waitNode inp s nd ds c pc') := by
      simp [setNode_nodes]
    obtain ⟨x', hx', e⟩ := pcKeep_registerWaiting (setNode s n (waitNode inp s nd ds c pc')) n
      (ds.filter (unfinished s)) n _ hx (by simp)
    exact ⟨x', hx', e.trans f.pc⟩

/-- `node.step()`: other nodes keep their pc, the current node stays inside `YSet` if it was there -/
theorem nodeStep_pcs {inp : RunInput} {s s' : Sys} {n : Name} {nd : Node} {perm : List Name}
    (hn : s.nodes n = some nd) (hs : nodeStep inp s n nd perm = some s') :
    PcKeep s s' (some n) ∧ ∃ nd', s'.nodes n = some nd' ∧ (YSet inp n nd.pc → YSet inp n nd'.pc) := by
  unfold nodeStep at hs
  cases hpc : nd.pc with
  | loopTop =>
    simp only [hpc] at hs; split at hs
    · cases hs; exact ⟨pcKeep_setNode s n _, _, setNode_self _ _ _, fun h => by simp [YSet] at h⟩
    · cases hs
  | calcIter todo =>
    simp only [hpc] at hs
    cases todo with
    | cons d ds =>
      cases hs
      obtain ⟨a, nd', b, _⟩ := genStep_pcs (inp := inp) d (.calcIter ds) hn
      exact ⟨a, nd', b, fun h => by simp [YSet] at h⟩
    | nil =>
      cases hs
      obtain ⟨a, nd', b, _⟩ := addWaitRun_pcs (inp := inp) (s := s) (n := n) (nd := nd) nd.snapCalc true (.taskIter nd.snapTask)
      exact ⟨a, nd', b, fun h => by simp [YSet] at h⟩
  | taskIter todo =>
    simp only [hpc] at hs
    cases todo with
    | cons d ds =>
      cases hs
      obtain ⟨a, nd', b, _⟩ := genStep_pcs (inp := inp) d (.taskIter ds) hn
      exact ⟨a, nd', b, fun h => by simp [YSet] at h⟩
    | nil =>
      cases hs
      obtain ⟨a, nd', b, _⟩ := addWaitRun_pcs (inp := inp) (s := s) (n := n) (nd := nd) nd.snapTask false .afterDeps
      exact ⟨a, nd', b, fun h => by simp [YSet] at h⟩
  | afterDeps =>
    simp only [hpc] at hs
    split at hs
    · cases hs; exact ⟨pcKeep_setNode s n _, _, setNode_self _ _ _, fun h => by simp [YSet] at h⟩
    · split at hs
      · cases hs
        exact ⟨fun k x hx hk => pcKeep_setNode s n _ k x hx hk, _, setNode_self _ _ _, fun h => by simp [YSet] at h⟩
      · cases hs; exact ⟨pcKeep_setNode s n _, _, setNode_self _ _ _, fun h => by simp [YSet] at h⟩
  | self1 =>
    simp only [hpc] at hs; cases hs
    exact ⟨fun k x hx hk => pcKeep_setNode s n _ k x hx hk, _, setNode_self _ _ _, fun h => by simp [YSet] at h⟩
  | afterSelf1 =>
    simp only [hpc] at hs
    split at hs
    · cases hs; exact ⟨pcKeep_setNode s n _, _, setNode_self _ _ _, fun _ => Or.inr (Or.inl rfl)⟩
    · rename_i hsetup
      split at hs
      · cases hs
        exact ⟨fun k x hx hk => pcKeep_setNode s n _ k x hx hk, _, setNode_self _ _ _,
          fun h => by simp [YSet, hsetup] at h⟩
      · cases hs; exact ⟨pcKeep_setNode s n _, _, setNode_self _ _ _, fun h => by simp [YSet, hsetup] at h⟩
  | setupDecide =>
    simp only [hpc] at hs
    split at hs <;> (cases hs; exact ⟨pcKeep_setNode s n _, _, setNode_self _ _ _, fun h => by simp [YSet] at h⟩)
  | setupIter todo =>
    simp only [hpc] at hs
    cases todo with
    | cons d ds =>
      cases hs
      obtain ⟨a, nd', b, _⟩ := genStep_pcs (inp := inp) d (.setupIter ds) hn
      exact ⟨a, nd', b, fun h => by simp [YSet] at h⟩
    | nil =>
      cases hs
      obtain ⟨a, nd', b, _⟩ := addWaitRun_pcs (inp := inp) (s := s) (n := n) (nd := nd) (inp.setup n) false .afterSetup
      exact ⟨a, nd', b, fun h => by simp [YSet] at h⟩
  | afterSetup =>
    simp only [hpc] at hs
    split at hs
    · cases hs
      exact ⟨fun k x hx hk => pcKeep_setNode s n _ k x hx hk, _, setNode_self _ _ _, fun h => by simp [YSet] at h⟩
    · cases hs; exact ⟨pcKeep_setNode s n _, _, setNode_self _ _ _, fun h => by simp [YSet] at h⟩
  | self2 =>
    simp only [hpc] at hs; cases hs
    exact ⟨fun k x hx hk => pcKeep_setNode s n _ k x hx hk, _, setNode_self _ _ _, fun _ => Or.inl rfl⟩
  | afterSelf2 =>
    simp only [hpc] at hs; cases hs
    exact ⟨pcKeep_setNode s n _, _, setNode_self _ _ _, fun _ => Or.inr (Or.inl rfl)⟩
  | done =>
    simp only [hpc] at hs; cases hs
    exact ⟨fun k x hx _ => ⟨x, hx, rfl⟩, nd, hn, fun h => hpc ▸ h⟩

/-- a dispatcher tick keeps every node that is in `YSet` inside `YSet` -/
theorem dtick_yset {inp : RunInput} {s s' : Sys} {perm : List Name} (hs : dtick inp s perm = some s')
    (k : Name) (x : Node) (hk : s.nodes k = some x) (hy : YSet inp k x.pc) :
    ∃ x', s'.nodes k = some x' ∧ YSet inp k x'.pc := by
  unfold dtick at hs
  cases hc : s.cur with
  | some n =>
    simp only [hc] at hs
    cases hn : s.nodes n with
    | none => simp only [hn] at hs; cases hs; exact ⟨x, hk, hy⟩
    | some nd =>
      simp only [hn] at hs
      obtain ⟨keep, nd', hn', hyy⟩ := nodeStep_pcs hn hs
      by_cases e : k = n
      · subst e; rw [hn] at hk; cases hk; exact ⟨nd', hn', hyy hy⟩
      · obtain ⟨x', hx', e'⟩ := keep k x hk (by simpa using e)
        exact ⟨x', hx', e' ▸ hy⟩
  | none =>
  simp only [hc] at hs
  split at hs
  · cases hs; exact ⟨x, hk, hy⟩
  · split at hs
    · split at hs
      · rename_i t ts _ _ hnt
        cases hs
        refine ⟨x, ?_, hy⟩
        have : k ≠ t := by intro e; subst e; rw [hnt] at hk; cases hk
        simp [setNode, this, hk]
      · cases hs; exact ⟨x, hk, hy⟩
    · split at hs
      · split at hs <;> (cases hs; exact ⟨x, hk, hy⟩)
      · cases hs; exact ⟨x, hk, hy⟩


theorem pcKeep_congr {a b c : Sys} {ex : Option Name} (h : PcKeep a b ex) (e : c.nodes = b.nodes) : PcKeep a c ex := by
  intro k x hx hk; rw [e]; exact h k x hx hk

theorem wakeOne_pcs {inp : RunInput} {s : Sys} {pst : RS} {p w : Name} {nd : Node} (hw : s.nodes w = some nd) :
    PcKeep s (wakeOne inp s pst p w nd) none := by
  have hu := wokenF_upd inp s pst p nd
  have base := pcKeep_setNode_same (x := wokenF inp s pst p nd) hw hu.pc
  unfold wakeOne; split
  · exact pcKeep_congr base rfl
  · exact base

theorem updateWaiting_pcs (inp : RunInput) (pst : RS) (p : Name) :
    ∀ (perm : List Name) (s s' : Sys), updateWaiting inp pst p s perm = some s' → PcKeep s s' none := by
  intro perm
  induction perm with
  | nil => intro s s' hs; simp only [updateWaiting] at hs; cases hs; exact PcKeep.refl _ _
  | cons w ws ih =>
    intro s s' hs
    simp only [updateWaiting] at hs
    cases hw : s.nodes w with
    | none => simp only [hw] at hs; exact ih s s' hs
    | some nd =>
      simp only [hw] at hs
      split at hs
      · cases hs
      · exact (wakeOne_pcs hw).trans (ih _ s' hs)

theorem sendHead_pcs {s : Sys} {p : Name} {nd : Node} (hn : s.nodes p = some nd) : PcKeep s (sendHead s p nd) none := by
  unfold sendHead; split
  · exact pcKeep_congr (pcKeep_setNode_same (x := { nd with waitSelect := false }) hn rfl) rfl
  · exact PcKeep.refl _ _

theorem send_pcs {inp : RunInput} {s s' : Sys} {processed : Option Name} {perm : List Name}
    (hs : send inp s processed perm = some s') : PcKeep s s' none := by
  unfold send at hs
  cases processed with
  | none => cases hs; exact PcKeep.refl _ _
  | some p =>
    simp only [] at hs
    cases hn : s.nodes p with
    | none => simp only [hn] at hs; cases hs; exact PcKeep.refl _ _
    | some nd =>
      simp only [hn] at hs
      split at hs
      · cases hs; exact PcKeep.refl _ _
      · split at hs
        · cases hs; exact pcKeep_congr (sendHead_pcs hn) rfl
        · split at hs
          · cases hu : updateWaiting inp nd.status p (sendHead s p nd) perm with
            | none => simp only [hu] at hs; cases hs; exact pcKeep_congr (sendHead_pcs hn) rfl
            | some s2 =>
              simp only [hu] at hs; cases hs
              exact pcKeep_congr ((sendHead_pcs hn).trans (updateWaiting_pcs inp _ p perm _ s2 hu)) rfl
          · cases hs

/-! ### preservation of `Inv3` -/

/-- the dispatcher moves: no event, no status, no queue of the runner changes -/
theorem inv3_disp {inp : RunInput} {s s' : Sys} (h : Inv3 inp s) (o : SameOuter s s')
    (hst : ∀ x, stOf s' x = stOf s x)
    (hy : ∀ k x, s.nodes k = some x → YSet inp k x.pc → ∃ x', s'.nodes k = some x' ∧ YSet inp k x'.pc)
    (hz : awaiting s' → ∀ n, s'.susp = some (.node n) → cGo s n = 0) : Inv3 inp s' := by
  obtain ⟨o1, o2, o3, o4, o5, _⟩ := o
  have hc := counts_same o1
  have hh : ∀ n, holding s' n = holding s n := by intro n; simp [holding, o2]
  constructor
  · intro ha n hn; rw [(hc n).1]; exact hz ha n hn
  · intro n hn
    rw [(hc n).1] at hn
    obtain ⟨nd, a, b⟩ := h.y n hn
    exact hy n nd a b
  · intro n; rw [(hc n).1, (hc n).2.1, (hc n).2.2.1]; exact h.p0 n
  · intro n; rw [o3, hh, (hc n).1, (hc n).2.1]; exact h.j n
  · intro w n hw; rw [o5] at hw; rw [(hc n).2.1, (hc n).2.2.1, hst]; exact h.w1 w n hw
  · intro w w' n a b; rw [o5] at a b; exact h.w2 w w' n a b
  · intro n hn; rw [o4] at hn; rw [(hc n).2.2.1, hst]; exact h.q1 n hn
  · rw [o4]; exact h.q2
  · intro n hn; rw [o3, hh] at hn; rw [hst]; exact h.j2 n hn
  · intro n hn; rw [o2] at hn; rw [(hc n).2.1, (hc n).2.2.1]; exact h.x3 n hn
  · intro n w hn; rw [o2] at hn; rw [o5]; exact h.xw n w hn
  · intro n hn; rw [hst] at hn; rw [(hc n).2.2.2]; exact h.t n hn
  · intro n; rw [(hc n).2.2.2]; exact h.t2 n

theorem inv3_dtick {inp : RunInput} {s s' : Sys} {perm : List Name} (h3 : Inv3 inp s) (h2 : Inv2 inp s)
    (hsusp : s.susp = none) (hs : dtick inp s perm = some s') : Inv3 inp s' := by
  refine inv3_disp h3 (dtick_outer hs) (dtick_stOf hs) (dtick_yset hs) ?_
  intro _ n hy
  obtain ⟨nd, hn, hc⟩ := dtick_yield hs hsusp n hy
  -- the node was at `self1` / `self2`: `select_task` has not answered yes for it
  cases hg : cGo s n with
  | zero => rfl
  | succ k =>
    obtain ⟨nd', a, b⟩ := h3.y n (by omega)
    rw [hn] at a; cases a
    rcases hc with ⟨e, _⟩ | ⟨e, _⟩ <;> (rw [e] at b; simp [YSet] at b)

theorem inv3_send {inp : RunInput} {s s0 : Sys} {node : Option Name} {perm : List Name} (rpc' : RPC)
    (h3 : Inv3 inp s) (h2 : Inv2 inp s) (hnode : sentBack s = node) (hs : send inp s node perm = some s0)
    (hr0 : holding s = fun _ => 0)
    (hr2 : ∀ n ret, rpc' ≠ .gRet (.task n) ret) (hr3 : ∀ n, rpc' ≠ .sExec n) : Inv3 inp { s0 with rpc := rpc' } := by
  obtain ⟨⟨o1, o2, o3, o4, o5, _⟩, osusp⟩ := send_outer hs
  obtain ⟨_, hst⟩ := send_inv1 h2.inv1 (fun p hp => h2.sb p (by rw [hnode, hp])) hs
  have keep := send_pcs hs
  have hc := counts_same (s' := { s0 with rpc := rpc' }) o1
  have hh : ∀ n, holding { s0 with rpc := rpc' } n = 0 := by
    intro n; unfold holding
    cases rpc' with
    | gRet j r => cases j with
      | task m => exact absurd rfl (hr2 m r)
      | _ => rfl
    | _ => rfl
  have hh0 : ∀ n, holding s n = 0 := fun n => by rw [hr0]
  constructor
  · intro _ n hy; rcases osusp with e | e <;> (simp only [e] at hy; cases hy)
  · intro n hn
    rw [(hc n).1] at hn
    obtain ⟨nd, a, b⟩ := h3.y n hn
    obtain ⟨x', hx', e⟩ := keep n nd a (by simp)
    exact ⟨x', hx', e ▸ b⟩
  · intro n; rw [(hc n).1, (hc n).2.1, (hc n).2.2.1]; exact h3.p0 n
  · intro n; rw [hh, (hc n).1, (hc n).2.1]; have := h3.j n; rw [hh0] at this; simpa [o3] using this
  · intro w n hw; rw [(hc n).2.1, (hc n).2.2.1]
    have hw' : s.workers w = .running n := by rw [← o5]; exact hw
    have := h3.w1 w n hw'
    exact ⟨this.1, this.2.1, (hst n).trans this.2.2⟩
  · intro w w' n a b
    exact h3.w2 w w' n (by rw [← o5]; exact a) (by rw [← o5]; exact b)
  · intro n hn
    have hn' : n ∈ s.resQ := by rw [← o4]; exact hn
    rw [(hc n).2.2.1]
    exact ⟨(h3.q1 n hn').1, (hst n).trans (h3.q1 n hn').2⟩
  · show s0.resQ.Nodup; rw [o4]; exact h3.q2
  · intro n hn
    rw [hh] at hn
    rcases hn with a | a
    · exact (hst n).trans (h3.j2 n (Or.inl (by rw [← o3]; exact a)))
    · cases a
  · intro n hn; exact absurd hn (hr3 n)
  · intro n w hn; exact absurd hn (hr3 n)
  · intro n hn
    rw [(hc n).2.2.2]; apply h3.t
    have : stOf { s0 with rpc := rpc' } n = stOf s n := hst n
    rw [← this]; exact hn
  · intro n; rw [(hc n).2.2.2]; exact h3.t2 n

end DoitModel.Run
