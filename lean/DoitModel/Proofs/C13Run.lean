import DoitModel.Model.Cmds
/-! # C13 — one run: ignore marks are honoured and propagate; a forgotten task is not skipped -/
namespace DoitModel.Cmds
open DoitModel.Status

/-! ## status of a task without a record -/

theorem any_true_of {α} {l : List α} {f : α → Bool} {x : α} (hx : x ∈ l) (h : f x = true) : l.any f = true :=
  List.any_eq_true.2 ⟨x, hx, h⟩

theorem depIs_empty_crash (c : Checker) (fs : FS) (p : Path) : depIs .crash c Rcd.empty fs p = false := by
  unfold depIs
  cases fs p <;> simp [depVerdict, Rcd.empty]

theorem depIs_empty_modified (c : Checker) (fs : FS) (p : Path) (cur : FMeta) (h : fs p = some cur) :
    depIs .modified c Rcd.empty fs p = true := by
  unfold depIs
  simp [h, depVerdict, Rcd.empty]

/-- `status_of_empty_record`: a task with a file dependency and no record is never up-to-date (nor a crash) -/
theorem statusOf_empty (fixed : Bool) (c : Checker) (d : TaskDef) (fs : FS) (resOf : Name → Option Res)
    (hd : d.deps ≠ []) :
    statusOf fixed c d Rcd.empty fs resOf = .run ∨
    (statusOf fixed c d Rcd.empty fs resOf = .error ∧ d.deps.any (depMissing fs) = true) := by
  unfold statusOf
  split
  · exact Or.inl rfl
  · have hc : checkerChanged c Rcd.empty = false := by simp [checkerChanged, Rcd.empty]
    simp only [hc, Bool.false_eq_true, if_false]
    unfold fileVerdict
    by_cases hm : d.deps.any (depMissing fs) = true
    · simp only [hm, if_true]; exact Or.inr (by simp)
    · simp only [hm]
      have hcr : d.deps.any (depIs .crash c Rcd.empty fs) = false := by
        apply List.any_eq_false.2
        intro p _
        simp [depIs_empty_crash]
      obtain ⟨p, rest, hp⟩ := List.exists_cons_of_ne_nil hd
      have hpm : p ∈ d.deps := by rw [hp]; exact List.mem_cons_self
      have hnm : depMissing fs p = false := by
        cases h : depMissing fs p with
        | false => rfl
        | true => exact absurd (any_true_of hpm h) hm
      have : ∃ cur, fs p = some cur := by
        unfold depMissing at hnm
        cases h : fs p with
        | none => simp [h] at hnm
        | some cur => exact ⟨cur, rfl⟩
      obtain ⟨cur, hcur⟩ := this
      have hmod : d.deps.any (depIs .modified c Rcd.empty fs) = true :=
        any_true_of hpm (depIs_empty_modified c fs p cur hcur)
      simp [hcr, hmod]

/-! ## frame facts -/

theorem applyWrites_frame (ws : List (Path × Nat × Nat)) (s : St) :
    (applyWrites s ws).rcd = s.rcd ∧ (applyWrites s ws).defs = s.defs ∧ (applyWrites s ws).checker = s.checker
    ∧ (applyWrites s ws).shadow = s.shadow := by
  induction ws generalizing s with
  | nil => simp [applyWrites]
  | cons w ws ih =>
    obtain ⟨p, sz, c⟩ := w
    simp only [applyWrites]
    have := ih (writeFile s p sz c)
    simpa [writeFile] using this

theorem erase_frame (s : St) (t k : Name) (h : k ≠ t) : (erase s t).rcd k = s.rcd k := by simp [erase, h]

theorem peek_frame (s : St) (t k : Name) (h : k ≠ t) : (peek s t).rcd k = s.rcd k := by
  unfold peek; split
  · exact erase_frame s t k h
  · rfl

theorem peek_defs (s : St) (t : Name) : (peek s t).defs = s.defs := by
  unfold peek; split <;> simp [erase]

theorem finish_frame (s : St) (t k : Name) (ok : Bool) (res : Option Res) (h : k ≠ t) :
    (finish s t ok res).rcd k = s.rcd k := by
  unfold finish
  split
  · split <;> simp [commit, erase, h]
  · simp [erase, h]

theorem finish_defs (s : St) (t : Name) (ok : Bool) (res : Option Res) : (finish s t ok res).defs = s.defs := by
  unfold finish
  split
  · split <;> simp [commit, erase]
  · simp [erase]

/-- what `runOne` does to the bookkeeping: exactly one report for `t` is added, only `t`'s record can change, the
    task definitions do not, and the order flag only grows -/
theorem runOne_shape (fixed always : Bool) (g : Graph) (plan : Name → Plan) (rs : RunSt) (t : Name) :
    ∃ o, (runOne fixed always g plan rs t).out = (t, o) :: rs.out ∧
      (∀ k, k ≠ t → (runOne fixed always g plan rs t).s.rcd k = rs.s.rcd k) ∧
      (runOne fixed always g plan rs t).s.defs = rs.s.defs ∧
      ((runOne fixed always g plan rs t).bad = false →
        rs.bad = false ∧ missingOut rs (hardDeps g rs.s.defs t) = false) := by
  unfold runOne
  split
  · exact ⟨_, rfl, fun k _ => rfl, rfl, by simp [record]⟩
  · split
    · exact ⟨_, rfl, fun k hk => erase_frame _ _ _ hk, rfl, by simp [record]⟩
    · cases hst : rs.s.status true t with
      | crash => exact ⟨_, rfl, fun k _ => rfl, rfl, by simp [record]⟩
      | error => exact ⟨_, rfl, fun k hk => erase_frame _ _ _ hk, rfl, by simp [record]⟩
      | upToDate =>
        simp only
        split
        · unfold afterSetup
          split
          · exact ⟨_, rfl, fun k _ => rfl, rfl, by simp [record]; intro a b _; exact ⟨a, b⟩⟩
          · split
            · exact ⟨_, rfl, fun k hk => erase_frame _ _ _ hk, rfl, by simp [record]; intro a b _; exact ⟨a, b⟩⟩
            · refine ⟨_, rfl, ?_, ?_, by simp [record]; intro a b _; exact ⟨a, b⟩⟩
              · intro k hk
                simp only [record]
                rw [finish_frame _ _ _ _ _ hk, (applyWrites_frame _ _).1]
              · simp only [record]
                rw [finish_defs, (applyWrites_frame _ _).2.1]
        · exact ⟨_, rfl, fun k _ => rfl, rfl, by simp [record]⟩
      | run =>
        simp only
        unfold afterSetup
        split
        · exact ⟨_, rfl, fun k hk => peek_frame _ _ _ hk, peek_defs _ _, by simp [record]; intro a b _; exact ⟨a, b⟩⟩
        · split
          · refine ⟨_, rfl, ?_, ?_, by simp [record]; intro a b _; exact ⟨a, b⟩⟩
            · intro k hk; simp only [record]; rw [erase_frame _ _ _ hk, peek_frame _ _ _ hk]
            · simp [record, erase, peek_defs]
          · refine ⟨_, rfl, ?_, ?_, by simp [record]; intro a b _; exact ⟨a, b⟩⟩
            · intro k hk
              simp only [record]
              rw [finish_frame _ _ _ _ _ hk, (applyWrites_frame _ _).1, peek_frame _ _ _ hk]
            · simp only [record]
              rw [finish_defs, (applyWrites_frame _ _).2.1, peek_defs]

end DoitModel.Cmds

namespace DoitModel.Cmds
open DoitModel.Status

theorem outOf_record (rs : RunSt) (t : Name) (o : Outcome) (s' : St) (b : Bool) : outOf (record rs t o s' b) t = some o := by
  simp [outOf, record, alookup]

/-- first pass of `select_task`: an ignored dependency or the task's own mark ⇒ `skip_ignore`, nothing else happens -/
theorem runOne_ignored (fixed always : Bool) (g : Graph) (plan : Name → Plan) (rs : RunSt) (t : Name)
    (h : anyOut rs (hardDeps g rs.s.defs t) Outcome.isIgnored = true ∨ (rs.s.rcd t).ign = true) :
    (runOne fixed always g plan rs t).out = (t, .ignored) :: rs.out ∧ (runOne fixed always g plan rs t).s = rs.s := by
  unfold runOne
  have : (anyOut rs (hardDeps g rs.s.defs t) Outcome.isIgnored || (rs.s.rcd t).ign) = true := by
    rcases h with h | h <;> simp [h]
  simp [this, record]

/-- second pass (repaired): a task with an ignored setup-task is never executed -/
theorem runOne_setup_ignored (always : Bool) (g : Graph) (plan : Name → Plan) (rs : RunSt) (t : Name)
    (h : anyOut rs (g.setup t) Outcome.isIgnored = true) :
    ∃ o, (runOne true always g plan rs t).out = (t, o) :: rs.out ∧ o.executed = false := by
  unfold runOne
  split
  · exact ⟨_, rfl, rfl⟩
  · split
    · exact ⟨_, rfl, rfl⟩
    · cases hst : rs.s.status true t with
      | crash => exact ⟨_, rfl, rfl⟩
      | error => exact ⟨_, rfl, rfl⟩
      | upToDate =>
        simp only
        split
        · unfold afterSetup
          have h' : anyOut { rs with bad := rs.bad || missingOut rs (hardDeps g rs.s.defs t) } (g.setup t) Outcome.isIgnored = true := h
          simp only [h', Bool.true_and, if_true]
          exact ⟨_, rfl, rfl⟩
        · exact ⟨_, rfl, rfl⟩
      | run =>
        simp only
        unfold afterSetup
        have h' : anyOut { rs with bad := rs.bad || missingOut rs (hardDeps g rs.s.defs t) } (g.setup t) Outcome.isIgnored = true := h
        simp only [h', Bool.true_and, if_true]
        exact ⟨_, rfl, rfl⟩

/-- the task forgotten (record empty) that has a file dependency is not skipped as up-to-date -/
theorem runOne_forgotten (fixed always : Bool) (g : Graph) (plan : Name → Plan) (rs : RunSt) (t : Name)
    (hr : rs.s.rcd t = Rcd.empty) (hd : (rs.s.defs t).deps ≠ []) :
    (runOne fixed always g plan rs t).out ≠ (t, .upToDate) :: rs.out := by
  have hst := statusOf_empty true rs.s.checker (rs.s.defs t) rs.s.fs rs.s.resOf hd
  have hst' : rs.s.status true t = .run ∨ rs.s.status true t = .error := by
    unfold St.status; rw [hr]
    rcases hst with h | h
    · exact Or.inl h
    · exact Or.inr h.1
  unfold runOne
  split
  · simp [record]
  · split
    · simp [record]
    · rcases hst' with h | h
      · simp only [h]
        unfold afterSetup
        split
        · simp [record]
        · split
          · simp [record]
          · simp only [record, execOutcome]
            split
            · simp
            · split <;> simp
      · simp [h, record]

theorem alookup_cons_ne {α β} [DecidableEq α] (k a : α) (b : β) (l : List (α × β)) (h : a ≠ k) :
    alookup k ((a, b) :: l) = alookup k l := by simp [alookup, h]

/-- the invariant of a run over a duplicate-free hand-over order -/
structure RunInv (g : Graph) (defs : Name → TaskDef) (ign : Name → Bool) (done : List Name) (rs : RunSt) : Prop where
  defs_eq : rs.s.defs = defs
  ign_eq : ∀ t, t ∉ done → (rs.s.rcd t).ign = ign t
  out_none : ∀ t, t ∉ done → outOf rs t = none
  ignored : ∀ t, t ∈ done → IgnReach g defs ign t → outOf rs t = some .ignored

theorem runOne_inv (fixed always : Bool) (g : Graph) (plan : Name → Plan) (defs : Name → TaskDef) (ign : Name → Bool)
    (done : List Name) (rs : RunSt) (t : Name) (ht : t ∉ done) (inv : RunInv g defs ign done rs)
    (hbad : (runOne fixed always g plan rs t).bad = false) :
    RunInv g defs ign (t :: done) (runOne fixed always g plan rs t) := by
  obtain ⟨o, hout, hframe, hdefs, hb⟩ := runOne_shape fixed always g plan rs t
  obtain ⟨_, hmiss⟩ := hb hbad
  refine ⟨hdefs.trans inv.defs_eq, ?_, ?_, ?_⟩
  · intro k hk
    have hkt : k ≠ t := fun h => hk (h ▸ List.mem_cons_self)
    rw [hframe k hkt]
    exact inv.ign_eq k (fun h => hk (List.mem_cons_of_mem _ h))
  · intro k hk
    have hkt : k ≠ t := fun h => hk (h ▸ List.mem_cons_self)
    unfold outOf
    rw [hout, alookup_cons_ne k t o rs.out (Ne.symm hkt)]
    exact inv.out_none k (fun h => hk (List.mem_cons_of_mem _ h))
  · intro k hk hreach
    by_cases hkt : k = t
    · subst hkt
      -- the task processed now: marked, or a hard dependency (already reported, since the order is good) is ignored
      have hcond : anyOut rs (hardDeps g rs.s.defs k) Outcome.isIgnored = true ∨ (rs.s.rcd k).ign = true := by
        cases hreach with
        | mark hm => exact Or.inr ((inv.ign_eq k ht).trans hm)
        | dep hd hrd =>
          rename_i d
          left
          rw [inv.defs_eq] at hmiss ⊢
          -- d has a report (the order flag is clean), hence was processed, hence was reported ignored
          have hdone : d ∈ done := by
            refine Classical.byContradiction fun hnd => ?_
            have hnone := inv.out_none d hnd
            have : missingOut rs (hardDeps g defs k) = true := by
              unfold missingOut
              exact any_true_of hd (by simp [hnone])
            rw [this] at hmiss
            exact Bool.noConfusion hmiss
          have hig := inv.ignored d hdone hrd
          unfold anyOut
          exact any_true_of hd (by simp [hig, Outcome.isIgnored])
      have := (runOne_ignored fixed always g plan rs k hcond).1
      unfold outOf
      rw [this]
      simp [alookup]
    · have hkd : k ∈ done := by
        rcases List.mem_cons.1 hk with h | h
        · exact absurd h hkt
        · exact h
      unfold outOf
      rw [hout, alookup_cons_ne k t o rs.out (Ne.symm hkt)]
      exact inv.ignored k hkd hreach

theorem foldl_bad_mono (fixed always : Bool) (g : Graph) (plan : Name → Plan) (order : List Name) (rs : RunSt)
    (h : (order.foldl (runOne fixed always g plan) rs).bad = false) : rs.bad = false := by
  induction order generalizing rs with
  | nil => exact h
  | cons t ts ih =>
    simp only [List.foldl_cons] at h
    have := ih _ h
    obtain ⟨_, _, _, _, hb⟩ := runOne_shape fixed always g plan rs t
    exact (hb this).1

theorem foldl_inv (fixed always : Bool) (g : Graph) (plan : Name → Plan) (defs : Name → TaskDef) (ign : Name → Bool)
    (order : List Name) (done : List Name) (rs : RunSt) (hnd : order.Nodup) (hdisj : ∀ t ∈ order, t ∉ done)
    (inv : RunInv g defs ign done rs) (hbad : (order.foldl (runOne fixed always g plan) rs).bad = false) :
    RunInv g defs ign (order.reverse ++ done) (order.foldl (runOne fixed always g plan) rs) := by
  induction order generalizing done rs with
  | nil => simpa using inv
  | cons t ts ih =>
    simp only [List.foldl_cons, List.reverse_cons, List.append_assoc, List.singleton_append] at hbad ⊢
    have hnd' := List.nodup_cons.1 hnd
    have hstep := runOne_inv fixed always g plan defs ign done rs t (hdisj t List.mem_cons_self) inv
      (foldl_bad_mono fixed always g plan ts _ hbad)
    apply ih (t :: done) _ hnd'.2 _ hstep hbad
    intro k hk hkd
    rcases List.mem_cons.1 hkd with h | h
    · exact hnd'.1 (h ▸ hk)
    · exact hdisj k (List.mem_cons_of_mem _ hk) h

/-- tasks not in the (rest of the) order keep their record and their report -/
theorem foldl_frame (fixed always : Bool) (g : Graph) (plan : Name → Plan) (order : List Name) (rs : RunSt) (t : Name)
    (ht : t ∉ order) :
    (order.foldl (runOne fixed always g plan) rs).s.rcd t = rs.s.rcd t ∧
    (order.foldl (runOne fixed always g plan) rs).s.defs = rs.s.defs ∧
    outOf (order.foldl (runOne fixed always g plan) rs) t = outOf rs t := by
  induction order generalizing rs with
  | nil => exact ⟨rfl, rfl, rfl⟩
  | cons k ks ih =>
    simp only [List.foldl_cons]
    have hk : t ≠ k := fun h => ht (h ▸ List.mem_cons_self)
    obtain ⟨o, hout, hframe, hdefs, _⟩ := runOne_shape fixed always g plan rs k
    obtain ⟨i1, i2, i3⟩ := ih (runOne fixed always g plan rs k) (fun h => ht (List.mem_cons_of_mem _ h))
    refine ⟨i1.trans (hframe t hk), i2.trans hdefs, i3.trans ?_⟩
    unfold outOf
    rw [hout, alookup_cons_ne t k o rs.out (Ne.symm hk)]

theorem foldl_defs (fixed always : Bool) (g : Graph) (plan : Name → Plan) (order : List Name) (rs : RunSt) :
    (order.foldl (runOne fixed always g plan) rs).s.defs = rs.s.defs := by
  induction order generalizing rs with
  | nil => rfl
  | cons k ks ih =>
    simp only [List.foldl_cons]
    obtain ⟨_, _, _, hdefs, _⟩ := runOne_shape fixed always g plan rs k
    exact (ih _).trans hdefs

/-- in a whole run: a task without a record that has a file dependency is not reported up-to-date -/
theorem runAll_forgotten (fixed always : Bool) (g : Graph) (plan : Name → Plan) (s : St) (order : List Name)
    (hnd : order.Nodup) (t : Name) (ht : t ∈ order) (hr : s.rcd t = Rcd.empty) (hd : (s.defs t).deps ≠ []) :
    ∃ o, outOf (runAll fixed always g plan s order) t = some o ∧ o ≠ .upToDate := by
  obtain ⟨pre, post, hsplit⟩ := List.append_of_mem ht
  subst hsplit
  have hnd' := List.nodup_append.1 hnd
  have htpre : t ∉ pre := fun h => hnd'.2.2 t h t List.mem_cons_self rfl
  have htpost : t ∉ post := (List.nodup_cons.1 hnd'.2.1).1
  unfold runAll
  rw [List.foldl_append, List.foldl_cons]
  obtain ⟨f1, f2, _⟩ := foldl_frame fixed always g plan pre ⟨s, [], false⟩ t htpre
  have hne := runOne_forgotten fixed always g plan (pre.foldl (runOne fixed always g plan) ⟨s, [], false⟩) t
    (f1.trans hr) (by rw [f2]; exact hd)
  obtain ⟨o, hout, _, _, _⟩ := runOne_shape fixed always g plan (pre.foldl (runOne fixed always g plan) ⟨s, [], false⟩) t
  obtain ⟨_, _, g3⟩ := foldl_frame fixed always g plan post
    (runOne fixed always g plan (pre.foldl (runOne fixed always g plan) ⟨s, [], false⟩) t) t htpost
  refine ⟨o, ?_, ?_⟩
  · rw [g3]; unfold outOf; rw [hout]; simp [alookup]
  · intro ho; subst ho; exact hne hout

end DoitModel.Cmds
