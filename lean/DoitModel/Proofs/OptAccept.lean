import DoitModel.Proofs.OptConfig
import DoitModel.Proofs.OptReject
/-! M4: a config value that does not convert fails the resolution; the acceptance direction -/
namespace DoitModel.Opt

theorem alookup_of_mem {α β : Type _} [DecidableEq α] (k : α) (v : β) (l : List (α × β))
    (hnd : (l.map (·.1)).Nodup) (hm : (k, v) ∈ l) : alookup k l = some v := by
  induction l with
  | nil => cases hm
  | cons x r ih =>
    obtain ⟨a, b⟩ := x
    simp only [List.map_cons, List.nodup_cons] at hnd
    rcases List.mem_cons.mp hm with e | m
    · injection e with e1 e2; subst e1; subst e2; simp [alookup_cons]
    · have : ¬ a = k := by
        intro e; subst e; exact hnd.1 (List.mem_map_of_mem (f := (·.1)) m)
      simp [alookup_cons, this, ih hnd.2 m]

/-- a config value that does not convert makes the whole resolution fail -/
theorem pipeline_bad_config (spec : List Opt) (ini : List (Str × CfgVal)) (dodo : List (Str × Val))
    (env : Str → Option Str) (argv : List Str) (hnd : (spec.map (·.name)).Nodup) (hini : (ini.map (·.1)).Nodup)
    (k : Str) (c : CfgVal) (o : Opt) (hm : (k, c) ∈ ini) (hf : findOpt spec k = some o)
    (hbad : IsErr (str2typeCfg o c)) : IsErr (pipeline spec ini dodo env argv) := by
  unfold pipeline
  cases hov : overwriteDefaults ini spec with
  | error e => exact ⟨e, rfl⟩
  | ok st =>
    exfalso
    obtain ⟨_, hconv⟩ := overwriteDefaults_char ini hini spec st hnd hov
    obtain ⟨ho, hn⟩ := findOpt_some spec k o hf
    obtain ⟨v, hv⟩ := hconv o ho c (by rw [hn]; exact alookup_of_mem k c ini hini hm)
    obtain ⟨e, he⟩ := hbad
    rw [hv] at he; cases he

/-! ### acceptance: when every text converts and list options hold lists, the resolution succeeds -/

theorem findOpt_map (st : PState) (g : Opt → Opt) (hg : ∀ o, (g o).name = o.name) (k : Str) :
    findOpt (st.map g) k = (findOpt st k).map g := by
  unfold findOpt
  rw [List.find?_map]
  congr 1
  congr 1
  funext o
  simp [Function.comp, hg]

theorem overwriteDefaults_ok (ini : List (Str × CfgVal)) (spec : PState)
    (h : ∀ kc ∈ ini, ∀ o, findOpt spec kc.1 = some o → ∃ v, str2typeCfg o kc.2 = .ok v) :
    ∃ st, overwriteDefaults ini spec = .ok st := by
  induction ini generalizing spec with
  | nil => exact ⟨spec, rfl⟩
  | cons x rest ih =>
    obtain ⟨k, c⟩ := x
    unfold overwriteDefaults
    cases hf : findOpt spec k with
    | none =>
      simp only []
      exact ih spec (fun kc hkc => h kc (List.mem_cons_of_mem _ hkc))
    | some o =>
      obtain ⟨v, hv⟩ := h (k, c) (by simp) o hf
      simp only [hv]
      apply ih
      intro kc hkc o' ho'
      have hmap : setDefaultOf spec k v = spec.map (fun o => if o.name = k then { o with default := v } else o) := rfl
      rw [hmap, findOpt_map _ _ (by intro o; split <;> rfl)] at ho'
      cases hf' : findOpt spec kc.1 with
      | none => rw [hf'] at ho'; cases ho'
      | some o2 =>
        rw [hf'] at ho'
        simp only [Option.map_some] at ho'
        injection ho' with ho'
        obtain ⟨v2, hv2⟩ := h kc (List.mem_cons_of_mem _ hkc) o2 hf'
        refine ⟨v2, ?_⟩
        rw [← ho']
        split
        · rw [str2typeCfg_default]; exact hv2
        · exact hv2

theorem applyEnv_ok (env : Str → Option Str) (st : List Opt) (p : Params)
    (h : ∀ o ∈ st, ∀ s, envOf env o = some s → ∃ v, str2type o s = .ok v) : ∃ p', applyEnv env st p = .ok p' := by
  induction st generalizing p with
  | nil => exact ⟨p, rfl⟩
  | cons a r ih =>
    unfold applyEnv
    have hr : ∀ o ∈ r, ∀ s, envOf env o = some s → ∃ v, str2type o s = .ok v :=
      fun o ho => h o (List.mem_cons_of_mem _ ho)
    cases he : a.envVar.bind env with
    | none => simp only []; exact ih _ hr
    | some s =>
      obtain ⟨v, hv⟩ := h a (by simp) s he
      simp only [hv]
      exact ih _ hr

/-- list-typed options hold lists -/
def ListInv (st : PState) (p : Params) : Prop := ∀ o ∈ st, o.ty = .list → ∃ l, p.vals o.name = some (.l l)

def PairOk (st : PState) (kv : Key × Str) : Prop :=
  ∃ o inv, getOption st kv.1 = some (o, inv) ∧ (o.ty = .bool ∨ o.ty = .list ∨ ∃ x, str2type o kv.2 = .ok x)

theorem listInv_set_other (st : PState) (hnd : (st.map (·.name)).Nodup) (p : Params) (o : Opt) (ho : o ∈ st)
    (hty : o.ty ≠ .list) (x : Val) (hinv : ListInv st p) : ListInv st (p.set o.name x) := by
  intro o2 ho2 hl
  by_cases hn : o2.name = o.name
  · have := name_inj st hnd o2 o ho2 ho hn
    subst this; exact absurd hl hty
  · obtain ⟨l, hl'⟩ := hinv o2 ho2 hl
    exact ⟨l, by simp [Params.set, hn, hl']⟩

theorem applyPair_ok (st : PState) (hnd : (st.map (·.name)).Nodup) (p : Params) (kv : Key × Str)
    (hinv : ListInv st p) (hok : PairOk st kv) :
    ∃ p', applyPair false st p kv = (st, .ok p') ∧ ListInv st p' := by
  obtain ⟨o, inv, hg, hcase⟩ := hok
  have ho := getOption_mem st kv.1 o inv hg
  unfold applyPair
  simp only [hg]
  unfold applyOpt
  cases hty : o.ty with
  | bool =>
    exact ⟨_, rfl, listInv_set_other st hnd p o ho (by rw [hty]; decide) _ hinv⟩
  | list =>
    obtain ⟨l, hl⟩ := hinv o ho hty
    refine ⟨p.set o.name (.l (l ++ [kv.2])), by simp [listStep, hl], ?_⟩
    intro o2 ho2 hl2
    by_cases hn : o2.name = o.name
    · exact ⟨l ++ [kv.2], by simp [Params.set, hn]⟩
    · obtain ⟨l', hl'⟩ := hinv o2 ho2 hl2
      exact ⟨l', by simp [Params.set, hn, hl']⟩
  | int =>
    rcases hcase with h | h | ⟨x, hx⟩
    · rw [hty] at h; cases h
    · rw [hty] at h; cases h
    · exact ⟨p.set o.name x, by simp [scalarStep, hx], listInv_set_other st hnd p o ho (by rw [hty]; decide) _ hinv⟩
  | str =>
    rcases hcase with h | h | ⟨x, hx⟩
    · rw [hty] at h; cases h
    · rw [hty] at h; cases h
    · exact ⟨p.set o.name x, by simp [scalarStep, hx], listInv_set_other st hnd p o ho (by rw [hty]; decide) _ hinv⟩

theorem applyPairs_ok (st : PState) (hnd : (st.map (·.name)).Nodup) (ps : Pairs) (p : Params)
    (hinv : ListInv st p) (hok : ∀ kv ∈ ps, PairOk st kv) : ∃ p', applyPairs false ps st p = (st, .ok p') := by
  induction ps generalizing p with
  | nil => exact ⟨p, rfl⟩
  | cons kv rest ih =>
    obtain ⟨p1, h1, hinv1⟩ := applyPair_ok st hnd p kv hinv (hok kv (by simp))
    unfold applyPairs
    rw [h1]
    exact ih p1 hinv1 (fun kv' h' => hok kv' (List.mem_cons_of_mem _ h'))

theorem baseValue_withDefault (ini : List (Str × CfgVal)) (o : Opt) (envv : Option Str)
    (hconv : ∀ c, alookup o.name ini = some c → ∃ v, str2typeCfg o c = .ok v) :
    baseValue (withDefault ini o) envv none = baseValue o envv (alookup o.name ini) := by
  cases envv with
  | some s => rfl
  | none =>
    simp only [baseValue, withDefault, newDefault]
    cases hc : alookup o.name ini with
    | none => rfl
    | some c =>
      obtain ⟨v, hv⟩ := hconv c hc
      simp [hv]

/-- **acceptance**: if getopt reads the argv, every text that has to be converted converts (`allConvert`) and
    list-typed options hold lists in every source, the whole resolution succeeds (with getopt's positionals) -/
theorem pipeline_accepts (spec : List Opt) (ini : List (Str × CfgVal)) (dodo : List (Str × Val))
    (env : Str → Option Str) (argv : List Str) (ps : Pairs) (pos : List Str)
    (hnd : (spec.map (·.name)).Nodup) (hini : (ini.map (·.1)).Nodup)
    (hg : getopt spec argv = .ok (ps, pos)) (hall : allConvert spec ini env ps = true)
    (hlists : ∀ o ∈ spec, o.ty = .list → ∃ l, baseValue o (envOf env o) (alookup o.name ini) = .ok (.l l)) :
    ∃ p, pipeline spec ini dodo env argv = .ok (p, pos) := by
  simp only [allConvert, Bool.and_eq_true, List.all_eq_true] at hall
  obtain ⟨⟨h1, h2⟩, h3⟩ := hall
  -- (a) the config sections convert
  obtain ⟨st, hst⟩ := overwriteDefaults_ok ini spec (by
    intro kc hkc o hf
    have := h1 kc hkc
    rw [hf] at this
    cases hc : str2typeCfg o kc.2 with
    | ok v => exact ⟨v, rfl⟩
    | error e => simp [hc, Except.toBool] at this)
  obtain ⟨hchar, hconv⟩ := overwriteDefaults_char ini hini spec st hnd hst
  have hstw : st = spec.map (wd (newDefault ini)) := hchar
  have hnd' : (st.map (·.name)).Nodup := by rw [hstw, List.map_map]; exact hnd
  -- (b) the environment converts
  obtain ⟨p0, hp0⟩ := applyEnv_ok env st (initParams st Params.empty) (by
    intro o' ho' s hs
    rw [hstw] at ho'
    obtain ⟨o, ho, rfl⟩ := List.mem_map.mp ho'
    have := h2 o ho
    have hs' : envOf env o = some s := hs
    rw [hs'] at this
    cases hc : str2type o s with
    | ok v => exact ⟨v, hc⟩
    | error e => simp [hc, Except.toBool] at this)
  -- list options start as lists
  have hinv0 : ListInv st p0 := by
    intro o' ho' hl
    have ho'' := ho'
    rw [hstw] at ho''
    obtain ⟨o, ho, heq⟩ := List.mem_map.mp ho''
    obtain ⟨l, hb⟩ := hlists o ho (by rw [← heq] at hl; exact hl)
    have hb' : baseValue o' (envOf env o') none = .ok (.l l) := by
      rw [← heq]
      have := baseValue_withDefault ini o (envOf env o) (hconv o ho)
      exact this.trans hb
    have heff := applyEnv_effect env st hnd' o' ho' _ p0 hp0
    cases hev : envOf env o' with
    | some s =>
      simp only [hev] at heff
      obtain ⟨v, hv, hval, _⟩ := heff
      simp only [hev, baseValue, hv] at hb'
      injection hb' with hb'
      exact ⟨l, by rw [hval, hb']⟩
    | none =>
      simp only [hev] at heff
      simp only [hev, baseValue] at hb'
      injection hb' with hb'
      exact ⟨l, by rw [heff.1, initParams_vals st hnd' _ o' ho', hb']⟩
  -- (c) the command line converts
  have hg' : getopt st argv = .ok (ps, pos) := by rw [hstw, getopt_wd]; exact hg
  obtain ⟨p1, hp1⟩ := applyPairs_ok st hnd' ps p0 hinv0 (by
    intro kv hkv
    have := h3 kv hkv
    rw [hstw]
    unfold PairOk
    rw [getOption_wd]
    cases hgo : getOption spec kv.1 with
    | none => simp [hgo] at this
    | some r =>
      obtain ⟨o, inv⟩ := r
      simp only [hgo] at this
      refine ⟨wd (newDefault ini) o, inv, rfl, ?_⟩
      simp only [Bool.or_eq_true, decide_eq_true_eq] at this
      rcases this with (h | h) | h
      · exact Or.inl h
      · exact Or.inr (Or.inl h)
      · cases hc : str2type o kv.2 with
        | ok v => exact Or.inr (Or.inr ⟨v, hc⟩)
        | error e => simp [hc, Except.toBool] at h)
  refine ⟨updateDefaults dodo p1, ?_⟩
  unfold pipeline
  simp only [hst]
  unfold parse
  simp only [hp0]
  unfold parseOnly
  simp only [hg', hp1, withPos, withDodo]

/-! ### command-line variables -/

theorem stripVars_id (argv : List Str) (h : NoVarWords argv = true) : stripVars argv = .ok argv := by
  induction argv with
  | nil => rfl
  | cons a r ih =>
    simp only [NoVarWords, List.all_cons, Bool.and_eq_true, Bool.not_eq_true'] at h
    have hr : NoVarWords r = true := by simpa [NoVarWords] using h.2
    have ih' : stripVarsP false r = .ok r := ih hr
    by_cases ha : a = []
    · simp [stripVars, stripVarsP, ih', ha]
    · simp [stripVars, stripVarsP, ih', ha, h.1]

/-! ### config layers: `dict.update` per key -/

theorem alookup_append {α β : Type _} [DecidableEq α] (k : α) (a b : List (α × β)) :
    alookup k (a ++ b) = match alookup k a with
      | some v => some v
      | none => alookup k b := by
  induction a with
  | nil => simp [alookup]
  | cons x r ih =>
    obtain ⟨a1, b1⟩ := x
    simp only [List.cons_append, alookup_cons]
    split <;> simp [ih]

theorem alookup_filter_ne {α β : Type _} [DecidableEq α] (k : α) (l : List (α × β)) (q : α → Bool) (hq : q k = true) :
    alookup k (l.filter fun kv => q kv.1) = alookup k l := by
  induction l with
  | nil => rfl
  | cons x r ih =>
    obtain ⟨a, b⟩ := x
    by_cases ha : a = k
    · subst ha; simp [List.filter, hq, alookup_cons]
    · cases hqa : q a <;> simp [List.filter, hqa, alookup_cons, ha, ih]

/-- the later layer wins for the keys it sets, the keys only the earlier layer sets are kept -/
theorem mergeCfg_lookup (g c : List (Str × CfgVal)) (k : Str) :
    alookup k (mergeCfg g c) = match alookup k c with
      | some v => some v
      | none => alookup k g := by
  unfold mergeCfg
  rw [alookup_append]
  have hmap : alookup k (g.map fun kv => (kv.1, (alookup kv.1 c).getD kv.2)) =
      (alookup k g).map fun v => (alookup k c).getD v := by
    induction g with
    | nil => rfl
    | cons x r ih =>
      obtain ⟨a, b⟩ := x
      by_cases ha : a = k
      · subst ha; simp [alookup_cons]
      · simp [alookup_cons, ha, ih]
  rw [hmap]
  cases hg : alookup k g with
  | some v => cases hc : alookup k c <;> simp
  | none =>
    simp only [Option.map_none]
    have := alookup_filter_ne k c (fun a => (alookup a g).isNone) (by simp [hg])
    rw [this]
    cases alookup k c <;> rfl

/-! ### loader options before the command name -/

theorem applyOptVals_nd (ov : List (Str × Val)) (p : Params) : (applyOptVals ov p).nd = p.nd := by
  induction ov generalizing p with
  | nil => rfl
  | cons x r ih => obtain ⟨k, v⟩ := x; simp [applyOptVals, ih, Params.setDefault]

theorem applyOptVals_vals (ov : List (Str × Val)) (hnd : (ov.map (·.1)).Nodup) (p : Params) (n : Str) :
    (applyOptVals ov p).vals n = match alookup n ov with
      | some v => some v
      | none => p.vals n := by
  induction ov generalizing p with
  | nil => simp [applyOptVals, alookup]
  | cons x r ih =>
    obtain ⟨k, v⟩ := x
    simp only [List.map_cons, List.nodup_cons] at hnd
    simp only [applyOptVals]
    rw [ih hnd.2, alookup_cons]
    by_cases hk : k = n
    · subst hk
      simp [alookup_not_mem k r hnd.1, Params.setDefault]
    · have hk' : ¬ n = k := fun e => hk e.symm
      simp [hk, hk', Params.setDefault]

end DoitModel.Opt
