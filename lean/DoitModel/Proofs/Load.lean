import DoitModel.Model.Load
/-! helper lemmas for C18 (model M6) -/
namespace DoitModel.Load

end DoitModel.Load
