import DoitModel.Model.Load
/-! helper lemmas for C18 (model M6): dictionary access, `nodupB`, the checks of `control` -/
namespace DoitModel.Load

/-! ## task dictionaries -/

theorem del_cons_eq (k : Attr) (v : RawVal) (rest : TDict) : del ((k, v) :: rest) k = del rest k := by
  simp [del, List.filter_cons]

theorem del_cons_ne (x k : Attr) (v : RawVal) (rest : TDict) (h : x ≠ k) :
    del ((x, v) :: rest) k = (x, v) :: del rest k := by
  simp [del, List.filter_cons, h]

theorem get_cons_eq (a : Attr) (v : RawVal) (rest : TDict) : get ((a, v) :: rest) a = some v := by
  simp [get]

theorem get_cons_ne (x a : Attr) (v : RawVal) (rest : TDict) (h : x ≠ a) : get ((x, v) :: rest) a = get rest a := by
  simp [get, h]

theorem get_del_ne (d : TDict) (k a : Attr) (h : a ≠ k) : get (del d k) a = get d a := by
  induction d with
  | nil => rfl
  | cons p rest ih =>
    obtain ⟨x, v⟩ := p
    by_cases hx : x = k
    · subst hx
      rw [del_cons_eq, get_cons_ne _ _ _ _ (Ne.symm h), ih]
    · rw [del_cons_ne _ _ _ _ hx]
      by_cases hxa : x = a
      · subst hxa; rw [get_cons_eq, get_cons_eq]
      · rw [get_cons_ne _ _ _ _ hxa, get_cons_ne _ _ _ _ hxa, ih]

theorem get_append (d1 d2 : TDict) (a : Attr) :
    get (d1 ++ d2) a = match get d1 a with | some v => some v | none => get d2 a := by
  induction d1 with
  | nil => simp only [List.nil_append, get]
  | cons p rest ih =>
    obtain ⟨x, v⟩ := p
    by_cases hxa : x = a
    · subst hxa; simp only [List.cons_append, get_cons_eq]
    · simp only [List.cons_append, get_cons_ne _ _ _ _ hxa]; exact ih

theorem get_del_self (d : TDict) (k : Attr) : get (del d k) k = none := by
  induction d with
  | nil => rfl
  | cons p rest ih =>
    obtain ⟨x, v⟩ := p
    by_cases hx : x = k
    · subst hx; rw [del_cons_eq]; exact ih
    · rw [del_cons_ne _ _ _ _ hx, get_cons_ne _ _ _ _ hx]; exact ih

theorem get_put_ne (d : TDict) (k a : Attr) (v : RawVal) (h : a ≠ k) : get (put d k v) a = get d a := by
  unfold put
  rw [get_append, get_del_ne d k a h]
  cases hg : get d a with
  | some w => rfl
  | none => simp [get, Ne.symm h]

theorem get_put_self (d : TDict) (k : Attr) (v : RawVal) : get (put d k v) k = some v := by
  unfold put
  rw [get_append, get_del_self]
  simp [get]

theorem mem_del (d : TDict) (k : Attr) (p : Attr × RawVal) : p ∈ del d k ↔ p ∈ d ∧ p.1 ≠ k := by
  simp [del, List.mem_filter]

theorem mem_put (d : TDict) (k : Attr) (v : RawVal) (p : Attr × RawVal) :
    p ∈ put d k v ↔ (p ∈ d ∧ p.1 ≠ k) ∨ p = (k, v) := by
  simp [put, mem_del]

/-! ## `nodupB` -/

theorem nodupB_iff (l : List Name) : nodupB l = true ↔ l.Nodup := by
  induction l with
  | nil => simp [nodupB]
  | cons x xs ih => simp [nodupB, ih, List.nodup_cons]

end DoitModel.Load
