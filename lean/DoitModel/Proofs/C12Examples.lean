import DoitModel.Proofs.C12Order
/-! # C12 — concrete task tables / run inputs for the non-vacuity example and the counterexample of `Props/C12.lean` -/
namespace DoitModel.Sel
open DoitModel

/-- names of the run model's tasks in the examples below: `x`, `xx`, `xxx`, … -/
def exNm (n : Run.Name) : Tok := List.replicate (n + 1) 'x'

theorem exNm_inj (a b : Run.Name) (h : exNm a = exNm b) : a = b := by
  have := congrArg List.length h
  simpa [exNm] using this

/-- `xx` (task_dep `x`, setup-task `xxx`), `x`, `xxxx` (task_dep `x`) -/
def exOrdTasks : List Task := [
  { name := exNm 0 },
  { name := exNm 1, taskDep := [exNm 0], setup := [exNm 2] },
  { name := exNm 2 },
  { name := exNm 3, taskDep := [exNm 0] }]

def exOrdInp : Run.RunInput :=
  { taskDep := fun n => if n = 1 ∨ n = 3 then [0] else []
    calcDep := fun _ => []
    setup := fun n => if n = 1 then [2] else []
    sel := [1, 0, 3] }

theorem exOrd_represents : Represents exOrdTasks [exNm 1, exNm 0, exNm 3] exNm exOrdInp := by
  refine ⟨rfl, exNm_inj, rfl, ?_, ?_, ?_, ?_, ?_⟩
  · intro n d hd
    simp only [exOrdInp] at hd
    split at hd
    · rename_i hn
      simp only [List.mem_singleton] at hd; subst hd
      rcases hn with rfl | rfl <;> decide
    · cases hd
  · intro n d hd; cases hd
  · intro n d _ hd
    simp only [exOrdInp] at hd
    split at hd
    · rename_i hn
      simp only [List.mem_singleton] at hd; subst hd; subst hn; decide
    · cases hd
  · intro c d hd; simp [exOrdInp] at hd
  · intro c d hd; simp [exOrdInp] at hd

/-- `x` (task_dep `xx`, setup-task `xxx`), `xx` (its action fails), `xxx`, `xxxx` (task_dep `xxxxx`, `xxx`), `xxxxx` -/
def exChunkTasks : List Task := [
  { name := exNm 0, taskDep := [exNm 1], setup := [exNm 2] },
  { name := exNm 1 },
  { name := exNm 2 },
  { name := exNm 3, taskDep := [exNm 4, exNm 2] },
  { name := exNm 4 }]

def exChunkInp : Run.RunInput :=
  { taskDep := fun n => if n = 0 then [1] else if n = 3 then [4, 2] else []
    calcDep := fun _ => []
    setup := fun n => if n = 0 then [2] else []
    sel := [0, 3]
    continue_ := true
    outcome := fun n => if n = 1 then .failed else .ok }

theorem exChunk_represents : Represents exChunkTasks [exNm 0, exNm 3] exNm exChunkInp := by
  refine ⟨rfl, exNm_inj, rfl, ?_, ?_, ?_, ?_, ?_⟩
  · intro n d hd
    simp only [exChunkInp] at hd
    split at hd
    · rename_i hn
      simp only [List.mem_singleton] at hd; subst hd; subst hn; decide
    · split at hd
      · rename_i hn
        subst hn
        simp only [List.mem_cons, List.not_mem_nil, or_false] at hd
        rcases hd with rfl | rfl <;> decide
      · cases hd
  · intro n d hd; cases hd
  · intro n d _ hd
    simp only [exChunkInp] at hd
    split at hd
    · rename_i hn
      simp only [List.mem_singleton] at hd; subst hd; subst hn; decide
    · cases hd
  · intro c d hd; simp [exChunkInp] at hd
  · intro c d hd; simp [exChunkInp] at hd

end DoitModel.Sel
