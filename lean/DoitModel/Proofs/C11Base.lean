import DoitModel.Proofs.C11Frame
/-! # C11: the invariant of the base model — the shared `teardown_list` is the start order of the tasks with teardown,
    and a run that ends without an internal error ends with every worker gone -/
namespace DoitModel.Run

structure TdB (inp : RunInput) (s : Sys) : Prop where
  shared : inp.runner ≠ .process → s.tdown = startOrder inp s.events
  proc : inp.runner = .process → s.tdown = []
  ns : ∀ w, s.nStarted ≤ w → s.workers w = .notStarted
  ser : inp.runner = .serial → s.nStarted = 0
  quiet : (s.rpc = .fin ∨ s.rpc = .halted) → s.halt = .none →
    ∀ w, s.workers w = .exited ∨ s.workers w = .notStarted
  tdm : ∀ d, Ev.teardown d ∈ s.events → d ∈ s.tdown

theorem init_tdB (inp : RunInput) : TdB inp (init inp) := by
  refine ⟨fun _ => rfl, fun _ => rfl, fun _ _ => rfl, fun _ => rfl, fun _ _ _ => Or.inr rfl, ?_⟩
  intro d h; simp [init] at h

/-- teardown reports: none is new, the list only grows -/
theorem TdB.tdm_of {inp : RunInput} {s s' : Sys} (h : TdB inp s)
    (he : ∀ d, Ev.teardown d ∈ s'.events → Ev.teardown d ∈ s.events) (ht : ∀ d ∈ s.tdown, d ∈ s'.tdown) :
    ∀ d, Ev.teardown d ∈ s'.events → d ∈ s'.tdown :=
  fun d hd => ht d (h.tdm d (he d hd))

/-- a step that starts nothing, keeps the workers, and whose target is either not the end of the run, or an error
    end, or comes with its own proof of quiescence -/
theorem TdB.plain {inp : RunInput} {s s' : Sys} (h : TdB inp s) (p : Plain s s') (hw : s'.workers = s.workers)
    (hn : s'.nStarted = s.nStarted)
    (hq : (s'.rpc = .fin ∨ s'.rpc = .halted) → s'.halt = .none →
      ∀ w, s'.workers w = .exited ∨ s'.workers w = .notStarted) : TdB inp s' := by
  obtain ⟨⟨new, e, hns⟩, t, tn⟩ := p
  refine ⟨?_, ?_, ?_, ?_, hq, ?_⟩
  rotate_left 4
  · intro d hd; rw [t]
    rcases tn d hd with a | a
    · exact h.tdm d a
    · exact a
  · intro hp; rw [t, e, startOrder_noStart inp hns]; exact h.shared hp
  · intro hp; rw [t]; exact h.proc hp
  · intro w hle; rw [hw]; exact h.ns w (hn ▸ hle)
  · intro hs; rw [hn]; exact h.ser hs

theorem notEnd_of {r : RPC} (h1 : r ≠ .fin) (h2 : r ≠ .halted) {P : Prop} : (r = .fin ∨ r = .halted) → P := by
  intro a; rcases a with a | a
  · exact absurd a h1
  · exact absurd a h2

theorem raise_plain (s : Sys) (hl : Halt) : Plain s (raise s hl) := Plain.of_same rfl rfl

theorem TdB.raise {inp : RunInput} {s : Sys} (h : TdB inp s) {hl : Halt} (hne : hl ≠ .none) : TdB inp (raise s hl) :=
  h.plain (raise_plain s hl) rfl rfl (fun _ a => absurd a hne)

theorem finishRun_plain (s : Sys) : Plain s (finishRun s) := by
  refine ⟨⟨Ev.complete :: s.tdown.map Ev.teardown, by simp [finishRun], ?_⟩, rfl, ?_⟩
  · intro e he n w
    simp only [List.mem_cons, List.mem_map] at he
    rcases he with rfl | ⟨a, _, rfl⟩ <;> (intro h; cases h)
  · intro d hd
    have : (finishRun s).events = (Ev.complete :: s.tdown.map Ev.teardown) ++ s.events := by simp [finishRun]
    rw [this] at hd
    rcases List.mem_append.mp hd with a | a
    · simp only [List.mem_cons, List.mem_map] at a
      rcases a with a | ⟨x, hx, a⟩
      · cases a
      · cases a; exact Or.inr hx
    · exact Or.inl a

theorem TdB.finishRun {inp : RunInput} {s : Sys} (h : TdB inp s) (hr : s.rpc = .fin) : TdB inp (finishRun s) :=
  h.plain (finishRun_plain s) rfl rfl (fun _ hh => h.quiet (Or.inl hr) hh)

theorem applySel_plain (inp : RunInput) (s : Sys) (n : Name) (nd : Node) (d : Sel) (r : RPC) :
    Plain s { applySel inp s n nd d with rpc := r } :=
  ⟨⟨selEvents inp n nd d, applySel_events inp s n nd d, selEvents_noStart inp n nd d⟩, (applySel_outer inp s n nd d).1,
    tdn_of_noTd (applySel_events inp s n nd d) (selEvents_noTd inp n nd d)⟩

theorem processResult_plain (inp : RunInput) (s : Sys) (n : Name) (nd : Node) :
    Plain s (processResult inp s n nd) :=
  ⟨⟨resEvents n (inp.outcome n), processResult_events inp s n nd, resEvents_noStart n _⟩,
    (processResult_outer inp s n nd).1, tdn_of_noTd (processResult_events inp s n nd) (resEvents_noTd n _)⟩

theorem Plain.trans {a b c : Sys} (h1 : Plain a b) (h2 : Plain b c) : Plain a c := by
  obtain ⟨⟨n1, e1, p1⟩, t1, d1⟩ := h1
  obtain ⟨⟨n2, e2, p2⟩, t2, d2⟩ := h2
  refine ⟨⟨n2 ++ n1, by rw [e2, e1, List.append_assoc], ?_⟩, t2.trans t1, ?_⟩
  · intro e he
    rcases List.mem_append.mp he with a | a
    · exact p2 e a
    · exact p1 e a
  · intro d hd
    rcases d2 d hd with a | a
    · exact d1 d a
    · exact Or.inr (t1 ▸ a)

theorem Plain.setRpc {s x : Sys} (h : Plain s x) (r : RPC) : Plain s { x with rpc := r } := ⟨h.ev, h.td, h.tdn⟩

/-- `execute_task` entered: start event, teardown registration -/
theorem startTask_tdB {inp : RunInput} {s : Sys} (h : TdB inp s) (n w : Nat) :
    (inp.runner ≠ .process → (startTask inp s n w).tdown = startOrder inp (startTask inp s n w).events) ∧
    (inp.runner = .process → (startTask inp s n w).tdown = []) := by
  constructor
  · intro hp
    have e : (startTask inp s n w).events = [Ev.start n w, Ev.execute n] ++ s.events := by simp [startTask, hp]
    rw [e, startOrder_append, ← h.shared hp]
    by_cases ht : inp.hasTeardown n = true <;> simp [startTask, hp, ht, tdName]
  · intro hp; simp [startTask, hp, h.proc hp]

theorem startTask_tdm {inp : RunInput} {s : Sys} (h : TdB inp s) (n w : Nat) :
    ∀ d, Ev.teardown d ∈ (startTask inp s n w).events → d ∈ (startTask inp s n w).tdown := by
  intro d hd
  have hd' : Ev.teardown d ∈ s.events := by
    simp only [startTask] at hd
    split at hd <;> simpa using hd
  have := h.tdm d hd'
  simp only [startTask]
  split
  · exact List.mem_append.mpr (Or.inl this)
  · exact this

/-- `process_task_result` on a state `x` that differs plainly from `s`, then the runner moves on to `r` -/
theorem TdB.result {inp : RunInput} {s : Sys} (h : TdB inp s) (x : Sys) (n : Name) (nd : Node) (r : RPC)
    (px : Plain s x) (hw : x.workers = s.workers) (hn : x.nStarted = s.nStarted)
    (hr1 : r ≠ .fin) (hr2 : r ≠ .halted) : TdB inp { processResult inp x n nd with rpc := r } := by
  have o := processResult_outer inp x n nd
  exact h.plain ((px.trans (processResult_plain inp x n nd)).setRpc r) (o.2.2.2.1.trans hw) (o.2.2.1.trans hn)
    (notEnd_of hr1 hr2)

/-! ### the serial runner -/

theorem serialStep_tdB {inp : RunInput} {s s' : Sys} {perm : List Name} (h : TdB inp s) (hser : inp.runner = .serial)
    (hs : serialStep inp s perm = some s') : TdB inp s' := by
  have allNS : ∀ w, s.workers w = .notStarted := fun w => h.ns w (by rw [h.ser hser]; exact Nat.zero_le _)
  unfold serialStep at hs
  cases hr : s.rpc with
  | sTop node =>
    simp only [hr] at hs
    split at hs
    · cases hs
      exact h.plain (Plain.of_same rfl rfl) rfl rfl (fun _ _ w => Or.inr (allNS w))
    · cases hsd : send inp s node perm with
      | none => simp only [hsd] at hs; cases hs
      | some s0 =>
        simp only [hsd] at hs; cases hs
        have o := (send_outer hsd).1
        exact h.plain (Plain.of_same o.1 o.2.2.2.2.2.2.2.1) o.2.2.2.2.1 o.2.2.2.2.2.2.2.2.2.2.2
          (notEnd_of (by simp) (by simp))
  | sWait =>
    simp only [hr] at hs
    cases hsu : s.susp with
    | none =>
      simp only [hsu] at hs
      have o := dtick_outer hs
      refine h.plain (Plain.of_outer o) o.2.2.2.2.1 o.2.2.2.2.2.2.2.2.2.2.2 ?_
      rw [o.2.1, hr]; exact notEnd_of (by simp) (by simp)
    | some o =>
      simp only [hsu] at hs
      cases o with
      | init => cases hs
      | node n =>
        simp only [] at hs
        cases hn : s.nodes n with
        | none => simp only [hn] at hs; cases hs; exact h.raise (by simp)
        | some nd =>
          simp only [hn] at hs
          have key : ∀ d, TdB inp { applySel inp s n nd d with rpc := .sTop (some n) } := fun d =>
            h.plain (applySel_plain inp s n nd d _) (applySel_outer inp s n nd d).2.2.2.1
              (applySel_outer inp s n nd d).2.2.1 (notEnd_of (by simp) (by simp))
          -- execute_task: the start event and the registration
          have ha := applySel_outer inp s n nd .go
          have hb : TdB inp (applySel inp s n nd .go) :=
            h.plain ⟨⟨selEvents inp n nd .go, applySel_events inp s n nd .go, selEvents_noStart inp n nd .go⟩, ha.1,
              tdn_of_noTd (applySel_events inp s n nd .go) (selEvents_noTd inp n nd .go)⟩
              ha.2.2.2.1 ha.2.2.1 (by rw [ha.2.2.2.2.1, hr]; exact notEnd_of (by simp) (by simp))
          have hst := startTask_tdB hb n 0
          cases hd : selDecision inp n nd <;> simp only [hd] at hs <;> cases hs
          all_goals first
            | exact key _
            | exact h.raise (by simp)
            | exact ⟨hst.1, hst.2, fun w hw => hb.ns w hw, fun x => hb.ser x, notEnd_of (by simp) (by simp),
                startTask_tdm hb n 0⟩
      | stopIter =>
        cases hs
        exact h.plain (Plain.of_same rfl rfl) rfl rfl (fun _ _ w => Or.inr (allNS w))
      | cyclic c => cases hs; exact h.raise (by simp)
      | holdOn => cases hs; exact h.raise (by simp)
      | crash => cases hs; exact h.raise (by simp)
  | sExec n =>
    simp only [hr] at hs
    cases hn : s.nodes n with
    | none => simp only [hn] at hs; cases hs; exact h.raise (by simp)
    | some nd =>
      simp only [hn] at hs; cases hs
      exact h.result _ n nd _ ⟨⟨[Ev.fin n 0], rfl, fun e he a b => by simp at he; subst he; intro x; cases x⟩, rfl,
        fun d hd => Or.inl (by simpa using hd)⟩
        rfl rfl (by simp) (by simp)
  | fin => simp only [hr] at hs; cases hs; exact h.finishRun hr
  | gEntry _ _ => simp [hr] at hs
  | gLoop _ _ => simp [hr] at hs
  | gWait _ => simp [hr] at hs
  | gRet _ _ => simp [hr] at hs
  | pTop => simp [hr] at hs
  | pJoin => simp [hr] at hs
  | halted => simp [hr] at hs

end DoitModel.Run
