import DoitModel.Proofs.C08Conf7
import DoitModel.Proofs.C08Conf8
import DoitModel.Proofs.C08Conf12
import DoitModel.Proofs.C08Conf13
import DoitModel.Proofs.C08Conf14
/-! # C08 (I10) confluence: every finished `run_status` and every terminal report equals the schedule-independent
    denotation `DenOf` — for every reachable state of the serial runner and of the parallel runners, every choice
    sequence.  Restriction: graphs without calc_dep (`NoCalc`). -/
namespace DoitModel.Run

theorem reachable_invDen {inp : RunInput} [NoFailDeliver inp] {s : Sys} (hnc : NoCalc inp) (hr : Reach inp s ∨ PReach inp s) : InvDen inp s := by
  rcases hr with h | h
  · exact reach_invDen hnc h
  · exact preach_invDen hnc h

/-- a finished run_status is the status of THE derived outcome of the task -/
theorem status_is_den {inp : RunInput} [NoFailDeliver inp] {s : Sys} (hnc : NoCalc inp) (hr : Reach inp s ∨ PReach inp s) (t : Name)
    (hf : (stOf s t).finished = true) : ∃ d, DenOf inp t d ∧ d.rs = stOf s t :=
  (reachable_invDen hnc hr).fin t hf

/-- a terminal report (success / up-to-date / ignored / failure of kind k) is THE derived outcome of the task -/
theorem report_is_den {inp : RunInput} [NoFailDeliver inp] {s : Sys} (hnc : NoCalc inp) (hr : Reach inp s ∨ PReach inp s) (t : Name)
    (d : Den) (h : ∃ e ∈ s.events, Ev.den? t e = some d) : DenOf inp t d := by
  obtain ⟨e, he, hd⟩ := h
  exact (reachable_invDen hnc hr).den.rep e he t d hd

/-- the same, on the observable trace as the monitors read it -/
theorem reportOf_is_den {inp : RunInput} [NoFailDeliver inp] {s : Sys} (hnc : NoCalc inp) (hr : Reach inp s ∨ PReach inp s) (t : Name)
    (d : Den) (h : reportOf (trace inp s) t = some d) : DenOf inp t d := by
  unfold reportOf at h
  obtain ⟨e, he, hd⟩ := List.exists_of_findSome?_eq_some h
  apply report_is_den hnc hr t d
  refine ⟨e, ?_, hd⟩
  unfold trace at he
  exact (List.mem_filter.mp (List.mem_reverse.mp he)).1

theorem SameTasks.noCalc {a b : RunInput} (h : SameTasks a b) (hnc : NoCalc a) : NoCalc b := by
  intro n; rw [← h.calcDep]; exact hnc n

/-- two runs of the same task table — any runner kind, any number of processes, any selection, with or without
    `--continue`, any schedule — give a task they both finish the same `run_status` -/
theorem confluent_status {inp1 inp2 : RunInput} [NoFailDeliver inp2] [NoFailDeliver inp1] {s1 s2 : Sys} (hsame : SameTasks inp1 inp2) (hnc : NoCalc inp1)
    (h1 : Reach inp1 s1 ∨ PReach inp1 s1) (h2 : Reach inp2 s2 ∨ PReach inp2 s2) (t : Name)
    (f1 : (stOf s1 t).finished = true) (f2 : (stOf s2 t).finished = true) : stOf s1 t = stOf s2 t := by
  obtain ⟨d1, a1, b1⟩ := status_is_den hnc h1 t f1
  obtain ⟨d2, a2, b2⟩ := status_is_den (hsame.noCalc hnc) h2 t f2
  rw [← b1, ← b2, a1.functional (a2.same hsame.symm)]

/-- … and the same terminal report (including the failure kind) -/
theorem confluent_report {inp1 inp2 : RunInput} [NoFailDeliver inp2] [NoFailDeliver inp1] {s1 s2 : Sys} (hsame : SameTasks inp1 inp2) (hnc : NoCalc inp1)
    (h1 : Reach inp1 s1 ∨ PReach inp1 s1) (h2 : Reach inp2 s2 ∨ PReach inp2 s2) (t : Name) (d1 d2 : Den)
    (r1 : ∃ e ∈ s1.events, Ev.den? t e = some d1) (r2 : ∃ e ∈ s2.events, Ev.den? t e = some d2) : d1 = d2 :=
  (report_is_den hnc h1 t d1 r1).functional ((report_is_den (hsame.noCalc hnc) h2 t d2 r2).same hsame.symm)

/-- the pair monitor's per-task clause: where both traces report `t`, the reports are equal -/
theorem confluent_reportOf {inp1 inp2 : RunInput} [NoFailDeliver inp2] [NoFailDeliver inp1] {s1 s2 : Sys} (hsame : SameTasks inp1 inp2) (hnc : NoCalc inp1)
    (h1 : Reach inp1 s1 ∨ PReach inp1 s1) (h2 : Reach inp2 s2 ∨ PReach inp2 s2) (t : Name)
    (r1 : (reportOf (trace inp1 s1) t).isSome = true) (r2 : (reportOf (trace inp2 s2) t).isSome = true) :
    reportOf (trace inp1 s1) t = reportOf (trace inp2 s2) t := by
  obtain ⟨d1, e1⟩ := Option.isSome_iff_exists.mp r1
  obtain ⟨d2, e2⟩ := Option.isSome_iff_exists.mp r2
  rw [e1, e2]
  have := (reportOf_is_den hnc h1 t d1 e1).functional ((reportOf_is_den (hsame.noCalc hnc) h2 t d2 e2).same hsame.symm)
  rw [this]

/-- a status and a report of the same task agree, also across runs -/
theorem status_matches_report {inp1 inp2 : RunInput} [NoFailDeliver inp2] [NoFailDeliver inp1] {s1 s2 : Sys} (hsame : SameTasks inp1 inp2) (hnc : NoCalc inp1)
    (h1 : Reach inp1 s1 ∨ PReach inp1 s1) (h2 : Reach inp2 s2 ∨ PReach inp2 s2) (t : Name) (d : Den)
    (f1 : (stOf s1 t).finished = true) (r2 : ∃ e ∈ s2.events, Ev.den? t e = some d) : stOf s1 t = d.rs := by
  obtain ⟨d1, a1, b1⟩ := status_is_den hnc h1 t f1
  rw [← b1, a1.functional ((report_is_den (hsame.noCalc hnc) h2 t d r2).same hsame.symm)]

/-! ### against the executable denotation `denF` (acyclic graphs) -/

/-- every terminal report of a run equals `denF` (fuel above the rank): the per-task clause of `monC08Den` -/
theorem report_is_denF {inp : RunInput} [NoFailDeliver inp] {s : Sys} {r : Name → Nat} (hnc : NoCalc inp) (hac : Acyclic inp r)
    (hr : Reach inp s ∨ PReach inp s) (t : Name) (d : Den) (f : Nat) (hf : r t < f)
    (h : reportOf (trace inp s) t = some d) : denF inp f t = d :=
  denF_unique hac (reportOf_is_den hnc hr t d h) f hf

theorem status_is_denF {inp : RunInput} [NoFailDeliver inp] {s : Sys} {r : Name → Nat} (hnc : NoCalc inp) (hac : Acyclic inp r)
    (hr : Reach inp s ∨ PReach inp s) (t : Name) (f : Nat) (hf : r t < f)
    (h : (stOf s t).finished = true) : (denF inp f t).rs = stOf s t := by
  obtain ⟨d, a, b⟩ := status_is_den hnc hr t h
  rw [denF_unique hac a f hf]; exact b

/-- the first conjunct of the monitor `monC08Den`, for the model's own traces -/
theorem C08_monitor_reports {inp : RunInput} [NoFailDeliver inp] {s : Sys} {r : Name → Nat} (hnc : NoCalc inp) (hac : Acyclic inp r)
    (hr : Reach inp s ∨ PReach inp s) (nTasks : Nat) (hb : ∀ t, r t ≤ nTasks) :
    ((List.range nTasks).all fun t =>
      match reportOf (trace inp s) t with
      | some d => denF inp (nTasks + 1) t == d
      | none => true) = true := by
  simp only [List.all_eq_true, List.mem_range]
  intro t _
  cases h : reportOf (trace inp s) t with
  | none => rfl
  | some d =>
    have := report_is_denF hnc hac hr t d (nTasks + 1) (by have := hb t; omega) h
    simp [this]

/-! ### exit code -/

theorem den?_fail {t : Name} {e : Ev} {k : FailKind} (h : Ev.den? t e = some (.fail k)) : e = .failure t k := by
  cases e <;> simp only [Ev.den?] at h <;> first
    | cases h
    | (split at h
       · rename_i e'; subst e'; cases h; try rfl
       · cases h)

/-- hidden events are never failure reports: the observable trace gives the same fold -/
theorem exitOfTrace_trace (inp : RunInput) (s : Sys) : exitOfTrace (trace inp s) = exitOfTrace s.events.reverse := by
  apply exitOfTrace_set
  intro k
  unfold trace
  simp only [List.mem_reverse, List.mem_filter]
  exact ⟨fun ⟨n, a, _⟩ => ⟨n, a⟩, fun ⟨n, a⟩ => ⟨n, a, by simp [hidden]⟩⟩

/-- the exit code of a run that no exception ended, from its observable trace -/
theorem exit_of_trace {inp : RunInput} {s : Sys} (hr : Reach inp s ∨ PReach inp s) (hh : s.halt = .none) :
    exitCode s = exitOfTrace (trace inp s) := by
  rw [exitOfTrace_trace]; exact exit_of_reports hr hh

/-- two runs of the same task table that report the same set of tasks exit with the same code (the second clause of
    `monC08Pair`): by confluence the reports per task are equal, and the exit code only reads the set of failure kinds -/
theorem confluent_exit {inp1 inp2 : RunInput} [NoFailDeliver inp2] [NoFailDeliver inp1] {s1 s2 : Sys} (hsame : SameTasks inp1 inp2) (hnc : NoCalc inp1)
    (h1 : Reach inp1 s1 ∨ PReach inp1 s1) (h2 : Reach inp2 s2 ∨ PReach inp2 s2)
    (hh1 : s1.halt = .none) (hh2 : s2.halt = .none)
    (hset : ∀ t, (∃ d, ∃ e ∈ s1.events, Ev.den? t e = some d) ↔ (∃ d, ∃ e ∈ s2.events, Ev.den? t e = some d)) :
    exitCode s1 = exitCode s2 := by
  rw [exit_of_reports h1 hh1, exit_of_reports h2 hh2]
  apply exitOfTrace_set
  intro k
  simp only [List.mem_reverse]
  constructor
  · rintro ⟨n, hn⟩
    have r1 : ∃ e ∈ s1.events, Ev.den? n e = some (.fail k) := ⟨_, hn, by simp [Ev.den?]⟩
    obtain ⟨d2, e2, he2, hd2⟩ := (hset n).mp ⟨_, r1⟩
    have := confluent_report hsame hnc h1 h2 n _ d2 r1 ⟨e2, he2, hd2⟩
    subst this
    exact ⟨n, by rw [← den?_fail hd2]; exact he2⟩
  · rintro ⟨n, hn⟩
    have r2 : ∃ e ∈ s2.events, Ev.den? n e = some (.fail k) := ⟨_, hn, by simp [Ev.den?]⟩
    obtain ⟨d1, e1, he1, hd1⟩ := (hset n).mpr ⟨_, r2⟩
    have := confluent_report hsame hnc h1 h2 n d1 _ ⟨e1, he1, hd1⟩ r2
    subst this
    exact ⟨n, by rw [← den?_fail hd1]; exact he1⟩

/-! ### complete runs: same reported set, same exit code -/

theorem R1_same {a b : RunInput} (h : SameTasks a b) {n : Name} (r : R1 a n) : R1 b n := by
  obtain ⟨dd, hT, h1⟩ := r
  refine ⟨dd, ?_, by rw [← stage1_same h]; exact h1⟩
  intro d hd; rw [← h.taskDep] at hd; exact (hT d hd).same h

theorem DenCl_same {a b : RunInput} (h : SameTasks a b) (hsel : ∀ t, t ∈ a.sel → t ∈ b.sel) {t : Name}
    (c : DenCl a t) : DenCl b t := by
  induction c with
  | ofSel hm => exact DenCl.ofSel (hsel _ hm)
  | ofTask _ hd ih => exact DenCl.ofTask ih (by rw [← h.taskDep]; exact hd)
  | ofSetup _ hr hd ih => exact DenCl.ofSetup ih (R1_same h hr) (by rw [← h.setup]; exact hd)

/-- two complete runs of the same task table and selection (any runner, any schedule) report the same tasks -/
theorem complete_runs_same_reported {inp1 inp2 : RunInput} [NoFailDeliver inp2] [NoFailDeliver inp1] {s1 s2 : Sys} (hsame : SameTasks inp1 inp2)
    (hsel : ∀ t, t ∈ inp1.sel ↔ t ∈ inp2.sel) (hnc : NoCalc inp1)
    (h1 : Reach inp1 s1 ∨ PReach inp1 s1) (h2 : Reach inp2 s2 ∨ PReach inp2 s2)
    (e1 : s1.rpc = .halted ∧ s1.halt = .none ∧ s1.stop = false)
    (e2 : s2.rpc = .halted ∧ s2.halt = .none ∧ s2.stop = false) (t : Name) :
    Reported s1 t ↔ Reported s2 t := by
  rw [reported_iff_closure hnc h1 e1.1 e1.2.1 e1.2.2, reported_iff_closure (hsame.noCalc hnc) h2 e2.1 e2.2.1 e2.2.2]
  exact ⟨DenCl_same hsame (fun t => (hsel t).mp), DenCl_same hsame.symm (fun t => (hsel t).mpr)⟩

/-- … and exit with the same code: the whole of `monC08Pair` for complete runs -/
theorem complete_runs_same_exit {inp1 inp2 : RunInput} [NoFailDeliver inp2] [NoFailDeliver inp1] {s1 s2 : Sys} (hsame : SameTasks inp1 inp2)
    (hsel : ∀ t, t ∈ inp1.sel ↔ t ∈ inp2.sel) (hnc : NoCalc inp1)
    (h1 : Reach inp1 s1 ∨ PReach inp1 s1) (h2 : Reach inp2 s2 ∨ PReach inp2 s2)
    (e1 : s1.rpc = .halted ∧ s1.halt = .none ∧ s1.stop = false)
    (e2 : s2.rpc = .halted ∧ s2.halt = .none ∧ s2.stop = false) : exitCode s1 = exitCode s2 :=
  confluent_exit hsame hnc h1 h2 e1.2.1 e2.2.1 (complete_runs_same_reported hsame hsel hnc h1 h2 e1 e2)

theorem exitOfDens_failset {ds ds' : List Den} (h : ∀ k, Den.fail k ∈ ds ↔ Den.fail k ∈ ds') :
    exitOfDens ds = exitOfDens ds' := by
  have key : ∀ f : Den → Bool, (∀ d, f d = true → ∃ k, d = .fail k) → ds.any f = ds'.any f := by
    intro f hf
    rw [Bool.eq_iff_iff, List.any_eq_true, List.any_eq_true]
    constructor
    · rintro ⟨x, a, b⟩; obtain ⟨k, rfl⟩ := hf x b; exact ⟨_, (h k).mp a, b⟩
    · rintro ⟨x, a, b⟩; obtain ⟨k, rfl⟩ := hf x b; exact ⟨_, (h k).mpr a, b⟩
  unfold exitOfDens
  rw [key _ (by intro d hd; cases d <;> simp at hd; exact ⟨_, rfl⟩),
      key _ (by intro d hd; exact ⟨.failed, by simpa using hd⟩)]

/-- the exit code of a complete run is the denotation's: `exitOfDens` over the outcomes of the closure, however the
    closure is enumerated (`L`) and the outcomes are computed (`den`) -/
theorem complete_exit_is_den {inp : RunInput} [NoFailDeliver inp] {s : Sys} (hnc : NoCalc inp) (hr : Reach inp s ∨ PReach inp s)
    (hend : s.rpc = .halted) (hhalt : s.halt = .none) (hstop : s.stop = false)
    (L : List Name) (hL : ∀ t, t ∈ L ↔ DenCl inp t) (den : Name → Den) (hden : ∀ t ∈ L, DenOf inp t (den t)) :
    exitCode s = exitOfDens (L.map den) := by
  rw [exit_of_reports hr hhalt, exitOfTrace_eq_exitOfDens]
  apply exitOfDens_failset
  intro k
  simp only [List.mem_filterMap, List.mem_reverse, List.mem_map]
  constructor
  · rintro ⟨e, he, hd⟩
    cases e <;> simp [Ev.failDen] at hd
    rename_i n k'; subst hd
    have hrep : ∃ e ∈ s.events, Ev.den? n e = some (.fail k') := ⟨_, he, by simp [Ev.den?]⟩
    have hcl := reported_in_closure hnc hr n ⟨_, hrep⟩
    have hn : n ∈ L := (hL n).mpr hcl
    exact ⟨n, hn, (hden n hn).functional (report_is_den hnc hr n _ hrep)⟩
  · rintro ⟨n, hn, hd⟩
    obtain ⟨d, e, he, hde⟩ := closure_reported hnc hr hend hhalt hstop n ((hL n).mp hn)
    have := (report_is_den hnc hr n d ⟨e, he, hde⟩).functional (hden n hn)
    rw [this, hd] at hde
    exact ⟨e, he, by rw [den?_fail hde]; rfl⟩

/-- the executable closure `denClosure` of `Model/RunData.lean` enumerates `DenCl` -/
def DenClosureSpec (inp : RunInput) (nTasks : Nat) : Prop := ∀ t, t ∈ denClosure inp nTasks ↔ DenCl inp t

/-- … it does whenever the computed list is stable under one more round (`ClosureStable`, decidable) -/
theorem denClosureSpec_of_stable {inp : RunInput} {r : Name → Nat} (hac : Acyclic inp r) (nTasks : Nat)
    (hb : ∀ t, r t ≤ nTasks) (hst : ClosureStable inp nTasks) : DenClosureSpec inp nTasks :=
  fun t => ⟨denClosure_sound hac nTasks hb t, denClosure_complete hac nTasks hb hst t⟩

/-- `nTasks + 1` rounds always reach the fixpoint when every member of the closure is a task number below `nTasks`
    (`closureStable`, a counting argument over the rounds of `denCloseIter`): the executable closure is the
    denotational one -/
theorem denClosure_spec {inp : RunInput} {r : Name → Nat} (hac : Acyclic inp r) (nTasks : Nat)
    (hb : ∀ t, r t ≤ nTasks) (hlt : ∀ t, DenCl inp t → t < nTasks) : DenClosureSpec inp nTasks :=
  denClosureSpec_of_stable hac nTasks hb (closureStable hac nTasks hb hlt)

/-- the exit clause of `monC08Den` -/
theorem complete_exit_is_denExit {inp : RunInput} [NoFailDeliver inp] {s : Sys} {r : Name → Nat} (hnc : NoCalc inp)
    (hac : Acyclic inp r) (hr : Reach inp s ∨ PReach inp s)
    (hend : s.rpc = .halted) (hhalt : s.halt = .none) (hstop : s.stop = false)
    (nTasks : Nat) (hb : ∀ t, r t ≤ nTasks) (hst : ClosureStable inp nTasks) :
    exitCode s = denExit inp nTasks :=
  complete_exit_is_den hnc hr hend hhalt hstop _ (denClosureSpec_of_stable hac nTasks hb hst) _
    (fun t _ => denF_is_den hac (nTasks + 1) t (by have := hb t; omega))

theorem reportOf_isSome_iff (inp : RunInput) (s : Sys) (t : Name) :
    (reportOf (trace inp s) t).isSome = true ↔ Reported s t := by
  unfold reportOf Reported trace
  rw [List.findSome?_isSome_iff]
  constructor
  · rintro ⟨e, he, hd⟩
    obtain ⟨d, hd'⟩ := Option.isSome_iff_exists.mp hd
    exact ⟨d, e, (List.mem_filter.mp (List.mem_reverse.mp he)).1, hd'⟩
  · rintro ⟨d, e, he, hd⟩
    refine ⟨e, List.mem_reverse.mpr (List.mem_filter.mpr ⟨he, ?_⟩), by rw [hd]; rfl⟩
    cases e <;> simp [Ev.den?] at hd <;> simp [hidden]

/-- the monitor `monC08Den` (the property (P) of C08 against the denotation) holds of every trace of the model:
    every prefix satisfies the report clause; a complete run also the closure and the exit-code clause -/
theorem C08_monitor_den {inp : RunInput} [NoFailDeliver inp] {s : Sys} {r : Name → Nat} (hnc : NoCalc inp) (hac : Acyclic inp r)
    (hr : Reach inp s ∨ PReach inp s) (nTasks : Nat) (hb : ∀ t, r t ≤ nTasks) (hst : ClosureStable inp nTasks)
    (complete : Bool) (hc : complete = true → s.rpc = .halted ∧ s.halt = .none ∧ s.stop = false) :
    monC08Den inp nTasks (trace inp s) (exitCode s) complete = true := by
  unfold monC08Den
  rw [Bool.and_eq_true]
  refine ⟨C08_monitor_reports hnc hac hr nTasks hb, ?_⟩
  cases complete with
  | false => rfl
  | true =>
    obtain ⟨e1, e2, e3⟩ := hc rfl
    simp only [Bool.not_true, Bool.false_or, Bool.and_eq_true, List.all_eq_true, List.mem_range, beq_iff_eq]
    refine ⟨?_, complete_exit_is_denExit hnc hac hr e1 e2 e3 nTasks hb hst⟩
    intro t _
    rw [Bool.eq_iff_iff, reportOf_isSome_iff, decide_eq_true_iff, reported_iff_closure hnc hr e1 e2 e3]
    exact ((denClosureSpec_of_stable hac nTasks hb hst) t).symm

/-- `C08_monitor_den` with the stability of the computed closure discharged: it suffices that the closure of the
    selection consists of task numbers below `nTasks` -/
theorem C08_monitor_den' {inp : RunInput} [NoFailDeliver inp] {s : Sys} {r : Name → Nat} (hnc : NoCalc inp) (hac : Acyclic inp r)
    (hr : Reach inp s ∨ PReach inp s) (nTasks : Nat) (hb : ∀ t, r t ≤ nTasks)
    (hlt : ∀ t, DenCl inp t → t < nTasks)
    (complete : Bool) (hc : complete = true → s.rpc = .halted ∧ s.halt = .none ∧ s.stop = false) :
    monC08Den inp nTasks (trace inp s) (exitCode s) complete = true :=
  C08_monitor_den hnc hac hr nTasks hb (closureStable hac nTasks hb hlt) complete hc

/-- the pair monitor `monC08Pair` holds of any two complete runs of the same task table and selection -/
theorem C08_monitor_pair {inp1 inp2 : RunInput} [NoFailDeliver inp2] [NoFailDeliver inp1] {s1 s2 : Sys} (hsame : SameTasks inp1 inp2)
    (hsel : ∀ t, t ∈ inp1.sel ↔ t ∈ inp2.sel) (hnc : NoCalc inp1)
    (h1 : Reach inp1 s1 ∨ PReach inp1 s1) (h2 : Reach inp2 s2 ∨ PReach inp2 s2)
    (e1 : s1.rpc = .halted ∧ s1.halt = .none ∧ s1.stop = false)
    (e2 : s2.rpc = .halted ∧ s2.halt = .none ∧ s2.stop = false) (nTasks : Nat) :
    monC08Pair nTasks (trace inp1 s1) (trace inp2 s2) (exitCode s1) (exitCode s2) = true := by
  unfold monC08Pair
  simp only [Bool.and_eq_true, List.all_eq_true, List.mem_range, beq_iff_eq]
  refine ⟨?_, complete_runs_same_exit hsame hsel hnc h1 h2 e1 e2⟩
  intro t _
  have hiff := complete_runs_same_reported hsame hsel hnc h1 h2 e1 e2 t
  rw [← reportOf_isSome_iff inp1, ← reportOf_isSome_iff inp2] at hiff
  cases hx : reportOf (trace inp1 s1) t with
  | none =>
    cases hy : reportOf (trace inp2 s2) t with
    | none => rfl
    | some d => rw [hx, hy] at hiff; simp at hiff
  | some d =>
    have a : (reportOf (trace inp1 s1) t).isSome = true := by rw [hx]; rfl
    rw [← hx]
    exact confluent_reportOf hsame hnc h1 h2 t a (hiff.mp a)

/-! ### non-vacuity -/

/-- `1` (selected) has task_dep `0` and setup-task `2`; `2` fails; `3` (selected) has task_dep `2`; `--continue`;
    two worker threads -/
def exC08 : RunInput :=
  { taskDep := fun n => if n = 1 then [0] else if n = 3 then [2] else []
    calcDep := fun _ => []
    setup := fun n => if n = 1 then [2] else []
    sel := [1, 3], continue_ := true
    outcome := fun n => if n = 2 then .failed else .ok
    runner := .thread, numProc := 2 }

instance : NoFailDeliver exC08 := ⟨fun _ => rfl⟩

theorem exC08_noCalc : NoCalc exC08 := fun _ => rfl

theorem exC08_acyclic : Acyclic exC08 (fun n => if n = 1 ∨ n = 3 then 1 else 0) := by
  intro n
  by_cases h1 : n = 1
  · subst h1; simp [exC08]
  · by_cases h3 : n = 3
    · subst h3; simp [exC08]
    · simp [exC08, h1, h3]

theorem exC08_stable : ClosureStable exC08 4 := by decide +kernel

/-- the hypotheses of the complete-run theorems are met by a run with two worker threads, and the same input under
    the serial runner; `1` is reported `unmet` at its second pass because its setup-task failed -/
example : ∃ s, PReach exC08 s ∧ s.rpc = .halted ∧ s.halt = .none ∧ s.stop = false ∧
    Ev.failure 1 .unmet ∈ s.events ∧ exitCode s = 2 :=
  ⟨_, autoRun_preach (by decide) false true 400 _ PReach.init, by decide +kernel, by decide +kernel,
    by decide +kernel, by decide +kernel, by decide +kernel⟩

example : ∃ s, Reach { exC08 with runner := .serial, numProc := 0 } s ∧ s.rpc = .halted ∧ s.halt = .none ∧
    s.stop = false :=
  ⟨_, autoRun_reach (by decide) false false 400 _ Reach.init, by decide +kernel, by decide +kernel, by decide +kernel⟩

example : denExit exC08 4 = 2 := by decide +kernel

/-- the monitor theorem applies to that run (not by evaluation of the monitor: by `C08_monitor_den`) -/
example : ∃ s, PReach exC08 s ∧ monC08Den exC08 4 (trace exC08 s) (exitCode s) true = true :=
  ⟨_, autoRun_preach (by decide) false true 400 _ PReach.init,
   C08_monitor_den exC08_noCalc exC08_acyclic (Or.inr (autoRun_preach (by decide) false true 400 _ PReach.init)) 4
     (fun t => by show (if t = 1 ∨ t = 3 then 1 else 0) ≤ 4; split <;> omega) exC08_stable true
     (fun _ => ⟨by decide +kernel, by decide +kernel, by decide +kernel⟩)⟩

end DoitModel.Run
